(* Task SX: the sorted symbolic-expression map (ByteInterval._symbolic_expressions) and its lookups.
   1. SymxSorted is preserved by every operation (and holds initially);
   2. the eight OSymx* operations refine the built-in dict;
   3. bi_symx_at / bi_symx_at_off are exact;
   4. scope composition (any list of intervals; the envelope at section scope). *)
From Coq Require Import ZArith List Bool Lia.
From V Require Import Result LazyTree World WorldGuard ForestDefs InvDefs.
Import ListNotations.
Open Scope Z_scope.

(* ================================================================== *)
(* Part A: which operations touch `symx` (frame lemmas)               *)
(* ================================================================== *)

Lemma symx_set_nodes w f : symx (set_nodes w f) = symx w. Proof. reflexivity. Qed.
Lemma symx_set_kids w f : symx (set_kids w f) = symx w. Proof. reflexivity. Qed.
Lemma symx_set_cache w f : symx (set_cache w f) = symx w. Proof. reflexivity. Qed.
Lemma symx_set_nix w f : symx (set_nix w f) = symx w. Proof. reflexivity. Qed.
Lemma symx_set_rix w f : symx (set_rix w f) = symx w. Proof. reflexivity. Qed.
Lemma symx_set_tree w f : symx (set_tree w f) = symx w. Proof. reflexivity. Qed.
Lemma symx_setn w n x : symx (setn w n x) = symx w. Proof. reflexivity. Qed.
Lemma symx_set_par w n p : symx (set_par w n p) = symx w. Proof. reflexivity. Qed.
Lemma symx_cache_add w ir n : symx (cache_add w ir n) = symx w. Proof. reflexivity. Qed.
Lemma symx_cache_remove w ir n : symx (fst (cache_remove w ir n)) = symx w. Proof. reflexivity. Qed.
Lemma symx_tree_add_ev w o i : symx (tree_add_ev w o i) = symx w. Proof. reflexivity. Qed.
Lemma symx_tree_disc_ev w o i : symx (tree_disc_ev w o i) = symx w. Proof. reflexivity. Qed.
Lemma symx_drop_kid w p c : symx (drop_kid w p c) = symx w. Proof. reflexivity. Qed.
Lemma symx_push_kid w p c : symx (push_kid w p c) = symx w. Proof. reflexivity. Qed.

Lemma symx_mod_index_add w m n : symx (mod_index_add w m n) = symx w.
Proof.
  unfold mod_index_add. destruct (kindof w n); try reflexivity.
  destruct (referent (getn w n)); reflexivity.
Qed.

Lemma symx_mod_index_discard w m n : symx (mod_index_discard w m n) = symx w.
Proof.
  unfold mod_index_discard. destruct (kindof w n); try reflexivity.
  destruct (referent (getn w n)); reflexivity.
Qed.

(* the optional cache removal that ends every discard *)
Lemma symx_cache_remove_opt w (o : option id) c :
  symx (fst (match o with Some ir => cache_remove w ir c | None => (w, true) end)) = symx w.
Proof. destruct o; reflexivity. Qed.

Lemma symx_cache_add_opt w (o : option id) c :
  symx (match o with Some ir => cache_add w ir c | None => w end) = symx w.
Proof. destruct o; reflexivity. Qed.

(* destructuring lets: fst of `let '(a, b) := x in (f a, g a b)` *)
Lemma fst_let_pair {X Y Z' U} (x : X * Y) (f : X -> Z') (g : X -> Y -> U) :
  fst (let '(a, b) := x in (f a, g a b)) = f (fst x).
Proof. destruct x; reflexivity. Qed.

Lemma symx_set_discard w p c : symx (fst (set_discard w p c)) = symx w.
Proof.
  unfold set_discard.
  destruct (negb (mem c (kids w p))); [reflexivity|].
  destruct (kindof w p); try reflexivity.
  - match goal with |- context [ir_of ?W p] => destruct (ir_of W p) end;
      cbn [fst cache_remove]; rewrite symx_drop_kid; try rewrite symx_set_cache;
      rewrite symx_mod_index_discard; reflexivity.
  - match goal with |- context [ir_of ?W p] => destruct (ir_of W p) end; reflexivity.
  - match goal with |- context [ir_of ?W p] => destruct (ir_of W p) end; reflexivity.
Qed.

Lemma symx_discard_opt w (o : option id) c :
  symx (fst (match o with Some old => set_discard w old c | None => (w, true) end)) = symx w.
Proof. destruct o; [apply symx_set_discard | reflexivity]. Qed.

Lemma symx_set_add1 w p c : symx (fst (set_add1 w p c)) = symx w.
Proof.
  unfold set_add1. destruct (kindof w p); try reflexivity.
  - pose proof (symx_discard_opt w (par w c) c) as H.
    destruct (match par w c with Some old => set_discard w old c | None => (w, true) end) as [w0' ok0].
    cbn [fst] in *. rewrite symx_push_kid, symx_cache_add_opt, symx_mod_index_add. exact H.
  - pose proof (symx_discard_opt w (par w c) c) as H.
    destruct (match par w c with Some old => set_discard w old c | None => (w, true) end) as [w0' ok0].
    cbn [fst] in *. rewrite symx_push_kid, symx_cache_add_opt. exact H.
Qed.

Lemma symx_fold_left_w {A} (G : world -> A -> world) (l : list A) :
  (forall w v, symx (G w v) = symx w) -> forall w, symx (fold_left G l w) = symx w.
Proof.
  intros HG. induction l as [|x l IH]; intros w; [reflexivity|].
  cbn [fold_left]. rewrite IH. apply HG.
Qed.

Lemma symx_fold_left_st {A B} (F : world * B -> A -> world * B) (l : list A) :
  (forall st v, symx (fst (F st v)) = symx (fst st)) ->
  forall st, symx (fst (fold_left F l st)) = symx (fst st).
Proof.
  intros HF. induction l as [|x l IH]; intros st; [reflexivity|].
  cbn [fold_left]. rewrite IH. apply HF.
Qed.

Lemma symx_blocks_update w bi items : symx (fst (blocks_update w bi items)) = symx w.
Proof.
  unfold blocks_update.
  set (new_items := filter (fun v => negb (mem v (kids w bi))) (dedup items)).
  match goal with |- context [fold_left ?F new_items (w, true)] =>
    pose proof (symx_fold_left_st F new_items) as H; destruct (fold_left F new_items (w, true)) as [w1 ok] eqn:E
  end.
  cbn [fst].
  rewrite symx_fold_left_w by (intros; apply symx_push_kid).
  rewrite symx_fold_left_w by (intros; apply symx_tree_add_ev).
  change (symx w1) with (symx (fst (w1, ok))). rewrite <- E. rewrite H; [reflexivity|].
  intros [wx okx] v.
  pose proof (symx_discard_opt wx (par wx v) v) as Hd.
  destruct (match par wx v with Some old => set_discard wx old v | None => (wx, true) end) as [wa oka].
  cbn [fst] in *. rewrite symx_cache_add_opt. exact Hd.
Qed.

Lemma symx_set_add w p c : symx (fst (set_add w p c)) = symx w.
Proof.
  unfold set_add. destruct (kindof w p); try apply symx_set_add1. apply symx_blocks_update.
Qed.

Lemma symx_fold_ok f l :
  (forall w v, symx (fst (f w v)) = symx w) -> forall w, symx (fst (fold_ok f l w)) = symx w.
Proof.
  intros Hf w. unfold fold_ok.
  rewrite symx_fold_left_st; [reflexivity|].
  intros [wx okx] v. specialize (Hf wx v). destruct (f wx v) as [w' ok']. exact Hf.
Qed.

Lemma symx_flagged r w' : flagged r = Ok w' -> symx w' = symx (fst r).
Proof.
  unfold flagged. destruct r as [w1 ok]. destruct ok; intros H; inversion H. reflexivity.
Qed.

(* ---- IR._ModuleList ---- *)

Lemma symx_ml_remove_hook w ir v : symx (fst (ml_remove_hook w ir v)) = symx w.
Proof. reflexivity. Qed.

Lemma symx_ml_del_at w ir i : symx (fst (ml_del_at w ir i)) = symx w.
Proof. unfold ml_del_at. destruct (nth_error (kids w ir) i); reflexivity. Qed.

Lemma symx_ml_remove w ir v r : ml_remove w ir v = Ok r -> symx (fst r) = symx w.
Proof.
  unfold ml_remove. destruct (index_of v (kids w ir)); intros H; inversion H. apply symx_ml_del_at.
Qed.

Lemma symx_ml_add_hook w ir v : symx (fst (ml_add_hook w ir v)) = symx w.
Proof.
  unfold ml_add_hook.
  assert (H : symx (fst (match par w v with
                         | Some old => match ml_remove w old v with Ok r => r | Err _ => (w, false) end
                         | None => (w, true) end)) = symx w).
  { destruct (par w v) as [old|]; [|reflexivity].
    destruct (ml_remove w old v) as [r|e] eqn:E; [|reflexivity]. eapply symx_ml_remove; eassumption. }
  destruct (match par w v with
            | Some old => match ml_remove w old v with Ok r => r | Err _ => (w, false) end
            | None => (w, true) end) as [w1 ok].
  exact H.
Qed.

Lemma symx_ml_assign w ir new : symx (fst (ml_assign w ir new)) = symx w.
Proof.
  unfold ml_assign. cbv zeta.
  match goal with |- context [fold_ok ?F ?L w] =>
    pose proof (symx_fold_ok F L (fun wx v => symx_ml_remove_hook wx ir v) w) as H1;
    destruct (fold_ok F L w) as [w1 ok1] end.
  match goal with |- context [fold_ok ?F ?L w1] =>
    pose proof (symx_fold_ok F L (fun wx v => symx_ml_add_hook wx ir v) w1) as H2;
    destruct (fold_ok F L w1) as [w2 ok2] end.
  cbn [fst] in *. rewrite <- H1, <- H2. reflexivity.
Qed.

(* insert / append are slice assignments *)
Lemma symx_ml_insert w ir i v : symx (fst (ml_insert w ir i v)) = symx w.
Proof. unfold ml_insert. cbv zeta. apply symx_ml_assign. Qed.

Lemma symx_ml_append w ir v : symx (fst (ml_append w ir v)) = symx w.
Proof. apply symx_ml_insert. Qed.

Lemma symx_flagged' r w w' : symx (fst r) = symx w -> flagged r = Ok w' -> symx w' = symx w.
Proof. intros H1 H2. rewrite (symx_flagged _ _ H2). exact H1. Qed.

(* ---- set-valued methods, parent setters, attributes ---- *)

Lemma symx_do_set w p fk m args w' : do_set w p fk m args = Ok w' -> symx w' = symx w.
Proof.
  unfold do_set.
  set (arg1 := match args with a :: _ => a | [] => [] end).
  destruct m.
  - destruct arg1 as [|c [|c2 t]]; try discriminate. apply symx_flagged', symx_set_add.
  - destruct arg1 as [|c [|c2 t]]; try discriminate. apply symx_flagged', symx_set_discard.
  - destruct arg1 as [|c [|c2 t]]; try discriminate.
    destruct (mem c (field w p fk)); try discriminate. apply symx_flagged', symx_set_discard.
  - destruct (field w p fk) as [|x0 cur] eqn:Ef; try discriminate.
    destruct arg1 as [|c [|c2 t]]; try discriminate.
    destruct (mem c (x0 :: cur)); try discriminate. apply symx_flagged', symx_set_discard.
  - apply symx_flagged', symx_fold_ok. intros; apply symx_set_discard.
  - destruct (kindof w p).
    all: try (apply symx_flagged', symx_fold_ok; intros; apply symx_set_add).
    apply symx_flagged', symx_blocks_update.
  - apply symx_flagged', symx_fold_ok. intros; apply symx_set_add.
  - apply symx_flagged', symx_fold_ok. intros; apply symx_set_discard.
  - apply symx_flagged', symx_fold_ok. intros; apply symx_set_discard.
  - pose proof (symx_fold_ok (fun w c => set_discard w p c)
                  (filter (fun c => mem c (field w p fk)) (dedup arg1))
                  (fun wx c => symx_set_discard wx p c) w) as H1.
    destruct (fold_ok (fun w c => set_discard w p c) (filter (fun c => mem c (field w p fk)) (dedup arg1)) w)
      as [w1 ok1].
    cbn [fst] in H1.
    pose proof (symx_fold_ok (fun w c => set_add w p c)
                  (filter (fun c => negb (mem c (field w p fk))) (dedup arg1))
                  (fun wx c => symx_set_add wx p c) w1) as H2.
    destruct (fold_ok (fun w c => set_add w p c) (filter (fun c => negb (mem c (field w p fk))) (dedup arg1)) w1)
      as [w2 ok2].
    cbn [fst] in H2.
    apply symx_flagged'. cbn [fst]. rewrite H2. exact H1.
Qed.

Lemma symx_do_setparent w c p w' : do_setparent w c p = Ok w' -> symx w' = symx w.
Proof.
  unfold do_setparent.
  assert (Hgen : forall w1, (match par w c with Some old => flagged (set_discard w old c) | None => Ok w end) = Ok w1 ->
                 symx w1 = symx w).
  { intros w1. destruct (par w c) as [old|]; intros H.
    - revert H. apply symx_flagged', symx_set_discard.
    - inversion H; reflexivity. }
  assert (Hgen2 : forall w1, symx w1 = symx w ->
                  (match p with Some q => flagged (set_add w1 q c) | None => Ok w1 end) = Ok w' -> symx w' = symx w).
  { intros w1 H1. destruct p as [q|]; intros H.
    - rewrite <- H1. revert H. apply symx_flagged', symx_set_add.
    - inversion H; subst; exact H1. }
  assert (Hrest : (do w1 <- match par w c with Some old => flagged (set_discard w old c) | None => Ok w end;
                   match p with Some q => flagged (set_add w1 q c) | None => Ok w1 end) = Ok w' -> symx w' = symx w).
  { unfold bind.
    destruct (match par w c with Some old => flagged (set_discard w old c) | None => Ok w end) as [w1|e] eqn:E;
      try discriminate.
    apply Hgen2, Hgen. reflexivity. }
  destruct (kindof w c); try exact Hrest; try discriminate.
  clear Hgen Hgen2 Hrest. unfold bind.
  destruct (par w c) as [old|].
  - destruct (ml_remove w old c) as [r|e] eqn:E; try discriminate.
    destruct (flagged r) as [w1|e] eqn:E2; try discriminate.
    assert (H1 : symx w1 = symx w).
    { revert E2. apply symx_flagged'. eapply symx_ml_remove; eassumption. }
    destruct p as [ir|]; intros H.
    + rewrite <- H1. revert H. apply symx_flagged', symx_ml_append.
    + inversion H; subst; exact H1.
  - destruct p as [ir|]; intros H.
    + revert H. apply symx_flagged', symx_ml_append.
    + inversion H; reflexivity.
Qed.

Lemma symx_block_attr w b f : symx (block_attr w b f) = symx w.
Proof. unfold block_attr. destruct (par w b); reflexivity. Qed.

Lemma symx_bi_attr w b f : symx (bi_attr w b f) = symx w.
Proof. unfold bi_attr. destruct (par w b); reflexivity. Qed.

Lemma symx_sym_attr w s f : symx (sym_attr w s f) = symx w.
Proof.
  unfold sym_attr. destruct (par w s); [|reflexivity].
  rewrite symx_mod_index_add, symx_setn, symx_mod_index_discard. reflexivity.
Qed.

Lemma symx_force w n : symx (fst (force w n)) = symx w.
Proof. reflexivity. Qed.

(* the interval whose map an operation rewrites *)
Definition symx_target (o : op) : option id :=
  match o with
  | OSymxSet bi _ _ | OSymxDel bi _ | OSymxPop bi _ | OSymxPopitem bi | OSymxSetdefault bi _ _
  | OSymxUpdate bi _ | OSymxClear bi | OSymxAssign bi _ => Some bi
  | _ => None
  end.

(* every operation that is not one of the eight OSymx* leaves every map alone *)
Lemma symx_step_other w o w' : symx_target o = None -> step w o = Ok w' -> symx w' = symx w.
Proof.
  intros Ht. destruct o; try discriminate Ht; clear Ht; cbn [step].
  - (* ONew *) intros H; inversion H. destruct k; reflexivity.
  - apply symx_do_setparent.
  - apply symx_do_set.
  - apply symx_flagged', symx_ml_append.
  - apply symx_flagged', symx_ml_insert.
  - apply symx_flagged', symx_fold_ok. intros; apply symx_ml_append.
  - unfold bind. destruct (ml_remove w ir v) as [r|e] eqn:E; try discriminate.
    apply symx_flagged'. eapply symx_ml_remove; eassumption.
  - destruct (norm_index i (length (kids w ir))); try discriminate. apply symx_flagged', symx_ml_del_at.
  - destruct (norm_index i (length (kids w ir))); try discriminate. apply symx_flagged', symx_ml_del_at.
  - cbv zeta.
    match goal with |- context [fold_ok ?F ?L w] =>
      pose proof (symx_fold_ok F L (fun wx v => symx_ml_remove_hook wx ir v) w) as H;
      destruct (fold_ok F L w) as [w1 ok] end.
    apply symx_flagged'. exact H.
  - destruct (norm_index i (length (kids w ir))) as [k|]; try discriminate.
    apply symx_flagged', symx_ml_assign.
  - cbv zeta. apply symx_flagged', symx_ml_assign.
  - (* OModSetExt *) cbv zeta.
    destruct (SeqOps.py_slice_indices a b c (length (kids w ir))) as [[[s e] st]|er]; try discriminate.
    destruct (st =? 1); try discriminate.
    destruct (negb (Nat.eqb (length vs) (length (SeqOps.py_range_positions s e st (length (kids w ir)))))); try discriminate.
    apply symx_flagged', symx_ml_assign.
  - match goal with |- context [fold_ok ?F ?L w] =>
      pose proof (symx_fold_ok F L (fun wx v => symx_ml_remove_hook wx ir v) w) as H;
      destruct (fold_ok F L w) as [w1 ok] end.
    apply symx_flagged'. exact H.
  - intros H; inversion H; reflexivity.
  - intros H; inversion H. apply symx_bi_attr.
  - destruct (kindof w n); intros H; inversion H; try apply symx_block_attr. apply symx_bi_attr.
  - intros H; inversion H. apply symx_block_attr.
  - intros H; inversion H. apply symx_sym_attr.
  - intros H; inversion H. apply symx_sym_attr.
  - intros H; inversion H. apply symx_force.
Qed.

(* ================================================================== *)
(* Part B: ascending lists, the dict view of the map                   *)
(* ================================================================== *)

Notation lookup k d := (dict_get Z.eqb k d).
Notation keys d := (map (@fst Z id) d).

Lemma sa_cons_iff x l :
  strictly_ascending (x :: l) <-> (forall y, In y l -> x < y) /\ strictly_ascending l.
Proof.
  revert x. induction l as [|z l IH]; intros x.
  - cbn. split; [intros _; split; [intros y []|exact I] | intros _; split; exact I].
  - change (strictly_ascending (x :: z :: l)) with (x < z /\ strictly_ascending (z :: l)).
    split.
    + intros [Hxz Hs]. split; [|exact Hs].
      intros y [Hy|Hy]; [subst; exact Hxz|].
      apply IH in Hs. destruct Hs as [Hall _]. specialize (Hall y Hy). lia.
    + intros [Hall Hs]. split; [apply Hall; left; reflexivity | exact Hs].
Qed.

Lemma sa_tail x l : strictly_ascending (x :: l) -> strictly_ascending l.
Proof. intros H. apply sa_cons_iff in H. apply H. Qed.

Lemma sa_NoDup l : strictly_ascending l -> NoDup l.
Proof.
  induction l as [|x l IH]; intros H; [constructor|].
  apply sa_cons_iff in H. destruct H as [Hall Hs]. constructor; [|apply IH, Hs].
  intros Hin. specialize (Hall x Hin). lia.
Qed.

Lemma sa_filter (f : Z -> bool) l : strictly_ascending l -> strictly_ascending (filter f l).
Proof.
  induction l as [|x l IH]; intros H; [exact I|].
  apply sa_cons_iff in H. destruct H as [Hall Hs]. cbn [filter].
  destruct (f x); [|apply IH, Hs].
  apply sa_cons_iff. split; [|apply IH, Hs].
  intros y Hy. apply filter_In in Hy. apply Hall, Hy.
Qed.

(* filtering entries of a map commutes with taking keys as far as order is concerned *)
Lemma sa_keys_filter (f : Z * id -> bool) (d : list (Z * id)) :
  strictly_ascending (keys d) -> strictly_ascending (keys (filter f d)).
Proof.
  induction d as [|[k e] d IH]; intros H; [exact I|].
  cbn [map fst] in H. apply sa_cons_iff in H. destruct H as [Hall Hs]. cbn [filter].
  destruct (f (k, e)); [|apply IH, Hs].
  cbn [map fst]. apply sa_cons_iff. split; [|apply IH, Hs].
  intros y Hy. apply in_map_iff in Hy. destruct Hy as [[k' e'] [Hk Hin]]. cbn in Hk; subst y.
  apply filter_In in Hin. apply Hall. apply in_map_iff. exists (k', e'). split; [reflexivity|apply Hin].
Qed.

(* ---- dict_get ---- *)

Lemma lookup_In k e (d : list (Z * id)) : lookup k d = Some e -> In (k, e) d.
Proof.
  induction d as [|[k' e'] d IH]; cbn [dict_get]; [discriminate|].
  destruct (Z.eqb_spec k' k) as [->|Hne]; intros H.
  - inversion H; subst. left; reflexivity.
  - right. apply IH, H.
Qed.

Lemma lookup_None_iff k (d : list (Z * id)) : lookup k d = None <-> ~ In k (keys d).
Proof.
  induction d as [|[k' e'] d IH]; cbn [dict_get map fst].
  - split; [intros _ [] | reflexivity].
  - destruct (Z.eqb_spec k' k) as [->|Hne].
    + split; [discriminate | intros H; exfalso; apply H; left; reflexivity].
    + rewrite IH. split; [intros H [H1|H1]; [exact (Hne H1)|exact (H H1)] | intros H H1; apply H; right; exact H1].
Qed.

Lemma lookup_Some_key k e (d : list (Z * id)) : lookup k d = Some e -> In k (keys d).
Proof. intros H. apply lookup_In in H. apply in_map_iff. exists (k, e). split; [reflexivity|exact H]. Qed.

(* with ascending (indeed: duplicate-free) keys, dict_get finds THE entry *)
Theorem lookup_In_iff k e (d : list (Z * id)) :
  strictly_ascending (keys d) -> (In (k, e) d <-> lookup k d = Some e).
Proof.
  intros Hs. split; [|apply lookup_In].
  induction d as [|[k' e'] d IH]; [intros []|].
  cbn [map fst] in Hs. apply sa_cons_iff in Hs. destruct Hs as [Hall Hs].
  cbn [dict_get]. intros [Heq|Hin].
  - inversion Heq; subst. rewrite Z.eqb_refl. reflexivity.
  - destruct (Z.eqb_spec k' k) as [->|Hne]; [|apply IH; assumption].
    exfalso. assert (Hlt : k < k); [|lia].
    apply Hall. apply in_map_iff. exists (k, e). split; [reflexivity|exact Hin].
Qed.

Lemma lookup_app k (d1 d2 : list (Z * id)) :
  lookup k (d1 ++ d2) = match lookup k d1 with Some e => Some e | None => lookup k d2 end.
Proof.
  induction d1 as [|[k' e'] d1 IH]; [reflexivity|].
  cbn [app dict_get]. destruct (k' =? k); [reflexivity|exact IH].
Qed.

(* ---- sd_set: SortedDict.__setitem__ ---- *)

Lemma sd_set_lookup_same k e d : lookup k (sd_set k e d) = Some e.
Proof.
  induction d as [|[k' e'] d IH]; cbn [sd_set dict_get].
  - rewrite Z.eqb_refl. reflexivity.
  - destruct (Z.ltb_spec k k') as [Hlt|Hge].
    + cbn [dict_get]. rewrite Z.eqb_refl. reflexivity.
    + destruct (Z.eqb_spec k k') as [Heq|Hne]; cbn [dict_get].
      * rewrite Z.eqb_refl. reflexivity.
      * destruct (Z.eqb_spec k' k) as [Heq'|_]; [exfalso; apply Hne; symmetry; exact Heq'|exact IH].
Qed.

Lemma sd_set_lookup_other k e d k' : k' <> k -> lookup k' (sd_set k e d) = lookup k' d.
Proof.
  intros Hne. induction d as [|[k1 e1] d IH]; cbn [sd_set dict_get].
  - destruct (Z.eqb_spec k k') as [Heq|_]; [exfalso; apply Hne; symmetry; exact Heq|reflexivity].
  - destruct (Z.ltb_spec k k1) as [Hlt|Hge].
    + cbn [dict_get]. destruct (Z.eqb_spec k k') as [Heq|_]; [exfalso; apply Hne; symmetry; exact Heq|reflexivity].
    + destruct (Z.eqb_spec k k1) as [Heq|Hne1]; cbn [dict_get].
      * subst k1. destruct (Z.eqb_spec k k') as [Heq|_]; [exfalso; apply Hne; symmetry; exact Heq|reflexivity].
      * destruct (k1 =? k'); [reflexivity|exact IH].
Qed.

Lemma sd_set_keys_In k e d y : In y (keys (sd_set k e d)) -> y = k \/ In y (keys d).
Proof.
  induction d as [|[k1 e1] d IH]; cbn [sd_set map fst].
  - intros [H|[]]. left; symmetry; exact H.
  - destruct (k <? k1).
    + cbn [map fst]. intros [H|H]; [left; symmetry; exact H|right; exact H].
    + destruct (k =? k1); cbn [map fst].
      * intros [H|H]; [left; symmetry; exact H|right; right; exact H].
      * intros [H|H]; [right; left; exact H|].
        destruct (IH H) as [H1|H1]; [left; exact H1|right; right; exact H1].
Qed.

Lemma sd_set_sorted k e d : strictly_ascending (keys d) -> strictly_ascending (keys (sd_set k e d)).
Proof.
  induction d as [|[k1 e1] d IH]; intros Hs; cbn [sd_set].
  - cbn. split; exact I.
  - cbn [map fst] in Hs. pose proof Hs as Hs0. apply sa_cons_iff in Hs. destruct Hs as [Hall Hs].
    destruct (Z.ltb_spec k k1) as [Hlt|Hge].
    + cbn [map fst]. apply sa_cons_iff. split; [|exact Hs0].
      intros y [Hy|Hy]; [subst; exact Hlt|]. specialize (Hall y Hy). lia.
    + destruct (Z.eqb_spec k k1) as [Heq|Hne]; cbn [map fst].
      * subst k1. exact Hs0.
      * apply sa_cons_iff. split; [|apply IH, Hs].
        intros y Hy. apply sd_set_keys_In in Hy. destruct Hy as [->|Hy]; [lia|apply Hall, Hy].
Qed.

Lemma sd_fold_sorted kvs d :
  strictly_ascending (keys d) ->
  strictly_ascending (keys (fold_left (fun d kv => sd_set (fst kv) (snd kv) d) kvs d)).
Proof.
  revert d. induction kvs as [|[k e] kvs IH]; intros d Hs; [exact Hs|].
  cbn [fold_left]. apply IH, sd_set_sorted, Hs.
Qed.

(* SortedDict.update: the LAST value given for a key wins, keys not mentioned keep their value *)
Lemma sd_fold_lookup kvs d k :
  lookup k (fold_left (fun d kv => sd_set (fst kv) (snd kv) d) kvs d) =
  match lookup k (rev kvs) with Some e => Some e | None => lookup k d end.
Proof.
  revert d. induction kvs as [|[k1 e1] kvs IH]; intros d; [reflexivity|].
  cbn [fold_left rev fst snd]. rewrite IH, lookup_app.
  destruct (lookup k (rev kvs)) as [e|]; [reflexivity|].
  cbn [dict_get]. destruct (Z.eqb_spec k1 k) as [->|Hne].
  - apply sd_set_lookup_same.
  - apply sd_set_lookup_other. intros H; apply Hne; symmetry; exact H.
Qed.

(* ---- dict_del: __delitem__ / pop ---- *)

Lemma dict_del_lookup_same k (d : list (Z * id)) : lookup k (dict_del Z.eqb k d) = None.
Proof.
  unfold dict_del. induction d as [|[k1 e1] d IH]; [reflexivity|].
  cbn [filter fst]. destruct (Z.eqb_spec k1 k) as [Heq|Hne]; cbn [negb]; [exact IH|].
  cbn [dict_get]. destruct (Z.eqb_spec k1 k) as [Heq|_]; [exfalso; exact (Hne Heq)|exact IH].
Qed.

Lemma dict_del_lookup_other k (d : list (Z * id)) k' :
  k' <> k -> lookup k' (dict_del Z.eqb k d) = lookup k' d.
Proof.
  intros Hne. unfold dict_del. induction d as [|[k1 e1] d IH]; [reflexivity|].
  cbn [filter fst]. destruct (Z.eqb_spec k1 k) as [Heq|Hne1]; cbn [negb dict_get].
  - subst k1. destruct (Z.eqb_spec k k') as [Heq|_]; [exfalso; apply Hne; symmetry; exact Heq|exact IH].
  - destruct (k1 =? k'); [reflexivity|exact IH].
Qed.

Lemma dict_del_sorted k (d : list (Z * id)) :
  strictly_ascending (keys d) -> strictly_ascending (keys (dict_del Z.eqb k d)).
Proof. apply sa_keys_filter. Qed.

Lemma dict_has_lookup k (d : list (Z * id)) : dict_has Z.eqb k d = false <-> lookup k d = None.
Proof. unfold dict_has. destruct (lookup k d); split; intros H; try reflexivity; discriminate. Qed.

(* ---- popitem: the head is the entry with the smallest key ---- *)

Lemma sa_head_lookup_None k0 e0 (d : list (Z * id)) :
  strictly_ascending (keys ((k0, e0) :: d)) -> lookup k0 d = None.
Proof.
  intros Hs. cbn [map fst] in Hs. apply sa_cons_iff in Hs. destruct Hs as [Hall _].
  apply lookup_None_iff. intros Hin. specialize (Hall k0 Hin). lia.
Qed.

Lemma sa_head_smallest k0 e0 (d : list (Z * id)) k :
  strictly_ascending (keys ((k0, e0) :: d)) -> lookup k ((k0, e0) :: d) <> None -> k0 <= k.
Proof.
  intros Hs. cbn [map fst] in Hs. apply sa_cons_iff in Hs. destruct Hs as [Hall _].
  cbn [dict_get]. destruct (Z.eqb_spec k0 k) as [->|Hne]; intros H; [lia|].
  destruct (lookup k d) as [e|] eqn:E; [|exfalso; apply H; reflexivity].
  apply lookup_Some_key in E. specialize (Hall k E). lia.
Qed.

Lemma head_lookup_other k0 e0 (d : list (Z * id)) k : k <> k0 -> lookup k d = lookup k ((k0, e0) :: d).
Proof.
  intros Hne. cbn [dict_get]. destruct (Z.eqb_spec k0 k) as [Heq|_]; [exfalso; apply Hne; symmetry; exact Heq|reflexivity].
Qed.

(* the dict view determines a sorted map: same lookups + ascending keys => same list (same iteration order) *)
Theorem sorted_lookup_ext (d1 d2 : list (Z * id)) :
  strictly_ascending (keys d1) -> strictly_ascending (keys d2) ->
  (forall k, lookup k d1 = lookup k d2) -> d1 = d2.
Proof.
  revert d2. induction d1 as [|[k1 e1] d1 IH]; intros [|[k2 e2] d2] H1 H2 Hl.
  - reflexivity.
  - specialize (Hl k2). cbn [dict_get] in Hl. rewrite Z.eqb_refl in Hl. discriminate.
  - specialize (Hl k1). cbn [dict_get] in Hl. rewrite Z.eqb_refl in Hl. discriminate.
  - assert (Hk : k1 = k2).
    { assert (Ha : k2 <= k1).
      { apply (sa_head_smallest k2 e2 d2 k1 H2). rewrite <- Hl. cbn [dict_get]. rewrite Z.eqb_refl. discriminate. }
      assert (Hb : k1 <= k2).
      { apply (sa_head_smallest k1 e1 d1 k2 H1). rewrite Hl. cbn [dict_get]. rewrite Z.eqb_refl. discriminate. }
      lia. }
    subst k2.
    assert (He : e1 = e2).
    { specialize (Hl k1). cbn [dict_get] in Hl. rewrite Z.eqb_refl in Hl. inversion Hl; reflexivity. }
    subst e2. f_equal. apply IH.
    + cbn [map fst] in H1. eapply sa_tail; exact H1.
    + cbn [map fst] in H2. eapply sa_tail; exact H2.
    + intros k. destruct (Z.eq_dec k k1) as [->|Hne].
      * rewrite (sa_head_lookup_None k1 e1 d1 H1), (sa_head_lookup_None k1 e1 d2 H2). reflexivity.
      * rewrite (head_lookup_other k1 e1 d1 k Hne), (head_lookup_other k1 e1 d2 k Hne). apply Hl.
Qed.

(* "the LAST value given for k in kvs" is dict_get on the reversed list *)
Lemma lookup_rev_None k (kvs : list (Z * id)) : lookup k (rev kvs) = None <-> ~ In k (keys kvs).
Proof.
  rewrite lookup_None_iff. unfold not. rewrite map_rev, <- in_rev. reflexivity.
Qed.

Lemma lookup_rev_last k e (kvs : list (Z * id)) :
  lookup k (rev kvs) = Some e <-> exists l1 l2, kvs = l1 ++ (k, e) :: l2 /\ ~ In k (keys l2).
Proof.
  split.
  - induction kvs as [|[k1 e1] kvs IH] using rev_ind.
    + cbn. discriminate.
    + rewrite rev_app_distr. cbn [rev app dict_get].
      destruct (Z.eqb_spec k1 k) as [->|Hne]; intros H.
      * inversion H; subst. exists kvs, []. split; [reflexivity|intros []].
      * destruct (IH H) as (l1 & l2 & -> & Hn). exists l1, (l2 ++ [(k1, e1)]). split.
        { rewrite <- app_assoc. reflexivity. }
        { rewrite map_app. intros Hin. apply in_app_or in Hin. destruct Hin as [Hin|[Hin|[]]]; [exact (Hn Hin)|].
          cbn in Hin. exact (Hne Hin). }
  - intros (l1 & l2 & -> & Hn). rewrite rev_app_distr. cbn [rev]. rewrite <- app_assoc, lookup_app.
    apply lookup_rev_None in Hn. rewrite Hn. cbn [app dict_get]. rewrite Z.eqb_refl. reflexivity.
Qed.

(* ================================================================== *)
(* Part 1: SymxSorted is an invariant                                  *)
(* ================================================================== *)

Lemma upd_same {X} (f : id -> X) k v : upd f k v k = v.
Proof. unfold upd. rewrite Z.eqb_refl. reflexivity. Qed.

Lemma upd_other {X} (f : id -> X) k v x : x <> k -> upd f k v x = f x.
Proof. intros H. unfold upd. destruct (Z.eqb_spec x k) as [Heq|_]; [exfalso; exact (H Heq)|reflexivity]. Qed.

Lemma symx_upd_same w bi d : symx (symx_upd w bi d) bi = d.
Proof. unfold symx_upd. cbn [symx set_symx]. apply upd_same. Qed.

Lemma symx_upd_other w bi d b : b <> bi -> symx (symx_upd w bi d) b = symx w b.
Proof. intros H. unfold symx_upd. cbn [symx set_symx]. apply upd_other, H. Qed.

Lemma sorted_symx_upd w bi d :
  SymxSorted w -> strictly_ascending (keys d) -> SymxSorted (symx_upd w bi d).
Proof.
  intros Hw Hd b. destruct (Z.eq_dec b bi) as [->|Hne].
  - rewrite symx_upd_same. exact Hd.
  - rewrite symx_upd_other by exact Hne. apply Hw.
Qed.

Theorem symx_sorted_w0 : SymxSorted w0.
Proof. intros bi. exact I. Qed.

Lemma symx_sorted_step w o w' : SymxSorted w -> step w o = Ok w' -> SymxSorted w'.
Proof.
  intros Hw Hst. destruct (symx_target o) as [t|] eqn:T.
  - destruct o; try discriminate T; clear T; cbn [step] in Hst.
    + inversion Hst. apply sorted_symx_upd; [exact Hw|]. apply sd_set_sorted, Hw.
    + destruct (dict_has Z.eqb k (symx w bi)); inversion Hst.
      apply sorted_symx_upd; [exact Hw|]. apply dict_del_sorted, Hw.
    + destruct (dict_has Z.eqb k (symx w bi)); inversion Hst.
      apply sorted_symx_upd; [exact Hw|]. apply dict_del_sorted, Hw.
    + pose proof (Hw bi) as Hb. destruct (symx w bi) as [|[k0 e0] d]; inversion Hst.
      apply sorted_symx_upd; [exact Hw|]. cbn [map fst] in Hb. eapply sa_tail; exact Hb.
    + destruct (dict_has Z.eqb k (symx w bi)); inversion Hst; subst; [exact Hw|].
      apply sorted_symx_upd; [exact Hw|]. apply sd_set_sorted, Hw.
    + inversion Hst. apply sorted_symx_upd; [exact Hw|]. apply sd_fold_sorted, Hw.
    + inversion Hst. apply sorted_symx_upd; [exact Hw|]. exact I.
    + inversion Hst. apply sorted_symx_upd; [exact Hw|]. apply sd_fold_sorted. exact I.
  - intros bi. rewrite (symx_step_other w o w' T Hst). apply Hw.
Qed.

Theorem symx_sorted_preserved : forall w o, SymxSorted w -> SymxSorted (step' w o).
Proof.
  intros w o Hw. unfold step'. destruct (step w o) as [w'|e] eqn:E; [|exact Hw].
  eapply symx_sorted_step; eassumption.
Qed.

Corollary symx_sorted_run_ops : forall ops, SymxSorted (run_ops ops).
Proof.
  intros ops. unfold run_ops.
  assert (H : forall w, SymxSorted w -> SymxSorted (fold_left step' ops w)).
  { induction ops as [|o ops IH]; intros w Hw; [exact Hw|]. cbn [fold_left]. apply IH, symx_sorted_preserved, Hw. }
  apply H, symx_sorted_w0.
Qed.

Corollary symx_sorted_run_guarded : forall ops w known,
  SymxSorted w -> SymxSorted (fst (run_guarded w known ops)).
Proof.
  induction ops as [|o ops IH]; intros w known Hw; [exact Hw|].
  cbn [run_guarded]. destruct (op_okb w known o); [|apply IH, Hw].
  apply IH, symx_sorted_preserved, Hw.
Qed.

Corollary symx_sorted_reachable : forall w, reachable w -> SymxSorted w.
Proof. intros w [ops ->]. apply symx_sorted_run_guarded, symx_sorted_w0. Qed.

Corollary symx_sorted_reachable_k : forall w known, reachable_k w known -> SymxSorted w.
Proof.
  intros w known [ops H]. change w with (fst (w, known)). rewrite H.
  apply symx_sorted_run_guarded, symx_sorted_w0.
Qed.

(* ================================================================== *)
(* Part 2: the eight operations refine the built-in dict               *)
(* ================================================================== *)

(* everything except the map of the target interval is untouched -- pointwise *)
Definition only_symx_of (bi : id) (w w' : world) : Prop :=
  (forall n, nodes w' n = nodes w n) /\ (forall n, kids w' n = kids w n) /\
  (forall n, cache w' n = cache w n) /\ (forall n, nix w' n = nix w n) /\
  (forall n, rix w' n = rix w n) /\ (forall n, tree w' n = tree w n) /\
  (forall b, b <> bi -> symx w' b = symx w b).

Lemma only_symx_refl bi w : only_symx_of bi w w.
Proof. unfold only_symx_of. repeat split; reflexivity. Qed.

Lemma only_symx_upd bi w d : only_symx_of bi w (symx_upd w bi d).
Proof.
  unfold only_symx_of. repeat split; try reflexivity.
  intros b Hb. apply symx_upd_other, Hb.
Qed.

Theorem symx_op_frame w o bi : symx_target o = Some bi -> only_symx_of bi w (step' w o).
Proof.
  intros T. unfold step'.
  destruct o; try discriminate T; inversion T; subst; clear T; cbn [step].
  - apply only_symx_upd.
  - destruct (dict_has Z.eqb k (symx w bi)); [apply only_symx_upd|apply only_symx_refl].
  - destruct (dict_has Z.eqb k (symx w bi)); [apply only_symx_upd|apply only_symx_refl].
  - destruct (symx w bi) as [|kv d]; [apply only_symx_refl|apply only_symx_upd].
  - destruct (dict_has Z.eqb k (symx w bi)); [apply only_symx_refl|apply only_symx_upd].
  - apply only_symx_upd.
  - apply only_symx_upd.
  - apply only_symx_upd.
Qed.

(* d[k] = e *)
Theorem symx_set_spec w bi k e :
  let o := OSymxSet bi k e in
  step w o = Ok (step' w o) /\
  lookup k (symx (step' w o) bi) = Some e /\
  (forall k', k' <> k -> lookup k' (symx (step' w o) bi) = lookup k' (symx w bi)).
Proof.
  cbv zeta. unfold step'. cbn [step]. rewrite symx_upd_same. split; [reflexivity|]. split.
  - apply sd_set_lookup_same.
  - intros k' Hk. apply sd_set_lookup_other, Hk.
Qed.

(* del d[k] / d.pop(k): KeyError (state unchanged) when k is absent, else exactly k disappears *)
Theorem symx_del_spec w bi k o :
  o = OSymxDel bi k \/ o = OSymxPop bi k ->
  (lookup k (symx w bi) = None -> step w o = Err EKey /\ step' w o = w) /\
  (lookup k (symx w bi) <> None ->
     step w o = Ok (step' w o) /\
     lookup k (symx (step' w o) bi) = None /\
     (forall k', k' <> k -> lookup k' (symx (step' w o) bi) = lookup k' (symx w bi))).
Proof.
  intros Ho.
  assert (Hst : step w o = if dict_has Z.eqb k (symx w bi)
                           then Ok (symx_upd w bi (dict_del Z.eqb k (symx w bi))) else Err EKey).
  { destruct Ho as [->| ->]; reflexivity. }
  unfold step'. rewrite Hst. clear Hst Ho. split.
  - intros Hn. apply dict_has_lookup in Hn. rewrite Hn. split; reflexivity.
  - intros Hn. destruct (dict_has Z.eqb k (symx w bi)) eqn:Eh.
    + rewrite symx_upd_same. split; [reflexivity|]. split.
      * apply dict_del_lookup_same.
      * intros k' Hk. apply dict_del_lookup_other, Hk.
    + apply dict_has_lookup in Eh. exfalso. exact (Hn Eh).
Qed.

(* d.popitem(): KeyError on the empty map, else the entry with the smallest key goes *)
Theorem symx_popitem_spec w bi :
  let o := OSymxPopitem bi in
  strictly_ascending (keys (symx w bi)) ->
  match symx w bi with
  | [] => step w o = Err EKey /\ step' w o = w
  | (k0, e0) :: d =>
      step w o = Ok (step' w o) /\
      symx (step' w o) bi = d /\
      (forall k, lookup k (symx w bi) <> None -> k0 <= k) /\
      lookup k0 (symx (step' w o) bi) = None /\
      (forall k, k <> k0 -> lookup k (symx (step' w o) bi) = lookup k (symx w bi))
  end.
Proof.
  cbv zeta. intros Hs. unfold step'. cbn [step].
  destruct (symx w bi) as [|[k0 e0] d] eqn:E; [split; reflexivity|].
  rewrite symx_upd_same. split; [reflexivity|]. split; [reflexivity|]. split; [|split].
  - intros k. apply sa_head_smallest, Hs.
  - eapply sa_head_lookup_None; exact Hs.
  - intros k Hk. apply head_lookup_other, Hk.
Qed.

(* d.setdefault(k, e) *)
Theorem symx_setdefault_spec w bi k e :
  let o := OSymxSetdefault bi k e in
  step w o = Ok (step' w o) /\
  (lookup k (symx w bi) <> None -> step' w o = w) /\
  (lookup k (symx w bi) = None ->
     lookup k (symx (step' w o) bi) = Some e /\
     (forall k', k' <> k -> lookup k' (symx (step' w o) bi) = lookup k' (symx w bi))).
Proof.
  cbv zeta. unfold step'. cbn [step].
  destruct (dict_has Z.eqb k (symx w bi)) eqn:Eh.
  - split; [reflexivity|]. split; [reflexivity|].
    intros Hn. apply dict_has_lookup in Hn. rewrite Hn in Eh. discriminate.
  - split; [reflexivity|]. split.
    + intros Hn. apply dict_has_lookup in Eh. exfalso. exact (Hn Eh).
    + intros _. rewrite symx_upd_same. split.
      * apply sd_set_lookup_same.
      * intros k' Hk. apply sd_set_lookup_other, Hk.
Qed.

Corollary symx_setdefault_absent_is_set w bi k e :
  lookup k (symx w bi) = None -> step' w (OSymxSetdefault bi k e) = step' w (OSymxSet bi k e).
Proof.
  intros Hn. apply dict_has_lookup in Hn. unfold step'. cbn [step]. rewrite Hn. reflexivity.
Qed.

(* d.update(kvs): the last value given for a key wins (`lookup k (rev kvs)`, see lookup_rev_last / lookup_rev_None) *)
Theorem symx_update_spec w bi kvs :
  let o := OSymxUpdate bi kvs in
  step w o = Ok (step' w o) /\
  forall k, lookup k (symx (step' w o) bi) =
            match lookup k (rev kvs) with Some e => Some e | None => lookup k (symx w bi) end.
Proof.
  cbv zeta. unfold step'. cbn [step]. rewrite symx_upd_same. split; [reflexivity|].
  intros k. apply sd_fold_lookup.
Qed.

Theorem symx_clear_spec w bi :
  let o := OSymxClear bi in
  step w o = Ok (step' w o) /\ symx (step' w o) bi = [].
Proof. cbv zeta. unfold step'. cbn [step]. rewrite symx_upd_same. split; reflexivity. Qed.

(* bi.symbolic_expressions = kvs: update on the empty map *)
Theorem symx_assign_spec w bi kvs :
  let o := OSymxAssign bi kvs in
  step w o = Ok (step' w o) /\
  (forall k, lookup k (symx (step' w o) bi) = lookup k (rev kvs)) /\
  symx (step' w o) bi = symx (step' (step' w (OSymxClear bi)) (OSymxUpdate bi kvs)) bi.
Proof.
  cbv zeta. unfold step'. cbn [step]. rewrite !symx_upd_same. split; [reflexivity|]. split; [|reflexivity].
  intros k. rewrite sd_fold_lookup. destruct (lookup k (rev kvs)); reflexivity.
Qed.

(* the target's map stays ascending under each of the eight operations, interval by interval *)
Theorem symx_op_sorted_local w o bi :
  symx_target o = Some bi ->
  strictly_ascending (keys (symx w bi)) -> strictly_ascending (keys (symx (step' w o) bi)).
Proof.
  intros T Hs. unfold step'.
  destruct o; try discriminate T; inversion T; subst; clear T; cbn [step].
  - rewrite symx_upd_same. apply sd_set_sorted, Hs.
  - destruct (dict_has Z.eqb k (symx w bi)); [|exact Hs]. rewrite symx_upd_same. apply dict_del_sorted, Hs.
  - destruct (dict_has Z.eqb k (symx w bi)); [|exact Hs]. rewrite symx_upd_same. apply dict_del_sorted, Hs.
  - destruct (symx w bi) as [|[k0 e0] d] eqn:E; [rewrite E; exact I|].
    rewrite symx_upd_same. cbn [map fst] in Hs. eapply sa_tail; exact Hs.
  - destruct (dict_has Z.eqb k (symx w bi)); [exact Hs|]. rewrite symx_upd_same. apply sd_set_sorted, Hs.
  - rewrite symx_upd_same. apply sd_fold_sorted, Hs.
  - rewrite symx_upd_same. exact I.
  - rewrite symx_upd_same. apply sd_fold_sorted. exact I.
Qed.

(* ================================================================== *)
(* Part 3: lookup exactness at interval scope                          *)
(* ================================================================== *)

Lemma flat_map_if_singleton {X Y} (c : X -> bool) (g : X -> Y) (l : list X) :
  flat_map (fun x => if c x then [g x] else []) l = map g (filter c l).
Proof.
  induction l as [|x l IH]; [reflexivity|].
  cbn [flat_map filter]. destruct (c x); cbn [map app]; rewrite IH; reflexivity.
Qed.

Lemma flat_map_ext_eq {X Y} (f g : X -> list Y) (l : list X) :
  (forall x, f x = g x) -> flat_map f l = flat_map g l.
Proof. intros H. induction l as [|x l IH]; [reflexivity|]. cbn [flat_map]. rewrite H, IH. reflexivity. Qed.

(* the irange test of the implementation is implied by the membership test: it is redundant *)
Lemma range_test_redundant a k q :
  (qstart q - a <=? k) && (k <? qstop q - a) && in_q (a + k) q = in_q (a + k) q.
Proof.
  unfold in_q.
  destruct (Z.leb_spec (qstart q - a) k) as [H1|H1]; destruct (Z.leb_spec (qstart q) (a + k)) as [H2|H2]; try lia;
    destruct (Z.ltb_spec k (qstop q - a)) as [H3|H3]; destruct (Z.ltb_spec (a + k) (qstop q)) as [H4|H4]; try lia;
    reflexivity.
Qed.

Lemma range_test_redundant_off k q :
  (qstart q <=? k) && (k <? qstop q) && in_q k q = in_q k q.
Proof.
  unfold in_q.
  destruct (qstart q <=? k); [|reflexivity]. destruct (k <? qstop q); reflexivity.
Qed.

(* The literal equalities of the task hold, and need neither `qstep q > 0` nor sortedness. *)
Theorem bi_symx_at_exact_gen w bi q :
  bi_symx_at w bi q = match naddr (getn w bi) with
                      | None => []
                      | Some a => map (fun kv => (bi, fst kv, snd kv))
                                      (filter (fun kv => in_q (a + fst kv) q) (symx w bi))
                      end.
Proof.
  unfold bi_symx_at. destruct (naddr (getn w bi)) as [a|]; [|reflexivity].
  rewrite <- (flat_map_if_singleton (fun kv => in_q (a + fst kv) q) (fun kv => (bi, fst kv, snd kv))).
  apply flat_map_ext_eq. intros kv. cbv zeta. rewrite range_test_redundant. reflexivity.
Qed.

Theorem bi_symx_at_exact w bi q :
  qstep q > 0 -> strictly_ascending (map fst (symx w bi)) ->
  bi_symx_at w bi q = match naddr (getn w bi) with
                      | None => []
                      | Some a => map (fun kv => (bi, fst kv, snd kv))
                                      (filter (fun kv => in_q (a + fst kv) q) (symx w bi))
                      end.
Proof. intros _ _. apply bi_symx_at_exact_gen. Qed.

Theorem bi_symx_at_off_exact w bi q :
  bi_symx_at_off w bi q =
  map (fun kv => (bi, fst kv, snd kv)) (filter (fun kv => in_q (fst kv) q) (symx w bi)).
Proof.
  unfold bi_symx_at_off.
  rewrite <- (flat_map_if_singleton (fun kv => in_q (fst kv) q) (fun kv => (bi, fst kv, snd kv))).
  apply flat_map_ext_eq. intros kv. cbv zeta. rewrite range_test_redundant_off. reflexivity.
Qed.

(* membership *)
Lemma bi_symx_at_In w bi q b k e :
  In (b, k, e) (bi_symx_at w bi q) <->
  b = bi /\ In (k, e) (symx w bi) /\ exists a, naddr (getn w bi) = Some a /\ in_q (a + k) q = true.
Proof.
  rewrite bi_symx_at_exact_gen. destruct (naddr (getn w bi)) as [a|].
  - rewrite in_map_iff. split.
    + intros [[k' e'] [Heq Hin]]. cbn [fst snd] in Heq. inversion Heq; subst.
      apply filter_In in Hin. destruct Hin as [Hin Hq]. cbn [fst] in Hq.
      split; [reflexivity|]. split; [exact Hin|]. exists a. split; [reflexivity|exact Hq].
    + intros (-> & Hin & a' & Ha & Hq). inversion Ha; subst a'.
      exists (k, e). split; [reflexivity|]. apply filter_In. split; [exact Hin|exact Hq].
  - split; [intros []|]. intros (_ & _ & a & Ha & _). discriminate.
Qed.

Lemma bi_symx_at_off_In w bi q b k e :
  In (b, k, e) (bi_symx_at_off w bi q) <-> b = bi /\ In (k, e) (symx w bi) /\ in_q k q = true.
Proof.
  rewrite bi_symx_at_off_exact, in_map_iff. split.
  - intros [[k' e'] [Heq Hin]]. cbn [fst snd] in Heq. inversion Heq; subst.
    apply filter_In in Hin. destruct Hin as [Hin Hq]. cbn [fst] in Hq. repeat split; assumption.
  - intros (-> & Hin & Hq). exists (k, e). split; [reflexivity|]. apply filter_In. split; [exact Hin|exact Hq].
Qed.

(* offsets of the result: those of the filtered map *)
Lemma offsets_of_triples bi (d : list (Z * id)) :
  map (fun t : id * Z * id => snd (fst t)) (map (fun kv => (bi, fst kv, snd kv)) d) = keys d.
Proof. rewrite map_map. apply map_ext. intros [k e]. reflexivity. Qed.

Corollary bi_symx_at_ascending w bi q :
  strictly_ascending (map fst (symx w bi)) ->
  strictly_ascending (map (fun t => snd (fst t)) (bi_symx_at w bi q)).
Proof.
  intros Hs. rewrite bi_symx_at_exact_gen. destruct (naddr (getn w bi)) as [a|]; [|exact I].
  rewrite offsets_of_triples. apply sa_keys_filter, Hs.
Qed.

Corollary bi_symx_at_off_ascending w bi q :
  strictly_ascending (map fst (symx w bi)) ->
  strictly_ascending (map (fun t => snd (fst t)) (bi_symx_at_off w bi q)).
Proof.
  intros Hs. rewrite bi_symx_at_off_exact, offsets_of_triples. apply sa_keys_filter, Hs.
Qed.

Lemma NoDup_of_map {X Y} (f : X -> Y) (l : list X) : NoDup (map f l) -> NoDup l.
Proof.
  induction l as [|x l IH]; intros H; [constructor|].
  cbn [map] in H. inversion H as [|y l' Hn Hd]; subst. constructor; [|apply IH, Hd].
  intros Hin. apply Hn. apply in_map, Hin.
Qed.

Corollary bi_symx_at_NoDup w bi q :
  strictly_ascending (map fst (symx w bi)) -> NoDup (bi_symx_at w bi q).
Proof.
  intros Hs. apply (NoDup_of_map (fun t : id * Z * id => snd (fst t))).
  apply sa_NoDup, bi_symx_at_ascending, Hs.
Qed.

Corollary bi_symx_at_off_NoDup w bi q :
  strictly_ascending (map fst (symx w bi)) -> NoDup (bi_symx_at_off w bi q).
Proof.
  intros Hs. apply (NoDup_of_map (fun t : id * Z * id => snd (fst t))).
  apply sa_NoDup, bi_symx_at_off_ascending, Hs.
Qed.

(* exactly one triple per stored expression whose address is a member of the query *)
Corollary bi_symx_at_count w bi q a :
  naddr (getn w bi) = Some a ->
  length (bi_symx_at w bi q) = length (filter (fun kv => in_q (a + fst kv) q) (symx w bi)).
Proof. intros Ha. rewrite bi_symx_at_exact_gen, Ha. apply map_length. Qed.

(* ================================================================== *)
(* Part 4: scope composition                                           *)
(* ================================================================== *)

Definition symx_over (w : world) (bis : list id) (q : qrange) : list (id * Z * id) :=
  flat_map (fun bi => bi_symx_at w bi q) bis.

Theorem symx_over_In w bis q bi k e :
  In (bi, k, e) (symx_over w bis q) <->
  In bi bis /\ In (k, e) (symx w bi) /\ exists a, naddr (getn w bi) = Some a /\ in_q (a + k) q = true.
Proof.
  unfold symx_over. rewrite in_flat_map. split.
  - intros [b [Hb Hin]]. apply bi_symx_at_In in Hin. destruct Hin as (-> & Hin & Ha).
    split; [exact Hb|]. split; [exact Hin|exact Ha].
  - intros (Hb & Hin & Ha). exists bi. split; [exact Hb|]. apply bi_symx_at_In.
    split; [reflexivity|]. split; [exact Hin|exact Ha].
Qed.

Lemma NoDup_app_intro {X} (l1 l2 : list X) :
  NoDup l1 -> NoDup l2 -> (forall x, In x l1 -> In x l2 -> False) -> NoDup (l1 ++ l2).
Proof.
  induction l1 as [|x l1 IH]; intros H1 H2 Hd; [exact H2|].
  inversion H1 as [|y l' Hn Hd1]; subst. cbn [app]. constructor.
  - intros Hin. apply in_app_or in Hin. destruct Hin as [Hin|Hin]; [exact (Hn Hin)|].
    apply (Hd x); [left; reflexivity|exact Hin].
  - apply IH; [exact Hd1|exact H2|]. intros z Hz1 Hz2. apply (Hd z); [right; exact Hz1|exact Hz2].
Qed.

Theorem symx_over_NoDup w bis q :
  NoDup bis -> (forall bi, In bi bis -> strictly_ascending (map fst (symx w bi))) ->
  NoDup (symx_over w bis q).
Proof.
  unfold symx_over. induction bis as [|b bis IH]; intros Hnd Hs; [constructor|].
  inversion Hnd as [|y l' Hn Hd]; subst. cbn [flat_map].
  apply NoDup_app_intro.
  - apply bi_symx_at_NoDup, Hs. left; reflexivity.
  - apply IH; [exact Hd|]. intros bi Hbi. apply Hs. right; exact Hbi.
  - intros [[b' k] e] H1 H2. apply bi_symx_at_In in H1. destruct H1 as (-> & _).
    apply in_flat_map in H2. destruct H2 as [b2 [Hb2 Hin2]].
    apply bi_symx_at_In in Hin2. destruct Hin2 as (-> & _). exact (Hn Hb2).
Qed.

Corollary symx_over_NoDup_sorted w bis q : NoDup bis -> SymxSorted w -> NoDup (symx_over w bis q).
Proof. intros Hnd Hs. apply symx_over_NoDup; [exact Hnd|]. intros bi _. apply Hs. Qed.

(* ---- the envelope at section scope ---- *)

(* what sec_bis_on reports (LookupProofs.sec_bis_on_exact, with `on_spec` unfolded) *)
Definition bis_on_spec (w : world) (s : id) (q : qrange) (bis : list id) : Prop :=
  forall bi, In bi bis <->
    In bi (kids w s) /\ exists a, naddr (getn w bi) = Some a /\
      (0 <? nsize (getn w bi)) && (Z.max (qstart q) a <? Z.min (qstop q) (a + nsize (getn w bi))) = true.

(* every reported triple is a stored expression of an interval of s, at an address in q *)
Theorem sec_symx_sound w s q bis (Hbis : bis_on_spec w s q bis) bi k e :
  In (bi, k, e) (symx_over w bis q) ->
  In bi (kids w s) /\ In (k, e) (symx w bi) /\
  exists a, naddr (getn w bi) = Some a /\ in_q (a + k) q = true.
Proof.
  intros H. apply symx_over_In in H. destruct H as (Hb & Hin & Ha).
  apply Hbis in Hb. destruct Hb as [Hk _]. split; [exact Hk|]. split; [exact Hin|exact Ha].
Qed.

(* every stored expression inside the declared extent of its interval, at an address in q, is reported *)
Theorem sec_symx_complete_inside w s q bis (Hbis : bis_on_spec w s q bis) bi k e a :
  In bi (kids w s) -> In (k, e) (symx w bi) -> naddr (getn w bi) = Some a ->
  in_q (a + k) q = true -> 0 <= k < nsize (getn w bi) ->
  In (bi, k, e) (symx_over w bis q).
Proof.
  intros Hk Hin Ha Hq Hext. apply symx_over_In. split; [|split; [exact Hin|exists a; split; [exact Ha|exact Hq]]].
  apply Hbis. split; [exact Hk|]. exists a. split; [exact Ha|].
  unfold in_q in Hq. apply andb_true_iff in Hq. destruct Hq as [Hq _].
  apply andb_true_iff in Hq. destruct Hq as [Hq1 Hq2].
  apply Z.leb_le in Hq1. apply Z.ltb_lt in Hq2.
  apply andb_true_iff. split; [apply Z.ltb_lt; lia|apply Z.ltb_lt; lia].
Qed.

Theorem sec_symx_NoDup w (q : qrange) bis : NoDup bis -> SymxSorted w -> NoDup (symx_over w bis q).
Proof. apply symx_over_NoDup_sorted. Qed.

(* sec_symx_at is that composition over the intervals reported by sec_bis_on, in the world it returns *)
Theorem sec_symx_at_unfold w s q :
  sec_symx_at w s q = (fst (sec_bis_on w s q), symx_over (fst (sec_bis_on w s q)) (snd (sec_bis_on w s q)) q).
Proof. unfold sec_symx_at. destruct (sec_bis_on w s q) as [w1 bis]. reflexivity. Qed.

(* the world returned by sec_bis_on differs from w only in `tree` *)
Lemma sec_bis_on_frame w s q :
  let w1 := fst (sec_bis_on w s q) in
  nodes w1 = nodes w /\ kids w1 = kids w /\ cache w1 = cache w /\ nix w1 = nix w /\ rix w1 = rix w /\ symx w1 = symx w.
Proof. cbv zeta. unfold sec_bis_on, force, lt_get. cbn. repeat split; reflexivity. Qed.

Lemma symx_over_world_irrelevant w w1 bis q :
  nodes w1 = nodes w -> symx w1 = symx w -> symx_over w1 bis q = symx_over w bis q.
Proof.
  intros Hn Hx. unfold symx_over. apply flat_map_ext_eq. intros bi.
  unfold bi_symx_at, getn. rewrite Hn, Hx. reflexivity.
Qed.

(* the envelope stated directly on sec_symx_at w s q, all in terms of the world w before the lookup *)
Theorem sec_symx_at_envelope w s q :
  bis_on_spec w s q (snd (sec_bis_on w s q)) ->
  let r := snd (sec_symx_at w s q) in
  (forall bi k e, In (bi, k, e) r ->
     In bi (kids w s) /\ In (k, e) (symx w bi) /\ exists a, naddr (getn w bi) = Some a /\ in_q (a + k) q = true) /\
  (forall bi k e a, In bi (kids w s) -> In (k, e) (symx w bi) -> naddr (getn w bi) = Some a ->
     in_q (a + k) q = true -> 0 <= k < nsize (getn w bi) -> In (bi, k, e) r) /\
  (NoDup (snd (sec_bis_on w s q)) -> SymxSorted w -> NoDup r) /\
  (forall bi, symx (fst (sec_symx_at w s q)) bi = symx w bi).
Proof.
  intros Hbis. cbv zeta. rewrite sec_symx_at_unfold. cbn [fst snd].
  destruct (sec_bis_on_frame w s q) as (Hn & _ & _ & _ & _ & Hx).
  rewrite (symx_over_world_irrelevant w _ _ q Hn Hx).
  split; [|split; [|split]].
  - intros bi k e. apply (sec_symx_sound w s q _ Hbis).
  - intros bi k e a. apply (sec_symx_complete_inside w s q _ Hbis).
  - apply symx_over_NoDup_sorted.
  - intros bi. rewrite Hx. reflexivity.
Qed.

(* ================================================================== *)

Print Assumptions symx_sorted_w0.
Print Assumptions symx_sorted_preserved.
Print Assumptions symx_sorted_reachable.
Print Assumptions symx_sorted_reachable_k.
Print Assumptions symx_step_other.
Print Assumptions symx_op_frame.
Print Assumptions symx_op_sorted_local.
Print Assumptions lookup_In_iff.
Print Assumptions sorted_lookup_ext.
Print Assumptions lookup_rev_last.
Print Assumptions lookup_rev_None.
Print Assumptions symx_set_spec.
Print Assumptions symx_del_spec.
Print Assumptions symx_popitem_spec.
Print Assumptions symx_setdefault_spec.
Print Assumptions symx_setdefault_absent_is_set.
Print Assumptions symx_update_spec.
Print Assumptions symx_clear_spec.
Print Assumptions symx_assign_spec.
Print Assumptions bi_symx_at_exact_gen.
Print Assumptions bi_symx_at_exact.
Print Assumptions bi_symx_at_off_exact.
Print Assumptions bi_symx_at_ascending.
Print Assumptions bi_symx_at_NoDup.
Print Assumptions bi_symx_at_off_ascending.
Print Assumptions bi_symx_at_off_NoDup.
Print Assumptions symx_over_In.
Print Assumptions symx_over_NoDup.
Print Assumptions sec_symx_sound.
Print Assumptions sec_symx_complete_inside.
Print Assumptions sec_symx_NoDup.
Print Assumptions sec_symx_at_envelope.
