(* Proofs about Model/TypeName.v.

   parse_print : the parser inverts the grammar's printer on well-formed trees;
   print_parse : whatever the parser accepts is the print of a well-formed tree;
   parse_total : the parser either succeeds or raises TypeNameError (never runs
                 out of fuel, never reaches a model-only branch). *)
From Coq Require Import ZArith List Bool Lia Arith.
From V Require Import Result TypeName.
Import ListNotations.
Open Scope Z_scope.
Local Open Scope nat_scope.

(* ------------------------------------------------------------------ *)
(* Induction principle for the nested inductive [tree].                *)

Lemma tree_ind' (P : tree -> Prop) :
  (forall nm subs, Forall P subs -> P (T nm subs)) -> forall t, P t.
Proof.
  intros H. fix IH 1. intros [nm subs]. apply H.
  induction subs as [|s ss IHss].
  - constructor.
  - constructor.
    + apply IH.
    + exact IHss.
Qed.

(* ------------------------------------------------------------------ *)
(* Token-level printer.                                                *)

Fixpoint sepT (l : list (list tok)) : list tok :=
  match l with
  | [] => []
  | [x] => x
  | x :: l' => x ++ TComma :: sepT l'
  end.

Fixpoint ptoks (t : tree) : list tok :=
  match t with
  | T nm subs =>
    TName nm :: match subs with
                | [] => []
                | _ => TLt :: sepT (map ptoks subs) ++ [TGt]
                end
  end.

Definition ptl (ts : list tree) : list tok := sepT (map ptoks ts).

Lemma ptl_nil : ptl [] = [].
Proof. reflexivity. Qed.

Lemma ptl_one t : ptl [t] = ptoks t.
Proof. reflexivity. Qed.

Lemma ptl_cons t t2 ts : ptl (t :: t2 :: ts) = ptoks t ++ TComma :: ptl (t2 :: ts).
Proof. reflexivity. Qed.

Lemma ptl_cons2 t ts : ts <> [] -> ptl (t :: ts) = ptoks t ++ TComma :: ptl ts.
Proof. intros H. destruct ts as [|t2 ts]; [contradiction|reflexivity]. Qed.

Lemma ptoks_leaf nm : ptoks (T nm []) = [TName nm].
Proof. reflexivity. Qed.

Lemma ptoks_node nm s ss :
  ptoks (T nm (s :: ss)) = TName nm :: TLt :: ptl (s :: ss) ++ [TGt].
Proof. reflexivity. Qed.

Lemma ptoks_node' nm ss :
  ss <> [] -> ptoks (T nm ss) = TName nm :: TLt :: ptl ss ++ [TGt].
Proof. intros H. destruct ss as [|s ss]; [contradiction|reflexivity]. Qed.

Lemma print_leaf nm : print (T nm []) = nm.
Proof. reflexivity. Qed.

Lemma print_node nm s ss :
  print (T nm (s :: ss)) =
  nm ++ [c_lt] ++ sepby [c_comma] (map print (s :: ss)) ++ [c_gt].
Proof. reflexivity. Qed.

Lemma sepby_cons sep x y l :
  sepby sep (x :: y :: l) = x ++ sep ++ sepby sep (y :: l).
Proof. reflexivity. Qed.

(* ------------------------------------------------------------------ *)
(* Detokenizer: every character is in exactly one token.               *)

Definition untok1 (t : tok) : list Z :=
  match t with
  | TName s => s
  | TLt => [c_lt]
  | TGt => [c_gt]
  | TComma => [c_comma]
  end.

Fixpoint untok (l : list tok) : list Z :=
  match l with
  | [] => []
  | t :: l' => untok1 t ++ untok l'
  end.

Lemma untok_cons t l : untok (t :: l) = untok1 t ++ untok l.
Proof. reflexivity. Qed.

Lemma untok_app a b : untok (a ++ b) = untok a ++ untok b.
Proof.
  induction a as [|x a IH]; simpl.
  - reflexivity.
  - rewrite IH, app_assoc. reflexivity.
Qed.

Lemma untok_flush acc : untok (flush acc) = rev acc.
Proof.
  destruct acc as [|z acc].
  - reflexivity.
  - unfold flush. rewrite untok_cons. unfold untok1. simpl untok.
    apply app_nil_r.
Qed.

Lemma untok1_delim c : is_delim c = true -> untok1 (delim_tok c) = [c].
Proof.
  unfold is_delim, delim_tok.
  destruct (Z.eqb_spec c c_lt) as [->|N1]; [intros _; reflexivity|].
  destruct (Z.eqb_spec c c_gt) as [->|N2]; [intros _; reflexivity|].
  destruct (Z.eqb_spec c c_comma) as [->|N3]; [intros _; reflexivity|].
  intros H. simpl in H. discriminate H.
Qed.

Lemma untok_tokenize_aux s : forall acc, untok (tokenize_aux acc s) = rev acc ++ s.
Proof.
  induction s as [|c s IH]; intros acc.
  - simpl. rewrite untok_flush, app_nil_r. reflexivity.
  - simpl tokenize_aux. destruct (is_delim c) eqn:Hd.
    + rewrite untok_app, untok_flush, untok_cons, (untok1_delim _ Hd), IH.
      reflexivity.
    + rewrite IH. simpl. rewrite <- app_assoc. reflexivity.
Qed.

Lemma untok_tokenize s : untok (tokenize s) = s.
Proof. unfold tokenize. rewrite untok_tokenize_aux. reflexivity. Qed.

Lemma untok_ptl ts :
  Forall (fun t => untok (ptoks t) = print t) ts ->
  untok (ptl ts) = sepby [c_comma] (map print ts).
Proof.
  induction ts as [|t ts IH]; intros HF.
  - reflexivity.
  - inversion HF as [|x xs Hx Hxs]; subst.
    destruct ts as [|t2 ts].
    + rewrite ptl_one. simpl. exact Hx.
    + rewrite ptl_cons, untok_app, untok_cons, Hx, (IH Hxs).
      change (map print (t :: t2 :: ts)) with (print t :: print t2 :: map print ts).
      rewrite sepby_cons. reflexivity.
Qed.

Lemma untok_ptoks : forall t, untok (ptoks t) = print t.
Proof.
  apply tree_ind'. intros nm subs HF.
  destruct subs as [|s ss].
  - rewrite ptoks_leaf, print_leaf. simpl. apply app_nil_r.
  - rewrite ptoks_node, print_node.
    rewrite untok_cons, untok_cons, untok_app, (untok_ptl _ HF).
    reflexivity.
Qed.

(* ------------------------------------------------------------------ *)
(* Names produced by the tokenizer are non-empty and delimiter-free.   *)

Definition nodelim (l : list Z) : bool := forallb (fun c => negb (is_delim c)) l.

Definition tok_ok (t : tok) : bool :=
  match t with TName nm => name_ok nm | _ => true end.

Lemma rev_nil_inv (X : Type) (l : list X) : rev l = [] -> l = [].
Proof.
  intros H. apply (f_equal (@rev X)) in H. rewrite rev_involutive in H. exact H.
Qed.

Lemma name_ok_split nm : name_ok nm = true <-> nm <> [] /\ nodelim nm = true.
Proof.
  unfold name_ok, nodelim. rewrite andb_true_iff. split.
  - intros [H1 H2]. split; [|exact H2]. intros ->. discriminate H1.
  - intros [H1 H2]. split; [|exact H2]. destruct nm; [contradiction|reflexivity].
Qed.

Lemma nodelim_rev l : nodelim l = true -> nodelim (rev l) = true.
Proof.
  unfold nodelim. rewrite !forallb_forall. intros H x Hx.
  apply H. apply in_rev. exact Hx.
Qed.

Lemma flush_ok acc : nodelim acc = true -> forallb tok_ok (flush acc) = true.
Proof.
  intros H. destruct acc as [|z acc].
  - reflexivity.
  - unfold flush. cbn [forallb tok_ok]. rewrite andb_true_r.
    apply name_ok_split. split.
    + intros E. apply rev_nil_inv in E. discriminate E.
    + apply nodelim_rev. exact H.
Qed.

Lemma tok_ok_delim c : tok_ok (delim_tok c) = true.
Proof.
  unfold delim_tok. destruct (c =? c_lt)%Z; [reflexivity|].
  destruct (c =? c_gt)%Z; reflexivity.
Qed.

Lemma tokenize_aux_ok s :
  forall acc, nodelim acc = true -> forallb tok_ok (tokenize_aux acc s) = true.
Proof.
  induction s as [|c s IH]; intros acc Hacc.
  - simpl. apply flush_ok. exact Hacc.
  - simpl tokenize_aux. destruct (is_delim c) eqn:Hd.
    + rewrite forallb_app. rewrite (flush_ok _ Hacc).
      cbn [forallb andb]. rewrite tok_ok_delim. cbn [andb].
      apply IH. reflexivity.
    + apply IH. unfold nodelim. cbn [forallb]. rewrite Hd. exact Hacc.
Qed.

Lemma tokenize_ok s : forallb tok_ok (tokenize s) = true.
Proof. unfold tokenize. apply tokenize_aux_ok. reflexivity. Qed.

Lemma ok_ptl ts :
  Forall (fun t => forallb tok_ok (ptoks t) = true -> wf t = true) ts ->
  forallb tok_ok (ptl ts) = true -> forallb wf ts = true.
Proof.
  induction ts as [|t ts IH]; intros HF Hok.
  - reflexivity.
  - inversion HF as [|x xs Hx Hxs]; subst.
    destruct ts as [|t2 ts].
    + rewrite ptl_one in Hok. cbn [forallb]. rewrite (Hx Hok). reflexivity.
    + rewrite ptl_cons, forallb_app in Hok.
      apply andb_true_iff in Hok. destruct Hok as [Hok1 Hok2].
      cbn [forallb tok_ok andb] in Hok2.
      change (forallb wf (t :: t2 :: ts)) with (wf t && forallb wf (t2 :: ts)).
      rewrite (Hx Hok1), (IH Hxs Hok2). reflexivity.
Qed.

Lemma wf_of_ok : forall t, forallb tok_ok (ptoks t) = true -> wf t = true.
Proof.
  intros t. induction t as [nm subs HF] using tree_ind'. intros Hok.
  destruct subs as [|s ss].
  - rewrite ptoks_leaf in Hok. cbn [forallb tok_ok] in Hok.
    cbn [wf forallb]. exact Hok.
  - rewrite ptoks_node in Hok. cbn [forallb tok_ok] in Hok.
    apply andb_true_iff in Hok. destruct Hok as [Hnm Hok].
    cbn [andb] in Hok. rewrite forallb_app in Hok.
    apply andb_true_iff in Hok. destruct Hok as [Hok _].
    change (wf (T nm (s :: ss))) with (name_ok nm && forallb wf (s :: ss)).
    rewrite Hnm, (ok_ptl _ HF Hok). reflexivity.
Qed.

(* ------------------------------------------------------------------ *)
(* Tokenizing a printed well-formed tree yields its token printing.    *)

Lemma tokenize_aux_name nm :
  forall acc rest, nodelim nm = true ->
  tokenize_aux acc (nm ++ rest) = tokenize_aux (rev nm ++ acc) rest.
Proof.
  induction nm as [|c nm IH]; intros acc rest H.
  - reflexivity.
  - unfold nodelim in H. cbn [forallb] in H.
    apply andb_true_iff in H. destruct H as [Hc Hnm].
    apply negb_true_iff in Hc.
    simpl. rewrite Hc. rewrite (IH _ _ Hnm). rewrite <- app_assoc. reflexivity.
Qed.

Definition dstart (r : list Z) : Prop :=
  match r with [] => True | c :: _ => is_delim c = true end.

Lemma flush_rev nm : nm <> [] -> flush (rev nm) = [TName nm].
Proof.
  intros H. destruct (rev nm) as [|z l] eqn:E.
  - apply rev_nil_inv in E. contradiction.
  - unfold flush. rewrite <- E, rev_involutive. reflexivity.
Qed.

Lemma tokenize_delim c r :
  is_delim c = true -> tokenize_aux [] (c :: r) = delim_tok c :: tokenize_aux [] r.
Proof. intros H. simpl. rewrite H. reflexivity. Qed.

Lemma tokenize_name nm rest :
  name_ok nm = true -> dstart rest ->
  tokenize_aux [] (nm ++ rest) = TName nm :: tokenize_aux [] rest.
Proof.
  intros Hn Hd. apply name_ok_split in Hn. destruct Hn as [Hne Hnd].
  rewrite (tokenize_aux_name _ _ _ Hnd), app_nil_r.
  destruct rest as [|c r].
  - simpl. apply flush_rev. exact Hne.
  - simpl in Hd. simpl tokenize_aux. rewrite Hd, (flush_rev _ Hne). reflexivity.
Qed.

Definition tok_print_P (t : tree) : Prop :=
  wf t = true -> forall rest, dstart rest ->
  tokenize_aux [] (print t ++ rest) = ptoks t ++ tokenize_aux [] rest.

Lemma tok_print_list ts :
  Forall tok_print_P ts -> forallb wf ts = true ->
  forall rest, dstart rest ->
  tokenize_aux [] (sepby [c_comma] (map print ts) ++ rest) =
  ptl ts ++ tokenize_aux [] rest.
Proof.
  induction ts as [|t ts IH]; intros HF Hwf rest Hd.
  - reflexivity.
  - inversion HF as [|x xs Hx Hxs]; subst.
    cbn [forallb] in Hwf. apply andb_true_iff in Hwf. destruct Hwf as [Hwt Hwts].
    destruct ts as [|t2 ts].
    + rewrite ptl_one. simpl map. simpl sepby. apply Hx; assumption.
    + change (map print (t :: t2 :: ts)) with (print t :: print t2 :: map print ts).
      rewrite sepby_cons, ptl_cons.
      change (print t2 :: map print ts) with (map print (t2 :: ts)).
      rewrite <- !app_assoc.
      rewrite (Hx Hwt); [|reflexivity].
      change ([c_comma] ++ sepby [c_comma] (map print (t2 :: ts)) ++ rest)
        with (c_comma :: sepby [c_comma] (map print (t2 :: ts)) ++ rest).
      rewrite tokenize_delim; [|reflexivity].
      rewrite (IH Hxs Hwts rest Hd). reflexivity.
Qed.

Lemma tok_print : forall t, tok_print_P t.
Proof.
  apply tree_ind'. intros nm subs HF. unfold tok_print_P. intros Hwf rest Hd.
  change (wf (T nm subs)) with (name_ok nm && forallb wf subs) in Hwf.
  apply andb_true_iff in Hwf. destruct Hwf as [Hnm Hsubs].
  destruct subs as [|s ss].
  - rewrite print_leaf, ptoks_leaf. rewrite (tokenize_name _ _ Hnm Hd). reflexivity.
  - rewrite print_node, ptoks_node.
    rewrite <- !app_assoc.
    rewrite (tokenize_name _ _ Hnm); [|reflexivity].
    change ([c_lt] ++ sepby [c_comma] (map print (s :: ss)) ++ [c_gt] ++ rest)
      with (c_lt :: sepby [c_comma] (map print (s :: ss)) ++ c_gt :: rest).
    rewrite tokenize_delim; [|reflexivity].
    rewrite (tok_print_list _ HF Hsubs); [|reflexivity].
    rewrite tokenize_delim; [|reflexivity].
    change (delim_tok c_lt) with TLt. change (delim_tok c_gt) with TGt.
    simpl. rewrite <- app_assoc. reflexivity.
Qed.

Lemma tokenize_print t : wf t = true -> tokenize (print t) = ptoks t.
Proof.
  intros H. unfold tokenize.
  rewrite <- (app_nil_r (print t)).
  rewrite (tok_print t H []); [|exact I].
  simpl. apply app_nil_r.
Qed.

(* ------------------------------------------------------------------ *)
(* The stack loop [scan].                                              *)

Definition pre (p : list tok) (x : list tok * list tok * nat)
  : list tok * list tok * nat :=
  let '(s, r, df) := x in (p ++ s, r, df).

Definition step (t : tok) (d : nat) : nat :=
  match t with TLt => S (S d) | TGt => d | _ => S d end.

Lemma scan_cons d t l : scan (S d) (t :: l) = pre [t] (scan (step t d) l).
Proof.
  simpl. unfold step. destruct t as [nm| | |]; destruct (scan _ l) as [[s0 r0] df0]; reflexivity.
Qed.

Lemma scan_zero l : scan 0 l = ([], l, 0).
Proof. destruct l; reflexivity. Qed.

Lemma pre_pre a b x : pre a (pre b x) = pre (a ++ b) x.
Proof. destruct x as [[s r] f]. simpl. rewrite app_assoc. reflexivity. Qed.

Lemma scan_app_eq l :
  forall d sub rem df, scan d l = (sub, rem, df) -> sub ++ rem = l.
Proof.
  induction l as [|t l IH]; intros d sub rem df H.
  - simpl in H. inversion H. reflexivity.
  - destruct d as [|d].
    + simpl in H. inversion H. reflexivity.
    + rewrite scan_cons in H.
      destruct (scan (step t d) l) as [[s r] f] eqn:E.
      simpl in H. inversion H; subst.
      simpl. f_equal. eapply IH. exact E.
Qed.

Lemma scan_zero_last l :
  forall d sub rem, scan (S d) l = (sub, rem, 0) -> exists b, sub = b ++ [TGt].
Proof.
  induction l as [|t l IH]; intros d sub rem H.
  - simpl in H. discriminate H.
  - rewrite scan_cons in H. destruct (step t d) as [|n] eqn:Es.
    + destruct t; simpl in Es; try discriminate Es.
      rewrite scan_zero in H. simpl in H. inversion H; subst.
      exists []. reflexivity.
    + destruct (scan (S n) l) as [[s r] f] eqn:E.
      simpl in H. inversion H; subst.
      apply IH in E. destruct E as [b ->].
      exists (t :: b). reflexivity.
Qed.

(* balanced token lists are swallowed whole at any positive depth *)
Definition bal (b : list tok) : Prop :=
  forall d rest, scan (S d) (b ++ rest) = pre b (scan (S d) rest).

Lemma bal_nil : bal [].
Proof. intros d rest. simpl app. destruct (scan (S d) rest) as [[s r] f]. reflexivity. Qed.

Lemma bal_name nm : bal [TName nm].
Proof. intros d rest. simpl app. rewrite scan_cons. reflexivity. Qed.

Lemma bal_comma : bal [TComma].
Proof. intros d rest. simpl app. rewrite scan_cons. reflexivity. Qed.

Lemma bal_app a b : bal a -> bal b -> bal (a ++ b).
Proof.
  intros Ha Hb d rest. rewrite <- app_assoc, Ha, Hb, pre_pre. reflexivity.
Qed.

Lemma bal_wrap b : bal b -> bal (TLt :: b ++ [TGt]).
Proof.
  intros Hb d rest.
  change ((TLt :: b ++ [TGt]) ++ rest) with (TLt :: (b ++ [TGt]) ++ rest).
  rewrite scan_cons. simpl step.
  rewrite <- app_assoc, Hb.
  change ([TGt] ++ rest) with (TGt :: rest).
  rewrite scan_cons. simpl step.
  rewrite !pre_pre. reflexivity.
Qed.

Lemma bal_ptl ts : Forall (fun t => bal (ptoks t)) ts -> bal (ptl ts).
Proof.
  induction ts as [|t ts IH]; intros HF.
  - apply bal_nil.
  - inversion HF as [|x xs Hx Hxs]; subst.
    destruct ts as [|t2 ts].
    + rewrite ptl_one. exact Hx.
    + rewrite ptl_cons. apply bal_app; [exact Hx|].
      apply (bal_app [TComma]); [apply bal_comma|apply IH; exact Hxs].
Qed.

Lemma bal_ptoks : forall t, bal (ptoks t).
Proof.
  apply tree_ind'. intros nm subs HF.
  destruct subs as [|s ss].
  - rewrite ptoks_leaf. apply bal_name.
  - rewrite ptoks_node. apply (bal_app [TName nm]); [apply bal_name|].
    apply bal_wrap. apply bal_ptl. exact HF.
Qed.

Lemma bal_ptl' ts : bal (ptl ts).
Proof. apply bal_ptl. apply Forall_forall. intros t _. apply bal_ptoks. Qed.

Lemma scan_ptl ts r :
  scan 1 (ptl ts ++ TGt :: r) = (ptl ts ++ [TGt], r, 0).
Proof.
  rewrite (bal_ptl' ts 0 (TGt :: r)). rewrite scan_cons. simpl step.
  rewrite scan_zero. reflexivity.
Qed.

(* ------------------------------------------------------------------ *)
(* Unfolding lemmas for [parse].                                       *)

Lemma last_is_gt_snoc b : last_is_gt (b ++ [TGt]) = true.
Proof. unfold last_is_gt. rewrite last_last. reflexivity. Qed.

Lemma parse_comma f nm tl acc :
  parse (S f) (TName nm :: TComma :: tl) acc = parse f tl (acc ++ [T nm []]).
Proof. reflexivity. Qed.

Lemma parse_lt f nm tl acc b rem :
  scan 1 tl = (b ++ [TGt], rem, 0) ->
  parse (S f) (TName nm :: TLt :: tl) acc =
  match parse f b [] with
  | Err e => Err e
  | Ok subs =>
    match rem with
    | [] => Ok (acc ++ [T nm subs])
    | TComma :: tl2 => parse f tl2 (acc ++ [T nm subs])
    | _ => Err ETypeName
    end
  end.
Proof.
  intros H. cbn [parse]. rewrite H, last_is_gt_snoc, removelast_last. reflexivity.
Qed.

(* ------------------------------------------------------------------ *)
(* Soundness of [parse].                                               *)

Lemma parse_sound f :
  forall toks acc res, parse f toks acc = Ok res ->
  exists ts, ts <> [] /\ res = acc ++ ts /\ toks = ptl ts.
Proof.
  induction f as [|f IH]; intros toks acc res H.
  - discriminate H.
  - destruct toks as [|t tail]; [discriminate H|].
    destruct t as [nm| | |]; try discriminate H.
    destruct tail as [|t2 tl].
    + simpl in H. inversion H; subst.
      exists [T nm []]. split; [discriminate|]. split; reflexivity.
    + destruct t2 as [nm2| | |]; try discriminate H.
      * (* TLt *)
        destruct (scan 1 tl) as [[sub rem] d] eqn:Es.
        destruct d as [|d].
        2:{ cbn [parse] in H. rewrite Es in H. discriminate H. }
        destruct (scan_zero_last _ _ _ _ Es) as [b ->].
        rewrite (parse_lt _ _ _ _ _ _ Es) in H.
        apply scan_app_eq in Es.
        destruct (parse f b []) as [subs|e] eqn:Ep; [|discriminate H].
        apply IH in Ep. destruct Ep as [ss [Hss [Hsubs Hb]]].
        simpl in Hsubs. subst subs b.
        destruct rem as [|r rem'].
        -- inversion H; subst.
           exists [T nm ss]. split; [discriminate|]. split; [reflexivity|].
           rewrite ptl_one, (ptoks_node' _ _ Hss), app_nil_r. reflexivity.
        -- destruct r as [nm3| | |]; try discriminate H.
           apply IH in H. destruct H as [ts [Hts [Hres Hrem]]].
           exists (T nm ss :: ts). split; [discriminate|]. split.
           ++ rewrite Hres, <- app_assoc. reflexivity.
           ++ rewrite (ptl_cons2 _ _ Hts), (ptoks_node' _ _ Hss).
              rewrite <- Es, Hrem. simpl. rewrite <- app_assoc. reflexivity.
      * (* TComma *)
        rewrite parse_comma in H.
        apply IH in H. destruct H as [ts [Hts [Hres Htl]]].
        exists (T nm [] :: ts). split; [discriminate|]. split.
        -- rewrite Hres, <- app_assoc. reflexivity.
        -- rewrite (ptl_cons2 _ _ Hts), ptoks_leaf, Htl. reflexivity.
Qed.

(* ------------------------------------------------------------------ *)
(* Completeness of [parse].                                            *)

Lemma ptl_shape nm s ss ts :
  ptl (T nm (s :: ss) :: ts) =
  TName nm :: TLt :: ptl (s :: ss) ++
    TGt :: match ts with [] => [] | _ :: _ => TComma :: ptl ts end.
Proof.
  destruct ts as [|t2 ts].
  - rewrite ptl_one, ptoks_node. reflexivity.
  - rewrite ptl_cons, ptoks_node. simpl. rewrite <- app_assoc. reflexivity.
Qed.

Lemma parse_complete f :
  forall ts acc, ts <> [] -> length (ptl ts) < f ->
  parse f (ptl ts) acc = Ok (acc ++ ts).
Proof.
  induction f as [|f IH]; intros ts acc Hne Hlen.
  - lia.
  - destruct ts as [|t ts]; [contradiction|].
    destruct t as [nm subs]. destruct subs as [|s ss].
    + destruct ts as [|t2 ts].
      * reflexivity.
      * rewrite ptl_cons, ptoks_leaf in *.
        change ([TName nm] ++ TComma :: ptl (t2 :: ts))
          with (TName nm :: TComma :: ptl (t2 :: ts)) in *.
        rewrite parse_comma. rewrite IH.
        -- rewrite <- app_assoc. reflexivity.
        -- discriminate.
        -- simpl length in Hlen. lia.
    + rewrite ptl_shape in *.
      rewrite (parse_lt _ _ _ _ _ _ (scan_ptl _ _)).
      simpl length in Hlen. rewrite app_length in Hlen. simpl length in Hlen.
      rewrite IH; [|discriminate|lia].
      simpl app.
      destruct ts as [|t2 ts].
      * reflexivity.
      * rewrite IH.
        -- rewrite <- app_assoc. reflexivity.
        -- discriminate.
        -- simpl length in Hlen. lia.
Qed.

(* ------------------------------------------------------------------ *)
(* Totality of [parse]: only TypeNameError can come out.               *)

Lemma parse_total_aux f :
  forall toks acc, length toks < f ->
  (exists r, parse f toks acc = Ok r) \/ parse f toks acc = Err ETypeName.
Proof.
  induction f as [|f IH]; intros toks acc Hlen.
  - lia.
  - destruct toks as [|t tail]; [right; reflexivity|].
    destruct t as [nm| | |]; try (right; reflexivity).
    destruct tail as [|t2 tl]; [left; eexists; reflexivity|].
    destruct t2 as [nm2| | |]; try (right; reflexivity).
    + (* TLt *)
      destruct (scan 1 tl) as [[sub rem] d] eqn:Es.
      destruct d as [|d].
      2:{ right. cbn [parse]. rewrite Es. reflexivity. }
      destruct (scan_zero_last _ _ _ _ Es) as [b ->].
      rewrite (parse_lt _ _ _ _ _ _ Es).
      apply scan_app_eq in Es.
      assert (Hl : length tl = length b + 1 + length rem).
      { rewrite <- Es, !app_length. reflexivity. }
      simpl length in Hlen.
      destruct (IH b [] ltac:(lia)) as [[subs Hs]|He].
      * rewrite Hs. destruct rem as [|r rem'].
        -- left. eexists. reflexivity.
        -- destruct r as [nm3| | |]; try (right; reflexivity).
           apply IH. simpl length in Hl. lia.
      * rewrite He. right. reflexivity.
    + (* TComma *)
      rewrite parse_comma. apply IH. simpl length in Hlen. lia.
Qed.

(* ------------------------------------------------------------------ *)
(* The three required theorems.                                        *)

Theorem parse_print : forall t, wf t = true -> parse_type (print t) = Ok t.
Proof.
  intros t Hwf. unfold parse_type, parse_tokens.
  rewrite (tokenize_print _ Hwf).
  rewrite <- (ptl_one t).
  rewrite parse_complete.
  - reflexivity.
  - discriminate.
  - lia.
Qed.

Theorem print_parse : forall s t, parse_type s = Ok t -> wf t = true /\ print t = s.
Proof.
  intros s t H. unfold parse_type, parse_tokens in H.
  destruct (parse (S (length (tokenize s))) (tokenize s) []) as [r|e] eqn:Ep;
    [|discriminate H].
  destruct r as [|t1 r]; [discriminate H|].
  destruct r as [|t2 r]; [|discriminate H].
  inversion H; subst t1.
  apply parse_sound in Ep. destruct Ep as [ts [Hts [Hres Htoks]]].
  simpl in Hres. subst ts. rewrite ptl_one in Htoks.
  split.
  - apply wf_of_ok. rewrite <- Htoks. apply tokenize_ok.
  - rewrite <- untok_ptoks, <- Htoks. apply untok_tokenize.
Qed.

Theorem parse_total :
  forall s, (exists t, parse_type s = Ok t) \/ parse_type s = Err ETypeName.
Proof.
  intros s. unfold parse_type, parse_tokens.
  destruct (parse_total_aux (S (length (tokenize s))) (tokenize s) [] ltac:(lia))
    as [[r Hr]|He].
  - rewrite Hr. destruct r as [|t1 r]; [right; reflexivity|].
    destruct r as [|t2 r]; [left; eexists; reflexivity|right; reflexivity].
  - rewrite He. right. reflexivity.
Qed.
