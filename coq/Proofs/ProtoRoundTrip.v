(* PR1: save then load reproduces the content (Model/Proto.v). *)
From Coq Require Import String.
From Coq Require Import ZArith List Bool Lia Permutation.
From V Require Import Result Bytes BytesProofs PyFacts Proto.
Import ListNotations.
Open Scope list_scope.
Open Scope Z_scope.

(* ------------------------------------------------------------------ *)
(* UUIDs                                                               *)
(* ------------------------------------------------------------------ *)

Lemma pow256_16 : pow256 16 = 2 ^ 128.
Proof. reflexivity. Qed.

Theorem bytes_of_uuid_length : forall u, length (bytes_of_uuid u) = 16%nat.
Proof.
  intros u. unfold bytes_of_uuid. rewrite rev_length, le_bytes_length. reflexivity.
Qed.

Theorem uuid_roundtrip : forall u, 0 <= u < 2 ^ 128 -> uuid_of_bytes (bytes_of_uuid u) = Ok u.
Proof.
  intros u Hu. unfold uuid_of_bytes. rewrite bytes_of_uuid_length.
  rewrite Nat.eqb_refl. unfold bytes_of_uuid.
  rewrite rev_involutive, of_le_le_bytes, pow256_16.
  rewrite Z.mod_small by exact Hu. reflexivity.
Qed.

Theorem bytes_of_uuid_inj : forall u v, 0 <= u < 2 ^ 128 -> 0 <= v < 2 ^ 128 -> bytes_of_uuid u = bytes_of_uuid v -> u = v.
Proof.
  intros u v Hu Hv He.
  pose proof (uuid_roundtrip u Hu) as H1.
  rewrite He, (uuid_roundtrip v Hv) in H1. inversion H1. reflexivity.
Qed.

Lemma bytes_of_uuid_nonnil : forall u, exists z l, bytes_of_uuid u = z :: l.
Proof.
  intros u. pose proof (bytes_of_uuid_length u) as H.
  destruct (bytes_of_uuid u) as [|z l].
  - discriminate H.
  - exists z, l. reflexivity.
Qed.

Lemma uuid_ok_iff : forall u, uuid_ok u = true <-> 0 <= u < 2 ^ 128.
Proof.
  intros u. unfold uuid_ok. rewrite andb_true_iff, Z.leb_le, Z.ltb_lt. reflexivity.
Qed.

Local Arguments bytes_of_uuid : simpl never.
Local Arguments uuid_of_bytes : simpl never.

(* ------------------------------------------------------------------ *)
(* Header                                                              *)
(* ------------------------------------------------------------------ *)

Theorem header_accepted : forall rest, check_header (header ++ rest) = Ok rest.
Proof. intros rest. reflexivity. Qed.

(* ------------------------------------------------------------------ *)
(* Generic list facts                                                  *)
(* ------------------------------------------------------------------ *)

Lemma existsb_false_in {X} (f : X -> bool) l x : existsb f l = false -> In x l -> f x = false.
Proof.
  induction l as [|y l IH]; intros He Hi.
  - destruct Hi.
  - cbn [existsb] in He. apply orb_false_iff in He. destruct He as [Hy Hl].
    destruct Hi as [Hi|Hi].
    + subst y. exact Hy.
    + apply IH; assumption.
Qed.

Lemma existsb_false_intro {X} (f : X -> bool) l : (forall x, In x l -> f x = false) -> existsb f l = false.
Proof.
  induction l as [|y l IH]; intros H.
  - reflexivity.
  - cbn [existsb]. rewrite (H y (or_introl eq_refl)). cbn [orb].
    apply IH. intros x Hx. apply H. right. exact Hx.
Qed.

Lemma existsb_eqb_In x l : existsb (Z.eqb x) l = true <-> In x l.
Proof.
  rewrite existsb_exists. split.
  - intros [y [Hy He]]. apply Z.eqb_eq in He. subst y. exact Hy.
  - intros Hi. exists x. split; [exact Hi|apply Z.eqb_refl].
Qed.

Lemma mem_z_In x l : mem_z x l = true <-> In x l.
Proof. unfold mem_z. apply existsb_eqb_In. Qed.

Lemma existsb_eqb_notin x l : existsb (Z.eqb x) l = false -> ~ In x l.
Proof.
  intros He Hi. apply existsb_eqb_In in Hi. rewrite Hi in He. discriminate He.
Qed.

Lemma nodup_z_spec l : nodup_z l = true -> NoDup l.
Proof.
  induction l as [|x l IH]; intros H.
  - constructor.
  - cbn [nodup_z] in H. apply andb_true_iff in H. destruct H as [Hx Hl].
    apply negb_true_iff in Hx. constructor.
    + apply existsb_eqb_notin. exact Hx.
    + apply IH. exact Hl.
Qed.

Lemma dedup_z_id l : nodup_z l = true -> dedup_z l = l.
Proof.
  induction l as [|x l IH]; intros H.
  - reflexivity.
  - cbn [nodup_z] in H. apply andb_true_iff in H. destruct H as [Hx Hl].
    apply negb_true_iff in Hx. cbn [dedup_z]. rewrite Hx, (IH Hl). reflexivity.
Qed.

Lemma olabel_eqb_sym a b : olabel_eqb a b = olabel_eqb b a.
Proof.
  destruct a as [[[t1 c1] d1]|]; destruct b as [[[t2 c2] d2]|]; cbn [olabel_eqb]; try reflexivity.
  rewrite (Z.eqb_sym t1 t2). destruct c1, c2, d1, d2; reflexivity.
Qed.

Lemma cedge_eqb_sym a b : cedge_eqb a b = cedge_eqb b a.
Proof.
  unfold cedge_eqb.
  rewrite (Z.eqb_sym (ce_src a)), (Z.eqb_sym (ce_dst a)), (olabel_eqb_sym (ce_label a)). reflexivity.
Qed.

Lemma dedup_edges_id_gen : forall l seen,
  (forall e, In e l -> existsb (cedge_eqb e) seen = false) ->
  nodup_edges l = true -> dedup_edges seen l = l.
Proof.
  induction l as [|e l IH]; intros seen Hs Hn.
  - reflexivity.
  - cbn [nodup_edges] in Hn. apply andb_true_iff in Hn. destruct Hn as [He Hl].
    apply negb_true_iff in He. cbn [dedup_edges].
    rewrite (Hs e (or_introl eq_refl)). f_equal.
    apply IH; [|exact Hl].
    intros e' Hi. cbn [existsb].
    rewrite (Hs e' (or_intror Hi)), orb_false_r.
    rewrite cedge_eqb_sym. apply (existsb_false_in _ _ _ He Hi).
Qed.

Lemma dedup_edges_id l : nodup_edges l = true -> dedup_edges [] l = l.
Proof.
  intros H. apply dedup_edges_id_gen; [|exact H]. intros e _. reflexivity.
Qed.

Lemma NoDup_app_iff {X} (l1 l2 : list X) :
  NoDup (l1 ++ l2) <-> NoDup l1 /\ NoDup l2 /\ (forall x, In x l1 -> ~ In x l2).
Proof.
  induction l1 as [|a l1 IH]; cbn [app].
  - split.
    + intros H. split; [constructor|]. split; [exact H|]. intros x [].
    + intros [_ [H _]]. exact H.
  - split.
    + intros H. inversion H as [|a' l' Hni Hnd]; subst.
      apply IH in Hnd. destruct Hnd as [H1 [H2 H3]].
      split.
      * constructor; [|exact H1]. intros Hi. apply Hni. apply in_or_app. left. exact Hi.
      * split; [exact H2|]. intros x [Hx|Hx].
        -- subst x. intros Hi. apply Hni. apply in_or_app. right. exact Hi.
        -- apply H3. exact Hx.
    + intros [H1 [H2 H3]]. inversion H1 as [|a' l' Hni Hnd]; subst. constructor.
      * intros Hi. apply in_app_or in Hi. destruct Hi as [Hi|Hi].
        -- apply Hni. exact Hi.
        -- apply (H3 a (or_introl eq_refl) Hi).
      * apply IH. split; [exact Hnd|]. split; [exact H2|].
        intros x Hx. apply H3. right. exact Hx.
Qed.

Lemma flat_map_singleton {X Y} (f : X -> Y) l : flat_map (fun x => [f x]) l = map f l.
Proof.
  induction l as [|x l IH]; [reflexivity|]. cbn [flat_map map app]. rewrite IH. reflexivity.
Qed.

(* map_res0 / iter_res *)
Lemma map_res0_ok {X Y W} (f : X -> res Y) (g : W -> X) (h : W -> Y) l :
  (forall x, In x l -> f (g x) = Ok (h x)) -> map_res0 f (map g l) = Ok (map h l).
Proof.
  induction l as [|x l IH]; intros H.
  - reflexivity.
  - cbn [map map_res0]. rewrite (H x (or_introl eq_refl)). cbn [bind].
    rewrite IH; [reflexivity|]. intros y Hy. apply H. right. exact Hy.
Qed.

Lemma iter_res_ok {X} (f : X -> res unit) l : (forall x, In x l -> f x = Ok tt) -> iter_res f l = Ok tt.
Proof.
  induction l as [|x l IH]; intros H.
  - reflexivity.
  - cbn [iter_res]. rewrite (H x (or_introl eq_refl)). cbn [bind].
    apply IH. intros y Hy. apply H. right. exact Hy.
Qed.

Lemma check_enum_ok nm v : enum_ok nm v = true -> check_enum nm v = Ok tt.
Proof. intros H. unfold check_enum. rewrite H. reflexivity. Qed.

Local Arguments check_enum : simpl never.
Local Arguments enum_ok : simpl never.

(* ------------------------------------------------------------------ *)
(* Tables                                                              *)
(* ------------------------------------------------------------------ *)

Definition dom (t : table) : list Z := map fst t.

Lemma dom_app a b : dom (a ++ b) = dom a ++ dom b.
Proof. unfold dom. apply map_app. Qed.

Lemma dom_cons u k t : dom ((u, k) :: t) = u :: dom t.
Proof. reflexivity. Qed.

Lemma in_dom u k t : In (u, k) t -> In u (dom t).
Proof. intros H. unfold dom. apply (in_map fst) in H. exact H. Qed.

(* a table is fine when its uuids are pairwise distinct and in range *)
Definition tok (t : table) : Prop := NoDup (dom t) /\ forall u, In u (dom t) -> 0 <= u < 2 ^ 128.

Lemma tok_app_r a b : tok (a ++ b) -> tok b.
Proof.
  intros [Hn Hr]. rewrite dom_app in Hn, Hr. split.
  - apply NoDup_app_iff in Hn. tauto.
  - intros u Hu. apply Hr. apply in_or_app. right. exact Hu.
Qed.

Lemma tok_cons_inv u k t : tok ((u, k) :: t) -> ~ In u (dom t) /\ 0 <= u < 2 ^ 128 /\ tok t.
Proof.
  intros [Hn Hr]. rewrite dom_cons in Hn, Hr. inversion Hn as [|a l Hni Hnd]; subst.
  split; [exact Hni|]. split.
  - apply Hr. left. reflexivity.
  - split; [exact Hnd|]. intros v Hv. apply Hr. right. exact Hv.
Qed.

Lemma tok_range t u k : tok t -> In (u, k) t -> 0 <= u < 2 ^ 128.
Proof. intros [_ Hr] Hi. apply Hr. apply (in_dom u k). exact Hi. Qed.

Lemma tlookup_cons u k t v : tlookup ((u, k) :: t) v = if u =? v then Some k else tlookup t v.
Proof. unfold tlookup. cbn [find fst snd]. destruct (u =? v); reflexivity. Qed.

Lemma tlookup_none t u : ~ In u (dom t) -> tlookup t u = None.
Proof.
  induction t as [|[v k] t IH]; intros H.
  - reflexivity.
  - rewrite tlookup_cons. rewrite dom_cons in H.
    destruct (Z.eqb_spec v u) as [E|E].
    + exfalso. apply H. left. exact E.
    + apply IH. intros Hi. apply H. right. exact Hi.
Qed.

Lemma tlookup_in t u k : NoDup (dom t) -> In (u, k) t -> tlookup t u = Some k.
Proof.
  induction t as [|[v k'] t IH]; intros Hn Hi.
  - destruct Hi.
  - rewrite tlookup_cons. rewrite dom_cons in Hn. inversion Hn as [|a l Hni Hnd]; subst.
    destruct Hi as [Hi|Hi].
    + inversion Hi; subst. rewrite Z.eqb_refl. reflexivity.
    + destruct (Z.eqb_spec v u) as [E|E].
      * exfalso. subst v. apply Hni. apply (in_dom u k). exact Hi.
      * apply IH; assumption.
Qed.

Lemma fresh_ok t u k : ~ In u (dom t) -> fresh t u k = Ok tt.
Proof. intros H. unfold fresh. rewrite (tlookup_none t u H). reflexivity. Qed.

Local Arguments tlookup : simpl never.
Local Arguments fresh : simpl never.

(* every uuid of l is in the table with an admissible kind *)
Definition covers (l : list Z) (ok : nkind -> bool) (t : table) : Prop :=
  forall u, In u l -> exists k, In (u, k) t /\ ok k = true.

Lemma covers_nil ok t : covers [] ok t.
Proof. intros u []. Qed.

Lemma covers_incl l ok t t' : incl t t' -> covers l ok t -> covers l ok t'.
Proof.
  intros Hi Hc u Hu. destruct (Hc u Hu) as [k [Hk Ho]]. exists k. split; [apply Hi; exact Hk|exact Ho].
Qed.

Lemma covers_app l1 l2 ok t : covers l1 ok t -> covers l2 ok t -> covers (l1 ++ l2) ok t.
Proof.
  intros H1 H2 u Hu. apply in_app_or in Hu. destruct Hu as [Hu|Hu]; [apply H1|apply H2]; exact Hu.
Qed.

Lemma covers_app_l l ok a b : covers l ok a -> covers l ok (a ++ b).
Proof. apply covers_incl. apply incl_appl. apply incl_refl. Qed.

Lemma covers_app_r l ok a b : covers l ok b -> covers l ok (a ++ b).
Proof. apply covers_incl. apply incl_appr. apply incl_refl. Qed.

Lemma resolve_ok t l ok u :
  tok t -> covers l ok t -> In u l -> resolve t (bytes_of_uuid u) ok = Ok u.
Proof.
  intros Ht Hc Hu. destruct (Hc u Hu) as [k [Hk Ho]].
  unfold resolve. rewrite (uuid_roundtrip u (tok_range t u k Ht Hk)). cbn [bind].
  rewrite (tlookup_in t u k (proj1 Ht) Hk), Ho. reflexivity.
Qed.

Local Arguments resolve : simpl never.

(* the table entries of a list of subtrees, in table order (latest first) *)
Fixpoint Es {X} (E : X -> table) (xs : list X) : table :=
  match xs with
  | [] => []
  | x :: xs' => Es E xs' ++ E x
  end.

Lemma In_Es {X} (E : X -> table) xs p : In p (Es E xs) <-> exists x, In x xs /\ In p (E x).
Proof.
  induction xs as [|x xs IH]; cbn [Es].
  - split; [intros []|intros [x [[] _]]].
  - rewrite in_app_iff, IH. split.
    + intros [[y [Hy Hp]]|Hp].
      * exists y. split; [right; exact Hy|exact Hp].
      * exists x. split; [left; reflexivity|exact Hp].
    + intros [y [[Hy|Hy] Hp]].
      * subst y. right. exact Hp.
      * left. exists y. split; assumption.
Qed.

Lemma dom_Es_perm {X} (E : X -> table) (U : X -> list Z) xs :
  (forall x, In x xs -> Permutation (dom (E x)) (U x)) ->
  Permutation (dom (Es E xs)) (flat_map U xs).
Proof.
  induction xs as [|x xs IH]; intros H; cbn [Es flat_map].
  - apply perm_nil.
  - rewrite dom_app.
    apply Permutation_trans with (dom (E x) ++ dom (Es E xs)).
    + apply Permutation_app_comm.
    + apply Permutation_app.
      * apply H. left. reflexivity.
      * apply IH. intros y Hy. apply H. right. exact Hy.
Qed.

Lemma map_res_Es {X Y W} (f : table -> X -> res (Y * table)) (g : W -> X) (h : W -> Y) (E : W -> table) :
  forall zs t,
  tok (Es E zs ++ t) ->
  (forall z t', In z zs -> incl t t' -> tok (E z ++ t') -> f t' (g z) = Ok (h z, E z ++ t')) ->
  map_res f t (map g zs) = Ok (map h zs, Es E zs ++ t).
Proof.
  induction zs as [|z zs IH]; intros t Ht H.
  - reflexivity.
  - cbn [Es] in Ht |- *. rewrite <- app_assoc in Ht |- *.
    cbn [map map_res].
    rewrite (H z t (or_introl eq_refl) (incl_refl t) (tok_app_r _ _ Ht)). cbn [bind].
    rewrite (IH (E z ++ t) Ht).
    + reflexivity.
    + intros z' t' Hz' Hi Hk. apply H.
      * right. exact Hz'.
      * intros p Hp. apply Hi. apply in_or_app. right. exact Hp.
      * exact Hk.
Qed.

Lemma map_res_Es_id {X W} (f : table -> X -> res (W * table)) (g : W -> X) (E : W -> table) :
  forall zs t,
  tok (Es E zs ++ t) ->
  (forall z t', In z zs -> incl t t' -> tok (E z ++ t') -> f t' (g z) = Ok (z, E z ++ t')) ->
  map_res f t (map g zs) = Ok (zs, Es E zs ++ t).
Proof.
  intros zs t Ht H.
  rewrite (map_res_Es f g (fun z => z) E zs t Ht H). rewrite map_id. reflexivity.
Qed.

Local Arguments map_res : simpl never.
Local Arguments map_res0 : simpl never.
Local Arguments iter_res : simpl never.
Local Arguments dedup_z : simpl never.

(* ------------------------------------------------------------------ *)
(* Blocks, byte intervals, sections                                    *)
(* ------------------------------------------------------------------ *)

Definition kind_block (b : cBlock) : nkind := if cb_code b then NCode else NData.
Definition E_block (b : cBlock) : table := [(cb_uuid b, kind_block b)].
Definition block_ok (k : cBlock) : bool :=
  if cb_code k then enum_ok "DecodeMode" (cb_dm k) else cb_dm k =? 0.

Lemma decode_block_ok t b :
  tok (E_block b ++ t) -> block_ok b = true ->
  decode_block t (block_to_proto b) = Ok (b, E_block b ++ t).
Proof.
  intros Ht Hok. destruct b as [u code off sz dm].
  unfold E_block, kind_block, block_ok in *. cbn [cb_uuid cb_code cb_dm app] in *.
  apply tok_cons_inv in Ht. destruct Ht as (Hni & Hr & Ht).
  unfold decode_block, block_to_proto. cbn [cb_uuid cb_code cb_dm cb_off cb_size b_val b_off].
  destruct code; cbn [b_val b_off].
  - rewrite (uuid_roundtrip u Hr). cbn [bind]. rewrite (fresh_ok t u NCode Hni). cbn [bind].
    rewrite (check_enum_ok _ _ Hok). reflexivity.
  - rewrite (uuid_roundtrip u Hr). cbn [bind]. rewrite (fresh_ok t u NData Hni). cbn [bind].
    apply Z.eqb_eq in Hok. subst dm. reflexivity.
Qed.

Definition bi0 (b : cBI) : cBI0 :=
  {| c0 := {| ci_uuid := ci_uuid b; ci_addr := ci_addr b; ci_size := ci_size b; ci_contents := ci_contents b;
              ci_blocks := ci_blocks b; ci_symx := [] |};
     c0_symx := map (fun kv => (fst kv, expr_to_proto (snd kv))) (ci_symx b) |}.
Definition E_bi (b : cBI) : table := Es E_block (ci_blocks b) ++ [(ci_uuid b, NBI)].

Lemma decode_bi_ok t b :
  tok (E_bi b ++ t) -> bi_ok b = true ->
  decode_bi t (bi_to_proto b) = Ok (bi0 b, E_bi b ++ t).
Proof.
  intros Ht Hok. unfold bi_ok in Hok. repeat rewrite andb_true_iff in Hok.
  destruct Hok as [[[[Hsz _] Hbl] _] _].
  unfold E_bi in *. rewrite <- app_assoc in Ht |- *. cbn [app] in Ht |- *.
  pose proof (tok_app_r _ _ Ht) as Ht0.
  apply tok_cons_inv in Ht0. destruct Ht0 as (Hni & Hr & _).
  unfold decode_bi, bi_to_proto. cbn [bi_uuid bi_size bi_contents bi_blocks bi_has_addr bi_addr bi_symx].
  rewrite (uuid_roundtrip _ Hr). cbn [bind]. rewrite (fresh_ok t _ NBI Hni). cbn [bind].
  apply Z.leb_le in Hsz. apply Z.ltb_ge in Hsz. rewrite Hsz.
  rewrite (map_res_Es_id decode_block block_to_proto E_block (ci_blocks b) _ Ht).
  - cbn [bind]. unfold bi0. destruct (ci_addr b); reflexivity.
  - intros k t' Hk _ Ht'. apply decode_block_ok; [exact Ht'|].
    rewrite forallb_forall in Hbl. apply (Hbl k Hk).
Qed.

Definition sec0 (s : cSection) : Z * list Z * list Z * list cBI0 :=
  (cs_uuid s, cs_name s, cs_flags s, map bi0 (cs_bis s)).
Definition E_sec (s : cSection) : table := Es E_bi (cs_bis s) ++ [(cs_uuid s, NSec)].
Definition sec_ok (s : cSection) : bool :=
  forallb (enum_ok "SectionFlag") (cs_flags s) && nodup_z (cs_flags s) && forallb bi_ok (cs_bis s).

Lemma decode_section_ok t s :
  tok (E_sec s ++ t) -> sec_ok s = true ->
  decode_section t (section_to_proto s) = Ok (sec0 s, E_sec s ++ t).
Proof.
  intros Ht Hok. unfold sec_ok in Hok. repeat rewrite andb_true_iff in Hok.
  destruct Hok as [[Hfl Hnd] Hbis].
  unfold E_sec in *. rewrite <- app_assoc in Ht |- *. cbn [app] in Ht |- *.
  pose proof (tok_app_r _ _ Ht) as Ht0.
  apply tok_cons_inv in Ht0. destruct Ht0 as (Hni & Hr & _).
  unfold decode_section, section_to_proto. cbn [s_uuid s_name s_bis s_flags].
  rewrite (uuid_roundtrip _ Hr). cbn [bind]. rewrite (fresh_ok t _ NSec Hni). cbn [bind].
  rewrite iter_res_ok.
  - cbn [bind].
    rewrite (map_res_Es decode_bi bi_to_proto bi0 E_bi (cs_bis s) _ Ht).
    + cbn [bind]. rewrite (dedup_z_id _ Hnd). reflexivity.
    + intros b t' Hb _ Ht'. apply decode_bi_ok; [exact Ht'|].
      rewrite forallb_forall in Hbis. apply (Hbis b Hb).
  - intros x Hx. apply check_enum_ok. rewrite forallb_forall in Hfl. apply (Hfl x Hx).
Qed.

Local Arguments decode_block : simpl never.
Local Arguments decode_bi : simpl never.
Local Arguments decode_section : simpl never.

(* ------------------------------------------------------------------ *)
(* Proxies, symbols, symbolic expressions                              *)
(* ------------------------------------------------------------------ *)

Definition E_proxy (u : Z) : table := [(u, NProxy)].
Definition E_sym (y : cSymbol) : table := [(cy_uuid y, NSym)].

Lemma decode_proxy_ok t u :
  tok (E_proxy u ++ t) -> decode_proxy t (bytes_of_uuid u) = Ok (u, E_proxy u ++ t).
Proof.
  intros Ht. unfold E_proxy in *. cbn [app] in *.
  apply tok_cons_inv in Ht. destruct Ht as (Hni & Hr & _).
  unfold decode_proxy. rewrite (uuid_roundtrip _ Hr). cbn [bind].
  rewrite (fresh_ok t _ NProxy Hni). reflexivity.
Qed.

Definition sym_ok (blocks : list Z) (y : cSymbol) : bool :=
  match cy_payload y with CPRef r => mem_z r blocks | _ => true end.

Lemma decode_symbol_ok t blocks y :
  tok (E_sym y ++ t) -> covers blocks is_block_kind t -> sym_ok blocks y = true ->
  decode_symbol t (symbol_to_proto y) = Ok (y, E_sym y ++ t).
Proof.
  intros Ht Hc Hok. destruct y as [u nm pl ae].
  unfold E_sym, sym_ok in *. cbn [app cy_uuid cy_payload] in *.
  apply tok_cons_inv in Ht. destruct Ht as (Hni & Hr & Ht).
  unfold decode_symbol, symbol_to_proto. cbn [y_uuid y_payload y_name y_at_end cy_uuid cy_payload cy_name cy_at_end].
  rewrite (uuid_roundtrip _ Hr). cbn [bind]. rewrite (fresh_ok t _ NSym Hni). cbn [bind].
  destruct pl as [|v|r]; cbn [bind]; try reflexivity.
  apply mem_z_In in Hok. rewrite (resolve_ok t blocks is_block_kind r Ht Hc Hok). reflexivity.
Qed.

Definition expr_ok (syms : list Z) (kv : Z * cExpr) : bool :=
  forallb (fun y => mem_z y syms) (expr_syms (snd kv)).

Lemma decode_expr_ok t syms kv :
  tok t -> covers syms (fun k => nkind_eqb k NSym) t ->
  expr_ok syms kv = true -> nodup_z (cx_attrs (snd kv)) = true ->
  decode_expr t (fst kv, expr_to_proto (snd kv)) = Ok kv.
Proof.
  intros Ht Hc Hok Hnd. destruct kv as [k [v attrs]].
  unfold expr_ok, expr_syms in Hok. cbn [fst snd cx_val cx_attrs] in *.
  unfold decode_expr, expr_to_proto. cbn [fst snd x_val x_attrs cx_val cx_attrs].
  rewrite (dedup_z_id _ Hnd).
  destruct v as [off s|sc off s1 s2]; cbn [forallb] in Hok; repeat rewrite andb_true_iff in Hok.
  - destruct Hok as [H1 _]. apply mem_z_In in H1.
    rewrite (resolve_ok t syms _ s Ht Hc H1). reflexivity.
  - destruct Hok as [H1 [H2 _]]. apply mem_z_In in H1. apply mem_z_In in H2.
    rewrite (resolve_ok t syms _ s1 Ht Hc H1). cbn [bind].
    rewrite (resolve_ok t syms _ s2 Ht Hc H2). reflexivity.
Qed.

Definition bi_exprs_ok (syms : list Z) (b : cBI) : bool := forallb (expr_ok syms) (ci_symx b).

Lemma finish_bi_ok t syms b :
  tok t -> covers syms (fun k => nkind_eqb k NSym) t ->
  bi_exprs_ok syms b = true -> bi_ok b = true ->
  finish_bi t (bi0 b) = Ok b.
Proof.
  intros Ht Hc Hex Hok. unfold bi_ok in Hok. repeat rewrite andb_true_iff in Hok.
  destruct Hok as [_ Hat].
  unfold finish_bi, bi0. cbn [c0 c0_symx ci_uuid ci_addr ci_size ci_contents ci_blocks ci_symx].
  rewrite (map_res0_ok (decode_expr t) (fun kv => (fst kv, expr_to_proto (snd kv))) (fun kv => kv)).
  - cbn [bind]. rewrite map_id. destruct b; reflexivity.
  - intros kv Hkv. apply (decode_expr_ok t syms kv Ht Hc).
    + unfold bi_exprs_ok in Hex. rewrite forallb_forall in Hex. apply (Hex kv Hkv).
    + rewrite forallb_forall in Hat. apply (Hat kv Hkv).
Qed.

Definition sec_exprs_ok (syms : list Z) (s : cSection) : bool := forallb (bi_exprs_ok syms) (cs_bis s).

Lemma finish_section_ok t syms s :
  tok t -> covers syms (fun k => nkind_eqb k NSym) t ->
  sec_exprs_ok syms s = true -> sec_ok s = true ->
  finish_section t (sec0 s) = Ok s.
Proof.
  intros Ht Hc Hex Hok. unfold sec_ok in Hok. repeat rewrite andb_true_iff in Hok.
  destruct Hok as [_ Hbis].
  unfold finish_section, sec0.
  rewrite (map_res0_ok (finish_bi t) bi0 (fun b => b)).
  - cbn [bind]. rewrite map_id. destruct s; reflexivity.
  - intros b Hb. apply (finish_bi_ok t syms b Ht Hc).
    + unfold sec_exprs_ok in Hex. rewrite forallb_forall in Hex. apply (Hex b Hb).
    + rewrite forallb_forall in Hbis. apply (Hbis b Hb).
Qed.

Local Arguments decode_proxy : simpl never.
Local Arguments decode_symbol : simpl never.
Local Arguments decode_expr : simpl never.
Local Arguments finish_bi : simpl never.
Local Arguments finish_section : simpl never.

(* ------------------------------------------------------------------ *)
(* What the entries of a module cover                                  *)
(* ------------------------------------------------------------------ *)

Lemma In_block_secs secs s b k :
  In s secs -> In b (cs_bis s) -> In k (ci_blocks b) -> In (cb_uuid k, kind_block k) (Es E_sec secs).
Proof.
  intros Hs Hb Hk. apply In_Es. exists s. split; [exact Hs|].
  unfold E_sec. apply in_or_app. left. apply In_Es. exists b. split; [exact Hb|].
  unfold E_bi. apply in_or_app. left. apply In_Es. exists k. split; [exact Hk|]. left. reflexivity.
Qed.

Lemma In_module_blocks m k :
  In k (module_blocks m) -> exists s b, In s (cm_sections m) /\ In b (cs_bis s) /\ In k (ci_blocks b).
Proof.
  unfold module_blocks. intros H. apply in_flat_map in H. destruct H as [s [Hs H]].
  apply in_flat_map in H. destruct H as [b [Hb Hk]]. exists s, b. auto.
Qed.

Lemma covers_code_secs m :
  covers (code_uuids m) (fun k => nkind_eqb k NCode) (Es E_sec (cm_sections m)).
Proof.
  intros u Hu. unfold code_uuids in Hu. apply in_flat_map in Hu. destruct Hu as [k [Hk Hu]].
  destruct (cb_code k) eqn:E; [|destruct Hu]. destruct Hu as [Hu|[]]. subst u.
  apply In_module_blocks in Hk. destruct Hk as [s [b [Hs [Hb Hk]]]].
  exists NCode. split; [|reflexivity].
  pose proof (In_block_secs _ s b k Hs Hb Hk) as H. unfold kind_block in H. rewrite E in H. exact H.
Qed.

Lemma covers_blocks_secs m :
  covers (map cb_uuid (module_blocks m)) is_block_kind (Es E_sec (cm_sections m)).
Proof.
  intros u Hu. apply in_map_iff in Hu. destruct Hu as [k [Hu Hk]]. subst u.
  apply In_module_blocks in Hk. destruct Hk as [s [b [Hs [Hb Hk]]]].
  exists (kind_block k). split; [apply (In_block_secs _ s b k Hs Hb Hk)|].
  unfold kind_block. destruct (cb_code k); reflexivity.
Qed.

Lemma covers_cfg_secs secs :
  covers (flat_map (fun s => flat_map (fun b => flat_map (fun k => if cb_code k then [cb_uuid k] else []) (ci_blocks b)) (cs_bis s)) secs)
         is_cfg_kind (Es E_sec secs).
Proof.
  intros u Hu. apply in_flat_map in Hu. destruct Hu as [s [Hs Hu]].
  apply in_flat_map in Hu. destruct Hu as [b [Hb Hu]].
  apply in_flat_map in Hu. destruct Hu as [k [Hk Hu]].
  destruct (cb_code k) eqn:E; [|destruct Hu]. destruct Hu as [Hu|[]]. subst u.
  exists NCode. split; [|reflexivity].
  pose proof (In_block_secs _ s b k Hs Hb Hk) as H. unfold kind_block in H. rewrite E in H. exact H.
Qed.

Lemma covers_proxies ps ok : ok NProxy = true -> covers ps ok (Es E_proxy ps).
Proof.
  intros Hok u Hu. exists NProxy. split; [|exact Hok].
  apply In_Es. exists u. split; [exact Hu|]. left. reflexivity.
Qed.

Lemma covers_syms ys : covers (map cy_uuid ys) (fun k => nkind_eqb k NSym) (Es E_sym ys).
Proof.
  intros u Hu. apply in_map_iff in Hu. destruct Hu as [y [Hu Hy]]. subst u.
  exists NSym. split; [|reflexivity].
  apply In_Es. exists y. split; [exact Hy|]. left. reflexivity.
Qed.

(* ------------------------------------------------------------------ *)
(* Modules                                                             *)
(* ------------------------------------------------------------------ *)

Definition E_mod (m : cModule) : table :=
  Es E_sym (cm_symbols m) ++ Es E_sec (cm_sections m) ++ Es E_proxy (cm_proxies m) ++ [(cm_uuid m, NMod)].

Lemma decode_entry_ok t codes (oe : option Z) :
  tok t -> covers codes (fun k => nkind_eqb k NCode) t ->
  match oe with Some e => mem_z e codes | None => true end = true ->
  match (match oe with Some u => bytes_of_uuid u | None => [] end) with
  | [] => Ok None
  | z :: l => do e <- resolve t (z :: l) (fun k => nkind_eqb k NCode); Ok (Some e)
  end = Ok oe.
Proof.
  intros Ht Hc Hm. destruct oe as [e|]; [|reflexivity].
  destruct (bytes_of_uuid_nonnil e) as [z [l E]]. rewrite E. cbv beta iota. rewrite <- E.
  apply mem_z_In in Hm. rewrite (resolve_ok t codes _ e Ht Hc Hm). reflexivity.
Qed.

Lemma decode_module_ok t codes blocks syms m :
  tok (E_mod m ++ t) -> module_ok codes blocks syms m = true ->
  covers codes (fun k => nkind_eqb k NCode) t -> covers blocks is_block_kind t ->
  covers syms (fun k => nkind_eqb k NSym) t ->
  decode_module t (module_to_proto m) = Ok (m, E_mod m ++ t).
Proof.
  intros Ht Hok Hc Hb Hs.
  unfold module_ok in Hok. repeat rewrite andb_true_iff in Hok.
  destruct Hok as [[[[[[Hisa Hff] Hbo] Hsecs] Hentry] Hsyms] Hexprs].
  unfold E_mod in Ht |- *. repeat rewrite <- app_assoc in Ht |- *. cbn [app] in Ht |- *.
  pose proof (tok_app_r _ _ Ht) as Ht2.
  pose proof (tok_app_r _ _ Ht2) as Ht1.
  pose proof (tok_app_r _ _ Ht1) as Ht0.
  apply tok_cons_inv in Ht0. destruct Ht0 as (Hni & Hr & _).
  set (t0 := (cm_uuid m, NMod) :: t) in *.
  set (t1 := Es E_proxy (cm_proxies m) ++ t0) in *.
  set (t2 := Es E_sec (cm_sections m) ++ t1) in *.
  set (t3 := Es E_sym (cm_symbols m) ++ t2) in *.
  assert (I01 : incl t t0) by (intros p Hp; right; exact Hp).
  assert (I12 : incl t t2).
  { intros p Hp. unfold t2, t1. apply in_or_app. right. apply in_or_app. right. apply I01. exact Hp. }
  assert (I23 : incl t2 t3) by (apply incl_appr; apply incl_refl).
  (* what t2 / t3 cover *)
  assert (Hc2 : covers (codes ++ code_uuids m) (fun k => nkind_eqb k NCode) t2).
  { apply covers_app; [apply (covers_incl _ _ t _ I12 Hc)|]. apply covers_app_l. apply covers_code_secs. }
  assert (Hb2 : covers (blocks ++ block_uuids m) is_block_kind t2).
  { apply covers_app; [apply (covers_incl _ _ t _ I12 Hb)|]. unfold block_uuids. apply covers_app.
    - apply covers_app_l. apply covers_blocks_secs.
    - apply covers_app_r. apply covers_app_l. apply covers_proxies. reflexivity. }
  assert (Hs3 : covers (syms ++ map cy_uuid (cm_symbols m)) (fun k => nkind_eqb k NSym) t3).
  { apply covers_app.
    - apply (covers_incl _ _ t). + intros p Hp. apply I23. apply I12. exact Hp. + exact Hs.
    - apply covers_app_l. apply covers_syms. }
  unfold decode_module, module_to_proto.
  cbn [m_uuid m_binary_path m_preferred_addr m_rebase_delta m_file_format m_isa m_name m_symbols m_proxies
       m_sections m_aux m_entry m_byte_order].
  rewrite (uuid_roundtrip _ Hr). cbn [bind]. rewrite (fresh_ok t _ NMod Hni). cbn [bind].
  rewrite (check_enum_ok _ _ Hisa). cbn [bind].
  rewrite (check_enum_ok _ _ Hff). cbn [bind].
  rewrite (check_enum_ok _ _ Hbo). cbn [bind].
  fold t0.
  rewrite (map_res_Es_id decode_proxy bytes_of_uuid E_proxy (cm_proxies m) t0 Ht1).
  2:{ intros u t' _ _ Ht'. apply decode_proxy_ok. exact Ht'. }
  cbn [bind]. fold t1.
  rewrite (map_res_Es decode_section section_to_proto sec0 E_sec (cm_sections m) t1 Ht2).
  2:{ intros s t' Hin _ Ht'. apply decode_section_ok; [exact Ht'|].
      rewrite forallb_forall in Hsecs. apply (Hsecs s Hin). }
  cbn [bind]. fold t2.
  rewrite (decode_entry_ok t2 _ (cm_entry m) Ht2 Hc2 Hentry). cbn [bind].
  rewrite (map_res_Es_id decode_symbol symbol_to_proto E_sym (cm_symbols m) t2 Ht).
  2:{ intros y t' Hin Hincl Ht'.
      apply (decode_symbol_ok t' (blocks ++ block_uuids m) y Ht').
      - apply (covers_incl _ _ t2 _ Hincl Hb2).
      - rewrite forallb_forall in Hsyms. apply (Hsyms y Hin). }
  cbn [bind]. fold t3.
  rewrite (map_res0_ok (finish_section t3) sec0 (fun s => s)).
  2:{ intros s Hin. apply (finish_section_ok t3 (syms ++ map cy_uuid (cm_symbols m)) s Ht Hs3).
      - rewrite forallb_forall in Hexprs. apply (Hexprs s Hin).
      - rewrite forallb_forall in Hsecs. apply (Hsecs s Hin). }
  cbn [bind]. rewrite map_id. destruct m; reflexivity.
Qed.

Local Arguments decode_module : simpl never.

Lemma covers_cfg_mod m : covers (module_cfg_nodes m) is_cfg_kind (E_mod m).
Proof.
  unfold module_cfg_nodes, E_mod. apply covers_app.
  - apply covers_app_r. apply covers_app_l. apply covers_cfg_secs.
  - apply covers_app_r. apply covers_app_r. apply covers_app_l. apply covers_proxies. reflexivity.
Qed.

Lemma covers_cfg_mods ms : covers (flat_map module_cfg_nodes ms) is_cfg_kind (Es E_mod ms).
Proof.
  intros u Hu. apply in_flat_map in Hu. destruct Hu as [m [Hm Hu]].
  destruct (covers_cfg_mod m u Hu) as [k [Hk Hok]]. exists k. split; [|exact Hok].
  apply In_Es. exists m. split; assumption.
Qed.

Lemma decode_modules_ok : forall ms t codes blocks syms,
  tok (Es E_mod ms ++ t) -> modules_ok codes blocks syms ms = true ->
  covers codes (fun k => nkind_eqb k NCode) t -> covers blocks is_block_kind t ->
  covers syms (fun k => nkind_eqb k NSym) t ->
  map_res decode_module t (map module_to_proto ms) = Ok (ms, Es E_mod ms ++ t).
Proof.
  induction ms as [|m ms IH]; intros t codes blocks syms Ht Hok Hc Hb Hs.
  - reflexivity.
  - cbn [modules_ok] in Hok. apply andb_true_iff in Hok. destruct Hok as [Hm Hms].
    cbn [Es] in Ht |- *. rewrite <- app_assoc in Ht |- *.
    unfold map_res. cbn [map]. fold (@map_res pModule cModule).
    rewrite (decode_module_ok t codes blocks syms m (tok_app_r _ _ Ht) Hm Hc Hb Hs). cbn [bind].
    rewrite (IH (E_mod m ++ t) _ _ _ Ht Hms).
    + reflexivity.
    + apply covers_app; [apply covers_app_r; exact Hc|]. apply covers_app_l.
      unfold E_mod. apply covers_app_r. apply covers_app_l. apply covers_code_secs.
    + apply covers_app; [apply covers_app_r; exact Hb|]. apply covers_app_l.
      unfold E_mod, block_uuids. apply covers_app.
      * apply covers_app_r. apply covers_app_l. apply covers_blocks_secs.
      * apply covers_app_r. apply covers_app_r. apply covers_app_l. apply covers_proxies. reflexivity.
    + apply covers_app; [apply covers_app_r; exact Hs|]. apply covers_app_l.
      unfold E_mod. apply covers_app_l. apply covers_syms.
Qed.

(* ------------------------------------------------------------------ *)
(* The table's uuids are a permutation of all_uuids                    *)
(* ------------------------------------------------------------------ *)

Lemma perm_blocks bs : Permutation (dom (Es E_block bs)) (map cb_uuid bs).
Proof.
  rewrite <- flat_map_singleton. apply dom_Es_perm. intros b _. apply Permutation_refl.
Qed.

Definition U_bi (b : cBI) : list Z := ci_uuid b :: map cb_uuid (ci_blocks b).
Definition U_sec (s : cSection) : list Z := cs_uuid s :: flat_map U_bi (cs_bis s).

Lemma perm_bi b : Permutation (dom (E_bi b)) (U_bi b).
Proof.
  unfold E_bi, U_bi. rewrite dom_app. cbn [dom map fst].
  apply Permutation_sym. apply Permutation_trans with (map cb_uuid (ci_blocks b) ++ [ci_uuid b]).
  - apply Permutation_cons_append.
  - apply Permutation_app_tail. apply Permutation_sym. apply perm_blocks.
Qed.

Lemma perm_sec s : Permutation (dom (E_sec s)) (U_sec s).
Proof.
  unfold E_sec, U_sec. rewrite dom_app. cbn [dom map fst].
  apply Permutation_sym. apply Permutation_trans with (flat_map U_bi (cs_bis s) ++ [cs_uuid s]).
  - apply Permutation_cons_append.
  - apply Permutation_app_tail. apply Permutation_sym. apply dom_Es_perm. intros b _. apply perm_bi.
Qed.

Lemma perm_proxies ps : Permutation (dom (Es E_proxy ps)) ps.
Proof.
  rewrite <- (map_id ps) at 2. rewrite <- flat_map_singleton. apply dom_Es_perm. intros u _. apply Permutation_refl.
Qed.

Lemma perm_syms ys : Permutation (dom (Es E_sym ys)) (map cy_uuid ys).
Proof.
  rewrite <- flat_map_singleton. apply dom_Es_perm. intros y _. apply Permutation_refl.
Qed.

Lemma perm_rot {X} (a b c : list X) (u : X) : Permutation (a ++ b ++ c ++ [u]) (u :: c ++ b ++ a).
Proof.
  apply Permutation_sym.
  apply Permutation_trans with ((c ++ b ++ a) ++ [u]); [apply Permutation_cons_append|].
  replace (a ++ b ++ c ++ [u]) with ((a ++ b ++ c) ++ [u]) by (rewrite <- !app_assoc; reflexivity).
  apply Permutation_app_tail.
  apply Permutation_trans with ((b ++ a) ++ c); [apply Permutation_app_comm|].
  rewrite (app_assoc a b c). apply Permutation_app_tail. apply Permutation_app_comm.
Qed.

Lemma perm_mod m : Permutation (dom (E_mod m)) (all_uuids_module m).
Proof.
  unfold E_mod, all_uuids_module. rewrite !dom_app. cbn [dom map fst].
  apply Permutation_trans with
      (cm_uuid m :: dom (Es E_proxy (cm_proxies m)) ++ dom (Es E_sec (cm_sections m)) ++ dom (Es E_sym (cm_symbols m))).
  - apply perm_rot.
  - apply perm_skip. apply Permutation_app; [apply perm_proxies|].
    apply Permutation_app; [|apply perm_syms].
    apply (dom_Es_perm E_sec U_sec). intros s _. apply perm_sec.
Qed.

Lemma perm_all c :
  Permutation (dom (Es E_mod (cr_modules c) ++ [(cr_uuid c, NIR)])) (all_uuids c).
Proof.
  unfold all_uuids. rewrite dom_app. cbn [dom map fst].
  apply Permutation_sym.
  apply Permutation_trans with (flat_map all_uuids_module (cr_modules c) ++ [cr_uuid c]).
  - apply Permutation_cons_append.
  - apply Permutation_app_tail. apply Permutation_sym. apply dom_Es_perm. intros m _. apply perm_mod.
Qed.

(* ------------------------------------------------------------------ *)
(* Edges                                                               *)
(* ------------------------------------------------------------------ *)

Lemma decode_edge_ok t l e :
  tok t -> covers l is_cfg_kind t -> In (ce_src e) l -> In (ce_dst e) l ->
  match ce_label e with Some (ty, _, _) => enum_ok "EdgeType" ty | None => true end = true ->
  decode_edge t (edge_to_proto e) = Ok e.
Proof.
  intros Ht Hc Hs Hd Hl. destruct e as [s d lab]. cbn [ce_src ce_dst ce_label] in *.
  unfold decode_edge, edge_to_proto. cbn [e_src e_dst e_label ce_src ce_dst ce_label].
  rewrite (resolve_ok t l _ s Ht Hc Hs). cbn [bind].
  rewrite (resolve_ok t l _ d Ht Hc Hd). cbn [bind].
  destruct lab as [[[ty c] dr]|]; cbn [l_type l_cond l_direct bind].
  - rewrite (check_enum_ok _ _ Hl). reflexivity.
  - reflexivity.
Qed.

(* ------------------------------------------------------------------ *)
(* Main theorems                                                       *)
(* ------------------------------------------------------------------ *)

Theorem load_save : forall c, wf c = true -> from_proto (to_proto c) = Ok c.
Proof.
  intros c H. unfold wf in H. cbv zeta in H. repeat rewrite andb_true_iff in H.
  destruct H as [[[[[Hu Hnd] Hv] Hm] He] Hne].
  set (t := Es E_mod (cr_modules c) ++ [(cr_uuid c, NIR)]).
  assert (Ht : tok t).
  { split.
    - apply (Permutation_NoDup (Permutation_sym (perm_all c))). apply nodup_z_spec. exact Hnd.
    - intros u Hi. apply (Permutation_in _ (perm_all c)) in Hi.
      apply uuid_ok_iff. rewrite forallb_forall in Hu. apply (Hu u Hi). }
  assert (Hr : 0 <= cr_uuid c < 2 ^ 128).
  { apply (tok_range t _ NIR Ht). unfold t. apply in_or_app. right. left. reflexivity. }
  unfold from_proto, to_proto. cbn [i_uuid i_modules i_aux i_version i_vertices i_edges].
  rewrite (uuid_roundtrip _ Hr). cbn [bind]. rewrite Hv. cbn [negb].
  rewrite (decode_modules_ok (cr_modules c) [(cr_uuid c, NIR)] [] [] [] Ht Hm
             (covers_nil _ _) (covers_nil _ _) (covers_nil _ _)).
  cbn [bind]. fold t.
  rewrite (map_res0_ok (decode_edge t) edge_to_proto (fun e => e)).
  - cbn [bind]. rewrite map_id, (dedup_edges_id _ Hne). destruct c; reflexivity.
  - intros e Hin. rewrite forallb_forall in He. specialize (He e Hin).
    repeat rewrite andb_true_iff in He. destruct He as [[Hs Hd] Hl].
    apply mem_z_In in Hs. apply mem_z_In in Hd.
    apply (decode_edge_ok t (flat_map module_cfg_nodes (cr_modules c)) e Ht); try assumption.
    unfold t. apply covers_app_l. apply covers_cfg_mods.
Qed.

Lemma check_header_header : check_header header = Ok [].
Proof. reflexivity. Qed.

Theorem file_roundtrip : forall c, wf c = true -> load (fst (save c)) (snd (save c)) = Ok c.
Proof.
  intros c H. unfold save, load. cbn [fst snd]. rewrite check_header_header. cbn [bind].
  apply load_save. exact H.
Qed.

Theorem resave_same : forall c c', wf c = true -> load (fst (save c)) (snd (save c)) = Ok c' -> save c' = save c.
Proof.
  intros c c' H Hl. rewrite (file_roundtrip c H) in Hl. inversion Hl. reflexivity.
Qed.

(* ------------------------------------------------------------------ *)
(* Non-vacuity: concrete contents                                      *)
(* ------------------------------------------------------------------ *)

Definition ex_code : cBlock := {| cb_uuid := 10; cb_code := true; cb_off := 0; cb_size := 4; cb_dm := 0 |}.
Definition ex_data : cBlock := {| cb_uuid := 11; cb_code := false; cb_off := 4; cb_size := 2; cb_dm := 0 |}.
Definition ex_bi : cBI :=
  {| ci_uuid := 5; ci_addr := Some 0; ci_size := 8; ci_contents := [1; 2; 3; 255];
     ci_blocks := [ex_code; ex_data];
     ci_symx := [(0, {| cx_val := CAddrConst 7 20; cx_attrs := [0; 4] |});
                 (4, {| cx_val := CAddrAddr 1 0 20 21; cx_attrs := [] |})] |}.
Definition ex_sec : cSection := {| cs_uuid := 4; cs_name := [46; 116]; cs_flags := [1; 3]; cs_bis := [ex_bi] |}.
Definition ex_mod1 : cModule :=
  {| cm_uuid := 2; cm_name := [109]; cm_binary_path := [47]; cm_isa := 3; cm_file_format := 2; cm_byte_order := 2;
     cm_preferred_addr := 0; cm_rebase_delta := 0; cm_entry := Some 10;
     cm_proxies := [12]; cm_sections := [ex_sec];
     cm_symbols := [ {| cy_uuid := 20; cy_name := [102]; cy_payload := CPRef 10; cy_at_end := false |};
                     {| cy_uuid := 21; cy_name := [103]; cy_payload := CPVal 0; cy_at_end := true |};
                     {| cy_uuid := 22; cy_name := []; cy_payload := CPNone; cy_at_end := false |} ];
     cm_aux := [([110], {| a_type := [115]; a_data := [0] |})] |}.
Definition ex_mod2 : cModule :=
  {| cm_uuid := 3; cm_name := []; cm_binary_path := []; cm_isa := 0; cm_file_format := 0; cm_byte_order := 0;
     cm_preferred_addr := 0; cm_rebase_delta := 0; cm_entry := None;
     cm_proxies := []; 
     cm_sections := [ {| cs_uuid := 30; cs_name := []; cs_flags := [];
                         cs_bis := [ {| ci_uuid := 31; ci_addr := None; ci_size := 0; ci_contents := [];
                                        ci_blocks := [ {| cb_uuid := 2 ^ 128 - 1; cb_code := true; cb_off := 0; cb_size := 0; cb_dm := 1 |} ];
                                        ci_symx := [] |} ] |} ];
     (* a symbol of the second module referring to a proxy of the first one *)
     cm_symbols := [ {| cy_uuid := 32; cy_name := []; cy_payload := CPRef 12; cy_at_end := false |} ];
     cm_aux := [] |}.
Definition ex_ir : cIR :=
  {| cr_uuid := 0; cr_version := py_protobuf_version; cr_modules := [ex_mod1; ex_mod2];
     cr_edges := [ {| ce_src := 10; ce_dst := 12; ce_label := None |};
                   {| ce_src := 10; ce_dst := 12; ce_label := Some (0, false, false) |};
                   {| ce_src := 2 ^ 128 - 1; ce_dst := 10; ce_label := Some (3, true, true) |} ];
     cr_aux := [] |}.

Example ex_ir_wf : wf ex_ir = true.
Proof. vm_compute. reflexivity. Qed.

Example ex_ir_roundtrip : from_proto (to_proto ex_ir) = Ok ex_ir.
Proof. vm_compute. reflexivity. Qed.

Example ex_ir_file_roundtrip : load (fst (save ex_ir)) (snd (save ex_ir)) = Ok ex_ir.
Proof. vm_compute. reflexivity. Qed.

(* the empty content (no module, no edge) is fine as well *)
Definition ex_empty : cIR :=
  {| cr_uuid := 1; cr_version := py_protobuf_version; cr_modules := []; cr_edges := []; cr_aux := [] |}.

Example ex_empty_wf : wf ex_empty = true.
Proof. vm_compute. reflexivity. Qed.

Example ex_empty_roundtrip : from_proto (to_proto ex_empty) = Ok ex_empty.
Proof. vm_compute. reflexivity. Qed.

Print Assumptions uuid_roundtrip.
Print Assumptions bytes_of_uuid_length.
Print Assumptions bytes_of_uuid_inj.
Print Assumptions load_save.
Print Assumptions header_accepted.
Print Assumptions file_roundtrip.
Print Assumptions resave_same.
Print Assumptions ex_ir_wf.
Print Assumptions ex_ir_roundtrip.
