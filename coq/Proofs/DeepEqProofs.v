(* Task DQ: deep_eq (Model/DeepEq.v) is exact structural equality of the normalised contents. *)
From Coq Require Import ZArith List Bool Lia Permutation Sorting.
From V Require Import Result Proto DeepEq DeepEqBase.
Import ListNotations.
Open Scope Z_scope.

(* ------------------------------------------------------------------ *)
(* the premise                                                          *)
(* ------------------------------------------------------------------ *)

Definition ref_ok (c : cIR) (r : Z) : bool := match find_ref c r with Some _ => true | None => false end.
Definition sym_ok (c : cIR) (s : Z) : bool := match find_symbol c s with Some _ => true | None => false end.
(* a DataBlock has no decode mode: the content record carries 0 there (Proto.bi_ok) *)
Definition blk_ok (k : cBlock) : bool := cb_code k || (cb_dm k =? 0).
Definition bi_deq_ok (c : cIR) (b : cBI) : bool :=
  forallb blk_ok (ci_blocks b) && nodup_z (map fst (ci_symx b))
  && forallb (fun kv => forallb (sym_ok c) (expr_syms (snd kv))) (ci_symx b).
Definition module_deq_ok (c : cIR) (m : cModule) : bool :=
  nodup_keys (map fst (cm_aux m))
  && forallb (fun s => forallb (bi_deq_ok c) (cs_bis s)) (cm_sections m)
  && forallb (fun y => match cy_payload y with CPRef r => ref_ok c r | _ => true end) (cm_symbols m)
  && match cm_entry m with Some e => ref_ok c e | None => true end.
Definition deq_ok (c : cIR) : bool :=
  nodup_z (all_uuids c) && nodup_keys (map fst (cr_aux c))
  && forallb (module_deq_ok c) (cr_modules c)
  && forallb (fun e => ref_ok c (ce_src e) && ref_ok c (ce_dst e)) (cr_edges c).

Definition all_blocks (c : cIR) : list cBlock := flat_map module_blocks (cr_modules c).
Definition all_proxies (c : cIR) : list Z := flat_map cm_proxies (cr_modules c).
Definition all_symbols (c : cIR) : list cSymbol := flat_map cm_symbols (cr_modules c).

Lemma find_ref_unfold c u :
  find_ref c u = match find (fun b => cb_uuid b =? u) (all_blocks c) with
                 | Some b => Some (RBlock b)
                 | None => if existsb (Z.eqb u) (all_proxies c) then Some (RProxy u) else None
                 end.
Proof. reflexivity. Qed.

Lemma find_symbol_unfold c u : find_symbol c u = find (fun y => cy_uuid y =? u) (all_symbols c).
Proof. reflexivity. Qed.

Lemma existsb_zeqb_In u l : existsb (Z.eqb u) l = true <-> In u l.
Proof.
  rewrite existsb_exists. split.
  - intros [y [Hy E]]. apply Z.eqb_eq in E. subst y. exact Hy.
  - intros H. exists u. split; [exact H | apply Z.eqb_refl].
Qed.

(* ------------------------------------------------------------------ *)
(* blocks and references                                                *)
(* ------------------------------------------------------------------ *)

Lemma block_deq_refl x : block_deq x x = true.
Proof.
  unfold block_deq. rewrite eqb_reflx, !Z.eqb_refl. destruct (cb_code x); reflexivity.
Qed.

Lemma block_deq_uuid x y : block_deq x y = true -> cb_uuid x = cb_uuid y.
Proof.
  unfold block_deq. intros H.
  apply andb_true_iff in H as [H H5]. apply andb_true_iff in H as [H H4].
  apply andb_true_iff in H as [H H3]. apply Z.eqb_eq, H3.
Qed.

Lemma block_deq_fwd x y : blk_ok x = true -> blk_ok y = true -> block_deq x y = true -> x = y.
Proof.
  unfold blk_ok, block_deq. intros Hx Hy H.
  apply andb_true_iff in H as [H H5]. apply andb_true_iff in H as [H H4].
  apply andb_true_iff in H as [H H3]. apply andb_true_iff in H as [H1 H2].
  apply eqb_prop in H1. apply Z.eqb_eq in H2. apply Z.eqb_eq in H3. apply Z.eqb_eq in H4.
  destruct x as [ux cx ox sx dx], y as [uy cy oy sy dy].
  cbn [cb_uuid cb_code cb_off cb_size cb_dm] in *. subst cy oy uy sy.
  destruct cx; cbn [orb] in *.
  - apply Z.eqb_eq in H5. subst dy. reflexivity.
  - apply Z.eqb_eq in Hx. apply Z.eqb_eq in Hy. subst dx dy. reflexivity.
Qed.

Lemma block_deq_iff x y : blk_ok x = true -> blk_ok y = true -> (block_deq x y = true <-> x = y).
Proof.
  intros Hx Hy. split; [apply block_deq_fwd; assumption|]. intros E. subst y. apply block_deq_refl.
Qed.

Lemma find_ref_block c u x : find_ref c u = Some (RBlock x) -> In x (all_blocks c) /\ cb_uuid x = u.
Proof.
  rewrite find_ref_unfold. destruct (find (fun b => cb_uuid b =? u) (all_blocks c)) as [k|] eqn:E.
  - intros H. injection H as H. subst k. apply find_key_some in E. exact E.
  - destruct (existsb (Z.eqb u) (all_proxies c)); discriminate.
Qed.

Lemma find_ref_proxy c u v : find_ref c u = Some (RProxy v) ->
  v = u /\ (forall x, In x (all_blocks c) -> cb_uuid x <> u) /\ In u (all_proxies c).
Proof.
  rewrite find_ref_unfold. destruct (find (fun b => cb_uuid b =? u) (all_blocks c)) as [k|] eqn:E; [discriminate|].
  destruct (existsb (Z.eqb u) (all_proxies c)) eqn:Ep; [|discriminate].
  intros H. injection H as H. subst v. split; [reflexivity|]. split.
  - apply (find_key_none cb_uuid _ _ E).
  - apply existsb_zeqb_In, Ep.
Qed.

Lemma rnode_deq_eq ca cb x y : rnode_deq (find_ref ca x) (find_ref cb y) = true -> x = y.
Proof.
  destruct (find_ref ca x) as [[kx|px]|] eqn:Ea; destruct (find_ref cb y) as [[ky|py]|] eqn:Eb;
    cbn [rnode_deq]; intros H; try discriminate.
  - apply find_ref_block in Ea as [_ Ea]. apply find_ref_block in Eb as [_ Eb].
    apply block_deq_uuid in H. congruence.
  - apply find_ref_proxy in Ea as [Ea _]. apply find_ref_proxy in Eb as [Eb _].
    apply Z.eqb_eq in H. congruence.
Qed.

Lemma ref_ok_block c k : In k (all_blocks c) -> ref_ok c (cb_uuid k) = true.
Proof.
  intros H. unfold ref_ok. rewrite find_ref_unfold.
  destruct (find_key_exists cb_uuid _ _ H) as [y Hy]. rewrite Hy. reflexivity.
Qed.

Lemma ref_ok_proxy c p : In p (all_proxies c) -> ref_ok c p = true.
Proof.
  intros H. unfold ref_ok. rewrite find_ref_unfold.
  destruct (find (fun b => cb_uuid b =? p) (all_blocks c)); [reflexivity|].
  apply existsb_zeqb_In in H. rewrite H. reflexivity.
Qed.

Lemma sym_ok_in c y : In y (all_symbols c) -> sym_ok c (cy_uuid y) = true.
Proof.
  intros H. unfold sym_ok. rewrite find_symbol_unfold.
  destruct (find_key_exists cy_uuid _ _ H) as [z Hz]. rewrite Hz. reflexivity.
Qed.

(* the context facts needed for the direction  norm a = norm b -> ir_deq a b = true *)
Definition ctx_ok (ca cb : cIR) : Prop :=
  (forall r, ref_ok ca r = true -> rnode_deq (find_ref ca r) (find_ref cb r) = true)
  /\ (forall s, sym_ok ca s = true -> osym_deq ca cb s s = true).

(* ------------------------------------------------------------------ *)
(* symbols                                                              *)
(* ------------------------------------------------------------------ *)

Lemma symbol_deq_fwd ca cb a b : symbol_deq ca cb a b = true -> a = b.
Proof.
  unfold symbol_deq. intros H.
  apply andb_true_iff in H as [H H5]. apply andb_true_iff in H as [H H4].
  apply andb_true_iff in H as [H H3]. apply andb_true_iff in H as [H1 H2].
  apply Z.eqb_eq in H5. apply eqb_prop in H4. apply zs_eqb_eq in H3.
  destruct a as [ua na pa ea], b as [ub nb pb eb].
  cbn [cy_uuid cy_name cy_payload cy_at_end] in *. subst ub nb eb.
  assert (E : pa = pb).
  { destruct pa as [|va|ra], pb as [|vb|rb]; cbn in H1, H2; try discriminate; try reflexivity.
    - apply Z.eqb_eq in H1. subst vb. reflexivity.
    - apply rnode_deq_eq in H2. subst rb. reflexivity. }
  subst pb. reflexivity.
Qed.

Lemma symbol_deq_refl ca cb a :
  (forall r, cy_payload a = CPRef r -> rnode_deq (find_ref ca r) (find_ref cb r) = true) ->
  symbol_deq ca cb a a = true.
Proof.
  intros Hr. unfold symbol_deq.
  rewrite eqb_reflx, Z.eqb_refl, (proj2 (zs_eqb_eq _ _) eq_refl), !andb_true_r.
  destruct (cy_payload a) as [|v|r] eqn:E.
  - reflexivity.
  - rewrite Z.eqb_refl. reflexivity.
  - rewrite (Hr r eq_refl). reflexivity.
Qed.

Lemma osym_deq_eq ca cb x y : osym_deq ca cb x y = true -> x = y.
Proof.
  unfold osym_deq. rewrite !find_symbol_unfold.
  destruct (find (fun y0 => cy_uuid y0 =? x) (all_symbols ca)) as [a|] eqn:Ea; [|discriminate].
  destruct (find (fun y0 => cy_uuid y0 =? y) (all_symbols cb)) as [b|] eqn:Eb; [|discriminate].
  intros H. apply symbol_deq_fwd in H. subst b.
  apply find_key_some in Ea as [_ Ea]. apply find_key_some in Eb as [_ Eb]. congruence.
Qed.

(* ------------------------------------------------------------------ *)
(* expressions                                                          *)
(* ------------------------------------------------------------------ *)

Lemma expr_deq_fwd ca cb a b : expr_deq ca cb a b = true ->
  cx_val a = cx_val b /\ norm_set (cx_attrs a) = norm_set (cx_attrs b).
Proof.
  unfold expr_deq. destruct (cx_val a) as [o1 s1|c1 o1 s1 t1], (cx_val b) as [o2 s2|c2 o2 s2 t2];
    intros H; try discriminate.
  - apply andb_true_iff in H as [H H3]. apply andb_true_iff in H as [H1 H2].
    apply Z.eqb_eq in H1. apply osym_deq_eq in H2. apply set_eqb_norm in H3. subst. auto.
  - apply andb_true_iff in H as [H H5]. apply andb_true_iff in H as [H H4].
    apply andb_true_iff in H as [H H3]. apply andb_true_iff in H as [H1 H2].
    apply Z.eqb_eq in H1. apply Z.eqb_eq in H2. apply osym_deq_eq in H3. apply osym_deq_eq in H4.
    apply set_eqb_norm in H5. subst. auto.
Qed.

Lemma expr_deq_bwd ca cb a b :
  (forall s, In s (expr_syms a) -> osym_deq ca cb s s = true) ->
  cx_val a = cx_val b -> norm_set (cx_attrs a) = norm_set (cx_attrs b) -> expr_deq ca cb a b = true.
Proof.
  unfold expr_deq, expr_syms. intros Hs Hv Ha. rewrite <- Hv.
  apply set_eqb_norm in Ha. rewrite Ha.
  destruct (cx_val a) as [o1 s1|c1 o1 s1 t1]; rewrite !Z.eqb_refl.
  - rewrite (Hs s1) by (left; reflexivity). reflexivity.
  - rewrite (Hs s1) by (left; reflexivity). rewrite (Hs t1) by (right; left; reflexivity). reflexivity.
Qed.

Lemma norm_expr_eq_iff x y :
  norm_expr x = norm_expr y <->
  fst x = fst y /\ cx_val (snd x) = cx_val (snd y) /\ norm_set (cx_attrs (snd x)) = norm_set (cx_attrs (snd y)).
Proof.
  unfold norm_expr. split.
  - intros H. injection H as H1 H2 H3. auto.
  - intros [H1 [H2 H3]]. rewrite H1, H2, H3. reflexivity.
Qed.

(* ------------------------------------------------------------------ *)
(* byte intervals                                                       *)
(* ------------------------------------------------------------------ *)

Lemma sort_map_norm_expr l :
  sort (by_key fst) (map norm_expr l) = map norm_expr (sort (by_key fst) l).
Proof. apply sort_map. intros x y. reflexivity. Qed.

Lemma norm_bi_eq_iff a b :
  norm_bi a = norm_bi b <->
  ci_uuid a = ci_uuid b /\ ci_addr a = ci_addr b /\ ci_size a = ci_size b /\ ci_contents a = ci_contents b
  /\ sort (by_key cb_uuid) (ci_blocks a) = sort (by_key cb_uuid) (ci_blocks b)
  /\ map norm_expr (sort (by_key fst) (ci_symx a)) = map norm_expr (sort (by_key fst) (ci_symx b)).
Proof.
  unfold norm_bi.
  rewrite !sort_map_norm_expr.
  split.
  - intros H. injection H as H1 H2 H3 H4 H5 H6. auto 10.
  - intros (H1 & H2 & H3 & H4 & H5 & H6). rewrite H1, H2, H3, H4, H5, H6. reflexivity.
Qed.

Lemma bi_deq_ok_blk c b : bi_deq_ok c b = true -> forall k, In k (ci_blocks b) -> blk_ok k = true.
Proof.
  unfold bi_deq_ok. intros H. apply andb_true_iff in H as [H _]. apply andb_true_iff in H as [H _].
  rewrite forallb_forall in H. exact H.
Qed.

Lemma bi_deq_ok_sym c b : bi_deq_ok c b = true ->
  forall kv s, In kv (ci_symx b) -> In s (expr_syms (snd kv)) -> sym_ok c s = true.
Proof.
  unfold bi_deq_ok. intros H kv s Hkv Hs. apply andb_true_iff in H as [_ H].
  rewrite forallb_forall in H. specialize (H kv Hkv). rewrite forallb_forall in H. apply H, Hs.
Qed.

Lemma bi_deq_fwd ca cb a b : bi_deq_ok ca a = true -> bi_deq_ok cb b = true ->
  bi_deq ca cb a b = true -> norm_bi a = norm_bi b.
Proof.
  intros Ha Hb H. unfold bi_deq in H.
  apply andb_true_iff in H as [H H6]. apply andb_true_iff in H as [H H5].
  apply andb_true_iff in H as [H H4]. apply andb_true_iff in H as [H H3].
  apply andb_true_iff in H as [H1 H2].
  apply norm_bi_eq_iff. repeat split.
  - apply Z.eqb_eq, H1.
  - apply oz_eqb_eq, H2.
  - apply Z.eqb_eq, H4.
  - apply zs_eqb_eq, H3.
  - revert H5. apply all2_fwd_id. intros x y Hx Hy.
    apply sort_In in Hx. apply sort_In in Hy.
    apply block_deq_fwd; [apply (bi_deq_ok_blk ca a Ha x Hx) | apply (bi_deq_ok_blk cb b Hb y Hy)].
  - revert H6. apply all2_fwd. intros x y _ _ H.
    apply andb_true_iff in H as [E1 E2]. apply Z.eqb_eq in E1. apply expr_deq_fwd in E2 as [E2 E3].
    apply norm_expr_eq_iff. auto.
Qed.

Lemma bi_deq_bwd ca cb a b : ctx_ok ca cb -> bi_deq_ok ca a = true ->
  norm_bi a = norm_bi b -> bi_deq ca cb a b = true.
Proof.
  intros [_ Hctx] Ha H. apply norm_bi_eq_iff in H as (H1 & H2 & H3 & H4 & H5 & H6).
  unfold bi_deq.
  rewrite (proj2 (Z.eqb_eq _ _) H1), (proj2 (oz_eqb_eq _ _) H2), (proj2 (zs_eqb_eq _ _) H4),
    (proj2 (Z.eqb_eq _ _) H3). cbn [andb].
  apply andb_true_iff; split.
  - revert H5. apply all2_bwd_id. intros x y _ _ E. subst y. apply block_deq_refl.
  - revert H6. apply all2_bwd. intros x y Hx _ E.
    apply norm_expr_eq_iff in E as (E1 & E2 & E3). apply sort_In in Hx.
    rewrite (proj2 (Z.eqb_eq _ _) E1). cbn [andb].
    apply expr_deq_bwd; [|exact E2|exact E3].
    intros s Hs. apply Hctx. apply (bi_deq_ok_sym ca a Ha x s Hx Hs).
Qed.

(* ------------------------------------------------------------------ *)
(* sections                                                             *)
(* ------------------------------------------------------------------ *)

Lemma sort_map_norm_bi l :
  sort (by_key ci_uuid) (map norm_bi l) = map norm_bi (sort (by_key ci_uuid) l).
Proof. apply sort_map. intros x y. reflexivity. Qed.

Lemma norm_section_eq_iff a b :
  norm_section a = norm_section b <->
  cs_uuid a = cs_uuid b /\ cs_name a = cs_name b /\ norm_set (cs_flags a) = norm_set (cs_flags b)
  /\ map norm_bi (sort (by_key ci_uuid) (cs_bis a)) = map norm_bi (sort (by_key ci_uuid) (cs_bis b)).
Proof.
  unfold norm_section. rewrite !sort_map_norm_bi. split.
  - intros H. injection H as H1 H2 H3 H4. auto.
  - intros (H1 & H2 & H3 & H4). rewrite H1, H2, H3, H4. reflexivity.
Qed.

Definition sec_deq_ok (c : cIR) (s : cSection) : bool := forallb (bi_deq_ok c) (cs_bis s).

Lemma sec_deq_ok_bi c s : sec_deq_ok c s = true -> forall b, In b (cs_bis s) -> bi_deq_ok c b = true.
Proof. unfold sec_deq_ok. rewrite forallb_forall. auto. Qed.

Lemma section_deq_fwd ca cb a b : sec_deq_ok ca a = true -> sec_deq_ok cb b = true ->
  section_deq ca cb a b = true -> norm_section a = norm_section b.
Proof.
  intros Ha Hb H. unfold section_deq in H.
  apply andb_true_iff in H as [H H4]. apply andb_true_iff in H as [H H3].
  apply andb_true_iff in H as [H1 H2].
  apply norm_section_eq_iff. repeat split.
  - apply Z.eqb_eq, H1.
  - apply zs_eqb_eq, H2.
  - apply set_eqb_norm, H4.
  - revert H3. apply all2_fwd. intros x y Hx Hy.
    apply sort_In in Hx. apply sort_In in Hy.
    apply bi_deq_fwd; [apply (sec_deq_ok_bi ca a Ha x Hx) | apply (sec_deq_ok_bi cb b Hb y Hy)].
Qed.

Lemma section_deq_bwd ca cb a b : ctx_ok ca cb -> sec_deq_ok ca a = true ->
  norm_section a = norm_section b -> section_deq ca cb a b = true.
Proof.
  intros Hctx Ha H. apply norm_section_eq_iff in H as (H1 & H2 & H3 & H4).
  unfold section_deq.
  rewrite (proj2 (Z.eqb_eq _ _) H1), (proj2 (zs_eqb_eq _ _) H2), (proj2 (set_eqb_norm _ _) H3).
  cbn [andb]. rewrite andb_true_r.
  revert H4. apply all2_bwd. intros x y Hx _. apply sort_In in Hx.
  apply bi_deq_bwd; [exact Hctx | apply (sec_deq_ok_bi ca a Ha x Hx)].
Qed.

(* ------------------------------------------------------------------ *)
(* modules                                                              *)
(* ------------------------------------------------------------------ *)

Lemma sort_map_norm_section l :
  sort (by_key cs_uuid) (map norm_section l) = map norm_section (sort (by_key cs_uuid) l).
Proof. apply sort_map. intros x y. reflexivity. Qed.

Lemma norm_aux_eq_iff l1 l2 :
  norm_aux l1 = norm_aux l2 <-> sort zs_leb (map fst l1) = sort zs_leb (map fst l2).
Proof.
  unfold norm_aux. split; intros H; [|rewrite H; reflexivity].
  apply (f_equal (map fst)) in H. rewrite !map_map in H. cbn [fst] in H. rewrite !map_id in H. exact H.
Qed.

Lemma norm_module_eq_iff a b :
  norm_module a = norm_module b <->
  cm_uuid a = cm_uuid b /\ cm_name a = cm_name b /\ cm_binary_path a = cm_binary_path b /\ cm_isa a = cm_isa b
  /\ cm_file_format a = cm_file_format b /\ cm_byte_order a = cm_byte_order b
  /\ cm_preferred_addr a = cm_preferred_addr b /\ cm_rebase_delta a = cm_rebase_delta b
  /\ cm_entry a = cm_entry b
  /\ sort Z.leb (cm_proxies a) = sort Z.leb (cm_proxies b)
  /\ map norm_section (sort (by_key cs_uuid) (cm_sections a)) = map norm_section (sort (by_key cs_uuid) (cm_sections b))
  /\ sort (by_key cy_uuid) (cm_symbols a) = sort (by_key cy_uuid) (cm_symbols b)
  /\ sort zs_leb (map fst (cm_aux a)) = sort zs_leb (map fst (cm_aux b)).
Proof.
  rewrite <- norm_aux_eq_iff.
  unfold norm_module. rewrite !sort_map_norm_section. split.
  - intros H. injection H as H1 H2 H3 H4 H5 H6 H7 H8 H9 H10 H11 H12 H13. auto 20.
  - intros (H1 & H2 & H3 & H4 & H5 & H6 & H7 & H8 & H9 & H10 & H11 & H12 & H13).
    rewrite H1, H2, H3, H4, H5, H6, H7, H8, H9, H10, H11, H12, H13. reflexivity.
Qed.

Lemma module_deq_ok_aux c m : module_deq_ok c m = true -> NoDup (map fst (cm_aux m)).
Proof.
  unfold module_deq_ok. intros H. apply andb_true_iff in H as [H _]. apply andb_true_iff in H as [H _].
  apply andb_true_iff in H as [H _]. apply nodup_keys_NoDup, H.
Qed.

Lemma module_deq_ok_sec c m : module_deq_ok c m = true -> forall s, In s (cm_sections m) -> sec_deq_ok c s = true.
Proof.
  unfold module_deq_ok. intros H. apply andb_true_iff in H as [H _]. apply andb_true_iff in H as [H _].
  apply andb_true_iff in H as [_ H]. rewrite forallb_forall in H. exact H.
Qed.

Lemma module_deq_ok_sym c m : module_deq_ok c m = true ->
  forall y r, In y (cm_symbols m) -> cy_payload y = CPRef r -> ref_ok c r = true.
Proof.
  unfold module_deq_ok. intros H y r Hy E. apply andb_true_iff in H as [H _]. apply andb_true_iff in H as [_ H].
  rewrite forallb_forall in H. specialize (H y Hy). rewrite E in H. exact H.
Qed.

Lemma module_deq_ok_entry c m : module_deq_ok c m = true -> forall e, cm_entry m = Some e -> ref_ok c e = true.
Proof.
  unfold module_deq_ok. intros H e E. apply andb_true_iff in H as [_ H]. rewrite E in H. exact H.
Qed.

Lemma module_deq_fwd ca cb a b : module_deq_ok ca a = true -> module_deq_ok cb b = true ->
  module_deq ca cb a b = true -> norm_module a = norm_module b.
Proof.
  intros Ha Hb H. unfold module_deq in H.
  apply andb_true_iff in H as [H H13]. apply andb_true_iff in H as [H H12].
  apply andb_true_iff in H as [H H11]. apply andb_true_iff in H as [H H10].
  apply andb_true_iff in H as [H H9]. apply andb_true_iff in H as [H H8].
  apply andb_true_iff in H as [H H7]. apply andb_true_iff in H as [H H6].
  apply andb_true_iff in H as [H H5]. apply andb_true_iff in H as [H H4].
  apply andb_true_iff in H as [H H3]. apply andb_true_iff in H as [H1 H2].
  apply norm_module_eq_iff. repeat split.
  - apply Z.eqb_eq, H1.
  - apply zs_eqb_eq, H7.
  - apply zs_eqb_eq, H3.
  - apply Z.eqb_eq, H4.
  - apply Z.eqb_eq, H6.
  - apply Z.eqb_eq, H5.
  - apply Z.eqb_eq, H8.
  - apply Z.eqb_eq, H9.
  - destruct (cm_entry a) as [x|], (cm_entry b) as [y|]; try discriminate; [|reflexivity].
    apply rnode_deq_eq in H13. subst y. reflexivity.
  - apply all2_zeqb_eq, H10.
  - revert H11. apply all2_fwd. intros x y Hx Hy.
    apply sort_In in Hx. apply sort_In in Hy.
    apply section_deq_fwd; [apply (module_deq_ok_sec ca a Ha x Hx) | apply (module_deq_ok_sec cb b Hb y Hy)].
  - revert H12. apply all2_fwd_id. intros x y _ _. apply symbol_deq_fwd.
  - apply keys_eqb_sort; [apply (module_deq_ok_aux ca a Ha) | apply (module_deq_ok_aux cb b Hb) | exact H2].
Qed.

Lemma module_deq_bwd ca cb a b : ctx_ok ca cb -> module_deq_ok ca a = true -> module_deq_ok cb b = true ->
  norm_module a = norm_module b -> module_deq ca cb a b = true.
Proof.
  intros Hctx Ha Hb H.
  apply norm_module_eq_iff in H as (H1 & H2 & H3 & H4 & H5 & H6 & H7 & H8 & H9 & H10 & H11 & H12 & H13).
  unfold module_deq.
  rewrite (proj2 (Z.eqb_eq _ _) H1), (proj2 (zs_eqb_eq _ _) H2), (proj2 (zs_eqb_eq _ _) H3),
    (proj2 (Z.eqb_eq _ _) H4), (proj2 (Z.eqb_eq _ _) H5), (proj2 (Z.eqb_eq _ _) H6),
    (proj2 (Z.eqb_eq _ _) H7), (proj2 (Z.eqb_eq _ _) H8), (proj2 (all2_zeqb_eq _ _) H10).
  rewrite (proj2 (keys_eqb_sort _ _ (module_deq_ok_aux ca a Ha) (module_deq_ok_aux cb b Hb)) H13).
  cbn [andb].
  apply andb_true_iff; split; [apply andb_true_iff; split|].
  - revert H11. apply all2_bwd. intros x y Hx _. apply sort_In in Hx.
    apply section_deq_bwd; [exact Hctx | apply (module_deq_ok_sec ca a Ha x Hx)].
  - revert H12. apply all2_bwd_id. intros x y Hx _ E. subst y. apply sort_In in Hx.
    apply symbol_deq_refl. intros r Er. apply (proj1 Hctx). apply (module_deq_ok_sym ca a Ha x r Hx Er).
  - rewrite <- H9. destruct (cm_entry a) as [e|] eqn:Ee; [|reflexivity].
    apply (proj1 Hctx). apply (module_deq_ok_entry ca a Ha e Ee).
Qed.

(* ------------------------------------------------------------------ *)
(* CFG and IR                                                           *)
(* ------------------------------------------------------------------ *)

Lemma sort_map_norm_module l :
  sort (by_key cm_uuid) (map norm_module l) = map norm_module (sort (by_key cm_uuid) l).
Proof. apply sort_map. intros x y. reflexivity. Qed.

Lemma norm_eq_iff a b :
  norm a = norm b <->
  cr_uuid a = cr_uuid b /\ cr_version a = cr_version b
  /\ map norm_module (sort (by_key cm_uuid) (cr_modules a)) = map norm_module (sort (by_key cm_uuid) (cr_modules b))
  /\ sort edge_leb (cr_edges a) = sort edge_leb (cr_edges b)
  /\ sort zs_leb (map fst (cr_aux a)) = sort zs_leb (map fst (cr_aux b)).
Proof.
  rewrite <- norm_aux_eq_iff.
  unfold norm. rewrite !sort_map_norm_module. split.
  - intros H. injection H as H1 H2 H3 H4 H5. auto.
  - intros (H1 & H2 & H3 & H4 & H5). rewrite H1, H2, H3, H4, H5. reflexivity.
Qed.

Lemma cfg_deq_fwd a b : cfg_deq a b = true -> sort edge_leb (cr_edges a) = sort edge_leb (cr_edges b).
Proof.
  unfold cfg_deq. apply all2_fwd_id. intros x y _ _ H.
  apply andb_true_iff in H as [H H3]. apply andb_true_iff in H as [H1 H2].
  apply olabel_eqb_eq in H1. apply rnode_deq_eq in H2. apply rnode_deq_eq in H3.
  destruct x as [sx dx lx], y as [sy dy ly]. cbn [ce_src ce_dst ce_label] in *. subst. reflexivity.
Qed.

Lemma cfg_deq_bwd a b : ctx_ok a b ->
  (forall e, In e (cr_edges a) -> ref_ok a (ce_src e) = true /\ ref_ok a (ce_dst e) = true) ->
  sort edge_leb (cr_edges a) = sort edge_leb (cr_edges b) -> cfg_deq a b = true.
Proof.
  intros [Hctx _] He. unfold cfg_deq. apply all2_bwd_id. intros x y Hx _ E. subst y.
  apply sort_In in Hx. destruct (He x Hx) as [H1 H2].
  rewrite (proj2 (olabel_eqb_eq _ _) eq_refl), (Hctx _ H1), (Hctx _ H2). reflexivity.
Qed.

Lemma deq_ok_uuids c : deq_ok c = true -> NoDup (all_uuids c).
Proof.
  unfold deq_ok. intros H. apply andb_true_iff in H as [H _]. apply andb_true_iff in H as [H _].
  apply andb_true_iff in H as [H _]. apply nodup_z_NoDup, H.
Qed.

Lemma deq_ok_aux c : deq_ok c = true -> NoDup (map fst (cr_aux c)).
Proof.
  unfold deq_ok. intros H. apply andb_true_iff in H as [H _]. apply andb_true_iff in H as [H _].
  apply andb_true_iff in H as [_ H]. apply nodup_keys_NoDup, H.
Qed.

Lemma deq_ok_mod c : deq_ok c = true -> forall m, In m (cr_modules c) -> module_deq_ok c m = true.
Proof.
  unfold deq_ok. intros H. apply andb_true_iff in H as [H _]. apply andb_true_iff in H as [_ H].
  rewrite forallb_forall in H. exact H.
Qed.

Lemma deq_ok_edges c : deq_ok c = true ->
  forall e, In e (cr_edges c) -> ref_ok c (ce_src e) = true /\ ref_ok c (ce_dst e) = true.
Proof.
  unfold deq_ok. intros H e He. apply andb_true_iff in H as [_ H].
  rewrite forallb_forall in H. apply andb_true_iff. apply H, He.
Qed.

Lemma ir_deq_fwd a b : deq_ok a = true -> deq_ok b = true -> ir_deq a b = true -> norm a = norm b.
Proof.
  intros Ha Hb H. unfold ir_deq in H.
  apply andb_true_iff in H as [H H5]. apply andb_true_iff in H as [H H4].
  apply andb_true_iff in H as [H H3]. apply andb_true_iff in H as [H1 H2].
  apply norm_eq_iff. repeat split.
  - apply Z.eqb_eq, H1.
  - apply Z.eqb_eq, H4.
  - revert H3. apply all2_fwd. intros x y Hx Hy.
    apply sort_In in Hx. apply sort_In in Hy.
    apply module_deq_fwd; [apply (deq_ok_mod a Ha x Hx) | apply (deq_ok_mod b Hb y Hy)].
  - apply cfg_deq_fwd, H5.
  - apply keys_eqb_sort; [apply (deq_ok_aux a Ha) | apply (deq_ok_aux b Hb) | exact H2].
Qed.

Lemma ir_deq_bwd a b : ctx_ok a b -> deq_ok a = true -> deq_ok b = true -> norm a = norm b -> ir_deq a b = true.
Proof.
  intros Hctx Ha Hb H. apply norm_eq_iff in H as (H1 & H2 & H3 & H4 & H5).
  unfold ir_deq.
  rewrite (proj2 (Z.eqb_eq _ _) H1), (proj2 (Z.eqb_eq _ _) H2).
  rewrite (proj2 (keys_eqb_sort _ _ (deq_ok_aux a Ha) (deq_ok_aux b Hb)) H5).
  rewrite (cfg_deq_bwd a b Hctx (deq_ok_edges a Ha) H4).
  cbn [andb]. rewrite !andb_true_r.
  revert H3. apply all2_bwd. intros x y Hx Hy. apply sort_In in Hx. apply sort_In in Hy.
  apply module_deq_bwd; [exact Hctx | apply (deq_ok_mod a Ha x Hx) | apply (deq_ok_mod b Hb y Hy)].
Qed.

(* ------------------------------------------------------------------ *)
(* norm keeps the blocks / proxies / symbols of an IR (as sets)          *)
(* ------------------------------------------------------------------ *)

Lemma in_flat_map_sort_map {A B} (f : A -> list B) (g : A -> A) (leb : A -> A -> bool) (x : B) l :
  (forall y, In x (f (g y)) <-> In x (f y)) ->
  (In x (flat_map f (sort leb (map g l))) <-> In x (flat_map f l)).
Proof.
  intros H. rewrite !in_flat_map. split.
  - intros [y [Hy Hx]]. apply sort_In in Hy. apply in_map_iff in Hy as [z [E Hz]]. subst y.
    exists z. split; [exact Hz | apply H, Hx].
  - intros [y [Hy Hx]]. exists (g y). split; [apply sort_In, in_map, Hy | apply H, Hx].
Qed.

Lemma in_blocks_norm_bi x b : In x (ci_blocks (norm_bi b)) <-> In x (ci_blocks b).
Proof. unfold norm_bi. cbn [ci_blocks]. apply sort_In. Qed.

Lemma in_blocks_norm_section x s :
  In x (flat_map ci_blocks (cs_bis (norm_section s))) <-> In x (flat_map ci_blocks (cs_bis s)).
Proof.
  unfold norm_section. cbn [cs_bis]. apply in_flat_map_sort_map. intros y. apply in_blocks_norm_bi.
Qed.

Lemma in_blocks_norm_module x m : In x (module_blocks (norm_module m)) <-> In x (module_blocks m).
Proof.
  unfold module_blocks, norm_module. cbn [cm_sections].
  apply (in_flat_map_sort_map (fun s => flat_map ci_blocks (cs_bis s)) norm_section).
  intros y. apply in_blocks_norm_section.
Qed.

Lemma in_blocks_norm x c : In x (all_blocks (norm c)) <-> In x (all_blocks c).
Proof.
  unfold all_blocks, norm. cbn [cr_modules]. apply in_flat_map_sort_map.
  intros y. apply in_blocks_norm_module.
Qed.

Lemma in_symbols_norm x c : In x (all_symbols (norm c)) <-> In x (all_symbols c).
Proof.
  unfold all_symbols, norm. cbn [cr_modules]. apply in_flat_map_sort_map.
  intros y. unfold norm_module. cbn [cm_symbols]. apply sort_In.
Qed.

Lemma in_proxies_norm x c : In x (all_proxies (norm c)) <-> In x (all_proxies c).
Proof.
  unfold all_proxies, norm. cbn [cr_modules]. apply in_flat_map_sort_map.
  intros y. unfold norm_module. cbn [cm_proxies]. apply sort_In.
Qed.

(* ------------------------------------------------------------------ *)
(* unique UUIDs                                                         *)
(* ------------------------------------------------------------------ *)

Lemma block_uuids_subseq c : subseq (map cb_uuid (all_blocks c)) (all_uuids c).
Proof.
  unfold all_blocks, all_uuids. apply sub_skip. rewrite map_flat_map'. apply subseq_flat_map.
  intros m _. unfold module_blocks, all_uuids_module. apply sub_skip. apply subseq_app_r. apply subseq_app_l.
  rewrite map_flat_map'. apply subseq_flat_map. intros s _. apply sub_skip.
  rewrite map_flat_map'. apply subseq_flat_map. intros b _. apply sub_skip. apply subseq_refl.
Qed.

Lemma symbol_uuids_subseq c : subseq (map cy_uuid (all_symbols c)) (all_uuids c).
Proof.
  unfold all_symbols, all_uuids. apply sub_skip. rewrite map_flat_map'. apply subseq_flat_map.
  intros m _. unfold all_uuids_module. apply sub_skip. apply subseq_app_r. apply subseq_app_r. apply subseq_refl.
Qed.

Lemma NoDup_block_uuids c : NoDup (all_uuids c) -> NoDup (map cb_uuid (all_blocks c)).
Proof. apply subseq_NoDup, block_uuids_subseq. Qed.

Lemma NoDup_symbol_uuids c : NoDup (all_uuids c) -> NoDup (map cy_uuid (all_symbols c)).
Proof. apply subseq_NoDup, symbol_uuids_subseq. Qed.

(* ------------------------------------------------------------------ *)
(* references agree when the normal forms agree                          *)
(* ------------------------------------------------------------------ *)

Lemma ctx_refs a b :
  (forall x, In x (all_blocks a) <-> In x (all_blocks b)) ->
  (forall p, In p (all_proxies a) <-> In p (all_proxies b)) ->
  NoDup (map cb_uuid (all_blocks b)) ->
  forall r, ref_ok a r = true -> rnode_deq (find_ref a r) (find_ref b r) = true.
Proof.
  intros HB HP N r Hr. unfold ref_ok in Hr.
  destruct (find_ref a r) as [[x|p]|] eqn:Ea; [| |discriminate].
  - apply find_ref_block in Ea as [Hx Eu]. subst r.
    assert (E : find_ref b (cb_uuid x) = Some (RBlock x)).
    { rewrite find_ref_unfold. rewrite (find_key_unique cb_uuid _ x N); [reflexivity | apply HB, Hx]. }
    rewrite E. cbn [rnode_deq]. apply block_deq_refl.
  - apply find_ref_proxy in Ea as [Ep [Hnb Hp]]. subst p.
    assert (E : find_ref b r = Some (RProxy r)).
    { rewrite find_ref_unfold.
      destruct (find (fun k => cb_uuid k =? r) (all_blocks b)) as [k|] eqn:Ek.
      - apply find_key_some in Ek as [H1 H2]. exfalso. apply (Hnb k); [apply HB, H1 | exact H2].
      - rewrite (proj2 (existsb_zeqb_In r _) (proj1 (HP r) Hp)). reflexivity. }
    rewrite E. cbn [rnode_deq]. apply Z.eqb_refl.
Qed.

Lemma ctx_syms a b :
  (forall r, ref_ok a r = true -> rnode_deq (find_ref a r) (find_ref b r) = true) ->
  (forall y, In y (all_symbols a) <-> In y (all_symbols b)) ->
  NoDup (map cy_uuid (all_symbols b)) ->
  (forall y r, In y (all_symbols a) -> cy_payload y = CPRef r -> ref_ok a r = true) ->
  forall s, sym_ok a s = true -> osym_deq a b s s = true.
Proof.
  intros HR HS N Hres s Hs. unfold sym_ok in Hs. unfold osym_deq.
  rewrite find_symbol_unfold in Hs. rewrite !find_symbol_unfold.
  destruct (find (fun y => cy_uuid y =? s) (all_symbols a)) as [y|] eqn:Ea; [|discriminate].
  apply find_key_some in Ea as [Hy Eu]. subst s.
  rewrite (find_key_unique cy_uuid _ y N) by (apply HS, Hy).
  apply symbol_deq_refl. intros r Er. apply HR. apply (Hres y r Hy Er).
Qed.

Lemma deq_ok_symrefs c : deq_ok c = true ->
  forall y r, In y (all_symbols c) -> cy_payload y = CPRef r -> ref_ok c r = true.
Proof.
  intros H y r Hy E. unfold all_symbols in Hy. apply in_flat_map in Hy as [m [Hm Hy]].
  apply (module_deq_ok_sym c m (deq_ok_mod c H m Hm) y r Hy E).
Qed.

Lemma ctx_ok_of_norm a b : deq_ok a = true -> deq_ok b = true -> norm a = norm b -> ctx_ok a b.
Proof.
  intros Ha Hb H.
  assert (HB : forall x, In x (all_blocks a) <-> In x (all_blocks b))
    by (intros x; rewrite <- (in_blocks_norm x a), <- (in_blocks_norm x b), H; tauto).
  assert (HP : forall x, In x (all_proxies a) <-> In x (all_proxies b))
    by (intros x; rewrite <- (in_proxies_norm x a), <- (in_proxies_norm x b), H; tauto).
  assert (HS : forall x, In x (all_symbols a) <-> In x (all_symbols b))
    by (intros x; rewrite <- (in_symbols_norm x a), <- (in_symbols_norm x b), H; tauto).
  pose proof (deq_ok_uuids b Hb) as N.
  assert (HR : forall r, ref_ok a r = true -> rnode_deq (find_ref a r) (find_ref b r) = true)
    by (apply ctx_refs; [exact HB | exact HP | apply NoDup_block_uuids, N]).
  split; [exact HR|].
  apply ctx_syms; [exact HR | exact HS | apply NoDup_symbol_uuids, N | apply deq_ok_symrefs, Ha].
Qed.

(* ------------------------------------------------------------------ *)
(* main theorem and corollaries                                         *)
(* ------------------------------------------------------------------ *)

Theorem deep_eq_iff : forall a b, deq_ok a = true -> deq_ok b = true -> (ir_deq a b = true <-> norm a = norm b).
Proof.
  intros a b Ha Hb. split.
  - apply ir_deq_fwd; assumption.
  - intros H. apply ir_deq_bwd; [apply ctx_ok_of_norm; assumption | exact Ha | exact Hb | exact H].
Qed.

Theorem deep_eq_refl : forall a, deq_ok a = true -> ir_deq a a = true.
Proof. intros a Ha. apply deep_eq_iff; [exact Ha | exact Ha | reflexivity]. Qed.

Theorem deep_eq_sym : forall a b, deq_ok a = true -> deq_ok b = true -> ir_deq a b = ir_deq b a.
Proof.
  intros a b Ha Hb.
  destruct (ir_deq a b) eqn:E1; destruct (ir_deq b a) eqn:E2; try reflexivity.
  - apply (deep_eq_iff a b Ha Hb) in E1. symmetry in E1. apply (deep_eq_iff b a Hb Ha) in E1. congruence.
  - apply (deep_eq_iff b a Hb Ha) in E2. symmetry in E2. apply (deep_eq_iff a b Ha Hb) in E2. congruence.
Qed.

Theorem deep_eq_order_insensitive : forall a a', deq_ok a = true -> deq_ok a' = true -> norm a = norm a' ->
  forall b, deq_ok b = true -> ir_deq a b = ir_deq a' b.
Proof.
  intros a a' Ha Ha' Hn b Hb.
  destruct (ir_deq a b) eqn:E1; destruct (ir_deq a' b) eqn:E2; try reflexivity.
  - apply (deep_eq_iff a b Ha Hb) in E1. rewrite Hn in E1. apply (deep_eq_iff a' b Ha' Hb) in E1. congruence.
  - apply (deep_eq_iff a' b Ha' Hb) in E2. rewrite <- Hn in E2. apply (deep_eq_iff a b Ha Hb) in E2. congruence.
Qed.

Theorem deep_eq_single_field : forall a b, deq_ok a = true -> deq_ok b = true -> norm a <> norm b -> ir_deq a b = false.
Proof.
  intros a b Ha Hb Hn. destruct (ir_deq a b) eqn:E; [|reflexivity].
  exfalso. apply Hn. apply (deep_eq_iff a b Ha Hb), E.
Qed.

Theorem aux_values_ignored : forall a aux', map fst aux' = map fst (cr_aux a) ->
  norm {| cr_uuid := cr_uuid a; cr_version := cr_version a; cr_modules := cr_modules a; cr_edges := cr_edges a;
          cr_aux := aux' |} = norm a.
Proof.
  intros a aux' H. unfold norm, norm_aux. cbn [cr_uuid cr_version cr_modules cr_edges cr_aux].
  rewrite H. reflexivity.
Qed.

(* ------------------------------------------------------------------ *)
(* Proto.wf implies the premise (up to duplicate-free AuxData keys, which wf does not state)  *)
(* ------------------------------------------------------------------ *)

Definition aux_keys_ok (c : cIR) : bool :=
  nodup_keys (map fst (cr_aux c)) && forallb (fun m => nodup_keys (map fst (cm_aux m))) (cr_modules c).

Lemma modules_ok_each : forall ms codes blocks syms, modules_ok codes blocks syms ms = true ->
  forall m, In m ms -> exists codes0 blocks0 syms0,
    module_ok codes0 blocks0 syms0 m = true
    /\ (forall x, In x (codes0 ++ code_uuids m) -> In x (codes ++ flat_map code_uuids ms))
    /\ (forall x, In x (blocks0 ++ block_uuids m) -> In x (blocks ++ flat_map block_uuids ms))
    /\ (forall x, In x (syms0 ++ map cy_uuid (cm_symbols m)) ->
                  In x (syms ++ flat_map (fun m' => map cy_uuid (cm_symbols m')) ms)).
Proof.
  induction ms as [|m0 ms IH]; intros codes blocks syms H m Hm; [destruct Hm|].
  cbn [modules_ok] in H. apply andb_true_iff in H as [H1 H2].
  destruct Hm as [Hm|Hm].
  - subst m0. exists codes, blocks, syms. split; [exact H1|].
    cbn [flat_map]. repeat split; intros x; rewrite !in_app_iff; tauto.
  - destruct (IH _ _ _ H2 m Hm) as (c0 & b0 & s0 & K1 & K2 & K3 & K4).
    exists c0, b0, s0. split; [exact K1|].
    cbn [flat_map]. repeat split; intros x Hx.
    + apply K2 in Hx. rewrite !in_app_iff in *. tauto.
    + apply K3 in Hx. rewrite !in_app_iff in *. tauto.
    + apply K4 in Hx. rewrite !in_app_iff in *. tauto.
Qed.

Lemma in_code_uuids m x : In x (code_uuids m) -> exists k, In k (module_blocks m) /\ cb_uuid k = x.
Proof.
  unfold code_uuids. intros H. apply in_flat_map in H as [k [Hk Hx]]. exists k. split; [exact Hk|].
  destruct (cb_code k); [|destruct Hx]. destruct Hx as [Hx|[]]. exact Hx.
Qed.

Lemma in_all_blocks c m k : In m (cr_modules c) -> In k (module_blocks m) -> In k (all_blocks c).
Proof. intros Hm Hk. unfold all_blocks. apply in_flat_map. exists m. auto. Qed.

Lemma in_all_proxies c m p : In m (cr_modules c) -> In p (cm_proxies m) -> In p (all_proxies c).
Proof. intros Hm Hk. unfold all_proxies. apply in_flat_map. exists m. auto. Qed.

Lemma code_uuids_ref c x : In x (flat_map code_uuids (cr_modules c)) -> ref_ok c x = true.
Proof.
  intros H. apply in_flat_map in H as [m [Hm Hx]]. apply in_code_uuids in Hx as [k [Hk E]]. subst x.
  apply ref_ok_block. eapply in_all_blocks; eassumption.
Qed.

Lemma block_uuids_ref c x : In x (flat_map block_uuids (cr_modules c)) -> ref_ok c x = true.
Proof.
  intros H. apply in_flat_map in H as [m [Hm Hx]]. unfold block_uuids in Hx. apply in_app_iff in Hx as [Hx|Hx].
  - apply in_map_iff in Hx as [k [E Hk]]. subst x. apply ref_ok_block. eapply in_all_blocks; eassumption.
  - apply ref_ok_proxy. eapply in_all_proxies; eassumption.
Qed.

Lemma sym_uuids_ok c x : In x (flat_map (fun m => map cy_uuid (cm_symbols m)) (cr_modules c)) -> sym_ok c x = true.
Proof.
  intros H. apply in_flat_map in H as [m [Hm Hx]]. apply in_map_iff in Hx as [y [E Hy]]. subst x.
  apply sym_ok_in. unfold all_symbols. apply in_flat_map. exists m. auto.
Qed.

Lemma cfg_nodes_ref c x : In x (flat_map module_cfg_nodes (cr_modules c)) -> ref_ok c x = true.
Proof.
  intros H. apply in_flat_map in H as [m [Hm Hx]]. unfold module_cfg_nodes in Hx. apply in_app_iff in Hx as [Hx|Hx].
  - apply in_flat_map in Hx as [s [Hs Hx]]. apply in_flat_map in Hx as [b [Hb Hx]].
    apply in_flat_map in Hx as [k [Hk Hx]].
    assert (E : cb_uuid k = x) by (destruct (cb_code k); [destruct Hx as [Hx|[]]; exact Hx | destruct Hx]).
    subst x. apply ref_ok_block. apply (in_all_blocks c m k Hm).
    unfold module_blocks. apply in_flat_map. exists s. split; [exact Hs|].
    apply in_flat_map. exists b. auto.
  - apply ref_ok_proxy. eapply in_all_proxies; eassumption.
Qed.

Lemma bi_ok_deq_ok c b : bi_ok b = true ->
  (forall kv s, In kv (ci_symx b) -> In s (expr_syms (snd kv)) -> sym_ok c s = true) ->
  bi_deq_ok c b = true.
Proof.
  unfold bi_ok, bi_deq_ok. intros H Hs.
  apply andb_true_iff in H as [H _]. apply andb_true_iff in H as [H H4].
  apply andb_true_iff in H as [_ H3]. rewrite H4.
  apply andb_true_iff; split; [apply andb_true_iff; split; [|reflexivity]|].
  - rewrite forallb_forall in *. intros k Hk. specialize (H3 k Hk). unfold blk_ok.
    destruct (cb_code k); [reflexivity | exact H3].
  - rewrite forallb_forall. intros kv Hkv. rewrite forallb_forall. intros s. apply Hs, Hkv.
Qed.

Lemma module_ok_deq_ok c m codes0 blocks0 syms0 :
  module_ok codes0 blocks0 syms0 m = true ->
  (forall x, In x (codes0 ++ code_uuids m) -> ref_ok c x = true) ->
  (forall x, In x (blocks0 ++ block_uuids m) -> ref_ok c x = true) ->
  (forall x, In x (syms0 ++ map cy_uuid (cm_symbols m)) -> sym_ok c x = true) ->
  nodup_keys (map fst (cm_aux m)) = true ->
  module_deq_ok c m = true.
Proof.
  unfold module_ok. cbv zeta. intros H HC HB HS HA.
  apply andb_true_iff in H as [H H7]. apply andb_true_iff in H as [H H6].
  apply andb_true_iff in H as [H H5]. apply andb_true_iff in H as [_ H4].
  rewrite forallb_forall in H4, H6, H7.
  unfold module_deq_ok. rewrite HA. cbn [andb].
  apply andb_true_iff; split; [apply andb_true_iff; split|].
  - apply forallb_forall. intros s Hs. apply forallb_forall. intros b Hb.
    specialize (H4 s Hs). apply andb_true_iff in H4 as [_ H4]. rewrite forallb_forall in H4.
    apply bi_ok_deq_ok; [apply H4, Hb|].
    intros kv y Hkv Hy. apply HS.
    specialize (H7 s Hs). rewrite forallb_forall in H7. specialize (H7 b Hb).
    rewrite forallb_forall in H7. specialize (H7 kv Hkv). rewrite forallb_forall in H7.
    apply existsb_zeqb_In. apply (H7 y Hy).
  - apply forallb_forall. intros y Hy. specialize (H6 y Hy).
    destruct (cy_payload y) as [|v|r]; [reflexivity | reflexivity |].
    apply HB. apply existsb_zeqb_In. exact H6.
  - destruct (cm_entry m) as [e|]; [|reflexivity]. apply HC. apply existsb_zeqb_In. exact H5.
Qed.

Lemma wf_deq_ok : forall c, wf c = true -> aux_keys_ok c = true -> deq_ok c = true.
Proof.
  intros c H HA. unfold wf in H. cbv zeta in H.
  apply andb_true_iff in H as [H _]. apply andb_true_iff in H as [H H5].
  apply andb_true_iff in H as [H H4]. apply andb_true_iff in H as [H _].
  apply andb_true_iff in H as [_ H2].
  unfold aux_keys_ok in HA. apply andb_true_iff in HA as [HA1 HA2]. rewrite forallb_forall in HA2.
  unfold deq_ok. rewrite H2, HA1. cbn [andb].
  apply andb_true_iff; split.
  - apply forallb_forall. intros m Hm.
    destruct (modules_ok_each _ _ _ _ H4 m Hm) as (c0 & b0 & s0 & K1 & K2 & K3 & K4).
    cbn [app] in K2, K3, K4.
    apply (module_ok_deq_ok c m c0 b0 s0 K1).
    + intros x Hx. apply code_uuids_ref, K2, Hx.
    + intros x Hx. apply block_uuids_ref, K3, Hx.
    + intros x Hx. apply sym_uuids_ok, K4, Hx.
    + apply HA2, Hm.
  - rewrite forallb_forall in *. intros e He. specialize (H5 e He).
    apply andb_true_iff in H5 as [H5 _]. apply andb_true_iff in H5 as [E1 E2].
    apply existsb_zeqb_In in E1. apply existsb_zeqb_In in E2.
    rewrite (cfg_nodes_ref c _ E1), (cfg_nodes_ref c _ E2). reflexivity.
Qed.

(* per-level statements in the form  X_deq x y = true <-> norm_X x = norm_X y  (the context premise ctx_ok holds
   whenever norm ca = norm cb, see ctx_ok_of_norm; it is only used from right to left) *)
Lemma bi_deq_iff ca cb a b : ctx_ok ca cb -> bi_deq_ok ca a = true -> bi_deq_ok cb b = true ->
  (bi_deq ca cb a b = true <-> norm_bi a = norm_bi b).
Proof. intros Hc Ha Hb. split; [apply bi_deq_fwd; assumption | apply bi_deq_bwd; assumption]. Qed.

Lemma section_deq_iff ca cb a b : ctx_ok ca cb -> sec_deq_ok ca a = true -> sec_deq_ok cb b = true ->
  (section_deq ca cb a b = true <-> norm_section a = norm_section b).
Proof. intros Hc Ha Hb. split; [apply section_deq_fwd; assumption | apply section_deq_bwd; assumption]. Qed.

Lemma module_deq_iff ca cb a b : ctx_ok ca cb -> module_deq_ok ca a = true -> module_deq_ok cb b = true ->
  (module_deq ca cb a b = true <-> norm_module a = norm_module b).
Proof. intros Hc Ha Hb. split; [apply module_deq_fwd; assumption | apply module_deq_bwd; assumption]. Qed.

Lemma cfg_deq_iff a b : ctx_ok a b -> deq_ok a = true ->
  (cfg_deq a b = true <-> sort edge_leb (cr_edges a) = sort edge_leb (cr_edges b)).
Proof. intros Hc Ha. split; [apply cfg_deq_fwd | apply cfg_deq_bwd; [exact Hc | apply deq_ok_edges, Ha]]. Qed.

(* ------------------------------------------------------------------ *)
(* examples                                                             *)
(* ------------------------------------------------------------------ *)

Definition rv {X} (flip : bool) (l : list X) : list X := if flip then rev l else l.

(* one module, two sections, three blocks, a proxy, two symbols, two edges; `flip` reverses every child list;
   kind/payload/addr/label are the four fields the examples perturb *)
Definition ex_ir (flip kind : bool) (payload : cPayload) (addr : option Z) (label : option clabel) : cIR :=
  let bA := {| cb_uuid := 10; cb_code := true; cb_off := 0; cb_size := 4; cb_dm := 0 |} in
  let bB := {| cb_uuid := 11; cb_code := kind; cb_off := 4; cb_size := 4; cb_dm := 0 |} in
  let bC := {| cb_uuid := 12; cb_code := true; cb_off := 0; cb_size := 2; cb_dm := 1 |} in
  let y1 := {| cy_uuid := 20; cy_name := [115]; cy_payload := CPRef 11; cy_at_end := false |} in
  let y2 := {| cy_uuid := 21; cy_name := [116]; cy_payload := payload; cy_at_end := true |} in
  let y3 := {| cy_uuid := 22; cy_name := [117]; cy_payload := CPRef 30; cy_at_end := false |} in
  let i1 := {| ci_uuid := 5; ci_addr := addr; ci_size := 8; ci_contents := [1; 2; 3];
               ci_blocks := rv flip [bA; bB];
               ci_symx := rv flip [(0, {| cx_val := CAddrConst 0 20; cx_attrs := rv flip [1; 6] |});
                                   (4, {| cx_val := CAddrAddr 1 0 20 21; cx_attrs := [] |})] |} in
  let i2 := {| ci_uuid := 6; ci_addr := Some 64; ci_size := 2; ci_contents := [];
               ci_blocks := [bC]; ci_symx := [] |} in
  let s1 := {| cs_uuid := 3; cs_name := [46; 116]; cs_flags := rv flip [1; 3; 4]; cs_bis := [i1] |} in
  let s2 := {| cs_uuid := 4; cs_name := [46; 100]; cs_flags := [1; 2]; cs_bis := [i2] |} in
  let m := {| cm_uuid := 2; cm_name := [109]; cm_binary_path := [47]; cm_isa := 3; cm_file_format := 2;
              cm_byte_order := 2; cm_preferred_addr := 0; cm_rebase_delta := 0; cm_entry := Some 10;
              cm_proxies := [30]; cm_sections := rv flip [s1; s2]; cm_symbols := rv flip [y1; y2; y3];
              cm_aux := rv flip [([97], {| a_type := [1]; a_data := [2] |}); ([98], {| a_type := []; a_data := [] |})] |} in
  {| cr_uuid := 1; cr_version := 4; cr_modules := [m];
     cr_edges := rv flip [ {| ce_src := 10; ce_dst := 12; ce_label := label |};
                           {| ce_src := 12; ce_dst := 30; ce_label := Some (1, true, false) |};
                           {| ce_src := 10; ce_dst := 30; ce_label := Some (0, false, true) |} ];
     cr_aux := [([99], {| a_type := [3]; a_data := [4] |})] |}.

Definition ex0 : cIR := ex_ir false false CPNone None None.

Example ex0_wf : wf ex0 = true /\ deq_ok ex0 = true.
Proof. vm_compute. split; reflexivity. Qed.

(* the same content with sections, blocks, symbols, edges (and expressions, flags, attributes, AuxData) listed in the
   opposite order *)
Example ex_order : let a := ex0 in let b := ex_ir true false CPNone None None in
  wf b = true /\ deq_ok b = true /\ ir_deq a b = true /\ ir_deq b a = true.
Proof. vm_compute. repeat split; reflexivity. Qed.

Example ex_block_kind : let a := ex0 in let b := ex_ir false true CPNone None None in
  wf b = true /\ deq_ok b = true /\ ir_deq a b = false /\ ir_deq b a = false.
Proof. vm_compute. repeat split; reflexivity. Qed.

Example ex_symbol_payload : let a := ex0 in let b := ex_ir false false (CPVal 0) None None in
  wf b = true /\ deq_ok b = true /\ ir_deq a b = false /\ ir_deq b a = false.
Proof. vm_compute. repeat split; reflexivity. Qed.

Example ex_interval_addr : let a := ex0 in let b := ex_ir false false CPNone (Some 0) None in
  wf b = true /\ deq_ok b = true /\ ir_deq a b = false /\ ir_deq b a = false.
Proof. vm_compute. repeat split; reflexivity. Qed.

Example ex_edge_label : let a := ex0 in let b := ex_ir false false CPNone None (Some (0, false, false)) in
  wf b = true /\ deq_ok b = true /\ ir_deq a b = false /\ ir_deq b a = false.
Proof. vm_compute. repeat split; reflexivity. Qed.

(* the perturbations also hold after reordering *)
Example ex_order_and_kind : let a := ex0 in let b := ex_ir true true CPNone None None in
  ir_deq a b = false /\ ir_deq b a = false.
Proof. vm_compute. split; reflexivity. Qed.

(* AuxData values are not compared *)
Example ex_aux_values :
  let a := ex0 in
  let b := {| cr_uuid := cr_uuid a; cr_version := cr_version a; cr_modules := cr_modules a; cr_edges := cr_edges a;
              cr_aux := [([99], {| a_type := [7; 7]; a_data := [] |})] |} in
  ir_deq a b = true /\ ir_deq b a = true.
Proof. vm_compute. split; reflexivity. Qed.

(* ------------------------------------------------------------------ *)
(* the two extra clauses of deq_ok are necessary                        *)
(* ------------------------------------------------------------------ *)

(* the premise exactly as worded in the task: unique UUIDs, unique expression offsets, every reference resolves *)
Definition deq_ok_task (c : cIR) : bool :=
  nodup_z (all_uuids c)
  && forallb (fun m =>
       forallb (fun s => forallb (fun b =>
           nodup_z (map fst (ci_symx b))
           && forallb (fun kv => forallb (sym_ok c) (expr_syms (snd kv))) (ci_symx b)) (cs_bis s)) (cm_sections m)
       && forallb (fun y => match cy_payload y with CPRef r => ref_ok c r | _ => true end) (cm_symbols m)
       && match cm_entry m with Some e => ref_ok c e | None => true end) (cr_modules c)
  && forallb (fun e => ref_ok c (ce_src e) && ref_ok c (ce_dst e)) (cr_edges c).

Definition ex_data_dm (dm : Z) : cIR :=
  let k := {| cb_uuid := 10; cb_code := false; cb_off := 0; cb_size := 4; cb_dm := dm |} in
  let i := {| ci_uuid := 5; ci_addr := None; ci_size := 4; ci_contents := []; ci_blocks := [k]; ci_symx := [] |} in
  let s := {| cs_uuid := 3; cs_name := []; cs_flags := []; cs_bis := [i] |} in
  let m := {| cm_uuid := 2; cm_name := []; cm_binary_path := []; cm_isa := 3; cm_file_format := 2;
              cm_byte_order := 2; cm_preferred_addr := 0; cm_rebase_delta := 0; cm_entry := None;
              cm_proxies := []; cm_sections := [s]; cm_symbols := []; cm_aux := [] |} in
  {| cr_uuid := 1; cr_version := 4; cr_modules := [m]; cr_edges := []; cr_aux := [] |}.

(* DataBlock.deep_eq does not look at a decode mode; a content record that carries a non-zero cb_dm on a data block
   (excluded by Proto.wf and by deq_ok) is deep_eq to the one with 0 but has a different normal form *)
Lemma deep_eq_iff_refuted_without_dm_clause :
  exists a b, deq_ok_task a = true /\ deq_ok_task b = true /\ ir_deq a b = true /\ norm a <> norm b.
Proof.
  exists (ex_data_dm 0), (ex_data_dm 1). repeat split; try (vm_compute; reflexivity).
  vm_compute. intros H. discriminate H.
Qed.

Definition ex_aux_dup (dup : bool) : cIR :=
  let x := {| a_type := []; a_data := [] |} in
  {| cr_uuid := 1; cr_version := 4; cr_modules := []; cr_edges := [];
     cr_aux := if dup then [([97], x); ([97], x)] else [([97], x)] |}.

(* AuxData keys are compared as sets while norm_aux keeps multiplicities: an association list with a repeated key
   (not a dict; wf does not exclude it, deq_ok does) separates the two sides *)
Lemma deep_eq_iff_refuted_without_aux_clause :
  exists a b, deq_ok_task a = true /\ deq_ok_task b = true /\ wf a = true /\ wf b = true
              /\ ir_deq a b = true /\ norm a <> norm b.
Proof.
  exists (ex_aux_dup true), (ex_aux_dup false). repeat split; try (vm_compute; reflexivity).
  vm_compute. intros H. discriminate H.
Qed.

(* ------------------------------------------------------------------ *)
(* norm is canonical: reordering a child list with pairwise distinct keys does not change it       *)
(* (with deep_eq_order_insensitive: such a reordering is invisible to deep_eq)                      *)
(* ------------------------------------------------------------------ *)

Theorem norm_modules_order : forall a ms', NoDup (map cm_uuid (cr_modules a)) -> Permutation (cr_modules a) ms' ->
  norm {| cr_uuid := cr_uuid a; cr_version := cr_version a; cr_modules := ms'; cr_edges := cr_edges a;
          cr_aux := cr_aux a |} = norm a.
Proof.
  intros a ms' N P. unfold norm. cbn [cr_uuid cr_version cr_modules cr_edges cr_aux].
  rewrite (sort_by_key_canonical cm_uuid (map norm_module (cr_modules a)) (map norm_module ms'));
    [reflexivity | | apply Permutation_map, P].
  rewrite map_map. exact N.
Qed.

Theorem norm_module_sections_order : forall m ss', NoDup (map cs_uuid (cm_sections m)) -> Permutation (cm_sections m) ss' ->
  norm_module {| cm_uuid := cm_uuid m; cm_name := cm_name m; cm_binary_path := cm_binary_path m; cm_isa := cm_isa m;
                 cm_file_format := cm_file_format m; cm_byte_order := cm_byte_order m;
                 cm_preferred_addr := cm_preferred_addr m; cm_rebase_delta := cm_rebase_delta m; cm_entry := cm_entry m;
                 cm_proxies := cm_proxies m; cm_sections := ss'; cm_symbols := cm_symbols m; cm_aux := cm_aux m |}
  = norm_module m.
Proof.
  intros m ss' N P. unfold norm_module.
  cbn [cm_uuid cm_name cm_binary_path cm_isa cm_file_format cm_byte_order cm_preferred_addr cm_rebase_delta cm_entry
       cm_proxies cm_sections cm_symbols cm_aux].
  rewrite (sort_by_key_canonical cs_uuid (map norm_section (cm_sections m)) (map norm_section ss'));
    [reflexivity | | apply Permutation_map, P].
  rewrite map_map. exact N.
Qed.

Theorem norm_module_symbols_order : forall m ys', NoDup (map cy_uuid (cm_symbols m)) -> Permutation (cm_symbols m) ys' ->
  norm_module {| cm_uuid := cm_uuid m; cm_name := cm_name m; cm_binary_path := cm_binary_path m; cm_isa := cm_isa m;
                 cm_file_format := cm_file_format m; cm_byte_order := cm_byte_order m;
                 cm_preferred_addr := cm_preferred_addr m; cm_rebase_delta := cm_rebase_delta m; cm_entry := cm_entry m;
                 cm_proxies := cm_proxies m; cm_sections := cm_sections m; cm_symbols := ys'; cm_aux := cm_aux m |}
  = norm_module m.
Proof.
  intros m ys' N P. unfold norm_module.
  cbn [cm_uuid cm_name cm_binary_path cm_isa cm_file_format cm_byte_order cm_preferred_addr cm_rebase_delta cm_entry
       cm_proxies cm_sections cm_symbols cm_aux].
  rewrite (sort_by_key_canonical cy_uuid (cm_symbols m) ys' N P). reflexivity.
Qed.

Theorem norm_section_bis_order : forall s bs', NoDup (map ci_uuid (cs_bis s)) -> Permutation (cs_bis s) bs' ->
  norm_section {| cs_uuid := cs_uuid s; cs_name := cs_name s; cs_flags := cs_flags s; cs_bis := bs' |} = norm_section s.
Proof.
  intros s bs' N P. unfold norm_section. cbn [cs_uuid cs_name cs_flags cs_bis].
  rewrite (sort_by_key_canonical ci_uuid (map norm_bi (cs_bis s)) (map norm_bi bs'));
    [reflexivity | | apply Permutation_map, P].
  rewrite map_map. exact N.
Qed.

Theorem norm_bi_blocks_order : forall b ks', NoDup (map cb_uuid (ci_blocks b)) -> Permutation (ci_blocks b) ks' ->
  norm_bi {| ci_uuid := ci_uuid b; ci_addr := ci_addr b; ci_size := ci_size b; ci_contents := ci_contents b;
             ci_blocks := ks'; ci_symx := ci_symx b |} = norm_bi b.
Proof.
  intros b ks' N P. unfold norm_bi. cbn [ci_uuid ci_addr ci_size ci_contents ci_blocks ci_symx].
  rewrite (sort_by_key_canonical cb_uuid (ci_blocks b) ks' N P). reflexivity.
Qed.

Theorem norm_bi_symx_order : forall b xs', NoDup (map fst (ci_symx b)) -> Permutation (ci_symx b) xs' ->
  norm_bi {| ci_uuid := ci_uuid b; ci_addr := ci_addr b; ci_size := ci_size b; ci_contents := ci_contents b;
             ci_blocks := ci_blocks b; ci_symx := xs' |} = norm_bi b.
Proof.
  intros b xs' N P. unfold norm_bi. cbn [ci_uuid ci_addr ci_size ci_contents ci_blocks ci_symx].
  rewrite (sort_by_key_canonical fst (map norm_expr (ci_symx b)) (map norm_expr xs'));
    [reflexivity | | apply Permutation_map, P].
  rewrite map_map. exact N.
Qed.

(* flags / attributes: any two lists denoting the same set have the same normal form *)
Theorem norm_set_canonical : forall l1 l2, (forall x, In x l1 <-> In x l2) -> norm_set l1 = norm_set l2.
Proof. intros l1 l2 H. apply set_eqb_norm, set_eqb_iff, H. Qed.

Print Assumptions wf_deq_ok.
Print Assumptions deep_eq_iff.
Print Assumptions deep_eq_refl.
Print Assumptions deep_eq_sym.
Print Assumptions deep_eq_order_insensitive.
Print Assumptions deep_eq_single_field.
Print Assumptions aux_values_ignored.
Print Assumptions deep_eq_iff_refuted_without_dm_clause.
Print Assumptions deep_eq_iff_refuted_without_aux_clause.
Print Assumptions norm_modules_order.
Print Assumptions norm_bi_symx_order.
