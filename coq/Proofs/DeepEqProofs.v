(* Task DQ: deep_eq (Model/DeepEq.v) is exact structural equality of the normalised contents. *)
From Coq Require Import ZArith List Bool Lia Permutation Sorting.
From V Require Import Result Proto DeepEq DeepEqBase.
Import ListNotations.
Open Scope Z_scope.

(* ------------------------------------------------------------------ *)
(* the premise                                                          *)
(* ------------------------------------------------------------------ *)

Definition ref_ok (c : cIR) (r : Z) : bool := match find_ref c r with Some _ => true | None => false end.
Definition sym_ok (c : cIR) (s : Z) : bool := match find_symbol c s with Some _ => true | None => false end.
(* a DataBlock has no decode mode: the content record carries 0 there (Proto.bi_ok) *)
Definition blk_ok (k : cBlock) : bool := cb_code k || (cb_dm k =? 0).
Definition bi_deq_ok (c : cIR) (b : cBI) : bool :=
  forallb blk_ok (ci_blocks b) && nodup_z (map fst (ci_symx b))
  && forallb (fun kv => forallb (sym_ok c) (expr_syms (snd kv))) (ci_symx b).
Definition module_deq_ok (c : cIR) (m : cModule) : bool :=
  nodup_keys (map fst (cm_aux m))
  && forallb (fun s => forallb (bi_deq_ok c) (cs_bis s)) (cm_sections m)
  && forallb (fun y => match cy_payload y with CPRef r => ref_ok c r | _ => true end) (cm_symbols m)
  && match cm_entry m with Some e => ref_ok c e | None => true end.
Definition deq_ok (c : cIR) : bool :=
  nodup_z (all_uuids c) && nodup_keys (map fst (cr_aux c))
  && forallb (module_deq_ok c) (cr_modules c)
  && forallb (fun e => ref_ok c (ce_src e) && ref_ok c (ce_dst e)) (cr_edges c).

Definition all_blocks (c : cIR) : list cBlock := flat_map module_blocks (cr_modules c).
Definition all_proxies (c : cIR) : list Z := flat_map cm_proxies (cr_modules c).
Definition all_symbols (c : cIR) : list cSymbol := flat_map cm_symbols (cr_modules c).

Lemma find_ref_unfold c u :
  find_ref c u = match find (fun b => cb_uuid b =? u) (all_blocks c) with
                 | Some b => Some (RBlock b)
                 | None => if existsb (Z.eqb u) (all_proxies c) then Some (RProxy u) else None
                 end.
Proof. reflexivity. Qed.

Lemma find_symbol_unfold c u : find_symbol c u = find (fun y => cy_uuid y =? u) (all_symbols c).
Proof. reflexivity. Qed.

Lemma existsb_zeqb_In u l : existsb (Z.eqb u) l = true <-> In u l.
Proof.
  rewrite existsb_exists. split.
  - intros [y [Hy E]]. apply Z.eqb_eq in E. subst y. exact Hy.
  - intros H. exists u. split; [exact H | apply Z.eqb_refl].
Qed.

(* ------------------------------------------------------------------ *)
(* blocks and references                                                *)
(* ------------------------------------------------------------------ *)

Lemma block_deq_refl x : block_deq x x = true.
Proof.
  unfold block_deq. rewrite eqb_reflx, !Z.eqb_refl. destruct (cb_code x); reflexivity.
Qed.

Lemma block_deq_uuid x y : block_deq x y = true -> cb_uuid x = cb_uuid y.
Proof.
  unfold block_deq. intros H.
  apply andb_true_iff in H as [H H5]. apply andb_true_iff in H as [H H4].
  apply andb_true_iff in H as [H H3]. apply Z.eqb_eq, H3.
Qed.

Lemma block_deq_fwd x y : blk_ok x = true -> blk_ok y = true -> block_deq x y = true -> x = y.
Proof.
  unfold blk_ok, block_deq. intros Hx Hy H.
  apply andb_true_iff in H as [H H5]. apply andb_true_iff in H as [H H4].
  apply andb_true_iff in H as [H H3]. apply andb_true_iff in H as [H1 H2].
  apply eqb_prop in H1. apply Z.eqb_eq in H2. apply Z.eqb_eq in H3. apply Z.eqb_eq in H4.
  destruct x as [ux cx ox sx dx], y as [uy cy oy sy dy].
  cbn [cb_uuid cb_code cb_off cb_size cb_dm] in *. subst cy oy uy sy.
  destruct cx; cbn [orb] in *.
  - apply Z.eqb_eq in H5. subst dy. reflexivity.
  - apply Z.eqb_eq in Hx. apply Z.eqb_eq in Hy. subst dx dy. reflexivity.
Qed.

Lemma block_deq_iff x y : blk_ok x = true -> blk_ok y = true -> (block_deq x y = true <-> x = y).
Proof.
  intros Hx Hy. split; [apply block_deq_fwd; assumption|]. intros E. subst y. apply block_deq_refl.
Qed.

Lemma find_ref_block c u x : find_ref c u = Some (RBlock x) -> In x (all_blocks c) /\ cb_uuid x = u.
Proof.
  rewrite find_ref_unfold. destruct (find (fun b => cb_uuid b =? u) (all_blocks c)) as [k|] eqn:E.
  - intros H. injection H as H. subst k. apply find_key_some in E. exact E.
  - destruct (existsb (Z.eqb u) (all_proxies c)); discriminate.
Qed.

Lemma find_ref_proxy c u v : find_ref c u = Some (RProxy v) ->
  v = u /\ (forall x, In x (all_blocks c) -> cb_uuid x <> u) /\ In u (all_proxies c).
Proof.
  rewrite find_ref_unfold. destruct (find (fun b => cb_uuid b =? u) (all_blocks c)) as [k|] eqn:E; [discriminate|].
  destruct (existsb (Z.eqb u) (all_proxies c)) eqn:Ep; [|discriminate].
  intros H. injection H as H. subst v. split; [reflexivity|]. split.
  - apply (find_key_none cb_uuid _ _ E).
  - apply existsb_zeqb_In, Ep.
Qed.

Lemma rnode_deq_eq ca cb x y : rnode_deq (find_ref ca x) (find_ref cb y) = true -> x = y.
Proof.
  destruct (find_ref ca x) as [[kx|px]|] eqn:Ea; destruct (find_ref cb y) as [[ky|py]|] eqn:Eb;
    cbn [rnode_deq]; intros H; try discriminate.
  - apply find_ref_block in Ea as [_ Ea]. apply find_ref_block in Eb as [_ Eb].
    apply block_deq_uuid in H. congruence.
  - apply find_ref_proxy in Ea as [Ea _]. apply find_ref_proxy in Eb as [Eb _].
    apply Z.eqb_eq in H. congruence.
Qed.

Lemma ref_ok_block c k : In k (all_blocks c) -> ref_ok c (cb_uuid k) = true.
Proof.
  intros H. unfold ref_ok. rewrite find_ref_unfold.
  destruct (find_key_exists cb_uuid _ _ H) as [y Hy]. rewrite Hy. reflexivity.
Qed.

Lemma ref_ok_proxy c p : In p (all_proxies c) -> ref_ok c p = true.
Proof.
  intros H. unfold ref_ok. rewrite find_ref_unfold.
  destruct (find (fun b => cb_uuid b =? p) (all_blocks c)); [reflexivity|].
  apply existsb_zeqb_In in H. rewrite H. reflexivity.
Qed.

Lemma sym_ok_in c y : In y (all_symbols c) -> sym_ok c (cy_uuid y) = true.
Proof.
  intros H. unfold sym_ok. rewrite find_symbol_unfold.
  destruct (find_key_exists cy_uuid _ _ H) as [z Hz]. rewrite Hz. reflexivity.
Qed.

(* the context facts needed for the direction  norm a = norm b -> ir_deq a b = true *)
Definition ctx_ok (ca cb : cIR) : Prop :=
  (forall r, ref_ok ca r = true -> rnode_deq (find_ref ca r) (find_ref cb r) = true)
  /\ (forall s, sym_ok ca s = true -> osym_deq ca cb s s = true).

(* ------------------------------------------------------------------ *)
(* symbols                                                              *)
(* ------------------------------------------------------------------ *)

Lemma symbol_deq_fwd ca cb a b : symbol_deq ca cb a b = true -> a = b.
Proof.
  unfold symbol_deq. intros H.
  apply andb_true_iff in H as [H H5]. apply andb_true_iff in H as [H H4].
  apply andb_true_iff in H as [H H3]. apply andb_true_iff in H as [H1 H2].
  apply Z.eqb_eq in H5. apply eqb_prop in H4. apply zs_eqb_eq in H3.
  destruct a as [ua na pa ea], b as [ub nb pb eb].
  cbn [cy_uuid cy_name cy_payload cy_at_end] in *. subst ub nb eb.
  assert (E : pa = pb).
  { destruct pa as [|va|ra], pb as [|vb|rb]; cbn in H1, H2; try discriminate; try reflexivity.
    - apply Z.eqb_eq in H1. subst vb. reflexivity.
    - apply rnode_deq_eq in H2. subst rb. reflexivity. }
  subst pb. reflexivity.
Qed.

Lemma symbol_deq_refl ca cb a :
  (forall r, cy_payload a = CPRef r -> rnode_deq (find_ref ca r) (find_ref cb r) = true) ->
  symbol_deq ca cb a a = true.
Proof.
  intros Hr. unfold symbol_deq.
  rewrite eqb_reflx, Z.eqb_refl, (proj2 (zs_eqb_eq _ _) eq_refl), !andb_true_r.
  destruct (cy_payload a) as [|v|r] eqn:E.
  - reflexivity.
  - rewrite Z.eqb_refl. reflexivity.
  - rewrite (Hr r eq_refl). reflexivity.
Qed.

Lemma osym_deq_eq ca cb x y : osym_deq ca cb x y = true -> x = y.
Proof.
  unfold osym_deq. rewrite !find_symbol_unfold.
  destruct (find (fun y0 => cy_uuid y0 =? x) (all_symbols ca)) as [a|] eqn:Ea; [|discriminate].
  destruct (find (fun y0 => cy_uuid y0 =? y) (all_symbols cb)) as [b|] eqn:Eb; [|discriminate].
  intros H. apply symbol_deq_fwd in H. subst b.
  apply find_key_some in Ea as [_ Ea]. apply find_key_some in Eb as [_ Eb]. congruence.
Qed.

(* ------------------------------------------------------------------ *)
(* expressions                                                          *)
(* ------------------------------------------------------------------ *)

Lemma expr_deq_fwd ca cb a b : expr_deq ca cb a b = true ->
  cx_val a = cx_val b /\ norm_set (cx_attrs a) = norm_set (cx_attrs b).
Proof.
  unfold expr_deq. destruct (cx_val a) as [o1 s1|c1 o1 s1 t1], (cx_val b) as [o2 s2|c2 o2 s2 t2];
    intros H; try discriminate.
  - apply andb_true_iff in H as [H H3]. apply andb_true_iff in H as [H1 H2].
    apply Z.eqb_eq in H1. apply osym_deq_eq in H2. apply set_eqb_norm in H3. subst. auto.
  - apply andb_true_iff in H as [H H5]. apply andb_true_iff in H as [H H4].
    apply andb_true_iff in H as [H H3]. apply andb_true_iff in H as [H1 H2].
    apply Z.eqb_eq in H1. apply Z.eqb_eq in H2. apply osym_deq_eq in H3. apply osym_deq_eq in H4.
    apply set_eqb_norm in H5. subst. auto.
Qed.

Lemma expr_deq_bwd ca cb a b :
  (forall s, In s (expr_syms a) -> osym_deq ca cb s s = true) ->
  cx_val a = cx_val b -> norm_set (cx_attrs a) = norm_set (cx_attrs b) -> expr_deq ca cb a b = true.
Proof.
  unfold expr_deq, expr_syms. intros Hs Hv Ha. rewrite <- Hv.
  apply set_eqb_norm in Ha. rewrite Ha.
  destruct (cx_val a) as [o1 s1|c1 o1 s1 t1]; rewrite !Z.eqb_refl.
  - rewrite (Hs s1) by (left; reflexivity). reflexivity.
  - rewrite (Hs s1) by (left; reflexivity). rewrite (Hs t1) by (right; left; reflexivity). reflexivity.
Qed.

Lemma norm_expr_eq_iff x y :
  norm_expr x = norm_expr y <->
  fst x = fst y /\ cx_val (snd x) = cx_val (snd y) /\ norm_set (cx_attrs (snd x)) = norm_set (cx_attrs (snd y)).
Proof.
  unfold norm_expr. split.
  - intros H. injection H as H1 H2 H3. auto.
  - intros [H1 [H2 H3]]. rewrite H1, H2, H3. reflexivity.
Qed.

(* ------------------------------------------------------------------ *)
(* byte intervals                                                       *)
(* ------------------------------------------------------------------ *)

Lemma sort_map_norm_expr l :
  sort (by_key fst) (map norm_expr l) = map norm_expr (sort (by_key fst) l).
Proof. apply sort_map. intros x y. reflexivity. Qed.

Lemma norm_bi_eq_iff a b :
  norm_bi a = norm_bi b <->
  ci_uuid a = ci_uuid b /\ ci_addr a = ci_addr b /\ ci_size a = ci_size b /\ ci_contents a = ci_contents b
  /\ sort (by_key cb_uuid) (ci_blocks a) = sort (by_key cb_uuid) (ci_blocks b)
  /\ map norm_expr (sort (by_key fst) (ci_symx a)) = map norm_expr (sort (by_key fst) (ci_symx b)).
Proof.
  unfold norm_bi.
  rewrite !sort_map_norm_expr.
  split.
  - intros H. injection H as H1 H2 H3 H4 H5 H6. auto 10.
  - intros (H1 & H2 & H3 & H4 & H5 & H6). rewrite H1, H2, H3, H4, H5, H6. reflexivity.
Qed.

Lemma bi_deq_ok_blk c b : bi_deq_ok c b = true -> forall k, In k (ci_blocks b) -> blk_ok k = true.
Proof.
  unfold bi_deq_ok. intros H. apply andb_true_iff in H as [H _]. apply andb_true_iff in H as [H _].
  rewrite forallb_forall in H. exact H.
Qed.

Lemma bi_deq_ok_sym c b : bi_deq_ok c b = true ->
  forall kv s, In kv (ci_symx b) -> In s (expr_syms (snd kv)) -> sym_ok c s = true.
Proof.
  unfold bi_deq_ok. intros H kv s Hkv Hs. apply andb_true_iff in H as [_ H].
  rewrite forallb_forall in H. specialize (H kv Hkv). rewrite forallb_forall in H. apply H, Hs.
Qed.

Lemma bi_deq_fwd ca cb a b : bi_deq_ok ca a = true -> bi_deq_ok cb b = true ->
  bi_deq ca cb a b = true -> norm_bi a = norm_bi b.
Proof.
  intros Ha Hb H. unfold bi_deq in H.
  apply andb_true_iff in H as [H H6]. apply andb_true_iff in H as [H H5].
  apply andb_true_iff in H as [H H4]. apply andb_true_iff in H as [H H3].
  apply andb_true_iff in H as [H1 H2].
  apply norm_bi_eq_iff. repeat split.
  - apply Z.eqb_eq, H1.
  - apply oz_eqb_eq, H2.
  - apply Z.eqb_eq, H4.
  - apply zs_eqb_eq, H3.
  - revert H5. apply all2_fwd_id. intros x y Hx Hy.
    apply sort_In in Hx. apply sort_In in Hy.
    apply block_deq_fwd; [apply (bi_deq_ok_blk ca a Ha x Hx) | apply (bi_deq_ok_blk cb b Hb y Hy)].
  - revert H6. apply all2_fwd. intros x y _ _ H.
    apply andb_true_iff in H as [E1 E2]. apply Z.eqb_eq in E1. apply expr_deq_fwd in E2 as [E2 E3].
    apply norm_expr_eq_iff. auto.
Qed.

Lemma bi_deq_bwd ca cb a b : ctx_ok ca cb -> bi_deq_ok ca a = true ->
  norm_bi a = norm_bi b -> bi_deq ca cb a b = true.
Proof.
  intros [_ Hctx] Ha H. apply norm_bi_eq_iff in H as (H1 & H2 & H3 & H4 & H5 & H6).
  unfold bi_deq.
  rewrite (proj2 (Z.eqb_eq _ _) H1), (proj2 (oz_eqb_eq _ _) H2), (proj2 (zs_eqb_eq _ _) H4),
    (proj2 (Z.eqb_eq _ _) H3). cbn [andb].
  apply andb_true_iff; split.
  - revert H5. apply all2_bwd_id. intros x y _ _ E. subst y. apply block_deq_refl.
  - revert H6. apply all2_bwd. intros x y Hx _ E.
    apply norm_expr_eq_iff in E as (E1 & E2 & E3). apply sort_In in Hx.
    rewrite (proj2 (Z.eqb_eq _ _) E1). cbn [andb].
    apply expr_deq_bwd; [|exact E2|exact E3].
    intros s Hs. apply Hctx. apply (bi_deq_ok_sym ca a Ha x s Hx Hs).
Qed.

(* ------------------------------------------------------------------ *)
(* sections                                                             *)
(* ------------------------------------------------------------------ *)

Lemma sort_map_norm_bi l :
  sort (by_key ci_uuid) (map norm_bi l) = map norm_bi (sort (by_key ci_uuid) l).
Proof. apply sort_map. intros x y. reflexivity. Qed.

Lemma norm_section_eq_iff a b :
  norm_section a = norm_section b <->
  cs_uuid a = cs_uuid b /\ cs_name a = cs_name b /\ norm_set (cs_flags a) = norm_set (cs_flags b)
  /\ map norm_bi (sort (by_key ci_uuid) (cs_bis a)) = map norm_bi (sort (by_key ci_uuid) (cs_bis b)).
Proof.
  unfold norm_section. rewrite !sort_map_norm_bi. split.
  - intros H. injection H as H1 H2 H3 H4. auto.
  - intros (H1 & H2 & H3 & H4). rewrite H1, H2, H3, H4. reflexivity.
Qed.

Definition sec_deq_ok (c : cIR) (s : cSection) : bool := forallb (bi_deq_ok c) (cs_bis s).

Lemma sec_deq_ok_bi c s : sec_deq_ok c s = true -> forall b, In b (cs_bis s) -> bi_deq_ok c b = true.
Proof. unfold sec_deq_ok. rewrite forallb_forall. auto. Qed.

Lemma section_deq_fwd ca cb a b : sec_deq_ok ca a = true -> sec_deq_ok cb b = true ->
  section_deq ca cb a b = true -> norm_section a = norm_section b.
Proof.
  intros Ha Hb H. unfold section_deq in H.
  apply andb_true_iff in H as [H H4]. apply andb_true_iff in H as [H H3].
  apply andb_true_iff in H as [H1 H2].
  apply norm_section_eq_iff. repeat split.
  - apply Z.eqb_eq, H1.
  - apply zs_eqb_eq, H2.
  - apply set_eqb_norm, H4.
  - revert H3. apply all2_fwd. intros x y Hx Hy.
    apply sort_In in Hx. apply sort_In in Hy.
    apply bi_deq_fwd; [apply (sec_deq_ok_bi ca a Ha x Hx) | apply (sec_deq_ok_bi cb b Hb y Hy)].
Qed.

Lemma section_deq_bwd ca cb a b : ctx_ok ca cb -> sec_deq_ok ca a = true ->
  norm_section a = norm_section b -> section_deq ca cb a b = true.
Proof.
  intros Hctx Ha H. apply norm_section_eq_iff in H as (H1 & H2 & H3 & H4).
  unfold section_deq.
  rewrite (proj2 (Z.eqb_eq _ _) H1), (proj2 (zs_eqb_eq _ _) H2), (proj2 (set_eqb_norm _ _) H3).
  cbn [andb]. rewrite andb_true_r.
  revert H4. apply all2_bwd. intros x y Hx _. apply sort_In in Hx.
  apply bi_deq_bwd; [exact Hctx | apply (sec_deq_ok_bi ca a Ha x Hx)].
Qed.

(* ------------------------------------------------------------------ *)
(* modules                                                              *)
(* ------------------------------------------------------------------ *)

Lemma sort_map_norm_section l :
  sort (by_key cs_uuid) (map norm_section l) = map norm_section (sort (by_key cs_uuid) l).
Proof. apply sort_map. intros x y. reflexivity. Qed.

Lemma norm_aux_eq_iff l1 l2 :
  norm_aux l1 = norm_aux l2 <-> sort zs_leb (map fst l1) = sort zs_leb (map fst l2).
Proof.
  unfold norm_aux. split; intros H; [|rewrite H; reflexivity].
  apply (f_equal (map fst)) in H. rewrite !map_map in H. cbn [fst] in H. rewrite !map_id in H. exact H.
Qed.

Lemma norm_module_eq_iff a b :
  norm_module a = norm_module b <->
  cm_uuid a = cm_uuid b /\ cm_name a = cm_name b /\ cm_binary_path a = cm_binary_path b /\ cm_isa a = cm_isa b
  /\ cm_file_format a = cm_file_format b /\ cm_byte_order a = cm_byte_order b
  /\ cm_preferred_addr a = cm_preferred_addr b /\ cm_rebase_delta a = cm_rebase_delta b
  /\ cm_entry a = cm_entry b
  /\ sort Z.leb (cm_proxies a) = sort Z.leb (cm_proxies b)
  /\ map norm_section (sort (by_key cs_uuid) (cm_sections a)) = map norm_section (sort (by_key cs_uuid) (cm_sections b))
  /\ sort (by_key cy_uuid) (cm_symbols a) = sort (by_key cy_uuid) (cm_symbols b)
  /\ sort zs_leb (map fst (cm_aux a)) = sort zs_leb (map fst (cm_aux b)).
Proof.
  rewrite <- norm_aux_eq_iff.
  unfold norm_module. rewrite !sort_map_norm_section. split.
  - intros H. injection H as H1 H2 H3 H4 H5 H6 H7 H8 H9 H10 H11 H12 H13. auto 20.
  - intros (H1 & H2 & H3 & H4 & H5 & H6 & H7 & H8 & H9 & H10 & H11 & H12 & H13).
    rewrite H1, H2, H3, H4, H5, H6, H7, H8, H9, H10, H11, H12, H13. reflexivity.
Qed.

Lemma module_deq_ok_aux c m : module_deq_ok c m = true -> NoDup (map fst (cm_aux m)).
Proof.
  unfold module_deq_ok. intros H. apply andb_true_iff in H as [H _]. apply andb_true_iff in H as [H _].
  apply andb_true_iff in H as [H _]. apply nodup_keys_NoDup, H.
Qed.

Lemma module_deq_ok_sec c m : module_deq_ok c m = true -> forall s, In s (cm_sections m) -> sec_deq_ok c s = true.
Proof.
  unfold module_deq_ok. intros H. apply andb_true_iff in H as [H _]. apply andb_true_iff in H as [H _].
  apply andb_true_iff in H as [_ H]. rewrite forallb_forall in H. exact H.
Qed.

Lemma module_deq_ok_sym c m : module_deq_ok c m = true ->
  forall y r, In y (cm_symbols m) -> cy_payload y = CPRef r -> ref_ok c r = true.
Proof.
  unfold module_deq_ok. intros H y r Hy E. apply andb_true_iff in H as [H _]. apply andb_true_iff in H as [_ H].
  rewrite forallb_forall in H. specialize (H y Hy). rewrite E in H. exact H.
Qed.

Lemma module_deq_ok_entry c m : module_deq_ok c m = true -> forall e, cm_entry m = Some e -> ref_ok c e = true.
Proof.
  unfold module_deq_ok. intros H e E. apply andb_true_iff in H as [_ H]. rewrite E in H. exact H.
Qed.

Lemma module_deq_fwd ca cb a b : module_deq_ok ca a = true -> module_deq_ok cb b = true ->
  module_deq ca cb a b = true -> norm_module a = norm_module b.
Proof.
  intros Ha Hb H. unfold module_deq in H.
  apply andb_true_iff in H as [H H13]. apply andb_true_iff in H as [H H12].
  apply andb_true_iff in H as [H H11]. apply andb_true_iff in H as [H H10].
  apply andb_true_iff in H as [H H9]. apply andb_true_iff in H as [H H8].
  apply andb_true_iff in H as [H H7]. apply andb_true_iff in H as [H H6].
  apply andb_true_iff in H as [H H5]. apply andb_true_iff in H as [H H4].
  apply andb_true_iff in H as [H H3]. apply andb_true_iff in H as [H1 H2].
  apply norm_module_eq_iff. repeat split.
  - apply Z.eqb_eq, H1.
  - apply zs_eqb_eq, H7.
  - apply zs_eqb_eq, H3.
  - apply Z.eqb_eq, H4.
  - apply Z.eqb_eq, H6.
  - apply Z.eqb_eq, H5.
  - apply Z.eqb_eq, H8.
  - apply Z.eqb_eq, H9.
  - destruct (cm_entry a) as [x|], (cm_entry b) as [y|]; try discriminate; [|reflexivity].
    apply rnode_deq_eq in H13. subst y. reflexivity.
  - apply all2_zeqb_eq, H10.
  - revert H11. apply all2_fwd. intros x y Hx Hy.
    apply sort_In in Hx. apply sort_In in Hy.
    apply section_deq_fwd; [apply (module_deq_ok_sec ca a Ha x Hx) | apply (module_deq_ok_sec cb b Hb y Hy)].
  - revert H12. apply all2_fwd_id. intros x y _ _. apply symbol_deq_fwd.
  - apply keys_eqb_sort; [apply (module_deq_ok_aux ca a Ha) | apply (module_deq_ok_aux cb b Hb) | exact H2].
Qed.

Lemma module_deq_bwd ca cb a b : ctx_ok ca cb -> module_deq_ok ca a = true -> module_deq_ok cb b = true ->
  norm_module a = norm_module b -> module_deq ca cb a b = true.
Proof.
  intros Hctx Ha Hb H.
  apply norm_module_eq_iff in H as (H1 & H2 & H3 & H4 & H5 & H6 & H7 & H8 & H9 & H10 & H11 & H12 & H13).
  unfold module_deq.
  rewrite (proj2 (Z.eqb_eq _ _) H1), (proj2 (zs_eqb_eq _ _) H2), (proj2 (zs_eqb_eq _ _) H3),
    (proj2 (Z.eqb_eq _ _) H4), (proj2 (Z.eqb_eq _ _) H5), (proj2 (Z.eqb_eq _ _) H6),
    (proj2 (Z.eqb_eq _ _) H7), (proj2 (Z.eqb_eq _ _) H8), (proj2 (all2_zeqb_eq _ _) H10).
  rewrite (proj2 (keys_eqb_sort _ _ (module_deq_ok_aux ca a Ha) (module_deq_ok_aux cb b Hb)) H13).
  cbn [andb].
  apply andb_true_iff; split; [apply andb_true_iff; split|].
  - revert H11. apply all2_bwd. intros x y Hx _. apply sort_In in Hx.
    apply section_deq_bwd; [exact Hctx | apply (module_deq_ok_sec ca a Ha x Hx)].
  - revert H12. apply all2_bwd_id. intros x y Hx _ E. subst y. apply sort_In in Hx.
    apply symbol_deq_refl. intros r Er. apply (proj1 Hctx). apply (module_deq_ok_sym ca a Ha x r Hx Er).
  - rewrite <- H9. destruct (cm_entry a) as [e|] eqn:Ee; [|reflexivity].
    apply (proj1 Hctx). apply (module_deq_ok_entry ca a Ha e Ee).
Qed.

(* ------------------------------------------------------------------ *)
(* CFG and IR                                                           *)
(* ------------------------------------------------------------------ *)

Lemma sort_map_norm_module l :
  sort (by_key cm_uuid) (map norm_module l) = map norm_module (sort (by_key cm_uuid) l).
Proof. apply sort_map. intros x y. reflexivity. Qed.

Lemma norm_eq_iff a b :
  norm a = norm b <->
  cr_uuid a = cr_uuid b /\ cr_version a = cr_version b
  /\ map norm_module (sort (by_key cm_uuid) (cr_modules a)) = map norm_module (sort (by_key cm_uuid) (cr_modules b))
  /\ sort edge_leb (cr_edges a) = sort edge_leb (cr_edges b)
  /\ sort zs_leb (map fst (cr_aux a)) = sort zs_leb (map fst (cr_aux b)).
Proof.
  rewrite <- norm_aux_eq_iff.
  unfold norm. rewrite !sort_map_norm_module. split.
  - intros H. injection H as H1 H2 H3 H4 H5. auto.
  - intros (H1 & H2 & H3 & H4 & H5). rewrite H1, H2, H3, H4, H5. reflexivity.
Qed.

Lemma cfg_deq_fwd a b : cfg_deq a b = true -> sort edge_leb (cr_edges a) = sort edge_leb (cr_edges b).
Proof.
  unfold cfg_deq. apply all2_fwd_id. intros x y _ _ H.
  apply andb_true_iff in H as [H H3]. apply andb_true_iff in H as [H1 H2].
  apply olabel_eqb_eq in H1. apply rnode_deq_eq in H2. apply rnode_deq_eq in H3.
  destruct x as [sx dx lx], y as [sy dy ly]. cbn [ce_src ce_dst ce_label] in *. subst. reflexivity.
Qed.

Lemma cfg_deq_bwd a b : ctx_ok a b ->
  (forall e, In e (cr_edges a) -> ref_ok a (ce_src e) = true /\ ref_ok a (ce_dst e) = true) ->
  sort edge_leb (cr_edges a) = sort edge_leb (cr_edges b) -> cfg_deq a b = true.
Proof.
  intros [Hctx _] He. unfold cfg_deq. apply all2_bwd_id. intros x y Hx _ E. subst y.
  apply sort_In in Hx. destruct (He x Hx) as [H1 H2].
  rewrite (proj2 (olabel_eqb_eq _ _) eq_refl), (Hctx _ H1), (Hctx _ H2). reflexivity.
Qed.

Lemma deq_ok_uuids c : deq_ok c = true -> NoDup (all_uuids c).
Proof.
  unfold deq_ok. intros H. apply andb_true_iff in H as [H _]. apply andb_true_iff in H as [H _].
  apply andb_true_iff in H as [H _]. apply nodup_z_NoDup, H.
Qed.

Lemma deq_ok_aux c : deq_ok c = true -> NoDup (map fst (cr_aux c)).
Proof.
  unfold deq_ok. intros H. apply andb_true_iff in H as [H _]. apply andb_true_iff in H as [H _].
  apply andb_true_iff in H as [_ H]. apply nodup_keys_NoDup, H.
Qed.

Lemma deq_ok_mod c : deq_ok c = true -> forall m, In m (cr_modules c) -> module_deq_ok c m = true.
Proof.
  unfold deq_ok. intros H. apply andb_true_iff in H as [H _]. apply andb_true_iff in H as [_ H].
  rewrite forallb_forall in H. exact H.
Qed.

Lemma deq_ok_edges c : deq_ok c = true ->
  forall e, In e (cr_edges c) -> ref_ok c (ce_src e) = true /\ ref_ok c (ce_dst e) = true.
Proof.
  unfold deq_ok. intros H e He. apply andb_true_iff in H as [_ H].
  rewrite forallb_forall in H. apply andb_true_iff. apply H, He.
Qed.

Lemma ir_deq_fwd a b : deq_ok a = true -> deq_ok b = true -> ir_deq a b = true -> norm a = norm b.
Proof.
  intros Ha Hb H. unfold ir_deq in H.
  apply andb_true_iff in H as [H H5]. apply andb_true_iff in H as [H H4].
  apply andb_true_iff in H as [H H3]. apply andb_true_iff in H as [H1 H2].
  apply norm_eq_iff. repeat split.
  - apply Z.eqb_eq, H1.
  - apply Z.eqb_eq, H4.
  - revert H3. apply all2_fwd. intros x y Hx Hy.
    apply sort_In in Hx. apply sort_In in Hy.
    apply module_deq_fwd; [apply (deq_ok_mod a Ha x Hx) | apply (deq_ok_mod b Hb y Hy)].
  - apply cfg_deq_fwd, H5.
  - apply keys_eqb_sort; [apply (deq_ok_aux a Ha) | apply (deq_ok_aux b Hb) | exact H2].
Qed.

Lemma ir_deq_bwd a b : ctx_ok a b -> deq_ok a = true -> deq_ok b = true -> norm a = norm b -> ir_deq a b = true.
Proof.
  intros Hctx Ha Hb H. apply norm_eq_iff in H as (H1 & H2 & H3 & H4 & H5).
  unfold ir_deq.
  rewrite (proj2 (Z.eqb_eq _ _) H1), (proj2 (Z.eqb_eq _ _) H2).
  rewrite (proj2 (keys_eqb_sort _ _ (deq_ok_aux a Ha) (deq_ok_aux b Hb)) H5).
  rewrite (cfg_deq_bwd a b Hctx (deq_ok_edges a Ha) H4).
  cbn [andb]. rewrite !andb_true_r.
  revert H3. apply all2_bwd. intros x y Hx Hy. apply sort_In in Hx. apply sort_In in Hy.
  apply module_deq_bwd; [exact Hctx | apply (deq_ok_mod a Ha x Hx) | apply (deq_ok_mod b Hb y Hy)].
Qed.
