(* Task F1: Forest and UUID-table invariants for the set-side operations. *)
From Coq Require Import ZArith List Bool Lia Arith.
From V Require Import Result LazyTree World WorldGuard ForestDefs InvDefs SetOpsBase.
Import ListNotations.
Open Scope Z_scope.

(* ---------- frame lemmas for the primitives ---------- *)

Lemma mid_nodes w m n : nodes (mod_index_discard w m n) = nodes w.
Proof. unfold mod_index_discard. destruct (kindof w n); try reflexivity. destruct (referent (getn w n)); reflexivity. Qed.
Lemma mid_kids w m n : kids (mod_index_discard w m n) = kids w.
Proof. unfold mod_index_discard. destruct (kindof w n); try reflexivity. destruct (referent (getn w n)); reflexivity. Qed.
Lemma mid_cache w m n : cache (mod_index_discard w m n) = cache w.
Proof. unfold mod_index_discard. destruct (kindof w n); try reflexivity. destruct (referent (getn w n)); reflexivity. Qed.

Lemma mia_nodes w m n : nodes (mod_index_add w m n) = nodes w.
Proof. unfold mod_index_add. destruct (kindof w n); try reflexivity. destruct (referent (getn w n)); reflexivity. Qed.
Lemma mia_kids w m n : kids (mod_index_add w m n) = kids w.
Proof. unfold mod_index_add. destruct (kindof w n); try reflexivity. destruct (referent (getn w n)); reflexivity. Qed.
Lemma mia_cache w m n : cache (mod_index_add w m n) = cache w.
Proof. unfold mod_index_add. destruct (kindof w n); try reflexivity. destruct (referent (getn w n)); reflexivity. Qed.

Lemma ir_of_nodes w w' n : nodes w' = nodes w -> ir_of w' n = ir_of w n.
Proof. intro H. unfold ir_of, kindof, par, getn. rewrite H. reflexivity. Qed.

Lemma subtree_kids w w' n : kids w' = kids w -> subtree w' n = subtree w n.
Proof. intro H. apply subtree_ext. intro x. rewrite H. reflexivity. Qed.

Lemma reparent_set_par w c q : Reparent w c q (set_par w c q).
Proof. intro x. reflexivity. Qed.

Lemma reparent_nodes w c q w1 w2 : Reparent w c q w1 -> nodes w2 = nodes w1 -> Reparent w c q w2.
Proof. intros H E x. rewrite E. apply H. Qed.

(* ---------- set_discard: shape ---------- *)

Definition disc_tail (w2 : world) (p c : id) : world * bool :=
  let '(w3, ok) := match ir_of w2 p with Some ir => cache_remove w2 ir c | None => (w2, true) end in
  (drop_kid w3 p c, ok).

Definition disc_flag (w : world) (p c : id) : bool :=
  match ir_of w p with
  | Some ir => forallb (fun u => dict_has Z.eqb u (cache w ir)) (map (fun y => nuuid (getn w y)) (subtree w c))
  | None => true
  end.

Lemma disc_tail_spec w w2 p c :
  Reparent w c None w2 -> kids w2 = kids w -> cache w2 = cache w -> ir_of w2 p = ir_of w p ->
  Detached w p c (fst (disc_tail w2 p c)) /\ snd (disc_tail w2 p c) = disc_flag w p c.
Proof.
  intros Hr Hk Hc Hir. unfold disc_tail, disc_flag, Detached. rewrite Hir.
  assert (Hmap : map (fun x => nuuid (getn w2 x)) (subtree w2 c) = map (fun y => nuuid (getn w y)) (subtree w c)).
  { rewrite (subtree_kids w w2 c Hk). apply map_ext. intro a. apply (rp_uuid _ _ _ _ _ Hr). }
  destruct (ir_of w p) as [ir|].
  - unfold cache_remove. cbn [fst snd]. rewrite Hmap. rewrite Hc. split; [|reflexivity].
    split; [|split].
    + intro x. apply Hr.
    + intro x. unfold drop_kid. cbn [kids set_kids set_cache]. rewrite Hk. reflexivity.
    + intro x. reflexivity.
  - cbn [fst snd]. split; [|reflexivity]. split; [|split].
    + intro x. apply Hr.
    + intro x. unfold drop_kid. cbn [kids set_kids]. rewrite Hk. reflexivity.
    + intro x. unfold drop_kid. cbn [cache set_kids]. rewrite Hc. reflexivity.
Qed.

Definition owner_kind (k : kind) : Prop := k = KMod \/ k = KSec \/ k = KBI.

Lemma set_discard_shape w p c :
  mem c (kids w p) = true -> owner_kind (kindof w p) -> ir_of (set_par w c None) p = ir_of w p ->
  Detached w p c (fst (set_discard w p c)) /\ snd (set_discard w p c) = disc_flag w p c.
Proof.
  intros Hm Hok Hir. unfold set_discard. rewrite Hm. cbn [negb].
  destruct Hok as [E|[E|E]]; rewrite E.
  - refine (disc_tail_spec w (mod_index_discard (set_par w c None) p c) p c _ _ _ _).
    + apply (reparent_nodes w c None (set_par w c None)); [apply reparent_set_par|apply mid_nodes].
    + rewrite mid_kids. reflexivity.
    + rewrite mid_cache. reflexivity.
    + rewrite (ir_of_nodes (set_par w c None) _ p (mid_nodes _ _ _)). exact Hir.
  - refine (disc_tail_spec w (set_par (tree_disc_ev w p (addr_iv w c)) c None) p c _ _ _ _).
    + intro x. reflexivity.
    + reflexivity.
    + reflexivity.
    + rewrite <- Hir. apply ir_of_nodes. reflexivity.
  - refine (disc_tail_spec w (set_par (tree_disc_ev w p (off_iv w c)) c None) p c _ _ _ _).
    + intro x. reflexivity.
    + reflexivity.
    + reflexivity.
    + rewrite <- Hir. apply ir_of_nodes. reflexivity.
Qed.

Lemma set_discard_absent w p c : mem c (kids w p) = false -> set_discard w p c = (w, true).
Proof. intro H. unfold set_discard. rewrite H. reflexivity. Qed.

Lemma not_below_child w (H2 : TwoEnded w) (HK : KindOK w) p c :
  parent_kind (kindof w c) = Some (kindof w p) -> ~ In p (subtree w c).
Proof.
  intros Hpk Hin. apply parent_kind_rank in Hpk. apply (subtree_iff w H2) in Hin. destruct Hin as [k [_ Hu]].
  apply (up_rank w HK) in Hu. lia.
Qed.

Lemma owner_of_parent kc kp : parent_kind kc = Some kp -> kp <> KIR -> owner_kind kp.
Proof.
  unfold owner_kind. destruct kc; cbn [parent_kind]; intros H Hn; inversion H; subst; tauto.
Qed.

Lemma owner_not_ir k : owner_kind k -> k <> KIR.
Proof. intros [E|[E|E]]; rewrite E; discriminate. Qed.

(* set_discard of a member *)
Lemma set_discard_member w known p c :
  Forest w known -> CacheInv w -> par w c = Some p -> kindof w p <> KIR ->
  Detached w p c (fst (set_discard w p c)) /\ Forest (fst (set_discard w p c)) known /\
  CacheInv (fst (set_discard w p c)) /\ snd (set_discard w p c) = true.
Proof.
  intros Hf Hc Hpc Hp.
  pose proof (forest_two_ended _ _ Hf) as H2. pose proof (forest_kind_ok _ _ Hf) as HK.
  destruct (f_kind _ _ Hf _ _ Hpc) as [Hhc [Hhp Hpk]].
  assert (mem c (kids w p) = true) as Hm. { apply mem_In. apply (f_two_ended _ _ Hf). exact Hpc. }
  assert (ir_of (set_par w c None) p = ir_of w p) as Hir.
  { apply (ir_of_rp_out w H2 c None). apply reparent_set_par. apply (not_below_child w H2 HK). exact Hpk. }
  destruct (set_discard_shape w p c Hm (owner_of_parent _ _ Hpk Hp) Hir) as [Hd Hfl].
  split; [exact Hd|]. split; [|split].
  - destruct Hd as [Hr [Hk _]]. exact (detach_forest _ _ _ _ _ Hf Hpc Hr Hk).
  - exact (detach_cache _ _ _ _ _ Hf Hc Hpc Hp Hd).
  - rewrite Hfl. unfold disc_flag. destruct (ir_of w p) as [ir|] eqn:Eir; [|reflexivity].
    exact (detach_flag _ _ _ _ _ Hf Hc Hpc Hp Eir).
Qed.

(* ---------- set_add1 / blocks_update: the attach half ---------- *)

Definition add_tail (w2 : world) (p c : id) : world :=
  push_kid (match ir_of w2 p with Some ir => cache_add w2 ir c | None => w2 end) p c.

Lemma add_uuids_eq w w2 c q d :
  Reparent w c q w2 -> kids w2 = kids w ->
  fold_left (fun d x => dict_set Z.eqb (nuuid (getn w2 x)) x d) (subtree w2 c) d = add_uuids w c d.
Proof.
  intros Hr Hk. unfold add_uuids. rewrite (subtree_kids w w2 c Hk). apply fold_left_ext.
  intros a b. rewrite (rp_uuid _ _ _ _ _ Hr). reflexivity.
Qed.

Lemma add_tail_spec w w2 p c :
  Reparent w c (Some p) w2 -> kids w2 = kids w -> cache w2 = cache w -> ir_of w2 p = ir_of w p ->
  mem c (kids w p) = false -> Attached w p c (add_tail w2 p c).
Proof.
  intros Hr Hk Hc Hir Hm. unfold add_tail, Attached. rewrite Hir. destruct (ir_of w p) as [ir|].
  - split; [|split].
    + intro x. apply Hr.
    + intro x. unfold push_kid, cache_add. cbn [kids set_kids set_cache]. rewrite Hk. rewrite Hm. reflexivity.
    + intro x. unfold push_kid, cache_add. cbn [cache set_kids set_cache].
      rewrite (add_uuids_eq w w2 c (Some p) _ Hr Hk). rewrite Hc. reflexivity.
  - split; [|split].
    + intro x. apply Hr.
    + intro x. unfold push_kid. cbn [kids set_kids]. rewrite Hk. rewrite Hm. reflexivity.
    + intro x. unfold push_kid. cbn [cache set_kids]. rewrite Hc. reflexivity.
Qed.

(* the optional detach from the previous owner *)
Definition pre (w : world) (c : id) : world * bool :=
  match par w c with Some old => set_discard w old c | None => (w, true) end.

Definition Pres (w w' : world) : Prop := forall x, has w' x = has w x /\ kindof w' x = kindof w x.

Lemma pres_refl w : Pres w w.
Proof. intro x. split; reflexivity. Qed.

Lemma pres_trans w1 w2 w3 : Pres w1 w2 -> Pres w2 w3 -> Pres w1 w3.
Proof. intros H1 H2 x. destruct (H1 x) as [A B]. destruct (H2 x) as [C D]. split; congruence. Qed.

Lemma pres_reparent w c q w' : Reparent w c q w' -> has w c = true -> Pres w w'.
Proof. intros Hr Hc x. split; [apply (rp_has _ _ _ _ _ Hr Hc)|apply (rp_kind _ _ _ _ _ Hr)]. Qed.

(* every kids list of the world after `pre` is the old one without c *)
Lemma pre_ok w known c :
  Forest w known -> CacheInv w -> has w c = true -> kindof w c <> KMod ->
  Forest (fst (pre w c)) known /\ CacheInv (fst (pre w c)) /\ snd (pre w c) = true /\
  par (fst (pre w c)) c = None /\ Pres w (fst (pre w c)) /\
  (forall q, kids (fst (pre w c)) q = remove_id c (kids w q)) /\
  (forall x, x <> c -> nodes (fst (pre w c)) x = nodes w x) /\
  getn (fst (pre w c)) c = with_par (getn w c) None.
Proof.
  intros Hf Hc Hhc Hkc. unfold pre. destruct (par w c) as [old|] eqn:Epar.
  - destruct (f_kind _ _ Hf _ _ Epar) as [_ [Hho Hpk]].
    assert (kindof w old <> KIR) as Hoi.
    { intro E. rewrite E in Hpk. destruct (kindof w c); cbn [parent_kind] in Hpk; try discriminate Hpk. apply Hkc. reflexivity. }
    destruct (set_discard_member w known old c Hf Hc Epar Hoi) as [[Hr [Hk Hca]] [Hf' [Hc' Hfl]]].
    split; [exact Hf'|]. split; [exact Hc'|]. split; [exact Hfl|].
    split; [apply (rp_par_same _ _ _ _ Hr)|]. split; [apply (pres_reparent _ _ _ _ Hr Hhc)|].
    split; [|split].
    + intro q. rewrite Hk. destruct (Z.eq_dec q old) as [E|E].
      * subst q. rewrite upd_same. reflexivity.
      * rewrite (upd_other _ _ _ _ E). symmetry. apply remove_id_notin. intro Hin.
        apply (f_two_ended _ _ Hf) in Hin. congruence.
    + intros x Hx. rewrite Hr. apply upd_other. exact Hx.
    + apply (rp_getn_same _ _ _ _ Hr).
  - cbn [fst snd]. split; [exact Hf|]. split; [exact Hc|]. split; [reflexivity|]. split; [exact Epar|].
    split; [apply pres_refl|]. split; [|split].
    + intro q. symmetry. apply remove_id_notin. intro Hin. apply (f_two_ended _ _ Hf) in Hin. congruence.
    + intros x _. reflexivity.
    + unfold par in Epar. destruct (getn w c) as [k u pa a s o nm py]. cbn [npar] in Epar. subst pa. reflexivity.
Qed.

Lemma attach_ok w known p c w' :
  Forest w known -> CacheInv w -> par w c = None -> has w c = true -> has w p = true ->
  parent_kind (kindof w c) = Some (kindof w p) -> kindof w p <> KIR ->
  Attached w p c w' -> Forest w' known /\ CacheInv w' /\ Pres w w'.
Proof.
  intros Hf Hc Hpc Hhc Hhp Hpk Hp Ha. split; [|split].
  - destruct Ha as [Hr [Hk _]]. exact (attach_forest _ _ _ _ _ Hf Hpc Hhc Hhp Hpk Hr Hk).
  - exact (attach_cache _ _ _ _ _ Hf Hc Hpc Hhc Hhp Hpk Hp Ha).
  - destruct Ha as [Hr _]. exact (pres_reparent _ _ _ _ Hr Hhc).
Qed.

Lemma set_add1_unfold_mod w p c : kindof w p = KMod ->
  set_add1 w p c = (add_tail (mod_index_add (set_par (fst (pre w c)) c (Some p)) p c) p c, snd (pre w c)).
Proof. intro E. unfold set_add1. rewrite E. fold (pre w c). destruct (pre w c) as [w0 ok0]. reflexivity. Qed.

Lemma set_add1_unfold_sec w p c : kindof w p = KSec ->
  set_add1 w p c =
  (add_tail (set_par (tree_add_ev (fst (pre w c)) p (addr_iv (fst (pre w c)) c)) c (Some p)) p c, snd (pre w c)).
Proof. intro E. unfold set_add1. rewrite E. fold (pre w c). destruct (pre w c) as [w0 ok0]. reflexivity. Qed.

Lemma child_not_mod kc kp : parent_kind kc = Some kp -> kp <> KIR -> kc <> KMod.
Proof. intros H Hn E. subst kc. cbn [parent_kind] in H. inversion H. congruence. Qed.

Lemma set_add1_shape w known p c :
  Forest w known -> CacheInv w -> has w p = true -> has w c = true ->
  parent_kind (kindof w c) = Some (kindof w p) -> kindof w p = KMod \/ kindof w p = KSec ->
  Attached (fst (pre w c)) p c (fst (set_add1 w p c)) /\ snd (set_add1 w p c) = snd (pre w c).
Proof.
  intros Hf Hc Hhp Hhc Hpk Hkp.
  assert (kindof w p <> KIR) as Hp by (destruct Hkp as [E|E]; rewrite E; discriminate).
  destruct (pre_ok w known c Hf Hc Hhc (child_not_mod _ _ Hpk Hp)) as [Hf0 [Hc0 [Hfl0 [Hpar0 [Hpres [Hk0 _]]]]]].
  set (w0 := fst (pre w c)) in *.
  assert (parent_kind (kindof w0 c) = Some (kindof w0 p)) as Hpk0.
  { destruct (Hpres c) as [_ A]. destruct (Hpres p) as [_ B]. rewrite A. rewrite B. exact Hpk. }
  assert (ir_of (set_par w0 c (Some p)) p = ir_of w0 p) as Hir.
  { apply (ir_of_rp_out w0 (forest_two_ended _ _ Hf0) c (Some p)). apply reparent_set_par.
    apply (not_below_child w0 (forest_two_ended _ _ Hf0) (forest_kind_ok _ _ Hf0)). exact Hpk0. }
  assert (mem c (kids w0 p) = false) as Hm.
  { apply mem_false. rewrite Hk0. rewrite remove_id_In. tauto. }
  destruct Hkp as [E|E].
  - rewrite (set_add1_unfold_mod w p c E). cbn [fst snd]. fold w0. split; [|reflexivity].
    apply add_tail_spec.
    + apply (reparent_nodes w0 c (Some p) (set_par w0 c (Some p))); [apply reparent_set_par|apply mia_nodes].
    + rewrite mia_kids. reflexivity.
    + rewrite mia_cache. reflexivity.
    + rewrite (ir_of_nodes (set_par w0 c (Some p)) _ p (mia_nodes _ _ _)). exact Hir.
    + exact Hm.
  - rewrite (set_add1_unfold_sec w p c E). cbn [fst snd]. fold w0. split; [|reflexivity].
    apply add_tail_spec.
    + intro x. reflexivity.
    + reflexivity.
    + reflexivity.
    + rewrite <- Hir. apply ir_of_nodes. reflexivity.
    + exact Hm.
Qed.

(* ---------- blocks_update ---------- *)

Definition pushed (w : world) (bi : id) (l : list id) : world := set_kids w (upd (kids w) bi (kids w bi ++ l)).

Lemma pushed_kids_bi w bi l : kids (pushed w bi l) bi = kids w bi ++ l.
Proof. unfold pushed. cbn [kids set_kids]. apply upd_same. Qed.

Lemma pushed_kids_other w bi l q : q <> bi -> kids (pushed w bi l) q = kids w q.
Proof. intro H. unfold pushed. cbn [kids set_kids]. apply upd_other. exact H. Qed.

Lemma is_block_parent k : is_block k = true -> parent_kind k = Some KBI.
Proof. destruct k; cbn [is_block]; intro H; try discriminate H; reflexivity. Qed.

Lemma block_no_kids w known v : Forest w known -> is_block (kindof w v) = true -> kids w v = [].
Proof.
  intros Hf Hb. destruct (kids w v) as [|x l] eqn:E; [reflexivity|]. exfalso.
  assert (In x (kids w v)) as Hin by (rewrite E; left; reflexivity).
  apply (f_two_ended _ _ Hf) in Hin. destruct (f_kind _ _ Hf _ _ Hin) as [_ [_ Hpk]].
  destruct (kindof w v); cbn [is_block] in Hb; try discriminate Hb;
  destruct (kindof w x); cbn [parent_kind] in Hpk; discriminate Hpk.
Qed.

Lemma subtree_leaf w v : kids w v = [] -> subtree w v = [v].
Proof. intro H. unfold subtree. rewrite H. reflexivity. Qed.

Lemma bu_pre w known bi done v :
  Forest (pushed w bi done) known -> CacheInv (pushed w bi done) ->
  kindof w bi = KBI -> ~ In v done -> ~ In v (kids w bi) -> has w v = true -> is_block (kindof w v) = true ->
  Forest (pushed (fst (pre w v)) bi done) known /\ CacheInv (pushed (fst (pre w v)) bi done) /\
  snd (pre w v) = true /\ par (fst (pre w v)) v = None /\ Pres w (fst (pre w v)) /\
  ir_of (fst (pre w v)) bi = ir_of w bi /\ kids (fst (pre w v)) bi = kids w bi /\
  (forall q, q <> bi -> kids (fst (pre w v)) q = remove_id v (kids w q)) /\
  (forall x, x <> v -> nodes (fst (pre w v)) x = nodes w x) /\
  getn (fst (pre w v)) v = with_par (getn w v) None.
Proof.
  intros HfW HcW Hbk Hnd Hnk Hhv Hblk.
  set (W := pushed w bi done) in *.
  pose proof (forest_two_ended _ _ HfW) as H2. pose proof (forest_kind_ok _ _ HfW) as HK.
  assert (v <> bi) as Hvb. { intro E. subst v. rewrite Hbk in Hblk. discriminate Hblk. }
  assert (kids W v = []) as HkWv by (apply (block_no_kids W known v HfW); exact Hblk).
  assert (kids w v = []) as Hkwv. { rewrite <- HkWv. symmetry. apply pushed_kids_other. exact Hvb. }
  pose proof (subtree_leaf W v HkWv) as HsW. pose proof (subtree_leaf w v Hkwv) as Hsw.
  assert (HnotW : forall q, par w v <> Some q -> ~ In v (kids w q)).
  { intros q Hq Hin. destruct (Z.eq_dec q bi) as [E|E]; [subst q; exact (Hnk Hin)|].
    rewrite <- (pushed_kids_other w bi done q E) in Hin. apply H2 in Hin. exact (Hq Hin). }
  unfold pre. destruct (par w v) as [old|] eqn:Epar.
  - assert (par W v = Some old) as EparW by exact Epar.
    destruct (f_kind _ _ HfW _ _ EparW) as [_ [Hho Hpk]].
    assert (kindof W v = kindof w v) as Hkv by reflexivity.
    rewrite Hkv in Hpk. rewrite (is_block_parent _ Hblk) in Hpk.
    assert (kindof w old = KBI) as Hko. { injection Hpk as Hpk. symmetry. exact Hpk. }
    assert (old <> bi) as Hob.
    { intro E. subst old. apply H2 in EparW. unfold W in EparW. rewrite pushed_kids_bi in EparW.
      apply in_app_iff in EparW. destruct EparW as [A|A]; [exact (Hnk A)|exact (Hnd A)]. }
    assert (kindof W old <> KIR) as Hoi. { change (kindof W old) with (kindof w old). rewrite Hko. discriminate. }
    assert (mem v (kids w old) = true) as Hm.
    { apply mem_In. rewrite <- (pushed_kids_other w bi done old Hob). apply H2. exact EparW. }
    assert (ir_of (set_par W v None) old = ir_of W old) as HirW.
    { apply (ir_of_rp_out W H2 v None). apply reparent_set_par. apply (not_below_child W H2 HK).
      apply (f_kind _ _ HfW _ _ EparW). }
    assert (ir_of (set_par w v None) old = ir_of w old) as Hir by exact HirW.
    assert (owner_kind (kindof w old)) as Hown by (right; right; exact Hko).
    destruct (set_discard_shape w old v Hm Hown Hir) as [[Hr [Hk Hca]] Hfl].
    set (wa := fst (set_discard w old v)) in *.
    assert (Detached W old v (pushed wa bi done)) as HdW.
    { split; [|split].
      - intro x. exact (Hr x).
      - intro x. destruct (Z.eq_dec x bi) as [E|E].
        + subst x. rewrite pushed_kids_bi. rewrite (upd_other _ _ _ _ (not_eq_sym Hob)). unfold W.
          rewrite pushed_kids_bi. rewrite Hk. rewrite (upd_other _ _ _ _ (not_eq_sym Hob)). reflexivity.
        + rewrite (pushed_kids_other _ _ _ _ E). rewrite Hk. destruct (Z.eq_dec x old) as [E2|E2].
          * subst x. rewrite !upd_same. unfold W. rewrite (pushed_kids_other _ _ _ _ E). reflexivity.
          * rewrite !(upd_other _ _ _ _ E2). unfold W. rewrite (pushed_kids_other _ _ _ _ E). reflexivity.
      - intro x. change (cache (pushed wa bi done) x) with (cache wa x). rewrite Hca.
        change (ir_of W old) with (ir_of w old). destruct (ir_of w old) as [ir|]; [|reflexivity].
        unfold del_uuids. rewrite HsW. rewrite Hsw. reflexivity. }
    assert (disc_flag w old v = true) as Hflag.
    { unfold disc_flag. destruct (ir_of w old) as [ir|] eqn:Eir; [|reflexivity].
      rewrite Hsw. rewrite <- HsW. exact (detach_flag W known old v ir HfW HcW EparW Hoi Eir). }
    cbn [fst snd]. fold wa.
    split; [destruct HdW as [HrW [HkW _]]; exact (detach_forest _ _ _ _ _ HfW EparW HrW HkW)|].
    split; [exact (detach_cache _ _ _ _ _ HfW HcW EparW Hoi HdW)|].
    split; [rewrite Hfl; exact Hflag|].
    split; [apply (rp_par_same _ _ _ _ Hr)|]. split; [apply (pres_reparent _ _ _ _ Hr Hhv)|].
    split; [|split; [|split; [|split]]].
    + apply (ir_of_rp_out W H2 v None wa bi).
      * intro x. exact (Hr x).
      * rewrite HsW. intros [A|[]]. exact (Hvb A).
    + rewrite Hk. apply upd_other. exact (not_eq_sym Hob).
    + intros q Hq. rewrite Hk. destruct (Z.eq_dec q old) as [E|E].
      * subst q. rewrite upd_same. reflexivity.
      * rewrite (upd_other _ _ _ _ E). symmetry. apply remove_id_notin. apply HnotW. congruence.
    + intros x Hx. rewrite Hr. apply upd_other. exact Hx.
    + apply (rp_getn_same _ _ _ _ Hr).
  - cbn [fst snd]. split; [exact HfW|]. split; [exact HcW|]. split; [reflexivity|]. split; [exact Epar|].
    split; [apply pres_refl|]. split; [reflexivity|]. split; [reflexivity|]. split; [|split].
    + intros q _. symmetry. apply remove_id_notin. apply HnotW. discriminate.
    + intros x _. reflexivity.
    + unfold par in Epar. destruct (getn w v) as [k u pa a s o nm py]. cbn [npar] in Epar. subst pa. reflexivity.
Qed.

Definition bu_attach (wa : world) (bi v : id) (node_ir : option id) : world :=
  match node_ir with Some ir => cache_add (set_par wa v (Some bi)) ir v | None => set_par wa v (Some bi) end.

Lemma bu_attach_nodes wa bi v node_ir : nodes (bu_attach wa bi v node_ir) = nodes (set_par wa v (Some bi)).
Proof. unfold bu_attach. destruct node_ir; reflexivity. Qed.

Lemma bu_attach_kids wa bi v node_ir : kids (bu_attach wa bi v node_ir) = kids wa.
Proof. unfold bu_attach. destruct node_ir; reflexivity. Qed.

Lemma bu_post wa known bi done v node_ir :
  Forest (pushed wa bi done) known -> CacheInv (pushed wa bi done) ->
  kindof wa bi = KBI -> has wa bi = true -> ir_of wa bi = node_ir ->
  has wa v = true -> is_block (kindof wa v) = true -> par wa v = None ->
  Forest (pushed (bu_attach wa bi v node_ir) bi (done ++ [v])) known /\
  CacheInv (pushed (bu_attach wa bi v node_ir) bi (done ++ [v])) /\
  Pres wa (bu_attach wa bi v node_ir) /\ ir_of (bu_attach wa bi v node_ir) bi = node_ir /\
  Reparent wa v (Some bi) (bu_attach wa bi v node_ir).
Proof.
  intros HfW HcW Hbk Hhb Hir Hhv Hblk Hpar.
  set (W := pushed wa bi done) in *. set (wc := bu_attach wa bi v node_ir).
  pose proof (forest_two_ended _ _ HfW) as H2.
  assert (v <> bi) as Hvb. { intro E. subst v. rewrite Hbk in Hblk. discriminate Hblk. }
  assert (kids W v = []) as HkWv by (apply (block_no_kids W known v HfW); exact Hblk).
  assert (kids wa v = []) as Hkwv. { rewrite <- HkWv. symmetry. apply pushed_kids_other. exact Hvb. }
  pose proof (subtree_leaf W v HkWv) as HsW.
  assert (Reparent wa v (Some bi) wc) as Hr.
  { intro x. unfold wc. rewrite bu_attach_nodes. reflexivity. }
  assert (Attached W bi v (pushed wc bi (done ++ [v]))) as HaW.
  { split; [|split].
    - intro x. exact (Hr x).
    - intro x. destruct (Z.eq_dec x bi) as [E|E].
      + subst x. rewrite pushed_kids_bi. rewrite upd_same. unfold W. rewrite pushed_kids_bi.
        unfold wc. rewrite bu_attach_kids. rewrite app_assoc. reflexivity.
      + rewrite (pushed_kids_other _ _ _ _ E). rewrite (upd_other _ _ _ _ E). unfold W.
        rewrite (pushed_kids_other _ _ _ _ E). unfold wc. rewrite bu_attach_kids. reflexivity.
    - intro x. change (cache (pushed wc bi (done ++ [v])) x) with (cache wc x).
      change (ir_of W bi) with (ir_of wa bi). rewrite Hir. unfold wc, bu_attach.
      destruct node_ir as [ir|]; [|reflexivity].
      unfold cache_add. cbn [cache set_cache]. unfold add_uuids. rewrite HsW.
      rewrite (subtree_leaf (set_par wa v (Some bi)) v Hkwv). cbn [fold_left].
      rewrite (rp_uuid wa v (Some bi) (set_par wa v (Some bi)) v (reparent_set_par wa v (Some bi))).
      reflexivity. }
  assert (parent_kind (kindof W v) = Some (kindof W bi)) as Hpk.
  { change (kindof W v) with (kindof wa v). change (kindof W bi) with (kindof wa bi).
    rewrite Hbk. apply is_block_parent. exact Hblk. }
  assert (kindof W bi <> KIR) as Hbi. { change (kindof W bi) with (kindof wa bi). rewrite Hbk. discriminate. }
  destruct (attach_ok W known bi v _ HfW HcW Hpar Hhv Hhb Hpk Hbi HaW) as [Hf' [Hc' _]].
  split; [exact Hf'|]. split; [exact Hc'|]. split; [exact (pres_reparent _ _ _ _ Hr Hhv)|].
  split; [|exact Hr].
  rewrite <- Hir. apply (ir_of_rp_out W H2 v (Some bi) wc bi).
  - intro x. exact (Hr x).
  - rewrite HsW. intros [A|[]]. exact (Hvb A).
Qed.

Definition bu_step (bi : id) (node_ir : option id) (st : world * bool) (v : id) : world * bool :=
  let '(w, ok) := st in
  let '(wa, oka) := match par w v with Some old => set_discard w old v | None => (w, true) end in
  let wb := set_par wa v (Some bi) in
  let wc := match node_ir with Some ir => cache_add wb ir v | None => wb end in
  (wc, ok && oka).

Lemma bu_step_eq bi nir w ok v :
  bu_step bi nir (w, ok) v = (bu_attach (fst (pre w v)) bi v nir, ok && snd (pre w v)).
Proof. unfold bu_step, bu_attach. fold (pre w v). destruct (pre w v) as [wa oka]. reflexivity. Qed.

Definition new_items (w : world) (bi : id) (items : list id) : list id :=
  filter (fun v => negb (mem v (kids w bi))) (dedup items).

Lemma blocks_update_eq w bi items :
  blocks_update w bi items =
  (fold_left (fun w v => push_kid w bi v) (new_items w bi items)
     (fold_left (fun w v => tree_add_ev w bi (off_iv w v)) (new_items w bi items)
        (fst (fold_left (bu_step bi (ir_of w bi)) (new_items w bi items) (w, true)))),
   snd (fold_left (bu_step bi (ir_of w bi)) (new_items w bi items) (w, true))).
Proof.
  unfold blocks_update. fold (new_items w bi items). fold (bu_step bi (ir_of w bi)).
  destruct (fold_left (bu_step bi (ir_of w bi)) (new_items w bi items) (w, true)) as [w1 ok]. reflexivity.
Qed.

Lemma mem_app x a b : mem x (a ++ b) = mem x a || mem x b.
Proof. unfold mem. apply existsb_app. Qed.

Lemma filter_snoc done v l :
  filter (fun x => negb (mem x (done ++ [v]))) l = remove_id v (filter (fun x => negb (mem x done)) l).
Proof.
  induction l as [|y l IH]; [reflexivity|]. cbn [filter]. rewrite mem_app. unfold mem at 2. cbn [existsb].
  rewrite orb_false_r. destruct (mem y done); cbn [orb negb].
  - exact IH.
  - cbn [remove_id filter]. fold (remove_id v (filter (fun x => negb (mem x done)) l)).
    destruct (y =? v); cbn [negb]; rewrite IH; reflexivity.
Qed.

Definition BU (w : world) (bi : id) (done : list id) (wi : world) : Prop :=
  Pres w wi /\ ir_of wi bi = ir_of w bi /\ kids wi bi = kids w bi /\
  (forall q, q <> bi -> kids wi q = filter (fun x => negb (mem x done)) (kids w q)) /\
  (forall x, ~ In x done -> nodes wi x = nodes w x) /\
  (forall v, In v done -> getn wi v = with_par (getn w v) (Some bi)).

Lemma with_par_twice n a b : with_par (with_par n a) b = with_par n b.
Proof. reflexivity. Qed.

Lemma bu_loop w known bi : kindof w bi = KBI -> has w bi = true ->
  forall rest wi done ok,
  Forest (pushed wi bi done) known -> CacheInv (pushed wi bi done) -> BU w bi done wi ->
  NoDup rest ->
  (forall v, In v rest -> ~ In v done /\ ~ In v (kids w bi) /\ has w v = true /\ is_block (kindof w v) = true) ->
  Forest (pushed (fst (fold_left (bu_step bi (ir_of w bi)) rest (wi, ok))) bi (done ++ rest)) known /\
  CacheInv (pushed (fst (fold_left (bu_step bi (ir_of w bi)) rest (wi, ok))) bi (done ++ rest)) /\
  BU w bi (done ++ rest) (fst (fold_left (bu_step bi (ir_of w bi)) rest (wi, ok))) /\
  snd (fold_left (bu_step bi (ir_of w bi)) rest (wi, ok)) = ok.
Proof.
  intros Hbk Hhb. induction rest as [|v rest IH]; intros wi done ok HfW HcW Hbu Hnd Hall.
  - cbn [fold_left fst snd]. rewrite app_nil_r. tauto.
  - cbn [fold_left]. rewrite bu_step_eq.
    destruct Hbu as [Hpres [Hir [Hkbi [Hkq [Hnx Hgv]]]]].
    destruct (Hall v (or_introl eq_refl)) as [Hvd [Hvk [Hhv Hblk]]].
    assert (kindof wi bi = KBI) as Hbk_i by (destruct (Hpres bi) as [_ A]; rewrite A; exact Hbk).
    assert (has wi v = true) as Hhv_i by (destruct (Hpres v) as [A _]; rewrite A; exact Hhv).
    assert (is_block (kindof wi v) = true) as Hblk_i by (destruct (Hpres v) as [_ A]; rewrite A; exact Hblk).
    assert (~ In v (kids wi bi)) as Hvk_i by (rewrite Hkbi; exact Hvk).
    destruct (bu_pre wi known bi done v HfW HcW Hbk_i Hvd Hvk_i Hhv_i Hblk_i)
      as [HfA [HcA [Hfl [HparA [HpresA [HirA [HkbiA [HkqA [HnxA HgvA]]]]]]]]].
    set (wa := fst (pre wi v)) in *.
    assert (kindof wa bi = KBI) as Hbk_a by (destruct (HpresA bi) as [_ A]; rewrite A; exact Hbk_i).
    assert (has wa bi = true) as Hhb_a.
    { destruct (HpresA bi) as [A _]. rewrite A. destruct (Hpres bi) as [B _]. rewrite B. exact Hhb. }
    assert (has wa v = true) as Hhv_a by (destruct (HpresA v) as [A _]; rewrite A; exact Hhv_i).
    assert (is_block (kindof wa v) = true) as Hblk_a by (destruct (HpresA v) as [_ A]; rewrite A; exact Hblk_i).
    assert (ir_of wa bi = ir_of w bi) as Hir_a by (rewrite HirA; exact Hir).
    destruct (bu_post wa known bi done v (ir_of w bi) HfA HcA Hbk_a Hhb_a Hir_a Hhv_a Hblk_a HparA)
      as [HfC [HcC [HpresC [HirC HrC]]]].
    set (wc := bu_attach wa bi v (ir_of w bi)) in *.
    assert (kids wc = kids wa) as HkC by apply bu_attach_kids.
    rewrite Hfl. rewrite andb_true_r.
    replace (done ++ v :: rest) with ((done ++ [v]) ++ rest) by (rewrite <- app_assoc; reflexivity).
    inversion Hnd as [|v' rest' Hvr Hnd']; subst.
    apply IH; [exact HfC|exact HcC| |exact Hnd'|].
    + split; [exact (pres_trans _ _ _ Hpres (pres_trans _ _ _ HpresA HpresC))|].
      split; [exact HirC|]. split; [rewrite HkC; rewrite HkbiA; exact Hkbi|].
      split; [|split].
      * intros q Hq. rewrite HkC. rewrite (HkqA q Hq). rewrite (Hkq q Hq). symmetry. apply filter_snoc.
      * intros x Hx. assert (x <> v) as Hxv. { intro E. apply Hx. apply in_app_iff. right. left. congruence. }
        rewrite HrC. rewrite (upd_other _ _ _ _ Hxv). rewrite (HnxA x Hxv). apply Hnx.
        intro A. apply Hx. apply in_app_iff. left. exact A.
      * intros x Hx. apply in_app_iff in Hx. destruct (Z.eq_dec x v) as [E|E].
        -- subst x. rewrite (rp_getn_same _ _ _ _ HrC). rewrite HgvA. rewrite with_par_twice.
           rewrite (getn_ext w wi v (Hnx v Hvd)). reflexivity.
        -- destruct Hx as [Hx|[Hx|[]]]; [|congruence].
           rewrite (rp_getn_other _ _ _ _ _ HrC E). rewrite (getn_ext wi wa x (HnxA x E)). apply Hgv. exact Hx.
    + intros x Hx. destruct (Hall x (or_intror Hx)) as [A [B [C D]]]. split; [|tauto].
      rewrite in_app_iff. intros [F|[F|[]]]; [exact (A F)|]. subst x. exact (Hvr Hx).
Qed.

Lemma dedup_In x l : In x (dedup l) <-> In x l.
Proof.
  induction l as [|y l IH]; [tauto|]. cbn [dedup]. destruct (mem y l) eqn:E.
  - rewrite IH. cbn [In]. split; [tauto|]. intros [H|H]; [|exact H]. subst y. apply mem_In. exact E.
  - cbn [In]. rewrite IH. tauto.
Qed.

Lemma dedup_NoDup l : NoDup (dedup l).
Proof.
  induction l as [|y l IH]; [constructor|]. cbn [dedup]. destruct (mem y l) eqn:E; [exact IH|].
  constructor; [|exact IH]. rewrite dedup_In. apply mem_false. exact E.
Qed.

Lemma new_items_In w bi items x : In x (new_items w bi items) <-> In x items /\ ~ In x (kids w bi).
Proof.
  unfold new_items. rewrite filter_In. rewrite dedup_In. destruct (mem x (kids w bi)) eqn:E; cbn [negb].
  - apply mem_In in E. split; [intros [_ H]; discriminate H|tauto].
  - apply mem_false in E. tauto.
Qed.

Lemma new_items_NoDup w bi items : NoDup (new_items w bi items).
Proof. unfold new_items. apply NoDup_filter'. apply dedup_NoDup. Qed.

Lemma fold_tree_frame bi l : forall w,
  nodes (fold_left (fun w v => tree_add_ev w bi (off_iv w v)) l w) = nodes w /\
  kids (fold_left (fun w v => tree_add_ev w bi (off_iv w v)) l w) = kids w /\
  cache (fold_left (fun w v => tree_add_ev w bi (off_iv w v)) l w) = cache w.
Proof.
  induction l as [|v l IH]; intro w; cbn [fold_left]; [tauto|].
  destruct (IH (tree_add_ev w bi (off_iv w v))) as [A [B C]]. rewrite A, B, C. repeat split; reflexivity.
Qed.

Lemma fold_push_frame bi l : forall w, NoDup l -> (forall v, In v l -> ~ In v (kids w bi)) ->
  nodes (fold_left (fun w v => push_kid w bi v) l w) = nodes w /\
  cache (fold_left (fun w v => push_kid w bi v) l w) = cache w /\
  kids (fold_left (fun w v => push_kid w bi v) l w) bi = kids w bi ++ l /\
  (forall q, q <> bi -> kids (fold_left (fun w v => push_kid w bi v) l w) q = kids w q).
Proof.
  induction l as [|v l IH]; intros w Hnd Hnot; cbn [fold_left].
  - rewrite app_nil_r. tauto.
  - inversion Hnd as [|v' l' Hvl Hnd']; subst.
    assert (mem v (kids w bi) = false) as Hm by (apply mem_false; apply Hnot; left; reflexivity).
    assert (kids (push_kid w bi v) bi = kids w bi ++ [v]) as Hk1.
    { unfold push_kid. cbn [kids set_kids]. rewrite upd_same. rewrite Hm. reflexivity. }
    destruct (IH (push_kid w bi v) Hnd') as [A [B [C D]]].
    { intros x Hx. rewrite Hk1. rewrite in_app_iff. intros [F|[F|[]]].
      - exact (Hnot x (or_intror Hx) F).
      - subst x. exact (Hvl Hx). }
    rewrite A, B, C. rewrite Hk1. rewrite <- app_assoc. split; [reflexivity|]. split; [reflexivity|].
    split; [reflexivity|]. intros q Hq. rewrite (D q Hq). unfold push_kid. cbn [kids set_kids].
    apply upd_other. exact Hq.
Qed.

Theorem blocks_update_ok w known bi items :
  Forest w known -> CacheInv w -> has w bi = true -> kindof w bi = KBI ->
  (forall v, In v items -> has w v = true /\ is_block (kindof w v) = true) ->
  Forest (fst (blocks_update w bi items)) known /\ CacheInv (fst (blocks_update w bi items)) /\
  snd (blocks_update w bi items) = true /\ Pres w (fst (blocks_update w bi items)) /\
  kids (fst (blocks_update w bi items)) bi = kids w bi ++ new_items w bi items /\
  (forall q, q <> bi -> kids (fst (blocks_update w bi items)) q =
                        filter (fun x => negb (mem x (new_items w bi items))) (kids w q)) /\
  (forall x, ~ In x (new_items w bi items) -> nodes (fst (blocks_update w bi items)) x = nodes w x) /\
  (forall v, In v (new_items w bi items) -> getn (fst (blocks_update w bi items)) v = with_par (getn w v) (Some bi)).
Proof.
  intros Hf Hc Hhb Hbk Hitems. rewrite blocks_update_eq. cbn [fst snd].
  set (new := new_items w bi items).
  assert (SameSkel w (pushed w bi [])) as Hsk0.
  { split; [|split].
    - intro x. destruct (Z.eq_dec x bi) as [E|E].
      + subst x. rewrite pushed_kids_bi. apply app_nil_r.
      + apply pushed_kids_other. exact E.
    - intro x. reflexivity.
    - intro x. repeat split; reflexivity. }
  assert (BU w bi [] w) as Hbu0.
  { split; [apply pres_refl|]. split; [reflexivity|]. split; [reflexivity|]. split; [|split].
    - intros q _. symmetry. induction (kids w q) as [|y l IH]; [reflexivity|]. cbn [filter mem existsb negb].
      f_equal. exact IH.
    - intros x _. reflexivity.
    - intros v []. }
  destruct (bu_loop w known bi Hbk Hhb new w [] true (skel_forest _ _ _ Hsk0 Hf) (skel_cache _ _ Hsk0 Hc) Hbu0
              (new_items_NoDup w bi items)) as [Hf1 [Hc1 [Hbu1 Hok]]].
  { intros v Hv. apply new_items_In in Hv. destruct Hv as [Hv1 Hv2]. destruct (Hitems v Hv1) as [A B].
    split; [intros []|]. tauto. }
  cbn [app] in Hf1, Hc1, Hbu1.
  set (w1 := fst (fold_left (bu_step bi (ir_of w bi)) new (w, true))) in *.
  destruct (fold_tree_frame bi new w1) as [Tn [Tk Tc]].
  set (w2 := fold_left (fun w v => tree_add_ev w bi (off_iv w v)) new w1) in *.
  destruct Hbu1 as [Hpres [Hir [Hkbi [Hkq [Hnx Hgv]]]]].
  destruct (fold_push_frame bi new w2 (new_items_NoDup w bi items)) as [Pn [Pc [Pk Pq]]].
  { intros v Hv. rewrite Tk. rewrite Hkbi. apply new_items_In in Hv. tauto. }
  set (w3 := fold_left (fun w v => push_kid w bi v) new w2) in *.
  assert (SameSkel (pushed w1 bi new) w3) as Hsk.
  { split; [|split].
    - intro x. destruct (Z.eq_dec x bi) as [E|E].
      + subst x. rewrite Pk. rewrite pushed_kids_bi. rewrite Tk. reflexivity.
      + rewrite (Pq x E). rewrite (pushed_kids_other _ _ _ _ E). rewrite Tk. reflexivity.
    - intro x. rewrite Pc. rewrite Tc. reflexivity.
    - intro x. unfold has, getn. rewrite Pn. rewrite Tn. repeat split; reflexivity. }
  assert (Hn3 : nodes w3 = nodes w1) by (rewrite Pn; exact Tn).
  split; [exact (skel_forest _ _ _ Hsk Hf1)|]. split; [exact (skel_cache _ _ Hsk Hc1)|].
  split; [exact Hok|]. split; [|split; [|split; [|split]]].
  - intro x. destruct (Hpres x) as [A B]. unfold has, kindof, getn. rewrite Hn3. split; [exact A|exact B].
  - rewrite Pk. rewrite Tk. rewrite Hkbi. reflexivity.
  - intros q Hq. rewrite (Pq q Hq). rewrite Tk. apply Hkq. exact Hq.
  - intros x Hx. rewrite Hn3. apply Hnx. exact Hx.
  - intros v Hv. unfold getn at 1. rewrite Hn3. apply Hgv. exact Hv.
Qed.

(* ---------- set_discard: preservation and effect ---------- *)

Lemma kind_eq_dec (a b : kind) : {a = b} + {a <> b}.
Proof. decide equality. Qed.

Lemma set_discard_ir w p c : kindof w p = KIR -> set_discard w p c = (w, true).
Proof. intro E. unfold set_discard. destruct (negb (mem c (kids w p))); [reflexivity|]. rewrite E. reflexivity. Qed.

Theorem set_discard_preserves w known p c :
  Forest w known -> CacheInv w ->
  Forest (fst (set_discard w p c)) known /\ CacheInv (fst (set_discard w p c)) /\
  snd (set_discard w p c) = true /\ Pres w (fst (set_discard w p c)).
Proof.
  intros Hf Hc. destruct (kind_eq_dec (kindof w p) KIR) as [E|E].
  - rewrite (set_discard_ir w p c E). cbn [fst snd]. split; [exact Hf|]. split; [exact Hc|]. split; [reflexivity|apply pres_refl].
  - destruct (mem c (kids w p)) eqn:Em.
    + assert (par w c = Some p) as Hpc by (apply (f_two_ended _ _ Hf); apply mem_In; exact Em).
      destruct (f_kind _ _ Hf _ _ Hpc) as [Hhc _].
      destruct (set_discard_member w known p c Hf Hc Hpc E) as [[Hr _] [Hf' [Hc' Hfl]]].
      split; [exact Hf'|]. split; [exact Hc'|]. split; [exact Hfl|]. exact (pres_reparent _ _ _ _ Hr Hhc).
    + rewrite (set_discard_absent w p c Em). cbn [fst snd]. split; [exact Hf|]. split; [exact Hc|].
      split; [reflexivity|apply pres_refl].
Qed.

(* effect of discarding a member *)
Theorem set_discard_effect w known p c :
  Forest w known -> CacheInv w -> kindof w p <> KIR -> mem c (kids w p) = true ->
  par (fst (set_discard w p c)) c = None /\
  kids (fst (set_discard w p c)) p = remove_id c (kids w p) /\
  (forall q, q <> p -> kids (fst (set_discard w p c)) q = kids w q) /\
  (forall x, x <> c -> nodes (fst (set_discard w p c)) x = nodes w x) /\
  getn (fst (set_discard w p c)) c = with_par (getn w c) None /\
  Detached w p c (fst (set_discard w p c)).
Proof.
  intros Hf Hc E Em.
  assert (par w c = Some p) as Hpc by (apply (f_two_ended _ _ Hf); apply mem_In; exact Em).
  destruct (set_discard_member w known p c Hf Hc Hpc E) as [Hd _]. pose proof Hd as [Hr [Hk _]].
  split; [apply (rp_par_same _ _ _ _ Hr)|]. split; [rewrite Hk; apply upd_same|].
  split; [intros q Hq; rewrite Hk; apply upd_other; exact Hq|].
  split; [intros x Hx; rewrite Hr; apply upd_other; exact Hx|].
  split; [apply (rp_getn_same _ _ _ _ Hr)|exact Hd].
Qed.

(* discarding a non-member changes nothing at all *)
Theorem set_discard_nonmember w p c : mem c (kids w p) = false -> fst (set_discard w p c) = w.
Proof. intro H. rewrite (set_discard_absent w p c H). reflexivity. Qed.

(* all kids lists at once *)
Lemma set_discard_kids w known p c :
  Forest w known -> CacheInv w -> kindof w p <> KIR ->
  forall q, kids (fst (set_discard w p c)) q = if q =? p then remove_id c (kids w p) else kids w q.
Proof.
  intros Hf Hc E q. destruct (mem c (kids w p)) eqn:Em.
  - destruct (set_discard_effect w known p c Hf Hc E Em) as [_ [A [B _]]].
    destruct (Z.eqb_spec q p) as [E2|E2]; [subst q; exact A|apply B; exact E2].
  - rewrite (set_discard_nonmember w p c Em). destruct (Z.eqb_spec q p) as [E2|E2]; [|reflexivity].
    subst q. symmetry. apply remove_id_notin. apply mem_false. exact Em.
Qed.

(* ---------- set_add: preservation and effect ---------- *)

Definition set_add_kids (w : world) (p c : id) : list id :=
  if kind_eqb (kindof w p) KBI && mem c (kids w p) then kids w p else remove_id c (kids w p) ++ [c].

Lemma with_par_same_par w c p : par w c = Some p -> with_par (getn w c) (Some p) = getn w c.
Proof.
  unfold par. destruct (getn w c) as [k u pa a s o nm py]. cbn [npar]. intro E. subst pa. reflexivity.
Qed.

Lemma remove_id_single_filter c l : filter (fun x => negb (mem x [c])) l = remove_id c l.
Proof.
  unfold remove_id. apply filter_ext. intro x. unfold mem. cbn [existsb]. rewrite orb_false_r. reflexivity.
Qed.

Lemma kind_parent_cases kc kp : parent_kind kc = Some kp -> kp <> KIR -> kp = KMod \/ kp = KSec \/ kp = KBI /\ is_block kc = true.
Proof.
  destruct kc; cbn [parent_kind is_block]; intros H Hn; inversion H; subst; try tauto.
Qed.

Theorem set_add_ok w known p c :
  Forest w known -> CacheInv w -> has w p = true -> has w c = true ->
  parent_kind (kindof w c) = Some (kindof w p) -> kindof w p <> KIR ->
  Forest (fst (set_add w p c)) known /\ CacheInv (fst (set_add w p c)) /\
  snd (set_add w p c) = true /\ Pres w (fst (set_add w p c)) /\
  par (fst (set_add w p c)) c = Some p /\
  kids (fst (set_add w p c)) p = set_add_kids w p c /\
  (forall q, q <> p -> kids (fst (set_add w p c)) q = remove_id c (kids w q)) /\
  (forall x, x <> c -> nodes (fst (set_add w p c)) x = nodes w x) /\
  getn (fst (set_add w p c)) c = with_par (getn w c) (Some p).
Proof.
  intros Hf Hc Hhp Hhc Hpk Hp. unfold set_add_kids.
  destruct (kind_parent_cases _ _ Hpk Hp) as [E|[E|[E Hblk]]].
  - (* module owner *)
    assert (set_add w p c = set_add1 w p c) as Heq by (unfold set_add; rewrite E; reflexivity).
    rewrite Heq. rewrite E. cbn [kind_eqb andb].
    destruct (set_add1_shape w known p c Hf Hc Hhp Hhc Hpk (or_introl E)) as [Ha Hfl].
    destruct (pre_ok w known c Hf Hc Hhc (child_not_mod _ _ Hpk Hp)) as [Hf0 [Hc0 [Hfl0 [Hpar0 [Hpres0 [Hk0 [Hn0 Hg0]]]]]]].
    set (w0 := fst (pre w c)) in *. set (w' := fst (set_add1 w p c)) in *.
    destruct (Hpres0 c) as [Hhc0 Hkc0]. destruct (Hpres0 p) as [Hhp0 Hkp0].
    assert (parent_kind (kindof w0 c) = Some (kindof w0 p)) as Hpk0 by (rewrite Hkc0, Hkp0; exact Hpk).
    assert (kindof w0 p <> KIR) as Hp0 by (rewrite Hkp0; exact Hp).
    rewrite <- Hhc0 in Hhc. rewrite <- Hhp0 in Hhp.
    destruct (attach_ok w0 known p c w' Hf0 Hc0 Hpar0 Hhc Hhp Hpk0 Hp0 Ha) as [Hf' [Hc' Hpres']].
    destruct Ha as [Hr [Hk _]].
    split; [exact Hf'|]. split; [exact Hc'|]. split; [rewrite Hfl; exact Hfl0|].
    split; [exact (pres_trans _ _ _ Hpres0 Hpres')|]. split; [apply (rp_par_same _ _ _ _ Hr)|].
    split; [rewrite Hk; rewrite upd_same; rewrite Hk0; reflexivity|].
    split; [intros q Hq; rewrite Hk; rewrite (upd_other _ _ _ _ Hq); apply Hk0|].
    split; [intros x Hx; rewrite Hr; rewrite (upd_other _ _ _ _ Hx); apply Hn0; exact Hx|].
    rewrite (rp_getn_same _ _ _ _ Hr). rewrite Hg0. reflexivity.
  - (* section owner *)
    assert (set_add w p c = set_add1 w p c) as Heq by (unfold set_add; rewrite E; reflexivity).
    rewrite Heq. rewrite E. cbn [kind_eqb andb].
    destruct (set_add1_shape w known p c Hf Hc Hhp Hhc Hpk (or_intror E)) as [Ha Hfl].
    destruct (pre_ok w known c Hf Hc Hhc (child_not_mod _ _ Hpk Hp)) as [Hf0 [Hc0 [Hfl0 [Hpar0 [Hpres0 [Hk0 [Hn0 Hg0]]]]]]].
    set (w0 := fst (pre w c)) in *. set (w' := fst (set_add1 w p c)) in *.
    destruct (Hpres0 c) as [Hhc0 Hkc0]. destruct (Hpres0 p) as [Hhp0 Hkp0].
    assert (parent_kind (kindof w0 c) = Some (kindof w0 p)) as Hpk0 by (rewrite Hkc0, Hkp0; exact Hpk).
    assert (kindof w0 p <> KIR) as Hp0 by (rewrite Hkp0; exact Hp).
    rewrite <- Hhc0 in Hhc. rewrite <- Hhp0 in Hhp.
    destruct (attach_ok w0 known p c w' Hf0 Hc0 Hpar0 Hhc Hhp Hpk0 Hp0 Ha) as [Hf' [Hc' Hpres']].
    destruct Ha as [Hr [Hk _]].
    split; [exact Hf'|]. split; [exact Hc'|]. split; [rewrite Hfl; exact Hfl0|].
    split; [exact (pres_trans _ _ _ Hpres0 Hpres')|]. split; [apply (rp_par_same _ _ _ _ Hr)|].
    split; [rewrite Hk; rewrite upd_same; rewrite Hk0; reflexivity|].
    split; [intros q Hq; rewrite Hk; rewrite (upd_other _ _ _ _ Hq); apply Hk0|].
    split; [intros x Hx; rewrite Hr; rewrite (upd_other _ _ _ _ Hx); apply Hn0; exact Hx|].
    rewrite (rp_getn_same _ _ _ _ Hr). rewrite Hg0. reflexivity.
  - (* byte-interval owner *)
    assert (set_add w p c = blocks_update w p [c]) as Heq by (unfold set_add; rewrite E; reflexivity).
    rewrite Heq. rewrite E. cbn [kind_eqb andb].
    destruct (blocks_update_ok w known p [c] Hf Hc Hhp E) as [Hf' [Hc' [Hfl [Hpres [Hkp [Hkq [Hnx Hgv]]]]]]].
    { intros v [Hv|[]]. subst v. tauto. }
    split; [exact Hf'|]. split; [exact Hc'|]. split; [exact Hfl|]. split; [exact Hpres|].
    destruct (mem c (kids w p)) eqn:Em.
    + assert (new_items w p [c] = []) as Hnew.
      { unfold new_items. cbn [dedup mem existsb filter]. rewrite Em. reflexivity. }
      rewrite Hnew in *. assert (par w c = Some p) as Hpc by (apply (f_two_ended _ _ Hf); apply mem_In; exact Em).
      assert (forall x, nodes (fst (blocks_update w p [c])) x = nodes w x) as Hn by (intro x; apply Hnx; intros []).
      split; [rewrite (par_ext _ _ _ (Hn c)); exact Hpc|]. split; [rewrite Hkp; apply app_nil_r|].
      split.
      { intros q Hq. rewrite (Hkq q Hq). assert (~ In c (kids w q)) as Hnq.
        { intro A. apply (f_two_ended _ _ Hf) in A. congruence. }
        rewrite (remove_id_notin c _ Hnq). induction (kids w q) as [|y l IH]; [reflexivity|].
        cbn [filter mem existsb negb]. f_equal. apply IH. intro A. apply Hnq. right. exact A. }
      split; [intros x _; apply Hn|]. rewrite (getn_ext _ _ _ (Hn c)). symmetry. apply with_par_same_par. exact Hpc.
    + assert (new_items w p [c] = [c]) as Hnew.
      { unfold new_items. cbn [dedup mem existsb filter]. rewrite Em. reflexivity. }
      rewrite Hnew in *.
      assert (getn (fst (blocks_update w p [c])) c = with_par (getn w c) (Some p)) as Hg by (apply Hgv; left; reflexivity).
      split; [unfold par; rewrite Hg; reflexivity|].
      split; [rewrite Hkp; rewrite (remove_id_notin c _ (proj1 (mem_false _ _) Em)); reflexivity|].
      split; [intros q Hq; rewrite (Hkq q Hq); apply remove_id_single_filter|].
      split; [|exact Hg]. intros x Hx. apply Hnx. intros [A|[]]. congruence.
Qed.

Corollary set_add_members w known p c :
  Forest w known -> CacheInv w -> has w p = true -> has w c = true ->
  parent_kind (kindof w c) = Some (kindof w p) -> kindof w p <> KIR ->
  forall x, In x (kids (fst (set_add w p c)) p) <-> In x (kids w p) \/ x = c.
Proof.
  intros Hf Hc Hhp Hhc Hpk Hp x.
  destruct (set_add_ok w known p c Hf Hc Hhp Hhc Hpk Hp) as [_ [_ [_ [_ [_ [Hk _]]]]]].
  rewrite Hk. unfold set_add_kids. destruct (kind_eqb (kindof w p) KBI && mem c (kids w p)) eqn:E.
  - apply andb_prop in E. destruct E as [_ E]. apply mem_In in E. split; [tauto|]. intros [H|H]; [exact H|subst x; exact E].
  - rewrite in_app_iff. rewrite remove_id_In. cbn [In]. split.
    + intros [[A _]|[A|[]]]; [left; exact A|right; congruence].
    + intros [A|A]; [|right; left; congruence].
      destruct (Z.eq_dec x c) as [E2|E2]; [right; left; congruence|left; tauto].
Qed.

Corollary set_add_kids_absent w p c : mem c (kids w p) = false -> set_add_kids w p c = kids w p ++ [c].
Proof.
  intro H. unfold set_add_kids. rewrite H. rewrite andb_false_r.
  rewrite (remove_id_notin c _ (proj1 (mem_false _ _) H)). reflexivity.
Qed.

(* ---------- the KeyError flags (required) ---------- *)

Lemma set_add_ir w p c : kindof w p = KIR -> set_add w p c = (w, true).
Proof. intro E. unfold set_add. rewrite E. unfold set_add1. rewrite E. reflexivity. Qed.

Theorem f1_no_keyerror : forall w known p c, Forest w known -> CacheInv w -> has w p = true -> has w c = true ->
  parent_kind (kindof w c) = Some (kindof w p) -> snd (set_discard w p c) = true /\ snd (set_add w p c) = true.
Proof.
  intros w known p c Hf Hc Hhp Hhc Hpk. split.
  - apply (set_discard_preserves w known p c Hf Hc).
  - destruct (kind_eq_dec (kindof w p) KIR) as [E|E].
    + rewrite (set_add_ir w p c E). reflexivity.
    + apply (set_add_ok w known p c Hf Hc Hhp Hhc Hpk E).
Qed.

Theorem f1_no_keyerror_blocks : forall w known bi items, Forest w known -> CacheInv w ->
  has w bi = true -> kindof w bi = KBI ->
  (forall v, In v items -> has w v = true /\ is_block (kindof w v) = true) ->
  snd (blocks_update w bi items) = true.
Proof.
  intros w known bi items Hf Hc Hhb Hbk Hitems.
  apply (blocks_update_ok w known bi items Hf Hc Hhb Hbk Hitems).
Qed.

(* ---------- attribute operations ---------- *)

Definition keeps_skel (f : node -> node) : Prop :=
  forall x, nk (f x) = nk x /\ nuuid (f x) = nuuid x /\ npar (f x) = npar x.

Lemma setn_skel w w' b f :
  (forall x, nodes w' x = upd (nodes w) b (Some (f (getn w b))) x) -> kids w' = kids w -> cache w' = cache w ->
  keeps_skel f -> has w b = true -> SameSkel w w'.
Proof.
  intros Hn Hk Hc Hf Hb. split; [|split].
  - intro x. rewrite Hk. reflexivity.
  - intro x. rewrite Hc. reflexivity.
  - intro x. destruct (Z.eq_dec x b) as [E|E].
    + subst x. unfold has at 1. unfold getn at 1 3 5. rewrite Hn. rewrite upd_same. rewrite Hb.
      destruct (Hf (getn w b)) as [A [B C]]. repeat split; assumption.
    + assert (nodes w' x = nodes w x) as Hx by (rewrite Hn; apply upd_other; exact E).
      rewrite (has_ext _ _ _ Hx). rewrite (getn_ext _ _ _ Hx). repeat split; reflexivity.
Qed.

Lemma bi_attr_skel w b f : keeps_skel f -> has w b = true -> SameSkel w (bi_attr w b f).
Proof.
  intros Hf Hb. unfold bi_attr. destruct (par w b) as [s|];
  apply (setn_skel w _ b f); try exact Hf; try exact Hb; try reflexivity; intro x; reflexivity.
Qed.

Lemma block_attr_skel w b f : keeps_skel f -> has w b = true -> SameSkel w (block_attr w b f).
Proof.
  intros Hf Hb. unfold block_attr. destruct (par w b) as [s|];
  apply (setn_skel w _ b f); try exact Hf; try exact Hb; try reflexivity; intro x; reflexivity.
Qed.

Lemma sym_attr_skel w s f : keeps_skel f -> has w s = true -> SameSkel w (sym_attr w s f).
Proof.
  intros Hf Hb. unfold sym_attr. destruct (par w s) as [m|].
  - apply (setn_skel w _ s f); try exact Hf; try exact Hb.
    + intro x. rewrite mia_nodes. unfold setn. cbn [nodes set_nodes]. unfold getn. rewrite mid_nodes. reflexivity.
    + rewrite mia_kids. unfold setn. cbn [kids set_nodes]. apply mid_kids.
    + rewrite mia_cache. unfold setn. cbn [cache set_nodes]. apply mid_cache.
  - apply (setn_skel w _ s f); try exact Hf; try exact Hb; reflexivity.
Qed.

Lemma keeps_addr a : keeps_skel (fun x => with_addr x a).
Proof. intro x. repeat split; reflexivity. Qed.
Lemma keeps_size s : keeps_skel (fun x => with_size x s).
Proof. intro x. repeat split; reflexivity. Qed.
Lemma keeps_off o : keeps_skel (fun x => with_off x o).
Proof. intro x. repeat split; reflexivity. Qed.
Lemma keeps_name n : keeps_skel (fun x => with_name x n).
Proof. intro x. repeat split; reflexivity. Qed.
Lemma keeps_pay p : keeps_skel (fun x => with_pay x p).
Proof. intro x. repeat split; reflexivity. Qed.

Lemma symx_upd_skel w bi d : SameSkel w (symx_upd w bi d).
Proof. apply skel_nodes; reflexivity. Qed.

Lemma force_skel w n : SameSkel w (fst (force w n)).
Proof.
  unfold force. destruct (lt_get (cur_ivs w n) (length (kids w n)) (tree w n)) as [t idx]. cbn [fst].
  apply skel_nodes; reflexivity.
Qed.

Lemma is_k_has w n k : is_k w n k = true -> has w n = true.
Proof. unfold is_k. intro H. apply andb_prop in H. tauto. Qed.

(* ---------- typing guard consequences ---------- *)

Lemma kinds_eqb_eq a : forall b, kinds_eqb a b = true -> a = b.
Proof.
  induction a as [|x a IH]; intros [|y b] H; try reflexivity; try discriminate H.
  unfold kinds_eqb in H. cbn [length Nat.eqb combine forallb fst snd] in H.
  apply andb_prop in H. destruct H as [H1 H2]. apply andb_prop in H2. destruct H2 as [H2 H3].
  apply kind_eqb_eq in H2. subst y. f_equal. apply IH. unfold kinds_eqb. rewrite H1. rewrite H3. reflexivity.
Qed.

Lemma field_ok_parent ko fk k :
  field_ok ko fk = true -> existsb (kind_eqb k) fk = true -> parent_kind k = Some ko /\ ko <> KIR.
Proof.
  intros Hf Hk. destruct ko; cbn [field_ok] in Hf; try discriminate Hf.
  - apply orb_prop in Hf. destruct Hf as [Hf|Hf]; [apply orb_prop in Hf; destruct Hf as [Hf|Hf]|];
    apply kinds_eqb_eq in Hf; subst fk; cbn [existsb] in Hk; rewrite orb_false_r in Hk;
    apply kind_eqb_eq in Hk; subst k; split; try reflexivity; discriminate.
  - apply kinds_eqb_eq in Hf. subst fk. cbn [existsb] in Hk. rewrite orb_false_r in Hk.
    apply kind_eqb_eq in Hk. subst k. split; [reflexivity|discriminate].
  - apply kinds_eqb_eq in Hf. subst fk. cbn [existsb] in Hk. rewrite orb_false_r in Hk.
    apply orb_prop in Hk. destruct Hk as [Hk|Hk]; apply kind_eqb_eq in Hk; subst k; split; try reflexivity; discriminate.
Qed.

Lemma member_ok_child w p fk c :
  field_ok (kindof w p) fk = true -> member_ok w fk c = true ->
  has w c = true /\ parent_kind (kindof w c) = Some (kindof w p) /\ kindof w p <> KIR.
Proof.
  intros Hf Hm. unfold member_ok in Hm. apply andb_prop in Hm. destruct Hm as [Hm1 Hm2].
  destruct (field_ok_parent _ _ _ Hf Hm2) as [A B]. tauto.
Qed.

Lemma member_ok_pres w w' fk c : Pres w w' -> member_ok w' fk c = member_ok w fk c.
Proof. intro H. unfold member_ok. destruct (H c) as [A B]. rewrite A, B. reflexivity. Qed.

(* ---------- the invariant bundle carried through compound methods ---------- *)

Definition Good (known : list id) (w0 w : world) : Prop := Forest w known /\ CacheInv w /\ Pres w0 w.

Lemma good_discard known w0 w p c : Good known w0 w ->
  Good known w0 (fst (set_discard w p c)) /\ snd (set_discard w p c) = true.
Proof.
  intros [Hf [Hc Hp]]. destruct (set_discard_preserves w known p c Hf Hc) as [A [B [C D]]].
  split; [|exact C]. split; [exact A|]. split; [exact B|]. exact (pres_trans _ _ _ Hp D).
Qed.

Lemma good_add known w0 w p fk c : Good known w0 w ->
  has w0 p = true -> field_ok (kindof w0 p) fk = true -> member_ok w0 fk c = true ->
  Good known w0 (fst (set_add w p c)) /\ snd (set_add w p c) = true.
Proof.
  intros [Hf [Hc Hp]] Hhp Hfk Hm.
  destruct (Hp p) as [Hhp' Hkp']. rewrite <- Hhp' in Hhp. rewrite <- Hkp' in Hfk.
  rewrite <- (member_ok_pres w0 w fk c Hp) in Hm.
  destruct (member_ok_child w p fk c Hfk Hm) as [Hhc [Hpk Hpi]].
  destruct (set_add_ok w known p c Hf Hc Hhp Hhc Hpk Hpi) as [A [B [C [D _]]]].
  split; [|exact C]. split; [exact A|]. split; [exact B|]. exact (pres_trans _ _ _ Hp D).
Qed.

Lemma fold_ok_acc (f : world -> id -> world * bool) l : forall w ok,
  fold_left (fun (st : world * bool) v => let '(w, ok) := st in let '(w', ok') := f w v in (w', ok && ok')) l (w, ok) =
  (fst (fold_ok f l w), ok && snd (fold_ok f l w)).
Proof.
  unfold fold_ok. induction l as [|v l IH]; intros w ok; cbn [fold_left].
  - cbn [fst snd]. rewrite andb_true_r. reflexivity.
  - destruct (f w v) as [w' ok'] eqn:E. rewrite (IH w' (ok && ok')). rewrite (IH w' (true && ok')).
    cbn [fst snd]. rewrite andb_assoc. reflexivity.
Qed.

Lemma fold_ok_cons f v l w :
  fold_ok f (v :: l) w = (fst (fold_ok f l (fst (f w v))), snd (f w v) && snd (fold_ok f l (fst (f w v)))).
Proof.
  unfold fold_ok at 1. cbn [fold_left]. destruct (f w v) as [w' ok'] eqn:E. rewrite fold_ok_acc. reflexivity.
Qed.

Lemma fold_ok_nil f w : fold_ok f [] w = (w, true).
Proof. reflexivity. Qed.

Lemma fold_ok_inv (P : world -> Prop) f l :
  (forall w v, P w -> In v l -> P (fst (f w v)) /\ snd (f w v) = true) ->
  forall w, P w -> P (fst (fold_ok f l w)) /\ snd (fold_ok f l w) = true.
Proof.
  induction l as [|v l IH]; intros Hstep w Hw.
  - rewrite fold_ok_nil. split; [exact Hw|reflexivity].
  - rewrite fold_ok_cons. cbn [fst snd]. destruct (Hstep w v Hw (or_introl eq_refl)) as [A B].
    destruct (IH (fun w' v' Hw' Hv' => Hstep w' v' Hw' (or_intror Hv')) _ A) as [C D].
    split; [exact C|]. rewrite B, D. reflexivity.
Qed.

Lemma flagged_true r : snd r = true -> flagged r = Ok (fst r).
Proof. destruct r as [w b]. cbn [fst snd]. intro E. subst b. reflexivity. Qed.

Lemma good_refl known w : Forest w known -> CacheInv w -> Good known w w.
Proof. intros Hf Hc. split; [exact Hf|]. split; [exact Hc|apply pres_refl]. Qed.

Lemma forallb_concat {A} (f : A -> bool) (ll : list (list A)) :
  forallb (forallb f) ll = true -> forall x, In x (concat ll) -> f x = true.
Proof.
  intros H x Hx. apply in_concat in Hx. destruct Hx as [l [Hl Hx]].
  rewrite forallb_forall in H. specialize (H l Hl). rewrite forallb_forall in H. apply H. exact Hx.
Qed.

Lemma member_ok_block w c : member_ok w [KCode; KData] c = true -> has w c = true /\ is_block (kindof w c) = true.
Proof.
  unfold member_ok. intro H. apply andb_prop in H. destruct H as [A B]. split; [exact A|].
  cbn [existsb] in B. rewrite orb_false_r in B. destruct (kindof w c); cbn [kind_eqb orb] in B; try discriminate B; reflexivity.
Qed.

(* ---------- OSet ---------- *)

Lemma oset_guard w known p fk m args : op_okb w known (OSet p fk m args) = true ->
  has w p = true /\ field_ok (kindof w p) fk = true /\ forallb (forallb (member_ok w fk)) args = true /\
  match m with
  | SAdd | SDiscard | SRemove => match args with [[_]] => true | _ => false end
  | SPop => match args with [] | [[]] | [[_]] => true | _ => false end
  | SClear => true
  | SUpdate => true
  | SIor | SIand | SIsub | SIxor => match args with [_] => true | _ => false end
  end = true.
Proof.
  cbn [op_okb]. intro H. apply andb_prop in H. destruct H as [H H4]. apply andb_prop in H. destruct H as [H H3].
  apply andb_prop in H. destruct H as [H1 H2]. tauto.
Qed.

Lemma good_fold_discard known w0 p l : forall w, Good known w0 w ->
  Good known w0 (fst (fold_ok (fun w c => set_discard w p c) l w)) /\
  snd (fold_ok (fun w c => set_discard w p c) l w) = true.
Proof.
  apply (fold_ok_inv (Good known w0) (fun w c => set_discard w p c) l).
  intros w v Hw _. apply good_discard. exact Hw.
Qed.

Lemma good_fold_add known w0 p fk l :
  has w0 p = true -> field_ok (kindof w0 p) fk = true -> (forall c, In c l -> member_ok w0 fk c = true) ->
  forall w, Good known w0 w ->
  Good known w0 (fst (fold_ok (fun w c => set_add w p c) l w)) /\
  snd (fold_ok (fun w c => set_add w p c) l w) = true.
Proof.
  intros Hhp Hfk Hl. apply (fold_ok_inv (Good known w0) (fun w c => set_add w p c) l).
  intros w v Hw Hv. apply (good_add known w0 w p fk v Hw Hhp Hfk). apply Hl. exact Hv.
Qed.

Lemma good_blocks known w p fk items :
  Forest w known -> CacheInv w -> has w p = true -> kindof w p = KBI -> field_ok (kindof w p) fk = true ->
  (forall c, In c items -> member_ok w fk c = true) ->
  Good known w (fst (blocks_update w p items)) /\ snd (blocks_update w p items) = true.
Proof.
  intros Hf Hc Hhp Hk Hfk Hl. rewrite Hk in Hfk. cbn [field_ok] in Hfk. apply kinds_eqb_eq in Hfk. subst fk.
  destruct (blocks_update_ok w known p items Hf Hc Hhp Hk) as [A [B [C [D _]]]].
  { intros v Hv. apply member_ok_block. apply Hl. exact Hv. }
  split; [|exact C]. split; [exact A|]. split; [exact B|exact D].
Qed.

Ltac finish_flag H Hg :=
  rewrite (flagged_true _ (proj2 Hg)) in H; injection H as H; subst; exact (proj1 Hg).

Lemma do_set_good w known p fk m args w' :
  Forest w known -> CacheInv w -> op_okb w known (OSet p fk m args) = true ->
  do_set w p fk m args = Ok w' -> Good known w w'.
Proof.
  intros Hf Hc Hg H. destruct (oset_guard _ _ _ _ _ _ Hg) as [Hhp [Hfk [Hargs Hshape]]].
  pose proof (good_refl known w Hf Hc) as Hg0.
  assert (Hall : forall c, In c (concat args) -> member_ok w fk c = true) by (apply forallb_concat; exact Hargs).
  unfold do_set in H. destruct m.
  - (* SAdd *)
    destruct args as [|[|c [|c2 l]] [|l2 ll]]; try discriminate Hshape.
    pose proof (good_add known w w p fk c Hg0 Hhp Hfk (Hall c (or_introl eq_refl))) as Hr. finish_flag H Hr.
  - (* SDiscard *)
    destruct args as [|[|c [|c2 l]] [|l2 ll]]; try discriminate Hshape.
    pose proof (good_discard known w w p c Hg0) as Hr. finish_flag H Hr.
  - (* SRemove *)
    destruct args as [|[|c [|c2 l]] [|l2 ll]]; try discriminate Hshape.
    destruct (mem c (field w p fk)); [|discriminate H].
    pose proof (good_discard known w w p c Hg0) as Hr. finish_flag H Hr.
  - (* SPop *)
    destruct (field w p fk) as [|y cur] eqn:Ecur; [discriminate H|].
    destruct args as [|[|c [|c2 l]] ll]; try discriminate H.
    destruct (mem c (y :: cur)); [|discriminate H].
    pose proof (good_discard known w w p c Hg0) as Hr. finish_flag H Hr.
  - (* SClear *)
    pose proof (good_fold_discard known w p (field w p fk) w Hg0) as Hr. finish_flag H Hr.
  - (* SUpdate *)
    destruct (kind_eq_dec (kindof w p) KBI) as [E|E].
    + rewrite E in H. pose proof (good_blocks known w p fk (concat args) Hf Hc Hhp E Hfk Hall) as Hr. finish_flag H Hr.
    + pose proof (good_fold_add known w p fk (concat args) Hhp Hfk Hall w Hg0) as Hr.
      destruct (kindof w p); try (finish_flag H Hr). contradiction.
  - (* SIor *)
    destruct args as [|a [|l2 ll]]; try discriminate Hshape.
    assert (Ha : forall c, In c a -> member_ok w fk c = true).
    { intros c Hc'. apply Hall. cbn [concat]. rewrite app_nil_r. exact Hc'. }
    pose proof (good_fold_add known w p fk a Hhp Hfk Ha w Hg0) as Hr. finish_flag H Hr.
  - (* SIand *)
    destruct args as [|a [|l2 ll]]; try discriminate Hshape.
    pose proof (good_fold_discard known w p (filter (fun c => negb (mem c a)) (field w p fk)) w Hg0) as Hr.
    finish_flag H Hr.
  - (* SIsub *)
    destruct args as [|a [|l2 ll]]; try discriminate Hshape.
    pose proof (good_fold_discard known w p a w Hg0) as Hr. finish_flag H Hr.
  - (* SIxor *)
    destruct args as [|a [|l2 ll]]; try discriminate Hshape.
    assert (Ha : forall c, In c (dedup a) -> member_ok w fk c = true).
    { intros c Hc'. apply Hall. cbn [concat]. rewrite app_nil_r. apply dedup_In. exact Hc'. }
    cbv zeta in H.
    pose proof (good_fold_discard known w p (filter (fun c => mem c (field w p fk)) (dedup a)) w Hg0) as Hr1.
    destruct (fold_ok (fun w c => set_discard w p c) (filter (fun c => mem c (field w p fk)) (dedup a)) w)
      as [w1 ok1].
    cbn [fst snd] in Hr1. destruct Hr1 as [Hg1 Hok1].
    assert (Ha2 : forall c, In c (filter (fun c => negb (mem c (field w p fk))) (dedup a)) -> member_ok w fk c = true).
    { intros c Hc'. apply filter_In in Hc'. apply Ha. apply Hc'. }
    pose proof (good_fold_add known w p fk _ Hhp Hfk Ha2 w1 Hg1) as Hr2.
    destruct (fold_ok (fun w c => set_add w p c) (filter (fun c => negb (mem c (field w p fk))) (dedup a)) w1)
      as [w2 ok2].
    cbn [fst snd] in Hr2. destruct Hr2 as [Hg2 Hok2].
    subst ok1 ok2. cbn in H. injection H as H. subst w'. exact Hg2.
Qed.

(* ---------- OSetParent (non-module child) ---------- *)

Lemma do_setparent_eq w c p : kindof w c <> KMod -> kindof w c <> KIR ->
  do_setparent w c p =
  (do w1 <- match par w c with Some old => flagged (set_discard w old c) | None => Ok w end;
   match p with Some q => flagged (set_add w1 q c) | None => Ok w1 end).
Proof. intros H1 H2. unfold do_setparent. destruct (kindof w c); try reflexivity; contradiction. Qed.

Lemma do_setparent_good w known c p w' :
  Forest w known -> CacheInv w -> op_okb w known (OSetParent c p) = true -> kindof w c <> KMod ->
  do_setparent w c p = Ok w' -> Good known w w'.
Proof.
  intros Hf Hc Hg Hnm H. cbn [op_okb] in Hg. apply andb_prop in Hg. destruct Hg as [Hg Hq].
  apply andb_prop in Hg. destruct Hg as [Hhc Hni].
  assert (kindof w c <> KIR) as Hnir.
  { intro E. rewrite E in Hni. discriminate Hni. }
  rewrite (do_setparent_eq w c p Hnm Hnir) in H.
  pose proof (good_refl known w Hf Hc) as Hg0.
  assert (exists w1, match par w c with Some old => flagged (set_discard w old c) | None => Ok w end = Ok w1 /\ Good known w w1)
    as [w1 [E1 Hg1]].
  { destruct (par w c) as [old|].
    - pose proof (good_discard known w w old c Hg0) as Hr. exists (fst (set_discard w old c)).
      split; [apply flagged_true; apply Hr|apply Hr].
    - exists w. split; [reflexivity|exact Hg0]. }
  rewrite E1 in H. cbn [bind] in H. destruct p as [q|].
  - apply andb_prop in Hq. destruct Hq as [Hhq Hkq].
    destruct (parent_kind (kindof w c)) as [k|] eqn:Epk; [|discriminate Hkq]. apply kind_eqb_eq in Hkq.
    destruct Hg1 as [Hf1 [Hc1 Hp1]].
    destruct (Hp1 c) as [Hhc1 Hkc1]. destruct (Hp1 q) as [Hhq1 Hkq1].
    assert (kindof w q <> KIR) as Hqi.
    { intro E. rewrite E in Hkq. subst k. destruct (kindof w c); cbn [parent_kind] in Epk; try discriminate Epk. apply Hnm. reflexivity. }
    destruct (set_add_ok w1 known q c Hf1 Hc1) as [A [B [C [D _]]]].
    + rewrite Hhq1. exact Hhq.
    + rewrite Hhc1. exact Hhc.
    + rewrite Hkc1, Hkq1. rewrite Epk. rewrite Hkq. reflexivity.
    + rewrite Hkq1. exact Hqi.
    + rewrite (flagged_true _ C) in H. injection H as H. subst w'.
      split; [exact A|]. split; [exact B|]. exact (pres_trans _ _ _ Hp1 D).
  - injection H as H. subst w'. exact Hg1.
Qed.

(* ---------- the main theorem ---------- *)

Definition F1 (w : world) (o : op) : Prop :=
  match o with
  | OSet _ _ _ _ | OAttrAddr _ _ | OAttrSize _ _ | OAttrOff _ _ | OAttrName _ _ | OAttrPay _ _
  | OSymxSet _ _ _ | OSymxDel _ _ | OSymxPop _ _ | OSymxPopitem _ | OSymxSetdefault _ _ _
  | OSymxUpdate _ _ | OSymxClear _ | OSymxAssign _ _ | OTouch _ => True
  | OSetParent c _ => kindof w c <> KMod
  | _ => False
  end.

Lemma skel_both w w' known : SameSkel w w' -> Forest w known -> CacheInv w -> Forest w' known /\ CacheInv w'.
Proof. intros Hs Hf Hc. split; [exact (skel_forest _ _ _ Hs Hf)|exact (skel_cache _ _ Hs Hc)]. Qed.

Theorem f1_preserves : forall w known o,
  Forest w known -> CacheInv w -> op_okb w known o = true -> F1 w o ->
  Forest (step' w o) known /\ CacheInv (step' w o).
Proof.
  intros w known o Hf Hc Hg HF. unfold step'. destruct o; cbn [F1] in HF; try contradiction; cbn [step].
  - (* OSetParent *)
    destruct (do_setparent w c p) as [w'|e] eqn:E; [|tauto].
    destruct (do_setparent_good w known c p w' Hf Hc Hg HF E) as [A [B _]]. tauto.
  - (* OSet *)
    destruct (do_set w p fk m args) as [w'|e] eqn:E; [|tauto].
    destruct (do_set_good w known p fk m args w' Hf Hc Hg E) as [A [B _]]. tauto.
  - (* OAttrAddr *)
    cbn [op_okb] in Hg. apply (skel_both w _ known (bi_attr_skel w bi _ (keeps_addr a) (is_k_has _ _ _ Hg)) Hf Hc).
  - (* OAttrSize *)
    cbn [op_okb] in Hg. apply andb_prop in Hg. destruct Hg as [Hg _]. apply andb_prop in Hg. destruct Hg as [Hh _].
    destruct (kindof w n);
      try (apply (skel_both w _ known (block_attr_skel w n _ (keeps_size s) Hh) Hf Hc)).
    apply (skel_both w _ known (bi_attr_skel w n _ (keeps_size s) Hh) Hf Hc).
  - (* OAttrOff *)
    cbn [op_okb] in Hg. apply andb_prop in Hg. destruct Hg as [Hg _]. apply andb_prop in Hg. destruct Hg as [Hh _].
    apply (skel_both w _ known (block_attr_skel w b _ (keeps_off o) Hh) Hf Hc).
  - (* OAttrName *)
    cbn [op_okb] in Hg. apply (skel_both w _ known (sym_attr_skel w s _ (keeps_name nm) (is_k_has _ _ _ Hg)) Hf Hc).
  - (* OAttrPay *)
    cbn [op_okb] in Hg. apply andb_prop in Hg. destruct Hg as [Hg _].
    apply (skel_both w _ known (sym_attr_skel w s _ (keeps_pay p) (is_k_has _ _ _ Hg)) Hf Hc).
  - (* OSymxSet *) apply (skel_both w _ known (symx_upd_skel w bi _) Hf Hc).
  - (* OSymxDel *)
    destruct (dict_has Z.eqb k (symx w bi)); [|tauto]. apply (skel_both w _ known (symx_upd_skel w bi _) Hf Hc).
  - (* OSymxPop *)
    destruct (dict_has Z.eqb k (symx w bi)); [|tauto]. apply (skel_both w _ known (symx_upd_skel w bi _) Hf Hc).
  - (* OSymxPopitem *)
    destruct (symx w bi) as [|kv d]; [tauto|]. apply (skel_both w _ known (symx_upd_skel w bi _) Hf Hc).
  - (* OSymxSetdefault *)
    destruct (dict_has Z.eqb k (symx w bi)); [tauto|]. apply (skel_both w _ known (symx_upd_skel w bi _) Hf Hc).
  - (* OSymxUpdate *) apply (skel_both w _ known (symx_upd_skel w bi _) Hf Hc).
  - (* OSymxClear *) apply (skel_both w _ known (symx_upd_skel w bi _) Hf Hc).
  - (* OSymxAssign *) apply (skel_both w _ known (symx_upd_skel w bi _) Hf Hc).
  - (* OTouch *) apply (skel_both w _ known (force_skel w n) Hf Hc).
Qed.

(* ---------- effects of the compound methods (membership level) ---------- *)

Lemma fold_ok_ind (Q : list id -> world -> Prop) f l :
  (forall pre v suf w, l = pre ++ v :: suf -> Q pre w -> Q (pre ++ [v]) (fst (f w v)) /\ snd (f w v) = true) ->
  forall w, Q [] w -> Q l (fst (fold_ok f l w)) /\ snd (fold_ok f l w) = true.
Proof.
  intro Hstep.
  assert (G : forall suf pre w, l = pre ++ suf -> Q pre w ->
              Q (pre ++ suf) (fst (fold_ok f suf w)) /\ snd (fold_ok f suf w) = true).
  { induction suf as [|v suf IH]; intros pre w El Hq.
    - rewrite fold_ok_nil. rewrite app_nil_r. split; [exact Hq|reflexivity].
    - rewrite fold_ok_cons. cbn [fst snd]. destruct (Hstep pre v suf w El Hq) as [A B].
      assert (l = (pre ++ [v]) ++ suf) as El' by (rewrite <- app_assoc; exact El).
      destruct (IH (pre ++ [v]) _ El' A) as [C D]. rewrite <- app_assoc in C. cbn [app] in C.
      split; [exact C|]. rewrite B, D. reflexivity. }
  intros w Hq. exact (G l [] w eq_refl Hq).
Qed.

Definition inF (w : world) (fk : list kind) (x : id) : Prop := existsb (kind_eqb (kindof w x)) fk = true.

Lemma field_In w p fk x : In x (field w p fk) <-> In x (kids w p) /\ inF w fk x.
Proof. unfold field, inF. apply filter_In. Qed.

Lemma field_In_pres w w' p fk x : Pres w w' -> (In x (field w' p fk) <-> In x (kids w' p) /\ inF w fk x).
Proof. intro Hp. rewrite field_In. unfold inF. destruct (Hp x) as [_ A]. rewrite A. tauto. Qed.

Lemma member_ok_inF w fk c : member_ok w fk c = true -> inF w fk c.
Proof. unfold member_ok, inF. intro H. apply andb_prop in H. tauto. Qed.

Lemma good_kind_p known w0 w p fk : Good known w0 w -> field_ok (kindof w0 p) fk = true -> kindof w p <> KIR.
Proof.
  intros [_ [_ Hp]] Hfk. destruct (Hp p) as [_ A]. rewrite A. intro E. rewrite E in Hfk. discriminate Hfk.
Qed.

(* folding discard over l removes exactly the elements of l *)
Lemma fold_discard_kids known w0 p fk l :
  Forest w0 known -> CacheInv w0 -> field_ok (kindof w0 p) fk = true ->
  Good known w0 (fst (fold_ok (fun w c => set_discard w p c) l w0)) /\
  snd (fold_ok (fun w c => set_discard w p c) l w0) = true /\
  forall x, In x (kids (fst (fold_ok (fun w c => set_discard w p c) l w0)) p) <-> In x (kids w0 p) /\ ~ In x l.
Proof.
  intros Hf Hc Hfk.
  pose (Q := fun (pre : list id) (w : world) =>
               Good known w0 w /\ forall x, In x (kids w p) <-> In x (kids w0 p) /\ ~ In x pre).
  destruct (fold_ok_ind Q (fun w c => set_discard w p c) l) with (w := w0) as [[A B] C].
  - intros pre v suf w _ [Hg Hk]. destruct (good_discard known w0 w p v Hg) as [Hg' Hfl].
    split; [|exact Hfl]. split; [exact Hg'|]. intro x. destruct Hg as [Hfw [Hcw Hpw]].
    rewrite (set_discard_kids w known p v Hfw Hcw (good_kind_p known w0 w p fk (conj Hfw (conj Hcw Hpw)) Hfk) p).
    rewrite Z.eqb_refl. rewrite remove_id_In. rewrite Hk. rewrite in_app_iff. cbn [In]. split.
    + intros [[H1 H2] H3]. split; [exact H1|]. intros [H4|[H4|[]]]; [exact (H2 H4)|congruence].
    + intros [H1 H2]. split; [split; [exact H1|]|]; intro H3; apply H2; [left; exact H3|right; left; congruence].
  - split; [apply good_refl; assumption|]. intro x. cbn [In]. tauto.
  - split; [exact A|]. split; [exact C|exact B].
Qed.

(* folding add over l adds exactly the elements of l *)
Lemma fold_add_kids known w0 p fk l :
  Forest w0 known -> CacheInv w0 -> has w0 p = true -> field_ok (kindof w0 p) fk = true ->
  (forall c, In c l -> member_ok w0 fk c = true) ->
  Good known w0 (fst (fold_ok (fun w c => set_add w p c) l w0)) /\
  snd (fold_ok (fun w c => set_add w p c) l w0) = true /\
  forall x, In x (kids (fst (fold_ok (fun w c => set_add w p c) l w0)) p) <-> In x (kids w0 p) \/ In x l.
Proof.
  intros Hf Hc Hhp Hfk Hl.
  pose (Q := fun (pre : list id) (w : world) =>
               Good known w0 w /\ forall x, In x (kids w p) <-> In x (kids w0 p) \/ In x pre).
  destruct (fold_ok_ind Q (fun w c => set_add w p c) l) with (w := w0) as [[A B] C].
  - intros pre v suf w El [Hg Hk].
    assert (member_ok w0 fk v = true) as Hmv. { apply Hl. rewrite El. apply in_app_iff. right. left. reflexivity. }
    destruct (good_add known w0 w p fk v Hg Hhp Hfk Hmv) as [Hg' Hfl].
    split; [|exact Hfl]. split; [exact Hg'|]. intro x. destruct Hg as [Hfw [Hcw Hpw]].
    destruct (Hpw p) as [Hhp' Hkp']. pose proof Hfk as Hfk'. rewrite <- Hkp' in Hfk'.
    pose proof Hmv as Hmv'. rewrite <- (member_ok_pres w0 w fk v Hpw) in Hmv'.
    destruct (member_ok_child w p fk v Hfk' Hmv') as [Hhv [Hpk Hpi]].
    rewrite (set_add_members w known p v Hfw Hcw (eq_trans Hhp' Hhp) Hhv Hpk Hpi x).
    rewrite Hk. rewrite in_app_iff. cbn [In]. split.
    + intros [[H1|H1]|H1]; [left; exact H1|right; left; exact H1|right; right; left; congruence].
    + intros [H1|[H1|[H1|[]]]]; [left; left; exact H1|left; right; exact H1|right; congruence].
  - split; [apply good_refl; assumption|]. intro x. cbn [In]. tauto.
  - split; [exact A|]. split; [exact C|exact B].
Qed.

Lemma in_snoc_ne (x v : id) pre : x <> v -> (In x (pre ++ [v]) <-> In x pre).
Proof. intro H. rewrite in_app_iff. cbn [In]. split; [intros [A|[A|[]]]; [exact A|congruence]|tauto]. Qed.

Lemma in_snoc_eq (v : id) pre : In v (pre ++ [v]).
Proof. apply in_app_iff. right. left. reflexivity. Qed.

(* the symmetric difference: the members named by l are discarded first, then the new elements are added *)
Lemma ixor_kids known w0 p fk l :
  Forest w0 known -> CacheInv w0 -> has w0 p = true -> field_ok (kindof w0 p) fk = true ->
  (forall c, In c l -> member_ok w0 fk c = true) ->
  forall r1 r2,
  r1 = fold_ok (fun w c => set_discard w p c) (filter (fun c => mem c (field w0 p fk)) l) w0 ->
  r2 = fold_ok (fun w c => set_add w p c) (filter (fun c => negb (mem c (field w0 p fk))) l) (fst r1) ->
  Good known w0 (fst r2) /\ snd r1 = true /\ snd r2 = true /\
  forall x, In x (kids (fst r2) p) <-> (In x (kids w0 p) /\ ~ In x l) \/ (~ In x (kids w0 p) /\ In x l).
Proof.
  intros Hf Hc Hhp Hfk Hl r1 r2 E1 E2.
  destruct (fold_discard_kids known w0 p fk (filter (fun c => mem c (field w0 p fk)) l) Hf Hc Hfk) as [G1 [F1 K1]].
  rewrite <- E1 in G1, F1, K1.
  destruct G1 as [Hf1 [Hc1 Hp1]].
  destruct (Hp1 p) as [Hhp1 Hkp1].
  assert (Hl2 : forall c, In c (filter (fun c => negb (mem c (field w0 p fk))) l) -> member_ok (fst r1) fk c = true).
  { intros c Hin. rewrite (member_ok_pres w0 (fst r1) fk c Hp1). apply Hl. apply filter_In in Hin. apply Hin. }
  destruct (fold_add_kids known (fst r1) p fk (filter (fun c => negb (mem c (field w0 p fk))) l) Hf1 Hc1
              (eq_trans Hhp1 Hhp)) as [G2 [F2 K2]].
  { rewrite Hkp1. exact Hfk. }
  { exact Hl2. }
  rewrite <- E2 in G2, F2, K2.
  destruct G2 as [Hf2 [Hc2 Hp2]].
  split; [split; [exact Hf2|split; [exact Hc2|exact (pres_trans _ _ _ Hp1 Hp2)]]|].
  split; [exact F1|]. split; [exact F2|].
  intro x. rewrite K2, K1, !filter_In.
  assert (Hmem : In x l -> (mem x (field w0 p fk) = true <-> In x (kids w0 p))).
  { intro Hx. rewrite mem_In, field_In. pose proof (member_ok_inF w0 fk x (Hl x Hx)). tauto. }
  destruct (in_dec Z.eq_dec x l) as [Hx|Hx].
  - specialize (Hmem Hx). destruct (mem x (field w0 p fk)); cbn [negb].
    + assert (In x (kids w0 p)) by (apply Hmem; reflexivity). split; [|tauto].
      intros [[_ H1]|[_ H1]]; [exfalso; apply H1; tauto|discriminate H1].
    + assert (~ In x (kids w0 p)) by (intro H; apply Hmem in H; discriminate H). tauto.
  - tauto.
Qed.

(* ---------- per-method effect theorems for OSet (Python set semantics on the field) ---------- *)

Lemma field_ok_not_ir w p fk : field_ok (kindof w p) fk = true -> kindof w p <> KIR.
Proof. intros H E. rewrite E in H. discriminate H. Qed.

Lemma discard_field_effect w known p fk c :
  Forest w known -> CacheInv w -> kindof w p <> KIR ->
  forall x, In x (field (fst (set_discard w p c)) p fk) <-> In x (field w p fk) /\ x <> c.
Proof.
  intros Hf Hc Hp x. destruct (set_discard_preserves w known p c Hf Hc) as [_ [_ [_ Hpres]]].
  rewrite (field_In_pres w _ p fk x Hpres). rewrite (set_discard_kids w known p c Hf Hc Hp p).
  rewrite Z.eqb_refl. rewrite remove_id_In. rewrite field_In. tauto.
Qed.

Theorem oset_add_effect w known p fk c :
  Forest w known -> CacheInv w -> op_okb w known (OSet p fk SAdd [[c]]) = true ->
  exists w', step w (OSet p fk SAdd [[c]]) = Ok w' /\ Good known w w' /\
             forall x, In x (field w' p fk) <-> In x (field w p fk) \/ x = c.
Proof.
  intros Hf Hc Hg. destruct (oset_guard _ _ _ _ _ _ Hg) as [Hhp [Hfk [Hargs _]]].
  cbn [forallb] in Hargs. rewrite !andb_true_r in Hargs.
  destruct (good_add known w w p fk c (good_refl known w Hf Hc) Hhp Hfk Hargs) as [Hgood Hfl].
  exists (fst (set_add w p c)). split; [cbn [step do_set]; apply flagged_true; exact Hfl|]. split; [exact Hgood|].
  intro x. destruct Hgood as [_ [_ Hpres]]. rewrite (field_In_pres w _ p fk x Hpres).
  destruct (member_ok_child w p fk c Hfk Hargs) as [Hhc [Hpk Hpi]].
  rewrite (set_add_members w known p c Hf Hc Hhp Hhc Hpk Hpi x). rewrite field_In.
  pose proof (member_ok_inF w fk c Hargs) as HinF. split; [tauto|].
  intros [H|H]; [tauto|]. subst x. tauto.
Qed.

Theorem oset_discard_effect w known p fk c :
  Forest w known -> CacheInv w -> op_okb w known (OSet p fk SDiscard [[c]]) = true ->
  exists w', step w (OSet p fk SDiscard [[c]]) = Ok w' /\ Good known w w' /\
             forall x, In x (field w' p fk) <-> In x (field w p fk) /\ x <> c.
Proof.
  intros Hf Hc Hg. destruct (oset_guard _ _ _ _ _ _ Hg) as [Hhp [Hfk _]].
  destruct (good_discard known w w p c (good_refl known w Hf Hc)) as [Hgood Hfl].
  exists (fst (set_discard w p c)). split; [cbn [step do_set]; apply flagged_true; exact Hfl|]. split; [exact Hgood|].
  apply (discard_field_effect w known p fk c Hf Hc (field_ok_not_ir w p fk Hfk)).
Qed.

Theorem oset_remove_effect w known p fk c :
  Forest w known -> CacheInv w -> op_okb w known (OSet p fk SRemove [[c]]) = true ->
  (mem c (field w p fk) = false -> step w (OSet p fk SRemove [[c]]) = Err EKey) /\
  (mem c (field w p fk) = true ->
   exists w', step w (OSet p fk SRemove [[c]]) = Ok w' /\ Good known w w' /\
              forall x, In x (field w' p fk) <-> In x (field w p fk) /\ x <> c).
Proof.
  intros Hf Hc Hg. destruct (oset_guard _ _ _ _ _ _ Hg) as [Hhp [Hfk _]]. split; intro Em.
  - cbn [step do_set]. rewrite Em. reflexivity.
  - destruct (good_discard known w w p c (good_refl known w Hf Hc)) as [Hgood Hfl].
    exists (fst (set_discard w p c)). split; [cbn [step do_set]; rewrite Em; apply flagged_true; exact Hfl|].
    split; [exact Hgood|]. apply (discard_field_effect w known p fk c Hf Hc (field_ok_not_ir w p fk Hfk)).
Qed.

Theorem oset_pop_effect w known p fk args :
  Forest w known -> CacheInv w -> op_okb w known (OSet p fk SPop args) = true ->
  (step w (OSet p fk SPop args) = Err EKey <-> field w p fk = []) /\
  (forall c, args = [[c]] -> mem c (field w p fk) = true ->
   exists w', step w (OSet p fk SPop args) = Ok w' /\ Good known w w' /\
              forall x, In x (field w' p fk) <-> In x (field w p fk) /\ x <> c).
Proof.
  intros Hf Hc Hg. destruct (oset_guard _ _ _ _ _ _ Hg) as [Hhp [Hfk _]]. split.
  - cbn [step]. unfold do_set. destruct (field w p fk) as [|y cur] eqn:Ecur; [tauto|].
    split; [|intro H; discriminate H]. intro H. exfalso.
    destruct args as [|[|c [|c2 l]] ll]; try discriminate H.
    destruct (mem c (y :: cur)); [|discriminate H].
    destruct (good_discard known w w p c (good_refl known w Hf Hc)) as [_ Hfl].
    rewrite (flagged_true _ Hfl) in H. discriminate H.
  - intros c Ea Em. subst args.
    destruct (good_discard known w w p c (good_refl known w Hf Hc)) as [Hgood Hfl].
    exists (fst (set_discard w p c)). split.
    + cbn [step]. unfold do_set. destruct (field w p fk) as [|y cur] eqn:Ecur; [discriminate Em|].
      rewrite Em. apply flagged_true. exact Hfl.
    + split; [exact Hgood|]. apply (discard_field_effect w known p fk c Hf Hc (field_ok_not_ir w p fk Hfk)).
Qed.

Theorem oset_clear_effect w known p fk args :
  Forest w known -> CacheInv w -> op_okb w known (OSet p fk SClear args) = true ->
  exists w', step w (OSet p fk SClear args) = Ok w' /\ Good known w w' /\ field w' p fk = [].
Proof.
  intros Hf Hc Hg. destruct (oset_guard _ _ _ _ _ _ Hg) as [Hhp [Hfk _]].
  destruct (fold_discard_kids known w p fk (field w p fk) Hf Hc Hfk) as [Hgood [Hfl Hk]].
  eexists. split; [cbn [step do_set]; apply flagged_true; exact Hfl|]. split; [exact Hgood|].
  destruct Hgood as [_ [_ Hpres]].
  set (w' := fst (fold_ok (fun w c => set_discard w p c) (field w p fk) w)) in *.
  destruct (field w' p fk) as [|y l] eqn:E; [reflexivity|]. exfalso.
  assert (In y (field w' p fk)) as Hin.
  { rewrite E. left. reflexivity. }
  rewrite (field_In_pres w w' p fk y Hpres) in Hin. destruct Hin as [H1 H2]. apply Hk in H1.
  destruct H1 as [H1 H3]. apply H3. apply field_In. tauto.
Qed.

Theorem oset_update_effect w known p fk args :
  Forest w known -> CacheInv w -> op_okb w known (OSet p fk SUpdate args) = true ->
  exists w', step w (OSet p fk SUpdate args) = Ok w' /\ Good known w w' /\
             forall x, In x (field w' p fk) <-> In x (field w p fk) \/ In x (concat args).
Proof.
  intros Hf Hc Hg. destruct (oset_guard _ _ _ _ _ _ Hg) as [Hhp [Hfk [Hargs _]]].
  assert (Hall : forall c, In c (concat args) -> member_ok w fk c = true) by (apply forallb_concat; exact Hargs).
  assert (Hfin : forall w', Good known w w' ->
            (forall x, In x (kids w' p) <-> In x (kids w p) \/ In x (concat args)) ->
            forall x, In x (field w' p fk) <-> In x (field w p fk) \/ In x (concat args)).
  { intros w' [_ [_ Hpres]] Hk x. rewrite (field_In_pres w w' p fk x Hpres). rewrite Hk. rewrite field_In.
    split; [tauto|]. intros [H|H]; [tauto|]. pose proof (member_ok_inF w fk x (Hall x H)). tauto. }
  destruct (kind_eq_dec (kindof w p) KBI) as [E|E].
  - destruct (good_blocks known w p fk (concat args) Hf Hc Hhp E Hfk Hall) as [Hgood Hfl].
    exists (fst (blocks_update w p (concat args))).
    split; [cbn [step do_set]; rewrite E; apply flagged_true; exact Hfl|]. split; [exact Hgood|].
    apply (Hfin _ Hgood). intro x.
    pose proof Hfk as Hfk2. rewrite E in Hfk2. cbn [field_ok] in Hfk2. apply kinds_eqb_eq in Hfk2. subst fk.
    destruct (blocks_update_ok w known p (concat args) Hf Hc Hhp E) as [_ [_ [_ [_ [Hk _]]]]].
    { intros v Hv. apply member_ok_block. apply Hall. exact Hv. }
    rewrite Hk. rewrite in_app_iff. rewrite new_items_In.
    destruct (in_dec Z.eq_dec x (kids w p)) as [Hin|Hin]; tauto.
  - destruct (fold_add_kids known w p fk (concat args) Hf Hc Hhp Hfk Hall) as [Hgood [Hfl Hk]].
    exists (fst (fold_ok (fun w c => set_add w p c) (concat args) w)). split.
    + cbn [step do_set]. destruct (kindof w p); try (apply flagged_true; exact Hfl). contradiction.
    + split; [exact Hgood|]. apply (Hfin _ Hgood Hk).
Qed.

Theorem oset_ior_effect w known p fk a :
  Forest w known -> CacheInv w -> op_okb w known (OSet p fk SIor [a]) = true ->
  exists w', step w (OSet p fk SIor [a]) = Ok w' /\ Good known w w' /\
             forall x, In x (field w' p fk) <-> In x (field w p fk) \/ In x a.
Proof.
  intros Hf Hc Hg. destruct (oset_guard _ _ _ _ _ _ Hg) as [Hhp [Hfk [Hargs _]]].
  assert (Hall : forall c, In c a -> member_ok w fk c = true).
  { intros c Hc'. apply (forallb_concat _ _ Hargs). cbn [concat]. rewrite app_nil_r. exact Hc'. }
  destruct (fold_add_kids known w p fk a Hf Hc Hhp Hfk Hall) as [Hgood [Hfl Hk]].
  exists (fst (fold_ok (fun w c => set_add w p c) a w)).
  split; [cbn [step do_set]; apply flagged_true; exact Hfl|]. split; [exact Hgood|].
  intro x. destruct Hgood as [_ [_ Hpres]]. rewrite (field_In_pres w _ p fk x Hpres). rewrite Hk. rewrite field_In.
  split; [tauto|]. intros [H|H]; [tauto|]. pose proof (member_ok_inF w fk x (Hall x H)). tauto.
Qed.

Theorem oset_iand_effect w known p fk a :
  Forest w known -> CacheInv w -> op_okb w known (OSet p fk SIand [a]) = true ->
  exists w', step w (OSet p fk SIand [a]) = Ok w' /\ Good known w w' /\
             forall x, In x (field w' p fk) <-> In x (field w p fk) /\ In x a.
Proof.
  intros Hf Hc Hg. destruct (oset_guard _ _ _ _ _ _ Hg) as [Hhp [Hfk _]].
  destruct (fold_discard_kids known w p fk (filter (fun c => negb (mem c a)) (field w p fk)) Hf Hc Hfk) as [Hgood [Hfl Hk]].
  eexists. split; [cbn [step do_set]; apply flagged_true; exact Hfl|]. split; [exact Hgood|].
  intro x. destruct Hgood as [_ [_ Hpres]]. rewrite (field_In_pres w _ p fk x Hpres). rewrite Hk.
  rewrite filter_In. rewrite !field_In. destruct (mem x a) eqn:Em; cbn [negb].
  - apply mem_In in Em. split; [tauto|]. intros [[H1 H2] _]. split; [split; [exact H1|]|exact H2].
    intros [_ H3]. discriminate H3.
  - apply mem_false in Em. split; [|tauto]. intros [[H1 H3] H2]. exfalso. apply H3. tauto.
Qed.

Theorem oset_isub_effect w known p fk a :
  Forest w known -> CacheInv w -> op_okb w known (OSet p fk SIsub [a]) = true ->
  exists w', step w (OSet p fk SIsub [a]) = Ok w' /\ Good known w w' /\
             forall x, In x (field w' p fk) <-> In x (field w p fk) /\ ~ In x a.
Proof.
  intros Hf Hc Hg. destruct (oset_guard _ _ _ _ _ _ Hg) as [Hhp [Hfk _]].
  destruct (fold_discard_kids known w p fk a Hf Hc Hfk) as [Hgood [Hfl Hk]].
  eexists. split; [cbn [step do_set]; apply flagged_true; exact Hfl|]. split; [exact Hgood|].
  intro x. destruct Hgood as [_ [_ Hpres]]. rewrite (field_In_pres w _ p fk x Hpres). rewrite Hk. rewrite field_In. tauto.
Qed.

Theorem oset_ixor_effect w known p fk a :
  Forest w known -> CacheInv w -> op_okb w known (OSet p fk SIxor [a]) = true ->
  exists w', step w (OSet p fk SIxor [a]) = Ok w' /\ Good known w w' /\
             forall x, In x (field w' p fk) <-> (In x (field w p fk) /\ ~ In x a) \/ (~ In x (field w p fk) /\ In x a).
Proof.
  intros Hf Hc Hg. destruct (oset_guard _ _ _ _ _ _ Hg) as [Hhp [Hfk [Hargs _]]].
  assert (Hall : forall c, In c (dedup a) -> member_ok w fk c = true).
  { intros c Hc'. apply (forallb_concat _ _ Hargs). cbn [concat]. rewrite app_nil_r. apply dedup_In. exact Hc'. }
  destruct (ixor_kids known w p fk (dedup a) Hf Hc Hhp Hfk Hall _ _ eq_refl eq_refl) as [Hgood [Hfl1 [Hfl2 Hk]]].
  refine (ex_intro _ _ (conj _ (conj Hgood _))).
  { cbn [step do_set]. cbv zeta. clear Hgood Hk.
    destruct (fold_ok (fun w c => set_discard w p c) (filter (fun c => mem c (field w p fk)) (dedup a)) w)
      as [w1 ok1].
    cbn [fst snd] in *.
    destruct (fold_ok (fun w c => set_add w p c) (filter (fun c => negb (mem c (field w p fk))) (dedup a)) w1)
      as [w2 ok2].
    cbn [fst snd] in *. subst ok1 ok2. reflexivity. }
  intro x. destruct Hgood as [_ [_ Hpres]]. rewrite (field_In_pres w _ p fk x Hpres). rewrite Hk. rewrite field_In.
  rewrite dedup_In. split; [tauto|]. intros [H|[H1 H2]]; [tauto|].
  pose proof (member_ok_inF w fk x (Hall x (proj2 (dedup_In x a) H2))) as HinF. tauto.
Qed.

(* ---------- effect of the parent setter on a non-module node ---------- *)

Theorem osetparent_effect w known c p :
  Forest w known -> CacheInv w -> op_okb w known (OSetParent c p) = true -> kindof w c <> KMod ->
  exists w', step w (OSetParent c p) = Ok w' /\ Good known w w' /\
    par w' c = p /\
    (forall q, kids w' q = if match p with Some q0 => q =? q0 | None => false end
                           then remove_id c (kids w q) ++ [c] else remove_id c (kids w q)) /\
    (forall x, x <> c -> nodes w' x = nodes w x) /\
    getn w' c = with_par (getn w c) p.
Proof.
  intros Hf Hc Hg Hnm. cbn [op_okb] in Hg. apply andb_prop in Hg. destruct Hg as [Hg Hq].
  apply andb_prop in Hg. destruct Hg as [Hhc Hni].
  assert (kindof w c <> KIR) as Hnir. { intro E. rewrite E in Hni. discriminate Hni. }
  cbn [step]. rewrite (do_setparent_eq w c p Hnm Hnir).
  destruct (pre_ok w known c Hf Hc Hhc Hnm) as [Hf1 [Hc1 [Hfl1 [Hpar1 [Hp1 [Hk1 [Hn1 Hg1]]]]]]].
  assert (match par w c with Some old => flagged (set_discard w old c) | None => Ok w end = Ok (fst (pre w c))) as E1.
  { unfold pre in *. destruct (par w c) as [old|]; [apply flagged_true; exact Hfl1|reflexivity]. }
  rewrite E1. cbn [bind]. set (w1 := fst (pre w c)) in *. destruct p as [q0|].
  - apply andb_prop in Hq. destruct Hq as [Hhq Hkq].
    destruct (parent_kind (kindof w c)) as [k|] eqn:Epk; [|discriminate Hkq]. apply kind_eqb_eq in Hkq.
    destruct (Hp1 c) as [Hhc1 Hkc1]. destruct (Hp1 q0) as [Hhq1 Hkq1].
    assert (kindof w q0 <> KIR) as Hqi.
    { intro E. rewrite E in Hkq. subst k. destruct (kindof w c); cbn [parent_kind] in Epk; try discriminate Epk. apply Hnm. reflexivity. }
    destruct (set_add_ok w1 known q0 c Hf1 Hc1) as [A [B [C [D [Ep [Ek [Eq [En Eg]]]]]]]].
    + rewrite Hhq1. exact Hhq.
    + rewrite Hhc1. exact Hhc.
    + rewrite Hkc1, Hkq1. rewrite Epk. rewrite Hkq. reflexivity.
    + rewrite Hkq1. exact Hqi.
    + exists (fst (set_add w1 q0 c)). split; [apply flagged_true; exact C|].
      split; [split; [exact A|]; split; [exact B|]; exact (pres_trans _ _ _ Hp1 D)|].
      split; [exact Ep|]. split; [|split].
      * intro q. destruct (Z.eqb_spec q q0) as [E|E].
        -- subst q. rewrite Ek. unfold set_add_kids.
           assert (mem c (kids w1 q0) = false) as Hm. { apply mem_false. rewrite Hk1. rewrite remove_id_In. tauto. }
           rewrite Hm. rewrite andb_false_r. rewrite (remove_id_notin c (kids w1 q0) (proj1 (mem_false _ _) Hm)).
           rewrite Hk1. reflexivity.
        -- rewrite (Eq q E). rewrite Hk1. apply remove_id_notin. rewrite remove_id_In. tauto.
      * intros x Hx. rewrite (En x Hx). apply Hn1. exact Hx.
      * rewrite Eg. rewrite Hg1. reflexivity.
  - exists w1. split; [reflexivity|]. split; [split; [exact Hf1|]; split; [exact Hc1|exact Hp1]|].
    split; [exact Hpar1|]. split; [intro q; apply Hk1|]. split; [exact Hn1|exact Hg1].
Qed.

(* has / kindof are untouched by every F1 operation *)
Lemma skel_pres w w' : SameSkel w w' -> Pres w w'.
Proof. intros [_ [_ Hn]] x. destruct (Hn x) as [A [B _]]. split; [exact A|unfold kindof; exact B]. Qed.

Theorem f1_pres : forall w known o,
  Forest w known -> CacheInv w -> op_okb w known o = true -> F1 w o -> Pres w (step' w o).
Proof.
  intros w known o Hf Hc Hg HF. unfold step'. destruct o; cbn [F1] in HF; try contradiction; cbn [step].
  - destruct (do_setparent w c p) as [w'|e] eqn:E; [|apply pres_refl].
    apply (do_setparent_good w known c p w' Hf Hc Hg HF E).
  - destruct (do_set w p fk m args) as [w'|e] eqn:E; [|apply pres_refl].
    apply (do_set_good w known p fk m args w' Hf Hc Hg E).
  - cbn [op_okb] in Hg. apply skel_pres. apply (bi_attr_skel w bi _ (keeps_addr a) (is_k_has _ _ _ Hg)).
  - cbn [op_okb] in Hg. apply andb_prop in Hg. destruct Hg as [Hg _]. apply andb_prop in Hg. destruct Hg as [Hh _].
    apply skel_pres. destruct (kindof w n); try (apply (block_attr_skel w n _ (keeps_size s) Hh)).
    apply (bi_attr_skel w n _ (keeps_size s) Hh).
  - cbn [op_okb] in Hg. apply andb_prop in Hg. destruct Hg as [Hg _]. apply andb_prop in Hg. destruct Hg as [Hh _].
    apply skel_pres. apply (block_attr_skel w b _ (keeps_off o) Hh).
  - cbn [op_okb] in Hg. apply skel_pres. apply (sym_attr_skel w s _ (keeps_name nm) (is_k_has _ _ _ Hg)).
  - cbn [op_okb] in Hg. apply andb_prop in Hg. destruct Hg as [Hg _].
    apply skel_pres. apply (sym_attr_skel w s _ (keeps_pay p) (is_k_has _ _ _ Hg)).
  - apply skel_pres. apply symx_upd_skel.
  - destruct (dict_has Z.eqb k (symx w bi)); [|apply pres_refl]. apply skel_pres. apply symx_upd_skel.
  - destruct (dict_has Z.eqb k (symx w bi)); [|apply pres_refl]. apply skel_pres. apply symx_upd_skel.
  - destruct (symx w bi) as [|kv d]; [apply pres_refl|]. apply skel_pres. apply symx_upd_skel.
  - destruct (dict_has Z.eqb k (symx w bi)); [apply pres_refl|]. apply skel_pres. apply symx_upd_skel.
  - apply skel_pres. apply symx_upd_skel.
  - apply skel_pres. apply symx_upd_skel.
  - apply skel_pres. apply symx_upd_skel.
  - apply skel_pres. apply force_skel.
Qed.

(* the attribute operations leave the whole ownership skeleton alone *)
Theorem f1_attr_skel : forall w known o,
  op_okb w known o = true ->
  match o with
  | OAttrAddr _ _ | OAttrSize _ _ | OAttrOff _ _ | OAttrName _ _ | OAttrPay _ _
  | OSymxSet _ _ _ | OSymxDel _ _ | OSymxPop _ _ | OSymxPopitem _ | OSymxSetdefault _ _ _
  | OSymxUpdate _ _ | OSymxClear _ | OSymxAssign _ _ | OTouch _ => SameSkel w (step' w o)
  | _ => True
  end.
Proof.
  intros w known o Hg. unfold step'. destruct o; try exact I; cbn [step].
  - cbn [op_okb] in Hg. apply (bi_attr_skel w bi _ (keeps_addr a) (is_k_has _ _ _ Hg)).
  - cbn [op_okb] in Hg. apply andb_prop in Hg. destruct Hg as [Hg _]. apply andb_prop in Hg. destruct Hg as [Hh _].
    destruct (kindof w n); try (apply (block_attr_skel w n _ (keeps_size s) Hh)).
    apply (bi_attr_skel w n _ (keeps_size s) Hh).
  - cbn [op_okb] in Hg. apply andb_prop in Hg. destruct Hg as [Hg _]. apply andb_prop in Hg. destruct Hg as [Hh _].
    apply (block_attr_skel w b _ (keeps_off o) Hh).
  - cbn [op_okb] in Hg. apply (sym_attr_skel w s _ (keeps_name nm) (is_k_has _ _ _ Hg)).
  - cbn [op_okb] in Hg. apply andb_prop in Hg. destruct Hg as [Hg _].
    apply (sym_attr_skel w s _ (keeps_pay p) (is_k_has _ _ _ Hg)).
  - apply symx_upd_skel.
  - destruct (dict_has Z.eqb k (symx w bi)); [|apply skel_refl]. apply symx_upd_skel.
  - destruct (dict_has Z.eqb k (symx w bi)); [|apply skel_refl]. apply symx_upd_skel.
  - destruct (symx w bi) as [|kv d]; [apply skel_refl|]. apply symx_upd_skel.
  - destruct (dict_has Z.eqb k (symx w bi)); [apply skel_refl|]. apply symx_upd_skel.
  - apply symx_upd_skel.
  - apply symx_upd_skel.
  - apply symx_upd_skel.
  - apply force_skel.
Qed.

(* ---------- the effect statements need "the owner is not an IR" ----------
   With only well-kindedness (parent_kind (kindof w c) = Some (kindof w p)) the owner may be an IR and c a module;
   set_add / set_discard are no-ops on such an owner (module lists are handled by the _ModuleList hooks), so
   "par w' c = Some p" resp. "par w' c = None" fail.  Two concrete consistent worlds witness this; all effect
   theorems above therefore carry the extra premise kindof w p <> KIR (implied by the OSet / OSetParent guards
   inside F1). *)

Definition ref_ir : node :=
  {| nk := KIR; nuuid := 10; npar := None; naddr := None; nsize := 0; noff := 0; nname := 0; npay := PNone |}.
Definition ref_mod (q : option id) : node :=
  {| nk := KMod; nuuid := 20; npar := q; naddr := None; nsize := 0; noff := 0; nname := 0; npay := PNone |}.

Definition wref (attached : bool) : world :=
  {| nodes := upd (upd (fun _ => None) 1 (Some ref_ir)) 2 (Some (ref_mod (if attached then Some 1 else None)));
     kids := if attached then upd (fun _ => []) 1 [2] else fun _ => [];
     cache := upd (fun _ => []) 1 (if attached then [(10, 1); (20, 2)] else [(10, 1)]);
     nix := fun _ => []; rix := fun _ => []; tree := fun _ => lt_empty; symx := fun _ => [] |}.

Lemma wref_getn b n :
  getn (wref b) n = if n =? 2 then ref_mod (if b then Some 1 else None) else if n =? 1 then ref_ir else dnode.
Proof. unfold getn, wref. cbn [nodes]. unfold upd. destruct (n =? 2); [reflexivity|]. destruct (n =? 1); reflexivity. Qed.

Lemma wref_has b n : has (wref b) n = (n =? 2) || (n =? 1).
Proof. unfold has, wref. cbn [nodes]. unfold upd. destruct (n =? 2); [reflexivity|]. destruct (n =? 1); reflexivity. Qed.

Lemma wref_par b c : par (wref b) c = if c =? 2 then (if b then Some 1 else None) else None.
Proof. unfold par. rewrite wref_getn. destruct (c =? 2); [reflexivity|]. destruct (c =? 1); reflexivity. Qed.

Lemma wref_kind b n : kindof (wref b) n = if n =? 2 then KMod else if n =? 1 then KIR else KSym.
Proof. unfold kindof. rewrite wref_getn. destruct (n =? 2); [reflexivity|]. destruct (n =? 1); reflexivity. Qed.

Lemma wref_kids b p : kids (wref b) p = if b then (if p =? 1 then [2] else []) else [].
Proof. unfold wref. cbn [kids]. destruct b; reflexivity. Qed.

Lemma wref_forest b : Forest (wref b) [2; 1].
Proof.
  constructor.
  - intro n. rewrite wref_has. cbn [In]. destruct (Z.eqb_spec n 2) as [E|E]; destruct (Z.eqb_spec n 1) as [E1|E1];
    cbn [orb]; split; intro H; try reflexivity; try discriminate H; try lia;
    try (destruct H as [H|[H|[]]]; congruence).
  - intros p c. rewrite wref_kids. rewrite wref_par. destruct b.
    + destruct (Z.eqb_spec p 1) as [E|E]; destruct (Z.eqb_spec c 2) as [E1|E1]; cbn [In]; split; intro H;
      try congruence; try tauto; try discriminate H;
      try (destruct H as [H|[]]; congruence); try (injection H as H; congruence).
      * subst p. reflexivity.
      * left. congruence.
    + cbn [In]. split; [intros []|]. destruct (c =? 2); intro H; discriminate H.
  - intro p. rewrite wref_kids. destruct b; [destruct (p =? 1)|]; repeat constructor. intros [].
  - intros p c. rewrite wref_par. destruct (Z.eqb_spec c 2) as [E|E]; [|intro H; discriminate H].
    destruct b; intro H; [|discriminate H]. injection H as H. subst c p. repeat split; reflexivity.
  - intros a b0 Ha Hb. rewrite !wref_getn. cbn [In] in Ha, Hb.
    destruct Ha as [Ha|[Ha|[]]]; destruct Hb as [Hb|[Hb|[]]]; subst a b0; cbn; intro H; try reflexivity; discriminate H.
Qed.

Lemma wref_cache b : CacheInv (wref b).
Proof.
  intros ir Hh Hk. rewrite wref_kind in Hk. rewrite wref_has in Hh.
  destruct (Z.eqb_spec ir 2) as [E|E]; [discriminate Hk|]. destruct (Z.eqb_spec ir 1) as [E1|E1]; [|discriminate Hk].
  subst ir. unfold reach. destruct b.
  - change (cache (wref true) 1) with [(10, 1); (20, 2)]. change (subtree (wref true) 1) with [1; 2].
    split; [cbn [map fst]; repeat constructor; cbn [In]; lia|]. intros u n. rewrite wref_getn. cbn [dict_get In].
    destruct (Z.eqb_spec 10 u) as [A|A]; [|destruct (Z.eqb_spec 20 u) as [B|B]].
    + split; [intro H; injection H as H; subst n u; split; [tauto|reflexivity]|].
      intros [[H|[H|[]]] H2]; subst n; cbn in H2; [reflexivity|lia].
    + split; [intro H; injection H as H; subst n u; split; [tauto|reflexivity]|].
      intros [[H|[H|[]]] H2]; subst n; cbn in H2; [lia|reflexivity].
    + split; [intro H; discriminate H|]. intros [[H|[H|[]]] H2]; subst n; cbn in H2; lia.
  - change (cache (wref false) 1) with [(10, 1)]. change (subtree (wref false) 1) with [1].
    split; [cbn [map fst]; repeat constructor; intros []|]. intros u n. rewrite wref_getn. cbn [dict_get In].
    destruct (Z.eqb_spec 10 u) as [A|A].
    + split; [intro H; injection H as H; subst n u; split; [tauto|reflexivity]|].
      intros [[H|[]] H2]; subst n; reflexivity.
    + split; [intro H; discriminate H|]. intros [[H|[]] H2]; subst n; cbn in H2; lia.
Qed.

Lemma set_add_effect_refuted : exists w known p c,
  Forest w known /\ CacheInv w /\ has w p = true /\ has w c = true /\
  parent_kind (kindof w c) = Some (kindof w p) /\ par (fst (set_add w p c)) c <> Some p.
Proof.
  exists (wref false), [2; 1], 1, 2. split; [apply wref_forest|]. split; [apply wref_cache|].
  split; [reflexivity|]. split; [reflexivity|]. split; [reflexivity|].
  rewrite (set_add_ir (wref false) 1 2 eq_refl). cbn [fst]. rewrite wref_par. discriminate.
Qed.

Lemma set_discard_effect_refuted : exists w known p c,
  Forest w known /\ CacheInv w /\ has w p = true /\ has w c = true /\
  parent_kind (kindof w c) = Some (kindof w p) /\ mem c (kids w p) = true /\
  par (fst (set_discard w p c)) c <> None.
Proof.
  exists (wref true), [2; 1], 1, 2. split; [apply wref_forest|]. split; [apply wref_cache|].
  split; [reflexivity|]. split; [reflexivity|]. split; [reflexivity|]. split; [reflexivity|].
  rewrite (set_discard_ir (wref true) 1 2 eq_refl). cbn [fst]. rewrite wref_par. discriminate.
Qed.

Print Assumptions f1_preserves.
Print Assumptions f1_pres.
Print Assumptions f1_attr_skel.
Print Assumptions f1_no_keyerror.
Print Assumptions f1_no_keyerror_blocks.
Print Assumptions blocks_update_ok.
Print Assumptions set_add_ok.
Print Assumptions set_add_members.
Print Assumptions set_discard_preserves.
Print Assumptions set_discard_effect.
Print Assumptions set_discard_nonmember.
Print Assumptions osetparent_effect.
Print Assumptions oset_add_effect.
Print Assumptions oset_discard_effect.
Print Assumptions oset_remove_effect.
Print Assumptions oset_pop_effect.
Print Assumptions oset_clear_effect.
Print Assumptions oset_update_effect.
Print Assumptions oset_ior_effect.
Print Assumptions oset_iand_effect.
Print Assumptions oset_isub_effect.
Print Assumptions oset_ixor_effect.
Print Assumptions set_add_effect_refuted.
Print Assumptions set_discard_effect_refuted.
