(* Generic lemmas used by ModListProofs.v: upd, frame lemmas, list and dict lemmas,
   pointwise world equality, the characterisation of reach/subtree through parent chains. *)
From Coq Require Import ZArith List Bool Lia Arith.
From V Require Import Result LazyTree World WorldGuard ForestDefs InvDefs.
Import ListNotations.
Open Scope Z_scope.

(* ---------- upd ---------- *)

Lemma upd_same {X} (f : id -> X) k v : upd f k v k = v.
Proof. unfold upd. rewrite Z.eqb_refl. reflexivity. Qed.

Lemma upd_other {X} (f : id -> X) k v x : x <> k -> upd f k v x = f x.
Proof. intro H. unfold upd. destruct (Z.eqb_spec x k) as [E|E]; [contradiction|reflexivity]. Qed.

Lemma upd_if {X} (f : id -> X) k v x : upd f k v x = if x =? k then v else f x.
Proof. reflexivity. Qed.

(* ---------- mem / remove_id ---------- *)

Lemma mem_In x l : mem x l = true <-> In x l.
Proof.
  unfold mem. rewrite existsb_exists. split.
  - intros [y [Hy He]]. apply Z.eqb_eq in He. subst. exact Hy.
  - intro H. exists x. split; [exact H|apply Z.eqb_refl].
Qed.

Lemma mem_false x l : mem x l = false <-> ~ In x l.
Proof.
  rewrite <- mem_In. destruct (mem x l).
  - split; [discriminate|intro H; exfalso; apply H; reflexivity].
  - split; [intros _ H; discriminate|reflexivity].
Qed.

Lemma In_remove_id x v l : In x (remove_id v l) <-> In x l /\ x <> v.
Proof. unfold remove_id. rewrite filter_In, negb_true_iff, Z.eqb_neq. tauto. Qed.

Lemma NoDup_remove_id v l : NoDup l -> NoDup (remove_id v l).
Proof. apply NoDup_filter. Qed.

Lemma remove_id_notin v l : ~ In v l -> remove_id v l = l.
Proof.
  induction l as [|y l IH]; intro H; [reflexivity|].
  unfold remove_id in *. cbn [filter].
  destruct (Z.eqb_spec y v) as [E|E].
  - exfalso. apply H. left. exact E.
  - cbn [negb]. f_equal. apply IH. intro H1. apply H. right. exact H1.
Qed.

Lemma remove_id_cons_same v l : remove_id v (v :: l) = remove_id v l.
Proof. unfold remove_id. cbn [filter]. rewrite Z.eqb_refl. reflexivity. Qed.

Lemma remove_id_cons_other v y l : y <> v -> remove_id v (y :: l) = y :: remove_id v l.
Proof. intro H. unfold remove_id. cbn [filter]. destruct (Z.eqb_spec y v); [contradiction|reflexivity]. Qed.

Lemma remove_id_app v a b : remove_id v (a ++ b) = remove_id v a ++ remove_id v b.
Proof. unfold remove_id. apply filter_app. Qed.

(* ---------- index_of / remove_at / insert_at / set_at ---------- *)

Lemma index_of_In v l : In v l -> exists i, index_of v l = Some i.
Proof.
  induction l as [|y l IH]; intro H; [destruct H|].
  cbn [index_of]. destruct (Z.eqb_spec y v) as [E|E].
  - exists O. reflexivity.
  - destruct H as [H|H]; [contradiction|]. destruct (IH H) as [i Hi]. exists (S i). rewrite Hi. reflexivity.
Qed.

Lemma index_of_None v l : ~ In v l -> index_of v l = None.
Proof.
  induction l as [|y l IH]; intro H; [reflexivity|].
  cbn [index_of]. destruct (Z.eqb_spec y v) as [E|E].
  - exfalso. apply H. left. exact E.
  - rewrite IH; [reflexivity|]. intro H1. apply H. right. exact H1.
Qed.

Lemma index_of_nth v l : forall i, index_of v l = Some i -> nth_error l i = Some v.
Proof.
  induction l as [|y l IH]; intros i H; [discriminate|].
  cbn [index_of] in H. destruct (Z.eqb_spec y v) as [E|E].
  - inversion H. subst. reflexivity.
  - destruct (index_of v l) as [j|] eqn:Ej; [|discriminate]. inversion H. subst. cbn [nth_error]. apply IH. reflexivity.
Qed.

Lemma remove_at_nth_nodup l : forall i v, NoDup l -> nth_error l i = Some v -> remove_at i l = remove_id v l.
Proof.
  induction l as [|y l IH]; intros i v Hn Hi.
  - destruct i; discriminate.
  - inversion Hn as [|y' l' Hy Hl]. subst. destruct i as [|i].
    + cbn in Hi. inversion Hi. subst. rewrite remove_id_cons_same. rewrite remove_id_notin by exact Hy. reflexivity.
    + cbn [nth_error] in Hi. assert (Hv : In v l) by (eapply nth_error_In; exact Hi).
      assert (y <> v) by (intro; subst; contradiction).
      rewrite remove_id_cons_other by assumption. cbn [remove_at]. f_equal. apply IH; assumption.
Qed.

Lemma In_insert_at {X} n (v : X) l : forall x, In x (insert_at n v l) <-> x = v \/ In x l.
Proof.
  revert l. induction n as [|n IH]; intros l x.
  - cbn. split; intros [H|H]; auto.
  - destruct l as [|y l]; cbn [insert_at].
    + cbn. split; intros [H|H]; auto.
    + cbn [In]. rewrite IH. split; intros [H|[H|H]]; auto.
Qed.

Lemma NoDup_insert_at {X} n (v : X) : forall l, NoDup l -> ~ In v l -> NoDup (insert_at n v l).
Proof.
  induction n as [|n IH]; intros l Hl Hv.
  - cbn. constructor; assumption.
  - destruct l as [|y l]; cbn [insert_at].
    + constructor; [intros []|constructor].
    + inversion Hl as [|y' l' Hy Hl']. subst. constructor.
      * rewrite In_insert_at. intros [H|H]; [|contradiction]. apply Hv. left. exact H.
      * apply IH; [assumption|]. intro H. apply Hv. right. exact H.
Qed.

Lemma insert_at_ge {X} (v : X) : forall l n, (length l <= n)%nat -> insert_at n v l = l ++ [v].
Proof.
  induction l as [|y l IH]; intros n H.
  - destruct n; reflexivity.
  - destruct n as [|n]; [cbn in H; lia|]. cbn [insert_at app]. f_equal. apply IH. cbn in H. lia.
Qed.

Lemma insert_at_firstn_skipn {X} (v : X) : forall n l, (n <= length l)%nat -> insert_at n v l = firstn n l ++ v :: skipn n l.
Proof.
  induction n as [|n IH]; intros l H.
  - reflexivity.
  - destruct l as [|y l]; [cbn in H; lia|]. cbn [insert_at firstn skipn app]. f_equal. apply IH. cbn in H. lia.
Qed.

Lemma set_at_same : forall (l : list id) k v, nth_error l k = Some v -> set_at k v l = l.
Proof.
  induction l as [|y l IH]; intros k v H.
  - destruct k; discriminate.
  - destruct k as [|k]; cbn in H |- *.
    + inversion H. reflexivity.
    + f_equal. apply IH. exact H.
Qed.

Lemma In_set_at_nodup : forall (l : list id) k v old x, NoDup l -> nth_error l k = Some old ->
  (In x (set_at k v l) <-> x = v \/ (In x l /\ x <> old)).
Proof.
  induction l as [|y l IH]; intros k v old x Hn Hk.
  - destruct k; discriminate.
  - inversion Hn as [|y' l' Hy Hl]. subst. destruct k as [|k]; cbn [set_at nth_error] in *.
    + inversion Hk. subst. cbn [In]. split.
      * intros [H|H]; [left; auto|]. right. split; [right; exact H|]. intro; subst; contradiction.
      * intros [H|[[H|H] H2]]; [left; auto| congruence | right; exact H].
    + cbn [In]. rewrite (IH k v old x Hl Hk).
      assert (Ho : In old l) by (eapply nth_error_In; exact Hk).
      split.
      * intros [H|[H|[H H2]]]; [|left; exact H|right; split; [right; exact H|exact H2]].
        right. split; [left; exact H|]. intro; subst; contradiction.
      * intros [H|[[H|H] H2]]; [right; left; exact H|left; exact H|right; right; split; assumption].
Qed.

Lemma NoDup_set_at : forall (l : list id) k v old, NoDup l -> nth_error l k = Some old ->
  (~ In v l \/ v = old) -> NoDup (set_at k v l).
Proof.
  induction l as [|y l IH]; intros k v old Hn Hk Hv.
  - destruct k; discriminate.
  - inversion Hn as [|y' l' Hy Hl]. subst. destruct k as [|k]; cbn [set_at nth_error] in *.
    + inversion Hk. subst. constructor; [|exact Hl]. destruct Hv as [Hv|Hv].
      * intro H. apply Hv. right. exact H.
      * subst. exact Hy.
    + assert (Ho : In old l) by (eapply nth_error_In; exact Hk).
      constructor.
      * rewrite (In_set_at_nodup l k v old y Hl Hk). intros [H|[H _]]; [|contradiction].
        subst y. destruct Hv as [Hv|Hv]; [apply Hv; left; reflexivity|]. subst. contradiction.
      * apply (IH k v old Hl Hk). destruct Hv as [Hv|Hv]; [left|right; exact Hv]. intro H. apply Hv. right. exact H.
Qed.

Lemma set_at_firstn_skipn {X} (v : X) : forall k l, (k < length l)%nat -> set_at k v l = firstn k l ++ v :: skipn (S k) l.
Proof.
  induction k as [|k IH]; intros l H.
  - destruct l as [|y l]; [cbn in H; lia|]. reflexivity.
  - destruct l as [|y l]; [cbn in H; lia|]. cbn [set_at firstn app]. change (skipn (S (S k)) (y :: l)) with (skipn (S k) l).
    f_equal. apply IH. cbn in H. lia.
Qed.

Lemma remove_at_firstn_skipn {X} : forall k (l : list X), remove_at k l = firstn k l ++ skipn (S k) l.
Proof.
  induction k as [|k IH]; intros l.
  - destruct l; reflexivity.
  - destruct l as [|y l]; [reflexivity|]. cbn [remove_at firstn app]. change (skipn (S (S k)) (y :: l)) with (skipn (S k) l).
    f_equal. apply IH.
Qed.

(* ---------- dictionaries (keys Z) ---------- *)

Lemma dict_get_set {V} (k u : Z) (v : V) d :
  dict_get Z.eqb u (dict_set Z.eqb k v d) = if k =? u then Some v else dict_get Z.eqb u d.
Proof.
  induction d as [|[k' v'] d IH].
  - reflexivity.
  - cbn [dict_set]. destruct (Z.eqb_spec k' k) as [E|E].
    + subst k'. cbn [dict_get]. destruct (k =? u); reflexivity.
    + cbn [dict_get]. rewrite IH. destruct (Z.eqb_spec k' u) as [E1|E1]; [|reflexivity].
      destruct (Z.eqb_spec k u) as [E2|E2]; [congruence|reflexivity].
Qed.

Lemma dict_get_del {V} (k u : Z) (d : list (Z * V)) :
  dict_get Z.eqb u (dict_del Z.eqb k d) = if k =? u then None else dict_get Z.eqb u d.
Proof.
  induction d as [|[k' v'] d IH].
  - cbn. destruct (k =? u); reflexivity.
  - unfold dict_del in *. cbn [filter fst]. destruct (Z.eqb_spec k' k) as [E|E]; cbn [negb].
    + rewrite IH. cbn [dict_get]. subst k'. destruct (k =? u); reflexivity.
    + cbn [dict_get]. rewrite IH. destruct (Z.eqb_spec k' u) as [E1|E1]; [|reflexivity].
      destruct (Z.eqb_spec k u) as [E2|E2]; [congruence|reflexivity].
Qed.

Lemma dict_set_keys {V} (k : Z) (v : V) d x : In x (map fst (dict_set Z.eqb k v d)) <-> x = k \/ In x (map fst d).
Proof.
  induction d as [|[k' v'] d IH].
  - cbn. split; intros [H|H]; auto.
  - cbn [dict_set]. destruct (Z.eqb_spec k' k) as [E|E].
    + subst. cbn. split; [intros [H|H]; auto|intros [H|[H|H]]; auto].
    + cbn [map fst In]. rewrite IH. split; [intros [H|[H|H]]; auto|intros [H|[H|H]]; auto].
Qed.

Lemma dict_set_nodup {V} (k : Z) (v : V) d : NoDup (map fst d) -> NoDup (map fst (dict_set Z.eqb k v d)).
Proof.
  induction d as [|[k' v'] d IH]; intro H.
  - cbn. constructor; [intros []|constructor].
  - cbn [dict_set]. cbn [map fst] in H. inversion H as [|a l Ha Hl]. subst.
    destruct (Z.eqb_spec k' k) as [E|E].
    + cbn [map fst]. constructor; assumption.
    + cbn [map fst]. constructor; [|apply IH; exact Hl].
      rewrite dict_set_keys. intros [H1|H1]; [congruence|contradiction].
Qed.

Lemma dict_del_keys {V} (k : Z) (d : list (Z * V)) x : In x (map fst (dict_del Z.eqb k d)) -> In x (map fst d).
Proof.
  unfold dict_del. rewrite !in_map_iff. intros [p [Hp Hi]]. apply filter_In in Hi. exists p. tauto.
Qed.

Lemma dict_del_nodup {V} (k : Z) (d : list (Z * V)) : NoDup (map fst d) -> NoDup (map fst (dict_del Z.eqb k d)).
Proof.
  induction d as [|[k' v'] d IH]; intro H.
  - constructor.
  - cbn [map fst] in H. inversion H as [|a l Ha Hl]. subst.
    unfold dict_del. cbn [filter fst]. destruct (negb (k' =? k)).
    + cbn [map fst]. constructor; [|apply IH; exact Hl]. intro H1. apply Ha. eapply dict_del_keys. exact H1.
    + apply IH. exact Hl.
Qed.

Lemma dict_fold_del_nodup {V} us : forall (d : list (Z * V)), NoDup (map fst d) ->
  NoDup (map fst (fold_left (fun d u => dict_del Z.eqb u d) us d)).
Proof.
  induction us as [|u us IH]; intros d H; [exact H|]. cbn [fold_left]. apply IH. apply dict_del_nodup. exact H.
Qed.

Lemma dict_get_fold_del {V} us : forall (d : list (Z * V)) u,
  dict_get Z.eqb u (fold_left (fun d u => dict_del Z.eqb u d) us d) = if mem u us then None else dict_get Z.eqb u d.
Proof.
  induction us as [|k us IH]; intros d u; [reflexivity|].
  cbn [fold_left]. rewrite IH. rewrite dict_get_del. unfold mem. cbn [existsb].
  rewrite (Z.eqb_sym u k). destruct (k =? u); cbn [orb].
  - destruct (existsb (Z.eqb u) us); reflexivity.
  - reflexivity.
Qed.

Lemma dict_fold_set_nodup (f : id -> Z) xs : forall (d : list (Z * id)), NoDup (map fst d) ->
  NoDup (map fst (fold_left (fun d x => dict_set Z.eqb (f x) x d) xs d)).
Proof.
  induction xs as [|x xs IH]; intros d H; [exact H|]. cbn [fold_left]. apply IH. apply dict_set_nodup. exact H.
Qed.

Lemma dict_get_fold_set (f : id -> Z) xs : forall (d : list (Z * id)) u n,
  (forall a b, In a xs -> In b xs -> f a = f b -> a = b) ->
  (dict_get Z.eqb u (fold_left (fun d x => dict_set Z.eqb (f x) x d) xs d) = Some n <->
   (In n xs /\ f n = u) \/ (dict_get Z.eqb u d = Some n /\ forall x, In x xs -> f x <> u)).
Proof.
  induction xs as [|x xs IH]; intros d u n Hinj.
  - cbn. split; [intro H; right; split; [exact H|intros x []]|intros [[[] _]|[H _]]; exact H].
  - cbn [fold_left]. rewrite IH.
    2:{ intros a b Ha Hb. apply Hinj; right; assumption. }
    rewrite dict_get_set. split.
    + intros [[H1 H2]|[H1 H2]].
      * left. split; [right; exact H1|exact H2].
      * destruct (Z.eqb_spec (f x) u) as [E|E].
        -- inversion H1. subst n. left. split; [left; reflexivity|exact E].
        -- right. split; [exact H1|]. intros y [Hy|Hy]; [subst; exact E|apply H2; exact Hy].
    + intros [[[H1|H1] H2]|[H1 H2]].
      * subst x. destruct (in_dec Z.eq_dec n xs) as [Hi|Hi].
        -- left. split; assumption.
        -- right. rewrite H2, Z.eqb_refl. split; [reflexivity|].
           intros y Hy Hfy. apply Hi. assert (y = n) by (apply Hinj; [right; exact Hy|left; reflexivity|congruence]).
           subst. exact Hy.
      * left. split; assumption.
      * right. destruct (Z.eqb_spec (f x) u) as [E|E].
        -- exfalso. apply (H2 x); [left; reflexivity|exact E].
        -- split; [exact H1|]. intros y Hy. apply H2. right. exact Hy.
Qed.

Lemma fold_left_ext {A B} (f g : A -> B -> A) : (forall a b, f a b = g a b) -> forall l a, fold_left f l a = fold_left g l a.
Proof. intros H l. induction l as [|b l IH]; intro a; [reflexivity|]. cbn. rewrite H. apply IH. Qed.

Lemma flat_map_ext_in {A B} (f g : A -> list B) l : (forall a, In a l -> f a = g a) -> flat_map f l = flat_map g l.
Proof.
  induction l as [|a l IH]; intro H; [reflexivity|]. cbn. rewrite (H a) by (left; reflexivity).
  f_equal. apply IH. intros b Hb. apply H. right. exact Hb.
Qed.

(* ---------- frame lemmas ---------- *)

Definition with_kids (w : world) (p : id) (L : list id) : world := set_kids w (upd (kids w) p L).

Lemma nodes_with_kids w p L : nodes (with_kids w p L) = nodes w. Proof. reflexivity. Qed.
Lemma cache_with_kids w p L : cache (with_kids w p L) = cache w. Proof. reflexivity. Qed.
Lemma kids_with_kids w p L x : kids (with_kids w p L) x = upd (kids w) p L x. Proof. reflexivity. Qed.
Lemma kids_with_kids_same w p L : kids (with_kids w p L) p = L. Proof. apply upd_same. Qed.
Lemma kids_with_kids_other w p L x : x <> p -> kids (with_kids w p L) x = kids w x. Proof. apply upd_other. Qed.
Lemma getn_with_kids w p L x : getn (with_kids w p L) x = getn w x. Proof. reflexivity. Qed.
Lemma par_with_kids w p L x : par (with_kids w p L) x = par w x. Proof. reflexivity. Qed.
Lemma kindof_with_kids w p L x : kindof (with_kids w p L) x = kindof w x. Proof. reflexivity. Qed.
Lemma has_with_kids w p L x : has (with_kids w p L) x = has w x. Proof. reflexivity. Qed.

Lemma nodes_set_par w v p x : nodes (set_par w v p) x = if x =? v then Some (with_par (getn w v) p) else nodes w x.
Proof. reflexivity. Qed.
Lemma kids_set_par w v p : kids (set_par w v p) = kids w. Proof. reflexivity. Qed.
Lemma cache_set_par w v p : cache (set_par w v p) = cache w. Proof. reflexivity. Qed.

Lemma getn_set_par w v p x : getn (set_par w v p) x = if x =? v then with_par (getn w v) p else getn w x.
Proof. unfold getn. rewrite nodes_set_par. destruct (x =? v); reflexivity. Qed.

Lemma par_set_par w v p x : par (set_par w v p) x = if x =? v then p else par w x.
Proof. unfold par. rewrite getn_set_par. destruct (x =? v); reflexivity. Qed.

Lemma kindof_set_par w v p x : kindof (set_par w v p) x = kindof w x.
Proof. unfold kindof. rewrite getn_set_par. destruct (Z.eqb_spec x v) as [E|E]; [subst|]; reflexivity. Qed.

Lemma nuuid_set_par w v p x : nuuid (getn (set_par w v p) x) = nuuid (getn w x).
Proof. rewrite getn_set_par. destruct (Z.eqb_spec x v) as [E|E]; [subst|]; reflexivity. Qed.

Lemma has_set_par w v p x : has w v = true -> has (set_par w v p) x = has w x.
Proof. intro H. unfold has in *. rewrite nodes_set_par. destruct (Z.eqb_spec x v) as [E|E]; [subst|reflexivity]. symmetry. exact H. Qed.

Lemma subtree_set_par w v p n : subtree (set_par w v p) n = subtree w n. Proof. reflexivity. Qed.

Lemma nodes_cache_add w ir n : nodes (cache_add w ir n) = nodes w. Proof. reflexivity. Qed.
Lemma kids_cache_add w ir n : kids (cache_add w ir n) = kids w. Proof. reflexivity. Qed.
Lemma nodes_cache_remove w ir n : nodes (fst (cache_remove w ir n)) = nodes w. Proof. reflexivity. Qed.
Lemma kids_cache_remove w ir n : kids (fst (cache_remove w ir n)) = kids w. Proof. reflexivity. Qed.

(* a node that was never created *)
Lemma par_nohas w n : has w n = false -> par w n = None.
Proof. unfold has, par, getn. destruct (nodes w n); [discriminate|reflexivity]. Qed.

(* ---------- pointwise equality of worlds (nodes, kids, cache) ---------- *)

Definition weq (a b : world) : Prop :=
  (forall x, nodes a x = nodes b x) /\ (forall x, kids a x = kids b x) /\ (forall x, cache a x = cache b x).

Lemma weq_refl a : weq a a.
Proof. split; [|split]; intro x; reflexivity. Qed.

Lemma weq_sym a b : weq a b -> weq b a.
Proof. intros [H1 [H2 H3]]. split; [|split]; intro x; symmetry; auto. Qed.

Lemma weq_trans a b c : weq a b -> weq b c -> weq a c.
Proof. intros [H1 [H2 H3]] [G1 [G2 G3]]. split; [|split]; intro x; [rewrite H1|rewrite H2|rewrite H3]; auto. Qed.

Lemma weq_getn a b x : weq a b -> getn a x = getn b x.
Proof. intros [H _]. unfold getn. rewrite H. reflexivity. Qed.
Lemma weq_par a b x : weq a b -> par a x = par b x.
Proof. intro H. unfold par. rewrite (weq_getn a b x H). reflexivity. Qed.
Lemma weq_kindof a b x : weq a b -> kindof a x = kindof b x.
Proof. intro H. unfold kindof. rewrite (weq_getn a b x H). reflexivity. Qed.
Lemma weq_has a b x : weq a b -> has a x = has b x.
Proof. intros [H _]. unfold has. rewrite H. reflexivity. Qed.

(* ---------- subtrees, uniformly ---------- *)

Fixpoint subn (k : nat) (w : world) (n : id) : list id :=
  match k with O => n :: kids w n | S k' => n :: flat_map (subn k' w) (kids w n) end.

Lemma subtree_subn w n : subtree w n = subn 3 w n. Proof. reflexivity. Qed.
Lemma sub3_subn w n : sub3 w n = subn 2 w n. Proof. reflexivity. Qed.

Lemma subn_agree k w w' : forall n, (forall x, In x (subn k w n) -> kids w' x = kids w x) -> subn k w' n = subn k w n.
Proof.
  induction k as [|k IH]; intros n H.
  - cbn [subn]. rewrite (H n); [reflexivity|left; reflexivity].
  - cbn [subn]. rewrite (H n) by (left; reflexivity). f_equal.
    apply flat_map_ext_in. intros c Hc. apply IH. intros x Hx. apply H.
    cbn [subn]. right. apply in_flat_map. exists c. split; assumption.
Qed.

Lemma subtree_agree w w' n : (forall x, In x (subtree w n) -> kids w' x = kids w x) -> subtree w' n = subtree w n.
Proof. rewrite !subtree_subn. apply subn_agree. Qed.

Lemma weq_subtree a b n : weq a b -> subtree a n = subtree b n.
Proof. intros [_ [H _]]. apply subtree_agree. intros x _. apply H. Qed.

(* congruence of the primitives *)
Lemma weq_with_kids a b p L : weq a b -> weq (with_kids a p L) (with_kids b p L).
Proof.
  intros [H1 [H2 H3]]. split; [|split]; intro x.
  - apply H1.
  - rewrite !kids_with_kids. unfold upd. rewrite H2. reflexivity.
  - apply H3.
Qed.

Lemma weq_set_par a b v p : weq a b -> weq (set_par a v p) (set_par b v p).
Proof.
  intros H. pose proof H as [H1 [H2 H3]]. split; [|split]; intro x.
  - rewrite !nodes_set_par. rewrite (weq_getn a b v H), H1. reflexivity.
  - apply H2.
  - apply H3.
Qed.

Lemma cache_cache_add w ir n x :
  cache (cache_add w ir n) x =
  upd (cache w) ir (fold_left (fun d y => dict_set Z.eqb (nuuid (getn w y)) y d) (subtree w n) (cache w ir)) x.
Proof. reflexivity. Qed.

Lemma cache_cache_remove w ir n x :
  cache (fst (cache_remove w ir n)) x =
  upd (cache w) ir (fold_left (fun d u => dict_del Z.eqb u d) (map (fun y => nuuid (getn w y)) (subtree w n)) (cache w ir)) x.
Proof. reflexivity. Qed.

Lemma snd_cache_remove w ir n :
  snd (cache_remove w ir n) = forallb (fun u => dict_has Z.eqb u (cache w ir)) (map (fun y => nuuid (getn w y)) (subtree w n)).
Proof. reflexivity. Qed.

Lemma weq_cache_add a b ir n : weq a b -> weq (cache_add a ir n) (cache_add b ir n).
Proof.
  intros H. pose proof H as [H1 [H2 H3]]. split; [|split]; intro x.
  - apply H1.
  - apply H2.
  - rewrite !cache_cache_add. unfold upd. rewrite (weq_subtree a b n H), !H3.
    rewrite (fold_left_ext (fun d y => dict_set Z.eqb (nuuid (getn a y)) y d) (fun d y => dict_set Z.eqb (nuuid (getn b y)) y d)).
    + reflexivity.
    + intros d y. rewrite (weq_getn a b y H). reflexivity.
Qed.

Lemma weq_cache_remove a b ir n : weq a b ->
  weq (fst (cache_remove a ir n)) (fst (cache_remove b ir n)) /\ snd (cache_remove a ir n) = snd (cache_remove b ir n).
Proof.
  intros H. pose proof H as [H1 [H2 H3]].
  assert (Hm : map (fun y => nuuid (getn a y)) (subtree a n) = map (fun y => nuuid (getn b y)) (subtree b n)).
  { rewrite (weq_subtree a b n H). apply map_ext. intro y. rewrite (weq_getn a b y H). reflexivity. }
  split.
  - split; [|split]; intro x.
    + apply H1.
    + apply H2.
    + rewrite !cache_cache_remove. unfold upd. rewrite Hm, !H3. reflexivity.
  - rewrite !snd_cache_remove. rewrite Hm, H3. reflexivity.
Qed.

Lemma with_kids_twice w p L L' : weq (with_kids (with_kids w p L) p L') (with_kids w p L').
Proof.
  split; [|split]; intro x; [reflexivity| |reflexivity]. cbn [kids with_kids set_kids]. unfold upd. destruct (x =? p); reflexivity.
Qed.

Lemma with_kids_comm w p q L M : p <> q -> weq (with_kids (with_kids w p L) q M) (with_kids (with_kids w q M) p L).
Proof.
  intro H. split; [|split]; intro x; [reflexivity| |reflexivity]. cbn [kids with_kids set_kids]. unfold upd.
  destruct (Z.eqb_spec x q) as [E1|E1]; destruct (Z.eqb_spec x p) as [E2|E2]; try reflexivity. congruence.
Qed.

Lemma with_kids_id w p : weq (with_kids w p (kids w p)) w.
Proof.
  split; [|split]; intro x; [reflexivity| |reflexivity]. rewrite kids_with_kids. unfold upd. destruct (Z.eqb_spec x p) as [E|E]; [subst|]; reflexivity.
Qed.

(* ---------- invariants respect weq ---------- *)

Lemma Forest_weq a b known : weq a b -> Forest a known -> Forest b known.
Proof.
  intros H F. pose proof H as [H1 [H2 H3]]. constructor.
  - intro n. rewrite <- (weq_has a b n H). apply (f_known a known F).
  - intros p c. rewrite <- H2, <- (weq_par a b c H). apply (f_two_ended a known F).
  - intro p. rewrite <- H2. apply (f_nodup a known F).
  - intros p c Hp. rewrite <- (weq_par a b c H) in Hp.
    rewrite <- (weq_has a b c H), <- (weq_has a b p H), <- (weq_kindof a b c H), <- (weq_kindof a b p H).
    apply (f_kind a known F). exact Hp.
  - intros x y Hx Hy. rewrite <- (weq_getn a b x H), <- (weq_getn a b y H). apply (f_uuid a known F); assumption.
Qed.

Lemma CacheInv_weq a b : weq a b -> CacheInv a -> CacheInv b.
Proof.
  intros H C ir Hh Hk. pose proof H as [H1 [H2 H3]].
  rewrite <- (weq_has a b ir H) in Hh. rewrite <- (weq_kindof a b ir H) in Hk.
  destruct (C ir Hh Hk) as [Hn Hg]. rewrite <- H3. split; [exact Hn|].
  intros u n. unfold reach. rewrite <- (weq_subtree a b ir H), <- (weq_getn a b n H). apply Hg.
Qed.

(* ---------- parent chains ---------- *)

Fixpoint upn (w : world) (d : nat) (n r : id) : Prop :=
  match d with O => n = r | S d' => exists p, par w n = Some p /\ upn w d' p r end.

Definition desc (w : world) (r n : id) : Prop := exists d, upn w d n r.

Lemma desc_refl w r : desc w r r.
Proof. exists O. reflexivity. Qed.

Lemma desc_step w r n p : par w n = Some p -> desc w r p -> desc w r n.
Proof. intros H [d Hd]. exists (S d). exists p. split; assumption. Qed.

Lemma upn_snoc w d : forall x r, upn w (S d) x r <-> exists c, upn w d x c /\ par w c = Some r.
Proof.
  induction d as [|d IH]; intros x r.
  - cbn. split.
    + intros [p [Hp E]]. subst. exists x. split; [reflexivity|exact Hp].
    + intros [c [E Hp]]. subst. exists r. split; [exact Hp|reflexivity].
  - split.
    + intros [p [Hp Hu]]. apply IH in Hu. destruct Hu as [c [Hc Hr]]. exists c. split; [|exact Hr]. exists p. split; assumption.
    + intros [c [[p [Hp Hu]] Hr]]. exists p. split; [exact Hp|]. apply IH. exists c. split; assumption.
Qed.

Lemma desc_snoc w r c n : desc w c n -> par w c = Some r -> desc w r n.
Proof. intros [d Hd] H. exists (S d). apply upn_snoc. exists c. split; assumption. Qed.

Lemma desc_trans w a b c : desc w b c -> desc w a b -> desc w a c.
Proof.
  intros [d Hd]. revert c Hd. induction d as [|d IH]; intros c Hd Hab.
  - cbn in Hd. subst. exact Hab.
  - destruct Hd as [p [Hp Hu]]. eapply desc_step; [exact Hp|]. apply IH; assumption.
Qed.

Lemma In_subn w : (forall p c, In c (kids w p) <-> par w c = Some p) ->
  forall k r x, In x (subn k w r) <-> exists d, (d <= S k)%nat /\ upn w d x r.
Proof.
  intros T. induction k as [|k IH]; intros r x.
  - cbn [subn In]. rewrite T. split.
    + intros [H|H]; [exists O; split; [lia|symmetry; exact H]|exists 1%nat; split; [lia|]]. exists r. split; [exact H|reflexivity].
    + intros [d [Hd Hu]]. destruct d as [|[|d]]; [left; symmetry; exact Hu| |lia].
      destruct Hu as [p [Hp E]]. cbn in E. subst. right. exact Hp.
  - cbn [subn In]. rewrite in_flat_map. split.
    + intros [H|[c [Hc Hx]]]; [exists O; split; [lia|symmetry; exact H]|].
      apply IH in Hx. destruct Hx as [d [Hd Hu]]. exists (S d). split; [lia|]. apply upn_snoc. exists c. split; [exact Hu|]. apply T. exact Hc.
    + intros [d [Hd Hu]]. destruct d as [|d]; [left; symmetry; exact Hu|]. right.
      apply upn_snoc in Hu. destruct Hu as [c [Hc Hr]]. exists c. split; [apply T; exact Hr|]. apply IH. exists d. split; [lia|exact Hc].
Qed.

(* containment layers *)
Definition level (k : kind) : nat :=
  match k with KIR => 0 | KMod => 1 | KSec | KSym | KProxy => 2 | KBI => 3 | KCode | KData => 4 end.

Lemma parent_kind_level c p : parent_kind c = Some p -> level c = S (level p).
Proof. destruct c; cbn; intro H; inversion H; reflexivity. Qed.

Lemma level_le4 k : (level k <= 4)%nat.
Proof. destruct k; cbn; lia. Qed.

Lemma upn_level w known : Forest w known -> forall d x r, upn w d x r -> level (kindof w x) = (level (kindof w r) + d)%nat.
Proof.
  intros F. induction d as [|d IH]; intros x r H.
  - cbn in H. subst. lia.
  - destruct H as [p [Hp Hu]]. apply IH in Hu. destruct (f_kind w known F p x Hp) as [_ [_ Hk]].
    apply parent_kind_level in Hk. lia.
Qed.

Lemma reach_char w known r n : Forest w known -> (In n (reach w r) <-> desc w r n).
Proof.
  intro F. unfold reach. rewrite subtree_subn. rewrite (In_subn w (f_two_ended w known F)). split.
  - intros [d [_ Hu]]. exists d. exact Hu.
  - intros [d Hu]. exists d. split; [|exact Hu]. pose proof (upn_level w known F d n r Hu) as Hl.
    pose proof (level_le4 (kindof w n)). lia.
Qed.

Lemma subtree_char w known r n : Forest w known -> (In n (subtree w r) <-> desc w r n).
Proof. apply reach_char. Qed.

(* ---------- simple consequences of Forest ---------- *)

Lemma ir_no_parent w known x : Forest w known -> kindof w x = KIR -> par w x = None.
Proof.
  intros F Hk. destruct (par w x) as [p|] eqn:E; [|reflexivity].
  destruct (f_kind w known F p x E) as [_ [_ H]]. rewrite Hk in H. discriminate.
Qed.

Lemma child_of_ir_is_mod w known ir c : Forest w known -> kindof w ir = KIR -> par w c = Some ir -> kindof w c = KMod /\ has w c = true.
Proof.
  intros F Hk Hp. destruct (f_kind w known F ir c Hp) as [Hc [_ H]]. split; [|exact Hc].
  rewrite Hk in H. destruct (kindof w c); cbn in H; try discriminate. reflexivity.
Qed.

Lemma parent_of_mod_is_ir w known v p : Forest w known -> kindof w v = KMod -> par w v = Some p -> kindof w p = KIR /\ has w p = true.
Proof.
  intros F Hk Hp. destruct (f_kind w known F p v Hp) as [_ [Hh H]]. split; [|exact Hh].
  rewrite Hk in H. cbn in H. inversion H. reflexivity.
Qed.

Lemma desc_has w known r n : Forest w known -> has w r = true -> desc w r n -> has w n = true.
Proof.
  intros F Hr [d Hu]. destruct d as [|d]; [cbn in Hu; subst; exact Hr|].
  destruct Hu as [p [Hp _]]. apply (f_kind w known F p n Hp).
Qed.

Lemma desc_not_ir w known r n : Forest w known -> desc w r n -> n <> r -> kindof w n <> KIR.
Proof.
  intros F [d Hu] Hne Hk. destruct d as [|d]; [cbn in Hu; contradiction|].
  destruct Hu as [p [Hp _]]. rewrite (ir_no_parent w known n F Hk) in Hp. discriminate.
Qed.

(* a chain that starts at an IR stays there *)
Lemma upn_from_ir w known x r d : Forest w known -> kindof w x = KIR -> upn w d x r -> x = r.
Proof.
  intros F Hk Hu. destruct d as [|d]; [exact Hu|]. destruct Hu as [p [Hp _]].
  rewrite (ir_no_parent w known x F Hk) in Hp. discriminate.
Qed.

Lemma nohas_kids_nil w known n : Forest w known -> has w n = false -> kids w n = [].
Proof.
  intros F H. destruct (kids w n) as [|c l] eqn:E; [reflexivity|]. exfalso.
  assert (Hc : In c (kids w n)) by (rewrite E; left; reflexivity).
  apply (f_two_ended w known F) in Hc. destruct (f_kind w known F n c Hc) as [_ [Hh _]]. congruence.
Qed.

Lemma is_k_spec w n k : is_k w n k = true <-> has w n = true /\ kindof w n = k.
Proof.
  unfold is_k. rewrite andb_true_iff. split; intros [H1 H2]; split; try exact H1.
  - destruct (kindof w n), k; cbn in H2; try discriminate; reflexivity.
  - rewrite H2. destruct k; reflexivity.
Qed.

(* ---------- more list lemmas (slices, dedup, folds) ---------- *)

Lemma NoDup_app_inv {X} (a b : list X) : NoDup (a ++ b) -> NoDup a /\ NoDup b /\ (forall x, In x a -> In x b -> False).
Proof.
  induction a as [|y a IH]; intro H.
  - split; [constructor|]. split; [exact H|]. intros x [].
  - cbn [app] in H. inversion H as [|y' l' Hy Hl]. subst. destruct (IH Hl) as [Ha [Hb Hd]]. split; [|split].
    + constructor; [|exact Ha]. intro Hi. apply Hy. apply in_or_app. left. exact Hi.
    + exact Hb.
    + intros x [Hx|Hx] Hxb; [subst; apply Hy; apply in_or_app; right; exact Hxb|eapply Hd; eassumption].
Qed.

Lemma NoDup_app_intro {X} (a b : list X) : NoDup a -> NoDup b -> (forall x, In x a -> In x b -> False) -> NoDup (a ++ b).
Proof.
  induction a as [|y a IH]; intros Ha Hb Hd; [exact Hb|].
  inversion Ha as [|y' l' Hy Hl]. subst. cbn [app]. constructor.
  - intro Hi. apply in_app_or in Hi. destruct Hi as [Hi|Hi]; [contradiction|]. apply (Hd y); [left; reflexivity|exact Hi].
  - apply IH; [exact Hl|exact Hb|]. intros x Hx. apply Hd. right. exact Hx.
Qed.

Lemma filter_none {X} (p : X -> bool) l : (forall x, In x l -> p x = false) -> filter p l = [].
Proof.
  induction l as [|y l IH]; intro H; [reflexivity|]. cbn [filter]. rewrite (H y) by (left; reflexivity).
  apply IH. intros x Hx. apply H. right. exact Hx.
Qed.

Lemma filter_all {X} (p : X -> bool) l : (forall x, In x l -> p x = true) -> filter p l = l.
Proof.
  induction l as [|y l IH]; intro H; [reflexivity|]. cbn [filter]. rewrite (H y) by (left; reflexivity).
  f_equal. apply IH. intros x Hx. apply H. right. exact Hx.
Qed.

Lemma fold_remove_filter vs : forall l, fold_left (fun l v => remove_id v l) vs l = filter (fun x => negb (mem x vs)) l.
Proof.
  induction vs as [|v vs IH]; intro l.
  - cbn [fold_left]. symmetry. apply filter_all. intros x _. reflexivity.
  - cbn [fold_left]. rewrite IH. unfold remove_id. induction l as [|y l IHl]; [reflexivity|].
    cbn [filter]. unfold mem at 2. cbn [existsb]. destruct (Z.eqb_spec y v) as [E|E]; cbn [negb orb].
    + exact IHl.
    + cbn [filter]. fold (mem y vs). destruct (negb (mem y vs)); [f_equal|]; exact IHl.
Qed.

Lemma skipn_add {X} a n : forall (l : list X), skipn (a + n) l = skipn n (skipn a l).
Proof.
  induction a as [|a IH]; intro l; [reflexivity|]. destruct l as [|y l].
  - cbn [Nat.add skipn]. rewrite skipn_nil. reflexivity.
  - cbn [Nat.add skipn]. apply IH.
Qed.

Lemma slice_split {X} a n (l : list X) : l = firstn a l ++ firstn n (skipn a l) ++ skipn (a + n) l.
Proof. rewrite skipn_add, firstn_skipn, firstn_skipn. reflexivity. Qed.

Lemma filter_slice pre vic post :
  NoDup (pre ++ vic ++ post) -> filter (fun x => negb (mem x vic)) (pre ++ vic ++ post) = pre ++ post.
Proof.
  intro H. destruct (NoDup_app_inv pre (vic ++ post) H) as [_ [H2 Hd1]]. destruct (NoDup_app_inv vic post H2) as [_ [_ Hd2]].
  rewrite !filter_app. rewrite (filter_all _ pre), (filter_none _ vic), (filter_all _ post); [reflexivity| | |].
  - intros x Hx. apply negb_true_iff. apply mem_false. intro Hv. eapply Hd2; eassumption.
  - intros x Hx. apply negb_false_iff. apply mem_In. exact Hx.
  - intros x Hx. apply negb_true_iff. apply mem_false. intro Hv. apply (Hd1 x Hx). apply in_or_app. left. exact Hv.
Qed.

Lemma dedup_length l : (length (dedup l) <= length l)%nat.
Proof. induction l as [|x l IH]; [cbn; lia|]. cbn [dedup]. destruct (mem x l); cbn [length]; lia. Qed.

Lemma dedup_full_nodup l : length (dedup l) = length l -> NoDup l.
Proof.
  induction l as [|x l IH]; intro H; [constructor|]. cbn [dedup] in H. destruct (mem x l) eqn:E.
  - pose proof (dedup_length l). cbn [length] in H. lia.
  - cbn [length] in H. constructor; [apply mem_false; exact E|]. apply IH. lia.
Qed.

(* fold_ok *)
Lemma fold_ok_acc (f : world -> id -> world * bool) l : forall w b,
  fold_left (fun (st : world * bool) v => let '(w, ok) := st in let '(w', ok') := f w v in (w', ok && ok')) l (w, b) =
  (fst (fold_ok f l w), b && snd (fold_ok f l w)).
Proof.
  unfold fold_ok. induction l as [|a l IH]; intros w b.
  - cbn. rewrite andb_true_r. reflexivity.
  - cbn [fold_left]. destruct (f w a) as [w' ok']. rewrite (IH w' (b && ok')), (IH w' (true && ok')).
    cbn [fst snd andb]. rewrite andb_assoc. reflexivity.
Qed.

Lemma fold_ok_nil f w : fold_ok f [] w = (w, true).
Proof. reflexivity. Qed.

Lemma fold_ok_cons f v l w :
  fold_ok f (v :: l) w = (fst (fold_ok f l (fst (f w v))), snd (f w v) && snd (fold_ok f l (fst (f w v)))).
Proof.
  unfold fold_ok at 1. cbn [fold_left]. destruct (f w v) as [w1 ok1]. cbn [andb fst snd]. apply fold_ok_acc.
Qed.
