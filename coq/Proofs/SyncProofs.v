(* Task SY: deferred index maintenance is unobservable.
   Part 1: SyncAll / NonNeg are preserved by every guarded operation.
   Part 2: lookups and schedules only ever change the `tree` component. *)
From Coq Require Import ZArith List Bool Lia.
From V Require Import Result LazyTree World WorldGuard ForestDefs InvDefs.
Import ListNotations.
Open Scope Z_scope.

(* ================================================================== *)
(** * Set-level lemmas about interval lists *)

Lemma iv_eqb_eq : forall a b, iv_eqb a b = true <-> a = b.
Proof.
  intros [a1 a2 a3] [b1 b2 b3]. unfold iv_eqb. cbn [ib ie idata].
  rewrite !andb_true_iff, !Z.eqb_eq. split.
  - intros [[H1 H2] H3]. subst. reflexivity.
  - intros H. injection H as H1 H2 H3. auto.
Qed.

Lemma iv_eqb_spec : forall a b, reflect (a = b) (iv_eqb a b).
Proof.
  intros a b. destruct (iv_eqb a b) eqn:E; constructor.
  - apply iv_eqb_eq. exact E.
  - intros H. apply iv_eqb_eq in H. congruence.
Qed.

Lemma iv_eqb_refl : forall a, iv_eqb a a = true.
Proof. intros a. apply iv_eqb_eq. reflexivity. Qed.

Lemma iv_eqb_sym : forall a b, iv_eqb a b = iv_eqb b a.
Proof.
  intros a b. destruct (iv_eqb_spec a b) as [E|E]; destruct (iv_eqb_spec b a) as [F|F]; congruence.
Qed.

Lemma iv_eqb_data : forall a b, idata a <> idata b -> iv_eqb a b = false.
Proof. intros a b H. destruct (iv_eqb_spec a b) as [E|E]; [subst; congruence|reflexivity]. Qed.

Lemma iv_mem_In : forall i t, iv_mem i t = true <-> In i t.
Proof.
  intros i t. unfold iv_mem. rewrite existsb_exists. split.
  - intros [x [Hx E]]. apply iv_eqb_eq in E. subst. exact Hx.
  - intros H. exists i. split; [exact H|apply iv_eqb_refl].
Qed.

Lemma iv_mem_cons : forall i a t, iv_mem i (a :: t) = iv_eqb i a || iv_mem i t.
Proof. reflexivity. Qed.

Lemma iv_mem_app : forall i a b, iv_mem i (a ++ b) = iv_mem i a || iv_mem i b.
Proof. intros. unfold iv_mem. apply existsb_app. Qed.

Lemma iv_mem_tree_add : forall i j t, iv_mem i (tree_add j t) = iv_eqb i j || iv_mem i t.
Proof.
  intros i j t. unfold tree_add. destruct (iv_mem j t) eqn:E.
  - destruct (iv_eqb_spec i j) as [H|H]; [subst; rewrite E|]; reflexivity.
  - rewrite iv_mem_app. cbn. rewrite orb_false_r. apply orb_comm.
Qed.

Lemma iv_mem_tree_discard : forall i j t, iv_mem i (tree_discard j t) = negb (iv_eqb i j) && iv_mem i t.
Proof.
  intros i j t. unfold tree_discard. induction t as [|a t IH].
  - cbn. rewrite andb_false_r. reflexivity.
  - cbn [filter]. destruct (iv_eqb_spec j a) as [H|H]; cbn [negb].
    + subst a. rewrite iv_mem_cons, IH. destruct (iv_eqb i j); reflexivity.
    + rewrite !iv_mem_cons, IH. destruct (iv_eqb_spec i a) as [Ha|Ha]; cbn.
      * subst a. destruct (iv_eqb_spec i j) as [Hj|Hj]; [congruence|reflexivity].
      * reflexivity.
Qed.

Lemma iv_mem_fold_add : forall i l acc,
  iv_mem i (fold_left (fun t i => tree_add i t) l acc) = iv_mem i l || iv_mem i acc.
Proof.
  intros i l. induction l as [|a l IH]; intros acc.
  - reflexivity.
  - cbn [fold_left]. rewrite IH, iv_mem_tree_add, iv_mem_cons.
    destruct (iv_eqb i a), (iv_mem i l); reflexivity.
Qed.

Lemma iv_mem_tree_build : forall i l, iv_mem i (tree_build l) = iv_mem i l.
Proof. intros. unfold tree_build. rewrite iv_mem_fold_add. cbn. apply orb_false_r. Qed.

Lemma fold_apply_snoc : forall es e idx,
  fold_left apply_ev (es ++ [e]) idx = apply_ev (fold_left apply_ev es idx) e.
Proof. intros. rewrite fold_left_app. reflexivity. Qed.

Lemma NoDup_snoc : forall (X : Type) (l : list X) x, NoDup l -> ~ In x l -> NoDup (l ++ [x]).
Proof.
  intros X l x Hn. induction Hn as [|y l Hy Hn IH]; intros Hx.
  - cbn. constructor; [intros []|constructor].
  - cbn. constructor.
    + rewrite in_app_iff. intros [H|[H|[]]]; [contradiction|]. subst. apply Hx. left. reflexivity.
    + apply IH. intros H. apply Hx. right. exact H.
Qed.

Lemma NoDup_tree_add : forall j t, NoDup t -> NoDup (tree_add j t).
Proof.
  intros j t H. unfold tree_add. destruct (iv_mem j t) eqn:E; [exact H|].
  apply NoDup_snoc; [exact H|]. intros Hin. apply iv_mem_In in Hin. congruence.
Qed.

Lemma NoDup_tree_discard : forall j t, NoDup t -> NoDup (tree_discard j t).
Proof. intros. unfold tree_discard. apply NoDup_filter. assumption. Qed.

Lemma NoDup_fold_add : forall l acc, NoDup acc -> NoDup (fold_left (fun t i => tree_add i t) l acc).
Proof.
  intros l. induction l as [|a l IH]; intros acc H; [exact H|].
  cbn [fold_left]. apply IH. apply NoDup_tree_add. exact H.
Qed.

Lemma NoDup_tree_build : forall l, NoDup (tree_build l).
Proof. intros. unfold tree_build. apply NoDup_fold_add. constructor. Qed.

Lemma NoDup_apply_ev : forall e t, NoDup t -> NoDup (apply_ev t e).
Proof. intros [i|i] t H; cbn; [apply NoDup_tree_add|apply NoDup_tree_discard]; exact H. Qed.

Lemma NoDup_fold_ev : forall es t, NoDup t -> NoDup (fold_left apply_ev es t).
Proof.
  intros es. induction es as [|e es IH]; intros t H; [exact H|].
  cbn [fold_left]. apply IH. apply NoDup_apply_ev. exact H.
Qed.

Lemma iv_equiv_refl : forall a, iv_equiv a a.
Proof. intros a i. reflexivity. Qed.

Lemma iv_equiv_trans : forall a b c, iv_equiv a b -> iv_equiv b c -> iv_equiv a c.
Proof. intros a b c H1 H2 i. rewrite H1. apply H2. Qed.

Lemma iv_equiv_sym : forall a b, iv_equiv a b -> iv_equiv b a.
Proof. intros a b H i. symmetry. apply H. Qed.

Lemma lt_get_exact : forall t cur n, Sync t cur ->
  let '(t', idx) := lt_get cur n t in NoDup idx /\ iv_equiv idx cur /\ Sync t' cur.
Proof.
  intros t cur n H. unfold lt_get, Sync in *. cbn [lindex levents fold_left].
  assert (B : NoDup (tree_build cur) /\ iv_equiv (tree_build cur) cur).
  { split; [apply NoDup_tree_build|]. intros i. apply iv_mem_tree_build. }
  destruct (lindex t) as [idx0|] eqn:E.
  - destruct (Nat.leb n (length (levents t))) eqn:L.
    + destruct B as [B1 B2]. auto.
    + destruct H as [H1 H2]. assert (N : NoDup (fold_left apply_ev (levents t) idx0)) by (apply NoDup_fold_ev; exact H1).
      auto.
  - destruct B as [B1 B2]. auto.
Qed.

(* the corollaries in projection form *)
Lemma lt_get_sync : forall t cur n, Sync t cur -> Sync (fst (lt_get cur n t)) cur.
Proof.
  intros t cur n H. pose proof (lt_get_exact t cur n H) as G.
  destruct (lt_get cur n t) as [t' idx]. cbn. tauto.
Qed.

(* ================================================================== *)
(** * Events as functions on membership *)

Definition add_sem (o : option iv) (j : iv) (b : bool) : bool :=
  match o with Some i => iv_eqb j i || b | None => b end.
Definition disc_sem (o : option iv) (j : iv) (b : bool) : bool :=
  match o with Some i => negb (iv_eqb j i) && b | None => b end.

Lemma sync_equiv : forall t cur cur', Sync t cur -> iv_equiv cur cur' -> Sync t cur'.
Proof.
  unfold Sync. intros t cur cur' H E. destruct (lindex t) as [idx|]; [|exact I].
  destruct H as [H1 H2]. split; [exact H1|]. eapply iv_equiv_trans; eauto.
Qed.

Lemma sync_lt_add : forall t cur cur' o, Sync t cur ->
  (forall j, iv_mem j cur' = add_sem o j (iv_mem j cur)) -> Sync (lt_add o t) cur'.
Proof.
  intros t cur cur' [i|] H E; cbn [lt_add add_sem] in *.
  - unfold Sync in *. cbn [lindex levents]. destruct (lindex t) as [idx|]; [|exact I].
    destruct H as [H1 H2]. split; [exact H1|].
    intros j. rewrite fold_apply_snoc. cbn [apply_ev]. rewrite iv_mem_tree_add, E, H2. reflexivity.
  - eapply sync_equiv; [exact H|]. intros j. symmetry. apply E.
Qed.

Lemma sync_lt_discard : forall t cur cur' o, Sync t cur ->
  (forall j, iv_mem j cur' = disc_sem o j (iv_mem j cur)) -> Sync (lt_discard o t) cur'.
Proof.
  intros t cur cur' [i|] H E; cbn [lt_discard disc_sem] in *.
  - unfold Sync in *. cbn [lindex levents]. destruct (lindex t) as [idx|]; [|exact I].
    destruct H as [H1 H2]. split; [exact H1|].
    intros j. rewrite fold_apply_snoc. cbn [apply_ev]. rewrite iv_mem_tree_discard, E, H2. reflexivity.
  - eapply sync_equiv; [exact H|]. intros j. symmetry. apply E.
Qed.

(* ================================================================== *)
(** * Keyed interval lists of a member list *)

Definition opt_list (o : option iv) : list iv := match o with Some i => [i] | None => [] end.
Definition ivs_of (g : id -> option iv) (l : list id) : list iv := flat_map (fun b => opt_list (g b)) l.
Definition hit (g : id -> option iv) (j : iv) (b : id) : bool :=
  match g b with Some i => iv_eqb j i | None => false end.
Definition keyed (g : id -> option iv) : Prop := forall b i, g b = Some i -> idata i = b.
Definition push (c : id) (l : list id) : list id := if mem c l then l else l ++ [c].

Lemma mem_In : forall x l, mem x l = true <-> In x l.
Proof.
  intros x l. unfold mem. rewrite existsb_exists. split.
  - intros [y [Hy E]]. apply Z.eqb_eq in E. subst. exact Hy.
  - intros H. exists x. split; [exact H|apply Z.eqb_refl].
Qed.

Lemma In_remove_id : forall x c l, In x (remove_id c l) <-> In x l /\ x <> c.
Proof.
  intros x c l. unfold remove_id. rewrite filter_In. rewrite negb_true_iff, Z.eqb_neq. reflexivity.
Qed.

Lemma iv_mem_ivs_of : forall g j l, iv_mem j (ivs_of g l) = existsb (hit g j) l.
Proof.
  intros g j l. induction l as [|a l IH]; [reflexivity|].
  unfold ivs_of in *. cbn [flat_map existsb]. rewrite iv_mem_app, IH. f_equal.
  unfold hit, opt_list. destruct (g a) as [i|]; [|reflexivity].
  rewrite iv_mem_cons. apply orb_false_r.
Qed.

Lemma ivs_of_ext : forall g g' l, (forall b, In b l -> g' b = g b) -> ivs_of g' l = ivs_of g l.
Proof.
  intros g g' l. induction l as [|a l IH]; intros H; [reflexivity|].
  unfold ivs_of in *. cbn [flat_map]. rewrite H by (left; reflexivity). f_equal.
  apply IH. intros b Hb. apply H. right. exact Hb.
Qed.

Lemma ivs_of_none : forall l, ivs_of (fun _ => None) l = [].
Proof. induction l as [|a l IH]; [reflexivity|]. unfold ivs_of in *. cbn. exact IH. Qed.

Lemma existsb_hit_ext : forall g g' j l, (forall b, In b l -> g' b = g b) ->
  existsb (hit g' j) l = existsb (hit g j) l.
Proof. intros. rewrite <- !iv_mem_ivs_of. f_equal. apply ivs_of_ext. assumption. Qed.

Lemma hit_push : forall g j c l,
  existsb (hit g j) (push c l) = add_sem (g c) j (existsb (hit g j) l).
Proof.
  intros g j c l. unfold push. destruct (mem c l) eqn:M.
  - apply mem_In in M. unfold add_sem. destruct (g c) as [i|] eqn:G; [|reflexivity].
    destruct (iv_eqb j i) eqn:E; [|reflexivity]. cbn [orb].
    apply existsb_exists. exists c. split; [exact M|]. unfold hit. rewrite G. exact E.
  - rewrite existsb_app. cbn [existsb]. unfold hit at 2. unfold add_sem.
    destruct (g c) as [i|]; rewrite orb_false_r; [apply orb_comm|reflexivity].
Qed.

Lemma hit_other : forall g j a c i, keyed g -> g c = Some i -> a <> c -> hit g j a = true -> iv_eqb j i = false.
Proof.
  intros g j a c i K G N H. unfold hit in H. destruct (g a) as [i'|] eqn:Ga; [|discriminate].
  apply iv_eqb_eq in H. subst i'. apply iv_eqb_data. rewrite (K _ _ Ga), (K _ _ G). exact N.
Qed.

Lemma hit_drop : forall g j c l, keyed g ->
  existsb (hit g j) (remove_id c l) = disc_sem (g c) j (existsb (hit g j) l).
Proof.
  intros g j c l K. induction l as [|a l IH].
  - cbn. unfold disc_sem. destruct (g c); [apply eq_sym, andb_false_r|reflexivity].
  - unfold remove_id in *. cbn [filter existsb]. destruct (Z.eqb_spec a c) as [E|E]; cbn [negb].
    + subst a. rewrite IH.
      assert (Hc : hit g j c = match g c with Some i => iv_eqb j i | None => false end) by reflexivity.
      rewrite Hc. unfold disc_sem. destruct (g c) as [i|]; [|reflexivity].
      destruct (iv_eqb j i); reflexivity.
    + cbn [existsb]. rewrite IH. unfold disc_sem. destruct (g c) as [i|] eqn:G; [|reflexivity].
      destruct (hit g j a) eqn:Ha; [|reflexivity].
      rewrite (hit_other g j a c i K G E Ha). reflexivity.
Qed.

Lemma remove_id_notin : forall b l, ~ In b l -> remove_id b l = l.
Proof.
  intros b l. induction l as [|a l IH]; intros H; [reflexivity|].
  unfold remove_id in *. cbn [filter]. destruct (Z.eqb_spec a b) as [E|E]; cbn [negb].
  - subst a. exfalso. apply H. left. reflexivity.
  - f_equal. apply IH. intros Hb. apply H. right. exact Hb.
Qed.

Lemma existsb_split : forall (f : id -> bool) b l, In b l -> existsb f l = f b || existsb f (remove_id b l).
Proof.
  intros f b l. induction l as [|a l IH]; intros H; [destruct H|].
  unfold remove_id in *. cbn [filter existsb]. destruct (Z.eqb_spec a b) as [E|E]; cbn [negb].
  - subst a. destruct (in_dec Z.eq_dec b l) as [Hi|Hi].
    + rewrite IH by exact Hi. destruct (f b); reflexivity.
    + fold (remove_id b l). rewrite (remove_id_notin b l Hi). reflexivity.
  - destruct H as [H|H]; [congruence|]. cbn [existsb]. rewrite IH by exact H.
    destruct (f a), (f b); reflexivity.
Qed.

Lemma add_sem_hit : forall g j b x, add_sem (g b) j x = hit g j b || x.
Proof. intros. unfold add_sem, hit. destruct (g b); reflexivity. Qed.

(* a member's key changes from [g b] to [g' b] *)
Lemma hit_change : forall g g' j b l, keyed g ->
  (forall k, k <> b -> g' k = g k) -> In b l ->
  existsb (hit g' j) l = add_sem (g' b) j (disc_sem (g b) j (existsb (hit g j) l)).
Proof.
  intros g g' j b l K Hg Hb.
  rewrite (existsb_split (hit g' j) b l Hb), add_sem_hit. f_equal.
  rewrite <- (hit_drop g j b l K).
  apply existsb_hit_ext. intros k Hk. apply In_remove_id in Hk. apply Hg. tauto.
Qed.

(* ================================================================== *)
(** * Attributes that the indexes depend on *)

Lemma upd_same : forall (X : Type) (f : id -> X) k v, upd f k v k = v.
Proof. intros. unfold upd. rewrite Z.eqb_refl. reflexivity. Qed.

Lemma upd_other : forall (X : Type) (f : id -> X) k v x, x <> k -> upd f k v x = f x.
Proof. intros X f k v x H. unfold upd. destruct (Z.eqb_spec x k); [contradiction|reflexivity]. Qed.

Definition akey (x : node) : kind * option Z * Z * Z := (nk x, naddr x, nsize x, noff x).
Definition attr (w : world) (n : id) := akey (getn w n).

Definition key_of (w : world) (n : id) : id -> option iv :=
  match kindof w n with KBI => off_iv w | KSec => addr_iv w | _ => fun _ => None end.

Lemma attr_kindof : forall w w' n, attr w' n = attr w n -> kindof w' n = kindof w n.
Proof. unfold attr, akey, kindof. intros w w' n H. injection H as H1 H2 H3 H4. exact H1. Qed.

Lemma attr_off_iv : forall w w' n, attr w' n = attr w n -> off_iv w' n = off_iv w n.
Proof. unfold attr, akey, off_iv. intros w w' n H. injection H as H1 H2 H3 H4. rewrite H3, H4. reflexivity. Qed.

Lemma attr_addr_iv : forall w w' n, attr w' n = attr w n -> addr_iv w' n = addr_iv w n.
Proof. unfold attr, akey, addr_iv. intros w w' n H. injection H as H1 H2 H3 H4. rewrite H2, H3. reflexivity. Qed.

Lemma attr_nonneg : forall w w', (forall n, attr w' n = attr w n) -> NonNeg w -> NonNeg w'.
Proof.
  intros w w' H N n. specialize (H n). specialize (N n). unfold attr, akey in H.
  injection H as H1 H2 H3 H4. rewrite H3, H4. exact N.
Qed.

Lemma key_of_attr : forall w w' n b, attr w' n = attr w n -> attr w' b = attr w b ->
  key_of w' n b = key_of w n b.
Proof.
  intros w w' n b Hn Hb. unfold key_of. rewrite (attr_kindof _ _ _ Hn).
  destruct (kindof w n); try reflexivity; [apply attr_addr_iv|apply attr_off_iv]; exact Hb.
Qed.

Lemma keyed_off_iv : forall w, keyed (off_iv w).
Proof. intros w b i H. unfold off_iv in H. injection H as H. subst i. reflexivity. Qed.

Lemma keyed_addr_iv : forall w, keyed (addr_iv w).
Proof.
  intros w b i H. unfold addr_iv in H. destruct (naddr (getn w b)); [|discriminate].
  injection H as H. subst i. reflexivity.
Qed.

Lemma keyed_key_of : forall w n, keyed (key_of w n).
Proof.
  intros w n. unfold key_of. destruct (kindof w n); try (intros b i H; discriminate);
  [apply keyed_addr_iv|apply keyed_off_iv].
Qed.

Lemma cur_ivs_key : forall w n, cur_ivs w n = ivs_of (key_of w n) (kids w n).
Proof.
  intros w n. unfold cur_ivs, key_of. destruct (kindof w n); try reflexivity;
  symmetry; apply ivs_of_none.
Qed.

Lemma cur_ivs_ext : forall w w' n, attr w' n = attr w n -> kids w' n = kids w n ->
  (forall b, In b (kids w n) -> attr w' b = attr w b) -> cur_ivs w' n = cur_ivs w n.
Proof.
  intros w w' n Hn Hk Hb. rewrite !cur_ivs_key, Hk. apply ivs_of_ext.
  intros b Hi. apply key_of_attr; [exact Hn|apply Hb; exact Hi].
Qed.

(* ---------- generic shapes of an update ---------- *)

(* nothing that an index depends on changed *)
Lemma sync_same : forall w w', SyncAll w ->
  (forall n, tree w' n = tree w n) -> (forall n, cur_ivs w' n = cur_ivs w n) -> SyncAll w'.
Proof. intros w w' H Ht Hc n. rewrite Ht, Hc. apply H. Qed.

Lemma sync_discard_at : forall w w' p c, SyncAll w ->
  (forall n, attr w' n = attr w n) ->
  (forall n, kids w' n = if n =? p then remove_id c (kids w p) else kids w n) ->
  (forall n, tree w' n = if n =? p then lt_discard (key_of w p c) (tree w p) else tree w n) ->
  SyncAll w'.
Proof.
  intros w w' p c H Ha Hk Ht n. rewrite Ht. destruct (Z.eqb_spec n p) as [E|E].
  - subst n. apply sync_lt_discard with (cur := cur_ivs w p); [apply H|].
    intros j. rewrite !cur_ivs_key, !iv_mem_ivs_of, Hk, Z.eqb_refl.
    rewrite <- (hit_drop _ j c _ (keyed_key_of w p)).
    apply existsb_hit_ext. intros b Hb. apply key_of_attr; apply Ha.
  - rewrite cur_ivs_ext with (w := w); [apply H|apply Ha| |intros; apply Ha].
    rewrite Hk. destruct (Z.eqb_spec n p); [contradiction|reflexivity].
Qed.

Lemma sync_add_at : forall w w' p c, SyncAll w ->
  (forall n, attr w' n = attr w n) ->
  (forall n, kids w' n = if n =? p then push c (kids w p) else kids w n) ->
  (forall n, tree w' n = if n =? p then lt_add (key_of w p c) (tree w p) else tree w n) ->
  SyncAll w'.
Proof.
  intros w w' p c H Ha Hk Ht n. rewrite Ht. destruct (Z.eqb_spec n p) as [E|E].
  - subst n. apply sync_lt_add with (cur := cur_ivs w p); [apply H|].
    intros j. rewrite !cur_ivs_key, !iv_mem_ivs_of, Hk, Z.eqb_refl.
    rewrite <- (hit_push _ j c _).
    apply existsb_hit_ext. intros b Hb. apply key_of_attr; apply Ha.
  - rewrite cur_ivs_ext with (w := w); [apply H|apply Ha| |intros; apply Ha].
    rewrite Hk. destruct (Z.eqb_spec n p); [contradiction|reflexivity].
Qed.

(* ================================================================== *)
(** * Frame lemmas for the primitives *)

Lemma getn_setn : forall w c x n, getn (setn w c x) n = if n =? c then x else getn w n.
Proof. intros. unfold getn, setn. cbn [nodes set_nodes]. unfold upd. destruct (n =? c); reflexivity. Qed.

Lemma attr_setn : forall w c x n, attr (setn w c x) n = if n =? c then akey x else attr w n.
Proof. intros. unfold attr. rewrite getn_setn. destruct (n =? c); reflexivity. Qed.

Lemma attr_set_par : forall w c p n, attr (set_par w c p) n = attr w n.
Proof.
  intros. unfold set_par. rewrite attr_setn. destruct (Z.eqb_spec n c) as [E|E]; [subst n|]; reflexivity.
Qed.

Lemma par_set_par : forall w c p n, par (set_par w c p) n = if n =? c then p else par w n.
Proof. intros. unfold par, set_par. rewrite getn_setn. destruct (n =? c); reflexivity. Qed.

Lemma kids_set_par : forall w c p, kids (set_par w c p) = kids w.
Proof. reflexivity. Qed.
Lemma tree_set_par : forall w c p, tree (set_par w c p) = tree w.
Proof. reflexivity. Qed.

Lemma attr_nodes : forall w w' n, nodes w' = nodes w -> attr w' n = attr w n.
Proof. intros w w' n H. unfold attr, getn. rewrite H. reflexivity. Qed.

Lemma nodes_mod_index_discard : forall w m n, nodes (mod_index_discard w m n) = nodes w.
Proof. intros. unfold mod_index_discard. destruct (kindof w n); try reflexivity. destruct (referent (getn w n)); reflexivity. Qed.
Lemma kids_mod_index_discard : forall w m n, kids (mod_index_discard w m n) = kids w.
Proof. intros. unfold mod_index_discard. destruct (kindof w n); try reflexivity. destruct (referent (getn w n)); reflexivity. Qed.
Lemma tree_mod_index_discard : forall w m n, tree (mod_index_discard w m n) = tree w.
Proof. intros. unfold mod_index_discard. destruct (kindof w n); try reflexivity. destruct (referent (getn w n)); reflexivity. Qed.
Lemma nodes_mod_index_add : forall w m n, nodes (mod_index_add w m n) = nodes w.
Proof. intros. unfold mod_index_add. destruct (kindof w n); try reflexivity. destruct (referent (getn w n)); reflexivity. Qed.
Lemma kids_mod_index_add : forall w m n, kids (mod_index_add w m n) = kids w.
Proof. intros. unfold mod_index_add. destruct (kindof w n); try reflexivity. destruct (referent (getn w n)); reflexivity. Qed.
Lemma tree_mod_index_add : forall w m n, tree (mod_index_add w m n) = tree w.
Proof. intros. unfold mod_index_add. destruct (kindof w n); try reflexivity. destruct (referent (getn w n)); reflexivity. Qed.

Lemma attr_mod_index_discard : forall w m n x, attr (mod_index_discard w m n) x = attr w x.
Proof. intros. apply attr_nodes, nodes_mod_index_discard. Qed.
Lemma attr_mod_index_add : forall w m n x, attr (mod_index_add w m n) x = attr w x.
Proof. intros. apply attr_nodes, nodes_mod_index_add. Qed.

Lemma attr_drop_kid : forall w p c n, attr (drop_kid w p c) n = attr w n. Proof. reflexivity. Qed.
Lemma attr_push_kid : forall w p c n, attr (push_kid w p c) n = attr w n. Proof. reflexivity. Qed.
Lemma attr_cache_add : forall w ir c n, attr (cache_add w ir c) n = attr w n. Proof. reflexivity. Qed.
Lemma attr_cache_remove : forall w ir c n, attr (fst (cache_remove w ir c)) n = attr w n. Proof. reflexivity. Qed.
Lemma attr_set_cache : forall w f n, attr (set_cache w f) n = attr w n. Proof. reflexivity. Qed.
Lemma attr_set_kids : forall w f n, attr (set_kids w f) n = attr w n. Proof. reflexivity. Qed.
Lemma attr_set_tree : forall w f n, attr (set_tree w f) n = attr w n. Proof. reflexivity. Qed.
Lemma attr_set_nix : forall w f n, attr (set_nix w f) n = attr w n. Proof. reflexivity. Qed.
Lemma attr_set_rix : forall w f n, attr (set_rix w f) n = attr w n. Proof. reflexivity. Qed.
Lemma attr_set_symx : forall w f n, attr (set_symx w f) n = attr w n. Proof. reflexivity. Qed.
Lemma attr_tree_add_ev : forall w p o n, attr (tree_add_ev w p o) n = attr w n. Proof. reflexivity. Qed.
Lemma attr_tree_disc_ev : forall w p o n, attr (tree_disc_ev w p o) n = attr w n. Proof. reflexivity. Qed.

Global Hint Rewrite attr_set_par attr_mod_index_discard attr_mod_index_add attr_drop_kid attr_push_kid
  attr_cache_add attr_cache_remove attr_set_cache attr_set_kids attr_set_tree attr_set_nix attr_set_rix
  attr_set_symx attr_tree_add_ev attr_tree_disc_ev : wf.

Lemma kids_mod_index_discard' : forall w m n x, kids (mod_index_discard w m n) x = kids w x.
Proof. intros. rewrite kids_mod_index_discard. reflexivity. Qed.
Lemma tree_mod_index_discard' : forall w m n x, tree (mod_index_discard w m n) x = tree w x.
Proof. intros. rewrite tree_mod_index_discard. reflexivity. Qed.
Lemma kids_mod_index_add' : forall w m n x, kids (mod_index_add w m n) x = kids w x.
Proof. intros. rewrite kids_mod_index_add. reflexivity. Qed.
Lemma tree_mod_index_add' : forall w m n x, tree (mod_index_add w m n) x = tree w x.
Proof. intros. rewrite tree_mod_index_add. reflexivity. Qed.

(* projection simplifier: exposes kids/tree of a chain of primitives *)
Ltac wproj :=
  cbn [fst snd nodes kids tree cache nix rix symx set_nodes set_kids set_cache set_nix set_rix set_tree set_symx
       setn set_par drop_kid push_kid tree_add_ev tree_disc_ev cache_add cache_remove symx_upd].

(* ================================================================== *)
(** * set_discard *)

Lemma set_discard_attr : forall w p c n, attr (fst (set_discard w p c)) n = attr w n.
Proof.
  intros w p c n. unfold set_discard.
  destruct (negb (mem c (kids w p))); [reflexivity|].
  destruct (kindof w p); try reflexivity.
  - destruct (ir_of _ p) as [ir|]; unfold cache_remove; cbn [fst]; autorewrite with wf; reflexivity.
  - destruct (ir_of _ p) as [ir|]; unfold cache_remove; cbn [fst]; autorewrite with wf; reflexivity.
  - destruct (ir_of _ p) as [ir|]; unfold cache_remove; cbn [fst]; autorewrite with wf; reflexivity.
Qed.

Lemma key_of_kind_mod : forall w p c, kindof w p = KMod -> key_of w p c = None.
Proof. intros w p c K. unfold key_of. rewrite K. reflexivity. Qed.
Lemma key_of_kind_sec : forall w p c, kindof w p = KSec -> key_of w p c = addr_iv w c.
Proof. intros w p c K. unfold key_of. rewrite K. reflexivity. Qed.
Lemma key_of_kind_bi : forall w p c, kindof w p = KBI -> key_of w p c = off_iv w c.
Proof. intros w p c K. unfold key_of. rewrite K. reflexivity. Qed.

Lemma set_discard_sync : forall w p c, SyncAll w -> SyncAll (fst (set_discard w p c)).
Proof.
  intros w p c H. unfold set_discard.
  destruct (negb (mem c (kids w p))); [exact H|].
  destruct (kindof w p) eqn:K; try exact H.
  - destruct (ir_of _ p) as [ir|]; unfold cache_remove; cbn [fst];
    (apply sync_discard_at with (w := w) (p := p) (c := c);
     [exact H
     |intros n; autorewrite with wf; reflexivity
     |intros n; wproj; rewrite kids_mod_index_discard; reflexivity
     |intros n; wproj; rewrite tree_mod_index_discard, (key_of_kind_mod w p c K); wproj;
      destruct (Z.eqb_spec n p) as [E|E]; [subst n|]; reflexivity]).
  - destruct (ir_of _ p) as [ir|]; unfold cache_remove; cbn [fst];
    (apply sync_discard_at with (w := w) (p := p) (c := c);
     [exact H
     |intros n; autorewrite with wf; reflexivity
     |intros n; reflexivity
     |intros n; rewrite (key_of_kind_sec w p c K); reflexivity]).
  - destruct (ir_of _ p) as [ir|]; unfold cache_remove; cbn [fst];
    (apply sync_discard_at with (w := w) (p := p) (c := c);
     [exact H
     |intros n; autorewrite with wf; reflexivity
     |intros n; reflexivity
     |intros n; rewrite (key_of_kind_bi w p c K); reflexivity]).
Qed.

(* the "leave the old owner first" prefix shared by all adders *)
Definition detach (w : world) (c : id) : world * bool :=
  match par w c with Some old => set_discard w old c | None => (w, true) end.

Lemma detach_attr : forall w c n, attr (fst (detach w c)) n = attr w n.
Proof. intros. unfold detach. destruct (par w c); [apply set_discard_attr|reflexivity]. Qed.

Lemma detach_sync : forall w c, SyncAll w -> SyncAll (fst (detach w c)).
Proof. intros w c H. unfold detach. destruct (par w c); [apply set_discard_sync|]; exact H. Qed.

Lemma key_of_kind_other : forall w p c, kindof w p <> KBI -> kindof w p <> KSec -> key_of w p c = None.
Proof. intros w p c K1 K2. unfold key_of. destruct (kindof w p); try reflexivity; congruence. Qed.

Lemma set_add1_attr : forall w p c n, attr (fst (set_add1 w p c)) n = attr w n.
Proof.
  intros w p c n. unfold set_add1.
  destruct (kindof w p); try reflexivity.
  - fold (detach w c). destruct (detach w c) as [w0' ok0] eqn:D. cbn [fst].
    destruct (ir_of _ p) as [ir|]; autorewrite with wf;
    (replace w0' with (fst (detach w c)) by (rewrite D; reflexivity)); apply detach_attr.
  - fold (detach w c). destruct (detach w c) as [w0' ok0] eqn:D. cbn [fst].
    destruct (ir_of _ p) as [ir|]; autorewrite with wf;
    (replace w0' with (fst (detach w c)) by (rewrite D; reflexivity)); apply detach_attr.
Qed.

Lemma set_add1_sync : forall w p c, SyncAll w -> SyncAll (fst (set_add1 w p c)).
Proof.
  intros w p c H. unfold set_add1.
  destruct (kindof w p) eqn:K; try exact H.
  - fold (detach w c). pose proof (detach_sync w c H) as S0. pose proof (detach_attr w c p) as A0.
    apply attr_kindof in A0. rewrite K in A0.
    destruct (detach w c) as [w0' ok0]. cbn [fst] in *.
    apply sync_add_at with (w := w0') (p := p) (c := c).
    + exact S0.
    + intros n. destruct (ir_of _ p) as [ir|]; autorewrite with wf; reflexivity.
    + intros n. destruct (ir_of _ p) as [ir|]; wproj; rewrite kids_mod_index_add; reflexivity.
    + intros n. rewrite (key_of_kind_mod w0' p c A0). cbn [lt_add].
      destruct (ir_of _ p) as [ir|]; wproj; rewrite tree_mod_index_add; wproj;
      destruct (Z.eqb_spec n p) as [E|E]; [subst n| |subst n|]; reflexivity.
  - fold (detach w c). pose proof (detach_sync w c H) as S0. pose proof (detach_attr w c p) as A0.
    apply attr_kindof in A0. rewrite K in A0.
    destruct (detach w c) as [w0' ok0]. cbn [fst] in *.
    apply sync_add_at with (w := w0') (p := p) (c := c).
    + exact S0.
    + intros n. destruct (ir_of _ p) as [ir|]; autorewrite with wf; reflexivity.
    + intros n. destruct (ir_of _ p) as [ir|]; reflexivity.
    + intros n. rewrite (key_of_kind_sec w0' p c A0).
      destruct (ir_of _ p) as [ir|]; reflexivity.
Qed.

(* ================================================================== *)
(** * blocks_update *)

Lemma sync_quiet0 : forall w w', SyncAll w ->
  (forall n, attr w' n = attr w n) -> (forall n, kids w' n = kids w n) -> (forall n, tree w' n = tree w n) ->
  SyncAll w'.
Proof.
  intros w w' H Ha Hk Ht. apply sync_same with (w := w); [exact H|exact Ht|].
  intros n. apply cur_ivs_ext; [apply Ha|apply Hk|intros; apply Ha].
Qed.

Lemma fold_pair_fst : forall (X B : Type) (F : world * B -> X -> world * B) (G : world -> X -> world),
  (forall w b x, fst (F (w, b) x) = G w x) ->
  forall l w b, fst (fold_left F l (w, b)) = fold_left G l w.
Proof.
  intros X B F G H l. induction l as [|a l IH]; intros w b; [reflexivity|].
  cbn [fold_left]. destruct (F (w, b) a) as [w' b'] eqn:E. rewrite IH. f_equal.
  rewrite <- (H w b a), E. reflexivity.
Qed.

Lemma fold_left_inv : forall (X : Type) (I : world -> Prop) (G : world -> X -> world) l,
  (forall w x, In x l -> I w -> I (G w x)) -> forall w, I w -> I (fold_left G l w).
Proof.
  intros X I G l. induction l as [|a l IH]; intros H w Hw; [exact Hw|].
  cbn [fold_left]. apply IH.
  - intros w' x Hx. apply H. right. exact Hx.
  - apply H; [left; reflexivity|exact Hw].
Qed.

Definition bu_step (bi : id) (node_ir : option id) (w : world) (v : id) : world :=
  match node_ir with
  | Some ir => cache_add (set_par (fst (detach w v)) v (Some bi)) ir v
  | None => set_par (fst (detach w v)) v (Some bi)
  end.

Definition bu_items (w : world) (bi : id) (items : list id) : list id :=
  filter (fun v => negb (mem v (kids w bi))) (dedup items).

Lemma blocks_update_fst : forall w bi items,
  fst (blocks_update w bi items) =
  fold_left (fun w v => push_kid w bi v) (bu_items w bi items)
    (fold_left (fun w v => tree_add_ev w bi (off_iv w v)) (bu_items w bi items)
       (fold_left (bu_step bi (ir_of w bi)) (bu_items w bi items) w)).
Proof.
  intros w bi items. unfold blocks_update. fold (bu_items w bi items).
  match goal with |- context [fold_left ?F (bu_items w bi items) (w, true)] => set (FF := F) end.
  rewrite <- (fold_pair_fst id bool FF (bu_step bi (ir_of w bi))) with (b := true).
  - destruct (fold_left FF (bu_items w bi items) (w, true)) as [w1 ok]. reflexivity.
  - intros w' b x. unfold FF, bu_step. fold (detach w' x).
    destruct (detach w' x) as [wa oka]. destruct (ir_of w bi); reflexivity.
Qed.

Lemma bu_step_attr : forall bi o w v n, attr (bu_step bi o w v) n = attr w n.
Proof. intros. unfold bu_step. destruct o; autorewrite with wf; apply detach_attr. Qed.

Lemma bu_step_sync : forall bi o w v, SyncAll w -> SyncAll (bu_step bi o w v).
Proof.
  intros bi o w v H. apply sync_quiet0 with (w := fst (detach w v)).
  - apply detach_sync. exact H.
  - intros n. unfold bu_step. destruct o; autorewrite with wf; reflexivity.
  - intros n. unfold bu_step. destruct o; reflexivity.
  - intros n. unfold bu_step. destruct o; reflexivity.
Qed.

Lemma foldB_nodes : forall bi l w,
  nodes (fold_left (fun w v => tree_add_ev w bi (off_iv w v)) l w) = nodes w.
Proof. intros bi l. induction l as [|a l IH]; intros w; [reflexivity|]. cbn [fold_left]. rewrite IH. reflexivity. Qed.

Lemma foldB_kids : forall bi l w,
  kids (fold_left (fun w v => tree_add_ev w bi (off_iv w v)) l w) = kids w.
Proof. intros bi l. induction l as [|a l IH]; intros w; [reflexivity|]. cbn [fold_left]. rewrite IH. reflexivity. Qed.

Lemma foldB_tree : forall bi l w n,
  tree (fold_left (fun w v => tree_add_ev w bi (off_iv w v)) l w) n =
  if n =? bi then fold_left (fun t v => lt_add (off_iv w v) t) l (tree w bi) else tree w n.
Proof.
  intros bi l. induction l as [|a l IH]; intros w n.
  - cbn [fold_left]. destruct (Z.eqb_spec n bi) as [E|E]; [subst n|]; reflexivity.
  - cbn [fold_left]. rewrite IH. wproj. rewrite upd_same.
    destruct (Z.eqb_spec n bi) as [E|E]; [reflexivity|]. rewrite upd_other by exact E. reflexivity.
Qed.

Lemma foldC_nodes : forall bi l w, nodes (fold_left (fun w v => push_kid w bi v) l w) = nodes w.
Proof. intros bi l. induction l as [|a l IH]; intros w; [reflexivity|]. cbn [fold_left]. rewrite IH. reflexivity. Qed.

Lemma foldC_tree : forall bi l w, tree (fold_left (fun w v => push_kid w bi v) l w) = tree w.
Proof. intros bi l. induction l as [|a l IH]; intros w; [reflexivity|]. cbn [fold_left]. rewrite IH. reflexivity. Qed.

Lemma foldC_kids : forall bi l w n,
  kids (fold_left (fun w v => push_kid w bi v) l w) n =
  if n =? bi then fold_left (fun ks v => push v ks) l (kids w bi) else kids w n.
Proof.
  intros bi l. induction l as [|a l IH]; intros w n.
  - cbn [fold_left]. destruct (Z.eqb_spec n bi) as [E|E]; [subst n|]; reflexivity.
  - cbn [fold_left]. rewrite IH. wproj. rewrite upd_same.
    destruct (Z.eqb_spec n bi) as [E|E]; [reflexivity|]. rewrite upd_other by exact E. reflexivity.
Qed.

Lemma sync_fold_add : forall g l t ks, Sync t (ivs_of g ks) ->
  Sync (fold_left (fun t v => lt_add (g v) t) l t) (ivs_of g (fold_left (fun ks v => push v ks) l ks)).
Proof.
  intros g l. induction l as [|a l IH]; intros t ks H; [exact H|].
  cbn [fold_left]. apply IH. apply sync_lt_add with (cur := ivs_of g ks); [exact H|].
  intros j. rewrite !iv_mem_ivs_of. apply hit_push.
Qed.

Lemma blocks_update_attr : forall w bi items n, attr (fst (blocks_update w bi items)) n = attr w n.
Proof.
  intros w bi items n. rewrite blocks_update_fst.
  rewrite (attr_nodes _ _ n (foldC_nodes bi _ _)), (attr_nodes _ _ n (foldB_nodes bi _ _)).
  revert n. apply (fold_left_inv id (fun w' => forall n, attr w' n = attr w n)).
  - intros w' x _ Hw' n. rewrite bu_step_attr. apply Hw'.
  - reflexivity.
Qed.

Lemma blocks_update_sync : forall w bi items, kindof w bi = KBI ->
  SyncAll w -> SyncAll (fst (blocks_update w bi items)).
Proof.
  intros w bi items K H. rewrite blocks_update_fst.
  set (l := bu_items w bi items).
  set (w1 := fold_left (bu_step bi (ir_of w bi)) l w).
  assert (S1 : SyncAll w1 /\ forall n, attr w1 n = attr w n).
  { apply (fold_left_inv id (fun w' => SyncAll w' /\ forall n, attr w' n = attr w n)).
    - intros w' x _ [Hs Ha]. split; [apply bu_step_sync; exact Hs|].
      intros n. rewrite bu_step_attr. apply Ha.
    - split; [exact H|reflexivity]. }
  destruct S1 as [S1 A1].
  set (w2 := fold_left (fun w v => tree_add_ev w bi (off_iv w v)) l w1).
  set (w3 := fold_left (fun w v => push_kid w bi v) l w2).
  assert (A3 : forall n, attr w3 n = attr w1 n).
  { intros n. unfold w3, w2.
    rewrite (attr_nodes _ _ n (foldC_nodes bi _ _)), (attr_nodes _ _ n (foldB_nodes bi _ _)). reflexivity. }
  assert (K1 : kindof w1 bi = KBI) by (rewrite (attr_kindof _ _ _ (A1 bi)); exact K).
  assert (T3 : forall n, tree w3 n =
            if n =? bi then fold_left (fun t v => lt_add (off_iv w1 v) t) l (tree w1 bi) else tree w1 n).
  { intros n. unfold w3. rewrite foldC_tree. unfold w2. apply foldB_tree. }
  assert (Q3 : forall n, kids w3 n =
            if n =? bi then fold_left (fun ks v => push v ks) l (kids w1 bi) else kids w1 n).
  { intros n. unfold w3. rewrite foldC_kids. unfold w2. rewrite !foldB_kids. reflexivity. }
  intros n. rewrite T3, cur_ivs_key, Q3.
  destruct (Z.eqb_spec n bi) as [E|E].
  - subst n.
    rewrite ivs_of_ext with (g := off_iv w1).
    + apply sync_fold_add. specialize (S1 bi). rewrite cur_ivs_key in S1.
      rewrite ivs_of_ext with (g := off_iv w1) in S1; [exact S1|].
      intros b _. apply key_of_kind_bi. exact K1.
    + intros b _. rewrite (key_of_attr w1 w3 bi b (A3 bi) (A3 b)). apply key_of_kind_bi. exact K1.
  - rewrite ivs_of_ext with (g := key_of w1 n).
    + rewrite <- cur_ivs_key. apply S1.
    + intros b _. apply key_of_attr; apply A3.
Qed.

(* ================================================================== *)
(** * The combined invariant, set operations *)

Definition Good (w : world) : Prop := SyncAll w /\ NonNeg w.

Definition ret (w : world) (r : res world) : world := match r with Ok w' => w' | Err _ => w end.

Lemma step'_ret : forall w o, step' w o = ret w (step w o).
Proof. reflexivity. Qed.

Lemma ret_flagged : forall (I : world -> Prop) w r, I w -> I (fst r) -> I (ret w (flagged r)).
Proof. intros I w [w' ok] Hw Hr. cbn [flagged fst] in *. destruct ok; assumption. Qed.

Lemma fold_ok_fst : forall f l w, fst (fold_ok f l w) = fold_left (fun w v => fst (f w v)) l w.
Proof.
  intros f l w. unfold fold_ok. apply fold_pair_fst. intros w' b x. destruct (f w' x); reflexivity.
Qed.

Lemma fold_ok_inv : forall (I : world -> Prop) f l,
  (forall w v, In v l -> I w -> I (fst (f w v))) -> forall w, I w -> I (fst (fold_ok f l w)).
Proof. intros I f l H w Hw. rewrite fold_ok_fst. apply fold_left_inv; assumption. Qed.

Lemma set_discard_good : forall w p c, Good w -> Good (fst (set_discard w p c)).
Proof.
  intros w p c [H N]. split; [apply set_discard_sync; exact H|].
  apply attr_nonneg with (w := w); [intros; apply set_discard_attr|exact N].
Qed.

Lemma set_add_attr : forall w p c n, attr (fst (set_add w p c)) n = attr w n.
Proof. intros. unfold set_add. destruct (kindof w p); try apply set_add1_attr. apply blocks_update_attr. Qed.

Lemma set_add_good : forall w p c, Good w -> Good (fst (set_add w p c)).
Proof.
  intros w p c [H N]. split.
  - unfold set_add. destruct (kindof w p) eqn:K; try (apply set_add1_sync; exact H).
    apply blocks_update_sync; assumption.
  - apply attr_nonneg with (w := w); [intros; apply set_add_attr|exact N].
Qed.

Lemma blocks_update_good : forall w bi items, kindof w bi = KBI -> Good w -> Good (fst (blocks_update w bi items)).
Proof.
  intros w bi items K [H N]. split; [apply blocks_update_sync; assumption|].
  apply attr_nonneg with (w := w); [intros; apply blocks_update_attr|exact N].
Qed.

Lemma do_set_good : forall w p fk m args, Good w -> Good (ret w (do_set w p fk m args)).
Proof.
  intros w p fk m args G. unfold do_set. cbv zeta.
  generalize (match args with a :: _ => a | [] => [] end). intros arg1.
  destruct m.
  - destruct arg1 as [|c [|c' r]]; try exact G. apply ret_flagged; [exact G|apply set_add_good; exact G].
  - destruct arg1 as [|c [|c' r]]; try exact G. apply ret_flagged; [exact G|apply set_discard_good; exact G].
  - destruct arg1 as [|c [|c' r]]; try exact G. destruct (mem c (field w p fk)); [|exact G].
    apply ret_flagged; [exact G|apply set_discard_good; exact G].
  - destruct (field w p fk) as [|x xs] eqn:F; [exact G|]. rewrite <- F.
    destruct arg1 as [|c [|c' r]]; try exact G. destruct (mem c (field w p fk)); [|exact G].
    apply ret_flagged; [exact G|apply set_discard_good; exact G].
  - apply ret_flagged; [exact G|]. apply fold_ok_inv; [|exact G]. intros; apply set_discard_good; assumption.
  - destruct (kindof w p) eqn:K;
    try (apply ret_flagged; [exact G|]; apply fold_ok_inv; [|exact G]; intros; apply set_add_good; assumption).
    apply ret_flagged; [exact G|]. apply blocks_update_good; assumption.
  - apply ret_flagged; [exact G|]. apply fold_ok_inv; [|exact G]. intros; apply set_add_good; assumption.
  - apply ret_flagged; [exact G|]. apply fold_ok_inv; [|exact G]. intros; apply set_discard_good; assumption.
  - apply ret_flagged; [exact G|]. apply fold_ok_inv; [|exact G]. intros; apply set_discard_good; assumption.
  - apply ret_flagged; [exact G|]. apply fold_ok_inv; [|exact G]. intros w' v _ G'.
    destruct (mem v (field w' p fk)); [apply set_discard_good|apply set_add_good]; exact G'.
Qed.
