(* Task SY: deferred index maintenance is unobservable.
   Part 1: SyncAll / NonNeg are preserved by every guarded operation.
   Part 2: lookups and schedules only ever change the `tree` component. *)
From Coq Require Import ZArith List Bool Lia.
From V Require Import Result LazyTree World WorldGuard ForestDefs InvDefs.
Import ListNotations.
Open Scope Z_scope.

(* ================================================================== *)
(** * Set-level lemmas about interval lists *)

Lemma iv_eqb_eq : forall a b, iv_eqb a b = true <-> a = b.
Proof.
  intros [a1 a2 a3] [b1 b2 b3]. unfold iv_eqb. cbn [ib ie idata].
  rewrite !andb_true_iff, !Z.eqb_eq. split.
  - intros [[H1 H2] H3]. subst. reflexivity.
  - intros H. injection H as H1 H2 H3. auto.
Qed.

Lemma iv_eqb_spec : forall a b, reflect (a = b) (iv_eqb a b).
Proof.
  intros a b. destruct (iv_eqb a b) eqn:E; constructor.
  - apply iv_eqb_eq. exact E.
  - intros H. apply iv_eqb_eq in H. congruence.
Qed.

Lemma iv_eqb_refl : forall a, iv_eqb a a = true.
Proof. intros a. apply iv_eqb_eq. reflexivity. Qed.

Lemma iv_eqb_sym : forall a b, iv_eqb a b = iv_eqb b a.
Proof.
  intros a b. destruct (iv_eqb_spec a b) as [E|E]; destruct (iv_eqb_spec b a) as [F|F]; congruence.
Qed.

Lemma iv_eqb_data : forall a b, idata a <> idata b -> iv_eqb a b = false.
Proof. intros a b H. destruct (iv_eqb_spec a b) as [E|E]; [subst; congruence|reflexivity]. Qed.

Lemma iv_mem_In : forall i t, iv_mem i t = true <-> In i t.
Proof.
  intros i t. unfold iv_mem. rewrite existsb_exists. split.
  - intros [x [Hx E]]. apply iv_eqb_eq in E. subst. exact Hx.
  - intros H. exists i. split; [exact H|apply iv_eqb_refl].
Qed.

Lemma iv_mem_cons : forall i a t, iv_mem i (a :: t) = iv_eqb i a || iv_mem i t.
Proof. reflexivity. Qed.

Lemma iv_mem_app : forall i a b, iv_mem i (a ++ b) = iv_mem i a || iv_mem i b.
Proof. intros. unfold iv_mem. apply existsb_app. Qed.

Lemma iv_mem_tree_add : forall i j t, iv_mem i (tree_add j t) = iv_eqb i j || iv_mem i t.
Proof.
  intros i j t. unfold tree_add. destruct (iv_mem j t) eqn:E.
  - destruct (iv_eqb_spec i j) as [H|H]; [subst; rewrite E|]; reflexivity.
  - rewrite iv_mem_app. cbn. rewrite orb_false_r. apply orb_comm.
Qed.

Lemma iv_mem_tree_discard : forall i j t, iv_mem i (tree_discard j t) = negb (iv_eqb i j) && iv_mem i t.
Proof.
  intros i j t. unfold tree_discard. induction t as [|a t IH].
  - cbn. rewrite andb_false_r. reflexivity.
  - cbn [filter]. destruct (iv_eqb_spec j a) as [H|H]; cbn [negb].
    + subst a. rewrite iv_mem_cons, IH. destruct (iv_eqb i j); reflexivity.
    + rewrite !iv_mem_cons, IH. destruct (iv_eqb_spec i a) as [Ha|Ha]; cbn.
      * subst a. destruct (iv_eqb_spec i j) as [Hj|Hj]; [congruence|reflexivity].
      * reflexivity.
Qed.

Lemma iv_mem_fold_add : forall i l acc,
  iv_mem i (fold_left (fun t i => tree_add i t) l acc) = iv_mem i l || iv_mem i acc.
Proof.
  intros i l. induction l as [|a l IH]; intros acc.
  - reflexivity.
  - cbn [fold_left]. rewrite IH, iv_mem_tree_add, iv_mem_cons.
    destruct (iv_eqb i a), (iv_mem i l); reflexivity.
Qed.

Lemma iv_mem_tree_build : forall i l, iv_mem i (tree_build l) = iv_mem i l.
Proof. intros. unfold tree_build. rewrite iv_mem_fold_add. cbn. apply orb_false_r. Qed.

Lemma fold_apply_snoc : forall es e idx,
  fold_left apply_ev (es ++ [e]) idx = apply_ev (fold_left apply_ev es idx) e.
Proof. intros. rewrite fold_left_app. reflexivity. Qed.

Lemma NoDup_snoc : forall (X : Type) (l : list X) x, NoDup l -> ~ In x l -> NoDup (l ++ [x]).
Proof.
  intros X l x Hn. induction Hn as [|y l Hy Hn IH]; intros Hx.
  - cbn. constructor; [intros []|constructor].
  - cbn. constructor.
    + rewrite in_app_iff. intros [H|[H|[]]]; [contradiction|]. subst. apply Hx. left. reflexivity.
    + apply IH. intros H. apply Hx. right. exact H.
Qed.

Lemma NoDup_tree_add : forall j t, NoDup t -> NoDup (tree_add j t).
Proof.
  intros j t H. unfold tree_add. destruct (iv_mem j t) eqn:E; [exact H|].
  apply NoDup_snoc; [exact H|]. intros Hin. apply iv_mem_In in Hin. congruence.
Qed.

Lemma NoDup_tree_discard : forall j t, NoDup t -> NoDup (tree_discard j t).
Proof. intros. unfold tree_discard. apply NoDup_filter. assumption. Qed.

Lemma NoDup_fold_add : forall l acc, NoDup acc -> NoDup (fold_left (fun t i => tree_add i t) l acc).
Proof.
  intros l. induction l as [|a l IH]; intros acc H; [exact H|].
  cbn [fold_left]. apply IH. apply NoDup_tree_add. exact H.
Qed.

Lemma NoDup_tree_build : forall l, NoDup (tree_build l).
Proof. intros. unfold tree_build. apply NoDup_fold_add. constructor. Qed.

Lemma NoDup_apply_ev : forall e t, NoDup t -> NoDup (apply_ev t e).
Proof. intros [i|i] t H; cbn; [apply NoDup_tree_add|apply NoDup_tree_discard]; exact H. Qed.

Lemma NoDup_fold_ev : forall es t, NoDup t -> NoDup (fold_left apply_ev es t).
Proof.
  intros es. induction es as [|e es IH]; intros t H; [exact H|].
  cbn [fold_left]. apply IH. apply NoDup_apply_ev. exact H.
Qed.

Lemma iv_equiv_refl : forall a, iv_equiv a a.
Proof. intros a i. reflexivity. Qed.

Lemma iv_equiv_trans : forall a b c, iv_equiv a b -> iv_equiv b c -> iv_equiv a c.
Proof. intros a b c H1 H2 i. rewrite H1. apply H2. Qed.

Lemma iv_equiv_sym : forall a b, iv_equiv a b -> iv_equiv b a.
Proof. intros a b H i. symmetry. apply H. Qed.

Lemma lt_get_exact : forall t cur n, Sync t cur ->
  let '(t', idx) := lt_get cur n t in NoDup idx /\ iv_equiv idx cur /\ Sync t' cur.
Proof.
  intros t cur n H. unfold lt_get, Sync in *. cbn [lindex levents fold_left].
  assert (B : NoDup (tree_build cur) /\ iv_equiv (tree_build cur) cur).
  { split; [apply NoDup_tree_build|]. intros i. apply iv_mem_tree_build. }
  destruct (lindex t) as [idx0|] eqn:E.
  - destruct (Nat.leb n (length (levents t))) eqn:L.
    + destruct B as [B1 B2]. auto.
    + destruct H as [H1 H2]. assert (N : NoDup (fold_left apply_ev (levents t) idx0)) by (apply NoDup_fold_ev; exact H1).
      auto.
  - destruct B as [B1 B2]. auto.
Qed.

(* the corollaries in projection form *)
Lemma lt_get_sync : forall t cur n, Sync t cur -> Sync (fst (lt_get cur n t)) cur.
Proof.
  intros t cur n H. pose proof (lt_get_exact t cur n H) as G.
  destruct (lt_get cur n t) as [t' idx]. cbn. tauto.
Qed.

(* ================================================================== *)
(** * Events as functions on membership *)

Definition add_sem (o : option iv) (j : iv) (b : bool) : bool :=
  match o with Some i => iv_eqb j i || b | None => b end.
Definition disc_sem (o : option iv) (j : iv) (b : bool) : bool :=
  match o with Some i => negb (iv_eqb j i) && b | None => b end.

Lemma sync_equiv : forall t cur cur', Sync t cur -> iv_equiv cur cur' -> Sync t cur'.
Proof.
  unfold Sync. intros t cur cur' H E. destruct (lindex t) as [idx|]; [|exact I].
  destruct H as [H1 H2]. split; [exact H1|]. eapply iv_equiv_trans; eauto.
Qed.

Lemma sync_lt_add : forall t cur cur' o, Sync t cur ->
  (forall j, iv_mem j cur' = add_sem o j (iv_mem j cur)) -> Sync (lt_add o t) cur'.
Proof.
  intros t cur cur' [i|] H E; cbn [lt_add add_sem] in *.
  - unfold Sync in *. cbn [lindex levents]. destruct (lindex t) as [idx|]; [|exact I].
    destruct H as [H1 H2]. split; [exact H1|].
    intros j. rewrite fold_apply_snoc. cbn [apply_ev]. rewrite iv_mem_tree_add, E, H2. reflexivity.
  - eapply sync_equiv; [exact H|]. intros j. symmetry. apply E.
Qed.

Lemma sync_lt_discard : forall t cur cur' o, Sync t cur ->
  (forall j, iv_mem j cur' = disc_sem o j (iv_mem j cur)) -> Sync (lt_discard o t) cur'.
Proof.
  intros t cur cur' [i|] H E; cbn [lt_discard disc_sem] in *.
  - unfold Sync in *. cbn [lindex levents]. destruct (lindex t) as [idx|]; [|exact I].
    destruct H as [H1 H2]. split; [exact H1|].
    intros j. rewrite fold_apply_snoc. cbn [apply_ev]. rewrite iv_mem_tree_discard, E, H2. reflexivity.
  - eapply sync_equiv; [exact H|]. intros j. symmetry. apply E.
Qed.

(* ================================================================== *)
(** * Keyed interval lists of a member list *)

Definition opt_list (o : option iv) : list iv := match o with Some i => [i] | None => [] end.
Definition ivs_of (g : id -> option iv) (l : list id) : list iv := flat_map (fun b => opt_list (g b)) l.
Definition hit (g : id -> option iv) (j : iv) (b : id) : bool :=
  match g b with Some i => iv_eqb j i | None => false end.
Definition keyed (g : id -> option iv) : Prop := forall b i, g b = Some i -> idata i = b.
Definition push (c : id) (l : list id) : list id := if mem c l then l else l ++ [c].

Lemma mem_In : forall x l, mem x l = true <-> In x l.
Proof.
  intros x l. unfold mem. rewrite existsb_exists. split.
  - intros [y [Hy E]]. apply Z.eqb_eq in E. subst. exact Hy.
  - intros H. exists x. split; [exact H|apply Z.eqb_refl].
Qed.

Lemma In_remove_id : forall x c l, In x (remove_id c l) <-> In x l /\ x <> c.
Proof.
  intros x c l. unfold remove_id. rewrite filter_In. rewrite negb_true_iff, Z.eqb_neq. reflexivity.
Qed.

Lemma iv_mem_ivs_of : forall g j l, iv_mem j (ivs_of g l) = existsb (hit g j) l.
Proof.
  intros g j l. induction l as [|a l IH]; [reflexivity|].
  unfold ivs_of in *. cbn [flat_map existsb]. rewrite iv_mem_app, IH. f_equal.
  unfold hit, opt_list. destruct (g a) as [i|]; [|reflexivity].
  rewrite iv_mem_cons. apply orb_false_r.
Qed.

Lemma ivs_of_ext : forall g g' l, (forall b, In b l -> g' b = g b) -> ivs_of g' l = ivs_of g l.
Proof.
  intros g g' l. induction l as [|a l IH]; intros H; [reflexivity|].
  unfold ivs_of in *. cbn [flat_map]. rewrite H by (left; reflexivity). f_equal.
  apply IH. intros b Hb. apply H. right. exact Hb.
Qed.

Lemma ivs_of_none : forall l, ivs_of (fun _ => None) l = [].
Proof. induction l as [|a l IH]; [reflexivity|]. unfold ivs_of in *. cbn. exact IH. Qed.

Lemma existsb_hit_ext : forall g g' j l, (forall b, In b l -> g' b = g b) ->
  existsb (hit g' j) l = existsb (hit g j) l.
Proof. intros. rewrite <- !iv_mem_ivs_of. f_equal. apply ivs_of_ext. assumption. Qed.

Lemma hit_push : forall g j c l,
  existsb (hit g j) (push c l) = add_sem (g c) j (existsb (hit g j) l).
Proof.
  intros g j c l. unfold push. destruct (mem c l) eqn:M.
  - apply mem_In in M. unfold add_sem. destruct (g c) as [i|] eqn:G; [|reflexivity].
    destruct (iv_eqb j i) eqn:E; [|reflexivity]. cbn [orb].
    apply existsb_exists. exists c. split; [exact M|]. unfold hit. rewrite G. exact E.
  - rewrite existsb_app. cbn [existsb]. unfold hit at 2. unfold add_sem.
    destruct (g c) as [i|]; rewrite orb_false_r; [apply orb_comm|reflexivity].
Qed.

Lemma hit_other : forall g j a c i, keyed g -> g c = Some i -> a <> c -> hit g j a = true -> iv_eqb j i = false.
Proof.
  intros g j a c i K G N H. unfold hit in H. destruct (g a) as [i'|] eqn:Ga; [|discriminate].
  apply iv_eqb_eq in H. subst i'. apply iv_eqb_data. rewrite (K _ _ Ga), (K _ _ G). exact N.
Qed.

Lemma hit_drop : forall g j c l, keyed g ->
  existsb (hit g j) (remove_id c l) = disc_sem (g c) j (existsb (hit g j) l).
Proof.
  intros g j c l K. induction l as [|a l IH].
  - cbn. unfold disc_sem. destruct (g c); [apply eq_sym, andb_false_r|reflexivity].
  - unfold remove_id in *. cbn [filter existsb]. destruct (Z.eqb_spec a c) as [E|E]; cbn [negb].
    + subst a. rewrite IH.
      assert (Hc : hit g j c = match g c with Some i => iv_eqb j i | None => false end) by reflexivity.
      rewrite Hc. unfold disc_sem. destruct (g c) as [i|]; [|reflexivity].
      destruct (iv_eqb j i); reflexivity.
    + cbn [existsb]. rewrite IH. unfold disc_sem. destruct (g c) as [i|] eqn:G; [|reflexivity].
      destruct (hit g j a) eqn:Ha; [|reflexivity].
      rewrite (hit_other g j a c i K G E Ha). reflexivity.
Qed.

Lemma remove_id_notin : forall b l, ~ In b l -> remove_id b l = l.
Proof.
  intros b l. induction l as [|a l IH]; intros H; [reflexivity|].
  unfold remove_id in *. cbn [filter]. destruct (Z.eqb_spec a b) as [E|E]; cbn [negb].
  - subst a. exfalso. apply H. left. reflexivity.
  - f_equal. apply IH. intros Hb. apply H. right. exact Hb.
Qed.

Lemma existsb_split : forall (f : id -> bool) b l, In b l -> existsb f l = f b || existsb f (remove_id b l).
Proof.
  intros f b l. induction l as [|a l IH]; intros H; [destruct H|].
  unfold remove_id in *. cbn [filter existsb]. destruct (Z.eqb_spec a b) as [E|E]; cbn [negb].
  - subst a. destruct (in_dec Z.eq_dec b l) as [Hi|Hi].
    + rewrite IH by exact Hi. destruct (f b); reflexivity.
    + fold (remove_id b l). rewrite (remove_id_notin b l Hi). reflexivity.
  - destruct H as [H|H]; [congruence|]. cbn [existsb]. rewrite IH by exact H.
    destruct (f a), (f b); reflexivity.
Qed.

Lemma add_sem_hit : forall g j b x, add_sem (g b) j x = hit g j b || x.
Proof. intros. unfold add_sem, hit. destruct (g b); reflexivity. Qed.

(* a member's key changes from [g b] to [g' b] *)
Lemma hit_change : forall g g' j b l, keyed g ->
  (forall k, k <> b -> g' k = g k) -> In b l ->
  existsb (hit g' j) l = add_sem (g' b) j (disc_sem (g b) j (existsb (hit g j) l)).
Proof.
  intros g g' j b l K Hg Hb.
  rewrite (existsb_split (hit g' j) b l Hb), add_sem_hit. f_equal.
  rewrite <- (hit_drop g j b l K).
  apply existsb_hit_ext. intros k Hk. apply In_remove_id in Hk. apply Hg. tauto.
Qed.

(* ================================================================== *)
(** * Attributes that the indexes depend on *)

Lemma upd_same : forall (X : Type) (f : id -> X) k v, upd f k v k = v.
Proof. intros. unfold upd. rewrite Z.eqb_refl. reflexivity. Qed.

Lemma upd_other : forall (X : Type) (f : id -> X) k v x, x <> k -> upd f k v x = f x.
Proof. intros X f k v x H. unfold upd. destruct (Z.eqb_spec x k); [contradiction|reflexivity]. Qed.

Definition akey (x : node) : kind * option Z * Z * Z := (nk x, naddr x, nsize x, noff x).
Definition attr (w : world) (n : id) := akey (getn w n).

Definition key_of (w : world) (n : id) : id -> option iv :=
  match kindof w n with KBI => off_iv w | KSec => addr_iv w | _ => fun _ => None end.

Lemma attr_kindof : forall w w' n, attr w' n = attr w n -> kindof w' n = kindof w n.
Proof. unfold attr, akey, kindof. intros w w' n H. injection H as H1 H2 H3 H4. exact H1. Qed.

Lemma attr_off_iv : forall w w' n, attr w' n = attr w n -> off_iv w' n = off_iv w n.
Proof. unfold attr, akey, off_iv. intros w w' n H. injection H as H1 H2 H3 H4. rewrite H3, H4. reflexivity. Qed.

Lemma attr_addr_iv : forall w w' n, attr w' n = attr w n -> addr_iv w' n = addr_iv w n.
Proof. unfold attr, akey, addr_iv. intros w w' n H. injection H as H1 H2 H3 H4. rewrite H2, H3. reflexivity. Qed.

Lemma attr_nonneg : forall w w', (forall n, attr w' n = attr w n) -> NonNeg w -> NonNeg w'.
Proof.
  intros w w' H N n. specialize (H n). specialize (N n). unfold attr, akey in H.
  injection H as H1 H2 H3 H4. rewrite H3, H4. exact N.
Qed.

Lemma key_of_attr : forall w w' n b, attr w' n = attr w n -> attr w' b = attr w b ->
  key_of w' n b = key_of w n b.
Proof.
  intros w w' n b Hn Hb. unfold key_of. rewrite (attr_kindof _ _ _ Hn).
  destruct (kindof w n); try reflexivity; [apply attr_addr_iv|apply attr_off_iv]; exact Hb.
Qed.

Lemma keyed_off_iv : forall w, keyed (off_iv w).
Proof. intros w b i H. unfold off_iv in H. injection H as H. subst i. reflexivity. Qed.

Lemma keyed_addr_iv : forall w, keyed (addr_iv w).
Proof.
  intros w b i H. unfold addr_iv in H. destruct (naddr (getn w b)); [|discriminate].
  injection H as H. subst i. reflexivity.
Qed.

Lemma keyed_key_of : forall w n, keyed (key_of w n).
Proof.
  intros w n. unfold key_of. destruct (kindof w n); try (intros b i H; discriminate);
  [apply keyed_addr_iv|apply keyed_off_iv].
Qed.

Lemma cur_ivs_key : forall w n, cur_ivs w n = ivs_of (key_of w n) (kids w n).
Proof.
  intros w n. unfold cur_ivs, key_of. destruct (kindof w n); try reflexivity;
  symmetry; apply ivs_of_none.
Qed.

Lemma cur_ivs_ext : forall w w' n, attr w' n = attr w n -> kids w' n = kids w n ->
  (forall b, In b (kids w n) -> attr w' b = attr w b) -> cur_ivs w' n = cur_ivs w n.
Proof.
  intros w w' n Hn Hk Hb. rewrite !cur_ivs_key, Hk. apply ivs_of_ext.
  intros b Hi. apply key_of_attr; [exact Hn|apply Hb; exact Hi].
Qed.

(* ---------- generic shapes of an update ---------- *)

(* nothing that an index depends on changed *)
Lemma sync_same : forall w w', SyncAll w ->
  (forall n, tree w' n = tree w n) -> (forall n, cur_ivs w' n = cur_ivs w n) -> SyncAll w'.
Proof. intros w w' H Ht Hc n. rewrite Ht, Hc. apply H. Qed.

Lemma sync_discard_at : forall w w' p c, SyncAll w ->
  (forall n, attr w' n = attr w n) ->
  (forall n, kids w' n = if n =? p then remove_id c (kids w p) else kids w n) ->
  (forall n, tree w' n = if n =? p then lt_discard (key_of w p c) (tree w p) else tree w n) ->
  SyncAll w'.
Proof.
  intros w w' p c H Ha Hk Ht n. rewrite Ht. destruct (Z.eqb_spec n p) as [E|E].
  - subst n. apply sync_lt_discard with (cur := cur_ivs w p); [apply H|].
    intros j. rewrite !cur_ivs_key, !iv_mem_ivs_of, Hk, Z.eqb_refl.
    rewrite <- (hit_drop _ j c _ (keyed_key_of w p)).
    apply existsb_hit_ext. intros b Hb. apply key_of_attr; apply Ha.
  - rewrite cur_ivs_ext with (w := w); [apply H|apply Ha| |intros; apply Ha].
    rewrite Hk. destruct (Z.eqb_spec n p); [contradiction|reflexivity].
Qed.

Lemma sync_add_at : forall w w' p c, SyncAll w ->
  (forall n, attr w' n = attr w n) ->
  (forall n, kids w' n = if n =? p then push c (kids w p) else kids w n) ->
  (forall n, tree w' n = if n =? p then lt_add (key_of w p c) (tree w p) else tree w n) ->
  SyncAll w'.
Proof.
  intros w w' p c H Ha Hk Ht n. rewrite Ht. destruct (Z.eqb_spec n p) as [E|E].
  - subst n. apply sync_lt_add with (cur := cur_ivs w p); [apply H|].
    intros j. rewrite !cur_ivs_key, !iv_mem_ivs_of, Hk, Z.eqb_refl.
    rewrite <- (hit_push _ j c _).
    apply existsb_hit_ext. intros b Hb. apply key_of_attr; apply Ha.
  - rewrite cur_ivs_ext with (w := w); [apply H|apply Ha| |intros; apply Ha].
    rewrite Hk. destruct (Z.eqb_spec n p); [contradiction|reflexivity].
Qed.

(* ================================================================== *)
(** * Frame lemmas for the primitives *)

Lemma getn_setn : forall w c x n, getn (setn w c x) n = if n =? c then x else getn w n.
Proof. intros. unfold getn, setn. cbn [nodes set_nodes]. unfold upd. destruct (n =? c); reflexivity. Qed.

Lemma attr_setn : forall w c x n, attr (setn w c x) n = if n =? c then akey x else attr w n.
Proof. intros. unfold attr. rewrite getn_setn. destruct (n =? c); reflexivity. Qed.

Lemma attr_set_par : forall w c p n, attr (set_par w c p) n = attr w n.
Proof.
  intros. unfold set_par. rewrite attr_setn. destruct (Z.eqb_spec n c) as [E|E]; [subst n|]; reflexivity.
Qed.

Lemma par_set_par : forall w c p n, par (set_par w c p) n = if n =? c then p else par w n.
Proof. intros. unfold par, set_par. rewrite getn_setn. destruct (n =? c); reflexivity. Qed.

Lemma kids_set_par : forall w c p, kids (set_par w c p) = kids w.
Proof. reflexivity. Qed.
Lemma tree_set_par : forall w c p, tree (set_par w c p) = tree w.
Proof. reflexivity. Qed.

Lemma attr_nodes : forall w w' n, nodes w' = nodes w -> attr w' n = attr w n.
Proof. intros w w' n H. unfold attr, getn. rewrite H. reflexivity. Qed.

Lemma nodes_mod_index_discard : forall w m n, nodes (mod_index_discard w m n) = nodes w.
Proof. intros. unfold mod_index_discard. destruct (kindof w n); try reflexivity. destruct (referent (getn w n)); reflexivity. Qed.
Lemma kids_mod_index_discard : forall w m n, kids (mod_index_discard w m n) = kids w.
Proof. intros. unfold mod_index_discard. destruct (kindof w n); try reflexivity. destruct (referent (getn w n)); reflexivity. Qed.
Lemma tree_mod_index_discard : forall w m n, tree (mod_index_discard w m n) = tree w.
Proof. intros. unfold mod_index_discard. destruct (kindof w n); try reflexivity. destruct (referent (getn w n)); reflexivity. Qed.
Lemma nodes_mod_index_add : forall w m n, nodes (mod_index_add w m n) = nodes w.
Proof. intros. unfold mod_index_add. destruct (kindof w n); try reflexivity. destruct (referent (getn w n)); reflexivity. Qed.
Lemma kids_mod_index_add : forall w m n, kids (mod_index_add w m n) = kids w.
Proof. intros. unfold mod_index_add. destruct (kindof w n); try reflexivity. destruct (referent (getn w n)); reflexivity. Qed.
Lemma tree_mod_index_add : forall w m n, tree (mod_index_add w m n) = tree w.
Proof. intros. unfold mod_index_add. destruct (kindof w n); try reflexivity. destruct (referent (getn w n)); reflexivity. Qed.

Lemma attr_mod_index_discard : forall w m n x, attr (mod_index_discard w m n) x = attr w x.
Proof. intros. apply attr_nodes, nodes_mod_index_discard. Qed.
Lemma attr_mod_index_add : forall w m n x, attr (mod_index_add w m n) x = attr w x.
Proof. intros. apply attr_nodes, nodes_mod_index_add. Qed.

Lemma attr_drop_kid : forall w p c n, attr (drop_kid w p c) n = attr w n. Proof. reflexivity. Qed.
Lemma attr_push_kid : forall w p c n, attr (push_kid w p c) n = attr w n. Proof. reflexivity. Qed.
Lemma attr_cache_add : forall w ir c n, attr (cache_add w ir c) n = attr w n. Proof. reflexivity. Qed.
Lemma attr_cache_remove : forall w ir c n, attr (fst (cache_remove w ir c)) n = attr w n. Proof. reflexivity. Qed.
Lemma attr_set_cache : forall w f n, attr (set_cache w f) n = attr w n. Proof. reflexivity. Qed.
Lemma attr_set_kids : forall w f n, attr (set_kids w f) n = attr w n. Proof. reflexivity. Qed.
Lemma attr_set_tree : forall w f n, attr (set_tree w f) n = attr w n. Proof. reflexivity. Qed.
Lemma attr_set_nix : forall w f n, attr (set_nix w f) n = attr w n. Proof. reflexivity. Qed.
Lemma attr_set_rix : forall w f n, attr (set_rix w f) n = attr w n. Proof. reflexivity. Qed.
Lemma attr_set_symx : forall w f n, attr (set_symx w f) n = attr w n. Proof. reflexivity. Qed.
Lemma attr_tree_add_ev : forall w p o n, attr (tree_add_ev w p o) n = attr w n. Proof. reflexivity. Qed.
Lemma attr_tree_disc_ev : forall w p o n, attr (tree_disc_ev w p o) n = attr w n. Proof. reflexivity. Qed.

Global Hint Rewrite attr_set_par attr_mod_index_discard attr_mod_index_add attr_drop_kid attr_push_kid
  attr_cache_add attr_cache_remove attr_set_cache attr_set_kids attr_set_tree attr_set_nix attr_set_rix
  attr_set_symx attr_tree_add_ev attr_tree_disc_ev : wf.

Lemma kids_mod_index_discard' : forall w m n x, kids (mod_index_discard w m n) x = kids w x.
Proof. intros. rewrite kids_mod_index_discard. reflexivity. Qed.
Lemma tree_mod_index_discard' : forall w m n x, tree (mod_index_discard w m n) x = tree w x.
Proof. intros. rewrite tree_mod_index_discard. reflexivity. Qed.
Lemma kids_mod_index_add' : forall w m n x, kids (mod_index_add w m n) x = kids w x.
Proof. intros. rewrite kids_mod_index_add. reflexivity. Qed.
Lemma tree_mod_index_add' : forall w m n x, tree (mod_index_add w m n) x = tree w x.
Proof. intros. rewrite tree_mod_index_add. reflexivity. Qed.

(* projection simplifier: exposes kids/tree of a chain of primitives *)
Ltac wproj :=
  cbn [fst snd nodes kids tree cache nix rix symx set_nodes set_kids set_cache set_nix set_rix set_tree set_symx
       setn set_par drop_kid push_kid tree_add_ev tree_disc_ev cache_add cache_remove symx_upd].

(* ================================================================== *)
(** * set_discard *)

Lemma set_discard_attr : forall w p c n, attr (fst (set_discard w p c)) n = attr w n.
Proof.
  intros w p c n. unfold set_discard.
  destruct (negb (mem c (kids w p))); [reflexivity|].
  destruct (kindof w p); try reflexivity.
  - destruct (ir_of _ p) as [ir|]; unfold cache_remove; cbn [fst]; autorewrite with wf; reflexivity.
  - destruct (ir_of _ p) as [ir|]; unfold cache_remove; cbn [fst]; autorewrite with wf; reflexivity.
  - destruct (ir_of _ p) as [ir|]; unfold cache_remove; cbn [fst]; autorewrite with wf; reflexivity.
Qed.

Lemma key_of_kind_mod : forall w p c, kindof w p = KMod -> key_of w p c = None.
Proof. intros w p c K. unfold key_of. rewrite K. reflexivity. Qed.
Lemma key_of_kind_sec : forall w p c, kindof w p = KSec -> key_of w p c = addr_iv w c.
Proof. intros w p c K. unfold key_of. rewrite K. reflexivity. Qed.
Lemma key_of_kind_bi : forall w p c, kindof w p = KBI -> key_of w p c = off_iv w c.
Proof. intros w p c K. unfold key_of. rewrite K. reflexivity. Qed.

Lemma set_discard_sync : forall w p c, SyncAll w -> SyncAll (fst (set_discard w p c)).
Proof.
  intros w p c H. unfold set_discard.
  destruct (negb (mem c (kids w p))); [exact H|].
  destruct (kindof w p) eqn:K; try exact H.
  - destruct (ir_of _ p) as [ir|]; unfold cache_remove; cbn [fst];
    (apply sync_discard_at with (w := w) (p := p) (c := c);
     [exact H
     |intros n; autorewrite with wf; reflexivity
     |intros n; wproj; rewrite kids_mod_index_discard; reflexivity
     |intros n; wproj; rewrite tree_mod_index_discard, (key_of_kind_mod w p c K); wproj;
      destruct (Z.eqb_spec n p) as [E|E]; [subst n|]; reflexivity]).
  - destruct (ir_of _ p) as [ir|]; unfold cache_remove; cbn [fst];
    (apply sync_discard_at with (w := w) (p := p) (c := c);
     [exact H
     |intros n; autorewrite with wf; reflexivity
     |intros n; reflexivity
     |intros n; rewrite (key_of_kind_sec w p c K); reflexivity]).
  - destruct (ir_of _ p) as [ir|]; unfold cache_remove; cbn [fst];
    (apply sync_discard_at with (w := w) (p := p) (c := c);
     [exact H
     |intros n; autorewrite with wf; reflexivity
     |intros n; reflexivity
     |intros n; rewrite (key_of_kind_bi w p c K); reflexivity]).
Qed.

(* the "leave the old owner first" prefix shared by all adders *)
Definition detach (w : world) (c : id) : world * bool :=
  match par w c with Some old => set_discard w old c | None => (w, true) end.

Lemma detach_attr : forall w c n, attr (fst (detach w c)) n = attr w n.
Proof. intros. unfold detach. destruct (par w c); [apply set_discard_attr|reflexivity]. Qed.

Lemma detach_sync : forall w c, SyncAll w -> SyncAll (fst (detach w c)).
Proof. intros w c H. unfold detach. destruct (par w c); [apply set_discard_sync|]; exact H. Qed.

Lemma key_of_kind_other : forall w p c, kindof w p <> KBI -> kindof w p <> KSec -> key_of w p c = None.
Proof. intros w p c K1 K2. unfold key_of. destruct (kindof w p); try reflexivity; congruence. Qed.

Lemma set_add1_attr : forall w p c n, attr (fst (set_add1 w p c)) n = attr w n.
Proof.
  intros w p c n. unfold set_add1.
  destruct (kindof w p); try reflexivity.
  - fold (detach w c). destruct (detach w c) as [w0' ok0] eqn:D. cbn [fst].
    destruct (ir_of _ p) as [ir|]; autorewrite with wf;
    (replace w0' with (fst (detach w c)) by (rewrite D; reflexivity)); apply detach_attr.
  - fold (detach w c). destruct (detach w c) as [w0' ok0] eqn:D. cbn [fst].
    destruct (ir_of _ p) as [ir|]; autorewrite with wf;
    (replace w0' with (fst (detach w c)) by (rewrite D; reflexivity)); apply detach_attr.
Qed.

Lemma set_add1_sync : forall w p c, SyncAll w -> SyncAll (fst (set_add1 w p c)).
Proof.
  intros w p c H. unfold set_add1.
  destruct (kindof w p) eqn:K; try exact H.
  - fold (detach w c). pose proof (detach_sync w c H) as S0. pose proof (detach_attr w c p) as A0.
    apply attr_kindof in A0. rewrite K in A0.
    destruct (detach w c) as [w0' ok0]. cbn [fst] in *.
    apply sync_add_at with (w := w0') (p := p) (c := c).
    + exact S0.
    + intros n. destruct (ir_of _ p) as [ir|]; autorewrite with wf; reflexivity.
    + intros n. destruct (ir_of _ p) as [ir|]; wproj; rewrite kids_mod_index_add; reflexivity.
    + intros n. rewrite (key_of_kind_mod w0' p c A0). cbn [lt_add].
      destruct (ir_of _ p) as [ir|]; wproj; rewrite tree_mod_index_add; wproj;
      destruct (Z.eqb_spec n p) as [E|E]; [subst n| |subst n|]; reflexivity.
  - fold (detach w c). pose proof (detach_sync w c H) as S0. pose proof (detach_attr w c p) as A0.
    apply attr_kindof in A0. rewrite K in A0.
    destruct (detach w c) as [w0' ok0]. cbn [fst] in *.
    apply sync_add_at with (w := w0') (p := p) (c := c).
    + exact S0.
    + intros n. destruct (ir_of _ p) as [ir|]; autorewrite with wf; reflexivity.
    + intros n. destruct (ir_of _ p) as [ir|]; reflexivity.
    + intros n. rewrite (key_of_kind_sec w0' p c A0).
      destruct (ir_of _ p) as [ir|]; reflexivity.
Qed.

(* ================================================================== *)
(** * blocks_update *)

Lemma sync_quiet0 : forall w w', SyncAll w ->
  (forall n, attr w' n = attr w n) -> (forall n, kids w' n = kids w n) -> (forall n, tree w' n = tree w n) ->
  SyncAll w'.
Proof.
  intros w w' H Ha Hk Ht. apply sync_same with (w := w); [exact H|exact Ht|].
  intros n. apply cur_ivs_ext; [apply Ha|apply Hk|intros; apply Ha].
Qed.

Lemma fold_pair_fst : forall (X B : Type) (F : world * B -> X -> world * B) (G : world -> X -> world),
  (forall w b x, fst (F (w, b) x) = G w x) ->
  forall l w b, fst (fold_left F l (w, b)) = fold_left G l w.
Proof.
  intros X B F G H l. induction l as [|a l IH]; intros w b; [reflexivity|].
  cbn [fold_left]. destruct (F (w, b) a) as [w' b'] eqn:E. rewrite IH. f_equal.
  rewrite <- (H w b a), E. reflexivity.
Qed.

Lemma fold_left_inv : forall (X : Type) (I : world -> Prop) (G : world -> X -> world) l,
  (forall w x, In x l -> I w -> I (G w x)) -> forall w, I w -> I (fold_left G l w).
Proof.
  intros X I G l. induction l as [|a l IH]; intros H w Hw; [exact Hw|].
  cbn [fold_left]. apply IH.
  - intros w' x Hx. apply H. right. exact Hx.
  - apply H; [left; reflexivity|exact Hw].
Qed.

Definition bu_step (bi : id) (node_ir : option id) (w : world) (v : id) : world :=
  match node_ir with
  | Some ir => cache_add (set_par (fst (detach w v)) v (Some bi)) ir v
  | None => set_par (fst (detach w v)) v (Some bi)
  end.

Definition bu_items (w : world) (bi : id) (items : list id) : list id :=
  filter (fun v => negb (mem v (kids w bi))) (dedup items).

Lemma blocks_update_fst : forall w bi items,
  fst (blocks_update w bi items) =
  fold_left (fun w v => push_kid w bi v) (bu_items w bi items)
    (fold_left (fun w v => tree_add_ev w bi (off_iv w v)) (bu_items w bi items)
       (fold_left (bu_step bi (ir_of w bi)) (bu_items w bi items) w)).
Proof.
  intros w bi items. unfold blocks_update. fold (bu_items w bi items).
  match goal with |- context [fold_left ?F (bu_items w bi items) (w, true)] => set (FF := F) end.
  rewrite <- (fold_pair_fst id bool FF (bu_step bi (ir_of w bi))) with (b := true).
  - destruct (fold_left FF (bu_items w bi items) (w, true)) as [w1 ok]. reflexivity.
  - intros w' b x. unfold FF, bu_step. fold (detach w' x).
    destruct (detach w' x) as [wa oka]. destruct (ir_of w bi); reflexivity.
Qed.

Lemma bu_step_attr : forall bi o w v n, attr (bu_step bi o w v) n = attr w n.
Proof. intros. unfold bu_step. destruct o; autorewrite with wf; apply detach_attr. Qed.

Lemma bu_step_sync : forall bi o w v, SyncAll w -> SyncAll (bu_step bi o w v).
Proof.
  intros bi o w v H. apply sync_quiet0 with (w := fst (detach w v)).
  - apply detach_sync. exact H.
  - intros n. unfold bu_step. destruct o; autorewrite with wf; reflexivity.
  - intros n. unfold bu_step. destruct o; reflexivity.
  - intros n. unfold bu_step. destruct o; reflexivity.
Qed.

Lemma foldB_nodes : forall bi l w,
  nodes (fold_left (fun w v => tree_add_ev w bi (off_iv w v)) l w) = nodes w.
Proof. intros bi l. induction l as [|a l IH]; intros w; [reflexivity|]. cbn [fold_left]. rewrite IH. reflexivity. Qed.

Lemma foldB_kids : forall bi l w,
  kids (fold_left (fun w v => tree_add_ev w bi (off_iv w v)) l w) = kids w.
Proof. intros bi l. induction l as [|a l IH]; intros w; [reflexivity|]. cbn [fold_left]. rewrite IH. reflexivity. Qed.

Lemma foldB_tree : forall bi l w n,
  tree (fold_left (fun w v => tree_add_ev w bi (off_iv w v)) l w) n =
  if n =? bi then fold_left (fun t v => lt_add (off_iv w v) t) l (tree w bi) else tree w n.
Proof.
  intros bi l. induction l as [|a l IH]; intros w n.
  - cbn [fold_left]. destruct (Z.eqb_spec n bi) as [E|E]; [subst n|]; reflexivity.
  - cbn [fold_left]. rewrite IH. wproj. rewrite upd_same.
    destruct (Z.eqb_spec n bi) as [E|E]; [reflexivity|]. rewrite upd_other by exact E. reflexivity.
Qed.

Lemma foldC_nodes : forall bi l w, nodes (fold_left (fun w v => push_kid w bi v) l w) = nodes w.
Proof. intros bi l. induction l as [|a l IH]; intros w; [reflexivity|]. cbn [fold_left]. rewrite IH. reflexivity. Qed.

Lemma foldC_tree : forall bi l w, tree (fold_left (fun w v => push_kid w bi v) l w) = tree w.
Proof. intros bi l. induction l as [|a l IH]; intros w; [reflexivity|]. cbn [fold_left]. rewrite IH. reflexivity. Qed.

Lemma foldC_kids : forall bi l w n,
  kids (fold_left (fun w v => push_kid w bi v) l w) n =
  if n =? bi then fold_left (fun ks v => push v ks) l (kids w bi) else kids w n.
Proof.
  intros bi l. induction l as [|a l IH]; intros w n.
  - cbn [fold_left]. destruct (Z.eqb_spec n bi) as [E|E]; [subst n|]; reflexivity.
  - cbn [fold_left]. rewrite IH. wproj. rewrite upd_same.
    destruct (Z.eqb_spec n bi) as [E|E]; [reflexivity|]. rewrite upd_other by exact E. reflexivity.
Qed.

Lemma sync_fold_add : forall g l t ks, Sync t (ivs_of g ks) ->
  Sync (fold_left (fun t v => lt_add (g v) t) l t) (ivs_of g (fold_left (fun ks v => push v ks) l ks)).
Proof.
  intros g l. induction l as [|a l IH]; intros t ks H; [exact H|].
  cbn [fold_left]. apply IH. apply sync_lt_add with (cur := ivs_of g ks); [exact H|].
  intros j. rewrite !iv_mem_ivs_of. apply hit_push.
Qed.

Lemma blocks_update_attr : forall w bi items n, attr (fst (blocks_update w bi items)) n = attr w n.
Proof.
  intros w bi items n. rewrite blocks_update_fst.
  rewrite (attr_nodes _ _ n (foldC_nodes bi _ _)), (attr_nodes _ _ n (foldB_nodes bi _ _)).
  revert n. apply (fold_left_inv id (fun w' => forall n, attr w' n = attr w n)).
  - intros w' x _ Hw' n. rewrite bu_step_attr. apply Hw'.
  - reflexivity.
Qed.

Lemma blocks_update_sync : forall w bi items, kindof w bi = KBI ->
  SyncAll w -> SyncAll (fst (blocks_update w bi items)).
Proof.
  intros w bi items K H. rewrite blocks_update_fst.
  set (l := bu_items w bi items).
  set (w1 := fold_left (bu_step bi (ir_of w bi)) l w).
  assert (S1 : SyncAll w1 /\ forall n, attr w1 n = attr w n).
  { apply (fold_left_inv id (fun w' => SyncAll w' /\ forall n, attr w' n = attr w n)).
    - intros w' x _ [Hs Ha]. split; [apply bu_step_sync; exact Hs|].
      intros n. rewrite bu_step_attr. apply Ha.
    - split; [exact H|reflexivity]. }
  destruct S1 as [S1 A1].
  set (w2 := fold_left (fun w v => tree_add_ev w bi (off_iv w v)) l w1).
  set (w3 := fold_left (fun w v => push_kid w bi v) l w2).
  assert (A3 : forall n, attr w3 n = attr w1 n).
  { intros n. unfold w3, w2.
    rewrite (attr_nodes _ _ n (foldC_nodes bi _ _)), (attr_nodes _ _ n (foldB_nodes bi _ _)). reflexivity. }
  assert (K1 : kindof w1 bi = KBI) by (rewrite (attr_kindof _ _ _ (A1 bi)); exact K).
  assert (T3 : forall n, tree w3 n =
            if n =? bi then fold_left (fun t v => lt_add (off_iv w1 v) t) l (tree w1 bi) else tree w1 n).
  { intros n. unfold w3. rewrite foldC_tree. unfold w2. apply foldB_tree. }
  assert (Q3 : forall n, kids w3 n =
            if n =? bi then fold_left (fun ks v => push v ks) l (kids w1 bi) else kids w1 n).
  { intros n. unfold w3. rewrite foldC_kids. unfold w2. rewrite !foldB_kids. reflexivity. }
  intros n. rewrite T3, cur_ivs_key, Q3.
  destruct (Z.eqb_spec n bi) as [E|E].
  - subst n.
    rewrite ivs_of_ext with (g := off_iv w1).
    + apply sync_fold_add. specialize (S1 bi). rewrite cur_ivs_key in S1.
      rewrite ivs_of_ext with (g := off_iv w1) in S1; [exact S1|].
      intros b _. apply key_of_kind_bi. exact K1.
    + intros b _. rewrite (key_of_attr w1 w3 bi b (A3 bi) (A3 b)). apply key_of_kind_bi. exact K1.
  - rewrite ivs_of_ext with (g := key_of w1 n).
    + rewrite <- cur_ivs_key. apply S1.
    + intros b _. apply key_of_attr; apply A3.
Qed.

(* ================================================================== *)
(** * The combined invariant, set operations *)

Definition Good (w : world) : Prop := SyncAll w /\ NonNeg w.

Definition ret (w : world) (r : res world) : world := match r with Ok w' => w' | Err _ => w end.

Lemma step'_ret : forall w o, step' w o = ret w (step w o).
Proof. reflexivity. Qed.

Lemma ret_flagged : forall (I : world -> Prop) w r, I w -> I (fst r) -> I (ret w (flagged r)).
Proof. intros I w [w' ok] Hw Hr. cbn [flagged fst] in *. destruct ok; assumption. Qed.

Lemma fold_ok_fst : forall f l w, fst (fold_ok f l w) = fold_left (fun w v => fst (f w v)) l w.
Proof.
  intros f l w. unfold fold_ok. apply fold_pair_fst. intros w' b x. destruct (f w' x); reflexivity.
Qed.

Lemma fold_ok_inv : forall (I : world -> Prop) f l,
  (forall w v, In v l -> I w -> I (fst (f w v))) -> forall w, I w -> I (fst (fold_ok f l w)).
Proof. intros I f l H w Hw. rewrite fold_ok_fst. apply fold_left_inv; assumption. Qed.

Lemma set_discard_good : forall w p c, Good w -> Good (fst (set_discard w p c)).
Proof.
  intros w p c [H N]. split; [apply set_discard_sync; exact H|].
  apply attr_nonneg with (w := w); [intros; apply set_discard_attr|exact N].
Qed.

Lemma set_add_attr : forall w p c n, attr (fst (set_add w p c)) n = attr w n.
Proof. intros. unfold set_add. destruct (kindof w p); try apply set_add1_attr. apply blocks_update_attr. Qed.

Lemma set_add_good : forall w p c, Good w -> Good (fst (set_add w p c)).
Proof.
  intros w p c [H N]. split.
  - unfold set_add. destruct (kindof w p) eqn:K; try (apply set_add1_sync; exact H).
    apply blocks_update_sync; assumption.
  - apply attr_nonneg with (w := w); [intros; apply set_add_attr|exact N].
Qed.

Lemma blocks_update_good : forall w bi items, kindof w bi = KBI -> Good w -> Good (fst (blocks_update w bi items)).
Proof.
  intros w bi items K [H N]. split; [apply blocks_update_sync; assumption|].
  apply attr_nonneg with (w := w); [intros; apply blocks_update_attr|exact N].
Qed.

Lemma do_set_good : forall w p fk m args, Good w -> Good (ret w (do_set w p fk m args)).
Proof.
  intros w p fk m args G. unfold do_set. cbv zeta.
  generalize (match args with a :: _ => a | [] => [] end). intros arg1.
  destruct m.
  - destruct arg1 as [|c [|c' r]]; try exact G. apply ret_flagged; [exact G|apply set_add_good; exact G].
  - destruct arg1 as [|c [|c' r]]; try exact G. apply ret_flagged; [exact G|apply set_discard_good; exact G].
  - destruct arg1 as [|c [|c' r]]; try exact G. destruct (mem c (field w p fk)); [|exact G].
    apply ret_flagged; [exact G|apply set_discard_good; exact G].
  - destruct (field w p fk) as [|x xs] eqn:F; [exact G|]. rewrite <- F.
    destruct arg1 as [|c [|c' r]]; try exact G. destruct (mem c (field w p fk)); [|exact G].
    apply ret_flagged; [exact G|apply set_discard_good; exact G].
  - apply ret_flagged; [exact G|]. apply fold_ok_inv; [|exact G]. intros; apply set_discard_good; assumption.
  - destruct (kindof w p) eqn:K;
    try (apply ret_flagged; [exact G|]; apply fold_ok_inv; [|exact G]; intros; apply set_add_good; assumption).
    apply ret_flagged; [exact G|]. apply blocks_update_good; assumption.
  - apply ret_flagged; [exact G|]. apply fold_ok_inv; [|exact G]. intros; apply set_add_good; assumption.
  - apply ret_flagged; [exact G|]. apply fold_ok_inv; [|exact G]. intros; apply set_discard_good; assumption.
  - apply ret_flagged; [exact G|]. apply fold_ok_inv; [|exact G]. intros; apply set_discard_good; assumption.
  - assert (G1 : Good (fst (fold_ok (fun w c => set_discard w p c)
                               (filter (fun c => mem c (field w p fk)) (dedup arg1)) w))).
    { apply fold_ok_inv; [|exact G]. intros; apply set_discard_good; assumption. }
    destruct (fold_ok (fun w c => set_discard w p c) (filter (fun c => mem c (field w p fk)) (dedup arg1)) w)
      as [w1 ok1].
    cbn [fst] in G1.
    assert (G2 : Good (fst (fold_ok (fun w c => set_add w p c)
                               (filter (fun c => negb (mem c (field w p fk))) (dedup arg1)) w1))).
    { apply fold_ok_inv; [|exact G1]. intros; apply set_add_good; assumption. }
    destruct (fold_ok (fun w c => set_add w p c) (filter (fun c => negb (mem c (field w p fk))) (dedup arg1)) w1)
      as [w2 ok2].
    cbn [fst] in G2.
    apply ret_flagged; [exact G|exact G2].
Qed.

(* ================================================================== *)
(** * Module-list operations: nothing an index depends on changes *)

Definition ModParOK (w : world) : Prop :=
  forall v old, kindof w v = KMod -> par w v = Some old -> kindof w old = KIR.

Definition mq (w w' : world) : Prop :=
  (forall n, attr w' n = attr w n) /\ (forall n, tree w' n = tree w n) /\
  (forall n, kids w' n = kids w n \/ kindof w n = KIR) /\
  (forall n, par w' n = par w n \/ par w' n = None \/ exists ir, par w' n = Some ir /\ kindof w ir = KIR).

Lemma mq_refl : forall w, mq w w.
Proof. intros w. repeat split; auto. Qed.

Lemma mq_trans : forall w w' w'', mq w w' -> mq w' w'' -> mq w w''.
Proof.
  intros w w' w'' (A1 & T1 & K1 & P1) (A2 & T2 & K2 & P2).
  assert (KK : forall n, kindof w' n = kindof w n) by (intros n; apply attr_kindof, A1).
  split; [|split; [|split]].
  - intros n. rewrite A2. apply A1.
  - intros n. rewrite T2. apply T1.
  - intros n. destruct (K2 n) as [E|E].
    + rewrite E. apply K1.
    + right. rewrite <- KK. exact E.
  - intros n. destruct (P2 n) as [E|[E|[ir [E1 E2]]]].
    + rewrite E. apply P1.
    + right. left. exact E.
    + right. right. exists ir. split; [exact E1|]. rewrite <- KK. exact E2.
Qed.

Lemma mq_sync : forall w w', mq w w' -> SyncAll w -> SyncAll w'.
Proof.
  intros w w' (A & T & K & P) H. apply sync_same with (w := w); [exact H|exact T|].
  intros n. destruct (K n) as [E|E].
  - apply cur_ivs_ext; [apply A|exact E|intros; apply A].
  - unfold cur_ivs. rewrite (attr_kindof _ _ _ (A n)), E. reflexivity.
Qed.

Lemma mq_good : forall w w', mq w w' -> Good w -> Good w'.
Proof.
  intros w w' M [H N]. split; [apply (mq_sync w w' M H)|].
  destruct M as (A & _). apply attr_nonneg with (w := w); assumption.
Qed.

Lemma mq_modpar : forall w w', mq w w' -> ModParOK w -> ModParOK w'.
Proof.
  intros w w' (A & T & K & P) M v old Kv Pv.
  rewrite (attr_kindof _ _ _ (A old)). rewrite (attr_kindof _ _ _ (A v)) in Kv.
  destruct (P v) as [E|[E|[ir [E1 E2]]]].
  - apply (M v old Kv). rewrite <- E. exact Pv.
  - congruence.
  - rewrite Pv in E1. injection E1 as E1. subst ir. exact E2.
Qed.

Lemma par_nodes : forall w w' n, nodes w' = nodes w -> par w' n = par w n.
Proof. intros w w' n H. unfold par, getn. rewrite H. reflexivity. Qed.

Lemma mq_set_kids : forall w ir l, kindof w ir = KIR -> mq w (set_kids w (upd (kids w) ir l)).
Proof.
  intros w ir l K. repeat split; auto. intros n. cbn [kids set_kids].
  destruct (Z.eqb_spec n ir) as [E|E]; [subst n; right; exact K|left; apply upd_other; exact E].
Qed.

Lemma ml_remove_hook_mq : forall w ir v, mq w (fst (ml_remove_hook w ir v)).
Proof.
  intros w ir v. unfold ml_remove_hook. split; [|split; [|split]].
  - intros n. autorewrite with wf. reflexivity.
  - intros n. reflexivity.
  - intros n. left. reflexivity.
  - intros n. change (par (fst (cache_remove (set_par w v None) ir v)) n) with (par (set_par w v None) n).
    rewrite par_set_par. destruct (n =? v); auto.
Qed.

Lemma ml_del_at_mq : forall w ir i, kindof w ir = KIR -> mq w (fst (ml_del_at w ir i)).
Proof.
  intros w ir i K. unfold ml_del_at. destruct (nth_error (kids w ir) i) as [v|]; [|apply mq_refl].
  pose proof (ml_remove_hook_mq w ir v) as M. destruct (ml_remove_hook w ir v) as [w1 ok]. cbn [fst] in *.
  eapply mq_trans; [exact M|]. apply mq_set_kids.
  destruct M as (A & _). rewrite (attr_kindof _ _ _ (A ir)). exact K.
Qed.

Lemma ml_remove_mq : forall w ir v, kindof w ir = KIR ->
  mq w (fst (match ml_remove w ir v with Ok r => r | Err _ => (w, false) end)).
Proof.
  intros w ir v K. unfold ml_remove. destruct (index_of v (kids w ir)); [|apply mq_refl].
  apply ml_del_at_mq. exact K.
Qed.

Lemma ml_add_hook_mq : forall w ir v, kindof w v = KMod -> kindof w ir = KIR -> ModParOK w ->
  mq w (fst (ml_add_hook w ir v)).
Proof.
  intros w ir v Kv Ki M. unfold ml_add_hook.
  assert (M1 : mq w (fst (match par w v with
                          | Some old => match ml_remove w old v with Ok r => r | Err _ => (w, false) end
                          | None => (w, true) end))).
  { destruct (par w v) as [old|] eqn:P; [|apply mq_refl]. apply ml_remove_mq. apply (M v old Kv P). }
  destruct (match par w v with Some old => _ | None => _ end) as [w1 ok]. cbn [fst] in *.
  eapply mq_trans; [exact M1|].
  assert (Ki1 : kindof w1 ir = KIR) by (destruct M1 as (A & _); rewrite (attr_kindof _ _ _ (A ir)); exact Ki).
  split; [|split; [|split]].
  - intros n. autorewrite with wf. reflexivity.
  - intros n. reflexivity.
  - intros n. left. reflexivity.
  - intros n. change (par (cache_add (set_par w1 v (Some ir)) ir v) n) with (par (set_par w1 v (Some ir)) n).
    rewrite par_set_par. destruct (n =? v); [|auto]. right. right. exists ir. auto.
Qed.

(* invariant carried through folds of module-list hooks *)
Definition MI (w w' : world) : Prop := mq w w' /\ ModParOK w'.

Lemma MI_refl : forall w, ModParOK w -> MI w w.
Proof. intros w M. split; [apply mq_refl|exact M]. Qed.

Lemma MI_step : forall w w' w'', MI w w' -> mq w' w'' -> MI w w''.
Proof.
  intros w w' w'' [M1 P1] M2. split; [eapply mq_trans; eassumption|]. apply (mq_modpar w' w'' M2 P1).
Qed.

Lemma MI_kind : forall w w' n, MI w w' -> kindof w' n = kindof w n.
Proof. intros w w' n [(A & _) _]. apply attr_kindof, A. Qed.

Lemma kind_eqb_eq : forall a b, kind_eqb a b = true -> a = b.
Proof. intros [] []; cbn; intros H; try reflexivity; discriminate. Qed.

Lemma is_k_kind : forall w n k, is_k w n k = true -> kindof w n = k.
Proof. intros w n k H. unfold is_k in H. apply andb_true_iff in H. apply kind_eqb_eq. tauto. Qed.

Lemma forest_modpar : forall w known, Forest w known -> ModParOK w.
Proof.
  intros w known F v old Kv Pv. destruct (f_kind w known F old v Pv) as (_ & _ & Hk).
  rewrite Kv in Hk. cbn in Hk. injection Hk as Hk. symmetry. exact Hk.
Qed.

Lemma fold_add_hook_MI : forall w0 w ir vs, MI w0 w -> kindof w ir = KIR ->
  (forall v, In v vs -> kindof w v = KMod) ->
  MI w0 (fst (fold_ok (fun w v => ml_add_hook w ir v) vs w)).
Proof.
  intros w0 w ir vs M Ki Kv.
  assert (Kw : forall n, kindof w n = kindof w0 n) by (intros n; apply (MI_kind w0 w n M)).
  apply fold_ok_inv; [|exact M].
  intros w' v Hv HI. eapply MI_step; [exact HI|]. apply ml_add_hook_mq.
  - rewrite (MI_kind w0 w' v HI), <- Kw. apply Kv. exact Hv.
  - rewrite (MI_kind w0 w' ir HI), <- Kw. exact Ki.
  - destruct HI as [_ P]. exact P.
Qed.

Lemma fold_remove_hook_MI : forall w ir vs, ModParOK w ->
  MI w (fst (fold_ok (fun w v => ml_remove_hook w ir v) vs w)).
Proof.
  intros w ir vs M. apply fold_ok_inv; [|apply MI_refl; exact M].
  intros w' v Hv HI. eapply MI_step; [exact HI|]. apply ml_remove_hook_mq.
Qed.

Lemma forallb_is_k : forall w vs k, forallb (fun v => is_k w v k) vs = true -> forall v, In v vs -> kindof w v = k.
Proof. intros w vs k H v Hv. rewrite forallb_forall in H. apply is_k_kind. apply H. exact Hv. Qed.

Lemma dedup_incl : forall x l, In x (dedup l) -> In x l.
Proof.
  intros x l. induction l as [|a l IH]; intros H; [exact H|].
  cbn [dedup] in H. destruct (mem a l).
  - right. apply IH. exact H.
  - destruct H as [H|H]; [left; exact H|right; apply IH; exact H].
Qed.

Lemma assign_slice_incl : forall l lo hi vs x, In x (assign_slice l lo hi vs) -> In x l \/ In x vs.
Proof.
  intros l lo hi vs x H. unfold assign_slice in H.
  apply in_app_or in H. destruct H as [H|H].
  - apply filter_In in H. destruct H as [H _]. left. rewrite <- (firstn_skipn lo l). apply in_or_app. left. exact H.
  - apply in_app_or in H. destruct H as [H|H].
    + right. apply dedup_incl. exact H.
    + apply filter_In in H. destruct H as [H _]. left. rewrite <- (firstn_skipn hi l). apply in_or_app. right. exact H.
Qed.

(* the extended-slice form: the members of the produced list are old members or assigned values *)
Lemma set_at_incl : forall (l : list id) p v x, In x (set_at p v l) -> In x l \/ x = v.
Proof.
  induction l as [|y l IH]; intros p v x H; [left; destruct p; exact H|].
  destruct p as [|p]; cbn [set_at] in H.
  - destruct H as [H|H]; [right; symmetry; exact H|left; right; exact H].
  - destruct H as [H|H]; [left; left; exact H|].
    destruct (IH p v x H) as [H1|H1]; [left; right; exact H1|right; exact H1].
Qed.

Lemma set_positions_incl : forall ps vs l x, In x (set_positions l ps vs) -> In x l \/ In x vs.
Proof.
  induction ps as [|p ps IH]; intros vs l x H; [left; exact H|].
  destruct vs as [|v vs]; [left; exact H|]. cbn [set_positions] in H.
  destruct (IH vs (set_at p v l) x H) as [H1|H1].
  - destruct (set_at_incl l p v x H1) as [H2|H2]; [left; exact H2|right; left; symmetry; exact H2].
  - right; right; exact H1.
Qed.

Lemma keep_last_from_incl : forall new0 ps rest pos x, In x (keep_last_from pos new0 rest ps) -> In x rest.
Proof.
  intros new0 ps. induction rest as [|y r IH]; intros pos x H; [exact H|].
  cbn [keep_last_from] in H. apply in_app_or in H. destruct H as [H|H].
  - left. destruct (last_assigned new0 ps y) as [q|]; [destruct (Nat.eqb q pos)|];
      (destruct H as [H|[]]; exact H) || destruct H.
  - right. apply (IH (S pos) x H).
Qed.

Lemma assign_ext_incl : forall l ps vs x, In x (assign_ext l ps vs) -> In x l \/ In x vs.
Proof.
  intros l ps vs x H. unfold assign_ext in H. apply keep_last_from_incl in H. apply set_positions_incl in H. exact H.
Qed.

(* assignment: hooks for the leavers, hooks for the enterers, then the list is stored *)
Lemma ml_assign_MI : forall w ir new, ModParOK w -> kindof w ir = KIR ->
  (forall v, In v new -> ~ In v (kids w ir) -> kindof w v = KMod) ->
  MI w (fst (ml_assign w ir new)).
Proof.
  intros w ir new M Gi Kv. unfold ml_assign. cbv zeta.
  match goal with |- context [fold_ok ?f ?l w] => pose proof (fold_remove_hook_MI w ir l M) as H1;
    destruct (fold_ok f l w) as [w1 ok1] end.
  cbn [fst] in H1.
  assert (H2 : MI w (fst (fold_ok (fun w v => ml_add_hook w ir v)
                            (filter (fun x => negb (mem x (kids w ir))) new) w1))).
  { apply fold_add_hook_MI; [exact H1|rewrite (MI_kind w w1 ir H1); exact Gi|].
    intros v Hv. rewrite (MI_kind w w1 v H1). apply filter_In in Hv. destruct Hv as [Hv Hm].
    apply Kv; [exact Hv|]. intros Hin. apply mem_In in Hin. rewrite Hin in Hm. discriminate. }
  destruct (fold_ok (fun w v => ml_add_hook w ir v) (filter (fun x => negb (mem x (kids w ir))) new) w1) as [w2 ok2].
  cbn [fst] in *.
  eapply MI_step; [exact H2|]. apply mq_set_kids. rewrite (MI_kind w w2 ir H2). exact Gi.
Qed.

(* insert / append are slice assignments: nobody leaves, v enters unless it is a member already *)
Lemma ml_insert_mq : forall w ir i v, kindof w v = KMod -> kindof w ir = KIR -> ModParOK w ->
  mq w (fst (ml_insert w ir i v)).
Proof.
  intros w ir i v Kv Ki M. unfold ml_insert. cbv zeta.
  apply (ml_assign_MI w ir _ M Ki). intros x Hx Hnx.
  apply assign_slice_incl in Hx. destruct Hx as [Hx|Hx]; [contradiction|].
  destruct Hx as [Hx|[]]. subst x. exact Kv.
Qed.

Lemma ml_append_mq : forall w ir v, kindof w v = KMod -> kindof w ir = KIR -> ModParOK w ->
  mq w (fst (ml_append w ir v)).
Proof. intros. unfold ml_append. apply ml_insert_mq; assumption. Qed.

Lemma mod_append_mq : forall w ir v, ModParOK w -> is_k w ir KIR = true -> is_k w v KMod = true ->
  MI w (ret w (flagged (ml_append w ir v))).
Proof.
  intros w ir v M Ki Kv. apply is_k_kind in Ki. apply is_k_kind in Kv.
  apply ret_flagged; [apply MI_refl; exact M|].
  eapply MI_step; [apply MI_refl; exact M|]. apply ml_append_mq; assumption.
Qed.

Lemma mod_insert_mq : forall w ir i v, ModParOK w -> is_k w ir KIR = true -> is_k w v KMod = true ->
  MI w (ret w (flagged (ml_insert w ir i v))).
Proof.
  intros w ir i v M Ki Kv. apply is_k_kind in Ki. apply is_k_kind in Kv.
  apply ret_flagged; [apply MI_refl; exact M|].
  eapply MI_step; [apply MI_refl; exact M|]. apply ml_insert_mq; assumption.
Qed.

Lemma fold_append_MI : forall w ir vs, ModParOK w -> kindof w ir = KIR ->
  (forall v, In v vs -> kindof w v = KMod) ->
  MI w (fst (fold_ok (fun w v => ml_append w ir v) vs w)).
Proof.
  intros w ir vs M Ki Kv. apply fold_ok_inv; [|apply MI_refl; exact M].
  intros w' v Hv HI. eapply MI_step; [exact HI|]. apply ml_append_mq.
  - rewrite (MI_kind w w' v HI). apply Kv. exact Hv.
  - rewrite (MI_kind w w' ir HI). exact Ki.
  - destruct HI as [_ P]. exact P.
Qed.

(* all module-list operations *)
Lemma mod_ops_MI : forall w known o, ModParOK w -> op_okb w known o = true ->
  match o with
  | OModAppend _ _ | OModInsert _ _ _ | OModExtend _ _ | OModRemove _ _ | OModPop _ _ | OModDelItem _ _
  | OModDelSlice _ _ _ | OModSetItem _ _ _ | OModSetSlice _ _ _ _ | OModSetExt _ _ _ _ _ | OModClear _ | OModReverse _ => MI w (step' w o)
  | _ => True
  end.
Proof.
  intros w known o M G. assert (R := MI_refl w M).
  destruct o as [n k u a s f nm p | c p | p fk m args | ir v | ir i v | ir vs | ir v | ir i | ir i | ir a b
              | ir i v | ir a b vs | ir a b c vs | ir | ir | bi a | n s | b o' | s nm | s p | bi k e | bi k | bi k | bi
              | bi k e | bi kvs | bi | bi kvs | n];
    try exact I; rewrite step'_ret; cbn [step]; cbn [op_okb] in G.
  - (* append *) apply andb_true_iff in G. destruct G as [Gi Gv]. apply mod_append_mq; assumption.
  - (* insert *) apply andb_true_iff in G. destruct G as [Gi Gv]. apply mod_insert_mq; assumption.
  - (* extend *) apply andb_true_iff in G. destruct G as [Gi Gv]. apply is_k_kind in Gi.
    apply ret_flagged; [exact R|]. apply fold_append_MI; [exact M|exact Gi|apply forallb_is_k; exact Gv].
  - (* remove *) apply andb_true_iff in G. destruct G as [Gi Gv]. apply is_k_kind in Gi.
    unfold ml_remove. destruct (index_of v (kids w ir)); [|exact R]. cbn [bind].
    apply ret_flagged; [exact R|]. eapply MI_step; [exact R|]. apply ml_del_at_mq. exact Gi.
  - (* pop *) apply is_k_kind in G. destruct (norm_index i (length (kids w ir))); [|exact R].
    apply ret_flagged; [exact R|]. eapply MI_step; [exact R|]. apply ml_del_at_mq. exact G.
  - (* delitem *) apply is_k_kind in G. destruct (norm_index i (length (kids w ir))); [|exact R].
    apply ret_flagged; [exact R|]. eapply MI_step; [exact R|]. apply ml_del_at_mq. exact G.
  - (* delslice *) apply is_k_kind in G. cbv zeta.
    match goal with |- context [fold_ok ?f ?l w] => pose proof (fold_remove_hook_MI w ir l M) as H1;
      destruct (fold_ok f l w) as [w1 ok] end.
    cbn [fst] in H1. apply ret_flagged; [exact R|]. cbn [fst].
    eapply MI_step; [exact H1|]. apply mq_set_kids. rewrite (MI_kind w w1 ir H1). exact G.
  - (* setitem *) apply andb_true_iff in G. destruct G as [Gi Gv]. apply is_k_kind in Gi. apply is_k_kind in Gv.
    destruct (norm_index i (length (kids w ir))) as [k|]; [|exact R].
    apply ret_flagged; [exact R|]. apply ml_assign_MI; [exact M|exact Gi|].
    intros x Hx Hnx. apply assign_slice_incl in Hx. destruct Hx as [Hx|Hx]; [contradiction|].
    destruct Hx as [Hx|[]]. subst x. exact Gv.
  - (* setslice *) apply andb_true_iff in G. destruct G as [Gi Gv]. apply is_k_kind in Gi.
    pose proof (forallb_is_k w vs KMod Gv) as Kv. cbv zeta.
    apply ret_flagged; [exact R|]. apply ml_assign_MI; [exact M|exact Gi|].
    intros x Hx Hnx. apply assign_slice_incl in Hx. destruct Hx as [Hx|Hx]; [contradiction|].
    apply Kv. exact Hx.
  - (* setext *) apply andb_true_iff in G. destruct G as [G _]. apply andb_true_iff in G. destruct G as [Gi Gv].
    apply is_k_kind in Gi. pose proof (forallb_is_k w vs KMod Gv) as Kv. cbv zeta.
    destruct (SeqOps.py_slice_indices a b c (length (kids w ir))) as [[[s e] st]|er]; [|exact R].
    destruct (st =? 1); [exact R|].
    destruct (negb (Nat.eqb (length vs) (length (SeqOps.py_range_positions s e st (length (kids w ir)))))); [exact R|].
    apply ret_flagged; [exact R|]. apply ml_assign_MI; [exact M|exact Gi|].
    intros x Hx Hnx. apply assign_ext_incl in Hx. destruct Hx as [Hx|Hx]; [contradiction|].
    apply Kv. exact Hx.
  - (* clear *) apply is_k_kind in G.
    pose proof (fold_remove_hook_MI w ir (rev (kids w ir)) M) as H1.
    destruct (fold_ok (fun w v => ml_remove_hook w ir v) (rev (kids w ir)) w) as [w1 ok]. cbn [fst] in H1.
    apply ret_flagged; [exact R|]. cbn [fst].
    eapply MI_step; [exact H1|]. apply mq_set_kids. rewrite (MI_kind w w1 ir H1). exact G.
  - (* reverse *) apply is_k_kind in G. cbn [ret]. eapply MI_step; [exact R|]. apply mq_set_kids. exact G.
Qed.

(* ================================================================== *)
(** * Parent setters *)

Lemma setparent_other_good : forall w c p, Good w ->
  Good (ret w (do w1 <- match par w c with Some old => flagged (set_discard w old c) | None => Ok w end;
               match p with Some q => flagged (set_add w1 q c) | None => Ok w1 end)).
Proof.
  intros w c p G. destruct (par w c) as [old|].
  - pose proof (set_discard_good w old c G) as G1. destruct (set_discard w old c) as [w1 ok].
    cbn [flagged fst] in *. destruct ok; cbn [bind]; [|exact G].
    destruct p as [q|]; [|exact G1]. apply ret_flagged; [exact G|apply set_add_good; exact G1].
  - cbn [bind]. destruct p as [q|]; [|exact G]. apply ret_flagged; [exact G|apply set_add_good; exact G].
Qed.

Lemma setparent_mod_MI : forall w c p, ModParOK w -> kindof w c = KMod ->
  match p with Some q => kindof w q = KIR | None => True end ->
  MI w (ret w (do w1 <- match par w c with
                        | Some old => do r <- ml_remove w old c; flagged r
                        | None => Ok w
                        end;
               match p with Some ir => flagged (ml_append w1 ir c) | None => Ok w1 end)).
Proof.
  intros w c p M Kc Kp. assert (R := MI_refl w M).
  assert (S2 : forall w1, MI w w1 ->
            MI w (ret w (match p with Some ir => flagged (ml_append w1 ir c) | None => Ok w1 end))).
  { intros w1 H1. destruct p as [ir|]; [|exact H1]. apply ret_flagged; [exact R|].
    eapply MI_step; [exact H1|]. apply ml_append_mq.
    - rewrite (MI_kind w w1 c H1). exact Kc.
    - rewrite (MI_kind w w1 ir H1). exact Kp.
    - destruct H1 as [_ P]. exact P. }
  destruct (par w c) as [old|] eqn:P.
  - unfold ml_remove. destruct (index_of c (kids w old)) as [i|]; [|exact R]. cbn [bind].
    assert (H1 : MI w (fst (ml_del_at w old i))).
    { eapply MI_step; [exact R|]. apply ml_del_at_mq. apply (M c old Kc P). }
    destruct (ml_del_at w old i) as [w1 ok]. cbn [flagged fst] in *. destruct ok; cbn [bind]; [|exact R].
    apply S2. exact H1.
  - cbn [bind]. apply S2. exact R.
Qed.

(* ================================================================== *)
(** * Attribute setters *)

Lemma key_of_attr' : forall w w' n b, kindof w' n = kindof w n -> attr w' b = attr w b ->
  key_of w' n b = key_of w n b.
Proof.
  intros w w' n b Hn Hb. unfold key_of. rewrite Hn.
  destruct (kindof w n); try reflexivity; [apply attr_addr_iv|apply attr_off_iv]; exact Hb.
Qed.

Lemma cur_ivs_ext' : forall w w' n, kindof w' n = kindof w n -> kids w' n = kids w n ->
  (forall b, In b (kids w n) -> attr w' b = attr w b) -> cur_ivs w' n = cur_ivs w n.
Proof.
  intros w w' n Hn Hk Hb. rewrite !cur_ivs_key, Hk. apply ivs_of_ext.
  intros b Hi. apply key_of_attr'; [exact Hn|apply Hb; exact Hi].
Qed.

(* member b of p gets new keyed attributes; the index of p receives discard(old key), add(new key) *)
Lemma sync_rekey : forall w w' b p, SyncAll w ->
  (forall n, n <> b -> attr w' n = attr w n) -> kindof w' b = kindof w b ->
  (forall n, kids w' n = kids w n) ->
  (forall m, In b (kids w m) -> m = p) -> In b (kids w p) ->
  (forall n, tree w' n =
     if n =? p then lt_add (key_of w' p b) (lt_discard (key_of w p b) (tree w p)) else tree w n) ->
  SyncAll w'.
Proof.
  intros w w' b p H Ha Kb Hk Hu Hin Ht n.
  assert (KK : forall m, kindof w' m = kindof w m).
  { intros m. destruct (Z.eq_dec m b) as [E|E]; [subst m; exact Kb|apply attr_kindof, Ha; exact E]. }
  rewrite Ht. destruct (Z.eqb_spec n p) as [E|E].
  - subst n.
    apply sync_lt_add with (cur := ivs_of (key_of w p) (remove_id b (kids w p))).
    + apply sync_lt_discard with (cur := cur_ivs w p); [apply H|].
      intros j. rewrite cur_ivs_key, !iv_mem_ivs_of. apply hit_drop. apply keyed_key_of.
    + intros j. rewrite cur_ivs_key, !iv_mem_ivs_of, Hk.
      rewrite (existsb_split (hit (key_of w' p) j) b (kids w p) Hin), add_sem_hit. f_equal.
      apply existsb_hit_ext. intros k Hi. apply In_remove_id in Hi. destruct Hi as [_ Hi].
      apply key_of_attr'; [apply KK|apply Ha; exact Hi].
  - rewrite cur_ivs_ext' with (w := w); [apply H|apply KK|apply Hk|].
    intros k Hi. apply Ha. intros ->. apply E. apply Hu. exact Hi.
Qed.

Lemma sync_rekey_orphan : forall w w' b, SyncAll w ->
  (forall n, n <> b -> attr w' n = attr w n) -> kindof w' b = kindof w b ->
  (forall n, kids w' n = kids w n) -> (forall m, ~ In b (kids w m)) ->
  (forall n, tree w' n = tree w n) -> SyncAll w'.
Proof.
  intros w w' b H Ha Kb Hk Hu Ht.
  assert (KK : forall m, kindof w' m = kindof w m).
  { intros m. destruct (Z.eq_dec m b) as [E|E]; [subst m; exact Kb|apply attr_kindof, Ha; exact E]. }
  apply sync_same with (w := w); [exact H|exact Ht|].
  intros n. apply cur_ivs_ext'; [apply KK|apply Hk|].
  intros k Hi. apply Ha. intros ->. apply (Hu n). exact Hi.
Qed.

Lemma getn_nodes : forall w w' n, nodes w' = nodes w -> getn w' n = getn w n.
Proof. intros w w' n H. unfold getn. rewrite H. reflexivity. Qed.

Lemma getn_block_attr : forall w b f n, getn (block_attr w b f) n = if n =? b then f (getn w b) else getn w n.
Proof.
  intros w b f n. unfold block_attr. destruct (par w b) as [bi|]; [|apply getn_setn].
  change (getn (tree_add_ev ?x bi ?o) n) with (getn x n). rewrite getn_setn. reflexivity.
Qed.

Lemma getn_bi_attr : forall w b f n, getn (bi_attr w b f) n = if n =? b then f (getn w b) else getn w n.
Proof.
  intros w b f n. unfold bi_attr. destruct (par w b) as [bi|]; [|apply getn_setn].
  change (getn (tree_add_ev ?x bi ?o) n) with (getn x n). rewrite getn_setn. reflexivity.
Qed.

Lemma getn_sym_attr : forall w s f n, getn (sym_attr w s f) n = if n =? s then f (getn w s) else getn w n.
Proof.
  intros w s f n. unfold sym_attr. destruct (par w s) as [m|]; [|apply getn_setn].
  rewrite (getn_nodes _ _ n (nodes_mod_index_add _ _ _)), getn_setn.
  rewrite !(fun x => getn_nodes _ _ x (nodes_mod_index_discard w m s)). reflexivity.
Qed.

Lemma nonneg_upd : forall w w' b x, NonNeg w -> 0 <= nsize x -> 0 <= noff x ->
  (forall n, getn w' n = if n =? b then x else getn w n) -> NonNeg w'.
Proof.
  intros w w' b x N H1 H2 Hg n. rewrite Hg. destruct (n =? b); [split; assumption|apply N].
Qed.

Lemma block_attr_sync : forall w known b f, Forest w known -> SyncAll w ->
  is_block (kindof w b) = true -> (forall x, nk (f x) = nk x) -> SyncAll (block_attr w b f).
Proof.
  intros w known b f F H Kb Hf.
  assert (U : forall m, In b (kids w m) -> par w b = Some m) by (intros m; apply (f_two_ended w known F)).
  unfold block_attr. destruct (par w b) as [bi|] eqn:P.
  - assert (Hin : In b (kids w bi)) by (apply (f_two_ended w known F); exact P).
    assert (Kbi : kindof w bi = KBI).
    { destruct (f_kind w known F bi b P) as (_ & _ & Hk).
      destruct (kindof w b); try discriminate; cbn in Hk; injection Hk as Hk; symmetry; exact Hk. }
    set (w1 := tree_disc_ev w bi (off_iv w b)). set (w2 := setn w1 b (f (getn w1 b))).
    assert (KK : forall m, kindof (tree_add_ev w2 bi (off_iv w2 b)) m = kindof w m).
    { intros m. change (kindof w2 m = kindof w m). unfold kindof, w2. rewrite getn_setn.
      destruct (Z.eqb_spec m b) as [E|E]; [subst m; apply Hf|reflexivity]. }
    apply sync_rekey with (w := w) (b := b) (p := bi).
    + exact H.
    + intros n Hn. change (attr w2 n = attr w n). unfold w2. rewrite attr_setn.
      destruct (Z.eqb_spec n b); [contradiction|reflexivity].
    + apply KK.
    + intros n. reflexivity.
    + intros m Hm. apply U in Hm. congruence.
    + exact Hin.
    + intros n. rewrite (key_of_kind_bi w bi b Kbi), key_of_kind_bi by (rewrite KK; exact Kbi).
      change (off_iv (tree_add_ev w2 bi (off_iv w2 b)) b) with (off_iv w2 b).
      unfold w2, w1. wproj. rewrite upd_same.
      destruct (Z.eqb_spec n bi) as [E|E]; [subst n; rewrite upd_same; reflexivity|].
      rewrite !upd_other by exact E. reflexivity.
  - apply sync_rekey_orphan with (w := w) (b := b).
    + exact H.
    + intros n Hn. rewrite attr_setn. destruct (Z.eqb_spec n b); [contradiction|reflexivity].
    + unfold kindof. rewrite getn_setn, Z.eqb_refl. apply Hf.
    + intros n. reflexivity.
    + intros m Hm. apply U in Hm. congruence.
    + intros n. reflexivity.
Qed.

Lemma bi_attr_sync : forall w known b f, Forest w known -> SyncAll w ->
  kindof w b = KBI -> (forall x, nk (f x) = nk x) -> SyncAll (bi_attr w b f).
Proof.
  intros w known b f F H Kb Hf.
  assert (U : forall m, In b (kids w m) -> par w b = Some m) by (intros m; apply (f_two_ended w known F)).
  unfold bi_attr. destruct (par w b) as [s|] eqn:P.
  - assert (Hin : In b (kids w s)) by (apply (f_two_ended w known F); exact P).
    assert (Ks : kindof w s = KSec).
    { destruct (f_kind w known F s b P) as (_ & _ & Hk).
      rewrite Kb in Hk. cbn in Hk. injection Hk as Hk. symmetry. exact Hk. }
    set (w1 := tree_disc_ev w s (addr_iv w b)). set (w2 := setn w1 b (f (getn w1 b))).
    assert (KK : forall m, kindof (tree_add_ev w2 s (addr_iv w2 b)) m = kindof w m).
    { intros m. change (kindof w2 m = kindof w m). unfold kindof, w2. rewrite getn_setn.
      destruct (Z.eqb_spec m b) as [E|E]; [subst m; apply Hf|reflexivity]. }
    apply sync_rekey with (w := w) (b := b) (p := s).
    + exact H.
    + intros n Hn. change (attr w2 n = attr w n). unfold w2. rewrite attr_setn.
      destruct (Z.eqb_spec n b); [contradiction|reflexivity].
    + apply KK.
    + intros n. reflexivity.
    + intros m Hm. apply U in Hm. congruence.
    + exact Hin.
    + intros n. rewrite (key_of_kind_sec w s b Ks), key_of_kind_sec by (rewrite KK; exact Ks).
      change (addr_iv (tree_add_ev w2 s (addr_iv w2 b)) b) with (addr_iv w2 b).
      unfold w2, w1. wproj. rewrite upd_same.
      destruct (Z.eqb_spec n s) as [E|E]; [subst n; rewrite upd_same; reflexivity|].
      rewrite !upd_other by exact E. reflexivity.
  - apply sync_rekey_orphan with (w := w) (b := b).
    + exact H.
    + intros n Hn. rewrite attr_setn. destruct (Z.eqb_spec n b); [contradiction|reflexivity].
    + unfold kindof. rewrite getn_setn, Z.eqb_refl. apply Hf.
    + intros n. reflexivity.
    + intros m Hm. apply U in Hm. congruence.
    + intros n. reflexivity.
Qed.

Lemma sym_attr_sync : forall w s f, SyncAll w -> (forall x, akey (f x) = akey x) -> SyncAll (sym_attr w s f).
Proof.
  intros w s f H Hf. apply sync_quiet0 with (w := w).
  - exact H.
  - intros n. unfold attr. rewrite getn_sym_attr. destruct (Z.eqb_spec n s) as [E|E]; [subst n; apply Hf|reflexivity].
  - intros n. unfold sym_attr. destruct (par w s) as [m|]; [|reflexivity].
    rewrite kids_mod_index_add. wproj. rewrite kids_mod_index_discard. reflexivity.
  - intros n. unfold sym_attr. destruct (par w s) as [m|]; [|reflexivity].
    rewrite tree_mod_index_add. wproj. rewrite tree_mod_index_discard. reflexivity.
Qed.

(* ================================================================== *)
(** * ONew, symbolic-expression maps, OTouch *)

Lemma has_false_getn : forall w n, has w n = false -> getn w n = dnode.
Proof. intros w n H. unfold has, getn in *. destruct (nodes w n); [discriminate|reflexivity]. Qed.

Lemma new_good : forall w known n k u a s f nm p, Forest w known -> Good w ->
  op_okb w known (ONew n k u a s f nm p) = true -> Good (step' w (ONew n k u a s f nm p)).
Proof.
  intros w known n k u a s f nm p F [H N] G. cbn [op_okb] in G.
  repeat (apply andb_true_iff in G; destruct G as [G ?]).
  apply negb_true_iff in G.
  assert (Hs : 0 <= s) by (apply Z.leb_le; assumption).
  assert (Hf : 0 <= f) by (apply Z.leb_le; assumption).
  pose proof (has_false_getn w n G) as Dn.
  assert (NK : forall m, ~ In n (kids w m)).
  { intros m Hm. apply (f_two_ended w known F) in Hm. unfold par in Hm. rewrite Dn in Hm. discriminate. }
  assert (KN : kids w n = []).
  { destruct (kids w n) as [|c r] eqn:E; [reflexivity|exfalso].
    assert (Hc : par w c = Some n) by (apply (f_two_ended w known F); rewrite E; left; reflexivity).
    destruct (f_kind w known F n c Hc) as (_ & Hn & _). congruence. }
  rewrite step'_ret. cbn [step ret].
  set (x := {| nk := k; nuuid := u; npar := None; naddr := a; nsize := s; noff := f; nname := nm; npay := p |}).
  set (w' := match k with KIR => set_cache (setn w n x) (upd (cache (setn w n x)) n [(u, n)]) | _ => setn w n x end).
  assert (Gn : forall m, getn w' m = if m =? n then x else getn w m).
  { intros m. unfold w'. destruct k; apply getn_setn. }
  assert (Kd : forall m, kids w' m = kids w m) by (intros m; unfold w'; destruct k; reflexivity).
  assert (Tr : forall m, tree w' m = tree w m) by (intros m; unfold w'; destruct k; reflexivity).
  split.
  - apply sync_same with (w := w); [exact H|exact Tr|].
    intros m. destruct (Z.eq_dec m n) as [E|E].
    + subst m. unfold cur_ivs. rewrite Kd, KN. unfold kindof at 2. rewrite Dn. cbn [nk dnode flat_map].
      destruct (kindof w' n); reflexivity.
    + assert (Am : forall b, b <> n -> attr w' b = attr w b).
      { intros b Hb. unfold attr. rewrite Gn. destruct (Z.eqb_spec b n); [contradiction|reflexivity]. }
      apply cur_ivs_ext; [apply Am; exact E|apply Kd|].
      intros b Hb. apply Am. intros ->. apply (NK m). exact Hb.
  - apply (nonneg_upd w w' n x N); [exact Hs|exact Hf|exact Gn].
Qed.

Lemma symx_upd_good : forall w bi d, Good w -> Good (symx_upd w bi d).
Proof.
  intros w bi d [H N]. split.
  - apply sync_quiet0 with (w := w); [exact H| | |]; intros n; reflexivity.
  - apply attr_nonneg with (w := w); [intros n; reflexivity|exact N].
Qed.

Lemma force_fst : forall w n,
  fst (force w n) = set_tree w (upd (tree w) n (fst (lt_get (cur_ivs w n) (length (kids w n)) (tree w n)))).
Proof. intros. unfold force. destruct (lt_get _ _ _) as [t idx]. reflexivity. Qed.

Lemma force_sync : forall w n, SyncAll w -> SyncAll (fst (force w n)).
Proof.
  intros w n H m. rewrite force_fst.
  change (cur_ivs (set_tree w ?f) m) with (cur_ivs w m). cbn [tree set_tree].
  destruct (Z.eqb_spec m n) as [E|E].
  - subst m. rewrite upd_same. apply lt_get_sync. apply H.
  - rewrite upd_other by exact E. apply H.
Qed.

Lemma force_good : forall w n, Good w -> Good (fst (force w n)).
Proof.
  intros w n [H N]. split; [apply force_sync; exact H|].
  apply attr_nonneg with (w := w); [|exact N]. intros m. rewrite force_fst. reflexivity.
Qed.

(* ================================================================== *)
(** * Part 1: the main theorem *)

Lemma with_size_nk : forall s x, nk (with_size x s) = nk x. Proof. reflexivity. Qed.
Lemma with_off_nk : forall s x, nk (with_off x s) = nk x. Proof. reflexivity. Qed.
Lemma with_addr_nk : forall s x, nk (with_addr x s) = nk x. Proof. reflexivity. Qed.

Theorem sync_preserved : forall w known o,
  Forest w known -> Forest (step' w o) (known_after o known) ->
  SyncAll w -> NonNeg w -> op_okb w known o = true ->
  SyncAll (step' w o) /\ NonNeg (step' w o).
Proof.
  intros w known o F _ HS HN G. assert (GD : Good w) by (split; assumption). change (Good (step' w o)).
  pose proof (forest_modpar w known F) as MP.
  pose proof (mod_ops_MI w known o MP G) as MO.
  destruct o as [n k u a s f nm p | c p | p fk m args | ir v | ir i v | ir vs | ir v | ir i | ir i | ir a b
              | ir i v | ir a b vs | ir a b c vs | ir | ir | bi a | n s | b o' | s nm | s p | bi k e | bi k | bi k | bi
              | bi k e | bi kvs | bi | bi kvs | n];
    try (apply (mq_good w _ (proj1 MO) GD)); clear MO.
  - (* ONew *) eapply new_good; eassumption.
  - (* OSetParent *) rewrite step'_ret. cbn [step]. unfold do_setparent. cbn [op_okb] in G.
    apply andb_true_iff in G. destruct G as [G Gp]. apply andb_true_iff in G. destruct G as [Gc Gk].
    destruct (kindof w c) eqn:K; try apply setparent_other_good; try exact GD.
    assert (M : MI w (ret w (do w1 <- match par w c with
                        | Some old => do r <- ml_remove w old c; flagged r
                        | None => Ok w
                        end;
               match p with Some ir => flagged (ml_append w1 ir c) | None => Ok w1 end))).
    { apply setparent_mod_MI; [exact MP|exact K|]. destruct p as [q|]; [|exact I].
      apply andb_true_iff in Gp. destruct Gp as [_ Gq]. cbn in Gq. apply kind_eqb_eq in Gq. exact Gq. }
    destruct M as [M _]. apply (mq_good w _ M GD).
  - (* OSet *) rewrite step'_ret. cbn [step]. apply do_set_good. exact GD.
  - (* OAttrAddr *) rewrite step'_ret. cbn [step ret]. cbn [op_okb] in G. apply is_k_kind in G. split.
    + apply (bi_attr_sync w known bi _ F HS G). intros x. reflexivity.
    + apply (nonneg_upd w _ bi (with_addr (getn w bi) a) HN); [apply HN|apply HN|apply getn_bi_attr].
  - (* OAttrSize *) rewrite step'_ret. cbn [step]. cbn [op_okb] in G.
    apply andb_true_iff in G. destruct G as [G Gs]. apply andb_true_iff in G. destruct G as [Gh Gk].
    apply Z.leb_le in Gs.
    destruct (kindof w n) eqn:K; cbn [ret]; try discriminate Gk.
    + split.
      * apply (bi_attr_sync w known n _ F HS K). intros x. reflexivity.
      * apply (nonneg_upd w _ n (with_size (getn w n) s) HN); [exact Gs|apply HN|apply getn_bi_attr].
    + split.
      * apply (block_attr_sync w known n _ F HS); [rewrite K; reflexivity|intros x; reflexivity].
      * apply (nonneg_upd w _ n (with_size (getn w n) s) HN); [exact Gs|apply HN|apply getn_block_attr].
    + split.
      * apply (block_attr_sync w known n _ F HS); [rewrite K; reflexivity|intros x; reflexivity].
      * apply (nonneg_upd w _ n (with_size (getn w n) s) HN); [exact Gs|apply HN|apply getn_block_attr].
  - (* OAttrOff *) rewrite step'_ret. cbn [step ret]. cbn [op_okb] in G.
    apply andb_true_iff in G. destruct G as [G Go]. apply andb_true_iff in G. destruct G as [Gh Gk].
    apply Z.leb_le in Go. split.
    + apply (block_attr_sync w known b _ F HS Gk). intros x. reflexivity.
    + apply (nonneg_upd w _ b (with_off (getn w b) o') HN); [apply HN|exact Go|apply getn_block_attr].
  - (* OAttrName *) rewrite step'_ret. cbn [step ret]. split.
    + apply sym_attr_sync; [exact HS|intros x; reflexivity].
    + apply (nonneg_upd w _ s (with_name (getn w s) nm) HN); [apply HN|apply HN|apply getn_sym_attr].
  - (* OAttrPay *) rewrite step'_ret. cbn [step ret]. split.
    + apply sym_attr_sync; [exact HS|intros x; reflexivity].
    + apply (nonneg_upd w _ s (with_pay (getn w s) p) HN); [apply HN|apply HN|apply getn_sym_attr].
  - rewrite step'_ret. cbn [step ret]. apply symx_upd_good. exact GD.
  - rewrite step'_ret. cbn [step]. destruct (dict_has Z.eqb k (symx w bi)); [apply symx_upd_good|]; exact GD.
  - rewrite step'_ret. cbn [step]. destruct (dict_has Z.eqb k (symx w bi)); [apply symx_upd_good|]; exact GD.
  - rewrite step'_ret. cbn [step]. destruct (symx w bi); [|apply symx_upd_good]; exact GD.
  - rewrite step'_ret. cbn [step]. destruct (dict_has Z.eqb k (symx w bi)); [|apply symx_upd_good]; exact GD.
  - rewrite step'_ret. cbn [step ret]. apply symx_upd_good. exact GD.
  - rewrite step'_ret. cbn [step ret]. apply symx_upd_good. exact GD.
  - rewrite step'_ret. cbn [step ret]. apply symx_upd_good. exact GD.
  - (* OTouch *) rewrite step'_ret. cbn [step ret]. apply force_good. exact GD.
Qed.

(* ================================================================== *)
(** * Part 2: everything but the [tree] component is schedule independent *)

Definition strip (w : world) : world := set_tree w (fun _ => lt_empty).
Definition is_touch (o : op) : bool := match o with OTouch _ => true | _ => false end.

(* equal up to the lazy trees *)
Definition seq (w1 w2 : world) : Prop := strip w1 = strip w2.
Definition seqp {B : Type} (r1 r2 : world * B) : Prop := seq (fst r1) (fst r2) /\ snd r1 = snd r2.
Definition seqr (r1 r2 : res world) : Prop :=
  match r1, r2 with
  | Ok a, Ok b => seq a b
  | Err e1, Err e2 => e1 = e2
  | _, _ => False
  end.

Lemma seq_refl : forall w, seq w w. Proof. reflexivity. Qed.
Lemma seq_sym : forall a b, seq a b -> seq b a. Proof. unfold seq. intros. congruence. Qed.
Lemma seq_trans : forall a b c, seq a b -> seq b c -> seq a c. Proof. unfold seq. intros. congruence. Qed.

Lemma seq_repr : forall w1 w2, seq w1 w2 -> w2 = set_tree w1 (tree w2).
Proof.
  intros [n1 k1 c1 x1 r1 t1 s1] [n2 k2 c2 x2 r2 t2 s2] H. unfold seq, strip, set_tree in H. cbn in H.
  injection H as H1 H2 H3 H4 H5 H6. subst. reflexivity.
Qed.

Lemma seq_set_tree : forall w t, seq w (set_tree w t).
Proof. reflexivity. Qed.

Lemma seq_set_tree2 : forall w1 w2 t1 t2, seq w1 w2 -> seq (set_tree w1 t1) (set_tree w2 t2).
Proof. intros w1 w2 t1 t2 H. rewrite (seq_repr _ _ H). reflexivity. Qed.

(* accessors *)
Lemma seq_nodes : forall w1 w2, seq w1 w2 -> nodes w1 = nodes w2.
Proof. intros w1 w2 H. rewrite (seq_repr _ _ H). reflexivity. Qed.
Lemma seq_kids : forall w1 w2, seq w1 w2 -> kids w1 = kids w2.
Proof. intros w1 w2 H. rewrite (seq_repr _ _ H). reflexivity. Qed.
Lemma seq_cache : forall w1 w2, seq w1 w2 -> cache w1 = cache w2.
Proof. intros w1 w2 H. rewrite (seq_repr _ _ H). reflexivity. Qed.
Lemma seq_symx : forall w1 w2, seq w1 w2 -> symx w1 = symx w2.
Proof. intros w1 w2 H. rewrite (seq_repr _ _ H). reflexivity. Qed.
Lemma seq_getn : forall w1 w2 n, seq w1 w2 -> getn w1 n = getn w2 n.
Proof. intros w1 w2 n H. rewrite (seq_repr _ _ H). reflexivity. Qed.
Lemma seq_kindof : forall w1 w2 n, seq w1 w2 -> kindof w1 n = kindof w2 n.
Proof. intros w1 w2 n H. rewrite (seq_repr _ _ H). reflexivity. Qed.
Lemma seq_par : forall w1 w2 n, seq w1 w2 -> par w1 n = par w2 n.
Proof. intros w1 w2 n H. rewrite (seq_repr _ _ H). reflexivity. Qed.
Lemma seq_ir_of : forall w1 w2 n, seq w1 w2 -> ir_of w1 n = ir_of w2 n.
Proof. intros w1 w2 n H. rewrite (seq_repr _ _ H). reflexivity. Qed.
Lemma seq_field : forall w1 w2 p fk, seq w1 w2 -> field w1 p fk = field w2 p fk.
Proof. intros w1 w2 p fk H. rewrite (seq_repr _ _ H). reflexivity. Qed.
Lemma seq_op_okb : forall w1 w2 known o, seq w1 w2 -> op_okb w1 known o = op_okb w2 known o.
Proof. intros w1 w2 known o H. rewrite (seq_repr _ _ H). destruct o; reflexivity. Qed.

(* basic primitives *)
Lemma seq_setn : forall w1 w2 n x, seq w1 w2 -> seq (setn w1 n x) (setn w2 n x).
Proof. intros w1 w2 n x H. rewrite (seq_repr _ _ H). reflexivity. Qed.
Lemma seq_set_par : forall w1 w2 c p, seq w1 w2 -> seq (set_par w1 c p) (set_par w2 c p).
Proof. intros w1 w2 c p H. rewrite (seq_repr _ _ H). reflexivity. Qed.
Lemma seq_set_kids : forall w1 w2 f, seq w1 w2 -> seq (set_kids w1 f) (set_kids w2 f).
Proof. intros w1 w2 f H. rewrite (seq_repr _ _ H). reflexivity. Qed.
Lemma seq_set_cache : forall w1 w2 f, seq w1 w2 -> seq (set_cache w1 f) (set_cache w2 f).
Proof. intros w1 w2 f H. rewrite (seq_repr _ _ H). reflexivity. Qed.
Lemma seq_symx_upd : forall w1 w2 bi d, seq w1 w2 -> seq (symx_upd w1 bi d) (symx_upd w2 bi d).
Proof. intros w1 w2 bi d H. rewrite (seq_repr _ _ H). reflexivity. Qed.
Lemma seq_drop_kid : forall w1 w2 p c, seq w1 w2 -> seq (drop_kid w1 p c) (drop_kid w2 p c).
Proof. intros w1 w2 p c H. rewrite (seq_repr _ _ H). reflexivity. Qed.
Lemma seq_push_kid : forall w1 w2 p c, seq w1 w2 -> seq (push_kid w1 p c) (push_kid w2 p c).
Proof. intros w1 w2 p c H. rewrite (seq_repr _ _ H). reflexivity. Qed.
Lemma seq_cache_add : forall w1 w2 ir c, seq w1 w2 -> seq (cache_add w1 ir c) (cache_add w2 ir c).
Proof. intros w1 w2 ir c H. rewrite (seq_repr _ _ H). reflexivity. Qed.
Lemma seqp_cache_remove : forall w1 w2 ir c, seq w1 w2 -> seqp (cache_remove w1 ir c) (cache_remove w2 ir c).
Proof. intros w1 w2 ir c H. rewrite (seq_repr _ _ H). split; reflexivity. Qed.
Lemma seq_tree_add_ev : forall w1 w2 p o1 o2, seq w1 w2 -> seq (tree_add_ev w1 p o1) (tree_add_ev w2 p o2).
Proof. intros w1 w2 p o1 o2 H. rewrite (seq_repr _ _ H). reflexivity. Qed.
Lemma seq_tree_disc_ev : forall w1 w2 p o1 o2, seq w1 w2 -> seq (tree_disc_ev w1 p o1) (tree_disc_ev w2 p o2).
Proof. intros w1 w2 p o1 o2 H. rewrite (seq_repr _ _ H). reflexivity. Qed.

Lemma seq_mod_index_discard : forall w1 w2 m n, seq w1 w2 -> seq (mod_index_discard w1 m n) (mod_index_discard w2 m n).
Proof.
  intros w1 w2 m n H. rewrite (seq_repr _ _ H). unfold mod_index_discard.
  change (kindof (set_tree w1 (tree w2)) n) with (kindof w1 n).
  change (getn (set_tree w1 (tree w2)) n) with (getn w1 n).
  destruct (kindof w1 n); try reflexivity. cbv zeta. destruct (referent (getn w1 n)); reflexivity.
Qed.

Lemma seq_mod_index_add : forall w1 w2 m n, seq w1 w2 -> seq (mod_index_add w1 m n) (mod_index_add w2 m n).
Proof.
  intros w1 w2 m n H. rewrite (seq_repr _ _ H). unfold mod_index_add.
  change (kindof (set_tree w1 (tree w2)) n) with (kindof w1 n).
  change (getn (set_tree w1 (tree w2)) n) with (getn w1 n).
  destruct (kindof w1 n); try reflexivity. cbv zeta. destruct (referent (getn w1 n)); reflexivity.
Qed.

(* composite primitives *)
Lemma seqp_mk : forall (B : Type) a1 a2 (b1 b2 : B), seq a1 a2 -> b1 = b2 -> seqp (a1, b1) (a2, b2).
Proof. intros. split; assumption. Qed.

Lemma seqp_discard_tail : forall a1 a2 p c, seq a1 a2 ->
  seqp (let '(w3, ok) := match ir_of a1 p with Some ir => cache_remove a1 ir c | None => (a1, true) end in
        (drop_kid w3 p c, ok))
       (let '(w3, ok) := match ir_of a2 p with Some ir => cache_remove a2 ir c | None => (a2, true) end in
        (drop_kid w3 p c, ok)).
Proof.
  intros a1 a2 p c H. rewrite (seq_ir_of _ _ p H). destruct (ir_of a2 p) as [ir|].
  - destruct (seqp_cache_remove _ _ ir c H) as [Hw Hs].
    destruct (cache_remove a1 ir c) as [x1 o1], (cache_remove a2 ir c) as [x2 o2]. cbn [fst snd] in *.
    apply seqp_mk; [apply seq_drop_kid; exact Hw|exact Hs].
  - apply seqp_mk; [apply seq_drop_kid; exact H|reflexivity].
Qed.

Lemma seqp_set_discard : forall w1 w2 p c, seq w1 w2 -> seqp (set_discard w1 p c) (set_discard w2 p c).
Proof.
  intros w1 w2 p c H. unfold set_discard. rewrite (seq_kids _ _ H), (seq_kindof _ _ p H).
  destruct (negb (mem c (kids w2 p))); [apply seqp_mk; [exact H|reflexivity]|].
  destruct (kindof w2 p); try (apply seqp_mk; [exact H|reflexivity]).
  - apply seqp_discard_tail. apply seq_mod_index_discard, seq_set_par, H.
  - apply seqp_discard_tail. apply seq_set_par, seq_tree_disc_ev, H.
  - apply seqp_discard_tail. apply seq_set_par, seq_tree_disc_ev, H.
Qed.

Lemma seqp_detach : forall w1 w2 c, seq w1 w2 ->
  seqp (match par w1 c with Some old => set_discard w1 old c | None => (w1, true) end)
       (match par w2 c with Some old => set_discard w2 old c | None => (w2, true) end).
Proof.
  intros w1 w2 c H. rewrite (seq_par _ _ c H). destruct (par w2 c) as [old|].
  - apply seqp_set_discard. exact H.
  - apply seqp_mk; [exact H|reflexivity].
Qed.

Lemma seq_cache_add_tail : forall a1 a2 p c, seq a1 a2 ->
  seq (match ir_of a1 p with Some ir => cache_add a1 ir c | None => a1 end)
      (match ir_of a2 p with Some ir => cache_add a2 ir c | None => a2 end).
Proof.
  intros a1 a2 p c H. rewrite (seq_ir_of _ _ p H). destruct (ir_of a2 p) as [ir|]; [apply seq_cache_add|]; exact H.
Qed.

Lemma seqp_set_add1 : forall w1 w2 p c, seq w1 w2 -> seqp (set_add1 w1 p c) (set_add1 w2 p c).
Proof.
  intros w1 w2 p c H. unfold set_add1. rewrite (seq_kindof _ _ p H).
  destruct (kindof w2 p); try (apply seqp_mk; [exact H|reflexivity]).
  - destruct (seqp_detach w1 w2 c H) as [Hw Hs].
    destruct (match par w1 c with Some old => _ | None => _ end) as [x1 o1].
    destruct (match par w2 c with Some old => _ | None => _ end) as [x2 o2]. cbn [fst snd] in *.
    apply seqp_mk; [|exact Hs]. apply seq_push_kid, seq_cache_add_tail, seq_mod_index_add, seq_set_par, Hw.
  - destruct (seqp_detach w1 w2 c H) as [Hw Hs].
    destruct (match par w1 c with Some old => _ | None => _ end) as [x1 o1].
    destruct (match par w2 c with Some old => _ | None => _ end) as [x2 o2]. cbn [fst snd] in *.
    apply seqp_mk; [|exact Hs]. apply seq_push_kid, seq_cache_add_tail, seq_set_par, seq_tree_add_ev, Hw.
Qed.

Lemma seqp_fold_left : forall (B X : Type) (F : world * B -> X -> world * B),
  (forall s1 s2 v, seqp s1 s2 -> seqp (F s1 v) (F s2 v)) ->
  forall l s1 s2, seqp s1 s2 -> seqp (fold_left F l s1) (fold_left F l s2).
Proof.
  intros B X F HF l. induction l as [|a l IH]; intros s1 s2 H; [exact H|].
  cbn [fold_left]. apply IH. apply HF. exact H.
Qed.

Lemma seq_fold_left : forall (X : Type) (G : world -> X -> world),
  (forall a1 a2 v, seq a1 a2 -> seq (G a1 v) (G a2 v)) ->
  forall l a1 a2, seq a1 a2 -> seq (fold_left G l a1) (fold_left G l a2).
Proof.
  intros X G HG l. induction l as [|a l IH]; intros a1 a2 H; [exact H|].
  cbn [fold_left]. apply IH. apply HG. exact H.
Qed.

Lemma seqp_fold_ok : forall f l w1 w2,
  (forall a1 a2 v, seq a1 a2 -> seqp (f a1 v) (f a2 v)) ->
  seq w1 w2 -> seqp (fold_ok f l w1) (fold_ok f l w2).
Proof.
  intros f l w1 w2 Hf H. unfold fold_ok. apply seqp_fold_left; [|apply seqp_mk; [exact H|reflexivity]].
  intros [a1 b1] [a2 b2] v [Ha Hb]. cbn [fst snd] in *. subst b2.
  destruct (Hf a1 a2 v Ha) as [Hw Hs]. destruct (f a1 v) as [x1 o1], (f a2 v) as [x2 o2]. cbn [fst snd] in *.
  apply seqp_mk; [exact Hw|rewrite Hs; reflexivity].
Qed.

Lemma seqp_blocks_update : forall w1 w2 bi items, seq w1 w2 ->
  seqp (blocks_update w1 bi items) (blocks_update w2 bi items).
Proof.
  intros w1 w2 bi items H. unfold blocks_update. rewrite (seq_ir_of _ _ bi H), (seq_kids _ _ H).
  cbv zeta. set (l := filter (fun v => negb (mem v (kids w2 bi))) (dedup items)).
  match goal with |- context [fold_left ?F l (w1, true)] => set (FF := F) end.
  assert (HF : seqp (fold_left FF l (w1, true)) (fold_left FF l (w2, true))).
  { apply seqp_fold_left; [|apply seqp_mk; [exact H|reflexivity]].
    intros [a1 b1] [a2 b2] v [Ha Hb]. cbn [fst snd] in *. subst b2. unfold FF.
    destruct (seqp_detach a1 a2 v Ha) as [Hw Hs].
    destruct (match par a1 v with Some old => _ | None => _ end) as [x1 o1].
    destruct (match par a2 v with Some old => _ | None => _ end) as [x2 o2]. cbn [fst snd] in *.
    apply seqp_mk; [|rewrite Hs; reflexivity].
    destruct (ir_of w2 bi) as [ir|]; [apply seq_cache_add|]; apply seq_set_par, Hw. }
  destruct HF as [Hw Hs].
  destruct (fold_left FF l (w1, true)) as [x1 o1], (fold_left FF l (w2, true)) as [x2 o2]. cbn [fst snd] in *.
  apply seqp_mk; [|exact Hs].
  apply seq_fold_left; [intros; apply seq_push_kid; assumption|].
  apply seq_fold_left; [intros; apply seq_tree_add_ev; assumption|]. exact Hw.
Qed.

Lemma seqp_set_add : forall w1 w2 p c, seq w1 w2 -> seqp (set_add w1 p c) (set_add w2 p c).
Proof.
  intros w1 w2 p c H. unfold set_add. rewrite (seq_kindof _ _ p H).
  destruct (kindof w2 p); try (apply seqp_set_add1; exact H). apply seqp_blocks_update. exact H.
Qed.

(* results *)
Lemma seqr_flagged : forall r1 r2, seqp r1 r2 -> seqr (flagged r1) (flagged r2).
Proof.
  intros [a1 b1] [a2 b2] [Ha Hb]. cbn [fst snd flagged] in *. subst b2. destruct b1; cbn; [exact Ha|reflexivity].
Qed.

Lemma seq_ret : forall w1 w2 r1 r2, seq w1 w2 -> seqr r1 r2 -> seq (ret w1 r1) (ret w2 r2).
Proof.
  intros w1 w2 [a1|e1] [a2|e2] H Hr; cbn in *; try contradiction; assumption.
Qed.

Lemma seqr_bind : forall r1 r2 (f1 f2 : world -> res world), seqr r1 r2 ->
  (forall a b, seq a b -> seqr (f1 a) (f2 b)) -> seqr (bind r1 f1) (bind r2 f2).
Proof.
  intros [a1|e1] [a2|e2] f1 f2 Hr Hf; cbn in *; try contradiction; [apply Hf; exact Hr|exact Hr].
Qed.

Lemma seqr_ok : forall a b, seq a b -> seqr (Ok a) (Ok b).
Proof. intros a b H. exact H. Qed.

Lemma seqr_err : forall e, seqr (Err e) (Err e).
Proof. intros e. reflexivity. Qed.

(* module-list primitives *)
Lemma seqp_ml_remove_hook : forall w1 w2 ir v, seq w1 w2 -> seqp (ml_remove_hook w1 ir v) (ml_remove_hook w2 ir v).
Proof. intros. unfold ml_remove_hook. apply seqp_cache_remove, seq_set_par. assumption. Qed.

Lemma seq_set_kids_at : forall a1 a2 ir (g : list id -> list id), seq a1 a2 ->
  seq (set_kids a1 (upd (kids a1) ir (g (kids a1 ir)))) (set_kids a2 (upd (kids a2) ir (g (kids a2 ir)))).
Proof. intros a1 a2 ir g H. rewrite (seq_kids _ _ H). apply seq_set_kids. exact H. Qed.

Lemma seqp_ml_del_at : forall w1 w2 ir i, seq w1 w2 -> seqp (ml_del_at w1 ir i) (ml_del_at w2 ir i).
Proof.
  intros w1 w2 ir i H. unfold ml_del_at. rewrite (seq_kids _ _ H).
  destruct (nth_error (kids w2 ir) i) as [v|]; [|apply seqp_mk; [exact H|reflexivity]].
  destruct (seqp_ml_remove_hook w1 w2 ir v H) as [Hw Hs].
  destruct (ml_remove_hook w1 ir v) as [x1 o1], (ml_remove_hook w2 ir v) as [x2 o2]. cbn [fst snd] in *.
  apply seqp_mk; [|exact Hs]. apply (seq_set_kids_at x1 x2 ir (remove_at i)). exact Hw.
Qed.

Lemma seqp_ml_remove_or : forall w1 w2 ir v, seq w1 w2 ->
  seqp (match ml_remove w1 ir v with Ok r => r | Err _ => (w1, false) end)
       (match ml_remove w2 ir v with Ok r => r | Err _ => (w2, false) end).
Proof.
  intros w1 w2 ir v H. unfold ml_remove. rewrite (seq_kids _ _ H).
  destruct (index_of v (kids w2 ir)) as [i|]; [apply seqp_ml_del_at; exact H|apply seqp_mk; [exact H|reflexivity]].
Qed.

Lemma seqr_ml_remove : forall w1 w2 ir v, seq w1 w2 ->
  seqr (do r <- ml_remove w1 ir v; flagged r) (do r <- ml_remove w2 ir v; flagged r).
Proof.
  intros w1 w2 ir v H. unfold ml_remove. rewrite (seq_kids _ _ H).
  destruct (index_of v (kids w2 ir)) as [i|]; cbn [bind]; [|reflexivity].
  apply seqr_flagged, seqp_ml_del_at. exact H.
Qed.

Lemma seqp_ml_add_hook : forall w1 w2 ir v, seq w1 w2 -> seqp (ml_add_hook w1 ir v) (ml_add_hook w2 ir v).
Proof.
  intros w1 w2 ir v H. unfold ml_add_hook.
  assert (HP : seqp (match par w1 v with
                     | Some old => match ml_remove w1 old v with Ok r => r | Err _ => (w1, false) end
                     | None => (w1, true) end)
                    (match par w2 v with
                     | Some old => match ml_remove w2 old v with Ok r => r | Err _ => (w2, false) end
                     | None => (w2, true) end)).
  { rewrite (seq_par _ _ v H). destruct (par w2 v) as [old|]; [apply seqp_ml_remove_or; exact H|].
    apply seqp_mk; [exact H|reflexivity]. }
  destruct HP as [Hw Hs].
  destruct (match par w1 v with Some old => _ | None => _ end) as [x1 o1].
  destruct (match par w2 v with Some old => _ | None => _ end) as [x2 o2]. cbn [fst snd] in *.
  apply seqp_mk; [|exact Hs]. apply seq_cache_add, seq_set_par, Hw.
Qed.

Lemma seqp_ml_assign : forall w1 w2 ir new, seq w1 w2 -> seqp (ml_assign w1 ir new) (ml_assign w2 ir new).
Proof.
  intros w1 w2 ir new H. unfold ml_assign. cbv zeta. rewrite (seq_kids _ _ H).
  match goal with |- context [fold_ok ?f ?l w1] =>
    assert (HP : seqp (fold_ok f l w1) (fold_ok f l w2))
      by (apply seqp_fold_ok; [intros; apply seqp_ml_remove_hook; assumption|exact H]);
    destruct HP as [Hw1 Hs1]; destruct (fold_ok f l w1) as [x1 o1], (fold_ok f l w2) as [x2 o2]
  end.
  cbn [fst snd] in *.
  match goal with |- context [fold_ok ?f ?l x1] =>
    assert (HP : seqp (fold_ok f l x1) (fold_ok f l x2))
      by (apply seqp_fold_ok; [intros; apply seqp_ml_add_hook; assumption|exact Hw1]);
    destruct HP as [Hw2 Hs2]; destruct (fold_ok f l x1) as [y1 q1], (fold_ok f l x2) as [y2 q2]
  end.
  cbn [fst snd] in *.
  apply seqp_mk; [|rewrite Hs1, Hs2; reflexivity].
  rewrite (seq_kids _ _ Hw2). apply seq_set_kids. exact Hw2.
Qed.

Lemma seqp_ml_insert : forall w1 w2 ir i v, seq w1 w2 -> seqp (ml_insert w1 ir i v) (ml_insert w2 ir i v).
Proof.
  intros w1 w2 ir i v H. unfold ml_insert. cbv zeta. rewrite (seq_kids _ _ H). apply seqp_ml_assign. exact H.
Qed.

Lemma seqp_ml_append : forall w1 w2 ir v, seq w1 w2 -> seqp (ml_append w1 ir v) (ml_append w2 ir v).
Proof. intros w1 w2 ir v H. unfold ml_append. rewrite (seq_kids _ _ H). apply seqp_ml_insert. exact H. Qed.

(* attribute setters *)
Lemma seq_setn_f : forall a1 a2 b (f : node -> node), seq a1 a2 ->
  seq (setn a1 b (f (getn a1 b))) (setn a2 b (f (getn a2 b))).
Proof. intros a1 a2 b f H. rewrite (seq_getn _ _ b H). apply seq_setn. exact H. Qed.

Lemma seq_block_attr : forall w1 w2 b f, seq w1 w2 -> seq (block_attr w1 b f) (block_attr w2 b f).
Proof.
  intros w1 w2 b f H. unfold block_attr. rewrite (seq_par _ _ b H). destruct (par w2 b) as [bi|].
  - apply seq_tree_add_ev, seq_setn_f, seq_tree_disc_ev, H.
  - apply seq_setn_f, H.
Qed.

Lemma seq_bi_attr : forall w1 w2 b f, seq w1 w2 -> seq (bi_attr w1 b f) (bi_attr w2 b f).
Proof.
  intros w1 w2 b f H. unfold bi_attr. rewrite (seq_par _ _ b H). destruct (par w2 b) as [bi|].
  - apply seq_tree_add_ev, seq_setn_f, seq_tree_disc_ev, H.
  - apply seq_setn_f, H.
Qed.

Lemma seq_sym_attr : forall w1 w2 s f, seq w1 w2 -> seq (sym_attr w1 s f) (sym_attr w2 s f).
Proof.
  intros w1 w2 s f H. unfold sym_attr. rewrite (seq_par _ _ s H). destruct (par w2 s) as [m|].
  - apply seq_mod_index_add, seq_setn_f, seq_mod_index_discard, H.
  - apply seq_setn_f, H.
Qed.

(* set methods and parent setters *)
Lemma seqr_do_set : forall w1 w2 p fk m args, seq w1 w2 -> seqr (do_set w1 p fk m args) (do_set w2 p fk m args).
Proof.
  intros w1 w2 p fk m args H. unfold do_set. cbv zeta. rewrite (seq_field _ _ p fk H), (seq_kindof _ _ p H).
  generalize (match args with a :: _ => a | [] => [] end). intros arg1.
  destruct m.
  - destruct arg1 as [|c [|c' r]]; try apply seqr_err. apply seqr_flagged, seqp_set_add, H.
  - destruct arg1 as [|c [|c' r]]; try apply seqr_err. apply seqr_flagged, seqp_set_discard, H.
  - destruct arg1 as [|c [|c' r]]; try apply seqr_err. destruct (mem c (field w2 p fk)); [|apply seqr_err].
    apply seqr_flagged, seqp_set_discard, H.
  - destruct (field w2 p fk) as [|x xs]; [apply seqr_err|].
    destruct arg1 as [|c [|c' r]]; try apply seqr_err. destruct (mem c (x :: xs)); [|apply seqr_err].
    apply seqr_flagged, seqp_set_discard, H.
  - apply seqr_flagged, seqp_fold_ok; [|exact H]. intros; apply seqp_set_discard; assumption.
  - destruct (kindof w2 p);
    try (apply seqr_flagged, seqp_fold_ok; [|exact H]; intros; apply seqp_set_add; assumption).
    apply seqr_flagged, seqp_blocks_update, H.
  - apply seqr_flagged, seqp_fold_ok; [|exact H]. intros; apply seqp_set_add; assumption.
  - apply seqr_flagged, seqp_fold_ok; [|exact H]. intros; apply seqp_set_discard; assumption.
  - apply seqr_flagged, seqp_fold_ok; [|exact H]. intros; apply seqp_set_discard; assumption.
  - match goal with |- context [fold_ok ?f ?l w1] =>
      assert (HP : seqp (fold_ok f l w1) (fold_ok f l w2))
        by (apply seqp_fold_ok; [intros; apply seqp_set_discard; assumption|exact H]);
      destruct HP as [Hw1 Hs1]; destruct (fold_ok f l w1) as [x1 o1], (fold_ok f l w2) as [x2 o2]
    end.
    cbn [fst snd] in *.
    match goal with |- context [fold_ok ?f ?l x1] =>
      assert (HP : seqp (fold_ok f l x1) (fold_ok f l x2))
        by (apply seqp_fold_ok; [intros; apply seqp_set_add; assumption|exact Hw1]);
      destruct HP as [Hw2 Hs2]; destruct (fold_ok f l x1) as [y1 q1], (fold_ok f l x2) as [y2 q2]
    end.
    cbn [fst snd] in *.
    apply seqr_flagged, seqp_mk; [exact Hw2|rewrite Hs1, Hs2; reflexivity].
Qed.

Lemma seqr_do_setparent : forall w1 w2 c p, seq w1 w2 -> seqr (do_setparent w1 c p) (do_setparent w2 c p).
Proof.
  intros w1 w2 c p H. unfold do_setparent. rewrite (seq_kindof _ _ c H), (seq_par _ _ c H).
  assert (Hother : seqr
    (do w1' <- match par w2 c with Some old => flagged (set_discard w1 old c) | None => Ok w1 end;
     match p with Some q => flagged (set_add w1' q c) | None => Ok w1' end)
    (do w1' <- match par w2 c with Some old => flagged (set_discard w2 old c) | None => Ok w2 end;
     match p with Some q => flagged (set_add w1' q c) | None => Ok w1' end)).
  { apply seqr_bind.
    - destruct (par w2 c) as [old|]; [apply seqr_flagged, seqp_set_discard, H|exact H].
    - intros a b Hab. destruct p as [q|]; [apply seqr_flagged, seqp_set_add, Hab|exact Hab]. }
  destruct (kindof w2 c); try exact Hother; [apply seqr_err|].
  apply seqr_bind.
  - destruct (par w2 c) as [old|]; [apply seqr_ml_remove; exact H|exact H].
  - intros a b Hab. destruct p as [q|]; [apply seqr_flagged, seqp_ml_append, Hab|exact Hab].
Qed.

Lemma seqr_step : forall w1 w2 o, seq w1 w2 -> is_touch o = false -> seqr (step w1 o) (step w2 o).
Proof.
  intros w1 w2 o H T.
  destruct o as [n k u a s f nm p | c p | p fk m args | ir v | ir i v | ir vs | ir v | ir i | ir i | ir a b
              | ir i v | ir a b vs | ir a b c vs | ir | ir | bi a | n s | b o' | s nm | s p | bi k e | bi k | bi k | bi
              | bi k e | bi kvs | bi | bi kvs | n]; cbn [step]; try discriminate T.
  - (* ONew *) cbv zeta. apply seqr_ok.
    set (x := {| nk := k; nuuid := u; npar := None; naddr := a; nsize := s; noff := f; nname := nm; npay := p |}).
    pose proof (seq_setn w1 w2 n x H) as Hs.
    destruct k; try exact Hs. rewrite (seq_cache _ _ Hs). apply seq_set_cache. exact Hs.
  - apply seqr_do_setparent. exact H.
  - apply seqr_do_set. exact H.
  - apply seqr_flagged, seqp_ml_append, H.
  - apply seqr_flagged, seqp_ml_insert, H.
  - apply seqr_flagged, seqp_fold_ok; [|exact H]. intros; apply seqp_ml_append; assumption.
  - apply seqr_ml_remove. exact H.
  - rewrite (seq_kids _ _ H). destruct (norm_index i (length (kids w2 ir))) as [k|]; [|apply seqr_err].
    apply seqr_flagged, seqp_ml_del_at, H.
  - rewrite (seq_kids _ _ H). destruct (norm_index i (length (kids w2 ir))) as [k|]; [|apply seqr_err].
    apply seqr_flagged, seqp_ml_del_at, H.
  - (* delslice *) rewrite (seq_kids _ _ H). cbv zeta.
    match goal with |- context [fold_ok ?f ?l w1] =>
      assert (HP : seqp (fold_ok f l w1) (fold_ok f l w2))
        by (apply seqp_fold_ok; [intros; apply seqp_ml_remove_hook; assumption|exact H]);
      destruct HP as [Hw Hs]; destruct (fold_ok f l w1) as [x1 o1], (fold_ok f l w2) as [x2 o2];
      set (victims := l) in *
    end.
    cbn [fst snd] in *. apply seqr_flagged, seqp_mk; [|exact Hs].
    apply (seq_set_kids_at x1 x2 ir (filter (fun v => negb (mem v victims)))). exact Hw.
  - (* setitem *) rewrite (seq_kids _ _ H).
    destruct (norm_index i (length (kids w2 ir))) as [k|]; [|apply seqr_err].
    apply seqr_flagged, seqp_ml_assign, H.
  - (* setslice *) rewrite (seq_kids _ _ H). cbv zeta.
    apply seqr_flagged, seqp_ml_assign, H.
  - (* setext *) rewrite (seq_kids _ _ H). cbv zeta.
    destruct (SeqOps.py_slice_indices a b c (length (kids w2 ir))) as [[[s e] st]|er]; [|apply seqr_err].
    destruct (st =? 1); [apply seqr_err|].
    destruct (negb (Nat.eqb (length vs) (length (SeqOps.py_range_positions s e st (length (kids w2 ir)))))); [apply seqr_err|].
    apply seqr_flagged, seqp_ml_assign, H.
  - (* clear *) rewrite (seq_kids _ _ H).
    assert (HP : seqp (fold_ok (fun w v => ml_remove_hook w ir v) (rev (kids w2 ir)) w1)
                      (fold_ok (fun w v => ml_remove_hook w ir v) (rev (kids w2 ir)) w2))
      by (apply seqp_fold_ok; [intros; apply seqp_ml_remove_hook; assumption|exact H]).
    destruct HP as [Hw Hs].
    destruct (fold_ok (fun w v => ml_remove_hook w ir v) (rev (kids w2 ir)) w1) as [x1 o1].
    destruct (fold_ok (fun w v => ml_remove_hook w ir v) (rev (kids w2 ir)) w2) as [x2 o2]. cbn [fst snd] in *.
    apply seqr_flagged, seqp_mk; [|exact Hs].
    rewrite (seq_kids _ _ Hw). apply seq_set_kids. exact Hw.
  - (* reverse *) apply seqr_ok. rewrite (seq_kids _ _ H). apply seq_set_kids. exact H.
  - apply seqr_ok, seq_bi_attr, H.
  - rewrite (seq_kindof _ _ n H). destruct (kindof w2 n); apply seqr_ok; try (apply seq_block_attr, H).
    apply seq_bi_attr, H.
  - apply seqr_ok, seq_block_attr, H.
  - apply seqr_ok, seq_sym_attr, H.
  - apply seqr_ok, seq_sym_attr, H.
  - rewrite (seq_symx _ _ H). apply seqr_ok, seq_symx_upd, H.
  - rewrite (seq_symx _ _ H). destruct (dict_has Z.eqb k (symx w2 bi)); [|apply seqr_err]. apply seqr_ok, seq_symx_upd, H.
  - rewrite (seq_symx _ _ H). destruct (dict_has Z.eqb k (symx w2 bi)); [|apply seqr_err]. apply seqr_ok, seq_symx_upd, H.
  - rewrite (seq_symx _ _ H). destruct (symx w2 bi); [apply seqr_err|]. apply seqr_ok, seq_symx_upd, H.
  - rewrite (seq_symx _ _ H). destruct (dict_has Z.eqb k (symx w2 bi)); apply seqr_ok; [exact H|apply seq_symx_upd, H].
  - rewrite (seq_symx _ _ H). apply seqr_ok, seq_symx_upd, H.
  - apply seqr_ok, seq_symx_upd, H.
  - apply seqr_ok, seq_symx_upd, H.
Qed.

Lemma step_strip : forall w1 w2 o, strip w1 = strip w2 -> is_touch o = false ->
  strip (step' w1 o) = strip (step' w2 o) /\ (forall known, op_okb w1 known o = op_okb w2 known o).
Proof.
  intros w1 w2 o H T. split.
  - rewrite !step'_ret. apply seq_ret; [exact H|apply seqr_step; assumption].
  - intros known. apply seq_op_okb. exact H.
Qed.

Lemma touch_strip : forall w n, strip (step' w (OTouch n)) = strip w.
Proof. intros w n. rewrite step'_ret. cbn [step ret]. rewrite force_fst. reflexivity. Qed.

Definition not_touch (o : op) : bool := negb (is_touch o).

Lemma run_guarded_filter : forall ops w1 w2 known, seq w1 w2 ->
  seqp (run_guarded w1 known ops) (run_guarded w2 known (filter not_touch ops)).
Proof.
  intros ops. induction ops as [|o ops IH]; intros w1 w2 known H.
  - apply seqp_mk; [exact H|reflexivity].
  - cbn [run_guarded filter]. unfold not_touch at 1. destruct (is_touch o) eqn:T; cbn [negb].
    + destruct o; try discriminate T.
      destruct (op_okb w1 known (OTouch n)); [|apply IH; exact H].
      apply IH. eapply seq_trans; [|exact H]. apply touch_strip.
    + cbn [run_guarded]. destruct (step_strip w1 w2 o H T) as [Hs Hg]. rewrite (Hg known).
      destruct (op_okb w2 known o); [|apply IH; exact H]. apply IH. exact Hs.
Qed.

Theorem schedule_struct : forall ops1 ops2,
  filter (fun o => negb (is_touch o)) ops1 = filter (fun o => negb (is_touch o)) ops2 ->
  strip (fst (run_guarded w0 [] ops1)) = strip (fst (run_guarded w0 [] ops2)) /\
  snd (run_guarded w0 [] ops1) = snd (run_guarded w0 [] ops2).
Proof.
  intros ops1 ops2 E.
  destruct (run_guarded_filter ops1 w0 w0 [] (seq_refl w0)) as [A1 B1].
  destruct (run_guarded_filter ops2 w0 w0 [] (seq_refl w0)) as [A2 B2].
  change (filter not_touch ops1 = filter not_touch ops2) in E. rewrite E in A1, B1.
  split.
  - eapply seq_trans; [exact A1|]. apply seq_sym. exact A2.
  - congruence.
Qed.

(* ================================================================== *)
(** * Lookups only force trees *)

(* w' differs from w only in lazily materialised trees, and stays in sync *)
Definition lk (w w' : world) : Prop := strip w' = strip w /\ (SyncAll w -> SyncAll w').

Lemma lk_refl : forall w, lk w w.
Proof. intros w. split; [reflexivity|auto]. Qed.

Lemma lk_trans : forall w w' w'', lk w w' -> lk w' w'' -> lk w w''.
Proof. intros w w' w'' [A1 B1] [A2 B2]. split; [congruence|auto]. Qed.

Lemma lk_force : forall w n, lk w (fst (force w n)).
Proof. intros w n. split; [rewrite force_fst; reflexivity|apply force_sync]. Qed.

Definition lookup_ok {R : Type} (f : world -> id -> qrange -> world * R) : Prop :=
  forall w x q, lk w (fst (f w x q)).

Lemma lk_bi_blocks_on : lookup_ok bi_blocks_on.
Proof.
  intros w bi q. unfold bi_blocks_on. destruct (naddr (getn w bi)) as [a|]; [|apply lk_refl].
  pose proof (lk_force w bi) as H. destruct (force w bi) as [w1 idx]. exact H.
Qed.

Lemma lk_bi_blocks_at : lookup_ok bi_blocks_at.
Proof.
  intros w bi q. unfold bi_blocks_at. destruct (naddr (getn w bi)) as [a|]; [|apply lk_refl].
  pose proof (lk_force w bi) as H. destruct (force w bi) as [w1 idx]. exact H.
Qed.

Lemma lk_bi_blocks_on_off : lookup_ok bi_blocks_on_off.
Proof.
  intros w bi q. unfold bi_blocks_on_off.
  pose proof (lk_force w bi) as H. destruct (force w bi) as [w1 idx]. exact H.
Qed.

Lemma lk_bi_blocks_at_off : lookup_ok bi_blocks_at_off.
Proof.
  intros w bi q. unfold bi_blocks_at_off.
  pose proof (lk_force w bi) as H. destruct (force w bi) as [w1 idx]. exact H.
Qed.

Lemma lk_sec_bis_on : lookup_ok sec_bis_on.
Proof.
  intros w s q. unfold sec_bis_on.
  pose proof (lk_force w s) as H. destruct (force w s) as [w1 idx]. exact H.
Qed.

Lemma lk_sec_bis_at : lookup_ok sec_bis_at.
Proof.
  intros w s q. unfold sec_bis_at.
  pose proof (lk_force w s) as H. destruct (force w s) as [w1 idx]. exact H.
Qed.

Lemma chain_fst : forall f l q w, fst (chain f l q w) = fold_left (fun w x => fst (f w x q)) l w.
Proof.
  intros f l q w. unfold chain. apply fold_pair_fst. intros w' b x. destruct (f w' x q); reflexivity.
Qed.

(* the generic lemma for [chain] *)
Lemma lk_chain : forall f, lookup_ok f -> forall l q w, lk w (fst (chain f l q w)).
Proof.
  intros f Hf l q w. rewrite chain_fst.
  apply (fold_left_inv id (fun w' => lk w w')); [|apply lk_refl].
  intros w' x _ H. eapply lk_trans; [exact H|apply Hf].
Qed.

Lemma lk_sec_blocks_on : lookup_ok sec_blocks_on.
Proof.
  intros w s q. unfold sec_blocks_on.
  pose proof (lk_sec_bis_on w s q) as H. destruct (sec_bis_on w s q) as [w1 bis]. cbn [fst] in H.
  eapply lk_trans; [exact H|]. apply lk_chain. exact lk_bi_blocks_on.
Qed.

Lemma lk_sec_blocks_at : lookup_ok sec_blocks_at.
Proof.
  intros w s q. unfold sec_blocks_at.
  pose proof (lk_sec_bis_on w s q) as H. destruct (sec_bis_on w s q) as [w1 bis]. cbn [fst] in H.
  eapply lk_trans; [exact H|]. apply lk_chain. exact lk_bi_blocks_at.
Qed.

Lemma lk_sec_extent : forall w s, lk w (fst (sec_extent w s)).
Proof.
  intros w s. unfold sec_extent.
  pose proof (lk_force w s) as H. destruct (force w s) as [w1 idx]. exact H.
Qed.

Lemma sections_on_fst : forall secs q w,
  fst (sections_on w secs q) = fold_left (fun w s => fst (sec_extent w s)) secs w.
Proof.
  intros secs q w. unfold sections_on. apply fold_pair_fst. intros w' b s.
  destruct (sec_extent w' s) as [w1 [[a sz]|]]; reflexivity.
Qed.

Lemma sections_at_fst : forall secs q w,
  fst (sections_at w secs q) = fold_left (fun w s => fst (sec_extent w s)) secs w.
Proof.
  intros secs q w. unfold sections_at. apply fold_pair_fst. intros w' b s.
  destruct (sec_extent w' s) as [w1 [[a sz]|]]; reflexivity.
Qed.

Lemma lk_sections_on : forall w secs q, lk w (fst (sections_on w secs q)).
Proof.
  intros w secs q. rewrite sections_on_fst.
  apply (fold_left_inv id (fun w' => lk w w')); [|apply lk_refl].
  intros w' x _ H. eapply lk_trans; [exact H|apply lk_sec_extent].
Qed.

Lemma lk_sections_at : forall w secs q, lk w (fst (sections_at w secs q)).
Proof.
  intros w secs q. rewrite sections_at_fst.
  apply (fold_left_inv id (fun w' => lk w w')); [|apply lk_refl].
  intros w' x _ H. eapply lk_trans; [exact H|apply lk_sec_extent].
Qed.

Lemma lk_sec_symx_at : lookup_ok sec_symx_at.
Proof.
  intros w s q. unfold sec_symx_at.
  pose proof (lk_sec_bis_on w s q) as H. destruct (sec_bis_on w s q) as [w1 bis]. exact H.
Qed.

Lemma lk_mod_lift : forall f, lookup_ok f -> lookup_ok (mod_lift f).
Proof. intros f Hf w m q. unfold mod_lift. apply lk_chain. exact Hf. Qed.

Lemma lk_ir_lift : forall f, lookup_ok f -> lookup_ok (ir_lift f).
Proof. intros f Hf w ir q. unfold ir_lift. apply lk_chain. apply lk_mod_lift. exact Hf. Qed.

(* the individual statements *)
Lemma lookup_strip_force : forall w n, strip (fst (force w n)) = strip w.
Proof. intros. apply lk_force. Qed.
Lemma lookup_sync_force : forall w n, SyncAll w -> SyncAll (fst (force w n)).
Proof. intros w n. apply lk_force. Qed.

Lemma lookup_strip_bi_blocks_on : forall w bi q, strip (fst (bi_blocks_on w bi q)) = strip w.
Proof. intros. apply lk_bi_blocks_on. Qed.
Lemma lookup_sync_bi_blocks_on : forall w bi q, SyncAll w -> SyncAll (fst (bi_blocks_on w bi q)).
Proof. intros w bi q. apply lk_bi_blocks_on. Qed.

Lemma lookup_strip_bi_blocks_at : forall w bi q, strip (fst (bi_blocks_at w bi q)) = strip w.
Proof. intros. apply lk_bi_blocks_at. Qed.
Lemma lookup_sync_bi_blocks_at : forall w bi q, SyncAll w -> SyncAll (fst (bi_blocks_at w bi q)).
Proof. intros w bi q. apply lk_bi_blocks_at. Qed.

Lemma lookup_strip_bi_blocks_on_off : forall w bi q, strip (fst (bi_blocks_on_off w bi q)) = strip w.
Proof. intros. apply lk_bi_blocks_on_off. Qed.
Lemma lookup_sync_bi_blocks_on_off : forall w bi q, SyncAll w -> SyncAll (fst (bi_blocks_on_off w bi q)).
Proof. intros w bi q. apply lk_bi_blocks_on_off. Qed.

Lemma lookup_strip_bi_blocks_at_off : forall w bi q, strip (fst (bi_blocks_at_off w bi q)) = strip w.
Proof. intros. apply lk_bi_blocks_at_off. Qed.
Lemma lookup_sync_bi_blocks_at_off : forall w bi q, SyncAll w -> SyncAll (fst (bi_blocks_at_off w bi q)).
Proof. intros w bi q. apply lk_bi_blocks_at_off. Qed.

Lemma lookup_strip_sec_bis_on : forall w s q, strip (fst (sec_bis_on w s q)) = strip w.
Proof. intros. apply lk_sec_bis_on. Qed.
Lemma lookup_sync_sec_bis_on : forall w s q, SyncAll w -> SyncAll (fst (sec_bis_on w s q)).
Proof. intros w s q. apply lk_sec_bis_on. Qed.

Lemma lookup_strip_sec_bis_at : forall w s q, strip (fst (sec_bis_at w s q)) = strip w.
Proof. intros. apply lk_sec_bis_at. Qed.
Lemma lookup_sync_sec_bis_at : forall w s q, SyncAll w -> SyncAll (fst (sec_bis_at w s q)).
Proof. intros w s q. apply lk_sec_bis_at. Qed.

Lemma lookup_strip_sec_blocks_on : forall w s q, strip (fst (sec_blocks_on w s q)) = strip w.
Proof. intros. apply lk_sec_blocks_on. Qed.
Lemma lookup_sync_sec_blocks_on : forall w s q, SyncAll w -> SyncAll (fst (sec_blocks_on w s q)).
Proof. intros w s q. apply lk_sec_blocks_on. Qed.

Lemma lookup_strip_sec_blocks_at : forall w s q, strip (fst (sec_blocks_at w s q)) = strip w.
Proof. intros. apply lk_sec_blocks_at. Qed.
Lemma lookup_sync_sec_blocks_at : forall w s q, SyncAll w -> SyncAll (fst (sec_blocks_at w s q)).
Proof. intros w s q. apply lk_sec_blocks_at. Qed.

Lemma lookup_strip_sec_extent : forall w s, strip (fst (sec_extent w s)) = strip w.
Proof. intros. apply lk_sec_extent. Qed.
Lemma lookup_sync_sec_extent : forall w s, SyncAll w -> SyncAll (fst (sec_extent w s)).
Proof. intros w s. apply lk_sec_extent. Qed.

Lemma lookup_strip_sections_on : forall w secs q, strip (fst (sections_on w secs q)) = strip w.
Proof. intros. apply lk_sections_on. Qed.
Lemma lookup_sync_sections_on : forall w secs q, SyncAll w -> SyncAll (fst (sections_on w secs q)).
Proof. intros w secs q. apply lk_sections_on. Qed.

Lemma lookup_strip_sections_at : forall w secs q, strip (fst (sections_at w secs q)) = strip w.
Proof. intros. apply lk_sections_at. Qed.
Lemma lookup_sync_sections_at : forall w secs q, SyncAll w -> SyncAll (fst (sections_at w secs q)).
Proof. intros w secs q. apply lk_sections_at. Qed.

Lemma lookup_strip_sec_symx_at : forall w s q, strip (fst (sec_symx_at w s q)) = strip w.
Proof. intros. apply lk_sec_symx_at. Qed.
Lemma lookup_sync_sec_symx_at : forall w s q, SyncAll w -> SyncAll (fst (sec_symx_at w s q)).
Proof. intros w s q. apply lk_sec_symx_at. Qed.

Lemma lookup_strip_chain : forall f, lookup_ok f -> forall l q w, strip (fst (chain f l q w)) = strip w.
Proof. intros f Hf l q w. apply lk_chain. exact Hf. Qed.
Lemma lookup_sync_chain : forall f, lookup_ok f -> forall l q w, SyncAll w -> SyncAll (fst (chain f l q w)).
Proof. intros f Hf l q w. apply lk_chain. exact Hf. Qed.

Lemma lookup_strip_mod_lift : forall f, lookup_ok f -> forall w m q, strip (fst (mod_lift f w m q)) = strip w.
Proof. intros f Hf w m q. apply lk_mod_lift. exact Hf. Qed.
Lemma lookup_sync_mod_lift : forall f, lookup_ok f -> forall w m q, SyncAll w -> SyncAll (fst (mod_lift f w m q)).
Proof. intros f Hf w m q. apply lk_mod_lift. exact Hf. Qed.

Lemma lookup_strip_ir_lift : forall f, lookup_ok f -> forall w ir q, strip (fst (ir_lift f w ir q)) = strip w.
Proof. intros f Hf w ir q. apply lk_ir_lift. exact Hf. Qed.
Lemma lookup_sync_ir_lift : forall f, lookup_ok f -> forall w ir q, SyncAll w -> SyncAll (fst (ir_lift f w ir q)).
Proof. intros f Hf w ir q. apply lk_ir_lift. exact Hf. Qed.

(* lookups do not disturb NonNeg either (nodes are untouched) *)
Lemma strip_nonneg : forall w w', strip w' = strip w -> NonNeg w -> NonNeg w'.
Proof.
  intros w w' H N. apply attr_nonneg with (w := w); [|exact N].
  intros n. apply attr_nodes. apply (seq_nodes w' w H).
Qed.

Print Assumptions lt_get_exact.
Print Assumptions sync_preserved.
Print Assumptions step_strip.
Print Assumptions touch_strip.
Print Assumptions schedule_struct.
Print Assumptions lk_chain.
Print Assumptions lk_ir_lift.
Print Assumptions lookup_sync_sec_blocks_on.
Print Assumptions lookup_sync_sections_on.
