(* Finite-table obligations over the GENERATED files (gen/Schema.v from proto/*.proto, gen/PyFacts.v from the loaded working tree):
   enums (numbers and names), protobuf version, message/field/one-of coverage of the modelled messages.
   Kept apart from ProtoProps.v so that a change of a generated fact breaks exactly the theorems stated over it (Props/C02.v)
   and not the reader/writer theorems of other properties that merely live in the same file. *)
From Coq Require Import String ZArith List Bool Lia.
From V Require Import Result Bytes Schema PyFacts Proto.
From V Require ProtoRoundTrip.
Import ListNotations.
Local Open Scope string_scope.
Local Open Scope list_scope.
Local Open Scope Z_scope.

(* ---------- enums ----------
   py_enums (PyFacts) is keyed by the SCHEMA enum name; its members are those of the Python enum class that the API
   maps it to (ISA -> Module.ISA, FileFormat -> Module.FileFormat, ByteOrder -> Module.ByteOrder,
   SectionFlag -> Section.Flag, DecodeMode -> CodeBlock.DecodeMode, EdgeType -> EdgeLabel.Type,
   SymAttribute -> SymbolicExpression.Attribute).  `enum_ok nm v` is the reader's test `EnumClass(v)` on that table. *)
Definition schema_enum_names : list string :=
  ["ByteOrder"; "DecodeMode"; "EdgeType"; "FileFormat"; "ISA"; "SectionFlag"; "SymAttribute"].   (* sorted by name *)
Definition schema_members (nm : string) : list (string * Z) :=
  match find (fun p => String.eqb (fst p) nm) schema_enums with Some p => snd p | None => [] end.
Definition enum_total_check (nm : string) : bool :=
  negb (match schema_members nm with [] => true | _ => false end)
  && forallb (fun p => enum_ok nm (snd p)) (schema_members nm)
  && forallb (fun p => existsb (fun q => snd q =? snd p) (schema_members nm)) (enum_members nm).

Lemma enum_tables_agree :
  map fst schema_enums = schema_enum_names /\ forallb enum_total_check schema_enum_names = true.
Proof. vm_compute. split; reflexivity. Qed.

(* for every enum the schema declares: it is one of the seven, it has constants, every declared number is accepted by
   the Python enum class, and every Python member (aliases included) carries a number the schema declares *)
Theorem enum_total : forall nm, In nm (map fst schema_enums) ->
  In nm schema_enum_names
  /\ schema_members nm <> []
  /\ (forall sn v, In (sn, v) (schema_members nm) -> enum_ok nm v = true)
  /\ (forall pn v, In (pn, v) (enum_members nm) -> exists sn, In (sn, v) (schema_members nm)).
Proof.
  intros nm Hin. destruct enum_tables_agree as [E C]. rewrite E in Hin. split; [exact Hin|].
  rewrite forallb_forall in C. specialize (C nm Hin). unfold enum_total_check in C.
  repeat rewrite andb_true_iff in C. destruct C as [[C1 C2] C3]. split; [|split].
  - intros H. rewrite H in C1. discriminate C1.
  - intros sn v Hv. rewrite forallb_forall in C2. exact (C2 (sn, v) Hv).
  - intros pn v Hv. rewrite forallb_forall in C3. specialize (C3 (pn, v) Hv).
    apply existsb_exists in C3. destruct C3 as [[sn v'] [Hq Hv']]. cbn [snd] in Hv'.
    apply Z.eqb_eq in Hv'. subst v'. exists sn. exact Hq.
Qed.

(* so the reader's enum check lets every constant of the schema through *)
Theorem schema_enum_accepted : forall nm sn v, In nm (map fst schema_enums) -> In (sn, v) (schema_members nm) ->
  check_enum nm v = Ok tt.
Proof.
  intros nm sn v Hn Hv. destruct (enum_total nm Hn) as [_ [_ [H _]]].
  apply ProtoRoundTrip.check_enum_ok. exact (H sn v Hv).
Qed.

(* ---------- constants are paired BY NAME, not only by number ----------
   The API derives its member names from the schema's constant names by three conventions: the same name (ELF, ARM64, GOT),
   the schema name without its prefix up to the last underscore (ISA_Undefined / Format_Undefined / Section_Undefined ->
   Undefined, Type_Branch -> Branch, All_Default -> Default, ARM_Thumb -> Thumb), or without the suffix "Endian"
   (BigEndian -> Big).  Every Python member must carry the number of the schema constant it is named after, and every schema
   constant must have such a member: two members whose numbers are exchanged (each direction of save/load wrong on its own,
   their composition still the identity) break this obligation. *)
Fixpoint str_suffixes (s : string) : list string :=
  match s with EmptyString => [EmptyString] | String _ s' => s :: str_suffixes s' end.
Definition name_match (sn pn : string) : bool :=
  String.eqb sn pn
  || existsb (String.eqb ("_" ++ pn)) (str_suffixes sn)
  || String.eqb sn (pn ++ "Endian").
Definition enum_paired_check (nm : string) : bool :=
  forallb (fun pm => existsb (fun sm => (snd sm =? snd pm) && name_match (fst sm) (fst pm)) (schema_members nm)) (enum_members nm)
  && forallb (fun sm => existsb (fun pm => (snd sm =? snd pm) && name_match (fst sm) (fst pm)) (enum_members nm)) (schema_members nm)
  (* and no member is named after a constant with ANOTHER number *)
  && forallb (fun pm => forallb (fun sm => negb (String.eqb (fst sm) (fst pm)) || (snd sm =? snd pm)) (schema_members nm)) (enum_members nm).

Lemma enums_paired_tables : forallb enum_paired_check schema_enum_names = true.
Proof. vm_compute. reflexivity. Qed.

Theorem enum_names_paired : forall nm, In nm (map fst schema_enums) ->
  (forall pn v, In (pn, v) (enum_members nm) -> exists sn, In (sn, v) (schema_members nm) /\ name_match sn pn = true)
  /\ (forall sn v, In (sn, v) (schema_members nm) -> exists pn, In (pn, v) (enum_members nm) /\ name_match sn pn = true)
  /\ (forall n v v', In (n, v) (enum_members nm) -> In (n, v') (schema_members nm) -> v = v').
Proof.
  intros nm Hin. destruct enum_tables_agree as [E _]. rewrite E in Hin.
  pose proof enums_paired_tables as C. rewrite forallb_forall in C. specialize (C nm Hin). unfold enum_paired_check in C.
  repeat rewrite andb_true_iff in C. destruct C as [[C1 C2] C3]. split; [|split].
  - intros pn v Hv. rewrite forallb_forall in C1. specialize (C1 (pn, v) Hv). apply existsb_exists in C1.
    destruct C1 as [[sn v'] [Hq Hm]]. cbn [fst snd] in Hm. apply andb_true_iff in Hm. destruct Hm as [Hv' Hm].
    apply Z.eqb_eq in Hv'. subst v'. exists sn. split; assumption.
  - intros sn v Hv. rewrite forallb_forall in C2. specialize (C2 (sn, v) Hv). apply existsb_exists in C2.
    destruct C2 as [[pn v'] [Hq Hm]]. cbn [fst snd] in Hm. apply andb_true_iff in Hm. destruct Hm as [Hv' Hm].
    apply Z.eqb_eq in Hv'. subst v'. exists pn. split; assumption.
  - intros n v v' Hp Hs. rewrite forallb_forall in C3. specialize (C3 (n, v) Hp). rewrite forallb_forall in C3.
    specialize (C3 (n, v') Hs). cbn [fst snd] in C3. rewrite String.eqb_refl in C3. cbn [negb orb] in C3.
    apply Z.eqb_eq in C3. symmetry. exact C3.
Qed.

Theorem version_agrees : schema_protobuf_version = py_protobuf_version /\ py_ir_protobuf_version = py_protobuf_version.
Proof. vm_compute. split; reflexivity. Qed.

(* ---------- messages and fields ----------
   The literal lists below are written in the CANONICAL order of gen/Schema.v: messages sorted by name (byte order, so
   "SymStackConst" < "Symbol"), the fields of a message sorted by field number.  A reordering of declarations in
   proto/*.proto therefore changes neither gen/Schema.v nor these lists. *)
Definition modelled_messages : list string :=
  ["AuxData"; "Block"; "ByteInterval"; "CFG"; "CodeBlock"; "DataBlock"; "Edge"; "EdgeLabel"; "IR"; "Module";
   "ProxyBlock"; "Section"; "SymAddrAddr"; "SymAddrConst"; "Symbol"; "SymbolicExpression"].
Definition schema_msg_fields (nm : string) : list (string * Z * string * string * string) :=
  match find (fun p => String.eqb (fst p) nm) schema_messages with Some p => snd p | None => [] end.
Definition fld_name (f : string * Z * string * string * string) : string := fst (fst (fst (fst f))).
Definition fld_oneof (f : string * Z * string * string * string) : string := snd f.
Definition schema_fields (nm : string) : list (string * string) := map (fun f => (nm, fld_name f)) (schema_msg_fields nm).
Definition schema_oneofs (nm : string) : list (string * string * string) :=
  flat_map (fun f => if String.eqb (fld_oneof f) "" then [] else [(nm, fld_name f, fld_oneof f)]) (schema_msg_fields nm).

(* (message, field) -> where it lives in Model/Proto.v: message record field / content record field *)
Definition modelled_fields : list (string * string) :=
  [ ("AuxData", "type_name");                       (* pAux.a_type *)
    ("AuxData", "data");                            (* pAux.a_data *)
    ("Block", "offset");                            (* pBlock.b_off              / cBlock.cb_off *)
    ("Block", "code");                              (* pBlock.b_val = PCode ..   / cBlock.cb_code = true *)
    ("Block", "data");                              (* pBlock.b_val = PData ..   / cBlock.cb_code = false *)
    ("ByteInterval", "uuid");                       (* pBI.bi_uuid               / cBI.ci_uuid *)
    ("ByteInterval", "blocks");                     (* pBI.bi_blocks             / cBI.ci_blocks *)
    ("ByteInterval", "symbolic_expressions");       (* pBI.bi_symx               / cBI.ci_symx *)
    ("ByteInterval", "has_address");                (* pBI.bi_has_addr           / cBI.ci_addr <> None *)
    ("ByteInterval", "address");                    (* pBI.bi_addr               / cBI.ci_addr *)
    ("ByteInterval", "size");                       (* pBI.bi_size               / cBI.ci_size *)
    ("ByteInterval", "contents");                   (* pBI.bi_contents           / cBI.ci_contents *)
    ("CFG", "edges");                               (* pIR.i_edges               / cIR.cr_edges *)
    ("CFG", "vertices");                            (* pIR.i_vertices            / written from module_cfg_nodes; not read *)
    ("CodeBlock", "uuid");                          (* PCode uuid                / cBlock.cb_uuid *)
    ("CodeBlock", "size");                          (* PCode size                / cBlock.cb_size *)
    ("CodeBlock", "decode_mode");                   (* PCode dm                  / cBlock.cb_dm *)
    ("DataBlock", "uuid");                          (* PData uuid                / cBlock.cb_uuid *)
    ("DataBlock", "size");                          (* PData size                / cBlock.cb_size *)
    ("Edge", "source_uuid");                        (* pEdge.e_src               / cEdge.ce_src *)
    ("Edge", "target_uuid");                        (* pEdge.e_dst               / cEdge.ce_dst *)
    ("Edge", "label");                              (* pEdge.e_label (presence = option) / cEdge.ce_label *)
    ("EdgeLabel", "conditional");                   (* pLabel.l_cond             / 2nd component of clabel *)
    ("EdgeLabel", "direct");                        (* pLabel.l_direct           / 3rd component of clabel *)
    ("EdgeLabel", "type");                          (* pLabel.l_type             / 1st component of clabel *)
    ("IR", "uuid");                                 (* pIR.i_uuid                / cIR.cr_uuid *)
    ("IR", "modules");                              (* pIR.i_modules             / cIR.cr_modules *)
    ("IR", "aux_data");                             (* pIR.i_aux                 / cIR.cr_aux *)
    ("IR", "version");                              (* pIR.i_version             / cIR.cr_version *)
    ("IR", "cfg");                                  (* pIR.i_vertices + i_edges (the CFG message is inlined) *)
    ("Module", "uuid");                             (* pModule.m_uuid            / cModule.cm_uuid *)
    ("Module", "binary_path");                      (* pModule.m_binary_path     / cModule.cm_binary_path *)
    ("Module", "preferred_addr");                   (* pModule.m_preferred_addr  / cModule.cm_preferred_addr *)
    ("Module", "rebase_delta");                     (* pModule.m_rebase_delta    / cModule.cm_rebase_delta *)
    ("Module", "file_format");                      (* pModule.m_file_format     / cModule.cm_file_format *)
    ("Module", "isa");                              (* pModule.m_isa             / cModule.cm_isa *)
    ("Module", "name");                             (* pModule.m_name            / cModule.cm_name *)
    ("Module", "symbols");                          (* pModule.m_symbols         / cModule.cm_symbols *)
    ("Module", "sections");                         (* pModule.m_sections        / cModule.cm_sections *)
    ("Module", "proxies");                          (* pModule.m_proxies         / cModule.cm_proxies *)
    ("Module", "aux_data");                         (* pModule.m_aux             / cModule.cm_aux *)
    ("Module", "entry_point");                      (* pModule.m_entry ([] = absent) / cModule.cm_entry *)
    ("Module", "byte_order");                       (* pModule.m_byte_order      / cModule.cm_byte_order *)
    ("ProxyBlock", "uuid");                         (* element of pModule.m_proxies / element of cModule.cm_proxies *)
    ("Section", "uuid");                            (* pSection.s_uuid           / cSection.cs_uuid *)
    ("Section", "name");                            (* pSection.s_name           / cSection.cs_name *)
    ("Section", "byte_intervals");                  (* pSection.s_bis            / cSection.cs_bis *)
    ("Section", "section_flags");                   (* pSection.s_flags          / cSection.cs_flags *)
    ("SymAddrAddr", "scale");                       (* PAddrAddr scale           / CAddrAddr scale *)
    ("SymAddrAddr", "offset");                      (* PAddrAddr off             / CAddrAddr off *)
    ("SymAddrAddr", "symbol1_uuid");                (* PAddrAddr s1              / CAddrAddr s1 *)
    ("SymAddrAddr", "symbol2_uuid");                (* PAddrAddr s2              / CAddrAddr s2 *)
    ("SymAddrConst", "offset");                     (* PAddrConst off            / CAddrConst off *)
    ("SymAddrConst", "symbol_uuid");                (* PAddrConst sym            / CAddrConst sym *)
    ("Symbol", "uuid");                             (* pSymbol.y_uuid            / cSymbol.cy_uuid *)
    ("Symbol", "value");                            (* pSymbol.y_payload = PPValue v / cSymbol.cy_payload = CPVal v *)
    ("Symbol", "name");                             (* pSymbol.y_name            / cSymbol.cy_name *)
    ("Symbol", "referent_uuid");                    (* pSymbol.y_payload = PPRef u   / cSymbol.cy_payload = CPRef u *)
    ("Symbol", "at_end");                           (* pSymbol.y_at_end          / cSymbol.cy_at_end *)
    ("SymbolicExpression", "addr_const");           (* pExpr.x_val = PAddrConst ..   / cExpr.cx_val = CAddrConst .. *)
    ("SymbolicExpression", "addr_addr");            (* pExpr.x_val = PAddrAddr ..    / cExpr.cx_val = CAddrAddr .. *)
    ("SymbolicExpression", "attribute_flags")       (* pExpr.x_attrs             / cExpr.cx_attrs *)
  ].

(* the one-of groups, modelled by the three-constructor types pBlockVal, pPayload, pExprVal (third constructor = unset) *)
Definition modelled_oneofs : list (string * string * string) :=
  [ ("Block", "code", "value"); ("Block", "data", "value");                                         (* pBlockVal *)
    ("Symbol", "value", "optional_payload"); ("Symbol", "referent_uuid", "optional_payload");       (* pPayload *)
    ("SymbolicExpression", "addr_const", "value"); ("SymbolicExpression", "addr_addr", "value") ].  (* pExprVal *)

(* a field added to (or removed from, or renamed in) one of these messages breaks this equation until it is modelled *)
Theorem fields_covered : flat_map schema_fields modelled_messages = modelled_fields.
Proof. vm_compute. reflexivity. Qed.

Theorem oneofs_covered : flat_map schema_oneofs modelled_messages = modelled_oneofs.
Proof. vm_compute. reflexivity. Qed.

(* the schema's other messages: Offset is only an AuxData VALUE type (codec "Offset", C07/C08), SymStackConst is not the
   type of any field (no message refers to it; the Python API has no class for it) *)
Theorem messages_partition :
  filter (fun nm => negb (existsb (String.eqb nm) modelled_messages)) (map fst schema_messages) = ["Offset"; "SymStackConst"]
  /\ forallb (fun nm => existsb (String.eqb nm) (map fst schema_messages)) modelled_messages = true
  /\ forallb (fun p => forallb (fun f => negb (String.eqb (snd (fst (fst f))) "SymStackConst")
                                         && negb (String.eqb (snd (fst (fst f))) "Offset")) (snd p)) schema_messages = true.
Proof. vm_compute. repeat split; reflexivity. Qed.

(* ================================================================== *)
(* Part C (C09): the decoder resolves every reference through the table, with the admissible kinds                 *)
(* ================================================================== *)

(* what an accepted reference is: a 16-byte string whose UUID the table maps to a node of an admissible kind *)

Print Assumptions enum_total.
Print Assumptions schema_enum_accepted.
Print Assumptions version_agrees.
Print Assumptions fields_covered.
Print Assumptions oneofs_covered.
Print Assumptions messages_partition.
Print Assumptions enum_names_paired.
