(* Task SC: lookup answers depend only on the structure, not on the schedule of lookups.
   1. worlds with equal [strip] have equal structural fields (everything but [tree]);
   2. exact composition of the lookups above interval scope;
   3. answers are functions of the structure (same set, both duplicate free);
   4. schedules with arbitrary lookups interleaved: structure, invariants and answers. *)
From Coq Require Import ZArith List Bool Lia.
From V Require Import Result LazyTree World WorldGuard WorldRun ForestDefs InvDefs SyncProofs LookupBase LookupProofs SymxProofs.
Import ListNotations.
Open Scope Z_scope.

(* SyncProofs.Good (one argument) is shadowed by LookupBase.Good (with [known]); be explicit *)
Notation GoodK := LookupBase.Good.
(* the type LookupProofs calls [lookup] (the name is shadowed by a notation of SymxProofs) *)
Definition lookup_t := world -> id -> qrange -> world * list id.

(* ================================================================== *)
(** * 1. equal [strip] = equal structure *)

Lemma strip_fields : forall w1 w2, strip w1 = strip w2 ->
  nodes w1 = nodes w2 /\ kids w1 = kids w2 /\ cache w1 = cache w2 /\ nix w1 = nix w2 /\
  rix w1 = rix w2 /\ symx w1 = symx w2.
Proof.
  intros w1 w2 H. rewrite (seq_repr w1 w2 H). cbn [set_tree nodes kids cache nix rix symx].
  repeat split; reflexivity.
Qed.

Lemma strip_agree : forall w1 w2, strip w1 = strip w2 -> agree w1 w2.
Proof.
  intros w1 w2 H. destruct (strip_fields w1 w2 H) as (H1 & H2 & H3 & H4 & H5 & H6).
  unfold agree. repeat split; symmetry; assumption.
Qed.

Lemma agree_strip : forall w1 w2, agree w1 w2 -> strip w1 = strip w2.
Proof.
  intros [n1 k1 c1 x1 r1 t1 s1] [n2 k2 c2 x2 r2 t2 s2] (H1 & H2 & H3 & H4 & H5 & H6).
  cbn in H1, H2, H3, H4, H5, H6. subst. reflexivity.
Qed.

Lemma strip_getn : forall w1 w2 n, strip w1 = strip w2 -> getn w1 n = getn w2 n.
Proof. intros w1 w2 n H. symmetry. apply agree_getn, strip_agree, H. Qed.
Lemma strip_kindof : forall w1 w2 n, strip w1 = strip w2 -> kindof w1 n = kindof w2 n.
Proof. intros w1 w2 n H. symmetry. apply agree_kindof, strip_agree, H. Qed.
Lemma strip_par : forall w1 w2 n, strip w1 = strip w2 -> par w1 n = par w2 n.
Proof. intros w1 w2 n H. symmetry. apply agree_par, strip_agree, H. Qed.
Lemma strip_has : forall w1 w2 n, strip w1 = strip w2 -> has w1 n = has w2 n.
Proof. intros w1 w2 n H. symmetry. apply agree_has, strip_agree, H. Qed.
Lemma strip_secs_of : forall w1 w2 m, strip w1 = strip w2 -> secs_of w1 m = secs_of w2 m.
Proof. intros w1 w2 m H. symmetry. apply agree_secs_of, strip_agree, H. Qed.
Lemma strip_mods_of : forall w1 w2 ir, strip w1 = strip w2 -> mods_of w1 ir = mods_of w2 ir.
Proof. intros w1 w2 ir H. symmetry. apply agree_mods_of, strip_agree, H. Qed.
Lemma strip_ext_pure : forall w1 w2 s, strip w1 = strip w2 -> ext_pure w1 s = ext_pure w2 s.
Proof. intros w1 w2 s H. symmetry. apply agree_ext_pure, strip_agree, H. Qed.
Lemma strip_ir_of : forall w1 w2 n, strip w1 = strip w2 -> ir_of w1 n = ir_of w2 n.
Proof. intros w1 w2 n H. apply seq_ir_of. exact H. Qed.
Lemma strip_module_of : forall w1 w2 n, strip w1 = strip w2 -> module_of w1 n = module_of w2 n.
Proof. intros w1 w2 n H. rewrite (seq_repr w1 w2 H). reflexivity. Qed.
Lemma strip_section_of : forall w1 w2 n, strip w1 = strip w2 -> section_of w1 n = section_of w2 n.
Proof. intros w1 w2 n H. rewrite (seq_repr w1 w2 H). reflexivity. Qed.

(* the right-hand sides of the lookup characterisations coincide *)
Lemma strip_spec : forall (P : spec), stable P ->
  forall w1 w2 x q b, strip w1 = strip w2 -> (P w1 x q b <-> P w2 x q b).
Proof. intros P HP w1 w2 x q b H. apply HP. apply strip_agree. exact H. Qed.

(* the symbol / uuid lookups never look at [tree] at all *)
Lemma strip_symbols_named : forall w1 w2 m nm, strip w1 = strip w2 ->
  symbols_named w1 m nm = symbols_named w2 m nm.
Proof. intros w1 w2 m nm H. rewrite (seq_repr w1 w2 H). reflexivity. Qed.
Lemma strip_references : forall w1 w2 b, strip w1 = strip w2 -> references w1 b = references w2 b.
Proof. intros w1 w2 b H. rewrite (seq_repr w1 w2 H). reflexivity. Qed.
Lemma strip_get_by_uuid : forall w1 w2 ir u, strip w1 = strip w2 ->
  get_by_uuid w1 ir u = get_by_uuid w2 ir u.
Proof. intros w1 w2 ir u H. rewrite (seq_repr w1 w2 H). reflexivity. Qed.

Lemma strip_forest : forall w1 w2 known, strip w1 = strip w2 -> Forest w1 known -> Forest w2 known.
Proof. intros w1 w2 known H. apply agree_Forest, strip_agree, H. Qed.

(* ================================================================== *)
(** * 2. exact composition above interval scope *)

(* blocks of a section: the blocks found in the intervals that [sec_bis_on] reports
   (both for the `on` and the `at` flavour the intervals are searched with `on`) *)
Definition sec_blocks_on_spec : spec := fun w s q b =>
  exists bi, sec_bis_on_spec w s q bi /\ bi_on_spec w bi q b.
Definition sec_blocks_at_spec : spec := fun w s q b =>
  exists bi, sec_bis_on_spec w s q bi /\ bi_at_spec w bi q b.

Lemma stable_sec_blocks_on_spec : stable sec_blocks_on_spec.
Proof.
  intros w w' s q b A. unfold sec_blocks_on_spec. split; intros [bi [H1 H2]]; exists bi; split.
  - apply (proj1 (stable_sec_bis_on w w' s q bi A)). exact H1.
  - apply (proj1 (stable_bi_on w w' bi q b A)). exact H2.
  - apply (proj2 (stable_sec_bis_on w w' s q bi A)). exact H1.
  - apply (proj2 (stable_bi_on w w' bi q b A)). exact H2.
Qed.

Lemma stable_sec_blocks_at_spec : stable sec_blocks_at_spec.
Proof.
  intros w w' s q b A. unfold sec_blocks_at_spec. split; intros [bi [H1 H2]]; exists bi; split.
  - apply (proj1 (stable_sec_bis_on w w' s q bi A)). exact H1.
  - apply (proj1 (stable_bi_at w w' bi q b A)). exact H2.
  - apply (proj2 (stable_sec_bis_on w w' s q bi A)). exact H1.
  - apply (proj2 (stable_bi_at w w' bi q b A)). exact H2.
Qed.

Lemma disj_sec_blocks_on_spec known : disj known sec_blocks_on_spec.
Proof.
  intros w s s' q b HG [bi [H1 H2]] [bi' [H1' H2']].
  assert (E : bi = bi') by exact (disj_bi_on known w bi bi' q b HG H2 H2'). subst bi'.
  exact (disj_sec_bis_on known w s s' q bi HG H1 H1').
Qed.

Lemma disj_sec_blocks_at_spec known : disj known sec_blocks_at_spec.
Proof.
  intros w s s' q b HG [bi [H1 H2]] [bi' [H1' H2']].
  assert (E : bi = bi') by exact (disj_bi_at known w bi bi' q b HG H2 H2'). subst bi'.
  exact (disj_sec_bis_on known w s s' q bi HG H1 H1').
Qed.

(* a direct lemma about [chain] over the list an exact lookup returned *)
Lemma chain_exact known (P : spec) (D : dom) (f : lookup_t) :
  envl known P P D f -> stable P -> stableD D -> disj known P ->
  forall q l w, GoodK known w -> NoDup l -> (forall x, In x l -> D w x) ->
    (GoodK known (fst (chain f l q w)) /\ agree w (fst (chain f l q w))) /\
    NoDup (snd (chain f l q w)) /\
    forall b, In b (snd (chain f l q w)) <-> exists x, In x l /\ P w x q b.
Proof.
  intros He HsP HsD Hdj q l w HG Hnd HD.
  destruct (chain_env known P P D f He HsP HsP HsD Hdj q l w HG Hnd HD) as (G & A & N & S1 & C1).
  split; [split; [exact G|exact A]|]. split; [exact N|].
  intros b. split; [apply S1|]. intros [x [Hx Hp]]. exact (C1 b x Hx Hp).
Qed.

Theorem sec_blocks_on_envl_exact known :
  envl known sec_blocks_on_spec sec_blocks_on_spec Dsec sec_blocks_on.
Proof.
  intros w s q HG HD.
  destruct (sec_bis_on_full known w s q HG HD) as ([G1 A1] & N1 & I1).
  pose proof HG as (HF & HS & HN).
  unfold sec_blocks_on. revert G1 A1 N1 I1.
  destruct (sec_bis_on w s q) as [w1 bis]. cbn [fst snd]. intros G1 A1 N1 I1.
  assert (HDb : forall bi, In bi bis -> Dbi w1 bi).
  { intros bi Hb. apply I1 in Hb. destruct Hb as [Hb _]. unfold Dbi.
    rewrite (agree_kindof _ _ bi A1). exact (kid_of_sec_is_bi known w s bi HF HD Hb). }
  destruct (chain_exact known bi_on_spec Dbi bi_blocks_on (bi_blocks_on_envl known)
              stable_bi_on stableD_Dbi (disj_bi_on known) q bis w1 G1 N1 HDb)
    as ([G2 A2] & N2 & I2).
  split; [exact G2|]. split; [exact (agree_trans _ _ _ A1 A2)|]. split; [exact N2|]. split.
  - intros b Hb. apply I2 in Hb. destruct Hb as [bi [Hbi Hsp]]. exists bi. split.
    + apply I1. exact Hbi.
    + apply (proj2 (stable_bi_on w w1 bi q b A1)). exact Hsp.
  - intros b [bi [Hbi Hsp]]. apply I2. exists bi. split.
    + apply I1. exact Hbi.
    + apply (proj1 (stable_bi_on w w1 bi q b A1)). exact Hsp.
Qed.

Theorem sec_blocks_at_envl_exact known :
  envl known sec_blocks_at_spec sec_blocks_at_spec Dsec sec_blocks_at.
Proof.
  intros w s q HG HD.
  destruct (sec_bis_on_full known w s q HG HD) as ([G1 A1] & N1 & I1).
  pose proof HG as (HF & HS & HN).
  unfold sec_blocks_at. revert G1 A1 N1 I1.
  destruct (sec_bis_on w s q) as [w1 bis]. cbn [fst snd]. intros G1 A1 N1 I1.
  assert (HDb : forall bi, In bi bis -> Dbi w1 bi).
  { intros bi Hb. apply I1 in Hb. destruct Hb as [Hb _]. unfold Dbi.
    rewrite (agree_kindof _ _ bi A1). exact (kid_of_sec_is_bi known w s bi HF HD Hb). }
  destruct (chain_exact known bi_at_spec Dbi bi_blocks_at (bi_blocks_at_envl known)
              stable_bi_at stableD_Dbi (disj_bi_at known) q bis w1 G1 N1 HDb)
    as ([G2 A2] & N2 & I2).
  split; [exact G2|]. split; [exact (agree_trans _ _ _ A1 A2)|]. split; [exact N2|]. split.
  - intros b Hb. apply I2 in Hb. destruct Hb as [bi [Hbi Hsp]]. exists bi. split.
    + apply I1. exact Hbi.
    + apply (proj2 (stable_bi_at w w1 bi q b A1)). exact Hsp.
  - intros b [bi [Hbi Hsp]]. apply I2. exists bi. split.
    + apply I1. exact Hbi.
    + apply (proj1 (stable_bi_at w w1 bi q b A1)). exact Hsp.
Qed.

(* the statements spelled out, with the intervals given by the lookup itself *)
Theorem sec_blocks_on_exact known w s q : GoodK known w -> kindof w s = KSec ->
  (GoodK known (fst (sec_blocks_on w s q)) /\ agree w (fst (sec_blocks_on w s q))) /\
  NoDup (snd (sec_blocks_on w s q)) /\
  forall b, In b (snd (sec_blocks_on w s q)) <->
    exists bi, In bi (snd (sec_bis_on w s q)) /\ bi_on_spec w bi q b.
Proof.
  intros HG HK.
  destruct (envl_exact known _ _ _ (sec_blocks_on_envl_exact known) w s q HG HK) as (GA & N & I).
  destruct (sec_bis_on_full known w s q HG HK) as (_ & _ & I1).
  split; [exact GA|]. split; [exact N|]. intros b. rewrite (I b). unfold sec_blocks_on_spec.
  split; intros [bi [H1 H2]]; exists bi; (split; [apply I1; exact H1|exact H2]).
Qed.

Theorem sec_blocks_at_exact known w s q : GoodK known w -> kindof w s = KSec ->
  (GoodK known (fst (sec_blocks_at w s q)) /\ agree w (fst (sec_blocks_at w s q))) /\
  NoDup (snd (sec_blocks_at w s q)) /\
  forall b, In b (snd (sec_blocks_at w s q)) <->
    exists bi, In bi (snd (sec_bis_on w s q)) /\ bi_at_spec w bi q b.
Proof.
  intros HG HK.
  destruct (envl_exact known _ _ _ (sec_blocks_at_envl_exact known) w s q HG HK) as (GA & N & I).
  destruct (sec_bis_on_full known w s q HG HK) as (_ & _ & I1).
  split; [exact GA|]. split; [exact N|]. intros b. rewrite (I b). unfold sec_blocks_at_spec.
  split; intros [bi [H1 H2]]; exists bi; (split; [apply I1; exact H1|exact H2]).
Qed.

(* module and IR scope, generically: an exact section-scope lookup lifts to an exact one *)
Theorem mod_lift_exact known (P : spec) (f : lookup_t) :
  envl known P P Dsec f -> stable P -> disj known P ->
  forall w m q, GoodK known w ->
    (GoodK known (fst (mod_lift f w m q)) /\ agree w (fst (mod_lift f w m q))) /\
    NoDup (snd (mod_lift f w m q)) /\
    forall b, In b (snd (mod_lift f w m q)) <-> exists s, In s (secs_of w m) /\ P w s q b.
Proof.
  intros He Hs Hd w m q HG.
  exact (envl_exact known _ _ _ (mod_lift_envl known P P f He Hs Hs Hd) w m q HG I).
Qed.

Theorem ir_lift_exact known (P : spec) (f : lookup_t) :
  envl known P P Dsec f -> stable P -> disj known P ->
  forall w ir q, GoodK known w ->
    (GoodK known (fst (ir_lift f w ir q)) /\ agree w (fst (ir_lift f w ir q))) /\
    NoDup (snd (ir_lift f w ir q)) /\
    forall b, In b (snd (ir_lift f w ir q)) <->
      exists m, In m (kids w ir) /\ exists s, In s (secs_of w m) /\ P w s q b.
Proof.
  intros He Hs Hd w ir q HG.
  exact (envl_exact known _ _ _ (ir_lift_envl known P P f He Hs Hs Hd) w ir q HG I).
Qed.

(* ... and the four block instances, with the intervals given by [sec_bis_on] itself *)
Lemma sec_bis_on_In known w s q bi : GoodK known w -> kindof w s = KSec ->
  (In bi (snd (sec_bis_on w s q)) <-> sec_bis_on_spec w s q bi).
Proof. intros HG HK. destruct (sec_bis_on_full known w s q HG HK) as (_ & _ & I1). apply I1. Qed.

Theorem mod_blocks_on_exact known w m q : GoodK known w ->
  (GoodK known (fst (mod_lift sec_blocks_on w m q)) /\ agree w (fst (mod_lift sec_blocks_on w m q))) /\
  NoDup (snd (mod_lift sec_blocks_on w m q)) /\
  forall b, In b (snd (mod_lift sec_blocks_on w m q)) <->
    exists s, In s (secs_of w m) /\
    exists bi, In bi (snd (sec_bis_on w s q)) /\ bi_on_spec w bi q b.
Proof.
  intros HG.
  destruct (mod_lift_exact known _ _ (sec_blocks_on_envl_exact known) stable_sec_blocks_on_spec
              (disj_sec_blocks_on_spec known) w m q HG) as (GA & N & I).
  split; [exact GA|]. split; [exact N|]. intros b. rewrite (I b).
  split; intros [s [Hs [bi [H1 H2]]]]; exists s; (split; [exact Hs|]); exists bi;
    (split; [apply (sec_bis_on_In known w s q bi HG (secs_of_kind w m s Hs)); exact H1|exact H2]).
Qed.

Theorem mod_blocks_at_exact known w m q : GoodK known w ->
  (GoodK known (fst (mod_lift sec_blocks_at w m q)) /\ agree w (fst (mod_lift sec_blocks_at w m q))) /\
  NoDup (snd (mod_lift sec_blocks_at w m q)) /\
  forall b, In b (snd (mod_lift sec_blocks_at w m q)) <->
    exists s, In s (secs_of w m) /\
    exists bi, In bi (snd (sec_bis_on w s q)) /\ bi_at_spec w bi q b.
Proof.
  intros HG.
  destruct (mod_lift_exact known _ _ (sec_blocks_at_envl_exact known) stable_sec_blocks_at_spec
              (disj_sec_blocks_at_spec known) w m q HG) as (GA & N & I).
  split; [exact GA|]. split; [exact N|]. intros b. rewrite (I b).
  split; intros [s [Hs [bi [H1 H2]]]]; exists s; (split; [exact Hs|]); exists bi;
    (split; [apply (sec_bis_on_In known w s q bi HG (secs_of_kind w m s Hs)); exact H1|exact H2]).
Qed.

Theorem ir_blocks_on_exact known w ir q : GoodK known w ->
  (GoodK known (fst (ir_lift sec_blocks_on w ir q)) /\ agree w (fst (ir_lift sec_blocks_on w ir q))) /\
  NoDup (snd (ir_lift sec_blocks_on w ir q)) /\
  forall b, In b (snd (ir_lift sec_blocks_on w ir q)) <->
    exists m, In m (kids w ir) /\ exists s, In s (secs_of w m) /\
    exists bi, In bi (snd (sec_bis_on w s q)) /\ bi_on_spec w bi q b.
Proof.
  intros HG.
  destruct (ir_lift_exact known _ _ (sec_blocks_on_envl_exact known) stable_sec_blocks_on_spec
              (disj_sec_blocks_on_spec known) w ir q HG) as (GA & N & I).
  split; [exact GA|]. split; [exact N|]. intros b. rewrite (I b).
  split; intros [m [Hm [s [Hs [bi [H1 H2]]]]]]; exists m; (split; [exact Hm|]); exists s;
    (split; [exact Hs|]); exists bi;
    (split; [apply (sec_bis_on_In known w s q bi HG (secs_of_kind w m s Hs)); exact H1|exact H2]).
Qed.

Theorem ir_blocks_at_exact known w ir q : GoodK known w ->
  (GoodK known (fst (ir_lift sec_blocks_at w ir q)) /\ agree w (fst (ir_lift sec_blocks_at w ir q))) /\
  NoDup (snd (ir_lift sec_blocks_at w ir q)) /\
  forall b, In b (snd (ir_lift sec_blocks_at w ir q)) <->
    exists m, In m (kids w ir) /\ exists s, In s (secs_of w m) /\
    exists bi, In bi (snd (sec_bis_on w s q)) /\ bi_at_spec w bi q b.
Proof.
  intros HG.
  destruct (ir_lift_exact known _ _ (sec_blocks_at_envl_exact known) stable_sec_blocks_at_spec
              (disj_sec_blocks_at_spec known) w ir q HG) as (GA & N & I).
  split; [exact GA|]. split; [exact N|]. intros b. rewrite (I b).
  split; intros [m [Hm [s [Hs [bi [H1 H2]]]]]]; exists m; (split; [exact Hm|]); exists s;
    (split; [exact Hs|]); exists bi;
    (split; [apply (sec_bis_on_In known w s q bi HG (secs_of_kind w m s Hs)); exact H1|exact H2]).
Qed.

(* ================================================================== *)
(** * 3. answers are functions of the structure *)

Definition same_set (a b : list id) : Prop := forall x, In x a <-> In x b.
(* the same for lists of anything (triples of the symbolic-expression lookups) *)
Definition same_elems {X : Type} (a b : list X) : Prop := forall x, In x a <-> In x b.

Lemma same_set_refl a : same_set a a.
Proof. intros x. tauto. Qed.
Lemma same_set_sym a b : same_set a b -> same_set b a.
Proof. intros H x. symmetry. apply H. Qed.
Lemma same_set_trans a b c : same_set a b -> same_set b c -> same_set a c.
Proof. intros H1 H2 x. rewrite (H1 x). apply H2. Qed.

(* the generic argument: an exactly characterised lookup whose characterisation only reads the
   structure answers with the same set in any two good worlds of equal structure *)
Lemma envl_same known (P : spec) (D : dom) (f : lookup_t) :
  envl known P P D f -> stable P -> stableD D ->
  forall w1 w2 x q, GoodK known w1 -> GoodK known w2 -> strip w1 = strip w2 -> D w1 x ->
    same_set (snd (f w1 x q)) (snd (f w2 x q)) /\
    NoDup (snd (f w1 x q)) /\ NoDup (snd (f w2 x q)).
Proof.
  intros He HsP HsD w1 w2 x q G1 G2 E D1.
  pose proof (strip_agree w1 w2 E) as A.
  pose proof (HsD w1 w2 x A D1) as D2.
  destruct (envl_exact known P D f He w1 x q G1 D1) as (_ & N1 & I1).
  destruct (envl_exact known P D f He w2 x q G2 D2) as (_ & N2 & I2).
  split; [|split; [exact N1|exact N2]].
  intros b. rewrite (I1 b), (I2 b). apply HsP. exact A.
Qed.

(* the id-valued lookups of World.v at section scope ... *)
Inductive sec_lookup : lookup_t -> Prop :=
| SL_bis_on : sec_lookup sec_bis_on
| SL_bis_at : sec_lookup sec_bis_at
| SL_blocks_on : sec_lookup sec_blocks_on
| SL_blocks_at : sec_lookup sec_blocks_at.

(* ... and at every scope, each with the premise on the kind of the scope *)
Inductive id_lookup : lookup_t -> dom -> Prop :=
| IL_bi_blocks_on : id_lookup bi_blocks_on Dbi
| IL_bi_blocks_at : id_lookup bi_blocks_at Dbi
| IL_bi_blocks_on_off : id_lookup bi_blocks_on_off Dbi
| IL_bi_blocks_at_off : id_lookup bi_blocks_at_off Dbi
| IL_sec f : sec_lookup f -> id_lookup f Dsec
| IL_mod f : sec_lookup f -> id_lookup (mod_lift f) Dany
| IL_ir f : sec_lookup f -> id_lookup (ir_lift f) Dany.

(* every one of them has an exact, structural characterisation *)
Definition exactly (known : list id) (f : lookup_t) (D : dom) : Prop :=
  exists P : spec, envl known P P D f /\ stable P /\ stableD D /\ disj known P.

Lemma sec_lookup_exactly known f : sec_lookup f -> exactly known f Dsec.
Proof.
  intros [ | | | ].
  - exists sec_bis_on_spec. split; [apply sec_bis_on_envl|]. split; [exact stable_sec_bis_on|].
    split; [exact stableD_Dsec|apply disj_sec_bis_on].
  - exists sec_bis_at_spec. split; [apply sec_bis_at_envl|]. split; [exact stable_sec_bis_at|].
    split; [exact stableD_Dsec|apply disj_sec_bis_at].
  - exists sec_blocks_on_spec. split; [apply sec_blocks_on_envl_exact|].
    split; [exact stable_sec_blocks_on_spec|]. split; [exact stableD_Dsec|apply disj_sec_blocks_on_spec].
  - exists sec_blocks_at_spec. split; [apply sec_blocks_at_envl_exact|].
    split; [exact stable_sec_blocks_at_spec|]. split; [exact stableD_Dsec|apply disj_sec_blocks_at_spec].
Qed.

Lemma id_lookup_exactly known f D : id_lookup f D -> exactly known f D.
Proof.
  intros [ | | | |f' Hf|f' Hf|f' Hf].
  - exists bi_on_spec. split; [apply bi_blocks_on_envl|]. split; [exact stable_bi_on|].
    split; [exact stableD_Dbi|apply disj_bi_on].
  - exists bi_at_spec. split; [apply bi_blocks_at_envl|]. split; [exact stable_bi_at|].
    split; [exact stableD_Dbi|apply disj_bi_at].
  - exists bi_on_off_spec. split; [apply bi_blocks_on_off_envl|]. split; [exact stable_bi_on_off|].
    split; [exact stableD_Dbi|apply disj_bi_on_off].
  - exists bi_at_off_spec. split; [apply bi_blocks_at_off_envl|]. split; [exact stable_bi_at_off|].
    split; [exact stableD_Dbi|apply disj_bi_at_off].
  - exact (sec_lookup_exactly known f' Hf).
  - destruct (sec_lookup_exactly known f' Hf) as (P & He & Hs & _ & Hd).
    exists (mod_spec P). split; [exact (mod_lift_envl known P P f' He Hs Hs Hd)|].
    split; [exact (mod_spec_stable P Hs)|]. split; [exact stableD_Dany|exact (mod_spec_disj known P Hd)].
  - destruct (sec_lookup_exactly known f' Hf) as (P & He & Hs & _ & Hd).
    exists (ir_spec P). split; [exact (ir_lift_envl known P P f' He Hs Hs Hd)|].
    split; [unfold ir_spec; apply lift_stable;
            [intros w w' m A; exact (agree_mods_of w w' m A)|exact (mod_spec_stable P Hs)]|].
    split; [exact stableD_Dany|].
    unfold ir_spec. apply lift_disj; [exact (mod_spec_disj known P Hd)|exact (mods_of_inj known)].
Qed.

(* item 3 for every id-valued lookup at every scope *)
Theorem lookup_struct known f D : id_lookup f D ->
  forall w1 w2 x q, GoodK known w1 -> GoodK known w2 -> strip w1 = strip w2 -> D w1 x ->
    same_set (snd (f w1 x q)) (snd (f w2 x q)) /\
    NoDup (snd (f w1 x q)) /\ NoDup (snd (f w2 x q)).
Proof.
  intros Hf. destruct (id_lookup_exactly known f D Hf) as (P & He & Hs & HD & _).
  exact (envl_same known P D f He Hs HD).
Qed.

(* ---------- Section.address / Section.size ---------- *)

Theorem sec_extent_struct known w1 w2 s : GoodK known w1 -> GoodK known w2 -> strip w1 = strip w2 ->
  kindof w1 s = KSec -> snd (sec_extent w1 s) = snd (sec_extent w2 s).
Proof.
  intros (F1 & S1 & _) (F2 & S2 & _) E K1.
  assert (K2 : kindof w2 s = KSec) by (rewrite <- (strip_kindof w1 w2 s E); exact K1).
  rewrite (sec_extent_exact w1 known s F1 S1 K1), (sec_extent_exact w2 known s F2 S2 K2).
  apply strip_ext_pure. exact E.
Qed.

(* ---------- sections_on / sections_at: even the lists coincide ---------- *)

Lemma sections_gen_struct known t w1 w2 secs : GoodK known w1 -> GoodK known w2 -> strip w1 = strip w2 ->
  (forall s, In s secs -> kindof w1 s = KSec) ->
  snd (sections_gen t w1 secs) = snd (sections_gen t w2 secs).
Proof.
  intros G1 G2 E K1.
  assert (K2 : forall s, In s secs -> kindof w2 s = KSec).
  { intros s Hs. rewrite <- (strip_kindof w1 w2 s E). exact (K1 s Hs). }
  destruct (sections_gen_spec known t w1 secs G1 K1) as (_ & _ & E1).
  destruct (sections_gen_spec known t w2 secs G2 K2) as (_ & _ & E2).
  rewrite E1, E2. apply filter_ext. intros s. unfold ext_test.
  rewrite (strip_ext_pure w1 w2 s E). reflexivity.
Qed.

Theorem sections_on_struct known w1 w2 secs q : GoodK known w1 -> GoodK known w2 -> strip w1 = strip w2 ->
  (forall s, In s secs -> kindof w1 s = KSec) ->
  snd (sections_on w1 secs q) = snd (sections_on w2 secs q).
Proof. intros G1 G2 E K1. rewrite !sections_on_gen. exact (sections_gen_struct known _ w1 w2 secs G1 G2 E K1). Qed.

Theorem sections_at_struct known w1 w2 secs q : GoodK known w1 -> GoodK known w2 -> strip w1 = strip w2 ->
  (forall s, In s secs -> kindof w1 s = KSec) ->
  snd (sections_at w1 secs q) = snd (sections_at w2 secs q).
Proof. intros G1 G2 E K1. rewrite !sections_at_gen. exact (sections_gen_struct known _ w1 w2 secs G1 G2 E K1). Qed.

(* the two scopes the API has *)
Definition ir_secs (w : world) (ir : id) : list id := flat_map (secs_of w) (mods_of w ir).

Lemma ir_secs_kind w ir s : In s (ir_secs w ir) -> kindof w s = KSec.
Proof.
  unfold ir_secs. rewrite in_flat_map. intros [m [_ Hs]]. exact (secs_of_kind w m s Hs).
Qed.

Lemma strip_ir_secs w1 w2 ir : strip w1 = strip w2 -> ir_secs w1 ir = ir_secs w2 ir.
Proof.
  intros E. unfold ir_secs. rewrite (strip_mods_of w1 w2 ir E).
  apply flat_map_ext_eq. intros m. apply strip_secs_of. exact E.
Qed.

Lemma ir_secs_NoDup known w ir : GoodK known w -> NoDup (ir_secs w ir).
Proof.
  intros HG. unfold ir_secs. pose proof (mods_of_NoDup known w ir HG) as Hn.
  induction (mods_of w ir) as [|m l IH]; [constructor|].
  inversion Hn as [|m' l' Hm Hn']; subst m' l'. cbn [flat_map].
  apply LookupBase.NoDup_app_intro; [exact (secs_of_NoDup known w m HG)|exact (IH Hn')|].
  intros s H1 H2. apply in_flat_map in H2. destruct H2 as [m2 [Hm2 H2]].
  assert (Em : m = m2) by exact (secs_of_inj known w m m2 s HG H1 H2). subst m2. exact (Hm Hm2).
Qed.

Theorem mod_sections_on_struct known w1 w2 m q : GoodK known w1 -> GoodK known w2 -> strip w1 = strip w2 ->
  snd (sections_on w1 (secs_of w1 m) q) = snd (sections_on w2 (secs_of w2 m) q).
Proof.
  intros G1 G2 E. rewrite <- (strip_secs_of w1 w2 m E).
  apply (sections_on_struct known w1 w2 _ q G1 G2 E). intros s Hs. exact (secs_of_kind w1 m s Hs).
Qed.

Theorem mod_sections_at_struct known w1 w2 m q : GoodK known w1 -> GoodK known w2 -> strip w1 = strip w2 ->
  snd (sections_at w1 (secs_of w1 m) q) = snd (sections_at w2 (secs_of w2 m) q).
Proof.
  intros G1 G2 E. rewrite <- (strip_secs_of w1 w2 m E).
  apply (sections_at_struct known w1 w2 _ q G1 G2 E). intros s Hs. exact (secs_of_kind w1 m s Hs).
Qed.

Theorem ir_sections_on_struct known w1 w2 ir q : GoodK known w1 -> GoodK known w2 -> strip w1 = strip w2 ->
  snd (sections_on w1 (flat_map (secs_of w1) (mods_of w1 ir)) q) =
  snd (sections_on w2 (flat_map (secs_of w2) (mods_of w2 ir)) q).
Proof.
  intros G1 G2 E. fold (ir_secs w1 ir). fold (ir_secs w2 ir). rewrite <- (strip_ir_secs w1 w2 ir E).
  apply (sections_on_struct known w1 w2 _ q G1 G2 E). intros s Hs. exact (ir_secs_kind w1 ir s Hs).
Qed.

Theorem ir_sections_at_struct known w1 w2 ir q : GoodK known w1 -> GoodK known w2 -> strip w1 = strip w2 ->
  snd (sections_at w1 (flat_map (secs_of w1) (mods_of w1 ir)) q) =
  snd (sections_at w2 (flat_map (secs_of w2) (mods_of w2 ir)) q).
Proof.
  intros G1 G2 E. fold (ir_secs w1 ir). fold (ir_secs w2 ir). rewrite <- (strip_ir_secs w1 w2 ir E).
  apply (sections_at_struct known w1 w2 _ q G1 G2 E). intros s Hs. exact (ir_secs_kind w1 ir s Hs).
Qed.

(* the answers are duplicate free as well *)
Lemma sections_on_NoDup known w secs q : GoodK known w -> NoDup secs ->
  (forall s, In s secs -> kindof w s = KSec) -> NoDup (snd (sections_on w secs q)).
Proof. intros HG Hn HK. exact (proj1 (sections_on_exact known w secs q HG Hn HK)). Qed.
Lemma sections_at_NoDup known w secs q : GoodK known w -> NoDup secs ->
  (forall s, In s secs -> kindof w s = KSec) -> NoDup (snd (sections_at w secs q)).
Proof. intros HG Hn HK. exact (proj1 (sections_at_exact known w secs q HG Hn HK)). Qed.

(* ---------- symbolic expressions ---------- *)

Theorem bi_symx_at_struct w1 w2 bi q : strip w1 = strip w2 -> bi_symx_at w1 bi q = bi_symx_at w2 bi q.
Proof. intros E. rewrite (seq_repr w1 w2 E). reflexivity. Qed.

Theorem bi_symx_at_off_struct w1 w2 bi q : strip w1 = strip w2 ->
  bi_symx_at_off w1 bi q = bi_symx_at_off w2 bi q.
Proof. intros E. rewrite (seq_repr w1 w2 E). reflexivity. Qed.

Theorem sec_symx_at_struct known w1 w2 s q : GoodK known w1 -> GoodK known w2 -> strip w1 = strip w2 ->
  kindof w1 s = KSec ->
  same_elems (snd (sec_symx_at w1 s q)) (snd (sec_symx_at w2 s q)).
Proof.
  intros G1 G2 E K1.
  destruct (lookup_struct known sec_bis_on Dsec (IL_sec _ SL_bis_on) w1 w2 s q G1 G2 E K1) as (Hs & _ & _).
  rewrite !sec_symx_at_unfold. cbn [snd].
  pose proof (lookup_strip_sec_bis_on w1 s q) as E1. pose proof (lookup_strip_sec_bis_on w2 s q) as E2.
  assert (E12 : strip (fst (sec_bis_on w1 s q)) = strip (fst (sec_bis_on w2 s q))) by congruence.
  intros t. unfold symx_over. rewrite !in_flat_map.
  split; intros [bi [Hb Ht]]; exists bi.
  - split; [apply (Hs bi); exact Hb|]. rewrite <- (bi_symx_at_struct _ _ bi q E12). exact Ht.
  - split; [apply (Hs bi); exact Hb|]. rewrite (bi_symx_at_struct _ _ bi q E12). exact Ht.
Qed.

(* ---------- the kind filter of the query interface (blocks / code_blocks / data_blocks) ---------- *)

Lemma kfilter_struct w1 w2 kf a b : strip w1 = strip w2 -> same_set a b ->
  same_set (kfilter w1 kf a) (kfilter w2 kf b).
Proof.
  intros E H x. unfold kfilter.
  destruct kf as [|p|p]; [apply H| |apply H].
  destruct p as [p|p|]; [apply H| |].
  - destruct p as [p|p|]; [apply H|apply H|].
    rewrite !filter_In, (strip_kindof w1 w2 x E), (H x). tauto.
  - rewrite !filter_In, (strip_kindof w1 w2 x E), (H x). tauto.
Qed.

Lemma kfilter_NoDup w kf a : NoDup a -> NoDup (kfilter w kf a).
Proof.
  intros H. unfold kfilter.
  destruct kf as [|p|p]; [exact H| |exact H].
  destruct p as [p|p|]; [exact H| |apply NoDup_filter; exact H].
  destruct p as [p|p|]; [exact H|exact H|apply NoDup_filter; exact H].
Qed.

(* ---------- all the answers at once ---------- *)

Record same_answers (w1 w2 : world) : Prop := {
  sa_ids : forall f D, id_lookup f D -> forall x q, D w1 x ->
             same_set (snd (f w1 x q)) (snd (f w2 x q)) /\
             NoDup (snd (f w1 x q)) /\ NoDup (snd (f w2 x q));
  sa_extent : forall s, kindof w1 s = KSec -> snd (sec_extent w1 s) = snd (sec_extent w2 s);
  sa_mod_sections_on : forall m q,
             snd (sections_on w1 (secs_of w1 m) q) = snd (sections_on w2 (secs_of w2 m) q);
  sa_mod_sections_at : forall m q,
             snd (sections_at w1 (secs_of w1 m) q) = snd (sections_at w2 (secs_of w2 m) q);
  sa_ir_sections_on : forall ir q,
             snd (sections_on w1 (flat_map (secs_of w1) (mods_of w1 ir)) q) =
             snd (sections_on w2 (flat_map (secs_of w2) (mods_of w2 ir)) q);
  sa_ir_sections_at : forall ir q,
             snd (sections_at w1 (flat_map (secs_of w1) (mods_of w1 ir)) q) =
             snd (sections_at w2 (flat_map (secs_of w2) (mods_of w2 ir)) q);
  sa_bi_symx_at : forall bi q, bi_symx_at w1 bi q = bi_symx_at w2 bi q;
  sa_bi_symx_at_off : forall bi q, bi_symx_at_off w1 bi q = bi_symx_at_off w2 bi q;
  sa_sec_symx_at : forall s q, kindof w1 s = KSec ->
             same_elems (snd (sec_symx_at w1 s q)) (snd (sec_symx_at w2 s q));
  sa_symbols_named : forall m nm, symbols_named w1 m nm = symbols_named w2 m nm;
  sa_references : forall b, references w1 b = references w2 b;
  sa_get_by_uuid : forall ir u, get_by_uuid w1 ir u = get_by_uuid w2 ir u
}.

Theorem answers_struct known w1 w2 : GoodK known w1 -> GoodK known w2 -> strip w1 = strip w2 ->
  same_answers w1 w2.
Proof.
  intros G1 G2 E. constructor.
  - intros f D Hf x q HD. exact (lookup_struct known f D Hf w1 w2 x q G1 G2 E HD).
  - intros s. exact (sec_extent_struct known w1 w2 s G1 G2 E).
  - intros m q. exact (mod_sections_on_struct known w1 w2 m q G1 G2 E).
  - intros m q. exact (mod_sections_at_struct known w1 w2 m q G1 G2 E).
  - intros ir q. exact (ir_sections_on_struct known w1 w2 ir q G1 G2 E).
  - intros ir q. exact (ir_sections_at_struct known w1 w2 ir q G1 G2 E).
  - intros bi q. exact (bi_symx_at_struct w1 w2 bi q E).
  - intros bi q. exact (bi_symx_at_off_struct w1 w2 bi q E).
  - intros s q. exact (sec_symx_at_struct known w1 w2 s q G1 G2 E).
  - intros m nm. exact (strip_symbols_named w1 w2 m nm E).
  - intros b. exact (strip_references w1 w2 b E).
  - intros ir u. exact (strip_get_by_uuid w1 w2 ir u E).
Qed.

(* ================================================================== *)
(** * 4. schedules with arbitrary lookups *)

Inductive item := IOp (o : op) | IQuery (scope : id) (m kf : Z) (q : qrange).

Fixpoint run_sched (w : world) (known : list id) (its : list item) : world * list id :=
  match its with
  | [] => (w, known)
  | IOp o :: r => if op_okb w known o then run_sched (step' w o) (known_after o known) r else run_sched w known r
  | IQuery s m kf q :: r => run_sched (fst (query w s m kf q)) known r
  end.

Definition ops_of (its : list item) : list op :=
  flat_map (fun i => match i with IOp o => if is_touch o then [] else [o] | IQuery _ _ _ _ => [] end) its.

(* ---------- a query only forces trees ---------- *)

Definition symx_fold_step (q : qrange) (st : world * list (id * Z * id)) (s : id) : world * list (id * Z * id) :=
  let '(w, acc) := st in let '(w', r) := sec_symx_at w s q in (w', acc ++ r).

Lemma lk_symx_fold q l : forall w acc, lk w (fst (fold_left (symx_fold_step q) l (w, acc))).
Proof.
  induction l as [|s l IH]; intros w acc; [apply lk_refl|].
  cbn [fold_left]. unfold symx_fold_step at 2.
  pose proof (lk_sec_symx_at w s q) as H. destruct (sec_symx_at w s q) as [w' r]. cbn [fst] in H.
  eapply lk_trans; [exact H|apply IH].
Qed.

Lemma lk_let_pair {X Y : Type} (w : world) (x : world * X) (g : X -> Y) :
  lk w (fst x) -> lk w (fst (let '(w1, r) := x in (w1, g r))).
Proof. destruct x as [w1 r]. exact (fun H => H). Qed.

Ltac lk_fun :=
  lazymatch goal with
  | |- lookup_ok sec_blocks_on => exact lk_sec_blocks_on
  | |- lookup_ok sec_blocks_at => exact lk_sec_blocks_at
  | |- lookup_ok sec_bis_on => exact lk_sec_bis_on
  | |- lookup_ok sec_bis_at => exact lk_sec_bis_at
  end.

Ltac lk_leaf q :=
  lazymatch goal with
  | |- lk ?w ?w => apply lk_refl
  | |- lk _ (fst (bi_blocks_on _ _ _)) => apply lk_bi_blocks_on
  | |- lk _ (fst (bi_blocks_at _ _ _)) => apply lk_bi_blocks_at
  | |- lk _ (fst (bi_blocks_on_off _ _ _)) => apply lk_bi_blocks_on_off
  | |- lk _ (fst (bi_blocks_at_off _ _ _)) => apply lk_bi_blocks_at_off
  | |- lk _ (fst (sec_blocks_on _ _ _)) => apply lk_sec_blocks_on
  | |- lk _ (fst (sec_blocks_at _ _ _)) => apply lk_sec_blocks_at
  | |- lk _ (fst (sec_bis_on _ _ _)) => apply lk_sec_bis_on
  | |- lk _ (fst (sec_bis_at _ _ _)) => apply lk_sec_bis_at
  | |- lk _ (fst (mod_lift _ _ _ _)) => apply lk_mod_lift; lk_fun
  | |- lk _ (fst (ir_lift _ _ _ _)) => apply lk_ir_lift; lk_fun
  | |- lk _ (fst (sections_on _ _ _)) => apply lk_sections_on
  | |- lk _ (fst (sections_at _ _ _)) => apply lk_sections_at
  | |- _ => apply lk_let_pair;
            first [apply lk_sec_symx_at | apply lk_sec_extent | apply (lk_symx_fold q)]
  end.

(* one method of [query]: reduce the dispatch, split on the kind of the scope if it is consulted *)
Ltac query_leaf w s q :=
  cbv beta iota zeta; cbn [fst];
  lazymatch goal with
  | |- lk _ (fst (match kindof _ _ with KIR => _ | _ => _ end)) =>
      destruct (kindof w s); cbn [fst]; lk_leaf q
  | |- _ => lk_leaf q
  end.

Lemma query_lk_aux : forall w s m kf q, lk w (fst (query w s m kf q)).
Proof.
  intros w s m kf q. unfold query.
  destruct m as [|p|p];
    try (destruct p as [p|p|];
         try (destruct p as [p|p|];
              try (destruct p as [p|p|];
                   try (destruct p as [p|p|]))));
    query_leaf w s q.
Qed.

Theorem query_lk : forall w s m kf q,
  strip (fst (query w s m kf q)) = strip w /\ (SyncAll w -> SyncAll (fst (query w s m kf q))).
Proof. exact query_lk_aux. Qed.

(* a query preserves the premises of the lookup theorems *)
Lemma lk_good known w w' : lk w w' -> GoodK known w -> GoodK known w'.
Proof.
  intros [E HS] (F & S & N). split; [|split].
  - apply (strip_forest w w' known); [symmetry; exact E|exact F].
  - exact (HS S).
  - exact (strip_nonneg w w' E N).
Qed.

Lemma query_good known w s m kf q : GoodK known w -> GoodK known (fst (query w s m kf q)).
Proof. apply lk_good. apply query_lk_aux. Qed.

(* ... and the whole invariant of InvDefs: only [SyncAll] reads the trees *)
Lemma lk_inv known w w' : lk w w' -> Inv w known -> Inv w' known.
Proof.
  intros [E HS] [F C X S N O]. pose proof (HS S) as S'.
  assert (E' : strip w = strip w') by (symmetry; exact E).
  rewrite (seq_repr w w' E') in S' |- *.
  constructor; [|exact C|exact X|exact S'|exact N|exact O].
  apply (agree_Forest w); [apply agree_set_tree|exact F].
Qed.

Lemma query_inv known w s m kf q : Inv w known -> Inv (fst (query w s m kf q)) known.
Proof. apply lk_inv. apply query_lk_aux. Qed.

(* ---------- schedules and guarded histories ---------- *)

Lemma run_sched_ops_gen : forall ops w known, run_sched w known (map IOp ops) = run_guarded w known ops.
Proof.
  induction ops as [|o ops IH]; intros w known; [reflexivity|].
  cbn [map run_sched run_guarded]. rewrite !IH. reflexivity.
Qed.

Theorem run_sched_ops : forall ops, run_sched w0 [] (map IOp ops) = run_guarded w0 [] ops.
Proof. intros ops. apply run_sched_ops_gen. Qed.

Lemma ops_of_cons i its :
  ops_of (i :: its) =
  match i with IOp o => if is_touch o then [] else [o] | IQuery _ _ _ _ => [] end ++ ops_of its.
Proof. reflexivity. Qed.

(* a schedule ends, up to the trees, where the guarded history of its proper operations ends *)
Lemma run_sched_guarded : forall its w1 w2 known, strip w1 = strip w2 ->
  strip (fst (run_sched w1 known its)) = strip (fst (run_guarded w2 known (ops_of its))) /\
  snd (run_sched w1 known its) = snd (run_guarded w2 known (ops_of its)).
Proof.
  induction its as [|i its IH]; intros w1 w2 known H.
  - split; [exact H|reflexivity].
  - rewrite ops_of_cons. destruct i as [o|s m kf q].
    + cbn [run_sched]. destruct (is_touch o) eqn:T.
      * cbn [app]. destruct o; try discriminate T.
        destruct (op_okb w1 known (OTouch n)); [|apply IH; exact H].
        cbn [known_after]. apply IH. rewrite touch_strip. exact H.
      * cbn [app run_guarded]. destruct (step_strip w1 w2 o H T) as [Hs Hg]. rewrite (Hg known).
        destruct (op_okb w2 known o); [|apply IH; exact H].
        apply (IH (step' w1 o) (step' w2 o) (known_after o known)). exact Hs.
    + cbn [run_sched app]. apply IH. rewrite (proj1 (query_lk w1 s m kf q)). exact H.
Qed.

Theorem schedule_independent_struct : forall its1 its2, ops_of its1 = ops_of its2 ->
  strip (fst (run_sched w0 [] its1)) = strip (fst (run_sched w0 [] its2)) /\
  snd (run_sched w0 [] its1) = snd (run_sched w0 [] its2).
Proof.
  intros its1 its2 E.
  destruct (run_sched_guarded its1 w0 w0 [] eq_refl) as [A1 B1].
  destruct (run_sched_guarded its2 w0 w0 [] eq_refl) as [A2 B2].
  rewrite E in A1, B1. split; congruence.
Qed.

(* the same from any two starting points of equal structure *)
Theorem schedule_independent_struct_gen : forall its1 its2 w1 w2 known,
  strip w1 = strip w2 -> ops_of its1 = ops_of its2 ->
  strip (fst (run_sched w1 known its1)) = strip (fst (run_sched w2 known its2)) /\
  snd (run_sched w1 known its1) = snd (run_sched w2 known its2).
Proof.
  intros its1 its2 w1 w2 known H E.
  destruct (run_sched_guarded its1 w1 w2 known H) as [A1 B1].
  destruct (run_sched_guarded its2 w2 w2 known eq_refl) as [A2 B2].
  rewrite E in A1, B1. split; congruence.
Qed.

Lemma ops_of_not_touch : forall its o, In o (ops_of its) -> is_touch o = false.
Proof.
  induction its as [|i its IH]; intros o H; [destruct H|].
  rewrite ops_of_cons in H. apply in_app_or in H. destruct H as [H|H]; [|exact (IH o H)].
  destruct i as [o'|s m kf q]; [|destruct H].
  destruct (is_touch o') eqn:T; [destruct H|]. destruct H as [H|[]]. subst o'. exact T.
Qed.

Lemma ops_of_map_IOp : forall l, (forall o, In o l -> is_touch o = false) -> ops_of (map IOp l) = l.
Proof.
  induction l as [|o l IH]; intros H; [reflexivity|].
  cbn [map]. rewrite ops_of_cons. rewrite (H o (or_introl eq_refl)). cbn [app]. f_equal.
  apply IH. intros o' Ho'. apply H. right. exact Ho'.
Qed.

Lemma ops_of_idem : forall its, ops_of (map IOp (ops_of its)) = ops_of its.
Proof. intros its. apply ops_of_map_IOp. apply ops_of_not_touch. Qed.

(* ---------- invariants along a schedule, and the property ---------- *)

Section Schedule.
  Variable P : world -> list id -> Prop.
  Hypothesis HP : forall w known, P w known -> Forest w known /\ SyncAll w /\ NonNeg w.
  Hypothesis Hstep : forall w known o, P w known -> op_okb w known o = true ->
    P (step' w o) (known_after o known).
  Hypothesis Hq : forall w known s m kf q, P w known -> P (fst (query w s m kf q)) known.

  Lemma run_sched_inv_gen : forall its w known, P w known ->
    P (fst (run_sched w known its)) (snd (run_sched w known its)).
  Proof.
    induction its as [|i its IH]; intros w known H; [exact H|].
    destruct i as [o|s m kf q]; cbn [run_sched].
    - destruct (op_okb w known o) eqn:G; [|apply IH; exact H].
      apply IH. apply Hstep; assumption.
    - apply IH. apply Hq. exact H.
  Qed.

  Theorem run_sched_inv : forall its, P w0 [] ->
    P (fst (run_sched w0 [] its)) (snd (run_sched w0 [] its)).
  Proof. intros its H0. apply run_sched_inv_gen. exact H0. Qed.

  Lemma P_good w known : P w known -> GoodK known w.
  Proof. intros H. exact (HP w known H). Qed.

  (* Two schedules that issue the same proper operations (everything except lookups and OTouch),
     in the same order, with any lookups interleaved anywhere, end in worlds that give the same
     answer to every lookup. *)
  Theorem schedule_independent : forall its1 its2, P w0 [] -> ops_of its1 = ops_of its2 ->
    same_answers (fst (run_sched w0 [] its1)) (fst (run_sched w0 [] its2)).
  Proof.
    intros its1 its2 H0 E.
    destruct (schedule_independent_struct its1 its2 E) as [Es Ek].
    pose proof (P_good _ _ (run_sched_inv its1 H0)) as G1.
    pose proof (P_good _ _ (run_sched_inv its2 H0)) as G2.
    rewrite <- Ek in G2.
    exact (answers_struct (snd (run_sched w0 [] its1)) _ _ G1 G2 Es).
  Qed.

  (* the id-valued lookups, spelled out as in the statement of the property *)
  Corollary schedule_independent_ids : forall its1 its2, P w0 [] -> ops_of its1 = ops_of its2 ->
    forall f D, id_lookup f D -> forall x q, D (fst (run_sched w0 [] its1)) x ->
      same_set (snd (f (fst (run_sched w0 [] its1)) x q)) (snd (f (fst (run_sched w0 [] its2)) x q)) /\
      NoDup (snd (f (fst (run_sched w0 [] its1)) x q)) /\
      NoDup (snd (f (fst (run_sched w0 [] its2)) x q)).
  Proof. intros its1 its2 H0 E. exact (sa_ids _ _ (schedule_independent its1 its2 H0 E)). Qed.

  (* the answer to a lookup does not depend on the lookups made before it: the reply of the
     schedule with all lookups and touches erased is the same *)
  Corollary lookups_do_not_interfere : forall its, P w0 [] ->
    same_answers (fst (run_sched w0 [] its)) (fst (run_guarded w0 [] (ops_of its))).
  Proof.
    intros its H0. rewrite <- run_sched_ops.
    apply schedule_independent; [exact H0|]. symmetry. apply ops_of_idem.
  Qed.
End Schedule.

(* ---------- instances ---------- *)

(* the initial world satisfies everything *)
Lemma forest_w0 : Forest w0 [].
Proof.
  constructor.
  - intros n. split; [discriminate|intros []].
  - intros p c. split; [intros []|discriminate].
  - intros p. constructor.
  - intros p c H. discriminate H.
  - intros a b [].
Qed.

Lemma inv_w0_all : Inv w0 [].
Proof.
  constructor.
  - exact forest_w0.
  - intros ir H. discriminate H.
  - intros m H. discriminate H.
  - intros n. exact I.
  - intros n. cbn. lia.
  - intros bi. exact I.
Qed.

Lemma good_w0 : GoodK [] w0.
Proof. destruct inv_w0_all as [F _ _ S N _]. split; [exact F|split; [exact S|exact N]]. Qed.

Lemma inv_good w known : Inv w known -> Forest w known /\ SyncAll w /\ NonNeg w.
Proof. intros [F _ _ S N _]. auto. Qed.

(* with the full invariant of InvDefs, the only thing left to plug in is its step lemma *)
Theorem schedule_independent_Inv :
  (forall w known o, Inv w known -> op_okb w known o = true -> Inv (step' w o) (known_after o known)) ->
  forall its1 its2, ops_of its1 = ops_of its2 ->
    same_answers (fst (run_sched w0 [] its1)) (fst (run_sched w0 [] its2)).
Proof.
  intros Hstep its1 its2 E.
  exact (schedule_independent Inv inv_good Hstep
           (fun w known s m kf q => query_inv known w s m kf q) its1 its2 inv_w0_all E).
Qed.

Theorem run_sched_Inv :
  (forall w known o, Inv w known -> op_okb w known o = true -> Inv (step' w o) (known_after o known)) ->
  forall its, Inv (fst (run_sched w0 [] its)) (snd (run_sched w0 [] its)).
Proof.
  intros Hstep its.
  exact (run_sched_inv Inv Hstep (fun w known s m kf q => query_inv known w s m kf q) its inv_w0_all).
Qed.

(* with any structural invariant Q (one that does not read the trees) that implies Forest and is
   preserved by guarded operations, SyncAll and NonNeg come from SyncProofs.sync_preserved *)
Section StructuralInvariant.
  Variable Q : world -> list id -> Prop.
  Hypothesis HQF : forall w known, Q w known -> Forest w known.
  Hypothesis HQstep : forall w known o, Q w known -> op_okb w known o = true ->
    Q (step' w o) (known_after o known).
  Hypothesis HQagree : forall w w' known, agree w w' -> Q w known -> Q w' known.

  Definition QGood (w : world) (known : list id) : Prop := Q w known /\ SyncAll w /\ NonNeg w.

  Lemma QGood_good w known : QGood w known -> Forest w known /\ SyncAll w /\ NonNeg w.
  Proof. intros (HQ & S & N). split; [exact (HQF w known HQ)|split; [exact S|exact N]]. Qed.

  Lemma QGood_step w known o : QGood w known -> op_okb w known o = true ->
    QGood (step' w o) (known_after o known).
  Proof.
    intros (HQ & S & N) G. pose proof (HQstep w known o HQ G) as HQ'.
    destruct (sync_preserved w known o (HQF _ _ HQ) (HQF _ _ HQ') S N G) as [S' N'].
    split; [exact HQ'|split; [exact S'|exact N']].
  Qed.

  Lemma QGood_query w known s m kf q : QGood w known -> QGood (fst (query w s m kf q)) known.
  Proof.
    intros (HQ & S & N). destruct (query_lk w s m kf q) as [E HS].
    split; [|split; [exact (HS S)|exact (strip_nonneg w _ E N)]].
    apply (HQagree w); [|exact HQ]. apply strip_agree. symmetry. exact E.
  Qed.

  Theorem run_sched_QGood : forall its, Q w0 [] ->
    QGood (fst (run_sched w0 [] its)) (snd (run_sched w0 [] its)).
  Proof.
    intros its H0. apply (run_sched_inv QGood QGood_step QGood_query its).
    destruct good_w0 as (_ & S & N). split; [exact H0|split; [exact S|exact N]].
  Qed.

  Theorem schedule_independent_Q : forall its1 its2, Q w0 [] -> ops_of its1 = ops_of its2 ->
    same_answers (fst (run_sched w0 [] its1)) (fst (run_sched w0 [] its2)).
  Proof.
    intros its1 its2 H0 E.
    apply (schedule_independent QGood QGood_good QGood_step QGood_query its1 its2); [|exact E].
    destruct good_w0 as (_ & S & N). split; [exact H0|split; [exact S|exact N]].
  Qed.
End StructuralInvariant.

(* ================================================================== *)

Print Assumptions strip_fields.
Print Assumptions strip_agree.
Print Assumptions sec_blocks_on_envl_exact.
Print Assumptions sec_blocks_at_envl_exact.
Print Assumptions sec_blocks_on_exact.
Print Assumptions sec_blocks_at_exact.
Print Assumptions mod_lift_exact.
Print Assumptions ir_lift_exact.
Print Assumptions mod_blocks_on_exact.
Print Assumptions mod_blocks_at_exact.
Print Assumptions ir_blocks_on_exact.
Print Assumptions ir_blocks_at_exact.
Print Assumptions id_lookup_exactly.
Print Assumptions lookup_struct.
Print Assumptions sec_extent_struct.
Print Assumptions sections_on_struct.
Print Assumptions sections_at_struct.
Print Assumptions mod_sections_on_struct.
Print Assumptions mod_sections_at_struct.
Print Assumptions ir_sections_on_struct.
Print Assumptions ir_sections_at_struct.
Print Assumptions bi_symx_at_struct.
Print Assumptions bi_symx_at_off_struct.
Print Assumptions sec_symx_at_struct.
Print Assumptions answers_struct.
Print Assumptions kfilter_struct.
Print Assumptions query_lk.
Print Assumptions query_good.
Print Assumptions query_inv.
Print Assumptions run_sched_ops.
Print Assumptions run_sched_guarded.
Print Assumptions schedule_independent_struct.
Print Assumptions schedule_independent_struct_gen.
Print Assumptions run_sched_inv.
Print Assumptions schedule_independent.
Print Assumptions schedule_independent_ids.
Print Assumptions lookups_do_not_interfere.
Print Assumptions inv_w0_all.
Print Assumptions schedule_independent_Inv.
Print Assumptions run_sched_Inv.
Print Assumptions run_sched_QGood.
Print Assumptions schedule_independent_Q.
