(* Task SC: lookup answers depend only on the structure, not on the schedule of lookups.
   1. worlds with equal [strip] have equal structural fields (everything but [tree]);
   2. exact composition of the lookups above interval scope;
   3. answers are functions of the structure (same set, both duplicate free);
   4. schedules with arbitrary lookups interleaved: structure, invariants and answers. *)
From Coq Require Import ZArith List Bool Lia.
From V Require Import Result LazyTree World WorldGuard WorldRun ForestDefs InvDefs SyncProofs LookupBase LookupProofs SymxProofs.
Import ListNotations.
Open Scope Z_scope.

(* SyncProofs.Good (one argument) is shadowed by LookupBase.Good (with [known]); be explicit *)
Notation GoodK := LookupBase.Good.
(* the type LookupProofs calls [lookup] (the name is shadowed by a notation of SymxProofs) *)
Definition lookup_t := world -> id -> qrange -> world * list id.

(* ================================================================== *)
(** * 1. equal [strip] = equal structure *)

Lemma strip_fields : forall w1 w2, strip w1 = strip w2 ->
  nodes w1 = nodes w2 /\ kids w1 = kids w2 /\ cache w1 = cache w2 /\ nix w1 = nix w2 /\
  rix w1 = rix w2 /\ symx w1 = symx w2.
Proof.
  intros w1 w2 H. rewrite (seq_repr w1 w2 H). cbn [set_tree nodes kids cache nix rix symx].
  repeat split; reflexivity.
Qed.

Lemma strip_agree : forall w1 w2, strip w1 = strip w2 -> agree w1 w2.
Proof.
  intros w1 w2 H. destruct (strip_fields w1 w2 H) as (H1 & H2 & H3 & H4 & H5 & H6).
  unfold agree. repeat split; symmetry; assumption.
Qed.

Lemma agree_strip : forall w1 w2, agree w1 w2 -> strip w1 = strip w2.
Proof.
  intros [n1 k1 c1 x1 r1 t1 s1] [n2 k2 c2 x2 r2 t2 s2] (H1 & H2 & H3 & H4 & H5 & H6).
  cbn in H1, H2, H3, H4, H5, H6. subst. reflexivity.
Qed.

Lemma strip_getn : forall w1 w2 n, strip w1 = strip w2 -> getn w1 n = getn w2 n.
Proof. intros w1 w2 n H. symmetry. apply agree_getn, strip_agree, H. Qed.
Lemma strip_kindof : forall w1 w2 n, strip w1 = strip w2 -> kindof w1 n = kindof w2 n.
Proof. intros w1 w2 n H. symmetry. apply agree_kindof, strip_agree, H. Qed.
Lemma strip_par : forall w1 w2 n, strip w1 = strip w2 -> par w1 n = par w2 n.
Proof. intros w1 w2 n H. symmetry. apply agree_par, strip_agree, H. Qed.
Lemma strip_has : forall w1 w2 n, strip w1 = strip w2 -> has w1 n = has w2 n.
Proof. intros w1 w2 n H. symmetry. apply agree_has, strip_agree, H. Qed.
Lemma strip_secs_of : forall w1 w2 m, strip w1 = strip w2 -> secs_of w1 m = secs_of w2 m.
Proof. intros w1 w2 m H. symmetry. apply agree_secs_of, strip_agree, H. Qed.
Lemma strip_mods_of : forall w1 w2 ir, strip w1 = strip w2 -> mods_of w1 ir = mods_of w2 ir.
Proof. intros w1 w2 ir H. symmetry. apply agree_mods_of, strip_agree, H. Qed.
Lemma strip_ext_pure : forall w1 w2 s, strip w1 = strip w2 -> ext_pure w1 s = ext_pure w2 s.
Proof. intros w1 w2 s H. symmetry. apply agree_ext_pure, strip_agree, H. Qed.
Lemma strip_ir_of : forall w1 w2 n, strip w1 = strip w2 -> ir_of w1 n = ir_of w2 n.
Proof. intros w1 w2 n H. apply seq_ir_of. exact H. Qed.
Lemma strip_module_of : forall w1 w2 n, strip w1 = strip w2 -> module_of w1 n = module_of w2 n.
Proof. intros w1 w2 n H. rewrite (seq_repr w1 w2 H). reflexivity. Qed.
Lemma strip_section_of : forall w1 w2 n, strip w1 = strip w2 -> section_of w1 n = section_of w2 n.
Proof. intros w1 w2 n H. rewrite (seq_repr w1 w2 H). reflexivity. Qed.

(* the right-hand sides of the lookup characterisations coincide *)
Lemma strip_spec : forall (P : spec), stable P ->
  forall w1 w2 x q b, strip w1 = strip w2 -> (P w1 x q b <-> P w2 x q b).
Proof. intros P HP w1 w2 x q b H. apply HP. apply strip_agree. exact H. Qed.

(* the symbol / uuid lookups never look at [tree] at all *)
Lemma strip_symbols_named : forall w1 w2 m nm, strip w1 = strip w2 ->
  symbols_named w1 m nm = symbols_named w2 m nm.
Proof. intros w1 w2 m nm H. rewrite (seq_repr w1 w2 H). reflexivity. Qed.
Lemma strip_references : forall w1 w2 b, strip w1 = strip w2 -> references w1 b = references w2 b.
Proof. intros w1 w2 b H. rewrite (seq_repr w1 w2 H). reflexivity. Qed.
Lemma strip_get_by_uuid : forall w1 w2 ir u, strip w1 = strip w2 ->
  get_by_uuid w1 ir u = get_by_uuid w2 ir u.
Proof. intros w1 w2 ir u H. rewrite (seq_repr w1 w2 H). reflexivity. Qed.

Lemma strip_forest : forall w1 w2 known, strip w1 = strip w2 -> Forest w1 known -> Forest w2 known.
Proof. intros w1 w2 known H. apply agree_Forest, strip_agree, H. Qed.

(* ================================================================== *)
(** * 2. exact composition above interval scope *)

(* blocks of a section: the blocks found in the intervals that [sec_bis_on] reports
   (both for the `on` and the `at` flavour the intervals are searched with `on`) *)
Definition sec_blocks_on_spec : spec := fun w s q b =>
  exists bi, sec_bis_on_spec w s q bi /\ bi_on_spec w bi q b.
Definition sec_blocks_at_spec : spec := fun w s q b =>
  exists bi, sec_bis_on_spec w s q bi /\ bi_at_spec w bi q b.

Lemma stable_sec_blocks_on_spec : stable sec_blocks_on_spec.
Proof.
  intros w w' s q b A. unfold sec_blocks_on_spec. split; intros [bi [H1 H2]]; exists bi; split.
  - apply (proj1 (stable_sec_bis_on w w' s q bi A)). exact H1.
  - apply (proj1 (stable_bi_on w w' bi q b A)). exact H2.
  - apply (proj2 (stable_sec_bis_on w w' s q bi A)). exact H1.
  - apply (proj2 (stable_bi_on w w' bi q b A)). exact H2.
Qed.

Lemma stable_sec_blocks_at_spec : stable sec_blocks_at_spec.
Proof.
  intros w w' s q b A. unfold sec_blocks_at_spec. split; intros [bi [H1 H2]]; exists bi; split.
  - apply (proj1 (stable_sec_bis_on w w' s q bi A)). exact H1.
  - apply (proj1 (stable_bi_at w w' bi q b A)). exact H2.
  - apply (proj2 (stable_sec_bis_on w w' s q bi A)). exact H1.
  - apply (proj2 (stable_bi_at w w' bi q b A)). exact H2.
Qed.

Lemma disj_sec_blocks_on_spec known : disj known sec_blocks_on_spec.
Proof.
  intros w s s' q b HG [bi [H1 H2]] [bi' [H1' H2']].
  assert (E : bi = bi') by exact (disj_bi_on known w bi bi' q b HG H2 H2'). subst bi'.
  exact (disj_sec_bis_on known w s s' q bi HG H1 H1').
Qed.

Lemma disj_sec_blocks_at_spec known : disj known sec_blocks_at_spec.
Proof.
  intros w s s' q b HG [bi [H1 H2]] [bi' [H1' H2']].
  assert (E : bi = bi') by exact (disj_bi_at known w bi bi' q b HG H2 H2'). subst bi'.
  exact (disj_sec_bis_on known w s s' q bi HG H1 H1').
Qed.

(* a direct lemma about [chain] over the list an exact lookup returned *)
Lemma chain_exact known (P : spec) (D : dom) (f : lookup_t) :
  envl known P P D f -> stable P -> stableD D -> disj known P ->
  forall q l w, GoodK known w -> NoDup l -> (forall x, In x l -> D w x) ->
    (GoodK known (fst (chain f l q w)) /\ agree w (fst (chain f l q w))) /\
    NoDup (snd (chain f l q w)) /\
    forall b, In b (snd (chain f l q w)) <-> exists x, In x l /\ P w x q b.
Proof.
  intros He HsP HsD Hdj q l w HG Hnd HD.
  destruct (chain_env known P P D f He HsP HsP HsD Hdj q l w HG Hnd HD) as (G & A & N & S1 & C1).
  split; [split; [exact G|exact A]|]. split; [exact N|].
  intros b. split; [apply S1|]. intros [x [Hx Hp]]. exact (C1 b x Hx Hp).
Qed.

Theorem sec_blocks_on_envl_exact known :
  envl known sec_blocks_on_spec sec_blocks_on_spec Dsec sec_blocks_on.
Proof.
  intros w s q HG HD.
  destruct (sec_bis_on_full known w s q HG HD) as ([G1 A1] & N1 & I1).
  pose proof HG as (HF & HS & HN).
  unfold sec_blocks_on. revert G1 A1 N1 I1.
  destruct (sec_bis_on w s q) as [w1 bis]. cbn [fst snd]. intros G1 A1 N1 I1.
  assert (HDb : forall bi, In bi bis -> Dbi w1 bi).
  { intros bi Hb. apply I1 in Hb. destruct Hb as [Hb _]. unfold Dbi.
    rewrite (agree_kindof _ _ bi A1). exact (kid_of_sec_is_bi known w s bi HF HD Hb). }
  destruct (chain_exact known bi_on_spec Dbi bi_blocks_on (bi_blocks_on_envl known)
              stable_bi_on stableD_Dbi (disj_bi_on known) q bis w1 G1 N1 HDb)
    as ([G2 A2] & N2 & I2).
  split; [exact G2|]. split; [exact (agree_trans _ _ _ A1 A2)|]. split; [exact N2|]. split.
  - intros b Hb. apply I2 in Hb. destruct Hb as [bi [Hbi Hsp]]. exists bi. split.
    + apply I1. exact Hbi.
    + apply (proj2 (stable_bi_on w w1 bi q b A1)). exact Hsp.
  - intros b [bi [Hbi Hsp]]. apply I2. exists bi. split.
    + apply I1. exact Hbi.
    + apply (proj1 (stable_bi_on w w1 bi q b A1)). exact Hsp.
Qed.

Theorem sec_blocks_at_envl_exact known :
  envl known sec_blocks_at_spec sec_blocks_at_spec Dsec sec_blocks_at.
Proof.
  intros w s q HG HD.
  destruct (sec_bis_on_full known w s q HG HD) as ([G1 A1] & N1 & I1).
  pose proof HG as (HF & HS & HN).
  unfold sec_blocks_at. revert G1 A1 N1 I1.
  destruct (sec_bis_on w s q) as [w1 bis]. cbn [fst snd]. intros G1 A1 N1 I1.
  assert (HDb : forall bi, In bi bis -> Dbi w1 bi).
  { intros bi Hb. apply I1 in Hb. destruct Hb as [Hb _]. unfold Dbi.
    rewrite (agree_kindof _ _ bi A1). exact (kid_of_sec_is_bi known w s bi HF HD Hb). }
  destruct (chain_exact known bi_at_spec Dbi bi_blocks_at (bi_blocks_at_envl known)
              stable_bi_at stableD_Dbi (disj_bi_at known) q bis w1 G1 N1 HDb)
    as ([G2 A2] & N2 & I2).
  split; [exact G2|]. split; [exact (agree_trans _ _ _ A1 A2)|]. split; [exact N2|]. split.
  - intros b Hb. apply I2 in Hb. destruct Hb as [bi [Hbi Hsp]]. exists bi. split.
    + apply I1. exact Hbi.
    + apply (proj2 (stable_bi_at w w1 bi q b A1)). exact Hsp.
  - intros b [bi [Hbi Hsp]]. apply I2. exists bi. split.
    + apply I1. exact Hbi.
    + apply (proj1 (stable_bi_at w w1 bi q b A1)). exact Hsp.
Qed.

(* the statements spelled out, with the intervals given by the lookup itself *)
Theorem sec_blocks_on_exact known w s q : GoodK known w -> kindof w s = KSec ->
  (GoodK known (fst (sec_blocks_on w s q)) /\ agree w (fst (sec_blocks_on w s q))) /\
  NoDup (snd (sec_blocks_on w s q)) /\
  forall b, In b (snd (sec_blocks_on w s q)) <->
    exists bi, In bi (snd (sec_bis_on w s q)) /\ bi_on_spec w bi q b.
Proof.
  intros HG HK.
  destruct (envl_exact known _ _ _ (sec_blocks_on_envl_exact known) w s q HG HK) as (GA & N & I).
  destruct (sec_bis_on_full known w s q HG HK) as (_ & _ & I1).
  split; [exact GA|]. split; [exact N|]. intros b. rewrite (I b). unfold sec_blocks_on_spec.
  split; intros [bi [H1 H2]]; exists bi; (split; [apply I1; exact H1|exact H2]).
Qed.

Theorem sec_blocks_at_exact known w s q : GoodK known w -> kindof w s = KSec ->
  (GoodK known (fst (sec_blocks_at w s q)) /\ agree w (fst (sec_blocks_at w s q))) /\
  NoDup (snd (sec_blocks_at w s q)) /\
  forall b, In b (snd (sec_blocks_at w s q)) <->
    exists bi, In bi (snd (sec_bis_on w s q)) /\ bi_at_spec w bi q b.
Proof.
  intros HG HK.
  destruct (envl_exact known _ _ _ (sec_blocks_at_envl_exact known) w s q HG HK) as (GA & N & I).
  destruct (sec_bis_on_full known w s q HG HK) as (_ & _ & I1).
  split; [exact GA|]. split; [exact N|]. intros b. rewrite (I b). unfold sec_blocks_at_spec.
  split; intros [bi [H1 H2]]; exists bi; (split; [apply I1; exact H1|exact H2]).
Qed.

(* module and IR scope, generically: an exact section-scope lookup lifts to an exact one *)
Theorem mod_lift_exact known (P : spec) (f : lookup_t) :
  envl known P P Dsec f -> stable P -> disj known P ->
  forall w m q, GoodK known w ->
    (GoodK known (fst (mod_lift f w m q)) /\ agree w (fst (mod_lift f w m q))) /\
    NoDup (snd (mod_lift f w m q)) /\
    forall b, In b (snd (mod_lift f w m q)) <-> exists s, In s (secs_of w m) /\ P w s q b.
Proof.
  intros He Hs Hd w m q HG.
  exact (envl_exact known _ _ _ (mod_lift_envl known P P f He Hs Hs Hd) w m q HG I).
Qed.

Theorem ir_lift_exact known (P : spec) (f : lookup_t) :
  envl known P P Dsec f -> stable P -> disj known P ->
  forall w ir q, GoodK known w ->
    (GoodK known (fst (ir_lift f w ir q)) /\ agree w (fst (ir_lift f w ir q))) /\
    NoDup (snd (ir_lift f w ir q)) /\
    forall b, In b (snd (ir_lift f w ir q)) <->
      exists m, In m (kids w ir) /\ exists s, In s (secs_of w m) /\ P w s q b.
Proof.
  intros He Hs Hd w ir q HG.
  exact (envl_exact known _ _ _ (ir_lift_envl known P P f He Hs Hs Hd) w ir q HG I).
Qed.

(* ... and the four block instances, with the intervals given by [sec_bis_on] itself *)
Lemma sec_bis_on_In known w s q bi : GoodK known w -> kindof w s = KSec ->
  (In bi (snd (sec_bis_on w s q)) <-> sec_bis_on_spec w s q bi).
Proof. intros HG HK. destruct (sec_bis_on_full known w s q HG HK) as (_ & _ & I1). apply I1. Qed.

Theorem mod_blocks_on_exact known w m q : GoodK known w ->
  (GoodK known (fst (mod_lift sec_blocks_on w m q)) /\ agree w (fst (mod_lift sec_blocks_on w m q))) /\
  NoDup (snd (mod_lift sec_blocks_on w m q)) /\
  forall b, In b (snd (mod_lift sec_blocks_on w m q)) <->
    exists s, In s (secs_of w m) /\
    exists bi, In bi (snd (sec_bis_on w s q)) /\ bi_on_spec w bi q b.
Proof.
  intros HG.
  destruct (mod_lift_exact known _ _ (sec_blocks_on_envl_exact known) stable_sec_blocks_on_spec
              (disj_sec_blocks_on_spec known) w m q HG) as (GA & N & I).
  split; [exact GA|]. split; [exact N|]. intros b. rewrite (I b).
  split; intros [s [Hs [bi [H1 H2]]]]; exists s; (split; [exact Hs|]); exists bi;
    (split; [apply (sec_bis_on_In known w s q bi HG (secs_of_kind w m s Hs)); exact H1|exact H2]).
Qed.

Theorem mod_blocks_at_exact known w m q : GoodK known w ->
  (GoodK known (fst (mod_lift sec_blocks_at w m q)) /\ agree w (fst (mod_lift sec_blocks_at w m q))) /\
  NoDup (snd (mod_lift sec_blocks_at w m q)) /\
  forall b, In b (snd (mod_lift sec_blocks_at w m q)) <->
    exists s, In s (secs_of w m) /\
    exists bi, In bi (snd (sec_bis_on w s q)) /\ bi_at_spec w bi q b.
Proof.
  intros HG.
  destruct (mod_lift_exact known _ _ (sec_blocks_at_envl_exact known) stable_sec_blocks_at_spec
              (disj_sec_blocks_at_spec known) w m q HG) as (GA & N & I).
  split; [exact GA|]. split; [exact N|]. intros b. rewrite (I b).
  split; intros [s [Hs [bi [H1 H2]]]]; exists s; (split; [exact Hs|]); exists bi;
    (split; [apply (sec_bis_on_In known w s q bi HG (secs_of_kind w m s Hs)); exact H1|exact H2]).
Qed.

Theorem ir_blocks_on_exact known w ir q : GoodK known w ->
  (GoodK known (fst (ir_lift sec_blocks_on w ir q)) /\ agree w (fst (ir_lift sec_blocks_on w ir q))) /\
  NoDup (snd (ir_lift sec_blocks_on w ir q)) /\
  forall b, In b (snd (ir_lift sec_blocks_on w ir q)) <->
    exists m, In m (kids w ir) /\ exists s, In s (secs_of w m) /\
    exists bi, In bi (snd (sec_bis_on w s q)) /\ bi_on_spec w bi q b.
Proof.
  intros HG.
  destruct (ir_lift_exact known _ _ (sec_blocks_on_envl_exact known) stable_sec_blocks_on_spec
              (disj_sec_blocks_on_spec known) w ir q HG) as (GA & N & I).
  split; [exact GA|]. split; [exact N|]. intros b. rewrite (I b).
  split; intros [m [Hm [s [Hs [bi [H1 H2]]]]]]; exists m; (split; [exact Hm|]); exists s;
    (split; [exact Hs|]); exists bi;
    (split; [apply (sec_bis_on_In known w s q bi HG (secs_of_kind w m s Hs)); exact H1|exact H2]).
Qed.

Theorem ir_blocks_at_exact known w ir q : GoodK known w ->
  (GoodK known (fst (ir_lift sec_blocks_at w ir q)) /\ agree w (fst (ir_lift sec_blocks_at w ir q))) /\
  NoDup (snd (ir_lift sec_blocks_at w ir q)) /\
  forall b, In b (snd (ir_lift sec_blocks_at w ir q)) <->
    exists m, In m (kids w ir) /\ exists s, In s (secs_of w m) /\
    exists bi, In bi (snd (sec_bis_on w s q)) /\ bi_at_spec w bi q b.
Proof.
  intros HG.
  destruct (ir_lift_exact known _ _ (sec_blocks_at_envl_exact known) stable_sec_blocks_at_spec
              (disj_sec_blocks_at_spec known) w ir q HG) as (GA & N & I).
  split; [exact GA|]. split; [exact N|]. intros b. rewrite (I b).
  split; intros [m [Hm [s [Hs [bi [H1 H2]]]]]]; exists m; (split; [exact Hm|]); exists s;
    (split; [exact Hs|]); exists bi;
    (split; [apply (sec_bis_on_In known w s q bi HG (secs_of_kind w m s Hs)); exact H1|exact H2]).
Qed.

(* ================================================================== *)
(** * 3. answers are functions of the structure *)

Definition same_set (a b : list id) : Prop := forall x, In x a <-> In x b.
(* the same for lists of anything (triples of the symbolic-expression lookups) *)
Definition same_elems {X : Type} (a b : list X) : Prop := forall x, In x a <-> In x b.

Lemma same_set_refl a : same_set a a.
Proof. intros x. tauto. Qed.
Lemma same_set_sym a b : same_set a b -> same_set b a.
Proof. intros H x. symmetry. apply H. Qed.
Lemma same_set_trans a b c : same_set a b -> same_set b c -> same_set a c.
Proof. intros H1 H2 x. rewrite (H1 x). apply H2. Qed.

(* the generic argument: an exactly characterised lookup whose characterisation only reads the
   structure answers with the same set in any two good worlds of equal structure *)
Lemma envl_same known (P : spec) (D : dom) (f : lookup_t) :
  envl known P P D f -> stable P -> stableD D ->
  forall w1 w2 x q, GoodK known w1 -> GoodK known w2 -> strip w1 = strip w2 -> D w1 x ->
    same_set (snd (f w1 x q)) (snd (f w2 x q)) /\
    NoDup (snd (f w1 x q)) /\ NoDup (snd (f w2 x q)).
Proof.
  intros He HsP HsD w1 w2 x q G1 G2 E D1.
  pose proof (strip_agree w1 w2 E) as A.
  pose proof (HsD w1 w2 x A D1) as D2.
  destruct (envl_exact known P D f He w1 x q G1 D1) as (_ & N1 & I1).
  destruct (envl_exact known P D f He w2 x q G2 D2) as (_ & N2 & I2).
  split; [|split; [exact N1|exact N2]].
  intros b. rewrite (I1 b), (I2 b). apply HsP. exact A.
Qed.

(* the id-valued lookups of World.v at section scope ... *)
Inductive sec_lookup : lookup_t -> Prop :=
| SL_bis_on : sec_lookup sec_bis_on
| SL_bis_at : sec_lookup sec_bis_at
| SL_blocks_on : sec_lookup sec_blocks_on
| SL_blocks_at : sec_lookup sec_blocks_at.

(* ... and at every scope, each with the premise on the kind of the scope *)
Inductive id_lookup : lookup_t -> dom -> Prop :=
| IL_bi_blocks_on : id_lookup bi_blocks_on Dbi
| IL_bi_blocks_at : id_lookup bi_blocks_at Dbi
| IL_bi_blocks_on_off : id_lookup bi_blocks_on_off Dbi
| IL_bi_blocks_at_off : id_lookup bi_blocks_at_off Dbi
| IL_sec f : sec_lookup f -> id_lookup f Dsec
| IL_mod f : sec_lookup f -> id_lookup (mod_lift f) Dany
| IL_ir f : sec_lookup f -> id_lookup (ir_lift f) Dany.

(* every one of them has an exact, structural characterisation *)
Definition exactly (known : list id) (f : lookup_t) (D : dom) : Prop :=
  exists P : spec, envl known P P D f /\ stable P /\ stableD D /\ disj known P.

Lemma sec_lookup_exactly known f : sec_lookup f -> exactly known f Dsec.
Proof.
  intros [ | | | ].
  - exists sec_bis_on_spec. split; [apply sec_bis_on_envl|]. split; [exact stable_sec_bis_on|].
    split; [exact stableD_Dsec|apply disj_sec_bis_on].
  - exists sec_bis_at_spec. split; [apply sec_bis_at_envl|]. split; [exact stable_sec_bis_at|].
    split; [exact stableD_Dsec|apply disj_sec_bis_at].
  - exists sec_blocks_on_spec. split; [apply sec_blocks_on_envl_exact|].
    split; [exact stable_sec_blocks_on_spec|]. split; [exact stableD_Dsec|apply disj_sec_blocks_on_spec].
  - exists sec_blocks_at_spec. split; [apply sec_blocks_at_envl_exact|].
    split; [exact stable_sec_blocks_at_spec|]. split; [exact stableD_Dsec|apply disj_sec_blocks_at_spec].
Qed.

Lemma id_lookup_exactly known f D : id_lookup f D -> exactly known f D.
Proof.
  intros [ | | | |f' Hf|f' Hf|f' Hf].
  - exists bi_on_spec. split; [apply bi_blocks_on_envl|]. split; [exact stable_bi_on|].
    split; [exact stableD_Dbi|apply disj_bi_on].
  - exists bi_at_spec. split; [apply bi_blocks_at_envl|]. split; [exact stable_bi_at|].
    split; [exact stableD_Dbi|apply disj_bi_at].
  - exists bi_on_off_spec. split; [apply bi_blocks_on_off_envl|]. split; [exact stable_bi_on_off|].
    split; [exact stableD_Dbi|apply disj_bi_on_off].
  - exists bi_at_off_spec. split; [apply bi_blocks_at_off_envl|]. split; [exact stable_bi_at_off|].
    split; [exact stableD_Dbi|apply disj_bi_at_off].
  - exact (sec_lookup_exactly known f' Hf).
  - destruct (sec_lookup_exactly known f' Hf) as (P & He & Hs & _ & Hd).
    exists (mod_spec P). split; [exact (mod_lift_envl known P P f' He Hs Hs Hd)|].
    split; [exact (mod_spec_stable P Hs)|]. split; [exact stableD_Dany|exact (mod_spec_disj known P Hd)].
  - destruct (sec_lookup_exactly known f' Hf) as (P & He & Hs & _ & Hd).
    exists (ir_spec P). split; [exact (ir_lift_envl known P P f' He Hs Hs Hd)|].
    split; [unfold ir_spec; apply lift_stable;
            [intros w w' m A; exact (agree_mods_of w w' m A)|exact (mod_spec_stable P Hs)]|].
    split; [exact stableD_Dany|].
    unfold ir_spec. apply lift_disj; [exact (mod_spec_disj known P Hd)|exact (mods_of_inj known)].
Qed.

(* item 3 for every id-valued lookup at every scope *)
Theorem lookup_struct known f D : id_lookup f D ->
  forall w1 w2 x q, GoodK known w1 -> GoodK known w2 -> strip w1 = strip w2 -> D w1 x ->
    same_set (snd (f w1 x q)) (snd (f w2 x q)) /\
    NoDup (snd (f w1 x q)) /\ NoDup (snd (f w2 x q)).
Proof.
  intros Hf. destruct (id_lookup_exactly known f D Hf) as (P & He & Hs & HD & _).
  exact (envl_same known P D f He Hs HD).
Qed.
