(* Lemmas about Model/SetAlg.v: the collections.abc.Set mixins compute the mathematical set operations and relations
   on duplicate-free member lists (the length shortcuts of the comparisons are where duplicate-freedom is needed). *)
From Coq Require Import ZArith List Bool Lia Arith.
From V Require Import SetAlg.
Import ListNotations.
Open Scope Z_scope.

Lemma smem_In : forall x l, smem x l = true <-> In x l.
Proof.
  intros x l. unfold smem. rewrite existsb_exists. split.
  - intros [y [Hy E]]. apply Z.eqb_eq in E. subst y. exact Hy.
  - intros H. exists x. split; [exact H | apply Z.eqb_refl].
Qed.

Lemma smem_false : forall x l, smem x l = false <-> ~ In x l.
Proof.
  intros x l. rewrite <- smem_In. destruct (smem x l); split; intro H.
  - discriminate.
  - exfalso. apply H. reflexivity.
  - intro H'. discriminate.
  - reflexivity.
Qed.

Lemma to_set_In : forall l x, In x (to_set l) <-> In x l.
Proof.
  induction l as [|y t IH]; intros x; cbn [to_set]; [tauto|].
  split.
  - intros [E|H]; [left; exact E|]. apply filter_In in H. right. apply IH. exact (proj1 H).
  - intros [E|H]; [left; exact E|].
    destruct (Z.eq_dec x y) as [E|N]; [left; symmetry; exact E|].
    right. apply filter_In. split; [apply IH; exact H|].
    apply negb_true_iff. apply Z.eqb_neq. exact N.
Qed.

Lemma to_set_NoDup : forall l, NoDup (to_set l).
Proof.
  induction l as [|y t IH]; cbn [to_set]; [constructor|].
  constructor.
  - intro H. apply filter_In in H. destruct H as [_ H]. rewrite Z.eqb_refl in H. discriminate.
  - apply NoDup_filter. exact IH.
Qed.

Lemma filter_all_id : forall (f : Z -> bool) l, (forall z, In z l -> f z = true) -> filter f l = l.
Proof.
  intros f l. induction l as [|y t IH]; intros H; cbn [filter]; [reflexivity|].
  rewrite (H y (or_introl eq_refl)). f_equal. apply IH. intros z Hz. apply H. right. exact Hz.
Qed.

Lemma to_set_id : forall l, NoDup l -> to_set l = l.
Proof.
  induction l as [|y t IH]; intros H; cbn [to_set]; [reflexivity|].
  inversion H as [|y' t' Hn Ht]; subst. rewrite (IH Ht). f_equal.
  apply filter_all_id. intros z Hz.
  apply negb_true_iff. apply Z.eqb_neq. intro E. subst z. exact (Hn Hz).
Qed.

(* ---------------- the binary operators ---------------- *)

Theorem abc_and_spec : forall self other x, In x (abc_and self other) <-> In x self /\ In x other.
Proof.
  intros self other x. unfold abc_and. rewrite to_set_In, filter_In, smem_In. tauto.
Qed.

Theorem abc_or_spec : forall self other x, In x (abc_or self other) <-> In x self \/ In x other.
Proof. intros self other x. unfold abc_or. rewrite to_set_In, in_app_iff. tauto. Qed.

Theorem abc_sub_spec : forall self other x, In x (abc_sub self other) <-> In x self /\ ~ In x other.
Proof.
  intros self other x. unfold abc_sub. rewrite to_set_In, filter_In, negb_true_iff, smem_false. tauto.
Qed.

Theorem abc_rsub_spec : forall self other x, In x (abc_rsub self other) <-> In x other /\ ~ In x self.
Proof.
  intros self other x. unfold abc_rsub. rewrite to_set_In, filter_In, negb_true_iff, smem_false. tauto.
Qed.

Theorem abc_xor_spec : forall self other x,
  In x (abc_xor self other) <-> (In x self /\ ~ In x other) \/ (In x other /\ ~ In x self).
Proof.
  intros self other x. unfold abc_xor. rewrite to_set_In, in_app_iff, abc_sub_spec, abc_rsub_spec. tauto.
Qed.

Theorem abc_results_are_sets : forall self other,
  NoDup (abc_and self other) /\ NoDup (abc_or self other) /\ NoDup (abc_sub self other) /\
  NoDup (abc_rsub self other) /\ NoDup (abc_xor self other).
Proof. intros self other. repeat split; apply to_set_NoDup. Qed.

(* ---------------- comparisons ---------------- *)

Lemma forallb_smem_incl : forall a b, forallb (fun e => smem e b) a = true <-> incl a b.
Proof.
  intros a b. rewrite forallb_forall. unfold incl. split; intros H x Hx.
  - apply smem_In. exact (H x Hx).
  - apply smem_In. exact (H x Hx).
Qed.

Theorem abc_le_spec : forall self other, NoDup self -> abc_le self other = true <-> incl self other.
Proof.
  intros self other Hs. unfold abc_le.
  destruct (Nat.ltb_spec (length other) (length self)) as [Hl|Hl].
  - split; [discriminate|]. intros Hi. exfalso.
    pose proof (NoDup_incl_length Hs Hi) as Hle. lia.
  - apply forallb_smem_incl.
Qed.

Theorem abc_ge_spec : forall self other, NoDup other -> abc_ge self other = true <-> incl other self.
Proof.
  intros self other Ho. unfold abc_ge.
  destruct (Nat.ltb_spec (length self) (length other)) as [Hl|Hl].
  - split; [discriminate|]. intros Hi. exfalso.
    pose proof (NoDup_incl_length Ho Hi) as Hle. lia.
  - apply forallb_smem_incl.
Qed.

(* equal as sets: the length test plus one inclusion suffices for duplicate-free lists *)
Theorem abc_eq_spec : forall self other, NoDup self -> NoDup other ->
  abc_eq self other = true <-> (forall x, In x self <-> In x other).
Proof.
  intros self other Hs Ho. unfold abc_eq. rewrite andb_true_iff, Nat.eqb_eq, (abc_le_spec self other Hs). split.
  - intros [Hl Hi] x. split; [apply Hi|].
    apply (NoDup_length_incl Hs); [lia | exact Hi].
  - intros H. split.
    + apply Nat.le_antisymm; apply NoDup_incl_length; try assumption; intros x Hx; apply H; exact Hx.
    + intros x Hx. apply H. exact Hx.
Qed.

Theorem abc_ne_spec : forall self other, NoDup self -> NoDup other ->
  abc_ne self other = true <-> ~ (forall x, In x self <-> In x other).
Proof.
  intros self other Hs Ho. unfold abc_ne. rewrite negb_true_iff.
  rewrite <- (abc_eq_spec self other Hs Ho). destruct (abc_eq self other); split; intro H.
  - discriminate.
  - exfalso. apply H. reflexivity.
  - intro H'. discriminate.
  - reflexivity.
Qed.

(* proper subset: included and not equal *)
Theorem abc_lt_spec : forall self other, NoDup self -> NoDup other ->
  abc_lt self other = true <-> incl self other /\ ~ incl other self.
Proof.
  intros self other Hs Ho. unfold abc_lt. rewrite andb_true_iff, Nat.ltb_lt, (abc_le_spec self other Hs). split.
  - intros [Hl Hi]. split; [exact Hi|]. intro Hj. pose proof (NoDup_incl_length Ho Hj). lia.
  - intros [Hi Hn]. split; [|exact Hi].
    pose proof (NoDup_incl_length Hs Hi) as Hle.
    destruct (Nat.eq_dec (length self) (length other)) as [E|N]; [|lia].
    exfalso. apply Hn. apply (NoDup_length_incl Hs); [lia | exact Hi].
Qed.

Theorem abc_gt_spec : forall self other, NoDup self -> NoDup other ->
  abc_gt self other = true <-> incl other self /\ ~ incl self other.
Proof.
  intros self other Hs Ho. unfold abc_gt. rewrite andb_true_iff, Nat.ltb_lt, (abc_ge_spec self other Ho). split.
  - intros [Hl Hi]. split; [exact Hi|]. intro Hj. pose proof (NoDup_incl_length Hs Hj). lia.
  - intros [Hi Hn]. split; [|exact Hi].
    pose proof (NoDup_incl_length Ho Hi) as Hle.
    destruct (Nat.eq_dec (length self) (length other)) as [E|N]; [|lia].
    exfalso. apply Hn. apply (NoDup_length_incl Ho); [lia | exact Hi].
Qed.

Theorem abc_isdisjoint_spec : forall self other,
  abc_isdisjoint self other = true <-> (forall x, In x self -> In x other -> False).
Proof.
  intros self other. unfold abc_isdisjoint. rewrite forallb_forall. split.
  - intros H x Hs Ho. specialize (H x Ho). apply negb_true_iff in H. apply smem_false in H. exact (H Hs).
  - intros H x Ho. apply negb_true_iff. apply smem_false. intro Hs. exact (H x Hs Ho).
Qed.

(* without duplicate-freedom the length shortcut is wrong: why the premise is there *)
Example abc_le_needs_nodup : abc_le [1; 1] [1] = false /\ incl [1; 1] [1].
Proof. split; [reflexivity|]. intros x [E|[E|[]]]; left; exact E. Qed.

Print Assumptions abc_and_spec.
Print Assumptions abc_or_spec.
Print Assumptions abc_sub_spec.
Print Assumptions abc_rsub_spec.
Print Assumptions abc_xor_spec.
Print Assumptions abc_results_are_sets.
Print Assumptions abc_le_spec.
Print Assumptions abc_ge_spec.
Print Assumptions abc_eq_spec.
Print Assumptions abc_ne_spec.
Print Assumptions abc_lt_spec.
Print Assumptions abc_gt_spec.
Print Assumptions abc_isdisjoint_spec.
Print Assumptions to_set_id.
