(* Task LK, part 1: list facts, the lazy interval tree (lt_get_exact), worlds that agree outside
   `tree`, and the characterisation of the forced index. *)
From Coq Require Import ZArith List Bool Lia Permutation Arith.
From V Require Import Result LazyTree World WorldGuard ForestDefs InvDefs.
Import ListNotations.
Open Scope Z_scope.

(* ---------- list facts ---------- *)

Lemma NoDup_app_intro {A} (a b : list A) :
  NoDup a -> NoDup b -> (forall x, In x a -> In x b -> False) -> NoDup (a ++ b).
Proof.
  induction a as [|x a IH]; intros Ha Hb Hd; simpl; auto.
  inversion Ha as [|y l Hx Ha']; subst. constructor.
  - rewrite in_app_iff. intros [H|H]; [auto|]. apply (Hd x); simpl; auto.
  - apply IH; auto. intros z Hz1 Hz2. apply (Hd z); simpl; auto.
Qed.

Lemma NoDup_map_inj_on {A B} (f : A -> B) (l : list A) :
  NoDup l -> (forall x y, In x l -> In y l -> f x = f y -> x = y) -> NoDup (map f l).
Proof.
  induction l as [|x l IH]; intros Hn Hi; simpl; [constructor|].
  inversion Hn as [|y l' Hx Hn']; subst. constructor.
  - rewrite in_map_iff. intros [y [Hy Hin]].
    assert (y = x) by (apply Hi; simpl; auto). subst. auto.
  - apply IH; auto. intros a b Ha Hb. apply Hi; simpl; auto.
Qed.

Lemma NoDup_map_filter {A B} (f : A -> B) (p : A -> bool) (l : list A) :
  NoDup (map f l) -> NoDup (map f (filter p l)).
Proof.
  induction l as [|x l IH]; simpl; intros Hn; auto.
  inversion Hn as [|y l' Hx Hn']; subst.
  destruct (p x); simpl; auto. constructor; auto.
  intros Hin. apply Hx. rewrite in_map_iff in *. destruct Hin as [y [Hy Hin]].
  exists y. split; auto. apply filter_In in Hin. tauto.
Qed.

Lemma flat_map_sel_NoDup {A B} (f : A -> B) (g : A -> list B) (l : list A) :
  NoDup (map f l) -> (forall i, g i = [] \/ g i = [f i]) -> NoDup (flat_map g l).
Proof.
  intros Hn Hg. induction l as [|x l IH]; simpl; [constructor|].
  simpl in Hn. inversion Hn as [|y l' Hx Hn']; subst.
  destruct (Hg x) as [E|E]; rewrite E; simpl; auto.
  constructor; auto. intros Hin. apply in_flat_map in Hin. destruct Hin as [j [Hj Hin]].
  destruct (Hg j) as [Ej|Ej]; rewrite Ej in Hin; simpl in Hin; [tauto|].
  destruct Hin as [Hin|[]]. apply Hx. rewrite <- Hin. apply in_map. auto.
Qed.

Definition optl {A B} (g : A -> option B) (b : A) : list B :=
  match g b with Some i => [i] | None => [] end.

Lemma In_flat_map_opt {A B} (g : A -> option B) (l : list A) (y : B) :
  In y (flat_map (fun b => match g b with Some i => [i] | None => [] end) l) <->
  exists b, In b l /\ g b = Some y.
Proof.
  rewrite in_flat_map. split.
  - intros [b [Hb Hy]]. exists b. split; auto. destruct (g b); simpl in Hy; [|tauto].
    destruct Hy as [->|[]]. reflexivity.
  - intros [b [Hb Hy]]. exists b. split; auto. rewrite Hy. simpl. auto.
Qed.

Lemma flat_map_opt_length {A B} (g : A -> option B) (l : list A) :
  (length (flat_map (fun b => match g b with Some i => [i] | None => [] end) l) <= length l)%nat /\
  (length (flat_map (fun b => match g b with Some i => [i] | None => [] end) l) = length l <->
   forall b, In b l -> g b <> None).
Proof.
  induction l as [|x l [IH1 IH2]]; simpl.
  - split; [lia|]. split; [intros _ b []|intros _; reflexivity].
  - destruct (g x) as [i|] eqn:E; simpl.
    + split; [lia|]. split.
      * intros H b [Hb|Hb]; [subst; congruence|]. apply (proj1 IH2); [lia|exact Hb].
      * intros H. f_equal. apply IH2. intros b Hb. apply H. auto.
    + split; [lia|]. split.
      * intros H. exfalso. lia.
      * intros H. exfalso. apply (H x); auto.
Qed.

Lemma flat_map_opt_NoDup {A} (g : A -> option iv) (f : iv -> A) (l : list A) :
  NoDup l -> (forall b i, g b = Some i -> f i = b) ->
  NoDup (flat_map (fun b => match g b with Some i => [i] | None => [] end) l).
Proof.
  intros Hn Hk. induction l as [|x l IH]; simpl; [constructor|].
  inversion Hn as [|y l' Hx Hn']; subst.
  destruct (g x) as [i|] eqn:E; simpl; auto.
  constructor; auto. intros Hin. apply In_flat_map_opt in Hin.
  destruct Hin as [b [Hb Hgb]]. apply Hk in Hgb. apply Hk in E. congruence.
Qed.

(* ---------- the abstract interval tree ---------- *)

Lemma iv_eqb_eq a b : iv_eqb a b = true <-> a = b.
Proof.
  unfold iv_eqb. rewrite !andb_true_iff, !Z.eqb_eq. split.
  - intros [[H1 H2] H3]. destruct a, b; simpl in *; subst; reflexivity.
  - intros ->. auto.
Qed.

Lemma iv_mem_In i t : iv_mem i t = true <-> In i t.
Proof.
  unfold iv_mem. rewrite existsb_exists. split.
  - intros [x [Hx He]]. apply iv_eqb_eq in He. subst; auto.
  - intros H. exists i. split; auto. apply iv_eqb_eq; auto.
Qed.

Lemma iv_equiv_In a b : iv_equiv a b <-> forall i, In i a <-> In i b.
Proof.
  unfold iv_equiv. split.
  - intros H i. rewrite <- !iv_mem_In. rewrite H. tauto.
  - intros H i. destruct (iv_mem i a) eqn:Ea, (iv_mem i b) eqn:Eb; auto.
    + apply iv_mem_In in Ea. apply H in Ea. apply iv_mem_In in Ea. congruence.
    + apply iv_mem_In in Eb. apply H in Eb. apply iv_mem_In in Eb. congruence.
Qed.

Lemma tree_add_In i j t : In j (tree_add i t) <-> j = i \/ In j t.
Proof.
  unfold tree_add. destruct (iv_mem i t) eqn:E.
  - apply iv_mem_In in E. split; [auto|]. intros [->|H]; auto.
  - rewrite in_app_iff. simpl. split.
    + intros [H|[H|[]]]; auto.
    + intros [H|H]; auto.
Qed.

Lemma tree_add_NoDup i t : NoDup t -> NoDup (tree_add i t).
Proof.
  intros H. unfold tree_add. destruct (iv_mem i t) eqn:E; auto.
  apply NoDup_app_intro; auto.
  - constructor; [intros []|constructor].
  - intros x Hx [Hi|[]]. subst. apply iv_mem_In in Hx. congruence.
Qed.

Lemma tree_discard_NoDup i t : NoDup t -> NoDup (tree_discard i t).
Proof. intros H. unfold tree_discard. apply NoDup_filter. exact H. Qed.

Lemma tree_build_gen l : forall acc, NoDup acc ->
  NoDup (fold_left (fun t i => tree_add i t) l acc) /\
  forall j, In j (fold_left (fun t i => tree_add i t) l acc) <-> In j acc \/ In j l.
Proof.
  induction l as [|x l IH]; intros acc Hn; simpl.
  - split; auto. intros j. tauto.
  - destruct (IH (tree_add x acc) (tree_add_NoDup x acc Hn)) as [H1 H2]. split; auto.
    intros j. rewrite H2, tree_add_In. split.
    + intros [[H|H]|H]; auto.
    + intros [H|[H|H]]; auto.
Qed.

Lemma tree_build_NoDup l : NoDup (tree_build l).
Proof. unfold tree_build. apply tree_build_gen. constructor. Qed.

Lemma tree_build_In l j : In j (tree_build l) <-> In j l.
Proof.
  unfold tree_build. destruct (tree_build_gen l [] (NoDup_nil _)) as [_ H].
  rewrite H. simpl. tauto.
Qed.

Lemma apply_ev_NoDup t e : NoDup t -> NoDup (apply_ev t e).
Proof. destruct e as [i|i]; simpl; [apply tree_add_NoDup|apply tree_discard_NoDup]. Qed.

Lemma fold_apply_ev_NoDup evs : forall t, NoDup t -> NoDup (fold_left apply_ev evs t).
Proof.
  induction evs as [|e evs IH]; intros t Ht; simpl; auto.
  apply IH. apply apply_ev_NoDup. exact Ht.
Qed.

Lemma lt_get_exact : forall t cur n, Sync t cur ->
  let '(t', idx) := lt_get cur n t in NoDup idx /\ iv_equiv idx cur /\ Sync t' cur.
Proof.
  intros t cur n HS. unfold lt_get.
  assert (Hb : NoDup (tree_build cur) /\ iv_equiv (tree_build cur) cur).
  { split; [apply tree_build_NoDup|]. apply iv_equiv_In. intros i. apply tree_build_In. }
  unfold Sync in HS.
  destruct (lindex t) as [idx0|] eqn:E.
  - destruct HS as [Hn He].
    destruct (Nat.leb n (length (levents t))) eqn:El.
    + destruct Hb as [Hb1 Hb2]. unfold Sync; simpl. auto.
    + assert (Hn' : NoDup (fold_left apply_ev (levents t) idx0))
        by (apply fold_apply_ev_NoDup; exact Hn).
      unfold Sync; simpl. auto.
  - destruct Hb as [Hb1 Hb2]. unfold Sync; simpl. auto.
Qed.

Lemma overlap_In b e t i : In i (overlap b e t) <-> b < e /\ In i t /\ ib i < e /\ b < ie i.
Proof.
  unfold overlap. destruct (Z.leb_spec e b) as [H|H].
  - simpl. split; [tauto|]. intros [H1 _]. lia.
  - rewrite filter_In, andb_true_iff, !Z.ltb_lt. tauto.
Qed.

Lemma overlap_NoDup_map {B} (f : iv -> B) b e t : NoDup (map f t) -> NoDup (map f (overlap b e t)).
Proof.
  intros H. unfold overlap. destruct (e <=? b); simpl; [constructor|].
  apply NoDup_map_filter. exact H.
Qed.

(* tree_begin / tree_end are the minimum begin / maximum end *)
Lemma fold_min_spec l : forall m,
  let r := fold_left (fun m j => Z.min m (ib j)) l m in
  r <= m /\ (forall j, In j l -> r <= ib j) /\ (r = m \/ exists j, In j l /\ r = ib j).
Proof.
  induction l as [|x l IH]; intros m; simpl.
  - split; [lia|]. split; [intros j []|auto].
  - destruct (IH (Z.min m (ib x))) as (H1 & H2 & H3). split; [lia|]. split.
    + intros j [Hj|Hj]; [subst; lia|auto].
    + destruct H3 as [H3|[j [Hj H3]]].
      * destruct (Z.min_spec m (ib x)) as [[_ Hm]|[_ Hm]].
        -- left. lia.
        -- right. exists x. split; auto. lia.
      * right. exists j. auto.
Qed.

Lemma fold_max_spec l : forall m,
  let r := fold_left (fun m j => Z.max m (ie j)) l m in
  m <= r /\ (forall j, In j l -> ie j <= r) /\ (r = m \/ exists j, In j l /\ r = ie j).
Proof.
  induction l as [|x l IH]; intros m; simpl.
  - split; [lia|]. split; [intros j []|auto].
  - destruct (IH (Z.max m (ie x))) as (H1 & H2 & H3). split; [lia|]. split.
    + intros j [Hj|Hj]; [subst; lia|auto].
    + destruct H3 as [H3|[j [Hj H3]]].
      * destruct (Z.max_spec m (ie x)) as [[_ Hm]|[_ Hm]].
        -- right. exists x. split; auto. lia.
        -- left. lia.
      * right. exists j. auto.
Qed.

Lemma tree_begin_spec l : l <> [] ->
  (exists i, In i l /\ ib i = tree_begin l) /\ forall i, In i l -> tree_begin l <= ib i.
Proof.
  destruct l as [|x l]; [congruence|]. intros _. unfold tree_begin.
  destruct (fold_min_spec l (ib x)) as (H1 & H2 & H3). split.
  - destruct H3 as [H3|[j [Hj H3]]].
    + exists x. simpl. auto.
    + exists j. simpl. auto.
  - intros i [Hi|Hi]; [subst; auto|auto].
Qed.

Lemma tree_end_spec l : l <> [] ->
  (exists i, In i l /\ ie i = tree_end l) /\ forall i, In i l -> ie i <= tree_end l.
Proof.
  destruct l as [|x l]; [congruence|]. intros _. unfold tree_end.
  destruct (fold_max_spec l (ie x)) as (H1 & H2 & H3). split.
  - destruct H3 as [H3|[j [Hj H3]]].
    + exists x. simpl. auto.
    + exists j. simpl. auto.
  - intros i [Hi|Hi]; [subst; auto|auto].
Qed.

Lemma equiv_nonempty {A} (a b : list A) : (forall i, In i a <-> In i b) -> a <> [] -> b <> [].
Proof.
  intros H Ha Hb. subst. destruct a as [|x a]; [congruence|].
  apply (H x). simpl. auto.
Qed.

Lemma tree_begin_equiv a b : (forall i, In i a <-> In i b) -> a <> [] -> tree_begin a = tree_begin b.
Proof.
  intros H Ha. pose proof (equiv_nonempty a b H Ha) as Hb.
  destruct (tree_begin_spec a Ha) as [[i [Hi Ei]] La].
  destruct (tree_begin_spec b Hb) as [[j [Hj Ej]] Lb].
  apply H in Hi. apply H in Hj. apply Lb in Hi. apply La in Hj. lia.
Qed.

Lemma tree_end_equiv a b : (forall i, In i a <-> In i b) -> a <> [] -> tree_end a = tree_end b.
Proof.
  intros H Ha. pose proof (equiv_nonempty a b H Ha) as Hb.
  destruct (tree_end_spec a Ha) as [[i [Hi Ei]] La].
  destruct (tree_end_spec b Hb) as [[j [Hj Ej]] Lb].
  apply H in Hi. apply H in Hj. apply Lb in Hi. apply La in Hj. lia.
Qed.

(* ---------- worlds that differ only in `tree` ---------- *)

Definition agree (w w' : world) : Prop :=
  nodes w' = nodes w /\ kids w' = kids w /\ cache w' = cache w /\ nix w' = nix w /\
  rix w' = rix w /\ symx w' = symx w.

Lemma agree_refl w : agree w w.
Proof. unfold agree. tauto. Qed.

Lemma agree_sym w w' : agree w w' -> agree w' w.
Proof. unfold agree. intros (H1 & H2 & H3 & H4 & H5 & H6). auto 10. Qed.

Lemma agree_trans w1 w2 w3 : agree w1 w2 -> agree w2 w3 -> agree w1 w3.
Proof.
  unfold agree. intros (A1 & A2 & A3 & A4 & A5 & A6) (B1 & B2 & B3 & B4 & B5 & B6).
  repeat split; congruence.
Qed.

Lemma agree_set_tree w f : agree w (set_tree w f).
Proof. unfold agree, set_tree. simpl. tauto. Qed.

Lemma agree_kids w w' p : agree w w' -> kids w' p = kids w p.
Proof. intros (_ & Hk & _). rewrite Hk. reflexivity. Qed.

Lemma agree_getn w w' n : agree w w' -> getn w' n = getn w n.
Proof. intros (Hn & _). unfold getn. rewrite Hn. reflexivity. Qed.

Lemma agree_has w w' n : agree w w' -> has w' n = has w n.
Proof. intros (Hn & _). unfold has. rewrite Hn. reflexivity. Qed.

Lemma agree_kindof w w' n : agree w w' -> kindof w' n = kindof w n.
Proof. intros A. unfold kindof. rewrite (agree_getn _ _ n A). reflexivity. Qed.

Lemma agree_par w w' n : agree w w' -> par w' n = par w n.
Proof. intros A. unfold par. rewrite (agree_getn _ _ n A). reflexivity. Qed.

Lemma agree_off_iv w w' b : agree w w' -> off_iv w' b = off_iv w b.
Proof. intros A. unfold off_iv. rewrite (agree_getn _ _ b A). reflexivity. Qed.

Lemma agree_addr_iv w w' b : agree w w' -> addr_iv w' b = addr_iv w b.
Proof. intros A. unfold addr_iv. rewrite (agree_getn _ _ b A). reflexivity. Qed.

Lemma agree_block_addr_iv w w' b : agree w w' -> block_addr_iv w' b = block_addr_iv w b.
Proof.
  intros A. unfold block_addr_iv, block_addr. rewrite (agree_par _ _ b A), (agree_getn _ _ b A).
  destruct (par w b) as [bi|]; auto. rewrite (agree_getn _ _ bi A). reflexivity.
Qed.

Lemma agree_cur_ivs w w' n : agree w w' -> cur_ivs w' n = cur_ivs w n.
Proof.
  intros (Hn & Hk & _). unfold cur_ivs, kindof, off_iv, addr_iv, getn.
  rewrite Hn, Hk. reflexivity.
Qed.

Lemma agree_secs_of w w' m : agree w w' -> secs_of w' m = secs_of w m.
Proof.
  intros (Hn & Hk & _). unfold secs_of, field, kindof, getn. rewrite Hn, Hk. reflexivity.
Qed.

Lemma agree_mods_of w w' m : agree w w' -> mods_of w' m = mods_of w m.
Proof. intros A. unfold mods_of. apply agree_kids. exact A. Qed.

Lemma agree_Forest w w' known : agree w w' -> Forest w known -> Forest w' known.
Proof.
  intros A [f1 f2 f3 f4 f5]. constructor.
  - intros n. rewrite (agree_has _ _ n A). apply f1.
  - intros p c. rewrite (agree_kids _ _ p A), (agree_par _ _ c A). apply f2.
  - intros p. rewrite (agree_kids _ _ p A). apply f3.
  - intros p c. rewrite (agree_par _ _ c A), (agree_has _ _ c A), (agree_has _ _ p A),
      (agree_kindof _ _ c A), (agree_kindof _ _ p A). apply f4.
  - intros a b. rewrite (agree_getn _ _ a A), (agree_getn _ _ b A). apply f5.
Qed.

Lemma agree_NonNeg w w' : agree w w' -> NonNeg w -> NonNeg w'.
Proof. intros A H n. rewrite (agree_getn _ _ n A). apply H. Qed.

(* ---------- the premises, bundled ---------- *)

Definition Good (known : list id) (w : world) : Prop := Forest w known /\ SyncAll w /\ NonNeg w.

(* ---------- force ---------- *)

Lemma force_spec w n w1 idx : SyncAll w -> force w n = (w1, idx) ->
  NoDup idx /\ (forall i, In i idx <-> In i (cur_ivs w n)) /\ agree w w1 /\ SyncAll w1.
Proof.
  intros HS HF. unfold force in HF.
  pose proof (lt_get_exact (tree w n) (cur_ivs w n) (length (kids w n)) (HS n)) as HL.
  destruct (lt_get (cur_ivs w n) (length (kids w n)) (tree w n)) as [t' idx'] eqn:E.
  inversion HF; subst w1 idx'. clear HF.
  destruct HL as (H1 & H2 & H3).
  split; [exact H1|]. split; [apply iv_equiv_In; exact H2|]. split; [apply agree_set_tree|].
  intros m.
  rewrite (agree_cur_ivs w _ m (agree_set_tree w _)).
  unfold set_tree, upd; simpl.
  destruct (Z.eqb_spec m n) as [->|Hne]; [exact H3|apply HS].
Qed.

Lemma force_good known w n w1 idx : Good known w -> force w n = (w1, idx) ->
  Good known w1 /\ agree w w1.
Proof.
  intros (HF & HS & HN) E. destruct (force_spec w n w1 idx HS E) as (_ & _ & A & HS1).
  split; [|exact A]. split; [eapply agree_Forest; eauto|]. split; [exact HS1|].
  eapply agree_NonNeg; eauto.
Qed.

(* members' keys *)
Lemma cur_ivs_bi w n : kindof w n = KBI ->
  cur_ivs w n = flat_map (fun b => match off_iv w b with Some i => [i] | None => [] end) (kids w n).
Proof. intros H. unfold cur_ivs. rewrite H. reflexivity. Qed.

Lemma cur_ivs_sec w n : kindof w n = KSec ->
  cur_ivs w n = flat_map (fun b => match addr_iv w b with Some i => [i] | None => [] end) (kids w n).
Proof. intros H. unfold cur_ivs. rewrite H. reflexivity. Qed.

Lemma off_iv_idata w b i : off_iv w b = Some i -> idata i = b.
Proof. unfold off_iv. intros H. inversion H. reflexivity. Qed.

Lemma addr_iv_idata w b i : addr_iv w b = Some i -> idata i = b.
Proof.
  unfold addr_iv. destruct (naddr (getn w b)); intros H; inversion H. reflexivity.
Qed.

Lemma addr_iv_Some w bi i : addr_iv w bi = Some i <->
  exists a, naddr (getn w bi) = Some a /\
            i = {| ib := a; ie := a + nsize (getn w bi) + 1; idata := bi |}.
Proof.
  unfold addr_iv. destruct (naddr (getn w bi)) as [a|]; split.
  - intros H. inversion H. exists a. auto.
  - intros [a' [H1 H2]]. inversion H1; subst. reflexivity.
  - discriminate.
  - intros [a' [H1 _]]. discriminate.
Qed.

(* the forced index of a byte interval / a section, characterised *)
Theorem force_bi_index w n w1 idx : SyncAll w -> kindof w n = KBI -> force w n = (w1, idx) ->
  NoDup idx /\ forall i, In i idx <-> exists b, In b (kids w n) /\ off_iv w b = Some i.
Proof.
  intros HS HK E. destruct (force_spec w n w1 idx HS E) as (H1 & H2 & _). split; auto.
  intros i. rewrite H2, (cur_ivs_bi w n HK). apply In_flat_map_opt.
Qed.

Theorem force_sec_index w n w1 idx : SyncAll w -> kindof w n = KSec -> force w n = (w1, idx) ->
  NoDup idx /\ forall i, In i idx <-> exists b, In b (kids w n) /\ addr_iv w b = Some i.
Proof.
  intros HS HK E. destruct (force_spec w n w1 idx HS E) as (H1 & H2 & _). split; auto.
  intros i. rewrite H2, (cur_ivs_sec w n HK). apply In_flat_map_opt.
Qed.

(* ---------- searching a forced index ---------- *)

Section TreeQuery.
  Variable key : id -> option iv.
  Variable members : list id.
  Variable idx : list iv.
  Hypothesis Hnd : NoDup idx.
  Hypothesis Hidx : forall i, In i idx <-> exists b, In b members /\ key b = Some i.
  Hypothesis Hkey : forall b i, key b = Some i -> idata i = b.

  Lemma idx_key i : In i idx -> In (idata i) members /\ key (idata i) = Some i.
  Proof.
    intros H. apply Hidx in H. destruct H as [b [Hb Hk]].
    rewrite (Hkey b i Hk). auto.
  Qed.

  Lemma idx_idata_NoDup : NoDup (map idata idx).
  Proof.
    apply NoDup_map_inj_on; auto. intros x y Hx Hy E.
    apply idx_key in Hx. apply idx_key in Hy. destruct Hx as [_ Hx], Hy as [_ Hy].
    rewrite E in Hx. congruence.
  Qed.

  Lemma nodes_on_tree_NoDup q g adj : NoDup (nodes_on_tree idx q g adj).
  Proof.
    unfold nodes_on_tree. apply (flat_map_sel_NoDup idata).
    - apply overlap_NoDup_map. apply idx_idata_NoDup.
    - intros i. destruct (g (idata i)) as [ni|]; auto.
      destruct (ie ni - ib ni - 1 =? 0); auto. destruct (ie ni - 1 <=? qstart q); auto.
  Qed.

  Lemma nodes_at_tree_NoDup q g adj : NoDup (nodes_at_tree idx q g adj).
  Proof.
    unfold nodes_at_tree. apply (flat_map_sel_NoDup idata).
    - apply overlap_NoDup_map. apply idx_idata_NoDup.
    - intros i. destruct (g (idata i)) as [ni|]; auto. destruct (in_q (ib ni) q); auto.
  Qed.

  Lemma nodes_on_tree_In q g adj x :
    In x (nodes_on_tree idx q g adj) <->
    In x members /\ exists i ni, key x = Some i /\ g x = Some ni /\
      qstart q + adj < qstop q + adj /\ ib i < qstop q + adj /\ qstart q + adj < ie i /\
      ie ni - ib ni - 1 <> 0 /\ qstart q < ie ni - 1.
  Proof.
    unfold nodes_on_tree. rewrite in_flat_map. split.
    - intros [i [Hi Hx]]. apply overlap_In in Hi. destruct Hi as (H1 & H2 & H3 & H4).
      apply idx_key in H2. destruct H2 as [Hm Hk].
      destruct (g (idata i)) as [ni|] eqn:Eg; [|destruct Hx].
      destruct (Z.eqb_spec (ie ni - ib ni - 1) 0) as [E0|E0]; [destruct Hx|].
      destruct (Z.leb_spec (ie ni - 1) (qstart q)) as [E1|E1]; [destruct Hx|].
      destruct Hx as [Hx|[]]. subst x. split; auto. exists i, ni. auto 10.
    - intros [Hm (i & ni & Hk & Hg & H1 & H3 & H4 & E0 & E1)].
      exists i. pose proof (Hkey x i Hk) as Hd. split.
      + apply overlap_In. split; auto. split; auto. apply Hidx. exists x. auto.
      + rewrite Hd, Hg.
        destruct (Z.eqb_spec (ie ni - ib ni - 1) 0) as [E0'|E0']; [lia|].
        destruct (Z.leb_spec (ie ni - 1) (qstart q)) as [E1'|E1']; [lia|].
        simpl. auto.
  Qed.

  Lemma nodes_at_tree_In q g adj x :
    In x (nodes_at_tree idx q g adj) <->
    In x members /\ exists i ni, key x = Some i /\ g x = Some ni /\
      qstart q + adj < qstop q + adj /\ ib i < qstop q + adj /\ qstart q + adj < ie i /\
      in_q (ib ni) q = true.
  Proof.
    unfold nodes_at_tree. rewrite in_flat_map. split.
    - intros [i [Hi Hx]]. apply overlap_In in Hi. destruct Hi as (H1 & H2 & H3 & H4).
      apply idx_key in H2. destruct H2 as [Hm Hk].
      destruct (g (idata i)) as [ni|] eqn:Eg; [|destruct Hx].
      destruct (in_q (ib ni) q) eqn:Eq; [|destruct Hx].
      destruct Hx as [Hx|[]]. subst x. split; auto. exists i, ni. auto 10.
    - intros [Hm (i & ni & Hk & Hg & H1 & H3 & H4 & Eq)].
      exists i. pose proof (Hkey x i Hk) as Hd. split.
      + apply overlap_In. split; auto. split; auto. apply Hidx. exists x. auto.
      + rewrite Hd, Hg, Eq. simpl. auto.
  Qed.

  (* the index has one entry per member that has a key *)
  Hypothesis Hmem : NoDup members.

  Lemma idx_length :
    length idx = length (flat_map (fun b => match key b with Some i => [i] | None => [] end) members).
  Proof.
    apply Permutation_length. apply NoDup_Permutation; auto.
    - apply (flat_map_opt_NoDup key idata); auto.
    - intros i. rewrite Hidx. symmetry. apply In_flat_map_opt.
  Qed.
End TreeQuery.
