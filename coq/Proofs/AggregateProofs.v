(* Task AG: the aggregate iterators of Model/Aggregates.v (section.byte_blocks, module.code_blocks, ir.cfg_nodes, ...)
   enumerate exactly what the containment forest implies, each element once.
   Everything is proved under ForestDefs.Forest, then transported to reachable states through WorldInv.reach_forest. *)
From Coq Require Import ZArith List Bool Lia.
From V Require Import Result LazyTree World WorldGuard Aggregates ForestDefs InvDefs.
From V Require WorldInv.
Import ListNotations.
Open Scope Z_scope.

(* ---------- generic list / option facts ---------- *)

Lemma kind_eqb_eq : forall a b, kind_eqb a b = true <-> a = b.
Proof. intros a b. destruct a, b; simpl; split; intro H; try reflexivity; try discriminate H. Qed.

Lemma bind_o_some : forall {X Y} (o : option X) (f : X -> option Y) y,
  bind_o o f = Some y <-> exists x, o = Some x /\ f x = Some y.
Proof.
  intros X Y o f y. destruct o as [x|]; simpl; split.
  - intro H. exists x. split; [reflexivity|exact H].
  - intros (x' & E & H). injection E as E. subst x'. exact H.
  - intro H. discriminate H.
  - intros (x' & E & _). discriminate E.
Qed.

Lemma nodup_app_intro : forall {A} (l1 l2 : list A),
  NoDup l1 -> NoDup l2 -> (forall x, In x l1 -> In x l2 -> False) -> NoDup (l1 ++ l2).
Proof.
  intros A l1 l2. induction l1 as [|a l1 IH]; simpl; intros H1 H2 D.
  - exact H2.
  - inversion H1 as [|a' l' Hn Hd]; subst. constructor.
    + intro Hin. apply in_app_or in Hin. destruct Hin as [Hin|Hin].
      * exact (Hn Hin).
      * exact (D a (or_introl eq_refl) Hin).
    + apply IH; [exact Hd|exact H2|]. intros x Hx Hy. exact (D x (or_intror Hx) Hy).
Qed.

Lemma nodup_flat_map : forall {A B} (f : A -> list B) (l : list A),
  NoDup l -> (forall x, In x l -> NoDup (f x)) ->
  (forall x y n, In x l -> In y l -> In n (f x) -> In n (f y) -> x = y) -> NoDup (flat_map f l).
Proof.
  intros A B f l. induction l as [|a l IH]; simpl; intros Hl Hf Hd.
  - constructor.
  - inversion Hl as [|a' l' Hn Hl']; subst. apply nodup_app_intro.
    + apply Hf. left. reflexivity.
    + apply IH; [exact Hl'| |].
      * intros x Hx. apply Hf. right. exact Hx.
      * intros x y n Hx Hy. apply Hd; right; assumption.
    + intros n H1 H2. apply in_flat_map in H2. destruct H2 as (y & Hy & Hny).
      assert (E : a = y).
      { apply (Hd a y n); [left; reflexivity|right; exact Hy|exact H1|exact Hny]. }
      subst y. exact (Hn Hy).
Qed.

(* the form used below: every element of (f x) names x through an accessor g *)
Lemma nodup_flat_map_keyed : forall {B} (f : id -> list B) (g : B -> option id) (l : list id),
  NoDup l -> (forall x, NoDup (f x)) -> (forall x n, In n (f x) -> g n = Some x) -> NoDup (flat_map f l).
Proof.
  intros B f g l Hl Hf Hg. apply nodup_flat_map; [exact Hl| |].
  - intros x _. apply Hf.
  - intros x y n _ _ Hx Hy. apply Hg in Hx. apply Hg in Hy. rewrite Hx in Hy. injection Hy as Hy. exact Hy.
Qed.

(* ---------- strict descendants ---------- *)

Inductive strict_desc (w : world) (a : id) : id -> Prop :=
| sd_child : forall n, par w n = Some a -> strict_desc w a n
| sd_step : forall n p, par w n = Some p -> strict_desc w a p -> strict_desc w a n.

Lemma par2_desc : forall w a n, bind_o (par w n) (par w) = Some a -> strict_desc w a n.
Proof.
  intros w a n H. apply bind_o_some in H. destruct H as (b & Pn & Pb).
  apply (sd_step w a n b Pn). apply sd_child. exact Pb.
Qed.

Lemma par3_desc : forall w a n, bind_o (par w n) (fun b => bind_o (par w b) (par w)) = Some a -> strict_desc w a n.
Proof.
  intros w a n H. apply bind_o_some in H. destruct H as (b & Pn & Pb).
  apply (sd_step w a n b Pn). apply par2_desc. exact Pb.
Qed.

Lemma par4_desc : forall w a n,
  bind_o (par w n) (fun b => bind_o (par w b) (fun s => bind_o (par w s) (par w))) = Some a -> strict_desc w a n.
Proof.
  intros w a n H. apply bind_o_some in H. destruct H as (b & Pn & Pb).
  apply (sd_step w a n b Pn). apply par3_desc. exact Pb.
Qed.

Lemma section_of_desc : forall w n s, section_of w n = Some s -> strict_desc w s n.
Proof.
  intros w n s. unfold section_of. destruct (kindof w n); intro H; try discriminate H.
  - apply sd_child. exact H.
  - apply par2_desc. exact H.
  - apply par2_desc. exact H.
Qed.

Lemma module_of_desc : forall w n m, module_of w n = Some m -> strict_desc w m n.
Proof.
  intros w n m. unfold module_of. destruct (kindof w n); intro H; try discriminate H.
  - apply sd_child. exact H.
  - apply par2_desc. exact H.
  - apply par3_desc. exact H.
  - apply par3_desc. exact H.
  - apply sd_child. exact H.
  - apply sd_child. exact H.
Qed.

Lemma ir_of_desc : forall w n ir, ir_of w n = Some ir -> strict_desc w ir n.
Proof.
  intros w n ir. unfold ir_of. destruct (kindof w n); intro H; try discriminate H.
  - apply sd_child. exact H.
  - apply par2_desc. exact H.
  - apply par3_desc. exact H.
  - apply par4_desc. exact H.
  - apply par4_desc. exact H.
  - apply par2_desc. exact H.
  - apply par2_desc. exact H.
Qed.

(* ---------- the accessors are one more parent step of each other (definitional) ---------- *)

Lemma section_of_block_par : forall w n, is_block (kindof w n) = true -> section_of w n = bind_o (par w n) (par w).
Proof. intros w n. unfold section_of. destruct (kindof w n); simpl; intro H; try discriminate H; reflexivity. Qed.

Lemma module_of_bi_par : forall w n, kindof w n = KBI -> module_of w n = bind_o (par w n) (par w).
Proof. intros w n K. unfold module_of. rewrite K. reflexivity. Qed.

Lemma module_of_block_section : forall w n, is_block (kindof w n) = true ->
  module_of w n = bind_o (section_of w n) (par w).
Proof.
  intros w n. unfold module_of, section_of. destruct (kindof w n); simpl; intro H; try discriminate H;
    destruct (par w n) as [b|]; reflexivity.
Qed.

Lemma ir_of_par_par : forall w n, kindof w n = KSec \/ kindof w n = KSym \/ kindof w n = KProxy ->
  ir_of w n = bind_o (par w n) (par w).
Proof. intros w n [K|[K|K]]; unfold ir_of; rewrite K; reflexivity. Qed.

Lemma ir_of_via_module : forall w n, kindof w n <> KIR -> kindof w n <> KMod ->
  ir_of w n = bind_o (module_of w n) (par w).
Proof.
  intros w n. unfold ir_of, module_of. destruct (kindof w n); intros H1 H2; try congruence;
    destruct (par w n) as [x|]; simpl; try reflexivity; destruct (par w x) as [y|]; reflexivity.
Qed.

(* ---------- under the forest invariant ---------- *)

Section Agg.
Variables (w : world) (known : list id).
Hypothesis HF : Forest w known.

Lemma par_kind : forall c p, par w c = Some p -> parent_kind (kindof w c) = Some (kindof w p).
Proof. intros c p H. exact (proj2 (proj2 (f_kind _ _ HF p c H))). Qed.

Lemma section_of_kind_l : forall n s, section_of w n = Some s -> kindof w s = KSec.
Proof.
  intros n s. unfold section_of. destruct (kindof w n) eqn:K; intro H; try discriminate H.
  - pose proof (par_kind n s H) as Q. rewrite K in Q. simpl in Q. congruence.
  - apply bind_o_some in H. destruct H as (b & Pn & Pb).
    pose proof (par_kind n b Pn) as Q. rewrite K in Q. simpl in Q.
    pose proof (par_kind b s Pb) as Q2. injection Q as Q. rewrite <- Q in Q2. simpl in Q2. congruence.
  - apply bind_o_some in H. destruct H as (b & Pn & Pb).
    pose proof (par_kind n b Pn) as Q. rewrite K in Q. simpl in Q.
    pose proof (par_kind b s Pb) as Q2. injection Q as Q. rewrite <- Q in Q2. simpl in Q2. congruence.
Qed.

Lemma module_of_kind_l : forall n m, module_of w n = Some m -> kindof w m = KMod.
Proof.
  intros n m H.
  assert (Direct : parent_kind (kindof w n) = Some KMod -> par w n = Some m -> kindof w m = KMod).
  { intros PK P. pose proof (par_kind n m P) as Q. rewrite PK in Q. congruence. }
  assert (Via : section_of w n <> None -> module_of w n = bind_o (section_of w n) (par w) -> kindof w m = KMod).
  { intros NN E. rewrite E in H. apply bind_o_some in H. destruct H as (s & Hs & Ps).
    pose proof (section_of_kind_l n s Hs) as Ks. pose proof (par_kind s m Ps) as Q. rewrite Ks in Q. simpl in Q. congruence. }
  destruct (kindof w n) eqn:K.
  - unfold module_of in H. rewrite K in H. discriminate H.
  - unfold module_of in H. rewrite K in H. discriminate H.
  - apply Direct; [reflexivity|]. unfold module_of in H. rewrite K in H. exact H.
  - assert (E : module_of w n = bind_o (section_of w n) (par w)).
    { unfold module_of, section_of. rewrite K. reflexivity. }
    apply Via; [|exact E]. intro N. rewrite E, N in H. discriminate H.
  - assert (E : module_of w n = bind_o (section_of w n) (par w)).
    { apply module_of_block_section. rewrite K. reflexivity. }
    apply Via; [|exact E]. intro N. rewrite E, N in H. discriminate H.
  - assert (E : module_of w n = bind_o (section_of w n) (par w)).
    { apply module_of_block_section. rewrite K. reflexivity. }
    apply Via; [|exact E]. intro N. rewrite E, N in H. discriminate H.
  - apply Direct; [reflexivity|]. unfold module_of in H. rewrite K in H. exact H.
  - apply Direct; [reflexivity|]. unfold module_of in H. rewrite K in H. exact H.
Qed.

(* --- the owning collections --- *)

Lemma field_in : forall p fk n,
  In n (field w p fk) <-> par w n = Some p /\ existsb (kind_eqb (kindof w n)) fk = true.
Proof.
  intros p fk n. unfold field. split.
  - intro H. apply filter_In in H. destruct H as [H1 H2]. split; [|exact H2]. apply (f_two_ended _ _ HF). exact H1.
  - intros [H1 H2]. apply filter_In. split; [|exact H2]. apply (f_two_ended _ _ HF). exact H1.
Qed.

Lemma field_nodup : forall p fk, NoDup (field w p fk).
Proof. intros p fk. unfold field. apply NoDup_filter. exact (f_nodup _ _ HF p). Qed.

Lemma kfield_in : forall p k n, In n (kfield w p k) <-> kindof w n = k /\ par w n = Some p.
Proof.
  intros p k n. unfold kfield. split.
  - intro H. apply field_in in H. destruct H as [H1 H2]. simpl in H2. rewrite orb_false_r in H2.
    apply kind_eqb_eq in H2. split; assumption.
  - intros [H1 H2]. apply field_in. split; [exact H2|]. simpl. rewrite orb_false_r. apply kind_eqb_eq. exact H1.
Qed.

Lemma kfield_nodup : forall p k, NoDup (kfield w p k).
Proof. intros p k. apply field_nodup. Qed.

Lemma bi_blocks_in : forall bi n, In n (bi_blocks w bi) <-> is_block (kindof w n) = true /\ par w n = Some bi.
Proof.
  intros bi n. unfold bi_blocks. split.
  - intro H. apply field_in in H. destruct H as [H1 H2]. split; [|exact H1].
    simpl in H2. destruct (kindof w n); simpl in H2; try discriminate H2; reflexivity.
  - intros [H1 H2]. apply field_in. split; [exact H2|].
    simpl. destruct (kindof w n); simpl in H1; try discriminate H1; reflexivity.
Qed.

Lemma only_in : forall k l n, In n (only w k l) <-> kindof w n = k /\ In n l.
Proof.
  intros k l n. unfold only. split.
  - intro H. apply filter_In in H. destruct H as [H1 H2]. apply kind_eqb_eq in H2. split; assumption.
  - intros [H1 H2]. apply filter_In. split; [exact H2|]. apply kind_eqb_eq. exact H1.
Qed.

Lemma only_nodup : forall k l, NoDup l -> NoDup (only w k l).
Proof. intros k l H. unfold only. apply NoDup_filter. exact H. Qed.

(* --- lifting a characterisation one level up --- *)

Lemma lift_in : forall (f : id -> list id) (P : id -> Prop) (g g' : id -> option id) p K,
  (forall s n, In n (f s) <-> P n /\ g n = Some s) ->
  (forall n, P n -> g' n = bind_o (g n) (par w)) ->
  (forall n s, P n -> g n = Some s -> kindof w s = K) ->
  forall n, In n (flat_map f (kfield w p K)) <-> P n /\ g' n = Some p.
Proof.
  intros f P g g' p K Hf Hg Hk n. split.
  - intro H. apply in_flat_map in H. destruct H as (s & Hs & Hn).
    apply kfield_in in Hs. destruct Hs as [_ Ps]. apply Hf in Hn. destruct Hn as [HP Hgn].
    split; [exact HP|]. rewrite (Hg n HP), Hgn. exact Ps.
  - intros [HP Hgn]. rewrite (Hg n HP) in Hgn. apply bind_o_some in Hgn. destruct Hgn as (s & Hs & Ps).
    apply in_flat_map. exists s. split.
    + apply kfield_in. split; [exact (Hk n s HP Hs)|exact Ps].
    + apply Hf. split; assumption.
Qed.

Lemma lift_kids_in : forall (f : id -> list id) (P : id -> Prop) (g g' : id -> option id) p,
  (forall s n, In n (f s) <-> P n /\ g n = Some s) ->
  (forall n, P n -> g' n = bind_o (g n) (par w)) ->
  forall n, In n (flat_map f (kids w p)) <-> P n /\ g' n = Some p.
Proof.
  intros f P g g' p Hf Hg n. split.
  - intro H. apply in_flat_map in H. destruct H as (s & Hs & Hn).
    apply (f_two_ended _ _ HF) in Hs. apply Hf in Hn. destruct Hn as [HP Hgn].
    split; [exact HP|]. rewrite (Hg n HP), Hgn. exact Hs.
  - intros [HP Hgn]. rewrite (Hg n HP) in Hgn. apply bind_o_some in Hgn. destruct Hgn as (s & Hs & Ps).
    apply in_flat_map. exists s. split.
    + apply (f_two_ended _ _ HF). exact Ps.
    + apply Hf. split; assumption.
Qed.

Lemma lift_nodup : forall (f : id -> list id) (P : id -> Prop) (g : id -> option id) l,
  (forall s n, In n (f s) <-> P n /\ g n = Some s) -> (forall s, NoDup (f s)) -> NoDup l -> NoDup (flat_map f l).
Proof.
  intros f P g l Hf Hn Hl. apply (nodup_flat_map_keyed f g l Hl Hn).
  intros x n H. apply Hf in H. exact (proj2 H).
Qed.

(* --- Section --- *)

Lemma sec_byte_intervals_in : forall s n, In n (sec_byte_intervals w s) <-> kindof w n = KBI /\ par w n = Some s.
Proof. intros s n. apply kfield_in. Qed.

Lemma sec_byte_intervals_nodup : forall s, NoDup (sec_byte_intervals w s).
Proof. intro s. apply kfield_nodup. Qed.

Lemma sec_byte_blocks_in : forall s n,
  In n (sec_byte_blocks w s) <-> is_block (kindof w n) = true /\ section_of w n = Some s.
Proof.
  intros s n. unfold sec_byte_blocks, sec_byte_intervals.
  apply (lift_in (bi_blocks w) (fun n => is_block (kindof w n) = true) (par w) (section_of w) s KBI).
  - exact bi_blocks_in.
  - intros x Hx. apply section_of_block_par. exact Hx.
  - intros x b Hx Pb. pose proof (par_kind x b Pb) as Q.
    destruct (kindof w x); simpl in Hx; try discriminate Hx; simpl in Q; congruence.
Qed.

Lemma sec_byte_blocks_nodup : forall s, NoDup (sec_byte_blocks w s).
Proof.
  intro s. unfold sec_byte_blocks.
  apply (lift_nodup (bi_blocks w) (fun n => is_block (kindof w n) = true) (par w)).
  - exact bi_blocks_in.
  - intro b. apply field_nodup.
  - apply sec_byte_intervals_nodup.
Qed.

Lemma sec_code_blocks_in : forall s n, In n (sec_code_blocks w s) <-> kindof w n = KCode /\ section_of w n = Some s.
Proof.
  intros s n. unfold sec_code_blocks. split.
  - intro H. apply only_in in H. destruct H as [K H]. apply sec_byte_blocks_in in H. split; [exact K|exact (proj2 H)].
  - intros [K H]. apply only_in. split; [exact K|]. apply sec_byte_blocks_in. split; [|exact H]. rewrite K. reflexivity.
Qed.

Lemma sec_data_blocks_in : forall s n, In n (sec_data_blocks w s) <-> kindof w n = KData /\ section_of w n = Some s.
Proof.
  intros s n. unfold sec_data_blocks. split.
  - intro H. apply only_in in H. destruct H as [K H]. apply sec_byte_blocks_in in H. split; [exact K|exact (proj2 H)].
  - intros [K H]. apply only_in. split; [exact K|]. apply sec_byte_blocks_in. split; [|exact H]. rewrite K. reflexivity.
Qed.

Lemma sec_code_blocks_nodup : forall s, NoDup (sec_code_blocks w s).
Proof. intro s. apply only_nodup. apply sec_byte_blocks_nodup. Qed.

Lemma sec_data_blocks_nodup : forall s, NoDup (sec_data_blocks w s).
Proof. intro s. apply only_nodup. apply sec_byte_blocks_nodup. Qed.

(* --- Module --- *)

Lemma mod_sections_in : forall m n, In n (mod_sections w m) <-> kindof w n = KSec /\ par w n = Some m.
Proof. intros m n. apply kfield_in. Qed.
Lemma mod_symbols_in : forall m n, In n (mod_symbols w m) <-> kindof w n = KSym /\ par w n = Some m.
Proof. intros m n. apply kfield_in. Qed.
Lemma mod_proxies_in : forall m n, In n (mod_proxies w m) <-> kindof w n = KProxy /\ par w n = Some m.
Proof. intros m n. apply kfield_in. Qed.
Lemma mod_sections_nodup : forall m, NoDup (mod_sections w m).
Proof. intro m. apply kfield_nodup. Qed.
Lemma mod_symbols_nodup : forall m, NoDup (mod_symbols w m).
Proof. intro m. apply kfield_nodup. Qed.
Lemma mod_proxies_nodup : forall m, NoDup (mod_proxies w m).
Proof. intro m. apply kfield_nodup. Qed.

Lemma mod_byte_intervals_in : forall m n,
  In n (mod_byte_intervals w m) <-> kindof w n = KBI /\ module_of w n = Some m.
Proof.
  intros m n. unfold mod_byte_intervals, mod_sections.
  apply (lift_in (sec_byte_intervals w) (fun n => kindof w n = KBI) (par w) (module_of w) m KSec).
  - exact sec_byte_intervals_in.
  - intros x Kx. apply module_of_bi_par. exact Kx.
  - intros x s Kx Ps. pose proof (par_kind x s Ps) as Q. rewrite Kx in Q. simpl in Q. congruence.
Qed.

Lemma mod_byte_blocks_in : forall m n,
  In n (mod_byte_blocks w m) <-> is_block (kindof w n) = true /\ module_of w n = Some m.
Proof.
  intros m n. unfold mod_byte_blocks, mod_sections.
  apply (lift_in (sec_byte_blocks w) (fun n => is_block (kindof w n) = true) (section_of w) (module_of w) m KSec).
  - exact sec_byte_blocks_in.
  - intros x Hx. apply module_of_block_section. exact Hx.
  - intros x s _ Hs. exact (section_of_kind_l x s Hs).
Qed.

Lemma mod_code_blocks_in : forall m n,
  In n (mod_code_blocks w m) <-> kindof w n = KCode /\ module_of w n = Some m.
Proof.
  intros m n. unfold mod_code_blocks, mod_sections.
  apply (lift_in (sec_code_blocks w) (fun n => kindof w n = KCode) (section_of w) (module_of w) m KSec).
  - exact sec_code_blocks_in.
  - intros x Kx. apply module_of_block_section. rewrite Kx. reflexivity.
  - intros x s _ Hs. exact (section_of_kind_l x s Hs).
Qed.

Lemma mod_data_blocks_in : forall m n,
  In n (mod_data_blocks w m) <-> kindof w n = KData /\ module_of w n = Some m.
Proof.
  intros m n. unfold mod_data_blocks, mod_sections.
  apply (lift_in (sec_data_blocks w) (fun n => kindof w n = KData) (section_of w) (module_of w) m KSec).
  - exact sec_data_blocks_in.
  - intros x Kx. apply module_of_block_section. rewrite Kx. reflexivity.
  - intros x s _ Hs. exact (section_of_kind_l x s Hs).
Qed.

Lemma mod_cfg_nodes_in : forall m n,
  In n (mod_cfg_nodes w m) <-> (kindof w n = KCode \/ kindof w n = KProxy) /\ module_of w n = Some m.
Proof.
  intros m n. unfold mod_cfg_nodes. split.
  - intro H. apply in_app_or in H. destruct H as [H|H].
    + apply mod_code_blocks_in in H. destruct H as [K H]. split; [left; exact K|exact H].
    + apply mod_proxies_in in H. destruct H as [K H]. split; [right; exact K|].
      unfold module_of. rewrite K. exact H.
  - intros [[K|K] H]; apply in_or_app.
    + left. apply mod_code_blocks_in. split; assumption.
    + right. apply mod_proxies_in. split; [exact K|]. unfold module_of in H. rewrite K in H. exact H.
Qed.

Lemma mod_byte_intervals_nodup : forall m, NoDup (mod_byte_intervals w m).
Proof.
  intro m. unfold mod_byte_intervals.
  exact (lift_nodup _ _ _ _ sec_byte_intervals_in sec_byte_intervals_nodup (mod_sections_nodup m)).
Qed.
Lemma mod_byte_blocks_nodup : forall m, NoDup (mod_byte_blocks w m).
Proof.
  intro m. unfold mod_byte_blocks.
  exact (lift_nodup _ _ _ _ sec_byte_blocks_in sec_byte_blocks_nodup (mod_sections_nodup m)).
Qed.
Lemma mod_code_blocks_nodup : forall m, NoDup (mod_code_blocks w m).
Proof.
  intro m. unfold mod_code_blocks.
  exact (lift_nodup _ _ _ _ sec_code_blocks_in sec_code_blocks_nodup (mod_sections_nodup m)).
Qed.
Lemma mod_data_blocks_nodup : forall m, NoDup (mod_data_blocks w m).
Proof.
  intro m. unfold mod_data_blocks.
  exact (lift_nodup _ _ _ _ sec_data_blocks_in sec_data_blocks_nodup (mod_sections_nodup m)).
Qed.
Lemma mod_cfg_nodes_nodup : forall m, NoDup (mod_cfg_nodes w m).
Proof.
  intro m. unfold mod_cfg_nodes. apply nodup_app_intro.
  - apply mod_code_blocks_nodup.
  - apply mod_proxies_nodup.
  - intros x H1 H2. apply mod_code_blocks_in in H1. apply mod_proxies_in in H2.
    destruct H1 as [K1 _]. destruct H2 as [K2 _]. rewrite K1 in K2. discriminate K2.
Qed.

(* --- IR --- *)

Lemma ir_sections_in : forall ir n, In n (ir_sections w ir) <-> kindof w n = KSec /\ ir_of w n = Some ir.
Proof.
  intros ir n. unfold ir_sections, ir_lift_agg, ir_modules.
  apply (lift_kids_in (mod_sections w) (fun n => kindof w n = KSec) (par w) (ir_of w) ir).
  - exact mod_sections_in.
  - intros x Kx. apply ir_of_par_par. left. exact Kx.
Qed.

Lemma ir_symbols_in : forall ir n, In n (ir_symbols w ir) <-> kindof w n = KSym /\ ir_of w n = Some ir.
Proof.
  intros ir n. unfold ir_symbols, ir_lift_agg, ir_modules.
  apply (lift_kids_in (mod_symbols w) (fun n => kindof w n = KSym) (par w) (ir_of w) ir).
  - exact mod_symbols_in.
  - intros x Kx. apply ir_of_par_par. right. left. exact Kx.
Qed.

Lemma ir_proxy_blocks_in : forall ir n, In n (ir_proxy_blocks w ir) <-> kindof w n = KProxy /\ ir_of w n = Some ir.
Proof.
  intros ir n. unfold ir_proxy_blocks, ir_lift_agg, ir_modules.
  apply (lift_kids_in (mod_proxies w) (fun n => kindof w n = KProxy) (par w) (ir_of w) ir).
  - exact mod_proxies_in.
  - intros x Kx. apply ir_of_par_par. right. right. exact Kx.
Qed.

Lemma ir_byte_intervals_in : forall ir n, In n (ir_byte_intervals w ir) <-> kindof w n = KBI /\ ir_of w n = Some ir.
Proof.
  intros ir n. unfold ir_byte_intervals, ir_lift_agg, ir_modules.
  apply (lift_kids_in (mod_byte_intervals w) (fun n => kindof w n = KBI) (module_of w) (ir_of w) ir).
  - exact mod_byte_intervals_in.
  - intros x Kx. apply ir_of_via_module; rewrite Kx; discriminate.
Qed.

Lemma ir_byte_blocks_in : forall ir n,
  In n (ir_byte_blocks w ir) <-> is_block (kindof w n) = true /\ ir_of w n = Some ir.
Proof.
  intros ir n. unfold ir_byte_blocks, ir_lift_agg, ir_modules.
  apply (lift_kids_in (mod_byte_blocks w) (fun n => is_block (kindof w n) = true) (module_of w) (ir_of w) ir).
  - exact mod_byte_blocks_in.
  - intros x Hx. apply ir_of_via_module; intro K; rewrite K in Hx; discriminate Hx.
Qed.

Lemma ir_code_blocks_in : forall ir n, In n (ir_code_blocks w ir) <-> kindof w n = KCode /\ ir_of w n = Some ir.
Proof.
  intros ir n. unfold ir_code_blocks, ir_lift_agg, ir_modules.
  apply (lift_kids_in (mod_code_blocks w) (fun n => kindof w n = KCode) (module_of w) (ir_of w) ir).
  - exact mod_code_blocks_in.
  - intros x Kx. apply ir_of_via_module; rewrite Kx; discriminate.
Qed.

Lemma ir_data_blocks_in : forall ir n, In n (ir_data_blocks w ir) <-> kindof w n = KData /\ ir_of w n = Some ir.
Proof.
  intros ir n. unfold ir_data_blocks, ir_lift_agg, ir_modules.
  apply (lift_kids_in (mod_data_blocks w) (fun n => kindof w n = KData) (module_of w) (ir_of w) ir).
  - exact mod_data_blocks_in.
  - intros x Kx. apply ir_of_via_module; rewrite Kx; discriminate.
Qed.

Lemma ir_cfg_nodes_in : forall ir n,
  In n (ir_cfg_nodes w ir) <-> (kindof w n = KCode \/ kindof w n = KProxy) /\ ir_of w n = Some ir.
Proof.
  intros ir n. unfold ir_cfg_nodes, ir_lift_agg, ir_modules.
  apply (lift_kids_in (mod_cfg_nodes w) (fun n => kindof w n = KCode \/ kindof w n = KProxy) (module_of w) (ir_of w) ir).
  - exact mod_cfg_nodes_in.
  - intros x [Kx|Kx]; apply ir_of_via_module; rewrite Kx; discriminate.
Qed.

Lemma ir_modules_nodup : forall ir, NoDup (ir_modules w ir).
Proof. intro ir. exact (f_nodup _ _ HF ir). Qed.

Lemma ir_sections_nodup : forall ir, NoDup (ir_sections w ir).
Proof.
  intro ir. unfold ir_sections, ir_lift_agg.
  exact (lift_nodup _ _ _ _ mod_sections_in mod_sections_nodup (ir_modules_nodup ir)).
Qed.
Lemma ir_symbols_nodup : forall ir, NoDup (ir_symbols w ir).
Proof.
  intro ir. unfold ir_symbols, ir_lift_agg.
  exact (lift_nodup _ _ _ _ mod_symbols_in mod_symbols_nodup (ir_modules_nodup ir)).
Qed.
Lemma ir_proxy_blocks_nodup : forall ir, NoDup (ir_proxy_blocks w ir).
Proof.
  intro ir. unfold ir_proxy_blocks, ir_lift_agg.
  exact (lift_nodup _ _ _ _ mod_proxies_in mod_proxies_nodup (ir_modules_nodup ir)).
Qed.
Lemma ir_byte_intervals_nodup : forall ir, NoDup (ir_byte_intervals w ir).
Proof.
  intro ir. unfold ir_byte_intervals, ir_lift_agg.
  exact (lift_nodup _ _ _ _ mod_byte_intervals_in mod_byte_intervals_nodup (ir_modules_nodup ir)).
Qed.
Lemma ir_byte_blocks_nodup : forall ir, NoDup (ir_byte_blocks w ir).
Proof.
  intro ir. unfold ir_byte_blocks, ir_lift_agg.
  exact (lift_nodup _ _ _ _ mod_byte_blocks_in mod_byte_blocks_nodup (ir_modules_nodup ir)).
Qed.
Lemma ir_code_blocks_nodup : forall ir, NoDup (ir_code_blocks w ir).
Proof.
  intro ir. unfold ir_code_blocks, ir_lift_agg.
  exact (lift_nodup _ _ _ _ mod_code_blocks_in mod_code_blocks_nodup (ir_modules_nodup ir)).
Qed.
Lemma ir_data_blocks_nodup : forall ir, NoDup (ir_data_blocks w ir).
Proof.
  intro ir. unfold ir_data_blocks, ir_lift_agg.
  exact (lift_nodup _ _ _ _ mod_data_blocks_in mod_data_blocks_nodup (ir_modules_nodup ir)).
Qed.
Lemma ir_cfg_nodes_nodup : forall ir, NoDup (ir_cfg_nodes w ir).
Proof.
  intro ir. unfold ir_cfg_nodes, ir_lift_agg.
  exact (lift_nodup _ _ _ _ mod_cfg_nodes_in mod_cfg_nodes_nodup (ir_modules_nodup ir)).
Qed.

End Agg.

(* ---------- bundles per scope (under the forest invariant) ---------- *)

Definition section_aggregates_exact (w : world) (s : id) : Prop :=
  (forall n, In n (sec_byte_intervals w s) <-> kindof w n = KBI /\ par w n = Some s) /\
  (forall n, In n (sec_byte_blocks w s) <-> is_block (kindof w n) = true /\ section_of w n = Some s) /\
  (forall n, In n (sec_code_blocks w s) <-> kindof w n = KCode /\ section_of w n = Some s) /\
  (forall n, In n (sec_data_blocks w s) <-> kindof w n = KData /\ section_of w n = Some s) /\
  NoDup (sec_byte_intervals w s) /\ NoDup (sec_byte_blocks w s) /\
  NoDup (sec_code_blocks w s) /\ NoDup (sec_data_blocks w s).

Definition module_aggregates_exact (w : world) (m : id) : Prop :=
  (forall n, In n (mod_sections w m) <-> kindof w n = KSec /\ par w n = Some m) /\
  (forall n, In n (mod_symbols w m) <-> kindof w n = KSym /\ par w n = Some m) /\
  (forall n, In n (mod_proxies w m) <-> kindof w n = KProxy /\ par w n = Some m) /\
  (forall n, In n (mod_byte_intervals w m) <-> kindof w n = KBI /\ module_of w n = Some m) /\
  (forall n, In n (mod_byte_blocks w m) <-> is_block (kindof w n) = true /\ module_of w n = Some m) /\
  (forall n, In n (mod_code_blocks w m) <-> kindof w n = KCode /\ module_of w n = Some m) /\
  (forall n, In n (mod_data_blocks w m) <-> kindof w n = KData /\ module_of w n = Some m) /\
  (forall n, In n (mod_cfg_nodes w m) <-> (kindof w n = KCode \/ kindof w n = KProxy) /\ module_of w n = Some m) /\
  NoDup (mod_sections w m) /\ NoDup (mod_symbols w m) /\ NoDup (mod_proxies w m) /\
  NoDup (mod_byte_intervals w m) /\ NoDup (mod_byte_blocks w m) /\
  NoDup (mod_code_blocks w m) /\ NoDup (mod_data_blocks w m) /\ NoDup (mod_cfg_nodes w m).

Definition ir_aggregates_exact (w : world) (ir : id) : Prop :=
  (forall n, In n (ir_sections w ir) <-> kindof w n = KSec /\ ir_of w n = Some ir) /\
  (forall n, In n (ir_symbols w ir) <-> kindof w n = KSym /\ ir_of w n = Some ir) /\
  (forall n, In n (ir_proxy_blocks w ir) <-> kindof w n = KProxy /\ ir_of w n = Some ir) /\
  (forall n, In n (ir_byte_intervals w ir) <-> kindof w n = KBI /\ ir_of w n = Some ir) /\
  (forall n, In n (ir_byte_blocks w ir) <-> is_block (kindof w n) = true /\ ir_of w n = Some ir) /\
  (forall n, In n (ir_code_blocks w ir) <-> kindof w n = KCode /\ ir_of w n = Some ir) /\
  (forall n, In n (ir_data_blocks w ir) <-> kindof w n = KData /\ ir_of w n = Some ir) /\
  (forall n, In n (ir_cfg_nodes w ir) <-> (kindof w n = KCode \/ kindof w n = KProxy) /\ ir_of w n = Some ir) /\
  NoDup (ir_sections w ir) /\ NoDup (ir_symbols w ir) /\ NoDup (ir_proxy_blocks w ir) /\
  NoDup (ir_byte_intervals w ir) /\ NoDup (ir_byte_blocks w ir) /\
  NoDup (ir_code_blocks w ir) /\ NoDup (ir_data_blocks w ir) /\ NoDup (ir_cfg_nodes w ir).

Theorem forest_section_aggregates : forall w known, Forest w known -> forall s, section_aggregates_exact w s.
Proof.
  intros w known HF s. unfold section_aggregates_exact.
  split; [exact (sec_byte_intervals_in w known HF s)|].
  split; [exact (sec_byte_blocks_in w known HF s)|].
  split; [exact (sec_code_blocks_in w known HF s)|].
  split; [exact (sec_data_blocks_in w known HF s)|].
  split; [exact (sec_byte_intervals_nodup w known HF s)|].
  split; [exact (sec_byte_blocks_nodup w known HF s)|].
  split; [exact (sec_code_blocks_nodup w known HF s)|exact (sec_data_blocks_nodup w known HF s)].
Qed.

Theorem forest_module_aggregates : forall w known, Forest w known -> forall m, module_aggregates_exact w m.
Proof.
  intros w known HF m. unfold module_aggregates_exact.
  split; [exact (mod_sections_in w known HF m)|].
  split; [exact (mod_symbols_in w known HF m)|].
  split; [exact (mod_proxies_in w known HF m)|].
  split; [exact (mod_byte_intervals_in w known HF m)|].
  split; [exact (mod_byte_blocks_in w known HF m)|].
  split; [exact (mod_code_blocks_in w known HF m)|].
  split; [exact (mod_data_blocks_in w known HF m)|].
  split; [exact (mod_cfg_nodes_in w known HF m)|].
  split; [exact (mod_sections_nodup w known HF m)|].
  split; [exact (mod_symbols_nodup w known HF m)|].
  split; [exact (mod_proxies_nodup w known HF m)|].
  split; [exact (mod_byte_intervals_nodup w known HF m)|].
  split; [exact (mod_byte_blocks_nodup w known HF m)|].
  split; [exact (mod_code_blocks_nodup w known HF m)|].
  split; [exact (mod_data_blocks_nodup w known HF m)|exact (mod_cfg_nodes_nodup w known HF m)].
Qed.

Theorem forest_ir_aggregates : forall w known, Forest w known -> forall ir, ir_aggregates_exact w ir.
Proof.
  intros w known HF ir. unfold ir_aggregates_exact.
  split; [exact (ir_sections_in w known HF ir)|].
  split; [exact (ir_symbols_in w known HF ir)|].
  split; [exact (ir_proxy_blocks_in w known HF ir)|].
  split; [exact (ir_byte_intervals_in w known HF ir)|].
  split; [exact (ir_byte_blocks_in w known HF ir)|].
  split; [exact (ir_code_blocks_in w known HF ir)|].
  split; [exact (ir_data_blocks_in w known HF ir)|].
  split; [exact (ir_cfg_nodes_in w known HF ir)|].
  split; [exact (ir_sections_nodup w known HF ir)|].
  split; [exact (ir_symbols_nodup w known HF ir)|].
  split; [exact (ir_proxy_blocks_nodup w known HF ir)|].
  split; [exact (ir_byte_intervals_nodup w known HF ir)|].
  split; [exact (ir_byte_blocks_nodup w known HF ir)|].
  split; [exact (ir_code_blocks_nodup w known HF ir)|].
  split; [exact (ir_data_blocks_nodup w known HF ir)|exact (ir_cfg_nodes_nodup w known HF ir)].
Qed.

(* ---------- reachable states ---------- *)

Theorem reach_section_aggregates : forall w known, reachable_k w known -> forall s, section_aggregates_exact w s.
Proof. intros w known R. exact (forest_section_aggregates w known (WorldInv.reach_forest w known R)). Qed.

Theorem reach_module_aggregates : forall w known, reachable_k w known -> forall m, module_aggregates_exact w m.
Proof. intros w known R. exact (forest_module_aggregates w known (WorldInv.reach_forest w known R)). Qed.

Theorem reach_ir_aggregates : forall w known, reachable_k w known -> forall ir, ir_aggregates_exact w ir.
Proof. intros w known R. exact (forest_ir_aggregates w known (WorldInv.reach_forest w known R)). Qed.

(* ---------- the selector used by the harness ---------- *)

(* what `aggregate w scope a` must enumerate; mirrors the match of Aggregates.aggregate *)
Definition aggregate_spec (w : world) (scope : id) (a : Z) (n : id) : Prop :=
  match kindof w scope, a with
  | KSec, 0 => kindof w n = KBI /\ par w n = Some scope
  | KSec, 1 => is_block (kindof w n) = true /\ section_of w n = Some scope
  | KSec, 2 => kindof w n = KCode /\ section_of w n = Some scope
  | KSec, 3 => kindof w n = KData /\ section_of w n = Some scope
  | KMod, 0 => kindof w n = KBI /\ module_of w n = Some scope
  | KMod, 1 => is_block (kindof w n) = true /\ module_of w n = Some scope
  | KMod, 2 => kindof w n = KCode /\ module_of w n = Some scope
  | KMod, 3 => kindof w n = KData /\ module_of w n = Some scope
  | KMod, 4 => (kindof w n = KCode \/ kindof w n = KProxy) /\ module_of w n = Some scope
  | KIR, 0 => kindof w n = KBI /\ ir_of w n = Some scope
  | KIR, 1 => is_block (kindof w n) = true /\ ir_of w n = Some scope
  | KIR, 2 => kindof w n = KCode /\ ir_of w n = Some scope
  | KIR, 3 => kindof w n = KData /\ ir_of w n = Some scope
  | KIR, 4 => (kindof w n = KCode \/ kindof w n = KProxy) /\ ir_of w n = Some scope
  | KIR, 5 => kindof w n = KSec /\ ir_of w n = Some scope
  | KIR, 6 => kindof w n = KSym /\ ir_of w n = Some scope
  | KIR, 7 => kindof w n = KProxy /\ ir_of w n = Some scope
  | _, _ => False
  end.

Lemma agg_nil : forall w scope n,
  (In n (@nil id) -> strict_desc w scope n) /\ (In n (@nil id) <-> False) /\ NoDup (@nil id).
Proof. intros w scope n. split; [intros []|]. split; [simpl; tauto|constructor]. Qed.

Lemma agg_pack : forall w scope n (l : list id) (S : Prop),
  (In n l <-> S) -> (S -> strict_desc w scope n) -> NoDup l ->
  (In n l -> strict_desc w scope n) /\ (In n l <-> S) /\ NoDup l.
Proof.
  intros w scope n l S HI HD HN. split; [|split; [exact HI|exact HN]].
  intro H. apply HD. apply HI. exact H.
Qed.

Theorem aggregate_exact_forest : forall w known scope, Forest w known -> forall a n,
  (In n (aggregate w scope a) -> strict_desc w scope n) /\
  (In n (aggregate w scope a) <-> aggregate_spec w scope a n) /\
  NoDup (aggregate w scope a).
Proof.
  intros w known scope HF a n.
  destruct (forest_section_aggregates w known HF scope) as (S0 & S1 & S2 & S3 & SN0 & SN1 & SN2 & SN3).
  destruct (forest_module_aggregates w known HF scope)
    as (_ & _ & _ & M0 & M1 & M2 & M3 & M4 & _ & _ & _ & MN0 & MN1 & MN2 & MN3 & MN4).
  destruct (forest_ir_aggregates w known HF scope)
    as (I5 & I6 & I7 & I0 & I1 & I2 & I3 & I4 & IN5 & IN6 & IN7 & IN0 & IN1 & IN2 & IN3 & IN4).
  unfold aggregate, aggregate_spec.
  destruct (kindof w scope) eqn:K; try exact (agg_nil w scope n).
  - (* KIR *)
    destruct a as [|p|p]; [|destruct p as [[[p|p|]|[p|p|]|]|[[p|p|]|[p|p|]|]|]|]; cbv beta iota;
      try exact (agg_nil w scope n);
      first [ exact (agg_pack w scope n _ _ (I0 n) (fun H => ir_of_desc w n scope (proj2 H)) IN0)
            | exact (agg_pack w scope n _ _ (I1 n) (fun H => ir_of_desc w n scope (proj2 H)) IN1)
            | exact (agg_pack w scope n _ _ (I2 n) (fun H => ir_of_desc w n scope (proj2 H)) IN2)
            | exact (agg_pack w scope n _ _ (I3 n) (fun H => ir_of_desc w n scope (proj2 H)) IN3)
            | exact (agg_pack w scope n _ _ (I4 n) (fun H => ir_of_desc w n scope (proj2 H)) IN4)
            | exact (agg_pack w scope n _ _ (I5 n) (fun H => ir_of_desc w n scope (proj2 H)) IN5)
            | exact (agg_pack w scope n _ _ (I6 n) (fun H => ir_of_desc w n scope (proj2 H)) IN6)
            | exact (agg_pack w scope n _ _ (I7 n) (fun H => ir_of_desc w n scope (proj2 H)) IN7) ].
  - (* KMod *)
    destruct a as [|p|p]; [|destruct p as [[[p|p|]|[p|p|]|]|[[p|p|]|[p|p|]|]|]|]; cbv beta iota;
      try exact (agg_nil w scope n);
      first [ exact (agg_pack w scope n _ _ (M0 n) (fun H => module_of_desc w n scope (proj2 H)) MN0)
            | exact (agg_pack w scope n _ _ (M1 n) (fun H => module_of_desc w n scope (proj2 H)) MN1)
            | exact (agg_pack w scope n _ _ (M2 n) (fun H => module_of_desc w n scope (proj2 H)) MN2)
            | exact (agg_pack w scope n _ _ (M3 n) (fun H => module_of_desc w n scope (proj2 H)) MN3)
            | exact (agg_pack w scope n _ _ (M4 n) (fun H => module_of_desc w n scope (proj2 H)) MN4) ].
  - (* KSec *)
    destruct a as [|p|p]; [|destruct p as [[[p|p|]|[p|p|]|]|[[p|p|]|[p|p|]|]|]|]; cbv beta iota;
      try exact (agg_nil w scope n);
      first [ exact (agg_pack w scope n _ _ (S0 n) (fun H => sd_child w scope n (proj2 H)) SN0)
            | exact (agg_pack w scope n _ _ (S1 n) (fun H => section_of_desc w n scope (proj2 H)) SN1)
            | exact (agg_pack w scope n _ _ (S2 n) (fun H => section_of_desc w n scope (proj2 H)) SN2)
            | exact (agg_pack w scope n _ _ (S3 n) (fun H => section_of_desc w n scope (proj2 H)) SN3) ].
Qed.

(* the summary theorem (the hypothesis `has w scope = true` is not needed: an unknown scope has no aggregates) *)
Theorem aggregate_exact : forall w known scope, reachable_k w known -> has w scope = true -> forall a n,
  (In n (aggregate w scope a) -> strict_desc w scope n) /\
  (In n (aggregate w scope a) <-> aggregate_spec w scope a n) /\
  NoDup (aggregate w scope a).
Proof.
  intros w known scope R _. exact (aggregate_exact_forest w known scope (WorldInv.reach_forest w known R)).
Qed.

Print Assumptions forest_section_aggregates.
Print Assumptions forest_module_aggregates.
Print Assumptions forest_ir_aggregates.
Print Assumptions reach_section_aggregates.
Print Assumptions reach_module_aggregates.
Print Assumptions reach_ir_aggregates.
Print Assumptions aggregate_exact_forest.
Print Assumptions aggregate_exact.
