(* Task DQ, generic part: facts about the stable insertion sort `sort`, `all2`, the set comparisons of
   Model/DeepEq.v, canonical sorted representatives, sub-sequences and `find`. *)
From Coq Require Import ZArith List Bool Lia Permutation Sorting.
From V Require Import Result Proto DeepEq.
Import ListNotations.
Open Scope Z_scope.

(* ------------------------------------------------------------------ *)
(* sort                                                                 *)
(* ------------------------------------------------------------------ *)

Lemma insert_perm {X} (leb : X -> X -> bool) : forall x l, Permutation (insert leb x l) (x :: l).
Proof.
  intros x l; induction l as [|y l IH]; cbn [insert].
  - apply Permutation_refl.
  - destruct (leb y x).
    + eapply perm_trans; [apply perm_skip, IH | apply perm_swap].
    + apply Permutation_refl.
Qed.

Lemma sort_acc_perm {X} (leb : X -> X -> bool) :
  forall l acc, Permutation (fold_left (fun acc x => insert leb x acc) l acc) (l ++ acc).
Proof.
  induction l as [|x l IH]; intros acc; cbn [fold_left app].
  - apply Permutation_refl.
  - eapply perm_trans; [apply IH|].
    eapply perm_trans; [apply Permutation_app_head, insert_perm|].
    apply Permutation_sym, Permutation_middle.
Qed.

Lemma sort_perm {X} (leb : X -> X -> bool) l : Permutation (sort leb l) l.
Proof.
  unfold sort. pose proof (sort_acc_perm leb l []) as H. rewrite app_nil_r in H. exact H.
Qed.

Lemma sort_In {X} (leb : X -> X -> bool) l x : In x (sort leb l) <-> In x l.
Proof.
  split; intros H.
  - eapply Permutation_in; [apply sort_perm | exact H].
  - eapply Permutation_in; [apply Permutation_sym, sort_perm | exact H].
Qed.

Lemma sort_nil {X} (leb : X -> X -> bool) : sort leb [] = [].
Proof. reflexivity. Qed.

Lemma insert_map {X Y} (lx : X -> X -> bool) (ly : Y -> Y -> bool) (f : X -> Y) :
  (forall a b, ly (f a) (f b) = lx a b) ->
  forall x l, insert ly (f x) (map f l) = map f (insert lx x l).
Proof.
  intros Hf x l; induction l as [|y l IH]; cbn [insert map].
  - reflexivity.
  - rewrite Hf. destruct (lx y x).
    + cbn [map]. rewrite IH. reflexivity.
    + reflexivity.
Qed.

Lemma sort_map {X Y} (lx : X -> X -> bool) (ly : Y -> Y -> bool) (f : X -> Y) :
  (forall a b, ly (f a) (f b) = lx a b) ->
  forall l, sort ly (map f l) = map f (sort lx l).
Proof.
  intros Hf l. unfold sort.
  change (@nil Y) with (map f []). generalize (@nil X) as acc.
  induction l as [|x l IH]; intros acc; cbn [fold_left map].
  - reflexivity.
  - rewrite (insert_map lx ly f Hf). apply IH.
Qed.

Definition lebP {X} (leb : X -> X -> bool) (a b : X) : Prop := leb a b = true.

Lemma insert_sorted {X} (leb : X -> X -> bool) :
  (forall a b, leb a b = true \/ leb b a = true) ->
  (forall a b c, leb a b = true -> leb b c = true -> leb a c = true) ->
  forall x l, StronglySorted (lebP leb) l -> StronglySorted (lebP leb) (insert leb x l).
Proof.
  intros Htot Htr x l; induction l as [|y l IH]; intros HS; cbn [insert].
  - constructor; constructor.
  - inversion HS as [|y' l' HS' HF]; subst y' l'.
    destruct (leb y x) eqn:E.
    + constructor; [apply IH, HS'|].
      rewrite Forall_forall; intros z Hz.
      apply (Permutation_in _ (insert_perm leb x l)) in Hz.
      destruct Hz as [Hz|Hz]; [subst z; exact E|].
      rewrite Forall_forall in HF. apply HF, Hz.
    + assert (Hxy : leb x y = true) by (destruct (Htot x y) as [H|H]; [exact H | congruence]).
      constructor; [exact HS|].
      constructor; [exact Hxy|].
      rewrite Forall_forall in *; intros z Hz. eapply Htr; [exact Hxy | apply HF, Hz].
Qed.

Lemma sort_sorted {X} (leb : X -> X -> bool) :
  (forall a b, leb a b = true \/ leb b a = true) ->
  (forall a b c, leb a b = true -> leb b c = true -> leb a c = true) ->
  forall l, StronglySorted (lebP leb) (sort leb l).
Proof.
  intros Htot Htr l. unfold sort.
  assert (H : StronglySorted (lebP leb) (@nil X)) by constructor.
  revert H. generalize (@nil X) as acc.
  induction l as [|x l IH]; intros acc H; cbn [fold_left].
  - exact H.
  - apply IH, insert_sorted; assumption.
Qed.

(* two duplicate-free lists sorted by an antisymmetric relation with the same elements are equal *)
Lemma sorted_unique {X} (R : X -> X -> Prop) :
  (forall a b, R a b -> R b a -> a = b) ->
  forall l1 l2, StronglySorted R l1 -> StronglySorted R l2 -> NoDup l1 -> NoDup l2 ->
    (forall x, In x l1 <-> In x l2) -> l1 = l2.
Proof.
  intros Hanti; induction l1 as [|x l1 IH]; intros [|y l2] S1 S2 N1 N2 HI.
  - reflexivity.
  - destruct (proj2 (HI y) (or_introl eq_refl)).
  - destruct (proj1 (HI x) (or_introl eq_refl)).
  - inversion S1 as [|x' l1' S1' F1]; subst x' l1'.
    inversion S2 as [|y' l2' S2' F2]; subst y' l2'.
    inversion N1 as [|x' l1' NI1 N1']; subst x' l1'.
    inversion N2 as [|y' l2' NI2 N2']; subst y' l2'.
    rewrite Forall_forall in F1, F2.
    assert (Exy : x = y).
    { destruct (proj1 (HI x) (or_introl eq_refl)) as [E|Hin]; [auto|].
      destruct (proj2 (HI y) (or_introl eq_refl)) as [E|Hin2]; [auto|].
      apply Hanti; [apply F1, Hin2 | apply F2, Hin]. }
    subst y. f_equal. apply IH; auto.
    intros z; split; intros Hz.
    + destruct (proj1 (HI z) (or_intror Hz)) as [E|H]; [subst z; contradiction | exact H].
    + destruct (proj2 (HI z) (or_intror Hz)) as [E|H]; [subst z; contradiction | exact H].
Qed.

(* ------------------------------------------------------------------ *)
(* all2                                                                 *)
(* ------------------------------------------------------------------ *)

Lemma all2_fwd {X Y} (f : X -> X -> bool) (g : X -> Y) :
  forall l1 l2, (forall x y, In x l1 -> In y l2 -> f x y = true -> g x = g y) ->
    all2 f l1 l2 = true -> map g l1 = map g l2.
Proof.
  induction l1 as [|x l1 IH]; intros [|y l2] Hp H; cbn [all2 map] in *; try discriminate.
  - reflexivity.
  - apply andb_true_iff in H as [H1 H2]. f_equal.
    + apply Hp; [left; reflexivity | left; reflexivity | exact H1].
    + apply IH; [|exact H2]. intros a b Ha Hb. apply Hp; right; assumption.
Qed.

Lemma all2_bwd {X Y} (f : X -> X -> bool) (g : X -> Y) :
  forall l1 l2, (forall x y, In x l1 -> In y l2 -> g x = g y -> f x y = true) ->
    map g l1 = map g l2 -> all2 f l1 l2 = true.
Proof.
  induction l1 as [|x l1 IH]; intros [|y l2] Hp H; cbn [all2 map] in *; try discriminate.
  - reflexivity.
  - injection H as H1 H2. apply andb_true_iff; split.
    + apply Hp; [left; reflexivity | left; reflexivity | exact H1].
    + apply IH; [|exact H2]. intros a b Ha Hb. apply Hp; right; assumption.
Qed.

Lemma all2_fwd_id {X} (f : X -> X -> bool) l1 l2 :
  (forall x y, In x l1 -> In y l2 -> f x y = true -> x = y) -> all2 f l1 l2 = true -> l1 = l2.
Proof.
  intros Hp H. rewrite <- (map_id l1), <- (map_id l2). apply (all2_fwd f (fun x => x)); assumption.
Qed.

Lemma all2_bwd_id {X} (f : X -> X -> bool) l1 l2 :
  (forall x y, In x l1 -> In y l2 -> x = y -> f x y = true) -> l1 = l2 -> all2 f l1 l2 = true.
Proof.
  intros Hp H. apply (all2_bwd f (fun x => x)); [assumption|]. rewrite !map_id. exact H.
Qed.

(* ------------------------------------------------------------------ *)
(* small boolean equalities                                             *)
(* ------------------------------------------------------------------ *)

Lemma zs_eqb_eq : forall a b, DeepEq.zs_eqb a b = true <-> a = b.
Proof.
  induction a as [|x a IH]; intros [|y b]; cbn [DeepEq.zs_eqb]; split; intros H; try discriminate; try reflexivity.
  - apply andb_true_iff in H as [H1 H2]. apply Z.eqb_eq in H1. apply IH in H2. subst. reflexivity.
  - injection H as H1 H2. subst. rewrite Z.eqb_refl. cbn [andb]. apply IH. reflexivity.
Qed.

Lemma oz_eqb_eq : forall a b, oz_eqb a b = true <-> a = b.
Proof.
  intros [x|] [y|]; cbn [oz_eqb]; split; intros H; try discriminate; try reflexivity.
  - apply Z.eqb_eq in H. subst. reflexivity.
  - injection H as H. subst. apply Z.eqb_refl.
Qed.

Lemma bool_eqb_eq : forall a b, Bool.eqb a b = true <-> a = b.
Proof. intros a b. apply eqb_true_iff. Qed.

Lemma olabel_eqb_eq : forall a b, olabel_eqb a b = true <-> a = b.
Proof.
  intros [[[t1 c1] d1]|] [[[t2 c2] d2]|]; cbn [olabel_eqb]; split; intros H; try discriminate; try reflexivity.
  - apply andb_true_iff in H as [H H3]. apply andb_true_iff in H as [H1 H2].
    apply Z.eqb_eq in H1. apply eqb_prop in H2. apply eqb_prop in H3. subst. reflexivity.
  - injection H as H1 H2 H3. subst. rewrite Z.eqb_refl, !eqb_reflx. reflexivity.
Qed.

Lemma all2_zeqb_eq : forall l1 l2, all2 Z.eqb l1 l2 = true <-> l1 = l2.
Proof.
  intros l1 l2; split.
  - apply all2_fwd_id. intros x y _ _ H. apply Z.eqb_eq, H.
  - apply all2_bwd_id. intros x y _ _ H. apply Z.eqb_eq, H.
Qed.

(* ------------------------------------------------------------------ *)
(* set comparisons                                                      *)
(* ------------------------------------------------------------------ *)

Lemma gen_set_eqb_iff {X} (eqb : X -> X -> bool) :
  (forall a b, eqb a b = true <-> a = b) ->
  forall l1 l2,
    forallb (fun x => existsb (eqb x) l2) l1 && forallb (fun x => existsb (eqb x) l1) l2 = true
    <-> (forall x, In x l1 <-> In x l2).
Proof.
  intros Heq l1 l2. rewrite andb_true_iff, !forallb_forall. split.
  - intros [H1 H2] x; split; intros Hx.
    + apply H1 in Hx. apply existsb_exists in Hx as [y [Hy E]]. apply Heq in E. subst y. exact Hy.
    + apply H2 in Hx. apply existsb_exists in Hx as [y [Hy E]]. apply Heq in E. subst y. exact Hy.
  - intros H; split; intros x Hx; apply existsb_exists; exists x; (split; [apply H, Hx | apply Heq; reflexivity]).
Qed.

Lemma set_eqb_iff l1 l2 : set_eqb l1 l2 = true <-> (forall x, In x l1 <-> In x l2).
Proof. unfold set_eqb. apply (gen_set_eqb_iff Z.eqb). intros a b. apply Z.eqb_eq. Qed.

Lemma keys_eqb_iff l1 l2 : keys_eqb l1 l2 = true <-> (forall x, In x l1 <-> In x l2).
Proof. unfold keys_eqb. apply (gen_set_eqb_iff DeepEq.zs_eqb). apply zs_eqb_eq. Qed.

(* --- Z.leb as an order --- *)
Lemma zleb_total : forall a b, (a <=? b) = true \/ (b <=? a) = true.
Proof. intros a b. rewrite !Z.leb_le. lia. Qed.
Lemma zleb_trans : forall a b c, (a <=? b) = true -> (b <=? c) = true -> (a <=? c) = true.
Proof. intros a b c. rewrite !Z.leb_le. lia. Qed.
Lemma zleb_anti : forall a b, lebP Z.leb a b -> lebP Z.leb b a -> a = b.
Proof. unfold lebP. intros a b. rewrite !Z.leb_le. lia. Qed.

Lemma dedup_sorted_cons2 x y l :
  dedup_sorted (x :: y :: l) = if x =? y then dedup_sorted (y :: l) else x :: dedup_sorted (y :: l).
Proof. reflexivity. Qed.

Lemma dedup_sorted_spec : forall l, StronglySorted (lebP Z.leb) l ->
  StronglySorted (lebP Z.leb) (dedup_sorted l) /\ NoDup (dedup_sorted l) /\ (forall x, In x (dedup_sorted l) <-> In x l).
Proof.
  induction l as [|x l IH]; intros HS.
  - cbn. split; [constructor | split; [constructor | tauto]].
  - destruct l as [|y l].
    + cbn [dedup_sorted]. split; [exact HS | split; [|tauto]]. constructor; [intros []|constructor].
    + inversion HS as [|x' l' HS' HF]; subst x' l'.
      destruct (IH HS') as [IS [IN II]]. clear IH.
      rewrite dedup_sorted_cons2. set (d := dedup_sorted (y :: l)) in *.
      rewrite Forall_forall in HF.
      destruct (Z.eqb_spec x y) as [E|NE].
      * subst y. split; [exact IS | split; [exact IN|]].
        intros z. rewrite II. cbn [In]. tauto.
      * split; [|split].
        -- constructor; [exact IS|]. rewrite Forall_forall. intros z Hz. apply HF, II, Hz.
        -- constructor; [|exact IN]. intros Hx. apply II in Hx.
           destruct Hx as [Hx|Hx]; [congruence|].
           inversion HS' as [|y' l' _ HF']; subst y' l'. rewrite Forall_forall in HF'.
           apply NE, zleb_anti; [apply HF; left; reflexivity | apply HF', Hx].
        -- intros z. cbn [In]. rewrite II. cbn [In]. tauto.
Qed.

Lemma norm_set_In l x : In x (norm_set l) <-> In x l.
Proof.
  unfold norm_set.
  destruct (dedup_sorted_spec (sort Z.leb l) (sort_sorted Z.leb zleb_total zleb_trans l)) as [_ [_ H]].
  rewrite H. apply sort_In.
Qed.

Lemma set_eqb_norm l1 l2 : set_eqb l1 l2 = true <-> norm_set l1 = norm_set l2.
Proof.
  rewrite set_eqb_iff. split; intros H.
  - unfold norm_set.
    destruct (dedup_sorted_spec (sort Z.leb l1) (sort_sorted Z.leb zleb_total zleb_trans l1)) as [S1 [N1 I1]].
    destruct (dedup_sorted_spec (sort Z.leb l2) (sort_sorted Z.leb zleb_total zleb_trans l2)) as [S2 [N2 I2]].
    apply (sorted_unique (lebP Z.leb) zleb_anti); auto.
    intros x. rewrite I1, I2, !sort_In. apply H.
  - intros x. rewrite <- (norm_set_In l1), <- (norm_set_In l2), H. tauto.
Qed.

(* --- zs_leb as an order --- *)
Lemma zs_leb_total : forall a b, zs_leb a b = true \/ zs_leb b a = true.
Proof.
  induction a as [|x a IH]; intros [|y b]; cbn [zs_leb]; auto.
  destruct (Z.ltb_spec x y) as [H1|H1]; auto.
  destruct (Z.ltb_spec y x) as [H2|H2]; auto.
Qed.

Lemma zs_leb_trans : forall a b c, zs_leb a b = true -> zs_leb b c = true -> zs_leb a c = true.
Proof.
  induction a as [|x a IH]; intros [|y b] [|z c]; cbn [zs_leb]; intros H1 H2; try discriminate; try reflexivity.
  destruct (Z.ltb_spec x y) as [Hxy|Hxy].
  - destruct (Z.ltb_spec y z) as [Hyz|Hyz].
    + destruct (Z.ltb_spec x z); [reflexivity|lia].
    + destruct (Z.ltb_spec z y) as [Hzy|Hzy]; [discriminate|].
      destruct (Z.ltb_spec x z); [reflexivity|lia].
  - destruct (Z.ltb_spec y x) as [Hyx|Hyx]; [discriminate|].
    destruct (Z.ltb_spec y z) as [Hyz|Hyz].
    + destruct (Z.ltb_spec x z); [reflexivity|lia].
    + destruct (Z.ltb_spec z y) as [Hzy|Hzy]; [discriminate|].
      destruct (Z.ltb_spec x z); [reflexivity|].
      destruct (Z.ltb_spec z x); [lia|].
      eapply IH; eassumption.
Qed.

Lemma zs_leb_anti : forall a b, lebP zs_leb a b -> lebP zs_leb b a -> a = b.
Proof.
  unfold lebP.
  induction a as [|x a IH]; intros [|y b]; cbn [zs_leb]; intros H1 H2; try discriminate; try reflexivity.
  destruct (Z.ltb_spec x y) as [Hxy|Hxy].
  - destruct (Z.ltb_spec y x); [lia|discriminate].
  - destruct (Z.ltb_spec y x) as [Hyx|Hyx]; [discriminate|].
    assert (x = y) by lia. subst y. f_equal. apply IH; assumption.
Qed.

Lemma keys_eqb_sort l1 l2 : NoDup l1 -> NoDup l2 ->
  (keys_eqb l1 l2 = true <-> sort zs_leb l1 = sort zs_leb l2).
Proof.
  intros N1 N2. rewrite keys_eqb_iff. split; intros H.
  - apply (sorted_unique (lebP zs_leb) zs_leb_anti).
    + apply sort_sorted; [apply zs_leb_total | apply zs_leb_trans].
    + apply sort_sorted; [apply zs_leb_total | apply zs_leb_trans].
    + eapply Permutation_NoDup; [apply Permutation_sym, sort_perm | exact N1].
    + eapply Permutation_NoDup; [apply Permutation_sym, sort_perm | exact N2].
    + intros x. rewrite !sort_In. apply H.
  - intros x. rewrite <- (sort_In zs_leb l1), <- (sort_In zs_leb l2), H. tauto.
Qed.

(* ------------------------------------------------------------------ *)
(* nodup as NoDup                                                       *)
(* ------------------------------------------------------------------ *)

Lemma nodup_z_NoDup : forall l, nodup_z l = true <-> NoDup l.
Proof.
  induction l as [|x l IH]; cbn [nodup_z].
  - split; [constructor | reflexivity].
  - rewrite andb_true_iff, negb_true_iff, IH. split.
    + intros [H1 H2]. constructor; [|exact H2]. intros Hin.
      assert (existsb (Z.eqb x) l = true) by (apply existsb_exists; exists x; split; [exact Hin | apply Z.eqb_refl]).
      congruence.
    + intros H. inversion H as [|x' l' H1 H2]; subst x' l'. split; [|exact H2].
      destruct (existsb (Z.eqb x) l) eqn:E; [|reflexivity].
      apply existsb_exists in E as [y [Hy E]]. apply Z.eqb_eq in E. subst y. contradiction.
Qed.

Fixpoint nodup_keys (l : list (list Z)) : bool :=
  match l with
  | [] => true
  | x :: l' => negb (existsb (DeepEq.zs_eqb x) l') && nodup_keys l'
  end.

Lemma nodup_keys_NoDup : forall l, nodup_keys l = true <-> NoDup l.
Proof.
  induction l as [|x l IH]; cbn [nodup_keys].
  - split; [constructor | reflexivity].
  - rewrite andb_true_iff, negb_true_iff, IH. split.
    + intros [H1 H2]. constructor; [|exact H2]. intros Hin.
      assert (existsb (DeepEq.zs_eqb x) l = true)
        by (apply existsb_exists; exists x; split; [exact Hin | apply zs_eqb_eq; reflexivity]).
      congruence.
    + intros H. inversion H as [|x' l' H1 H2]; subst x' l'. split; [|exact H2].
      destruct (existsb (DeepEq.zs_eqb x) l) eqn:E; [|reflexivity].
      apply existsb_exists in E as [y [Hy E]]. apply zs_eqb_eq in E. subst y. contradiction.
Qed.

(* ------------------------------------------------------------------ *)
(* sub-sequences                                                        *)
(* ------------------------------------------------------------------ *)

Inductive subseq {A} : list A -> list A -> Prop :=
| sub_nil : subseq [] []
| sub_skip x l1 l2 : subseq l1 l2 -> subseq l1 (x :: l2)
| sub_keep x l1 l2 : subseq l1 l2 -> subseq (x :: l1) (x :: l2).

Lemma subseq_refl {A} : forall l : list A, subseq l l.
Proof. induction l; constructor; assumption. Qed.

Lemma subseq_nil_l {A} : forall l : list A, subseq [] l.
Proof. induction l; constructor; assumption. Qed.

Lemma subseq_app {A} : forall (a a' b b' : list A), subseq a a' -> subseq b b' -> subseq (a ++ b) (a' ++ b').
Proof.
  intros a a' b b' H1 H2. induction H1 as [|x l1 l2 H IH|x l1 l2 H IH]; cbn [app].
  - exact H2.
  - apply sub_skip, IH.
  - apply sub_keep, IH.
Qed.

Lemma subseq_app_r {A} (a b b' : list A) : subseq a b' -> subseq a (b ++ b').
Proof. intros H. change a with ([] ++ a). apply subseq_app; [apply subseq_nil_l | exact H]. Qed.

Lemma subseq_app_l {A} (a b b' : list A) : subseq a b -> subseq a (b ++ b').
Proof. intros H. rewrite <- (app_nil_r a). apply subseq_app; [exact H | apply subseq_nil_l]. Qed.

Lemma subseq_flat_map {A B} (f g : A -> list B) :
  forall l, (forall x, In x l -> subseq (f x) (g x)) -> subseq (flat_map f l) (flat_map g l).
Proof.
  induction l as [|x l IH]; intros H; cbn [flat_map].
  - constructor.
  - apply subseq_app; [apply H; left; reflexivity | apply IH; intros y Hy; apply H; right; exact Hy].
Qed.

Lemma subseq_In {A} (l1 l2 : list A) : subseq l1 l2 -> forall x, In x l1 -> In x l2.
Proof.
  intros H; induction H as [|y l1 l2 H IH|y l1 l2 H IH]; intros x Hx.
  - exact Hx.
  - right. apply IH, Hx.
  - destruct Hx as [Hx|Hx]; [left; exact Hx | right; apply IH, Hx].
Qed.

Lemma subseq_NoDup {A} (l1 l2 : list A) : subseq l1 l2 -> NoDup l2 -> NoDup l1.
Proof.
  intros H; induction H as [|y l1 l2 H IH|y l1 l2 H IH]; intros N.
  - exact N.
  - inversion N as [|y' l' H1 H2]; subst y' l'. apply IH, H2.
  - inversion N as [|y' l' H1 H2]; subst y' l'. constructor; [|apply IH, H2].
    intros Hin. apply H1. eapply subseq_In; eassumption.
Qed.

Lemma map_flat_map' {A B C} (g : B -> C) (f : A -> list B) :
  forall l, map g (flat_map f l) = flat_map (fun x => map g (f x)) l.
Proof.
  induction l as [|x l IH]; cbn [flat_map map]; [reflexivity|]. rewrite map_app, IH. reflexivity.
Qed.

(* ------------------------------------------------------------------ *)
(* find with unique keys                                                *)
(* ------------------------------------------------------------------ *)

Lemma find_key_some {X} (key : X -> Z) (l : list X) u x :
  find (fun y => key y =? u) l = Some x -> In x l /\ key x = u.
Proof. intros H. apply find_some in H as [H1 H2]. apply Z.eqb_eq in H2. auto. Qed.

Lemma find_key_none {X} (key : X -> Z) (l : list X) u :
  find (fun y => key y =? u) l = None -> forall x, In x l -> key x <> u.
Proof. intros H x Hx E. pose proof (find_none _ _ H x Hx) as H1. cbn beta in H1. apply Z.eqb_neq in H1. auto. Qed.

Lemma find_key_exists {X} (key : X -> Z) (l : list X) x :
  In x l -> exists y, find (fun y => key y =? key x) l = Some y.
Proof.
  intros Hx. destruct (find (fun y => key y =? key x) l) as [y|] eqn:E; [exists y; reflexivity|].
  exfalso. eapply find_key_none; [exact E | exact Hx | reflexivity].
Qed.

Lemma NoDup_key_inj {X} (key : X -> Z) (l : list X) a b :
  NoDup (map key l) -> In a l -> In b l -> key a = key b -> a = b.
Proof.
  induction l as [|x xs IH]; intros Hnd Ha Hb Hf.
  - destruct Ha.
  - cbn [map] in Hnd. inversion Hnd as [|y ys Hnotin Hnd']. subst y ys.
    destruct Ha as [Ha|Ha]; destruct Hb as [Hb|Hb].
    + congruence.
    + subst x. exfalso. apply Hnotin. rewrite Hf. apply in_map. exact Hb.
    + subst x. exfalso. apply Hnotin. rewrite <- Hf. apply in_map. exact Ha.
    + apply IH; assumption.
Qed.

Lemma find_key_unique {X} (key : X -> Z) (l : list X) x :
  NoDup (map key l) -> In x l -> find (fun y => key y =? key x) l = Some x.
Proof.
  intros N Hx. destruct (find_key_exists key l x Hx) as [y Hy]. rewrite Hy. f_equal.
  apply find_key_some in Hy as [Hy1 Hy2]. eapply NoDup_key_inj; eassumption.
Qed.

(* ------------------------------------------------------------------ *)
(* sorted(key=uuid) is canonical on lists with pairwise distinct keys   *)
(* ------------------------------------------------------------------ *)

Lemma same_keys_eq {X} (key : X -> Z) : forall l l',
  (forall x y, In x l -> In y l' -> key x = key y -> x = y) -> map key l = map key l' -> l = l'.
Proof.
  induction l as [|x l IH]; intros [|y l'] Hinj H; cbn [map] in H; try discriminate.
  - reflexivity.
  - injection H as H1 H2. f_equal.
    + apply Hinj; [left; reflexivity | left; reflexivity | exact H1].
    + apply IH; [|exact H2]. intros a b Ha Hb. apply Hinj; right; assumption.
Qed.

Lemma sort_key_map {X} (key : X -> Z) l : map key (sort (by_key key) l) = sort Z.leb (map key l).
Proof. symmetry. apply sort_map. intros a b. reflexivity. Qed.

Lemma sort_by_key_sorted {X} (key : X -> Z) l : StronglySorted (lebP Z.leb) (map key (sort (by_key key) l)).
Proof. rewrite sort_key_map. apply sort_sorted; [apply zleb_total | apply zleb_trans]. Qed.

Lemma sort_by_key_canonical {X} (key : X -> Z) l1 l2 :
  NoDup (map key l1) -> Permutation l1 l2 -> sort (by_key key) l1 = sort (by_key key) l2.
Proof.
  intros N P. apply (same_keys_eq key).
  - intros x y Hx Hy E. apply sort_In in Hx. apply sort_In in Hy.
    apply (Permutation_in _ (Permutation_sym P)) in Hy. eapply NoDup_key_inj; eassumption.
  - rewrite !sort_key_map.
    assert (P' : Permutation (map key l1) (map key l2)) by (apply Permutation_map, P).
    apply (sorted_unique (lebP Z.leb) zleb_anti).
    + apply sort_sorted; [apply zleb_total | apply zleb_trans].
    + apply sort_sorted; [apply zleb_total | apply zleb_trans].
    + eapply Permutation_NoDup; [apply Permutation_sym, sort_perm | exact N].
    + eapply Permutation_NoDup; [apply Permutation_sym, sort_perm|].
      eapply Permutation_NoDup; [exact P' | exact N].
    + intros x. rewrite !sort_In. split; apply Permutation_in; [exact P' | apply Permutation_sym, P'].
Qed.
