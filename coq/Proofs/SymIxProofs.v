(* Task SYM: the symbol lookups by name and by referent track every change. *)
From Coq Require Import ZArith List Bool Lia.
From V Require Import Result LazyTree World WorldGuard ForestDefs InvDefs SymIxBase.
Import ListNotations.
Open Scope Z_scope.

(* ---------- owning sets ---------- *)

Lemma kv_discard_tail : forall w2 p c (o : option id),
  kv (fst (let '(w3, ok) := match o with Some ir => cache_remove w2 ir c | None => (w2, true) end in
           (drop_kid w3 p c, ok))) (drop_kid w2 p c).
Proof. intros w2 p c o. destruct o; repeat split. Qed.

Lemma set_discard_good : forall w p c, Good w (fst (set_discard w p c)).
Proof.
  intros w p c. unfold set_discard. destruct (negb (mem c (kids w p))); [apply good_refl|].
  destruct (kindof w p) eqn:Ek; try apply good_refl.
  - (* module *)
    eapply good_kv; [apply kv_discard_tail|].
    eapply good_trans; [apply (good_set_par w c None)|].
    apply good_discard. rewrite (good_kind _ _ p (good_set_par w c None)). exact Ek.
  - (* section *)
    eapply good_kv; [apply kv_discard_tail|].
    eapply good_trans; [apply good_of_kv; apply (kv_tree_disc_ev w p (addr_iv w c))|].
    eapply good_trans; [apply good_set_par|].
    unfold drop_kid. apply good_set_kids_nonmod.
    rewrite (good_kind _ _ p (good_set_par _ c None)).
    rewrite (good_kind _ _ p (good_of_kv _ _ (kv_tree_disc_ev w p (addr_iv w c)))). congruence.
  - (* byte interval *)
    eapply good_kv; [apply kv_discard_tail|].
    eapply good_trans; [apply good_of_kv; apply (kv_tree_disc_ev w p (off_iv w c))|].
    eapply good_trans; [apply good_set_par|].
    unfold drop_kid. apply good_set_kids_nonmod.
    rewrite (good_kind _ _ p (good_set_par _ c None)).
    rewrite (good_kind _ _ p (good_of_kv _ _ (kv_tree_disc_ev w p (off_iv w c)))). congruence.
Qed.

Lemma discard_old_good : forall w c,
  Good w (fst (match par w c with Some old => set_discard w old c | None => (w, true) end)).
Proof. intros w c. destruct (par w c); [apply set_discard_good|apply good_refl]. Qed.

Lemma kv_add_tail : forall w2 p c (o : option id),
  kv (push_kid (match o with Some ir => cache_add w2 ir c | None => w2 end) p c) (push_kid w2 p c).
Proof. intros w2 p c o. destruct o; repeat split. Qed.

Lemma set_add1_good : forall w p c, Good w (fst (set_add1 w p c)).
Proof.
  intros w p c. unfold set_add1. destruct (kindof w p) eqn:Ek; try apply good_refl.
  - pose proof (discard_old_good w c) as H0.
    destruct (match par w c with Some old => set_discard w old c | None => (w, true) end) as [w0' ok0].
    cbn [fst] in *. eapply good_trans; [exact H0|].
    eapply good_kv; [apply kv_add_tail|].
    eapply good_trans; [apply (good_set_par w0' c (Some p))|].
    apply good_add. rewrite (good_kind _ _ p (good_set_par w0' c (Some p))).
    rewrite (good_kind _ _ p H0). exact Ek.
  - pose proof (discard_old_good w c) as H0.
    destruct (match par w c with Some old => set_discard w old c | None => (w, true) end) as [w0' ok0].
    cbn [fst] in *. eapply good_trans; [exact H0|].
    eapply good_kv; [apply kv_add_tail|].
    eapply good_trans; [apply good_of_kv; apply (kv_tree_add_ev w0' p (addr_iv w0' c))|].
    eapply good_trans; [apply good_set_par|].
    unfold push_kid. apply good_set_kids_nonmod.
    rewrite (good_kind _ _ p (good_set_par _ c (Some p))).
    rewrite (good_kind _ _ p (good_of_kv _ _ (kv_tree_add_ev w0' p (addr_iv w0' c)))).
    rewrite (good_kind _ _ p H0). congruence.
Qed.

Lemma blocks_update_good : forall w bi items, kindof w bi <> KMod -> Good w (fst (blocks_update w bi items)).
Proof.
  intros w bi items Hk. unfold blocks_update.
  set (new_items := filter (fun v => negb (mem v (kids w bi))) (dedup items)).
  set (node_ir := ir_of w bi).
  match goal with |- context [fold_left ?f new_items (w, true)] => set (F := f) end.
  assert (H1 : Good w (fst (fold_left F new_items (w, true)))).
  { apply (fold_left_inv (fun st : world * bool => Good w (fst st))).
    - apply good_refl.
    - intros [w' ok] v _ Hw'. cbn [fst] in Hw'. unfold F.
      pose proof (discard_old_good w' v) as H0.
      destruct (match par w' v with Some old => set_discard w' old v | None => (w', true) end) as [wa oka].
      cbn [fst] in *. eapply good_trans; [exact Hw'|]. eapply good_trans; [exact H0|].
      eapply good_trans; [apply (good_set_par wa v (Some bi))|].
      apply good_of_kv. destruct node_ir; repeat split. }
  destruct (fold_left F new_items (w, true)) as [w1 ok]. cbn [fst] in *.
  apply (fold_left_inv (fun w' : world => Good w w')).
  - apply (fold_left_inv (fun w' : world => Good w w')).
    + exact H1.
    + intros w' v _ Hw'. eapply good_trans; [exact Hw'|]. apply good_of_kv. apply kv_tree_add_ev.
  - intros w' v _ Hw'. eapply good_trans; [exact Hw'|]. unfold push_kid. apply good_set_kids_nonmod.
    rewrite (good_kind _ _ bi Hw'). exact Hk.
Qed.

Lemma set_add_good : forall w p c, Good w (fst (set_add w p c)).
Proof.
  intros w p c. unfold set_add. destruct (kindof w p) eqn:Ek; try apply set_add1_good.
  apply blocks_update_good. congruence.
Qed.

Lemma fold_ok_good' : forall (f : world -> id -> world * bool) l w,
  (forall w' v, In v l -> Good w w' -> Good w' (fst (f w' v))) ->
  Good w (fst (fold_ok f l w)).
Proof.
  intros f l w Hf. unfold fold_ok.
  apply (fold_left_inv (fun st : world * bool => Good w (fst st))).
  - apply good_refl.
  - intros [w' ok] v Hv Hw'. cbn [fst] in Hw'. pose proof (Hf w' v Hv Hw') as H.
    destruct (f w' v) as [w'' ok']. cbn [fst] in *. eapply good_trans; eassumption.
Qed.

Lemma fold_ok_good : forall (f : world -> id -> world * bool) l w,
  (forall w' v, Good w' (fst (f w' v))) -> Good w (fst (fold_ok f l w)).
Proof. intros f l w Hf. apply fold_ok_good'. intros w' v _ _. apply Hf. Qed.

Lemma do_set_good : forall w p fk m args w', do_set w p fk m args = Ok w' -> Good w w'.
Proof.
  intros w p fk m args w' H. unfold do_set in H.
  set (arg1 := match args with a :: _ => a | [] => [] end) in H.
  destruct m.
  - destruct arg1 as [|c [|c' l]]; try discriminate. apply flagged_ok in H. subst w'. apply set_add_good.
  - destruct arg1 as [|c [|c' l]]; try discriminate. apply flagged_ok in H. subst w'. apply set_discard_good.
  - destruct arg1 as [|c [|c' l]]; try discriminate.
    destruct (mem c (field w p fk)); [|discriminate]. apply flagged_ok in H. subst w'. apply set_discard_good.
  - destruct (field w p fk) as [|f0 fl] eqn:Ef; [discriminate|].
    destruct arg1 as [|c [|c' l]]; try discriminate.
    destruct (mem c (f0 :: fl)); [|discriminate]. apply flagged_ok in H. subst w'. apply set_discard_good.
  - apply flagged_ok in H. subst w'. apply fold_ok_good. intros; apply set_discard_good.
  - destruct (kindof w p) eqn:Ek; apply flagged_ok in H; subst w';
      try (apply fold_ok_good; intros; apply set_add_good).
    apply blocks_update_good. congruence.
  - apply flagged_ok in H. subst w'. apply fold_ok_good. intros; apply set_add_good.
  - apply flagged_ok in H. subst w'. apply fold_ok_good. intros; apply set_discard_good.
  - apply flagged_ok in H. subst w'. apply fold_ok_good. intros; apply set_discard_good.
  - pose proof (fold_ok_good (fun w c => set_discard w p c)
                  (filter (fun c => mem c (field w p fk)) (dedup arg1)) w
                  (fun w1 v => set_discard_good w1 p v)) as G1.
    destruct (fold_ok (fun w c => set_discard w p c) (filter (fun c => mem c (field w p fk)) (dedup arg1)) w)
      as [w1 ok1].
    cbn [fst] in G1.
    pose proof (fold_ok_good (fun w c => set_add w p c)
                  (filter (fun c => negb (mem c (field w p fk))) (dedup arg1)) w1
                  (fun w2 v => set_add_good w2 p v)) as G2.
    destruct (fold_ok (fun w c => set_add w p c) (filter (fun c => negb (mem c (field w p fk))) (dedup arg1)) w1)
      as [w2 ok2].
    cbn [fst] in G2. apply flagged_ok in H. cbn [fst] in H. subst w'.
    eapply good_trans; eassumption.
Qed.

(* ---------- the IR's module list ---------- *)

Lemma ml_remove_hook_good : forall w ir v, Good w (fst (ml_remove_hook w ir v)).
Proof.
  intros w ir v. unfold ml_remove_hook. eapply good_kv; [apply kv_cache_remove|]. apply good_set_par.
Qed.

Lemma In_remove_at : forall {X} (l : list X) i v y, nth_error l i = Some v ->
  (In y (remove_at i l) -> In y l) /\ (In y l -> y <> v -> In y (remove_at i l)).
Proof.
  intros X l. induction l as [|a l IH]; intros i v y H.
  - destruct i; discriminate.
  - destruct i as [|i]; cbn [nth_error remove_at] in *.
    + injection H as H. subst a. split; [intros A; right; exact A|].
      intros [A|A] B; [congruence|exact A].
    + destruct (IH i v y H) as [I1 I2]. cbn [In]. split.
      * intros [A|A]; [left; exact A|right; auto].
      * intros [A|A] B; [left; exact A|right; auto].
Qed.

Lemma index_of_nth : forall x l i, index_of x l = Some i -> nth_error l i = Some x.
Proof.
  intros x l. induction l as [|a l IH]; intros i H; cbn [index_of] in H; [discriminate|].
  destruct (Z.eqb_spec a x) as [E|E].
  - injection H as H. subst. reflexivity.
  - destruct (index_of x l) as [j|]; [|discriminate]. cbn [option_map] in H. injection H as H. subst i.
    cbn [nth_error]. apply IH. reflexivity.
Qed.

Lemma ml_del_at_good : forall w ir i,
  (forall v, nth_error (kids w ir) i = Some v -> kindof w ir <> KMod \/ kindof w v <> KSym) ->
  Good w (fst (ml_del_at w ir i)).
Proof.
  intros w ir i H. unfold ml_del_at. destruct (nth_error (kids w ir) i) as [v|] eqn:En; [|apply good_refl].
  pose proof (ml_remove_hook_good w ir v) as H1.
  assert (Hk : kids (fst (ml_remove_hook w ir v)) = kids w) by reflexivity.
  destruct (ml_remove_hook w ir v) as [w1 ok]. cbn [fst] in *.
  eapply good_trans; [exact H1|]. apply good_set_kids. intros Hm y Hy.
  rewrite (good_kind _ _ ir H1) in Hm. rewrite (good_kind _ _ y H1) in Hy. rewrite Hk.
  destruct (In_remove_at (kids w ir) i v y En) as [I1 I2]. split; [exact I1|].
  intros A. apply I2; [exact A|]. intros ->. destruct (H v eq_refl) as [B|B]; contradiction.
Qed.

Lemma ml_remove_good : forall w ir v r, ml_remove w ir v = Ok r ->
  kindof w ir <> KMod \/ kindof w v <> KSym -> Good w (fst r).
Proof.
  intros w ir v r H Hk. unfold ml_remove in H. destruct (index_of v (kids w ir)) as [i|] eqn:Ei; [|discriminate].
  injection H as H. subst r. apply ml_del_at_good. intros v' Hv'.
  rewrite (index_of_nth v _ i Ei) in Hv'. injection Hv' as Hv'. subst v'. exact Hk.
Qed.

Lemma ml_add_hook_good : forall w ir v, kindof w v <> KSym -> Good w (fst (ml_add_hook w ir v)).
Proof.
  intros w ir v Hv. unfold ml_add_hook.
  assert (H1 : Good w (fst (match par w v with
                            | Some old => match ml_remove w old v with Ok r => r | Err _ => (w, false) end
                            | None => (w, true) end))).
  { destruct (par w v) as [old|]; [|apply good_refl].
    destruct (ml_remove w old v) as [r|e] eqn:Er; [|apply good_refl].
    eapply ml_remove_good; [exact Er|]. right. exact Hv. }
  destruct (match par w v with
            | Some old => match ml_remove w old v with Ok r => r | Err _ => (w, false) end
            | None => (w, true) end) as [w1 ok]. cbn [fst] in *.
  eapply good_trans; [exact H1|]. eapply good_kv; [apply kv_cache_add|]. apply good_set_par.
Qed.

Lemma In_insert_at : forall {X} n (x : X) l y, In y (insert_at n x l) <-> y = x \/ In y l.
Proof.
  intros X n x. induction n as [|n IH]; intros l y.
  - destruct l; cbn [insert_at In]; split; intros [A|A]; auto.
  - destruct l as [|a l]; cbn [insert_at In].
    + split; [intros [A|[]]; auto|intros [A|[]]; auto].
    + rewrite IH. cbn [In]. tauto.
Qed.

(* the module list of any node keeps its members other than v through the ownership hook of v *)
Lemma ml_add_hook_kids_In : forall w ir v p y, y <> v ->
  (In y (kids (fst (ml_add_hook w ir v)) p) <-> In y (kids w p)).
Proof.
  intros w ir v p y Hy. unfold ml_add_hook.
  assert (H1 : In y (kids (fst (match par w v with
                         | Some old => match ml_remove w old v with Ok r => r | Err _ => (w, false) end
                         | None => (w, true) end)) p) <-> In y (kids w p)).
  { destruct (par w v) as [old|]; [|tauto].
    unfold ml_remove. destruct (index_of v (kids w old)) as [i|] eqn:Ei; [|tauto].
    pose proof (index_of_nth v _ i Ei) as En. unfold ml_del_at. rewrite En.
    unfold ml_remove_hook, cache_remove. cbn [fst set_kids kids set_cache].
    change (kids (set_par w v None)) with (kids w).
    destruct (Z.eq_dec p old) as [->|Hne].
    - rewrite upd_same. destruct (In_remove_at (kids w old) i v y En) as [I1 I2]. split; [exact I1|].
      intros A. apply I2; assumption.
    - rewrite upd_other by exact Hne. tauto. }
  destruct (match par w v with
            | Some old => match ml_remove w old v with Ok r => r | Err _ => (w, false) end
            | None => (w, true) end) as [w1 ok]. cbn [fst] in *. exact H1.
Qed.

Lemma In_assign_slice_one : forall l k v y, In y (assign_slice l k k [v]) <-> y = v \/ In y l.
Proof.
  intros l k v y. unfold assign_slice. change (dedup [v]) with [v]. rewrite !in_app_iff, !filter_In. cbn [In].
  rewrite <- (firstn_skipn k l) at 3. rewrite in_app_iff.
  assert (E : forall x, negb (mem x [v]) = true <-> x <> v).
  { intros x. unfold mem. cbn [existsb]. rewrite orb_false_r. destruct (Z.eqb_spec x v); cbn [negb]; split; congruence. }
  rewrite !E. destruct (Z.eq_dec y v) as [->|Hne]; [tauto|].
  assert (Hne' : v <> y) by congruence. tauto.
Qed.

Lemma fold_ok_nil : forall (f : world -> id -> world * bool) w, fold_ok f [] w = (w, true).
Proof. reflexivity. Qed.

Lemma filter_none : forall {X} (f : X -> bool) l, (forall x, In x l -> f x = false) -> filter f l = [].
Proof.
  intros X f l. induction l as [|a l IH]; intros H; [reflexivity|]. cbn [filter].
  rewrite (H a (or_introl eq_refl)). apply IH. intros x Hx. apply H. right. exact Hx.
Qed.

(* insert is the slice assignment l[k:k] = [v]: nobody leaves, v enters unless it is a member already *)
Lemma ml_insert_good : forall w ir i v, kindof w v <> KSym -> Good w (fst (ml_insert w ir i v)).
Proof.
  intros w ir i v Hv. unfold ml_insert. cbv zeta.
  set (k := clamp_insert i (length (kids w ir))). unfold ml_assign. cbv zeta.
  rewrite (filter_none (fun x => negb (mem x (assign_slice (kids w ir) k k [v]))) (kids w ir)).
  2:{ intros x Hx. apply negb_false_iff. apply mem_In. apply In_assign_slice_one. right. exact Hx. }
  rewrite fold_ok_nil.
  destruct (mem v (kids w ir)) eqn:Em.
  - rewrite (filter_none (fun x => negb (mem x (kids w ir))) (assign_slice (kids w ir) k k [v])).
    2:{ intros x Hx. apply negb_false_iff. apply mem_In. apply In_assign_slice_one in Hx.
        destruct Hx as [->|Hx]; [apply mem_In; exact Em|exact Hx]. }
    rewrite fold_ok_nil. cbn [fst]. apply good_set_kids. intros _ y Hy.
    rewrite In_assign_slice_one. split; [|tauto]. intros [->|A]; [contradiction|exact A].
  - pose proof (ml_add_hook_good w ir v Hv) as H1.
    pose proof (fun p y => ml_add_hook_kids_In w ir v p y) as Hk.
    assert (Hf : filter (fun x => negb (mem x (kids w ir))) (assign_slice (kids w ir) k k [v]) = [v]).
    { unfold assign_slice. change (dedup [v]) with [v]. rewrite !filter_app.
      rewrite (filter_none _ (filter _ (firstn k (kids w ir)))).
      2:{ intros x Hx. apply filter_In in Hx. destruct Hx as [Hx _]. apply negb_false_iff, mem_In.
          rewrite <- (firstn_skipn k (kids w ir)). apply in_or_app. left. exact Hx. }
      rewrite (filter_none _ (filter _ (skipn k (kids w ir)))).
      2:{ intros x Hx. apply filter_In in Hx. destruct Hx as [Hx _]. apply negb_false_iff, mem_In.
          rewrite <- (firstn_skipn k (kids w ir)). apply in_or_app. right. exact Hx. }
      cbn [filter app]. rewrite Em. reflexivity. }
    rewrite Hf. unfold fold_ok. cbn [fold_left].
    destruct (ml_add_hook w ir v) as [w1 ok]. cbn [fst andb] in *.
    eapply good_trans; [exact H1|]. apply good_set_kids. intros _ y Hy.
    rewrite (good_kind _ _ y H1) in Hy. rewrite In_assign_slice_one.
    assert (Hne : y <> v) by (intros ->; contradiction).
    rewrite (Hk ir y Hne). split; [|tauto]. intros [A|A]; [contradiction|exact A].
Qed.

Lemma ml_append_good : forall w ir v, kindof w v <> KSym -> Good w (fst (ml_append w ir v)).
Proof. intros. unfold ml_append. apply ml_insert_good. assumption. Qed.

(* ---------- parent setters ---------- *)

Lemma setparent_other_good : forall w c p w',
  (do w1 <- match par w c with Some old => flagged (set_discard w old c) | None => Ok w end;
   match p with Some q => flagged (set_add w1 q c) | None => Ok w1 end) = Ok w' -> Good w w'.
Proof.
  intros w c p w' H. apply bind_ok in H. destruct H as [w1 [H1 H2]].
  assert (G1 : Good w w1).
  { destruct (par w c) as [old|].
    - apply flagged_ok in H1. subst w1. apply set_discard_good.
    - injection H1 as H1. subst w1. apply good_refl. }
  eapply good_trans; [exact G1|]. destruct p as [q|].
  - apply flagged_ok in H2. subst w'. apply set_add_good.
  - injection H2 as H2. subst w'. apply good_refl.
Qed.

Lemma do_setparent_good : forall w c p w', do_setparent w c p = Ok w' -> Good w w'.
Proof.
  intros w c p w' H. unfold do_setparent in H.
  destruct (kindof w c) eqn:Ek; try (eapply setparent_other_good; exact H); [discriminate|].
  apply bind_ok in H. destruct H as [w1 [H1 H2]].
  assert (G1 : Good w w1).
  { destruct (par w c) as [old|].
    - apply bind_ok in H1. destruct H1 as [r [Hr Hf]]. apply flagged_ok in Hf. subst w1.
      eapply ml_remove_good; [exact Hr|]. right. congruence.
    - injection H1 as H1. subst w1. apply good_refl. }
  eapply good_trans; [exact G1|]. destruct p as [ir|].
  - apply flagged_ok in H2. subst w'. apply ml_append_good. rewrite (good_kind _ _ c G1). congruence.
  - injection H2 as H2. subst w'. apply good_refl.
Qed.

(* ---------- attribute setters that keep kind, name and payload ---------- *)

Definition keeps_sym (f : node -> node) : Prop :=
  forall x, nk (f x) = nk x /\ nname (f x) = nname x /\ npay (f x) = npay x.

Lemma bi_attr_good : forall w bi f, keeps_sym f -> Good w (bi_attr w bi f).
Proof.
  intros w bi f Hf. unfold bi_attr. destruct (par w bi) as [s|].
  - eapply good_kv; [apply kv_tree_add_ev|].
    eapply good_trans; [apply good_of_kv; apply (kv_tree_disc_ev w s (addr_iv w bi))|].
    destruct (Hf (getn (tree_disc_ev w s (addr_iv w bi)) bi)) as (A & B & C). apply good_setn; assumption.
  - destruct (Hf (getn w bi)) as (A & B & C). apply good_setn; assumption.
Qed.

Lemma block_attr_good : forall w b f, keeps_sym f -> Good w (block_attr w b f).
Proof.
  intros w b f Hf. unfold block_attr. destruct (par w b) as [bi|].
  - eapply good_kv; [apply kv_tree_add_ev|].
    eapply good_trans; [apply good_of_kv; apply (kv_tree_disc_ev w bi (off_iv w b))|].
    destruct (Hf (getn (tree_disc_ev w bi (off_iv w b)) b)) as (A & B & C). apply good_setn; assumption.
  - destruct (Hf (getn w b)) as (A & B & C). apply good_setn; assumption.
Qed.

(* ---------- every operation except ONew / OAttrName / OAttrPay is a Good transition ---------- *)

Lemma flagged_pair_ok : forall (w1 : world) ok w', flagged (w1, ok) = Ok w' -> w' = w1.
Proof. intros w1 ok w' H. apply flagged_ok in H. exact H. Qed.

Lemma kir_not_kmod : forall w ir, kindof w ir = KIR -> kindof w ir <> KMod.
Proof. intros w ir H. rewrite H. discriminate. Qed.

Lemma kmod_not_ksym : forall w v, kindof w v = KMod -> kindof w v <> KSym.
Proof. intros w v H. rewrite H. discriminate. Qed.

Lemma step_modextend_good : forall w ir vs w',
  forallb (fun v => is_k w v KMod) vs = true ->
  flagged (fold_ok (fun w v => ml_append w ir v) vs w) = Ok w' -> Good w w'.
Proof.
  intros w ir vs w' Hvs H. apply flagged_ok in H. subst w'. apply fold_ok_good'.
  intros w1 v Hv G. apply ml_append_good. rewrite (good_kind _ _ v G).
  apply kmod_not_ksym. apply is_k_kind. rewrite forallb_forall in Hvs. apply Hvs. exact Hv.
Qed.

Lemma step_moddelat_good : forall w ir i w', kindof w ir = KIR ->
  match norm_index i (length (kids w ir)) with
  | Some k => flagged (ml_del_at w ir k)
  | None => Err EIndex
  end = Ok w' -> Good w w'.
Proof.
  intros w ir i w' Hir H. destruct (norm_index i (length (kids w ir))) as [k|]; [|discriminate].
  apply flagged_ok in H. subst w'. apply ml_del_at_good. intros v _. left. apply kir_not_kmod. exact Hir.
Qed.

Lemma step_moddelslice_good : forall w ir a b w', kindof w ir = KIR ->
  step w (OModDelSlice ir a b) = Ok w' -> Good w w'.
Proof.
  intros w ir a b w' Hir H. unfold step in H. cbv zeta in H.
  match type of H with context [fold_ok ?f ?l w] =>
    pose proof (fold_ok_good f l w (fun w1 v => ml_remove_hook_good w1 ir v)) as G1;
    destruct (fold_ok f l w) as [w1 ok] end.
  cbn [fst] in G1. apply flagged_pair_ok in H. subst w'.
  eapply good_trans; [exact G1|]. apply good_set_kids_nonmod.
  rewrite (good_kind _ _ ir G1). apply kir_not_kmod. exact Hir.
Qed.

Lemma dedup_incl : forall x l, In x (dedup l) -> In x l.
Proof.
  intros x l. induction l as [|a l IH]; intros H; [exact H|].
  cbn [dedup] in H. destruct (mem a l).
  - right. apply IH. exact H.
  - destruct H as [H|H]; [left; exact H|right; apply IH; exact H].
Qed.

Lemma assign_slice_incl : forall l lo hi vs x, In x (assign_slice l lo hi vs) -> In x l \/ In x vs.
Proof.
  intros l lo hi vs x H. unfold assign_slice in H.
  apply in_app_or in H. destruct H as [H|H].
  - apply filter_In in H. destruct H as [H _]. left. rewrite <- (firstn_skipn lo l). apply in_or_app. left. exact H.
  - apply in_app_or in H. destruct H as [H|H].
    + right. apply dedup_incl. exact H.
    + apply filter_In in H. destruct H as [H _]. left. rewrite <- (firstn_skipn hi l). apply in_or_app. right. exact H.
Qed.

(* assignment: hooks for the leavers, hooks for the enterers, then the list is stored *)
Lemma ml_assign_good : forall w ir new, kindof w ir = KIR ->
  (forall v, In v new -> ~ In v (kids w ir) -> kindof w v = KMod) ->
  Good w (fst (ml_assign w ir new)).
Proof.
  intros w ir new Hir Hnew. unfold ml_assign. cbv zeta.
  match goal with |- context [fold_ok ?f ?l w] =>
    pose proof (fold_ok_good f l w (fun w1 v => ml_remove_hook_good w1 ir v)) as G1;
    destruct (fold_ok f l w) as [w1 ok1] end.
  cbn [fst] in G1.
  assert (G2 : Good w1 (fst (fold_ok (fun w v => ml_add_hook w ir v)
                               (filter (fun x => negb (mem x (kids w ir))) new) w1))).
  { apply fold_ok_good'. intros w2 v Hin G. apply ml_add_hook_good.
    rewrite (good_kind _ _ v G), (good_kind _ _ v G1). apply kmod_not_ksym.
    apply filter_In in Hin. destruct Hin as [Hin Hm]. apply Hnew; [exact Hin|].
    apply mem_false. destruct (mem v (kids w ir)); [discriminate|reflexivity]. }
  destruct (fold_ok (fun w v => ml_add_hook w ir v) (filter (fun x => negb (mem x (kids w ir))) new) w1) as [w2 ok2].
  cbn [fst] in *.
  eapply good_trans; [exact G1|]. eapply good_trans; [exact G2|]. apply good_set_kids_nonmod.
  rewrite (good_kind _ _ ir G2), (good_kind _ _ ir G1). apply kir_not_kmod. exact Hir.
Qed.

Lemma step_modsetitem_good : forall w ir i v w', kindof w ir = KIR -> kindof w v = KMod ->
  step w (OModSetItem ir i v) = Ok w' -> Good w w'.
Proof.
  intros w ir i v w' Hir Hv H. unfold step in H.
  destruct (norm_index i (length (kids w ir))) as [k|]; [|discriminate].
  apply flagged_ok in H. subst w'. apply ml_assign_good; [exact Hir|].
  intros x Hx Hnx. apply assign_slice_incl in Hx. destruct Hx as [Hx|Hx]; [contradiction|].
  destruct Hx as [Hx|[]]. subst x. exact Hv.
Qed.

Lemma step_modsetslice_good : forall w ir a b vs w', kindof w ir = KIR ->
  forallb (fun v => is_k w v KMod) vs = true ->
  step w (OModSetSlice ir a b vs) = Ok w' -> Good w w'.
Proof.
  intros w ir a b vs w' Hir Hvs H. unfold step in H. cbv zeta in H.
  apply flagged_ok in H. subst w'. apply ml_assign_good; [exact Hir|].
  intros x Hx Hnx. apply assign_slice_incl in Hx. destruct Hx as [Hx|Hx]; [contradiction|].
  apply is_k_kind. rewrite forallb_forall in Hvs. apply Hvs. exact Hx.
Qed.

(* the extended-slice form: the members of the produced list are old members or assigned values *)
Lemma set_at_incl : forall (l : list id) p v x, In x (set_at p v l) -> In x l \/ x = v.
Proof.
  induction l as [|y l IH]; intros p v x H; [left; destruct p; exact H|].
  destruct p as [|p]; cbn [set_at] in H.
  - destruct H as [H|H]; [right; symmetry; exact H|left; right; exact H].
  - destruct H as [H|H]; [left; left; exact H|].
    destruct (IH p v x H) as [H1|H1]; [left; right; exact H1|right; exact H1].
Qed.

Lemma set_positions_incl : forall ps vs l x, In x (set_positions l ps vs) -> In x l \/ In x vs.
Proof.
  induction ps as [|p ps IH]; intros vs l x H; [left; exact H|].
  destruct vs as [|v vs]; [left; exact H|]. cbn [set_positions] in H.
  destruct (IH vs (set_at p v l) x H) as [H1|H1].
  - destruct (set_at_incl l p v x H1) as [H2|H2]; [left; exact H2|right; left; symmetry; exact H2].
  - right; right; exact H1.
Qed.

Lemma keep_last_from_incl : forall new0 ps rest pos x, In x (keep_last_from pos new0 rest ps) -> In x rest.
Proof.
  intros new0 ps. induction rest as [|y r IH]; intros pos x H; [exact H|].
  cbn [keep_last_from] in H. apply in_app_or in H. destruct H as [H|H].
  - left. destruct (last_assigned new0 ps y) as [q|]; [destruct (Nat.eqb q pos)|];
      (destruct H as [H|[]]; exact H) || destruct H.
  - right. apply (IH (S pos) x H).
Qed.

Lemma assign_ext_incl : forall l ps vs x, In x (assign_ext l ps vs) -> In x l \/ In x vs.
Proof.
  intros l ps vs x H. unfold assign_ext in H. apply keep_last_from_incl in H. apply set_positions_incl in H. exact H.
Qed.

Lemma step_modsetext_good : forall w ir a b c vs w', kindof w ir = KIR ->
  forallb (fun v => is_k w v KMod) vs = true ->
  step w (OModSetExt ir a b c vs) = Ok w' -> Good w w'.
Proof.
  intros w ir a b c vs w' Hir Hvs H. unfold step in H. cbv zeta in H.
  destruct (SeqOps.py_slice_indices a b c (length (kids w ir))) as [[[s e] st]|er]; [|discriminate].
  destruct (st =? 1); [discriminate|].
  destruct (negb (Nat.eqb (length vs) (length (SeqOps.py_range_positions s e st (length (kids w ir)))))); [discriminate|].
  apply flagged_ok in H. subst w'. apply ml_assign_good; [exact Hir|].
  intros x Hx Hnx. apply assign_ext_incl in Hx. destruct Hx as [Hx|Hx]; [contradiction|].
  apply is_k_kind. rewrite forallb_forall in Hvs. apply Hvs. exact Hx.
Qed.

Lemma step_modclear_good : forall w ir w', kindof w ir = KIR ->
  step w (OModClear ir) = Ok w' -> Good w w'.
Proof.
  intros w ir w' Hir H. unfold step in H.
  match type of H with context [fold_ok ?f ?l w] =>
    pose proof (fold_ok_good f l w (fun w1 v => ml_remove_hook_good w1 ir v)) as G1;
    destruct (fold_ok f l w) as [w1 ok] end.
  cbn [fst] in G1. apply flagged_pair_ok in H. subst w'.
  eapply good_trans; [exact G1|]. apply good_set_kids_nonmod.
  rewrite (good_kind _ _ ir G1). apply kir_not_kmod. exact Hir.
Qed.

Lemma keeps_addr : forall a, keeps_sym (fun x => with_addr x a).
Proof. intros a x. repeat split. Qed.
Lemma keeps_size : forall s, keeps_sym (fun x => with_size x s).
Proof. intros s x. repeat split. Qed.
Lemma keeps_off : forall o, keeps_sym (fun x => with_off x o).
Proof. intros o x. repeat split. Qed.

Definition plain_op (o : op) : bool :=
  match o with ONew _ _ _ _ _ _ _ _ | OAttrName _ _ | OAttrPay _ _ => false | _ => true end.

Lemma step_good : forall w known o w',
  op_okb w known o = true -> step w o = Ok w' -> plain_op o = true -> Good w w'.
Proof.
  intros w known o w' Hok Hs Hp. destruct o; try discriminate Hp; clear Hp.
  - (* OSetParent *) eapply do_setparent_good. exact Hs.
  - (* OSet *) eapply do_set_good. exact Hs.
  - (* OModAppend *)
    cbn [op_okb] in Hok. apply andb_prop in Hok. destruct Hok as [_ Hv].
    unfold step in Hs. apply flagged_ok in Hs. subst w'. apply ml_append_good.
    apply kmod_not_ksym. apply is_k_kind. exact Hv.
  - (* OModInsert *)
    cbn [op_okb] in Hok. apply andb_prop in Hok. destruct Hok as [_ Hv].
    unfold step in Hs. apply flagged_ok in Hs. subst w'. apply ml_insert_good.
    apply kmod_not_ksym. apply is_k_kind. exact Hv.
  - (* OModExtend *)
    cbn [op_okb] in Hok. apply andb_prop in Hok. destruct Hok as [_ Hv].
    unfold step in Hs. eapply step_modextend_good; eassumption.
  - (* OModRemove *)
    cbn [op_okb] in Hok. apply andb_prop in Hok. destruct Hok as [Hir _].
    unfold step in Hs. apply bind_ok in Hs. destruct Hs as [r [Hr Hf]]. apply flagged_ok in Hf. subst w'.
    eapply ml_remove_good; [exact Hr|]. left. apply kir_not_kmod. apply is_k_kind. exact Hir.
  - (* OModPop *)
    cbn [op_okb] in Hok. unfold step in Hs. eapply step_moddelat_good; [|exact Hs]. apply is_k_kind. exact Hok.
  - (* OModDelItem *)
    cbn [op_okb] in Hok. unfold step in Hs. eapply step_moddelat_good; [|exact Hs]. apply is_k_kind. exact Hok.
  - (* OModDelSlice *)
    cbn [op_okb] in Hok. eapply step_moddelslice_good; [|exact Hs]. apply is_k_kind. exact Hok.
  - (* OModSetItem *)
    cbn [op_okb] in Hok. apply andb_prop in Hok. destruct Hok as [Hir Hv].
    eapply step_modsetitem_good; [| |exact Hs]; apply is_k_kind; assumption.
  - (* OModSetSlice *)
    cbn [op_okb] in Hok. apply andb_prop in Hok. destruct Hok as [Hir Hv].
    eapply step_modsetslice_good; [| |exact Hs]; [apply is_k_kind|]; assumption.
  - (* OModSetExt *)
    cbn [op_okb] in Hok. apply andb_prop in Hok. destruct Hok as [Hok _]. apply andb_prop in Hok. destruct Hok as [Hir Hv].
    eapply step_modsetext_good; [| |exact Hs]; [apply is_k_kind|]; assumption.
  - (* OModClear *)
    cbn [op_okb] in Hok. eapply step_modclear_good; [|exact Hs]. apply is_k_kind. exact Hok.
  - (* OModReverse *)
    cbn [op_okb] in Hok. unfold step in Hs. injection Hs as Hs. subst w'.
    apply good_set_kids_nonmod. apply kir_not_kmod. apply is_k_kind. exact Hok.
  - (* OAttrAddr *)
    unfold step in Hs. injection Hs as Hs. subst w'. apply bi_attr_good. apply keeps_addr.
  - (* OAttrSize *)
    unfold step in Hs. destruct (kindof w n); injection Hs as Hs; subst w';
      try (apply block_attr_good; apply keeps_size). apply bi_attr_good. apply keeps_size.
  - (* OAttrOff *)
    unfold step in Hs. injection Hs as Hs. subst w'. apply block_attr_good. apply keeps_off.
  - (* OSymxSet *)
    unfold step in Hs. injection Hs as Hs. subst w'. apply good_of_kv. apply kv_symx_upd.
  - (* OSymxDel *)
    unfold step in Hs. destruct (dict_has Z.eqb k (symx w bi)); [|discriminate].
    injection Hs as Hs. subst w'. apply good_of_kv. apply kv_symx_upd.
  - (* OSymxPop *)
    unfold step in Hs. destruct (dict_has Z.eqb k (symx w bi)); [|discriminate].
    injection Hs as Hs. subst w'. apply good_of_kv. apply kv_symx_upd.
  - (* OSymxPopitem *)
    unfold step in Hs. destruct (symx w bi) as [|kv0 d]; [discriminate|].
    injection Hs as Hs. subst w'. apply good_of_kv. apply kv_symx_upd.
  - (* OSymxSetdefault *)
    unfold step in Hs. destruct (dict_has Z.eqb k (symx w bi)); injection Hs as Hs; subst w'.
    + apply good_refl.
    + apply good_of_kv. apply kv_symx_upd.
  - (* OSymxUpdate *)
    unfold step in Hs. injection Hs as Hs. subst w'. apply good_of_kv. apply kv_symx_upd.
  - (* OSymxClear *)
    unfold step in Hs. injection Hs as Hs. subst w'. apply good_of_kv. apply kv_symx_upd.
  - (* OSymxAssign *)
    unfold step in Hs. injection Hs as Hs. subst w'. apply good_of_kv. apply kv_symx_upd.
  - (* OTouch *)
    unfold step in Hs. injection Hs as Hs. subst w'. apply good_of_kv. apply kv_force.
Qed.

(* ---------- nodes that do not exist have empty indexes ---------- *)

Definition FreshIx (w : world) : Prop := forall n, has w n = false -> nix w n = [] /\ rix w n = [].

Lemma good_fresh : forall w w', Good w w' -> FreshIx w -> FreshIx w'.
Proof.
  intros w w' (Ha & Hh & Hl & _) Hf n Hn.
  assert (Hn0 : has w n = false).
  { destruct (has w n) eqn:E; [|reflexivity]. rewrite (Hh n E) in Hn. discriminate. }
  destruct (Hf n Hn0) as [A B]. destruct (Hl n) as [C D].
  { unfold kindof. rewrite (nohas_getn w n Hn0). cbn. discriminate. }
  split; congruence.
Qed.

Lemma symix_kv : forall a b, kv b a -> SymIx a -> SymIx b.
Proof. intros a b H. apply good_symix. apply good_of_kv. exact H. Qed.

Lemma fresh_kv : forall a b, kv b a -> FreshIx a -> FreshIx b.
Proof. intros a b H. apply good_fresh. apply good_of_kv. exact H. Qed.

(* ---------- facts from Forest ---------- *)

Lemma forest_kid : forall w known p c, Forest w known -> In c (kids w p) ->
  par w c = Some p /\ has w c = true /\ has w p = true /\ parent_kind (kindof w c) = Some (kindof w p).
Proof.
  intros w known p c Hf Hin. apply (f_two_ended w known Hf) in Hin. split; [exact Hin|].
  apply (f_kind w known Hf). exact Hin.
Qed.

Lemma option_eq_dec_id : forall (o : option id) (m : id), {o = Some m} + {o <> Some m}.
Proof.
  intros [x|] m.
  - destruct (Z.eq_dec x m) as [->|H]; [left; reflexivity|right; congruence].
  - right. discriminate.
Qed.

(* ---------- symbol name / payload setters ---------- *)

Lemma sym_attr_some : forall w s f m0, par w s = Some m0 ->
  sym_attr w s f =
  mod_index_add (setn (mod_index_discard w m0 s) s (f (getn (mod_index_discard w m0 s) s))) m0 s.
Proof. intros w s f m0 H. unfold sym_attr. rewrite H. reflexivity. Qed.

Lemma sym_attr_none : forall w s f, par w s = None -> sym_attr w s f = setn w s (f (getn w s)).
Proof. intros w s f H. unfold sym_attr. rewrite H. reflexivity. Qed.

Lemma sym_attr_getn : forall w s f y, getn (sym_attr w s f) y = if y =? s then f (getn w s) else getn w y.
Proof.
  intros w s f y. unfold sym_attr. destruct (par w s) as [m0|].
  - rewrite mia_getn, getn_setn, !mid_getn. reflexivity.
  - apply getn_setn.
Qed.

Lemma sym_attr_has : forall w s f y, has (sym_attr w s f) y = if y =? s then true else has w y.
Proof.
  intros w s f y. unfold sym_attr. destruct (par w s) as [m0|].
  - rewrite mia_has, has_setn, mid_has. reflexivity.
  - apply has_setn.
Qed.

Lemma sym_attr_kids : forall w s f, kids (sym_attr w s f) = kids w.
Proof.
  intros w s f. unfold sym_attr. destruct (par w s) as [m0|]; [|reflexivity].
  rewrite mia_kids. unfold setn, set_nodes. cbn [kids]. apply mid_kids.
Qed.

Lemma sym_attr_nix_other : forall w s f m, par w s <> Some m -> nix (sym_attr w s f) m = nix w m.
Proof.
  intros w s f m H. unfold sym_attr. destruct (par w s) as [m0|]; [|reflexivity].
  assert (Hne : m <> m0) by congruence.
  rewrite mia_nix_other by exact Hne. unfold setn, set_nodes. cbn [nix]. apply mid_nix_other. exact Hne.
Qed.

Lemma sym_attr_rix_other : forall w s f m, par w s <> Some m -> rix (sym_attr w s f) m = rix w m.
Proof.
  intros w s f m H. unfold sym_attr. destruct (par w s) as [m0|]; [|reflexivity].
  assert (Hne : m <> m0) by congruence.
  rewrite mia_rix_other by exact Hne. unfold setn, set_nodes. cbn [rix]. apply mid_rix_other. exact Hne.
Qed.

Lemma sym_attr_nix_at : forall w s f m0, par w s = Some m0 -> kindof w s = KSym ->
  nk (f (getn w s)) = KSym ->
  nix (sym_attr w s f) m0 =
  bucket_add Z.eqb (nname (f (getn w s))) s (bucket_discard Z.eqb (nname (getn w s)) s (nix w m0)).
Proof.
  intros w s f m0 Hp Hk Hf. rewrite (sym_attr_some w s f m0 Hp).
  rewrite mia_nix_at.
  - rewrite getn_setn_same, mid_getn. unfold setn, set_nodes. cbn [nix].
    rewrite mid_nix_at by exact Hk. reflexivity.
  - unfold kindof. rewrite getn_setn_same, mid_getn. exact Hf.
Qed.

Lemma sym_attr_rix_at : forall w s f m0, par w s = Some m0 -> kindof w s = KSym ->
  nk (f (getn w s)) = KSym ->
  rix (sym_attr w s f) m0 =
  match referent (f (getn w s)) with
  | Some b' => bucket_add Z.eqb b' s
                 (match referent (getn w s) with Some b => bucket_discard Z.eqb b s (rix w m0) | None => rix w m0 end)
  | None => match referent (getn w s) with Some b => bucket_discard Z.eqb b s (rix w m0) | None => rix w m0 end
  end.
Proof.
  intros w s f m0 Hp Hk Hf. rewrite (sym_attr_some w s f m0 Hp).
  rewrite mia_rix_at.
  - rewrite getn_setn_same, mid_getn. unfold setn, set_nodes. cbn [rix].
    rewrite mid_rix_at by exact Hk. reflexivity.
  - unfold kindof. rewrite getn_setn_same, mid_getn. exact Hf.
Qed.

Lemma sym_attr_symix : forall w known s f,
  Forest w known -> SymIx w -> kindof w s = KSym -> (forall x, nk (f x) = nk x) -> SymIx (sym_attr w s f).
Proof.
  intros w known s f Hf Hs Hk Hnk. rewrite SymIx_iff in *. intros m Hm.
  set (W := sym_attr w s f) in *.
  assert (Hg : forall y, getn W y = if y =? s then f (getn w s) else getn w y) by (apply sym_attr_getn).
  assert (Hfs : nk (f (getn w s)) = KSym) by (rewrite Hnk; exact Hk).
  assert (Hms : m <> s).
  { intros ->. unfold kindof in Hm. rewrite Hg, Z.eqb_refl in Hm. congruence. }
  assert (Hm0 : kindof w m = KMod).
  { unfold kindof in Hm. rewrite Hg in Hm. apply Z.eqb_neq in Hms. rewrite Hms in Hm. exact Hm. }
  assert (Hkids : kids W = kids w) by (apply sym_attr_kids).
  assert (Hgo : forall y, y <> s -> getn W y = getn w y).
  { intros y Hy. rewrite Hg. apply Z.eqb_neq in Hy. rewrite Hy. reflexivity. }
  destruct (option_eq_dec_id (par w s) m) as [Hp|Hp].
  - (* s is a symbol of m *)
    assert (Hin : In s (kids w m)) by (apply (f_two_ended w known Hf); exact Hp).
    destruct (Hs m Hm0) as [H1 H2]. unfold ModIx. split.
    + unfold W. rewrite (sym_attr_nix_at w s f m Hp Hk Hfs). fold W.
      eapply IxOK_add.
      * eapply IxOK_discard; [exact H1|]. intros y k. apply iff_refl.
      * intros y k. unfold Rn, kindof. rewrite Hkids. split.
        -- intros (A & B & C). destruct (Z.eq_dec y s) as [->|Hne].
           ++ right. split; [reflexivity|]. rewrite Hg, Z.eqb_refl in C. symmetry. exact C.
           ++ left. rewrite (Hgo y Hne) in B, C. split; [tauto|]. intros [D _]. exact (Hne D).
        -- intros [((A & B & C) & D)|[-> ->]].
           ++ assert (Hne : y <> s).
              { intros ->. apply D. split; [reflexivity|]. symmetry. exact C. }
              rewrite (Hgo y Hne). tauto.
           ++ rewrite Hg, Z.eqb_refl. tauto.
    + unfold W. rewrite (sym_attr_rix_at w s f m Hp Hk Hfs). fold W.
      eapply rix_add_ok.
      * eapply rix_discard_ok; [exact H2|]. intros y k. apply iff_refl.
      * intros y k. unfold Rr, kindof. rewrite Hkids. split.
        -- intros (A & B & C). destruct (Z.eq_dec y s) as [->|Hne].
           ++ right. split; [reflexivity|]. rewrite Hg, Z.eqb_refl in C. exact C.
           ++ left. rewrite (Hgo y Hne) in B, C. split; [tauto|]. intros [D _]. exact (Hne D).
        -- intros [((A & B & C) & D)|[-> E]].
           ++ assert (Hne : y <> s).
              { intros ->. apply D. split; [reflexivity|]. exact C. }
              rewrite (Hgo y Hne). tauto.
           ++ rewrite Hg, Z.eqb_refl. tauto.
  - (* s is not a child of m *)
    apply (ModIx_same w W m).
    + intros y Hy. apply Hgo. intros ->. apply Hp. apply (f_two_ended w known Hf). exact Hy.
    + rewrite Hkids. reflexivity.
    + apply sym_attr_nix_other. exact Hp.
    + apply sym_attr_rix_other. exact Hp.
    + apply Hs. exact Hm0.
Qed.

Lemma sym_attr_fresh : forall w known s f, Forest w known -> FreshIx w -> FreshIx (sym_attr w s f).
Proof.
  intros w known s f Hf Hfr n Hn. rewrite sym_attr_has in Hn.
  destruct (n =? s); [discriminate|]. destruct (Hfr n Hn) as [A B].
  assert (Hp : par w s <> Some n).
  { intros Hp. destruct (f_kind w known Hf n s Hp) as (_ & Hh & _). congruence. }
  rewrite sym_attr_nix_other, sym_attr_rix_other by exact Hp. split; assumption.
Qed.

(* ---------- node creation ---------- *)

Lemma new_symix : forall w known n x,
  Forest w known -> FreshIx w -> SymIx w -> has w n = false -> SymIx (setn w n x).
Proof.
  intros w known n x Hf Hfr Hs Hn. rewrite SymIx_iff in *. intros m Hm.
  assert (Hnokid : forall p, ~ In n (kids w p)).
  { intros p Hin. destruct (forest_kid w known p n Hf Hin) as (_ & Hh & _). congruence. }
  destruct (Z.eq_dec m n) as [->|Hne].
  - destruct (Hfr n Hn) as [A B]. unfold ModIx.
    change (nix (setn w n x) n) with (nix w n). change (rix (setn w n x) n) with (rix w n).
    rewrite A, B.
    assert (Hempty : forall y, ~ In y (kids w n)).
    { intros y Hin. destruct (forest_kid w known n y Hf Hin) as (_ & _ & Hh & _). congruence. }
    split; apply IxOK_nil; intros y k (Hin & _); exact (Hempty y Hin).
  - assert (Hm0 : kindof w m = KMod).
    { unfold kindof in Hm. rewrite getn_setn_other in Hm by exact Hne. exact Hm. }
    apply (ModIx_same w (setn w n x) m); try reflexivity.
    + intros y Hy. apply getn_setn_other. intros ->. exact (Hnokid m Hy).
    + apply Hs. exact Hm0.
Qed.

Lemma new_fresh : forall w n x, FreshIx w -> FreshIx (setn w n x).
Proof.
  intros w n x Hfr y Hy. rewrite has_setn in Hy. destruct (y =? n); [discriminate|].
  exact (Hfr y Hy).
Qed.

Lemma kv_new : forall w n x (k : kind) u,
  kv (match k with KIR => set_cache (setn w n x) (upd (cache (setn w n x)) n [(u, n)]) | _ => setn w n x end)
     (setn w n x).
Proof. intros. destruct k; repeat split. Qed.

Lemma new_guard_fresh : forall w known n k u a s f nm p,
  op_okb w known (ONew n k u a s f nm p) = true -> has w n = false.
Proof.
  intros w known n k u a s f nm p H. cbn [op_okb] in H.
  repeat (apply andb_prop in H; destruct H as [H _]).
  destruct (has w n); [discriminate|reflexivity].
Qed.

(* ---------- main theorems ---------- *)

Theorem symix_preserved : forall w known o,
  Forest w known -> Forest (step' w o) (known_after o known) ->
  forall (Hfresh_ix : forall n, has w n = false -> nix w n = [] /\ rix w n = []),
  SymIx w -> op_okb w known o = true -> SymIx (step' w o).
Proof.
  intros w known o Hf _ Hfresh_ix Hs Hok. unfold step'.
  destruct (step w o) as [w'|e] eqn:Hst; [|exact Hs].
  destruct (plain_op o) eqn:Hp.
  - apply (good_symix w w'); [|exact Hs]. eapply step_good; eassumption.
  - destruct o; try discriminate Hp.
    + (* ONew *)
      pose proof (new_guard_fresh _ _ _ _ _ _ _ _ _ _ Hok) as Hn.
      unfold step in Hst. injection Hst as Hst. subst w'.
      eapply symix_kv; [apply kv_new|]. eapply new_symix; eassumption.
    + (* OAttrName *)
      cbn [op_okb] in Hok. apply is_k_kind in Hok.
      unfold step in Hst. injection Hst as Hst. subst w'.
      eapply sym_attr_symix; try eassumption. intros x. reflexivity.
    + (* OAttrPay *)
      cbn [op_okb] in Hok. apply andb_prop in Hok. destruct Hok as [Hok _]. apply is_k_kind in Hok.
      unfold step in Hst. injection Hst as Hst. subst w'.
      eapply sym_attr_symix; try eassumption. intros x. reflexivity.
Qed.

Theorem fresh_ix_preserved : forall w known o,
  Forest w known ->
  (forall n, has w n = false -> nix w n = [] /\ rix w n = []) ->
  op_okb w known o = true ->
  forall n, has (step' w o) n = false -> nix (step' w o) n = [] /\ rix (step' w o) n = [].
Proof.
  intros w known o Hf Hfr Hok. change (FreshIx (step' w o)). change (FreshIx w) in Hfr. unfold step'.
  destruct (step w o) as [w'|e] eqn:Hst; [|exact Hfr].
  destruct (plain_op o) eqn:Hp.
  - apply (good_fresh w w'); [|exact Hfr]. eapply step_good; eassumption.
  - destruct o; try discriminate Hp.
    + unfold step in Hst. injection Hst as Hst. subst w'.
      eapply fresh_kv; [apply kv_new|]. apply new_fresh. exact Hfr.
    + unfold step in Hst. injection Hst as Hst. subst w'. eapply sym_attr_fresh; eassumption.
    + unfold step in Hst. injection Hst as Hst. subst w'. eapply sym_attr_fresh; eassumption.
Qed.

Lemma fresh_ix_w0 : forall n, has w0 n = false -> nix w0 n = [] /\ rix w0 n = [].
Proof. intros n _. split; reflexivity. Qed.

(* ---------- the lookups are exact ---------- *)

Theorem symbols_named_exact : forall w known m nm,
  Forest w known -> SymIx w -> has w m = true -> kindof w m = KMod ->
  NoDup (symbols_named w m nm) /\
  forall y, In y (symbols_named w m nm) <->
            In y (kids w m) /\ kindof w y = KSym /\ nname (getn w y) = nm.
Proof.
  intros w known m nm _ Hs _ Hk. rewrite SymIx_iff in Hs. destruct (Hs m Hk) as [(N & A & B) _].
  unfold symbols_named. destruct (dict_get Z.eqb nm (nix w m)) as [b|] eqn:E.
  - destruct (A nm b E) as (_ & Nd & Hin). split; [exact Nd|]. intros y. rewrite Hin. unfold Rn. tauto.
  - split; [constructor|]. intros y. split; [intros []|]. intros Hy.
    destruct (B nm y Hy) as [b Hb]. congruence.
Qed.

Lemma module_of_mod : forall w known b m, Forest w known -> module_of w b = Some m -> kindof w m = KMod.
Proof.
  intros w known b m Hf H. unfold module_of in H.
  assert (Hstep : forall c p, par w c = Some p -> parent_kind (kindof w c) = Some (kindof w p)).
  { intros c p Hp. apply (f_kind w known Hf p c Hp). }
  destruct (kindof w b) eqn:Ek; try discriminate.
  - apply Hstep in H. rewrite Ek in H. cbn in H. congruence.
  - destruct (par w b) as [s|] eqn:E1; [|discriminate]. cbn [bind_o] in H.
    apply Hstep in E1. rewrite Ek in E1. cbn in E1. injection E1 as E1.
    apply Hstep in H. rewrite <- E1 in H. cbn in H. congruence.
  - destruct (par w b) as [bi|] eqn:E1; [|discriminate]. cbn [bind_o] in H.
    destruct (par w bi) as [s|] eqn:E2; [|discriminate]. cbn [bind_o] in H.
    apply Hstep in E1. rewrite Ek in E1. cbn in E1. injection E1 as E1.
    apply Hstep in E2. rewrite <- E1 in E2. cbn in E2. injection E2 as E2.
    apply Hstep in H. rewrite <- E2 in H. cbn in H. congruence.
  - destruct (par w b) as [bi|] eqn:E1; [|discriminate]. cbn [bind_o] in H.
    destruct (par w bi) as [s|] eqn:E2; [|discriminate]. cbn [bind_o] in H.
    apply Hstep in E1. rewrite Ek in E1. cbn in E1. injection E1 as E1.
    apply Hstep in E2. rewrite <- E1 in E2. cbn in E2. injection E2 as E2.
    apply Hstep in H. rewrite <- E2 in H. cbn in H. congruence.
  - apply Hstep in H. rewrite Ek in H. cbn in H. congruence.
  - apply Hstep in H. rewrite Ek in H. cbn in H. congruence.
Qed.

Theorem references_exact : forall w known b,
  Forest w known -> SymIx w -> has w b = true ->
  NoDup (references w b) /\
  forall y, In y (references w b) <->
    exists m, module_of w b = Some m /\ In y (kids w m) /\ kindof w y = KSym /\
              referent (getn w y) = Some b.
Proof.
  intros w known b Hf Hs _. unfold references. destruct (module_of w b) as [m|] eqn:Em.
  - pose proof (module_of_mod w known b m Hf Em) as Hk.
    rewrite SymIx_iff in Hs. destruct (Hs m Hk) as [_ (N & C & D)].
    destruct (dict_get Z.eqb b (rix w m)) as [l|] eqn:E.
    + destruct (C b l E) as (_ & Nd & Hin). split; [exact Nd|]. intros y. rewrite Hin. unfold Rr. split.
      * intros Hy. exists m. split; [reflexivity|exact Hy].
      * intros [m' [Hm' Hy]]. injection Hm' as Hm'. subst m'. exact Hy.
    + split; [constructor|]. intros y. split; [intros []|]. intros [m' [Hm' Hy]].
      injection Hm' as Hm'. subst m'. destruct (D b y Hy) as [l Hl]. congruence.
  - split; [constructor|]. intros y. split; [intros []|]. intros [m' [Hm' _]]. discriminate.
Qed.

(* both facts together, in the shape of an invariant step *)
Corollary symix_fresh_preserved : forall w known o,
  Forest w known -> SymIx w /\ FreshIx w -> op_okb w known o = true ->
  SymIx (step' w o) /\ FreshIx (step' w o).
Proof.
  intros w known o Hf [Hs Hfr] Hok. split.
  - unfold step'. destruct (step w o) as [w'|e] eqn:Hst; [|exact Hs].
    destruct (plain_op o) eqn:Hp.
    + apply (good_symix w w'); [|exact Hs]. eapply step_good; eassumption.
    + destruct o; try discriminate Hp.
      * pose proof (new_guard_fresh _ _ _ _ _ _ _ _ _ _ Hok) as Hn.
        unfold step in Hst. injection Hst as Hst. subst w'.
        eapply symix_kv; [apply kv_new|]. eapply new_symix; eassumption.
      * cbn [op_okb] in Hok. apply is_k_kind in Hok.
        unfold step in Hst. injection Hst as Hst. subst w'.
        eapply sym_attr_symix; try eassumption. intros x. reflexivity.
      * cbn [op_okb] in Hok. apply andb_prop in Hok. destruct Hok as [Hok _]. apply is_k_kind in Hok.
        unfold step in Hst. injection Hst as Hst. subst w'.
        eapply sym_attr_symix; try eassumption. intros x. reflexivity.
  - exact (fresh_ix_preserved w known o Hf Hfr Hok).
Qed.

(* The statement without Hfresh_ix is false for arbitrary (unreachable) worlds: a node number that
   does not exist yet may carry a stale index, which surfaces when a module is created there. *)
Definition w_stale : world := set_nix w0 (upd (nix w0) 1 [(0, [5])]).
Definition o_stale : op := ONew 1 KMod 7 None 0 0 0 PNone.

Lemma symix_preserved_without_fresh_refuted :
  exists w known o,
    Forest w known /\ Forest (step' w o) (known_after o known) /\ SymIx w /\
    op_okb w known o = true /\ ~ SymIx (step' w o).
Proof.
  exists w_stale, [], o_stale. split; [|split; [|split; [|split]]].
  - constructor.
    + intros n. cbn. split; [discriminate|intros []].
    + intros p c. cbn. split; [intros []|discriminate].
    + intros p. constructor.
    + intros p c H. cbn in H. discriminate.
    + intros a b [].
  - assert (Hpar : forall c, par (step' w_stale o_stale) c = None).
    { intros c. unfold par, getn, step', step, o_stale, setn, set_nodes, upd. cbn [nodes].
      destruct (c =? 1); reflexivity. }
    constructor.
    + intros n. unfold has, step', step, o_stale, setn, set_nodes, upd, known_after. cbn [nodes In].
      destruct (Z.eqb_spec n 1) as [->|Hne].
      * split; [intros _; left; reflexivity|reflexivity].
      * split; [discriminate|]. intros [E|[]]. congruence.
    + intros p c. rewrite Hpar. split; [intros []|discriminate].
    + intros p. constructor.
    + intros p c H. rewrite Hpar in H. discriminate.
    + intros a b [<-|[]] [<-|[]] _. reflexivity.
  - intros m Hm. cbn in Hm. discriminate.
  - reflexivity.
  - intros H. destruct (H 1 eq_refl eq_refl) as (_ & _ & A & _).
    destruct (A 0 [5] eq_refl) as (_ & _ & Hin).
    destruct (proj1 (Hin 5) (or_introl eq_refl)) as [[[] _] _].
Qed.

Print Assumptions symix_preserved.
Print Assumptions fresh_ix_preserved.
Print Assumptions symbols_named_exact.
Print Assumptions references_exact.
Print Assumptions symix_fresh_preserved.
Print Assumptions symix_preserved_without_fresh_refuted.
