(* Invariant definitions shared by the World proofs (no proofs here). *)
From Coq Require Import ZArith List Bool.
From V Require Import Result LazyTree World WorldGuard.
Import ListNotations.
Open Scope Z_scope.

(* nodes created so far after an op *)
Definition known_after (o : op) (known : list id) : list id :=
  match o with ONew n _ _ _ _ _ _ _ => n :: known | _ => known end.

(* C04: containment is a forest kept consistent from both ends *)
Record Forest (w : world) (known : list id) : Prop := {
  f_known : forall n, has w n = true <-> In n known;
  f_two_ended : forall p c, In c (kids w p) <-> par w c = Some p;
  f_nodup : forall p, NoDup (kids w p);
  f_kind : forall p c, par w c = Some p ->
           has w c = true /\ has w p = true /\ parent_kind (kindof w c) = Some (kindof w p);
  f_uuid : forall a b, In a known -> In b known -> nuuid (getn w a) = nuuid (getn w b) -> a = b
}.
