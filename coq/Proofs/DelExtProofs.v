(* del ir.modules[a:b:c] (Model/DelExt.v): the selected positions deleted one at a time from the highest down leave what the
   built-in list leaves -- the elements at the positions that were not selected, in their order; the deleted modules are
   detached; every intermediate state is a reachable one. *)
From Coq Require Import ZArith List Bool Lia Arith Sorted.
From V Require Import Result LazyTree World WorldGuard ForestDefs InvDefs ModListBase.
From V Require SeqOps SeqOpsProofs ModListProofs IndexCheck WorldInv.
From V Require Import DelExt.
Import ListNotations.
Open Scope Z_scope.

(* ================================================================== *)
(* 1. list level                                                       *)
(* ================================================================== *)

Lemma inb_In q ps : existsb (Nat.eqb q) ps = true <-> In q ps.
Proof.
  rewrite existsb_exists. split.
  - intros [x [H1 H2]]. apply Nat.eqb_eq in H2. subst x. exact H1.
  - intro H. exists q. split; [exact H|apply Nat.eqb_refl].
Qed.

(* only membership (of the positions from k on) matters *)
Lemma drop_positions_ext l : forall ps ps' k,
  (forall q, (k <= q)%nat -> (In q ps <-> In q ps')) -> drop_positions l ps k = drop_positions l ps' k.
Proof.
  induction l as [|y l IH]; intros ps ps' k H; cbn [drop_positions]; [reflexivity|].
  assert (E : existsb (Nat.eqb k) ps = existsb (Nat.eqb k) ps').
  { apply eq_true_iff_eq. rewrite !inb_In. apply H. lia. }
  rewrite E. rewrite (IH ps ps' (S k)); [reflexivity|]. intros q Hq. apply H. lia.
Qed.

Lemma drop_positions_rev l ps : drop_positions l ps 0 = drop_positions l (rev ps) 0.
Proof. apply drop_positions_ext. intros q _. apply in_rev. Qed.

Lemma drop_positions_none l : forall ps k, (forall q, In q ps -> (q < k)%nat) -> drop_positions l ps k = l.
Proof.
  induction l as [|y l IH]; intros ps k H; cbn [drop_positions]; [reflexivity|].
  destruct (existsb (Nat.eqb k) ps) eqn:E.
  - apply inb_In in E. apply H in E. lia.
  - f_equal. apply IH. intros q Hq. apply H in Hq. lia.
Qed.

Lemma drop_positions_all l : forall ps k,
  (forall q, (k <= q < k + length l)%nat -> In q ps) -> drop_positions l ps k = [].
Proof.
  induction l as [|y l IH]; intros ps k H; cbn [drop_positions]; [reflexivity|].
  cbn [length] in H. destruct (existsb (Nat.eqb k) ps) eqn:E.
  - apply IH. intros q Hq. apply H. lia.
  - assert (I : In k ps) by (apply H; lia). apply inb_In in I. congruence.
Qed.

Lemma drop_positions_app l1 : forall l2 ps k,
  drop_positions (l1 ++ l2) ps k = drop_positions l1 ps k ++ drop_positions l2 ps (k + length l1).
Proof.
  induction l1 as [|y l1 IH]; intros l2 ps k.
  - cbn [app drop_positions length]. rewrite Nat.add_0_r. reflexivity.
  - cbn [app drop_positions length]. rewrite IH. replace (S k + length l1)%nat with (k + S (length l1))%nat by lia.
    destruct (existsb (Nat.eqb k) ps); reflexivity.
Qed.

Lemma drop_positions_In l : forall ps k x,
  In x (drop_positions l ps k) <-> exists q, nth_error l q = Some x /\ ~ In (k + q)%nat ps.
Proof.
  induction l as [|y l IH]; intros ps k x; cbn [drop_positions].
  - split; [intros []|]. intros [q [H _]]. destruct q; discriminate.
  - destruct (existsb (Nat.eqb k) ps) eqn:E.
    + rewrite IH. split.
      * intros [q [H1 H2]]. exists (S q). split; [exact H1|]. replace (k + S q)%nat with (S k + q)%nat by lia. exact H2.
      * intros [q [H1 H2]]. destruct q as [|q].
        -- exfalso. apply H2. rewrite Nat.add_0_r. apply inb_In. exact E.
        -- exists q. split; [exact H1|]. replace (S k + q)%nat with (k + S q)%nat by lia. exact H2.
    + cbn [In]. rewrite IH. split.
      * intros [H|[q [H1 H2]]].
        -- exists 0%nat. split; [subst y; reflexivity|]. rewrite Nat.add_0_r. intro C. apply inb_In in C. congruence.
        -- exists (S q). split; [exact H1|]. replace (k + S q)%nat with (S k + q)%nat by lia. exact H2.
      * intros [q [H1 H2]]. destruct q as [|q].
        -- left. cbn [nth_error] in H1. congruence.
        -- right. exists q. split; [exact H1|]. replace (S k + q)%nat with (k + S q)%nat by lia. exact H2.
Qed.

Lemma drop_positions_In0 l ps x :
  In x (drop_positions l ps 0) <-> exists q, nth_error l q = Some x /\ ~ In q ps.
Proof. apply (drop_positions_In l ps 0%nat x). Qed.

Lemma drop_positions_incl l : forall ps k x, In x (drop_positions l ps k) -> In x l.
Proof. intros ps k x H. apply drop_positions_In in H. destruct H as [q [H _]]. apply nth_error_In in H. exact H. Qed.

Lemma drop_positions_NoDup l : forall ps k, NoDup l -> NoDup (drop_positions l ps k).
Proof.
  induction l as [|y l IH]; intros ps k N; cbn [drop_positions]; [constructor|].
  inversion N as [|y' l' Hy Nl]; subst. destruct (existsb (Nat.eqb k) ps).
  - apply IH. exact Nl.
  - constructor; [|apply IH; exact Nl]. intro C. apply Hy. apply (drop_positions_incl l ps (S k)). exact C.
Qed.

Lemma gather_In (l : list Z) : forall ps x, In x (SeqOps.gather l ps) <-> exists p, In p ps /\ nth_error l p = Some x.
Proof.
  induction ps as [|p ps IH]; intro x; cbn [SeqOps.gather].
  - split; [intros []|intros [p [[] _]]].
  - destruct (nth_error l p) as [v|] eqn:E.
    + cbn [In]. rewrite IH. split.
      * intros [H|[q [H1 H2]]]; [exists p; split; [left; reflexivity|congruence]|exists q; split; [right; exact H1|exact H2]].
      * intros [q [[H1|H1] H2]]; [left; congruence|right; exists q; split; assumption].
    + rewrite IH. split.
      * intros [q [H1 H2]]. exists q. split; [right; exact H1|exact H2].
      * intros [q [[H1|H1] H2]]; [congruence|exists q; split; assumption].
Qed.

Lemma drop_positions_In_gather (l : list Z) ps x : NoDup l ->
  (In x (drop_positions l ps 0) <-> In x l /\ ~ In x (SeqOps.gather l ps)).
Proof.
  intro N. rewrite drop_positions_In0, gather_In. split.
  - intros [q [H1 H2]]. split; [apply nth_error_In in H1; exact H1|]. intros [p [P1 P2]].
    assert (p = q); [|subst p; contradiction].
    apply (proj1 (NoDup_nth_error l) N); [apply nth_error_Some; rewrite P2; discriminate|rewrite P2; symmetry; exact H1].
  - intros [H1 H2]. apply In_nth_error in H1. destruct H1 as [q Hq]. exists q. split; [exact Hq|].
    intro C. apply H2. exists q. split; assumption.
Qed.

(* ---------- deleting the positions one at a time, highest first ---------- *)

Definition remove_all {X} (ps : list nat) (l : list X) : list X := fold_left (fun acc p => remove_at p acc) ps l.

Lemma remove_at_length {X} : forall p (l : list X), (p < length l)%nat -> length (remove_at p l) = (length l - 1)%nat.
Proof.
  induction p as [|p IH]; intros l H; destruct l as [|y l]; cbn [length] in H; try lia; cbn [remove_at length]; [lia|].
  rewrite IH by lia. lia.
Qed.

Lemma remove_at_nth_below {X} : forall p (l : list X) q, (q < p)%nat -> nth_error (remove_at p l) q = nth_error l q.
Proof.
  induction p as [|p IH]; intros l q H; [lia|]. destruct l as [|y l]; [reflexivity|]. cbn [remove_at].
  destruct q as [|q]; [reflexivity|]. cbn [nth_error]. apply IH. lia.
Qed.

Lemma drop_positions_remove_at l : forall p k ps, (forall q, In q ps -> (q < k + p)%nat) ->
  drop_positions (remove_at p l) ps k = drop_positions l ((k + p)%nat :: ps) k.
Proof.
  induction l as [|y l IH]; intros p k ps H; [destruct p; reflexivity|].
  destruct p as [|p].
  - cbn [remove_at drop_positions existsb]. rewrite Nat.add_0_r in *. rewrite Nat.eqb_refl. cbn [orb].
    rewrite drop_positions_none by exact H. symmetry. apply drop_positions_none.
    intros q [Hq|Hq]; [lia|]. apply H in Hq. lia.
  - cbn [remove_at drop_positions existsb]. replace (k =? k + S p)%nat with false by (symmetry; apply Nat.eqb_neq; lia).
    cbn [orb]. replace (k + S p)%nat with (S k + p)%nat by lia.
    rewrite (IH p (S k) ps) by (intros q Hq; apply H in Hq; lia). reflexivity.
Qed.

Definition desc_below (len : nat) (ps : list nat) : Prop := StronglySorted gt ps /\ Forall (fun p => (p < len)%nat) ps.

Lemma desc_below_inv len p ps : desc_below len (p :: ps) -> (p < len)%nat /\ (forall q, In q ps -> (q < p)%nat) /\ desc_below p ps.
Proof.
  intros [S F]. inversion S as [|p' ps' S' Hlt]; subst. inversion F as [|p' ps' Hp F']; subst.
  split; [exact Hp|]. assert (L : forall q, In q ps -> (q < p)%nat).
  { intros q Hq. apply (proj1 (Forall_forall _ _) Hlt) in Hq. unfold gt in Hq. exact Hq. }
  split; [exact L|]. split; [exact S'|]. apply Forall_forall. exact L.
Qed.

Lemma desc_below_weaken len len' ps : (len <= len')%nat -> desc_below len ps -> desc_below len' ps.
Proof.
  intros H [S F]. split; [exact S|]. apply Forall_forall. intros q Hq. apply (proj1 (Forall_forall _ _) F) in Hq. lia.
Qed.

Theorem remove_all_drop_positions (l : list id) : forall ps, desc_below (length l) ps ->
  remove_all ps l = drop_positions l ps 0.
Proof.
  intros ps. revert l. induction ps as [|p ps IH]; intros l D.
  - cbn [remove_all fold_left]. symmetry. apply drop_positions_none. intros q [].
  - destruct (desc_below_inv _ _ _ D) as [Hp [L D']]. unfold remove_all. cbn [fold_left]. fold (remove_all ps (remove_at p l)).
    rewrite IH.
    + rewrite (drop_positions_remove_at l p 0%nat ps) by (intros q Hq; apply L in Hq; lia). reflexivity.
    + apply (desc_below_weaken p); [rewrite remove_at_length by exact Hp; lia|exact D'].
Qed.

Lemma remove_all_length {X} : forall ps (l : list X), desc_below (length l) ps ->
  length (remove_all ps l) = (length l - length ps)%nat.
Proof.
  induction ps as [|p ps IH]; intros l D.
  - cbn [remove_all fold_left length]. lia.
  - destruct (desc_below_inv _ _ _ D) as [Hp [L D']]. unfold remove_all. cbn [fold_left]. fold (remove_all ps (remove_at p l)).
    rewrite IH.
    + rewrite remove_at_length by exact Hp. cbn [length]. lia.
    + apply (desc_below_weaken p); [rewrite remove_at_length by exact Hp; lia|exact D'].
Qed.

Theorem drop_positions_length (l : list id) ps : desc_below (length l) ps ->
  length (drop_positions l ps 0) = (length l - length ps)%nat.
Proof. intro D. rewrite <- remove_all_drop_positions by exact D. apply remove_all_length. exact D. Qed.

Lemma gather_remove_at (l : list Z) p : forall ps, (forall q, In q ps -> (q < p)%nat) ->
  SeqOps.gather (remove_at p l) ps = SeqOps.gather l ps.
Proof.
  induction ps as [|q ps IH]; intro H; [reflexivity|]. cbn [SeqOps.gather].
  rewrite remove_at_nth_below by (apply H; left; reflexivity). rewrite IH by (intros r Hr; apply H; right; exact Hr). reflexivity.
Qed.

Lemma gather_app (l : list Z) : forall ps qs, SeqOps.gather l (ps ++ qs) = SeqOps.gather l ps ++ SeqOps.gather l qs.
Proof.
  induction ps as [|p ps IH]; intro qs; [reflexivity|]. cbn [app SeqOps.gather]. rewrite IH.
  destruct (nth_error l p); reflexivity.
Qed.

Lemma gather_rev (l : list Z) : forall ps, SeqOps.gather l (rev ps) = rev (SeqOps.gather l ps).
Proof.
  induction ps as [|p ps IH]; [reflexivity|]. cbn [rev]. rewrite gather_app, IH. cbn [SeqOps.gather].
  destruct (nth_error l p); [reflexivity|]. cbn [rev]. rewrite app_nil_r. reflexivity.
Qed.

(* ---------- the positions of a slice, highest first ---------- *)

Lemma StronglySorted_snoc {X} (R : X -> X -> Prop) : forall l x,
  StronglySorted R l -> Forall (fun y => R y x) l -> StronglySorted R (l ++ [x]).
Proof.
  induction l as [|y l IH]; intros x S F; cbn [app].
  - constructor; constructor.
  - inversion S as [|y' l' S' Hy]; subst. inversion F as [|y' l' Hx F']; subst. constructor; [apply IH; assumption|].
    apply Forall_app. split; [exact Hy|]. constructor; [exact Hx|constructor].
Qed.

Lemma StronglySorted_lt_rev : forall l : list nat, StronglySorted lt l -> StronglySorted gt (rev l).
Proof.
  induction l as [|y l IH]; intro S; cbn [rev]; [constructor|].
  inversion S as [|y' l' S' Hy]; subst. apply StronglySorted_snoc; [apply IH; exact S'|].
  apply Forall_forall. intros q Hq. apply in_rev in Hq. apply (proj1 (Forall_forall _ _) Hy) in Hq. unfold gt. exact Hq.
Qed.

Theorem descending_positions a b c len s e st : SeqOps.py_slice_indices a b c len = Ok (s, e, st) ->
  desc_below len (descending st (SeqOps.py_range_positions s e st len)).
Proof.
  intro H. assert (Hst : st = c) by (apply SeqOpsProofs.py_slice_indices_bounds in H; tauto). subst st.
  destruct (SeqOpsProofs.py_range_positions_props a b c len s e H) as (F & Sp & Sn & _).
  assert (Hc : c <> 0) by (apply SeqOpsProofs.py_slice_indices_bounds in H; tauto).
  unfold descending. destruct (Z.ltb_spec 0 c) as [P|P].
  - split; [apply StronglySorted_lt_rev; apply Sp; exact P|]. apply Forall_forall. intros q Hq. apply in_rev in Hq.
    apply (proj1 (Forall_forall _ _) F). exact Hq.
  - split; [apply Sn; lia|exact F].
Qed.

Lemma descending_In st ps q : In q (descending st ps) <-> In q ps.
Proof. unfold descending. destruct (0 <? st); [symmetry; apply in_rev|reflexivity]. Qed.

(* drop_positions keeps a stretch none of whose positions is selected *)
Lemma drop_positions_keep l : forall ps k,
  (forall q, (k <= q < k + length l)%nat -> ~ In q ps) -> drop_positions l ps k = l.
Proof.
  induction l as [|y l IH]; intros ps k H; cbn [drop_positions]; [reflexivity|].
  cbn [length] in H. destruct (existsb (Nat.eqb k) ps) eqn:E.
  - apply inb_In in E. exfalso. apply (H k); [lia|exact E].
  - f_equal. apply IH. intros q Hq. apply H. lia.
Qed.

Lemma skipn_skipn_add {X} : forall a b (l : list X), skipn a (skipn b l) = skipn (b + a) l.
Proof.
  intros a b. induction b as [|b IH]; intro l; [reflexivity|]. destruct l as [|y l]; [destruct a; reflexivity|].
  cbn [skipn Nat.add]. apply IH.
Qed.

(* the selected positions are an interval [lo, hi): the two ends of the list are left *)
Lemma drop_positions_interval (l : list id) ps lo hi :
  (forall q, In q ps <-> (lo <= q < hi)%nat) -> (lo <= length l)%nat -> (hi <= length l)%nat ->
  drop_positions l ps 0 = firstn lo l ++ skipn (Nat.max lo hi) l.
Proof.
  intros H Hlo Hhi. set (m := Nat.max lo hi).
  assert (E : l = firstn lo l ++ firstn (m - lo) (skipn lo l) ++ skipn m l).
  { rewrite <- (firstn_skipn lo l) at 1. f_equal. rewrite <- (firstn_skipn (m - lo) (skipn lo l)) at 1. f_equal.
    rewrite skipn_skipn_add. f_equal. unfold m. lia. }
  rewrite E at 1. rewrite !drop_positions_app.
  assert (L1 : length (firstn lo l) = lo) by (apply firstn_length_le; exact Hlo).
  assert (L2 : length (firstn (m - lo) (skipn lo l)) = (m - lo)%nat).
  { apply firstn_length_le. rewrite skipn_length. unfold m. lia. }
  rewrite L1, L2. rewrite (drop_positions_keep (firstn lo l)).
  - rewrite (drop_positions_all (firstn (m - lo) (skipn lo l))).
    + rewrite (drop_positions_keep (skipn m l)); [reflexivity|]. intros q Hq C. apply H in C. unfold m in Hq. lia.
    + rewrite L2. intros q Hq. apply H. unfold m in Hq. lia.
  - rewrite L1. intros q Hq C. apply H in C. lia.
Qed.

(* ================================================================== *)
(* 2. worlds                                                           *)
(* ================================================================== *)

Lemma norm_index_of_nat p len : (p < len)%nat -> norm_index (Z.of_nat p) len = Some p.
Proof.
  intro H. unfold norm_index.
  replace (0 <=? Z.of_nat p) with true by (symmetry; apply Z.leb_le; lia).
  replace (Z.of_nat p <? Z.of_nat len) with true by (symmetry; apply Z.ltb_lt; lia).
  cbn [andb]. rewrite Nat2Z.id. reflexivity.
Qed.

Lemma del_positions_nil ir w : del_positions ir [] w = Ok w.
Proof. reflexivity. Qed.

Lemma del_positions_cons ir p ps w :
  del_positions ir (p :: ps) w =
  match step w (OModDelItem ir (Z.of_nat p)) with Ok w1 => del_positions ir ps w1 | Err e => Err e end.
Proof.
  unfold del_positions. cbn [fold_left]. change (IndexCheck.step_checked w (OModDelItem ir (Z.of_nat p))) with (step w (OModDelItem ir (Z.of_nat p))).
  destruct (step w (OModDelItem ir (Z.of_nat p))) as [w1|e]; [reflexivity|].
  induction ps as [|q ps IH]; [reflexivity|]. cbn [fold_left]. exact IH.
Qed.

Lemma is_k_after_detach w w1 ir v :
  (forall x, nodes w1 x = if x =? v then Some (with_par (getn w v) None) else nodes w x) ->
  is_k w ir KIR = true -> is_k w1 ir KIR = true.
Proof.
  intros Hn K. unfold is_k, has, kindof, getn in *. rewrite (Hn ir). destruct (Z.eqb_spec ir v) as [E|E]; [|exact K].
  subst v. apply andb_true_iff in K. destruct K as [_ K2]. cbn [andb with_par nk]. exact K2.
Qed.

Lemma gather_cons_some (l : list Z) p ps v : nth_error l p = Some v -> SeqOps.gather l (p :: ps) = v :: SeqOps.gather l ps.
Proof. intro H. cbn [SeqOps.gather]. rewrite H. reflexivity. Qed.

Lemma with_par_idem n : with_par (with_par n None) None = with_par n None.
Proof. reflexivity. Qed.

Lemma del_positions_effect ir known : forall ps w,
  reachable_k w known -> is_k w ir KIR = true -> desc_below (length (kids w ir)) ps ->
  exists w', del_positions ir ps w = Ok w' /\
    kids w' ir = remove_all ps (kids w ir) /\
    (forall x, x <> ir -> kids w' x = kids w x) /\
    (forall x, nodes w' x = if mem x (SeqOps.gather (kids w ir) ps) then Some (with_par (getn w x) None) else nodes w x) /\
    reachable_k w' known /\ is_k w' ir KIR = true.
Proof.
  induction ps as [|p ps IH]; intros w R K D.
  - exists w. split; [reflexivity|]. split; [reflexivity|]. split; [reflexivity|]. split; [|split; assumption].
    intro x. reflexivity.
  - destruct (desc_below_inv _ _ _ D) as [Hp [L D']].
    assert (G : op_okb w known (OModDelItem ir (Z.of_nat p)) = true) by exact K.
    destruct (ModListProofs.delitem_effect_some w known ir (Z.of_nat p) p (WorldInv.reach_forest w known R)
                (WorldInv.reach_cache w known R) G (norm_index_of_nat p _ Hp)) as (v & Hv & Hs & Hk & Hf & Hn & _).
    set (w1 := ModListProofs.detach w ir v) in *.
    assert (R1 : reachable_k w1 known).
    { pose proof (WorldInv.reachable_k_step w known _ R G) as R1. unfold step' in R1. rewrite Hs in R1. exact R1. }
    assert (K1 : is_k w1 ir KIR = true) by (apply (is_k_after_detach w w1 ir v Hn K)).
    assert (D1 : desc_below (length (kids w1 ir)) ps).
    { apply (desc_below_weaken p); [|exact D']. rewrite Hk. rewrite remove_at_length by exact Hp. lia. }
    destruct (IH w1 R1 K1 D1) as (w' & E & Ek & Ef & En & R' & K').
    exists w'. split; [rewrite del_positions_cons, Hs; exact E|].
    split; [rewrite Ek, Hk; reflexivity|].
    split; [intros x Hx; rewrite Ef, Hf by exact Hx; reflexivity|].
    split; [|split; assumption].
    intro x. rewrite En. rewrite Hk. rewrite gather_remove_at by exact L. rewrite (gather_cons_some _ p ps v Hv).
    unfold mem at 2. cbn [existsb]. fold (mem x (SeqOps.gather (kids w ir) ps)).
    unfold getn at 1. rewrite (Hn x).
    destruct (Z.eqb_spec x v) as [Ex|Ex]; destruct (mem x (SeqOps.gather (kids w ir) ps)); cbn [orb]; try reflexivity.
    all: subst x; reflexivity.
Qed.

Lemma mem_gather_descending (l : list Z) st ps x : mem x (SeqOps.gather l (descending st ps)) = mem x (SeqOps.gather l ps).
Proof.
  apply eq_true_iff_eq. rewrite !mem_In, !gather_In. split; intros [p [H1 H2]]; exists p; (split; [|exact H2]).
  - apply descending_In in H1. exact H1.
  - apply descending_In. exact H1.
Qed.

(* del ir.modules[a:b:c], c <> 0: what the built-in list leaves; the deleted modules are detached; nothing else changes *)
Theorem delext_effect w known ir a b c s e st :
  reachable_k w known -> is_k w ir KIR = true ->
  SeqOps.py_slice_indices a b c (length (kids w ir)) = Ok (s, e, st) ->
  let ps := SeqOps.py_range_positions s e st (length (kids w ir)) in
  let victims := SeqOps.gather (kids w ir) ps in
  exists w', ml_delext w ir a b c = Ok w' /\
    kids w' ir = drop_positions (kids w ir) ps 0 /\
    (forall x, x <> ir -> kids w' x = kids w x) /\
    (forall x, nodes w' x = if mem x victims then Some (with_par (getn w x) None) else nodes w x) /\
    (forall x, In x victims -> par w' x = None) /\
    reachable_k w' known.
Proof.
  intros R K H ps victims. pose proof (descending_positions _ _ _ _ _ _ _ H) as D. fold ps in D.
  destruct (del_positions_effect ir known (descending st ps) w R K D) as (w' & E & Ek & Ef & En & R' & _).
  assert (En' : forall x, nodes w' x = if mem x victims then Some (with_par (getn w x) None) else nodes w x).
  { intro x. rewrite En. rewrite mem_gather_descending. reflexivity. }
  exists w'. split; [unfold ml_delext; rewrite H; exact E|].
  split.
  { rewrite Ek. rewrite remove_all_drop_positions by exact D. apply drop_positions_ext. intros q _. apply descending_In. }
  split; [exact Ef|]. split; [exact En'|]. split; [|exact R'].
  intros x Hx. apply mem_In in Hx. unfold par, getn. rewrite En', Hx. reflexivity.
Qed.

(* the members afterwards: those of before that were not selected; no repetitions; as many fewer as positions selected *)
Corollary delext_effect_members w known ir a b c s e st :
  reachable_k w known -> is_k w ir KIR = true ->
  SeqOps.py_slice_indices a b c (length (kids w ir)) = Ok (s, e, st) ->
  let ps := SeqOps.py_range_positions s e st (length (kids w ir)) in
  let victims := SeqOps.gather (kids w ir) ps in
  exists w', ml_delext w ir a b c = Ok w' /\
    (forall x, In x (kids w' ir) <-> In x (kids w ir) /\ ~ In x victims) /\
    NoDup (kids w' ir) /\
    length (kids w' ir) = (length (kids w ir) - length ps)%nat.
Proof.
  intros R K H ps victims. destruct (delext_effect w known ir a b c s e st R K H) as (w' & E & Ek & _).
  fold ps in Ek. pose proof (f_nodup w known (WorldInv.reach_forest w known R) ir) as N.
  exists w'. split; [exact E|]. rewrite Ek. split; [intro x; apply drop_positions_In_gather; exact N|].
  split; [apply drop_positions_NoDup; exact N|].
  pose proof (descending_positions _ _ _ _ _ _ _ H) as D. fold ps in D.
  rewrite (drop_positions_ext (kids w ir) ps (descending st ps) 0%nat) by (intros q _; symmetry; apply descending_In).
  rewrite drop_positions_length by exact D. f_equal. unfold descending. destruct (0 <? st); [apply rev_length|reflexivity].
Qed.

(* 3. step 0: ValueError, before anything is touched *)
Theorem delext_zero_step w ir a b : ml_delext w ir a b 0 = Err EValue.
Proof. reflexivity. Qed.

(* ---------- 4. step 1: the plain slice ---------- *)

Lemma step1_indices a b len :
  SeqOps.py_slice_indices a b 1 len = Ok (norm_bound a 0 len, norm_bound b (Z.of_nat len) len, 1).
Proof.
  unfold SeqOps.py_slice_indices. change (1 =? 0) with false. change (1 <? 0) with false. cbv iota zeta.
  unfold SeqOps.slice_bound, norm_bound.
  assert (Hpair : forall x y x' y' : Z, x = x' -> y = y' -> @Ok (Z * Z * Z) (x, y, 1) = Ok (x', y', 1))
    by (intros x y x' y' -> ->; reflexivity).
  destruct a as [v|]; destruct b as [u|]; apply Hpair; try reflexivity.
  - destruct (v <? 0); lia.
  - destruct (u <? 0); lia.
  - destruct (v <? 0); lia.
  - destruct (u <? 0); lia.
Qed.

Lemma range_step1_In a b len s e q : SeqOps.py_slice_indices a b 1 len = Ok (s, e, 1) ->
  (In q (SeqOps.py_range_positions s e 1 len) <-> s <= Z.of_nat q < e).
Proof.
  intro H. split.
  - intro I. apply In_nth_error in I. destruct I as [k Hk].
    apply (SeqOpsProofs.py_range_positions_nth a b 1 len s e k q H) in Hk. change (0 <? 1) with true in Hk. cbv iota in Hk. lia.
  - intro I. apply (nth_error_In _ (Z.to_nat (Z.of_nat q - s))).
    apply (SeqOpsProofs.py_range_positions_nth a b 1 len s e _ q H). change (0 <? 1) with true. cbv iota.
    rewrite Z2Nat.id by lia. lia.
Qed.

Lemma gather_step1 (l : list Z) lo hi0 : 0 <= lo <= Z.of_nat (length l) -> 0 <= hi0 <= Z.of_nat (length l) ->
  SeqOps.gather l (SeqOps.py_range_positions lo hi0 1 (length l)) = ModListProofs.slice_victims l lo (Z.max lo hi0).
Proof.
  intros Hlo Hhi. unfold ModListProofs.slice_victims, SeqOps.py_range_positions. change (1 =? 0) with false. cbv iota.
  destruct (Z_le_gt_dec lo hi0) as [Hab|Hab].
  - rewrite Z.max_r by lia.
    replace lo with (Z.of_nat (Z.to_nat lo)) at 1 by lia.
    replace hi0 with (Z.of_nat (Z.to_nat lo + Z.to_nat (hi0 - lo))) at 1 by lia.
    apply SeqOpsProofs.gather_range_up; lia.
  - rewrite Z.max_l by lia. replace (Z.to_nat (lo - lo)) with O by lia. cbn [firstn].
    destruct (length l) as [|n]; cbn [SeqOps.range_from]; [reflexivity|].
    change (0 <? 1) with true. cbv iota.
    destruct (Z.ltb_spec lo hi0) as [H|H]; [lia|]. reflexivity.
Qed.

(* del ir.modules[a:b:1] is del ir.modules[a:b]: the statement of ModListProofs.delslice_effect (C16_modlist_delslice) *)
Theorem delext_step_one w known ir a b :
  reachable_k w known -> is_k w ir KIR = true ->
  let l := kids w ir in
  let lo := norm_bound a 0 (length l) in
  let hi := Z.max lo (norm_bound b (Z.of_nat (length l)) (length l)) in
  let victims := ModListProofs.slice_victims l lo hi in
  exists w', ml_delext w ir a b 1 = Ok w' /\
    kids w' ir = firstn (Z.to_nat lo) l ++ skipn (Z.to_nat hi) l /\
    (forall x, x <> ir -> kids w' x = kids w x) /\
    (forall x, nodes w' x = if mem x victims then Some (with_par (getn w x) None) else nodes w x) /\
    (forall x, In x victims -> par w' x = None) /\
    reachable_k w' known.
Proof.
  intros R K l lo hi victims. pose proof (step1_indices a b (length l)) as H. fold lo in H.
  set (hi0 := norm_bound b (Z.of_nat (length l)) (length l)) in *.
  destruct (delext_effect w known ir a b 1 lo hi0 1 R K H) as (w' & E & Ek & Ef & En & Ep & R').
  destruct (SeqOpsProofs.py_slice_indices_bounds _ _ _ _ _ _ _ H) as (_ & _ & Hb & _).
  destruct (Hb ltac:(lia)) as [Blo Bhi].
  assert (V : SeqOps.gather l (SeqOps.py_range_positions lo hi0 1 (length l)) = victims) by (apply gather_step1; assumption).
  fold l in Ek, En, Ep. rewrite V in En, Ep.
  exists w'. split; [exact E|]. split; [|split; [exact Ef|split; [exact En|split; [exact Ep|exact R']]]].
  rewrite Ek. rewrite (drop_positions_interval l _ (Z.to_nat lo) (Z.to_nat hi0)).
  - unfold hi. rewrite Z2Nat.inj_max. reflexivity.
  - intro q. rewrite (range_step1_In a b (length l) lo hi0 q H). lia.
  - lia.
  - lia.
Qed.

(* ---------- 5. del ir.modules[::-1] deletes everything ---------- *)

Theorem delext_reverse_all w known ir :
  reachable_k w known -> is_k w ir KIR = true ->
  exists w', ml_delext w ir None None (-1) = Ok w' /\
    kids w' ir = [] /\
    (forall x, x <> ir -> kids w' x = kids w x) /\
    (forall x, nodes w' x = if mem x (kids w ir) then Some (with_par (getn w x) None) else nodes w x) /\
    (forall x, In x (kids w ir) -> par w' x = None) /\
    reachable_k w' known.
Proof.
  intros R K. set (l := kids w ir).
  assert (H : SeqOps.py_slice_indices None None (-1) (length l) = Ok (Z.of_nat (length l) - 1, -1, -1)) by reflexivity.
  destruct (delext_effect w known ir None None (-1) _ _ _ R K H) as (w' & E & Ek & Ef & En & Ep & R').
  fold l in Ek, En, Ep. set (ps := SeqOps.py_range_positions (Z.of_nat (length l) - 1) (-1) (-1) (length l)) in *.
  assert (A : forall q, (q < length l)%nat -> In q ps).
  { intros q Hq. apply (nth_error_In _ (length l - 1 - q)%nat).
    apply (SeqOpsProofs.py_range_positions_nth None None (-1) (length l) _ _ _ q H).
    change (0 <? -1) with false. cbv iota. lia. }
  assert (M : forall x, mem x (SeqOps.gather l ps) = mem x l).
  { intro x. apply eq_true_iff_eq. rewrite !mem_In, gather_In. split.
    - intros [p [_ Hp]]. apply nth_error_In in Hp. exact Hp.
    - intro I. apply In_nth_error in I. destruct I as [p Hp]. exists p. split; [|exact Hp].
      apply A. apply nth_error_Some. rewrite Hp. discriminate. }
  exists w'. split; [exact E|]. split; [rewrite Ek; apply drop_positions_all; intros q Hq; apply A; lia|].
  split; [exact Ef|]. split; [intro x; rewrite En, M; reflexivity|]. split; [|exact R'].
  intros x Hx. apply Ep. apply mem_In. rewrite M. apply mem_In. exact Hx.
Qed.

Print Assumptions remove_all_drop_positions.
Print Assumptions drop_positions_rev.
Print Assumptions drop_positions_In0.
Print Assumptions drop_positions_length.
Print Assumptions drop_positions_NoDup.
Print Assumptions drop_positions_In_gather.
Print Assumptions descending_positions.
Print Assumptions delext_effect.
Print Assumptions delext_effect_members.
Print Assumptions delext_zero_step.
Print Assumptions delext_step_one.
Print Assumptions delext_reverse_all.
