(* Proofs about Base/Bytes.v. *)
From Coq Require Import ZArith List Bool Lia ZifyBool.
From V Require Import Bytes.
Import ListNotations.
Open Scope Z_scope.

Ltac Zify.zify_post_hook ::= Z.to_euclidean_division_equations.

Lemma pow256_S : forall n, pow256 (S n) = 256 * pow256 n.
Proof.
  intros n. unfold pow256.
  rewrite Nat2Z.inj_succ, Z.pow_succ_r by apply Nat2Z.is_nonneg.
  reflexivity.
Qed.

Lemma pow256_pos : forall n, 0 < pow256 n.
Proof.
  intros n. unfold pow256. apply Z.pow_pos_nonneg.
  - reflexivity.
  - apply Nat2Z.is_nonneg.
Qed.

Lemma le_bytes_length : forall n x, length (le_bytes n x) = n.
Proof.
  induction n as [|n IH]; intros x; cbn [le_bytes length].
  - reflexivity.
  - rewrite IH. reflexivity.
Qed.

Lemma is_byte_iff : forall b, is_byte b = true <-> 0 <= b < 256.
Proof.
  intros b. unfold is_byte.
  rewrite andb_true_iff, Z.leb_le, Z.ltb_lt. reflexivity.
Qed.

Lemma le_bytes_bytes : forall n x, all_bytes (le_bytes n x) = true.
Proof.
  unfold all_bytes.
  induction n as [|n IH]; intros x; cbn [le_bytes forallb].
  - reflexivity.
  - rewrite IH, andb_true_r. apply is_byte_iff.
    apply Z.mod_pos_bound. reflexivity.
Qed.

Lemma of_le_le_bytes : forall n x, of_le (le_bytes n x) = x mod pow256 n.
Proof.
  induction n as [|n IH]; intros x; cbn [le_bytes of_le].
  - unfold pow256. change (256 ^ Z.of_nat 0) with 1. rewrite Z.mod_1_r. reflexivity.
  - rewrite IH, pow256_S.
    pose proof (pow256_pos n) as Hp.
    rewrite Z.rem_mul_r by lia. reflexivity.
Qed.

Lemma le_bytes_of_le : forall bs, all_bytes bs = true -> le_bytes (length bs) (of_le bs) = bs.
Proof.
  unfold all_bytes.
  induction bs as [|b bs IH]; intros Hall; cbn [length le_bytes of_le].
  - reflexivity.
  - cbn [forallb] in Hall. apply andb_true_iff in Hall. destruct Hall as [Hb Hrest].
    apply is_byte_iff in Hb.
    assert (Hm : (b + 256 * of_le bs) mod 256 = b) by lia.
    assert (Hd : (b + 256 * of_le bs) / 256 = of_le bs) by lia.
    rewrite Hm, Hd, (IH Hrest). reflexivity.
Qed.

Lemma of_le_range : forall bs, all_bytes bs = true -> 0 <= of_le bs < pow256 (length bs).
Proof.
  unfold all_bytes.
  induction bs as [|b bs IH]; intros Hall; cbn [length of_le].
  - unfold pow256. change (256 ^ Z.of_nat 0) with 1. lia.
  - cbn [forallb] in Hall. apply andb_true_iff in Hall. destruct Hall as [Hb Hrest].
    apply is_byte_iff in Hb. specialize (IH Hrest).
    rewrite pow256_S. lia.
Qed.

