(* "Move everything from there to here": bulk adds whose argument is the whole collection of an owner (D12).
   List facts used by Props/C16.v. *)
From Coq Require Import ZArith List Bool Lia.
From V Require Import Result LazyTree World.
Import ListNotations.
Open Scope Z_scope.

Lemma remove_id_notin : forall x l, ~ In x l -> remove_id x l = l.
Proof.
  intros x l. unfold remove_id. induction l as [|y t IH]; intros H; cbn [filter]; [reflexivity|].
  destruct (Z.eqb_spec y x) as [E|E]; cbn [negb].
  - exfalso. apply H. left. exact E.
  - f_equal. apply IH. intro Hin. apply H. right. exact Hin.
Qed.

Lemma remove_id_head : forall x l, ~ In x l -> remove_id x (x :: l) = l.
Proof.
  intros x l H. unfold remove_id. cbn [filter]. rewrite Z.eqb_refl. cbn [negb]. exact (remove_id_notin x l H).
Qed.

Lemma NoDup_snoc : forall (l : list Z) x, NoDup l -> ~ In x l -> NoDup (l ++ [x]).
Proof.
  intros l x Hl Hx. pose proof (Add_app x l []) as HA. rewrite app_nil_r in HA.
  apply (proj2 (NoDup_Add HA)). split; assumption.
Qed.

(* l.extend(l) with moved-not-duplicated semantics: every element is taken out and appended in turn -- the list is unchanged *)
Lemma extend_rotate : forall rest done, NoDup (rest ++ done) ->
  fold_left (fun l v => remove_id v l ++ [v]) rest (rest ++ done) = done ++ rest.
Proof.
  induction rest as [|x r IH]; intros done H; cbn [fold_left app].
  - rewrite app_nil_r. reflexivity.
  - cbn [app] in H. inversion H as [|x' t Hx Hnd]; subst.
    rewrite (remove_id_head x (r ++ done) Hx).
    rewrite <- app_assoc.
    rewrite (IH (done ++ [x])).
    + rewrite <- app_assoc. reflexivity.
    + rewrite app_assoc. apply NoDup_snoc; assumption.
Qed.

(* removing every element of a duplicate-free list from itself leaves nothing; from a disjoint list, everything *)
Lemma remove_all_self : forall l, fold_left (fun acc v => remove_id v acc) l l = [].
Proof.
  assert (G : forall l acc, (forall y, In y acc -> In y l) -> fold_left (fun a v => remove_id v a) l acc = []).
  { induction l as [|x r IH]; intros acc H; cbn [fold_left].
    - destruct acc as [|y t]; [reflexivity|]. exfalso. exact (H y (or_introl eq_refl)).
    - apply IH. intros y Hy. unfold remove_id in Hy. apply filter_In in Hy. destruct Hy as [Hin Hne].
      apply negb_true_iff in Hne. apply Z.eqb_neq in Hne.
      destruct (H y Hin) as [E|Hr]; [exfalso; apply Hne; symmetry; exact E | exact Hr]. }
  intros l. apply G. intros y Hy. exact Hy.
Qed.

Lemma remove_all_disjoint : forall vs l, (forall v, In v vs -> ~ In v l) -> fold_left (fun acc v => remove_id v acc) vs l = l.
Proof.
  induction vs as [|x r IH]; intros l H; cbn [fold_left]; [reflexivity|].
  rewrite (remove_id_notin x l (H x (or_introl eq_refl))). apply IH. intros v Hv. apply H. right. exact Hv.
Qed.

Print Assumptions extend_rotate.
Print Assumptions remove_all_self.
Print Assumptions remove_all_disjoint.
