(* Base lemmas for the symbol-index proofs: association lists, buckets, the abstract
   exactness predicate IxOK, and the primitive world updates. *)
From Coq Require Import ZArith List Bool Lia.
From V Require Import Result LazyTree World WorldGuard ForestDefs InvDefs.
Import ListNotations.
Open Scope Z_scope.

(* ---------- small list facts ---------- *)

Lemma mem_In : forall x l, mem x l = true <-> In x l.
Proof.
  intros x l. unfold mem. rewrite existsb_exists. split.
  - intros [y [Hy He]]. apply Z.eqb_eq in He. subst. exact Hy.
  - intros H. exists x. split; [exact H | apply Z.eqb_refl].
Qed.

Lemma mem_false : forall x l, mem x l = false <-> ~ In x l.
Proof.
  intros x l. rewrite <- mem_In. destruct (mem x l); split; intros H; congruence.
Qed.

Lemma In_remove_id : forall x y l, In y (remove_id x l) <-> In y l /\ y <> x.
Proof.
  intros x y l. unfold remove_id. rewrite filter_In. split.
  - intros [H1 H2]. split; [exact H1|]. intros ->. rewrite Z.eqb_refl in H2. discriminate.
  - intros [H1 H2]. split; [exact H1|]. apply Z.eqb_neq in H2. rewrite H2. reflexivity.
Qed.

Lemma NoDup_filter : forall {X} (f : X -> bool) l, NoDup l -> NoDup (filter f l).
Proof.
  intros X f l H. induction H as [|a l Hn Hd IH]; cbn [filter].
  - constructor.
  - destruct (f a); [constructor|]; auto. rewrite filter_In. tauto.
Qed.

Lemma NoDup_remove_id : forall x l, NoDup l -> NoDup (remove_id x l).
Proof. intros. apply NoDup_filter. assumption. Qed.

Lemma NoDup_snoc : forall {X} (l : list X) x, NoDup l -> ~ In x l -> NoDup (l ++ [x]).
Proof.
  intros X l x H. induction H as [|a l Hn Hd IH]; intros Hx; cbn [app].
  - constructor; [intros []|constructor].
  - constructor.
    + rewrite in_app_iff. intros [H|[H|[]]]; [auto|]. subst. apply Hx. left; reflexivity.
    + apply IH. intros H. apply Hx. right; exact H.
Qed.

(* ---------- association lists keyed by Z ---------- *)

Section Dict.
Context {V : Type}.
Implicit Types (d : list (Z * V)) (k : Z) (v : V).

Lemma dict_get_None : forall k d, dict_get Z.eqb k d = None <-> ~ In k (map fst d).
Proof.
  intros k d. induction d as [|[k' v'] d IH]; cbn [dict_get map fst In].
  - tauto.
  - destruct (Z.eqb_spec k' k) as [E|E].
    + split; [discriminate|]. intros H. exfalso. apply H. left. exact E.
    + rewrite IH. tauto.
Qed.

Lemma dict_get_In : forall k v d, dict_get Z.eqb k d = Some v -> In (k, v) d.
Proof.
  intros k v d. induction d as [|[k' v'] d IH]; cbn [dict_get In]; [discriminate|].
  destruct (Z.eqb_spec k' k) as [E|E]; intros H.
  - inversion H. subst. left; reflexivity.
  - right. auto.
Qed.

Lemma dict_get_Some_key : forall k v d, dict_get Z.eqb k d = Some v -> In k (map fst d).
Proof. intros k v d H. apply dict_get_In in H. apply (in_map fst) in H. exact H. Qed.

Lemma dict_get_set_same : forall k v d, dict_get Z.eqb k (dict_set Z.eqb k v d) = Some v.
Proof.
  intros k v d. induction d as [|[k' v'] d IH]; cbn [dict_set dict_get].
  - rewrite Z.eqb_refl. reflexivity.
  - destruct (Z.eqb_spec k' k) as [E|E]; cbn [dict_get].
    + subst. rewrite Z.eqb_refl. reflexivity.
    + apply Z.eqb_neq in E. rewrite E. exact IH.
Qed.

Lemma dict_get_set_other : forall k k' v d, k' <> k ->
  dict_get Z.eqb k' (dict_set Z.eqb k v d) = dict_get Z.eqb k' d.
Proof.
  intros k k' v d Hne. induction d as [|[k1 v1] d IH]; cbn [dict_set dict_get].
  - destruct (Z.eqb_spec k k'); [congruence|reflexivity].
  - destruct (Z.eqb_spec k1 k) as [E|E]; cbn [dict_get].
    + subst. destruct (Z.eqb_spec k k'); [congruence|reflexivity].
    + rewrite IH. reflexivity.
Qed.

Lemma dict_get_del_same : forall k d, dict_get Z.eqb k (dict_del Z.eqb k d) = None.
Proof.
  intros k d. unfold dict_del. induction d as [|[k1 v1] d IH]; cbn [filter fst dict_get].
  - reflexivity.
  - destruct (Z.eqb_spec k1 k) as [E|E]; cbn [negb dict_get]; [exact IH|].
    apply Z.eqb_neq in E. rewrite E. exact IH.
Qed.

Lemma dict_get_del_other : forall k k' d, k' <> k ->
  dict_get Z.eqb k' (dict_del Z.eqb k d) = dict_get Z.eqb k' d.
Proof.
  intros k k' d Hne. unfold dict_del. induction d as [|[k1 v1] d IH]; cbn [filter fst dict_get].
  - reflexivity.
  - destruct (Z.eqb_spec k1 k) as [E|E]; cbn [negb dict_get].
    + subst. destruct (Z.eqb_spec k k'); [congruence|exact IH].
    + rewrite IH. reflexivity.
Qed.

Lemma dict_get_snoc_same : forall k v d, dict_get Z.eqb k d = None ->
  dict_get Z.eqb k (d ++ [(k, v)]) = Some v.
Proof.
  intros k v d. induction d as [|[k1 v1] d IH]; cbn [app dict_get].
  - rewrite Z.eqb_refl. reflexivity.
  - destruct (Z.eqb_spec k1 k); [discriminate|exact IH].
Qed.

Lemma dict_get_snoc_other : forall k k' v d, k' <> k ->
  dict_get Z.eqb k' (d ++ [(k, v)]) = dict_get Z.eqb k' d.
Proof.
  intros k k' v d Hne. induction d as [|[k1 v1] d IH]; cbn [app dict_get].
  - destruct (Z.eqb_spec k k'); [congruence|reflexivity].
  - rewrite IH. reflexivity.
Qed.

Lemma keys_dict_set_present : forall k v d, In k (map fst d) ->
  map fst (dict_set Z.eqb k v d) = map fst d.
Proof.
  intros k v d. induction d as [|[k1 v1] d IH]; cbn [dict_set map fst In]; [tauto|].
  intros H. destruct (Z.eqb_spec k1 k) as [E|E]; cbn [map fst].
  - reflexivity.
  - f_equal. apply IH. destruct H; [congruence|assumption].
Qed.

Lemma keys_dict_set_absent : forall k v d, ~ In k (map fst d) ->
  map fst (dict_set Z.eqb k v d) = map fst d ++ [k].
Proof.
  intros k v d. induction d as [|[k1 v1] d IH]; cbn [dict_set map fst In app]; [reflexivity|].
  intros H. destruct (Z.eqb_spec k1 k) as [E|E]; cbn [map fst].
  - exfalso. apply H. left. exact E.
  - f_equal. apply IH. tauto.
Qed.

Lemma NoDup_keys_dict_set : forall k v d, NoDup (map fst d) -> NoDup (map fst (dict_set Z.eqb k v d)).
Proof.
  intros k v d H. destruct (in_dec Z.eq_dec k (map fst d)) as [Hi|Hi].
  - rewrite keys_dict_set_present; assumption.
  - rewrite keys_dict_set_absent by assumption. apply NoDup_snoc; assumption.
Qed.

Lemma NoDup_keys_dict_del : forall k d, NoDup (map fst d) -> NoDup (map fst (dict_del Z.eqb k d)).
Proof.
  intros k d. unfold dict_del. induction d as [|[k1 v1] d IH]; cbn [filter map fst]; intros H.
  - constructor.
  - inversion H as [|a l Hn Hd]; subst.
    destruct (negb (k1 =? k)); cbn [map fst]; [constructor|]; auto.
    intros Hin. apply Hn. clear -Hin. induction d as [|[k2 v2] d IH]; cbn [filter map fst In] in *; [tauto|].
    destruct (negb (k2 =? k)); cbn [map fst In] in *; tauto.
Qed.

Lemma NoDup_keys_snoc : forall k v d, NoDup (map fst d) -> dict_get Z.eqb k d = None ->
  NoDup (map fst (d ++ [(k, v)])).
Proof.
  intros k v d H Hn. rewrite map_app. cbn [map fst]. apply NoDup_snoc; [assumption|].
  apply dict_get_None. assumption.
Qed.

End Dict.

(* ---------- buckets ---------- *)

Section Bucket.
Implicit Types (d : list (Z * list id)) (k x : Z).

Lemma bucket_add_nodup : forall k x d, NoDup (map fst d) -> NoDup (map fst (bucket_add Z.eqb k x d)).
Proof.
  intros k x d H. unfold bucket_add. destruct (dict_get Z.eqb k d) as [b|] eqn:E.
  - apply NoDup_keys_dict_set. assumption.
  - apply NoDup_keys_snoc; assumption.
Qed.

Lemma bucket_add_get_some : forall k x d b, dict_get Z.eqb k d = Some b ->
  dict_get Z.eqb k (bucket_add Z.eqb k x d) = Some (if mem x b then b else b ++ [x]).
Proof. intros k x d b E. unfold bucket_add. rewrite E. apply dict_get_set_same. Qed.

Lemma bucket_add_get_none : forall k x d, dict_get Z.eqb k d = None ->
  dict_get Z.eqb k (bucket_add Z.eqb k x d) = Some [x].
Proof. intros k x d E. unfold bucket_add. rewrite E. apply dict_get_snoc_same. assumption. Qed.

Lemma bucket_add_get_other : forall k k' x d, k' <> k ->
  dict_get Z.eqb k' (bucket_add Z.eqb k x d) = dict_get Z.eqb k' d.
Proof.
  intros k k' x d Hne. unfold bucket_add. destruct (dict_get Z.eqb k d) as [b|] eqn:E.
  - apply dict_get_set_other. assumption.
  - apply dict_get_snoc_other. assumption.
Qed.

Lemma bucket_discard_nodup : forall k x d, NoDup (map fst d) -> NoDup (map fst (bucket_discard Z.eqb k x d)).
Proof.
  intros k x d H. unfold bucket_discard. destruct (dict_get Z.eqb k d) as [b|] eqn:E; [|assumption].
  destruct (remove_id x b) as [|z zs].
  - apply NoDup_keys_dict_del. assumption.
  - apply NoDup_keys_dict_set. assumption.
Qed.

Lemma bucket_discard_get_empty : forall k x d b, dict_get Z.eqb k d = Some b -> remove_id x b = [] ->
  dict_get Z.eqb k (bucket_discard Z.eqb k x d) = None.
Proof. intros k x d b E Hr. unfold bucket_discard. rewrite E, Hr. apply dict_get_del_same. Qed.

Lemma bucket_discard_get_nonempty : forall k x d b, dict_get Z.eqb k d = Some b -> remove_id x b <> [] ->
  dict_get Z.eqb k (bucket_discard Z.eqb k x d) = Some (remove_id x b).
Proof.
  intros k x d b E Hr. unfold bucket_discard. rewrite E.
  destruct (remove_id x b) as [|z zs] eqn:Er; [congruence|]. apply dict_get_set_same.
Qed.

Lemma bucket_discard_absent : forall k x d, dict_get Z.eqb k d = None -> bucket_discard Z.eqb k x d = d.
Proof. intros k x d E. unfold bucket_discard. rewrite E. reflexivity. Qed.

Lemma bucket_discard_get_other : forall k k' x d, k' <> k ->
  dict_get Z.eqb k' (bucket_discard Z.eqb k x d) = dict_get Z.eqb k' d.
Proof.
  intros k k' x d Hne. unfold bucket_discard. destruct (dict_get Z.eqb k d) as [b|] eqn:E; [|reflexivity].
  destruct (remove_id x b) as [|z zs].
  - apply dict_get_del_other. assumption.
  - apply dict_get_set_other. assumption.
Qed.

End Bucket.

(* ---------- exactness of an index with respect to a membership/key relation ---------- *)

Definition IxOK (d : list (Z * list id)) (R : id -> Z -> Prop) : Prop :=
  NoDup (map fst d) /\
  (forall k b, dict_get Z.eqb k d = Some b -> b <> [] /\ NoDup b /\ forall y, In y b <-> R y k) /\
  (forall k y, R y k -> exists b, dict_get Z.eqb k d = Some b).

Lemma IxOK_ext : forall d R R', (forall y k, R y k <-> R' y k) -> IxOK d R -> IxOK d R'.
Proof.
  intros d R R' He (H1 & H2 & H3). split; [exact H1|]. split.
  - intros k b Hg. destruct (H2 k b Hg) as (Ha & Hb & Hc). split; [exact Ha|]. split; [exact Hb|].
    intros y. rewrite Hc. apply He.
  - intros k y Hr. apply (H3 k y). apply He. exact Hr.
Qed.

Lemma IxOK_nil : forall R, (forall y k, ~ R y k) -> IxOK [] R.
Proof.
  intros R Hn. split; [constructor|]. split.
  - intros k b H. discriminate.
  - intros k y Hr. exfalso. exact (Hn y k Hr).
Qed.

Lemma IxOK_add : forall d R R' k x,
  IxOK d R -> (forall y k', R' y k' <-> R y k' \/ (y = x /\ k' = k)) ->
  IxOK (bucket_add Z.eqb k x d) R'.
Proof.
  intros d R R' k x (H1 & H2 & H3) He. split; [apply bucket_add_nodup; exact H1|]. split.
  - intros k' b' Hg. destruct (Z.eq_dec k' k) as [->|Hne].
    + destruct (dict_get Z.eqb k d) as [b|] eqn:E.
      * rewrite (bucket_add_get_some k x d b E) in Hg. injection Hg as Hb. subst b'.
        destruct (H2 k b E) as (Ha & Hb' & Hc).
        destruct (mem x b) eqn:Em.
        -- split; [exact Ha|]. split; [exact Hb'|]. intros y. rewrite He, Hc. split; [tauto|].
           intros [Hr|[-> _]]; [exact Hr|]. apply Hc. apply mem_In. exact Em.
        -- split; [destruct b; discriminate|]. split.
           ++ apply NoDup_snoc; [exact Hb'|]. apply mem_false. exact Em.
           ++ intros y. rewrite in_app_iff, He, Hc. cbn [In]. split.
              ** intros [Hr|[Hx|[]]]; [tauto|]. right. split; [symmetry; exact Hx|reflexivity].
              ** intros [Hr|[-> _]]; tauto.
      * rewrite (bucket_add_get_none k x d E) in Hg. injection Hg as Hb. subst b'.
        split; [discriminate|]. split; [constructor; [intros []|constructor]|].
        intros y. rewrite He. cbn [In]. split.
        -- intros [Hx|[]]. right. split; [symmetry; exact Hx|reflexivity].
        -- intros [Hr|[-> _]]; [|left; reflexivity].
           destruct (H3 k y Hr) as [b Hb']. congruence.
    + rewrite bucket_add_get_other in Hg by exact Hne.
      destruct (H2 k' b' Hg) as (Ha & Hb & Hc). split; [exact Ha|]. split; [exact Hb|].
      intros y. rewrite He, Hc. split; [tauto|]. intros [Hr|[_ Hk]]; [exact Hr|congruence].
  - intros k' y Hr. apply He in Hr. destruct (Z.eq_dec k' k) as [->|Hne].
    + destruct (dict_get Z.eqb k d) as [b|] eqn:E.
      * rewrite (bucket_add_get_some k x d b E). eexists; reflexivity.
      * rewrite (bucket_add_get_none k x d E). eexists; reflexivity.
    + rewrite bucket_add_get_other by exact Hne. destruct Hr as [Hr|[_ Hk]]; [|congruence].
      exact (H3 k' y Hr).
Qed.

Lemma IxOK_discard : forall d R R' k x,
  IxOK d R -> (forall y k', R' y k' <-> R y k' /\ ~ (y = x /\ k' = k)) ->
  IxOK (bucket_discard Z.eqb k x d) R'.
Proof.
  intros d R R' k x (H1 & H2 & H3) He. split; [apply bucket_discard_nodup; exact H1|]. split.
  - intros k' b' Hg. destruct (Z.eq_dec k' k) as [->|Hne].
    + destruct (dict_get Z.eqb k d) as [b|] eqn:E.
      * destruct (H2 k b E) as (Ha & Hb & Hc).
        destruct (remove_id x b) as [|z zs] eqn:Er.
        -- rewrite (bucket_discard_get_empty k x d b E Er) in Hg. discriminate.
        -- rewrite (bucket_discard_get_nonempty k x d b E) in Hg by (rewrite Er; discriminate).
           injection Hg as Hb0. subst b'.
           split; [rewrite Er; discriminate|]. split; [apply NoDup_remove_id; exact Hb|].
           intros y. rewrite In_remove_id, He, Hc. split; [|tauto].
           intros [Hr Hy]. split; [exact Hr|]. intros [Hx _]. exact (Hy Hx).
      * rewrite bucket_discard_absent in Hg by exact E. congruence.
    + rewrite bucket_discard_get_other in Hg by exact Hne.
      destruct (H2 k' b' Hg) as (Ha & Hb & Hc). split; [exact Ha|]. split; [exact Hb|].
      intros y. rewrite He, Hc. split; [|tauto]. intros Hr. split; [exact Hr|]. intros [_ Hk]. exact (Hne Hk).
  - intros k' y Hr. apply He in Hr. destruct Hr as [Hr Hn]. destruct (Z.eq_dec k' k) as [->|Hne].
    + destruct (H3 k y Hr) as [b E]. destruct (H2 k b E) as (Ha & Hb & Hc).
      assert (Hy : In y (remove_id x b)).
      { apply In_remove_id. split; [apply Hc; exact Hr|]. intros Hx. apply Hn. split; [exact Hx|reflexivity]. }
      rewrite (bucket_discard_get_nonempty k x d b E).
      * eexists; reflexivity.
      * intros Hnil. rewrite Hnil in Hy. exact Hy.
    + rewrite bucket_discard_get_other by exact Hne. exact (H3 k' y Hr).
Qed.

(* ---------- the world: accessors and primitive updates ---------- *)

Lemma upd_same : forall {X} (f : id -> X) k v, upd f k v k = v.
Proof. intros. unfold upd. rewrite Z.eqb_refl. reflexivity. Qed.

Lemma upd_other : forall {X} (f : id -> X) k v x, x <> k -> upd f k v x = f x.
Proof. intros X f k v x H. unfold upd. apply Z.eqb_neq in H. rewrite H. reflexivity. Qed.

Lemma getn_setn : forall w n x y, getn (setn w n x) y = if y =? n then x else getn w y.
Proof. intros. unfold getn, setn, set_nodes, upd. cbn [nodes]. destruct (y =? n); reflexivity. Qed.

Lemma getn_setn_same : forall w n x, getn (setn w n x) n = x.
Proof. intros. rewrite getn_setn, Z.eqb_refl. reflexivity. Qed.

Lemma getn_setn_other : forall w n x y, y <> n -> getn (setn w n x) y = getn w y.
Proof. intros w n x y H. rewrite getn_setn. apply Z.eqb_neq in H. rewrite H. reflexivity. Qed.

Lemma has_setn : forall w n x y, has (setn w n x) y = if y =? n then true else has w y.
Proof. intros. unfold has, setn, set_nodes, upd. cbn [nodes]. destruct (y =? n); reflexivity. Qed.

Lemma kind_has : forall w n, kindof w n <> KSym -> has w n = true.
Proof.
  intros w n. unfold kindof, getn, has. destruct (nodes w n); [reflexivity|]. cbn. congruence.
Qed.

Lemma kmod_has : forall w n, kindof w n = KMod -> has w n = true.
Proof. intros w n H. apply kind_has. congruence. Qed.

Lemma nohas_getn : forall w n, has w n = false -> getn w n = dnode.
Proof. intros w n. unfold has, getn. destruct (nodes w n); [discriminate|reflexivity]. Qed.

(* ---------- the part of the state the symbol indexes talk about ---------- *)

Definition attrs_eq (w w' : world) : Prop :=
  forall n, nk (getn w' n) = nk (getn w n) /\ nname (getn w' n) = nname (getn w n) /\
            npay (getn w' n) = npay (getn w n).
Definition has_mono (w w' : world) : Prop := forall n, has w n = true -> has w' n = true.
Definition ix_local (w w' : world) : Prop :=
  forall n, kindof w n <> KMod -> nix w' n = nix w n /\ rix w' n = rix w n.

Lemma attrs_kind : forall w w' n, attrs_eq w w' -> kindof w' n = kindof w n.
Proof. intros w w' n H. unfold kindof. apply H. Qed.
Lemma attrs_name : forall w w' n, attrs_eq w w' -> nname (getn w' n) = nname (getn w n).
Proof. intros w w' n H. apply H. Qed.
Lemma attrs_ref : forall w w' n, attrs_eq w w' -> referent (getn w' n) = referent (getn w n).
Proof. intros w w' n H. unfold referent. destruct (H n) as (_ & _ & ->). reflexivity. Qed.

Lemma attrs_eq_refl : forall w, attrs_eq w w.
Proof. intros w n. auto. Qed.
Lemma attrs_eq_trans : forall a b c, attrs_eq a b -> attrs_eq b c -> attrs_eq a c.
Proof.
  intros a b c H1 H2 n. destruct (H1 n) as (A1 & A2 & A3). destruct (H2 n) as (B1 & B2 & B3).
  repeat split; congruence.
Qed.

Definition Rn (w : world) (m : id) : id -> Z -> Prop :=
  fun y k => In y (kids w m) /\ kindof w y = KSym /\ nname (getn w y) = k.
Definition Rr (w : world) (m : id) : id -> Z -> Prop :=
  fun y k => In y (kids w m) /\ kindof w y = KSym /\ referent (getn w y) = Some k.
Definition ModIx (w : world) (m : id) : Prop := IxOK (nix w m) (Rn w m) /\ IxOK (rix w m) (Rr w m).

Lemma SymIx_iff : forall w, SymIx w <-> forall m, kindof w m = KMod -> ModIx w m.
Proof.
  intros w. unfold SymIx, ModIx, IxOK, Rn, Rr, is_sym_of. split.
  - intros H m Hk. destruct (H m (kmod_has w m Hk) Hk) as (N1 & N2 & A & B & C & D).
    split; (split; [assumption|]); split.
    + intros k b Hg. destruct (A k b Hg) as (A1 & A2 & A3). split; [exact A1|]. split; [exact A2|].
      intros y. rewrite A3. tauto.
    + intros k y (Y1 & Y2 & Y3). apply (B k y); tauto.
    + intros k b Hg. destruct (C k b Hg) as (A1 & A2 & A3). split; [exact A1|]. split; [exact A2|].
      intros y. rewrite A3. tauto.
    + intros k y (Y1 & Y2 & Y3). apply (D k y); tauto.
  - intros H m _ Hk. destruct (H m Hk) as ((N1 & A & B) & (N2 & C & D)).
    split; [exact N1|]. split; [exact N2|]. split; [|split; [|split]].
    + intros k b Hg. destruct (A k b Hg) as (A1 & A2 & A3). split; [exact A1|]. split; [exact A2|].
      intros y. rewrite A3. tauto.
    + intros k y (Y1 & Y2) Y3. apply (B k y); tauto.
    + intros k b Hg. destruct (C k b Hg) as (A1 & A2 & A3). split; [exact A1|]. split; [exact A2|].
      intros y. rewrite A3. tauto.
    + intros k y (Y1 & Y2) Y3. apply (D k y); tauto.
Qed.

(* a transition that is harmless for the symbol indexes *)
Definition Good (w w' : world) : Prop :=
  attrs_eq w w' /\ has_mono w w' /\ ix_local w w' /\ (SymIx w -> SymIx w').

Lemma good_refl : forall w, Good w w.
Proof.
  intros w. split; [apply attrs_eq_refl|]. split; [intros n H; exact H|]. split; [intros n _; auto|auto].
Qed.

Lemma good_trans : forall a b c, Good a b -> Good b c -> Good a c.
Proof.
  intros a b c (A1 & A2 & A3 & A4) (B1 & B2 & B3 & B4).
  split; [eapply attrs_eq_trans; eassumption|]. split; [intros n H; auto|]. split; [|auto].
  intros n Hk. destruct (A3 n Hk) as [E1 E2].
  assert (Hk' : kindof b n <> KMod) by (rewrite (attrs_kind a b n A1); exact Hk).
  destruct (B3 n Hk') as [F1 F2]. split; congruence.
Qed.

Lemma good_attrs : forall w w', Good w w' -> attrs_eq w w'.
Proof. intros w w' H. apply H. Qed.
Lemma good_kind : forall w w' n, Good w w' -> kindof w' n = kindof w n.
Proof. intros w w' n H. apply attrs_kind. apply H. Qed.
Lemma good_symix : forall w w', Good w w' -> SymIx w -> SymIx w'.
Proof. intros w w' H. apply H. Qed.

(* the generic frame lemma *)
Lemma good_frame : forall w w',
  attrs_eq w w' -> has_mono w w' ->
  (forall n, nix w' n = nix w n) -> (forall n, rix w' n = rix w n) ->
  (forall m y, kindof w m = KMod -> kindof w y = KSym -> (In y (kids w' m) <-> In y (kids w m))) ->
  Good w w'.
Proof.
  intros w w' Ha Hh Hn Hr Hk. split; [exact Ha|]. split; [exact Hh|]. split; [intros n _; auto|].
  rewrite !SymIx_iff. intros H m Hm. rewrite (attrs_kind w w' m Ha) in Hm.
  destruct (H m Hm) as [H1 H2]. unfold ModIx. rewrite Hn, Hr. split.
  - eapply IxOK_ext; [|exact H1]. intros y k. unfold Rn.
    rewrite (attrs_kind w w' y Ha), (attrs_name w w' y Ha). split.
    + intros (Y1 & Y2 & Y3). split; [apply (Hk m y Hm Y2); exact Y1|tauto].
    + intros (Y1 & Y2 & Y3). split; [apply (Hk m y Hm Y2); exact Y1|tauto].
  - eapply IxOK_ext; [|exact H2]. intros y k. unfold Rr.
    rewrite (attrs_kind w w' y Ha), (attrs_ref w w' y Ha). split.
    + intros (Y1 & Y2 & Y3). split; [apply (Hk m y Hm Y2); exact Y1|tauto].
    + intros (Y1 & Y2 & Y3). split; [apply (Hk m y Hm Y2); exact Y1|tauto].
Qed.

(* worlds that agree on nodes, kids and both indexes *)
Definition kv (a b : world) : Prop :=
  nodes a = nodes b /\ kids a = kids b /\ nix a = nix b /\ rix a = rix b.

Lemma kv_refl : forall a, kv a a.
Proof. intros a. repeat split. Qed.

Lemma kv_getn : forall a b n, kv a b -> getn a n = getn b n.
Proof. intros a b n (H & _). unfold getn. rewrite H. reflexivity. Qed.

Lemma kv_has : forall a b n, kv a b -> has a n = has b n.
Proof. intros a b n (H & _). unfold has. rewrite H. reflexivity. Qed.

Lemma good_of_kv : forall a b, kv b a -> Good a b.
Proof.
  intros a b Hkv. pose proof (kv_getn b a) as Hg. pose proof (kv_has b a) as Hh.
  destruct Hkv as (H1 & H2 & H3 & H4).
  apply good_frame.
  - intros n. rewrite Hg by (repeat split; assumption). auto.
  - intros n Hn. rewrite Hh by (repeat split; assumption). exact Hn.
  - intros n. rewrite H3. reflexivity.
  - intros n. rewrite H4. reflexivity.
  - intros m y _ _. rewrite H2. tauto.
Qed.

Lemma good_kv : forall w a b, kv b a -> Good w a -> Good w b.
Proof. intros w a b Hkv H. eapply good_trans; [exact H|]. apply good_of_kv. exact Hkv. Qed.

(* ---------- primitives that do not touch the view ---------- *)

Lemma kv_cache_add : forall w ir n, kv (cache_add w ir n) w.
Proof. intros. repeat split. Qed.
Lemma kv_cache_remove : forall w ir n, kv (fst (cache_remove w ir n)) w.
Proof. intros. repeat split. Qed.
Lemma kv_tree_add_ev : forall w o i, kv (tree_add_ev w o i) w.
Proof. intros. repeat split. Qed.
Lemma kv_tree_disc_ev : forall w o i, kv (tree_disc_ev w o i) w.
Proof. intros. repeat split. Qed.
Lemma kv_symx_upd : forall w bi d, kv (symx_upd w bi d) w.
Proof. intros. repeat split. Qed.
Lemma kv_force : forall w n, kv (fst (force w n)) w.
Proof.
  intros. unfold force. destruct (lt_get (cur_ivs w n) (length (kids w n)) (tree w n)) as [t idx].
  repeat split.
Qed.
Lemma kv_set_cache : forall w f, kv (set_cache w f) w.
Proof. intros. repeat split. Qed.

Lemma good_setn : forall w n x,
  nk x = nk (getn w n) -> nname x = nname (getn w n) -> npay x = npay (getn w n) ->
  Good w (setn w n x).
Proof.
  intros w n x H1 H2 H3. apply good_frame.
  - intros y. rewrite getn_setn. destruct (Z.eqb_spec y n) as [->|Hne]; auto.
  - intros y Hy. rewrite has_setn. destruct (y =? n); auto.
  - intros y. reflexivity.
  - intros y. reflexivity.
  - intros m y _ _. tauto.
Qed.

Lemma good_set_par : forall w c q, Good w (set_par w c q).
Proof. intros. unfold set_par. apply good_setn; reflexivity. Qed.

Lemma good_set_kids : forall w p l,
  (kindof w p = KMod -> forall y, kindof w y = KSym -> (In y l <-> In y (kids w p))) ->
  Good w (set_kids w (upd (kids w) p l)).
Proof.
  intros w p l H. apply good_frame.
  - intros y. auto.
  - intros y Hy. exact Hy.
  - intros y. reflexivity.
  - intros y. reflexivity.
  - intros m y Hm Hy. cbn [set_kids kids]. destruct (Z.eq_dec m p) as [->|Hne].
    + rewrite upd_same. apply H; assumption.
    + rewrite upd_other by exact Hne. tauto.
Qed.

Lemma good_set_kids_nonmod : forall w p l, kindof w p <> KMod -> Good w (set_kids w (upd (kids w) p l)).
Proof. intros w p l H. apply good_set_kids. intros Hk. contradiction. Qed.

(* ---------- mod_index_add / mod_index_discard ---------- *)

Lemma mid_notsym : forall w m n, kindof w n <> KSym -> mod_index_discard w m n = w.
Proof. intros w m n H. unfold mod_index_discard. destruct (kindof w n); try reflexivity. congruence. Qed.
Lemma mia_notsym : forall w m n, kindof w n <> KSym -> mod_index_add w m n = w.
Proof. intros w m n H. unfold mod_index_add. destruct (kindof w n); try reflexivity. congruence. Qed.

Lemma mid_nodes : forall w m n, nodes (mod_index_discard w m n) = nodes w.
Proof.
  intros. unfold mod_index_discard. destruct (kindof w n); try reflexivity.
  destruct (referent (getn w n)); reflexivity.
Qed.
Lemma mid_kids : forall w m n, kids (mod_index_discard w m n) = kids w.
Proof.
  intros. unfold mod_index_discard. destruct (kindof w n); try reflexivity.
  destruct (referent (getn w n)); reflexivity.
Qed.
Lemma mia_nodes : forall w m n, nodes (mod_index_add w m n) = nodes w.
Proof.
  intros. unfold mod_index_add. destruct (kindof w n); try reflexivity.
  destruct (referent (getn w n)); reflexivity.
Qed.
Lemma mia_kids : forall w m n, kids (mod_index_add w m n) = kids w.
Proof.
  intros. unfold mod_index_add. destruct (kindof w n); try reflexivity.
  destruct (referent (getn w n)); reflexivity.
Qed.

Lemma mid_nix : forall w m n, kindof w n = KSym ->
  nix (mod_index_discard w m n) = upd (nix w) m (bucket_discard Z.eqb (nname (getn w n)) n (nix w m)).
Proof.
  intros w m n H. unfold mod_index_discard. rewrite H. destruct (referent (getn w n)); reflexivity.
Qed.
Lemma mid_rix : forall w m n, kindof w n = KSym ->
  rix (mod_index_discard w m n) =
  match referent (getn w n) with
  | Some b => upd (rix w) m (bucket_discard Z.eqb b n (rix w m))
  | None => rix w
  end.
Proof.
  intros w m n H. unfold mod_index_discard. rewrite H. destruct (referent (getn w n)); reflexivity.
Qed.
Lemma mia_nix : forall w m n, kindof w n = KSym ->
  nix (mod_index_add w m n) = upd (nix w) m (bucket_add Z.eqb (nname (getn w n)) n (nix w m)).
Proof.
  intros w m n H. unfold mod_index_add. rewrite H. destruct (referent (getn w n)); reflexivity.
Qed.
Lemma mia_rix : forall w m n, kindof w n = KSym ->
  rix (mod_index_add w m n) =
  match referent (getn w n) with
  | Some b => upd (rix w) m (bucket_add Z.eqb b n (rix w m))
  | None => rix w
  end.
Proof.
  intros w m n H. unfold mod_index_add. rewrite H. destruct (referent (getn w n)); reflexivity.
Qed.

Lemma mid_getn : forall w m n y, getn (mod_index_discard w m n) y = getn w y.
Proof. intros. unfold getn. rewrite mid_nodes. reflexivity. Qed.
Lemma mia_getn : forall w m n y, getn (mod_index_add w m n) y = getn w y.
Proof. intros. unfold getn. rewrite mia_nodes. reflexivity. Qed.
Lemma mid_has : forall w m n y, has (mod_index_discard w m n) y = has w y.
Proof. intros. unfold has. rewrite mid_nodes. reflexivity. Qed.
Lemma mia_has : forall w m n y, has (mod_index_add w m n) y = has w y.
Proof. intros. unfold has. rewrite mia_nodes. reflexivity. Qed.

(* index exactness after discarding / adding one symbol, at the level of IxOK *)
Lemma rix_discard_ok : forall d R R' (r : option id) x,
  IxOK d R -> (forall y k, R' y k <-> R y k /\ ~ (y = x /\ r = Some k)) ->
  IxOK (match r with Some b => bucket_discard Z.eqb b x d | None => d end) R'.
Proof.
  intros d R R' r x H He. destruct r as [b|].
  - eapply IxOK_discard; [exact H|]. intros y k. rewrite He. split.
    + intros [A B]. split; [exact A|]. intros [C D]. apply B. split; [exact C|]. rewrite D. reflexivity.
    + intros [A B]. split; [exact A|]. intros [C D]. apply B. split; [exact C|]. injection D as D. symmetry; exact D.
  - eapply IxOK_ext; [|exact H]. intros y k. rewrite He. split; [|tauto].
    intros A. split; [exact A|]. intros [_ D]. discriminate.
Qed.

Lemma rix_add_ok : forall d R R' (r : option id) x,
  IxOK d R -> (forall y k, R' y k <-> R y k \/ (y = x /\ r = Some k)) ->
  IxOK (match r with Some b => bucket_add Z.eqb b x d | None => d end) R'.
Proof.
  intros d R R' r x H He. destruct r as [b|].
  - eapply IxOK_add; [exact H|]. intros y k. rewrite He. split.
    + intros [A|[C D]]; [tauto|]. right. split; [exact C|]. injection D as D. symmetry; exact D.
    + intros [A|[C D]]; [tauto|]. right. split; [exact C|]. rewrite D. reflexivity.
  - eapply IxOK_ext; [|exact H]. intros y k. rewrite He. split; [tauto|].
    intros [A|[_ D]]; [exact A|discriminate].
Qed.

(* ---------- one symbol leaves / joins a module ---------- *)

Lemma ModIx_same : forall w w' m,
  (forall y, In y (kids w m) -> getn w' y = getn w y) ->
  kids w' m = kids w m -> nix w' m = nix w m -> rix w' m = rix w m ->
  ModIx w m -> ModIx w' m.
Proof.
  intros w w' m Hg Hk Hn Hr [H1 H2]. unfold ModIx. rewrite Hn, Hr. split.
  - eapply IxOK_ext; [|exact H1]. intros y k. unfold Rn, kindof. rewrite Hk. split.
    + intros (A & B & C). rewrite (Hg y A). tauto.
    + intros (A & B & C). rewrite (Hg y A) in B, C. tauto.
  - eapply IxOK_ext; [|exact H2]. intros y k. unfold Rr, kindof. rewrite Hk. split.
    + intros (A & B & C). rewrite (Hg y A). tauto.
    + intros (A & B & C). rewrite (Hg y A) in B, C. tauto.
Qed.

Lemma good_discard : forall w p c, kindof w p = KMod ->
  Good w (drop_kid (mod_index_discard w p c) p c).
Proof.
  intros w p c Hp. destruct (kind_eqb (kindof w c) KSym) eqn:Ec.
  2:{ assert (Hc : kindof w c <> KSym) by (intros E; rewrite E in Ec; discriminate).
      rewrite mid_notsym by exact Hc. unfold drop_kid. apply good_set_kids.
      intros _ y Hy. rewrite In_remove_id. split; [tauto|]. intros A. split; [exact A|]. congruence. }
  assert (Hc : kindof w c = KSym) by (destruct (kindof w c); try discriminate; reflexivity).
  clear Ec. set (W := drop_kid (mod_index_discard w p c) p c).
  assert (Hg : forall y, getn W y = getn w y) by (intros y; apply (mid_getn w p c y)).
  assert (Hkids : kids W = upd (kids w) p (remove_id c (kids w p))).
  { unfold W, drop_kid. cbn [set_kids kids]. rewrite mid_kids. reflexivity. }
  assert (Hnix : nix W = upd (nix w) p (bucket_discard Z.eqb (nname (getn w c)) c (nix w p))).
  { unfold W, drop_kid. cbn [set_kids nix]. apply mid_nix. exact Hc. }
  assert (Hrix : rix W = match referent (getn w c) with
                         | Some b => upd (rix w) p (bucket_discard Z.eqb b c (rix w p))
                         | None => rix w end).
  { unfold W, drop_kid. cbn [set_kids rix]. apply mid_rix. exact Hc. }
  split; [intros n; rewrite Hg; auto|].
  split; [intros n Hn; unfold W, drop_kid, has; cbn [set_kids nodes]; rewrite mid_nodes; exact Hn|].
  split.
  - intros n Hn. assert (Hne : n <> p) by congruence. rewrite Hnix, Hrix. split.
    + apply upd_other. exact Hne.
    + destruct (referent (getn w c)); [apply upd_other; exact Hne|reflexivity].
  - rewrite !SymIx_iff. intros H m Hm. unfold kindof in Hm. rewrite Hg in Hm. fold (kindof w m) in Hm.
    destruct (Z.eq_dec m p) as [->|Hne].
    + destruct (H p Hp) as [H1 H2]. unfold ModIx. split.
      * rewrite Hnix, upd_same. eapply IxOK_discard; [exact H1|].
        intros y k. unfold Rn, kindof. rewrite Hkids, upd_same, In_remove_id, !Hg. split.
        -- intros ((A & A') & B & C). split; [tauto|]. intros [D _]. exact (A' D).
        -- intros ((A & B & C) & D). split; [|tauto]. split; [exact A|]. intros ->. apply D.
           split; [reflexivity|]. symmetry. exact C.
      * assert (Hiff : forall y k, Rr W p y k <-> Rr w p y k /\ ~ (y = c /\ referent (getn w c) = Some k)).
        { intros y k. unfold Rr, kindof. rewrite Hkids, upd_same, In_remove_id, !Hg. split.
          - intros ((A & A') & B & C). split; [tauto|]. intros [D _]. exact (A' D).
          - intros ((A & B & C) & D). split; [|tauto]. split; [exact A|]. intros ->. apply D.
            split; [reflexivity|]. exact C. }
        pose proof (rix_discard_ok (rix w p) (Rr w p) (Rr W p) (referent (getn w c)) c H2 Hiff) as Hx.
        rewrite Hrix. destruct (referent (getn w c)); [rewrite upd_same|]; exact Hx.
    + apply (ModIx_same w W m).
      * intros y _. apply Hg.
      * rewrite Hkids. apply upd_other. exact Hne.
      * rewrite Hnix. apply upd_other. exact Hne.
      * rewrite Hrix. destruct (referent (getn w c)); [apply upd_other; exact Hne|reflexivity].
      * apply H. exact Hm.
Qed.

Lemma In_push : forall y c l, In y (if mem c l then l else l ++ [c]) <-> In y l \/ y = c.
Proof.
  intros y c l. destruct (mem c l) eqn:E.
  - apply mem_In in E. split; [tauto|]. intros [A| ->]; assumption.
  - rewrite in_app_iff. cbn [In]. split; [intros [A|[A|[]]]; auto|intros [A|A]; auto].
Qed.

Lemma good_add : forall w p c, kindof w p = KMod ->
  Good w (push_kid (mod_index_add w p c) p c).
Proof.
  intros w p c Hp. destruct (kind_eqb (kindof w c) KSym) eqn:Ec.
  2:{ assert (Hc : kindof w c <> KSym) by (intros E; rewrite E in Ec; discriminate).
      rewrite mia_notsym by exact Hc. unfold push_kid. apply good_set_kids.
      intros _ y Hy. rewrite In_push. split; [|tauto]. intros [A| ->]; [exact A|]. congruence. }
  assert (Hc : kindof w c = KSym) by (destruct (kindof w c); try discriminate; reflexivity).
  clear Ec. set (W := push_kid (mod_index_add w p c) p c).
  assert (Hg : forall y, getn W y = getn w y) by (intros y; apply (mia_getn w p c y)).
  assert (Hkids : kids W = upd (kids w) p (if mem c (kids w p) then kids w p else kids w p ++ [c])).
  { unfold W, push_kid. cbn [set_kids kids]. rewrite mia_kids. reflexivity. }
  assert (Hnix : nix W = upd (nix w) p (bucket_add Z.eqb (nname (getn w c)) c (nix w p))).
  { unfold W, push_kid. cbn [set_kids nix]. apply mia_nix. exact Hc. }
  assert (Hrix : rix W = match referent (getn w c) with
                         | Some b => upd (rix w) p (bucket_add Z.eqb b c (rix w p))
                         | None => rix w end).
  { unfold W, push_kid. cbn [set_kids rix]. apply mia_rix. exact Hc. }
  split; [intros n; rewrite Hg; auto|].
  split; [intros n Hn; unfold W, push_kid, has; cbn [set_kids nodes]; rewrite mia_nodes; exact Hn|].
  split.
  - intros n Hn. assert (Hne : n <> p) by congruence. rewrite Hnix, Hrix. split.
    + apply upd_other. exact Hne.
    + destruct (referent (getn w c)); [apply upd_other; exact Hne|reflexivity].
  - rewrite !SymIx_iff. intros H m Hm. unfold kindof in Hm. rewrite Hg in Hm. fold (kindof w m) in Hm.
    destruct (Z.eq_dec m p) as [->|Hne].
    + destruct (H p Hp) as [H1 H2]. unfold ModIx. split.
      * rewrite Hnix, upd_same. eapply IxOK_add; [exact H1|].
        intros y k. unfold Rn, kindof. rewrite Hkids, upd_same, In_push, !Hg. split.
        -- intros ([A|A] & B & C); [left; tauto|]. right. split; [exact A|]. subst y. symmetry. exact C.
        -- intros [(A & B & C)|[-> ->]]; [tauto|]. split; [right; reflexivity|]. split; [exact Hc|reflexivity].
      * assert (Hiff : forall y k, Rr W p y k <-> Rr w p y k \/ (y = c /\ referent (getn w c) = Some k)).
        { intros y k. unfold Rr, kindof. rewrite Hkids, upd_same, In_push, !Hg. split.
          - intros ([A|A] & B & C); [left; tauto|]. right. split; [exact A|]. subst y. exact C.
          - intros [(A & B & C)|[-> D]]; [tauto|]. split; [right; reflexivity|]. split; [exact Hc|exact D]. }
        pose proof (rix_add_ok (rix w p) (Rr w p) (Rr W p) (referent (getn w c)) c H2 Hiff) as Hx.
        rewrite Hrix. destruct (referent (getn w c)); [rewrite upd_same|]; exact Hx.
    + apply (ModIx_same w W m).
      * intros y _. apply Hg.
      * rewrite Hkids. apply upd_other. exact Hne.
      * rewrite Hnix. apply upd_other. exact Hne.
      * rewrite Hrix. destruct (referent (getn w c)); [apply upd_other; exact Hne|reflexivity].
      * apply H. exact Hm.
Qed.

(* pointwise versions *)
Lemma mid_nix_at : forall w m n, kindof w n = KSym ->
  nix (mod_index_discard w m n) m = bucket_discard Z.eqb (nname (getn w n)) n (nix w m).
Proof. intros w m n H. rewrite mid_nix by exact H. apply upd_same. Qed.
Lemma mid_rix_at : forall w m n, kindof w n = KSym ->
  rix (mod_index_discard w m n) m =
  match referent (getn w n) with Some b => bucket_discard Z.eqb b n (rix w m) | None => rix w m end.
Proof. intros w m n H. rewrite mid_rix by exact H. destruct (referent (getn w n)); [apply upd_same|reflexivity]. Qed.
Lemma mid_nix_other : forall w m n m', m' <> m -> nix (mod_index_discard w m n) m' = nix w m'.
Proof.
  intros w m n m' H. unfold mod_index_discard. destruct (kindof w n); try reflexivity.
  destruct (referent (getn w n)); cbn [set_rix set_nix nix]; apply upd_other; exact H.
Qed.
Lemma mid_rix_other : forall w m n m', m' <> m -> rix (mod_index_discard w m n) m' = rix w m'.
Proof.
  intros w m n m' H. unfold mod_index_discard. destruct (kindof w n); try reflexivity.
  destruct (referent (getn w n)); cbn [set_rix set_nix rix]; [apply upd_other; exact H|reflexivity].
Qed.
Lemma mia_nix_at : forall w m n, kindof w n = KSym ->
  nix (mod_index_add w m n) m = bucket_add Z.eqb (nname (getn w n)) n (nix w m).
Proof. intros w m n H. rewrite mia_nix by exact H. apply upd_same. Qed.
Lemma mia_rix_at : forall w m n, kindof w n = KSym ->
  rix (mod_index_add w m n) m =
  match referent (getn w n) with Some b => bucket_add Z.eqb b n (rix w m) | None => rix w m end.
Proof. intros w m n H. rewrite mia_rix by exact H. destruct (referent (getn w n)); [apply upd_same|reflexivity]. Qed.
Lemma mia_nix_other : forall w m n m', m' <> m -> nix (mod_index_add w m n) m' = nix w m'.
Proof.
  intros w m n m' H. unfold mod_index_add. destruct (kindof w n); try reflexivity.
  destruct (referent (getn w n)); cbn [set_rix set_nix nix]; apply upd_other; exact H.
Qed.
Lemma mia_rix_other : forall w m n m', m' <> m -> rix (mod_index_add w m n) m' = rix w m'.
Proof.
  intros w m n m' H. unfold mod_index_add. destruct (kindof w n); try reflexivity.
  destruct (referent (getn w n)); cbn [set_rix set_nix rix]; [apply upd_other; exact H|reflexivity].
Qed.

(* ---------- result plumbing ---------- *)

Lemma flagged_ok : forall r w', flagged r = Ok w' -> w' = fst r.
Proof. intros [w ok] w' H. unfold flagged in H. destruct ok; [|discriminate]. injection H as H. symmetry. exact H. Qed.

Lemma bind_ok : forall {A B} (r : res A) (f : A -> res B) b, bind r f = Ok b -> exists a, r = Ok a /\ f a = Ok b.
Proof. intros A B r f b H. destruct r as [a|e]; [|discriminate]. exists a. split; [reflexivity|exact H]. Qed.

Lemma fold_left_inv : forall {A B} (I : A -> Prop) (f : A -> B -> A) l a,
  I a -> (forall a' b, In b l -> I a' -> I (f a' b)) -> I (fold_left f l a).
Proof.
  intros A B I f l. induction l as [|b l IH]; intros a Ha Hs; cbn [fold_left].
  - exact Ha.
  - apply IH.
    + apply Hs; [left; reflexivity|exact Ha].
    + intros a' b' Hb. apply Hs. right. exact Hb.
Qed.

Lemma kind_eqb_eq : forall a b, kind_eqb a b = true <-> a = b.
Proof. intros a b. split; [destruct a, b; cbn; congruence|intros ->; destruct b; reflexivity]. Qed.

Lemma is_k_kind : forall w n k, is_k w n k = true -> kindof w n = k.
Proof. intros w n k H. unfold is_k in H. apply andb_prop in H. apply kind_eqb_eq. apply H. Qed.
