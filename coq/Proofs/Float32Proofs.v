(* float32 leaves of the AuxData codec: decode (encode x) is x rounded to binary32.

   Model/Float32.v gives the two C casts on IEEE bit patterns (round32 : binary64 -> binary32,
   round to nearest even; widen32 : binary32 -> binary64, exact).  Here:
     1. round32 produces 32-bit patterns;
     2. whatever double is encoded as "float", it is decoded as that double rounded to binary32
        and widened again, and exactly four bytes are consumed; overflow is refused;
     3. rounding is a projection: round32 (widen32 r) = Ok (quiet32 r);
     4. closed examples. *)
From Coq Require Import String ZArith List Bool Lia.
From V Require Import Result Bytes BytesProofs TypeName Float32 Codec CodecProofs.
Import ListNotations.
Open Scope Z_scope.

(* ================================================================== *)
(* 0. The two conversions as functions of the three fields             *)
(* ================================================================== *)

Definition round32f (s e m : Z) : res Z :=
  let sign := s * p2 31 in
  if e =? 2047 then
    if m =? 0 then Ok (sign + 2139095040)
    else Ok (sign + 2139095040 + Z.lor 4194304 (m / p2 29))
  else if e =? 0 then Ok sign
  else
    let x := e - 1023 in
    let mant := m + p2 52 in
    let mag :=
      if -126 <=? x then (x + 126) * p2 23 + rne_shift mant 29
      else rne_shift mant (29 + (-126 - x)) in
    if 2139095040 <=? mag then Err EOverflow else Ok (sign + mag).

Lemma round32_fields : forall b,
  round32 b = round32f (b / p2 63) ((b / p2 52) mod 2048) (b mod p2 52).
Proof. intros b. reflexivity. Qed.

Definition widen32f (s e m : Z) : Z :=
  let sign := s * p2 63 in
  if e =? 255 then
    if m =? 0 then sign + 2047 * p2 52
    else sign + 2047 * p2 52 + (Z.lor 4194304 m) * p2 29
  else if e =? 0 then
    if m =? 0 then sign
    else
      let k := Z.log2 m in
      sign + (k - 149 + 1023) * p2 52 + (m - p2 k) * p2 (52 - k)
  else sign + (e - 127 + 1023) * p2 52 + m * p2 29.

Lemma widen32_fields : forall r,
  widen32 r = widen32f (r / p2 31) ((r / p2 23) mod 256) (r mod p2 23).
Proof. intros r. reflexivity. Qed.

(* ---------- small arithmetic facts ---------- *)

Lemma p2_pos : forall n, 0 <= n -> 0 < p2 n.
Proof. intros n Hn. unfold p2. apply Z.pow_pos_nonneg; lia. Qed.

Lemma lor_bound : forall n a b, 0 <= n -> 0 <= a < 2 ^ n -> 0 <= b < 2 ^ n -> 0 <= Z.lor a b < 2 ^ n.
Proof.
  intros n a b Hn Ha Hb.
  assert (H0 : 0 <= Z.lor a b) by (apply Z.lor_nonneg; lia).
  split; [exact H0|].
  destruct (Z.eq_dec (Z.lor a b) 0) as [Hz|Hz].
  - rewrite Hz. apply Z.pow_pos_nonneg; lia.
  - apply Z.log2_lt_pow2; [lia|].
    rewrite Z.log2_lor by lia.
    apply Z.max_lub_lt.
    + destruct (Z.eq_dec a 0) as [Ha0|Ha0].
      * subst a. change (Z.log2 0) with 0.
        destruct (Z.eq_dec n 0) as [Hn0|Hn0]; [|lia].
        subst n. change (2 ^ 0) with 1 in *.
        assert (b = 0) by lia. subst b. exfalso. apply Hz. reflexivity.
      * apply Z.log2_lt_pow2; lia.
    + destruct (Z.eq_dec b 0) as [Hb0|Hb0].
      * subst b. change (Z.log2 0) with 0.
        destruct (Z.eq_dec n 0) as [Hn0|Hn0]; [|lia].
        subst n. change (2 ^ 0) with 1 in *.
        assert (a = 0) by lia. subst a. exfalso. apply Hz. reflexivity.
      * apply Z.log2_lt_pow2; lia.
Qed.

Lemma rne_shift_nonneg : forall mant shift, 0 <= mant -> 0 <= shift -> 0 <= rne_shift mant shift.
Proof.
  intros mant shift Hm Hs. unfold rne_shift.
  pose proof (p2_pos shift Hs) as Hp.
  assert (Hq : 0 <= mant / p2 shift) by (apply Z.div_pos; lia).
  cbv zeta.
  destruct ((p2 (shift - 1) <? mant mod p2 shift)
            || (mant mod p2 shift =? p2 (shift - 1)) && Z.odd (mant / p2 shift)); lia.
Qed.

(* ================================================================== *)
(* 1. round32 yields 32-bit patterns                                   *)
(* ================================================================== *)

Lemma fields64 : forall b, 0 <= b < 2 ^ 64 ->
  0 <= b / p2 63 <= 1 /\ 0 <= (b / p2 52) mod 2048 < 2048 /\ 0 <= b mod p2 52 < p2 52.
Proof.
  intros b Hb. unfold p2.
  change (2 ^ 64) with 18446744073709551616 in Hb.
  change (2 ^ 63) with 9223372036854775808.
  change (2 ^ 52) with 4503599627370496.
  lia.
Qed.

Lemma round32f_range : forall s e m r,
  0 <= s <= 1 -> 0 <= e < 2048 -> 0 <= m < p2 52 ->
  round32f s e m = Ok r -> 0 <= r < 2 ^ 32.
Proof.
  intros s e m r Hs He Hm H.
  unfold round32f in H. cbv zeta in H.
  change (2 ^ 32) with 4294967296.
  change (p2 31) with 2147483648 in H.
  destruct (e =? 2047) eqn:E1.
  - destruct (m =? 0) eqn:E2.
    + apply Ok_inj in H. lia.
    + apply Ok_inj in H.
      assert (Hq : 0 <= m / p2 29 < 2 ^ 23).
      { change (p2 52) with 4503599627370496 in Hm. change (p2 29) with 536870912.
        change (2 ^ 23) with 8388608. lia. }
      pose proof (lor_bound 23 4194304 (m / p2 29) ltac:(lia) ltac:(change (2 ^ 23) with 8388608; lia) Hq) as Hl.
      change (2 ^ 23) with 8388608 in Hl. lia.
  - destruct (e =? 0) eqn:E3.
    + apply Ok_inj in H. lia.
    + apply Z.eqb_neq in E3.
      assert (Hmant : 0 <= m + p2 52) by (pose proof (p2_pos 52 ltac:(lia)); lia).
      destruct (-126 <=? e - 1023) eqn:E4.
      * apply Z.leb_le in E4.
        pose proof (rne_shift_nonneg (m + p2 52) 29 Hmant ltac:(lia)) as Hr.
        change (p2 23) with 8388608 in H.
        destruct (2139095040 <=? (e - 1023 + 126) * 8388608 + rne_shift (m + p2 52) 29) eqn:E5;
          [discriminate|].
        apply Z.leb_gt in E5. apply Ok_inj in H. lia.
      * apply Z.leb_gt in E4.
        pose proof (rne_shift_nonneg (m + p2 52) (29 + (-126 - (e - 1023))) Hmant ltac:(lia)) as Hr.
        destruct (2139095040 <=? rne_shift (m + p2 52) (29 + (-126 - (e - 1023)))) eqn:E5;
          [discriminate|].
        apply Z.leb_gt in E5. apply Ok_inj in H. lia.
Qed.

Theorem round32_range : forall b r, 0 <= b < 2 ^ 64 -> round32 b = Ok r -> 0 <= r < 2 ^ 32.
Proof.
  intros b r Hb H. rewrite round32_fields in H.
  destruct (fields64 b Hb) as (Hs & He & Hm).
  exact (round32f_range _ _ _ _ Hs He Hm H).
Qed.

(* ================================================================== *)
(* 2. decode (encode x) = x rounded to binary32                        *)
(* ================================================================== *)

Definition tfloat : tree := T (str "float"%string) [].

Lemma lookup_float : lookup_codec spec_table (str "float"%string) = Some CF32.
Proof. reflexivity. Qed.

Lemma encode_float : forall b,
  encode tfloat (VFloat b) = (do r <- round32 b; Ok (le_bytes 4 r)).
Proof.
  intros b. unfold tfloat. rewrite encode_unfold, lookup_float. reflexivity.
Qed.

Lemma decode_float : forall get bs,
  decode get tfloat bs =
  if Nat.eqb (List.length (take 4 bs)) 4 then Ok (VFloat (widen32 (of_le (take 4 bs))), drop 4 bs)
  else Err EStruct.
Proof.
  intros get bs. unfold tfloat. rewrite decode_unfold, lookup_float. reflexivity.
Qed.

Theorem f32_roundtrip_rounds : forall get b r rest, 0 <= b < 2 ^ 64 -> round32 b = Ok r ->
  exists bs, encode (T (str "float"%string) []) (VFloat b) = Ok bs /\ length bs = 4%nat /\
             decode get (T (str "float"%string) []) (bs ++ rest) = Ok (VFloat (widen32 r), rest).
Proof.
  intros get b r rest Hb Hr.
  pose proof (round32_range b r Hb Hr) as Hrange.
  exists (le_bytes 4 r). fold tfloat. split; [|split].
  - rewrite encode_float, Hr. reflexivity.
  - apply le_bytes_length.
  - rewrite decode_float.
    rewrite take_app_len, drop_app_len by apply le_bytes_length.
    rewrite le_bytes_length. cbn [Nat.eqb].
    rewrite of_le_le_bytes_small by (rewrite pow256_4; exact Hrange).
    reflexivity.
Qed.

Theorem f32_overflow_refused : forall b e,
  round32 b = Err e -> encode (T (str "float"%string) []) (VFloat b) = Err e.
Proof.
  intros b e H. fold tfloat. rewrite encode_float, H. reflexivity.
Qed.

(* the only error round32 ever gives is OverflowError, and only for finite doubles *)
Lemma round32_err_overflow : forall b e, round32 b = Err e -> e = EOverflow /\ (b / p2 52) mod 2048 <> 2047.
Proof.
  intros b e H. rewrite round32_fields in H. unfold round32f in H. cbv zeta in H.
  destruct ((b / p2 52) mod 2048 =? 2047) eqn:E1.
  - destruct (b mod p2 52 =? 0); discriminate.
  - apply Z.eqb_neq in E1. split; [|exact E1].
    destruct ((b / p2 52) mod 2048 =? 0); [discriminate|].
    match type of H with (if ?c then _ else _) = _ => destruct c end; [|discriminate].
    congruence.
Qed.

(* ================================================================== *)
(* 3. Rounding is a projection                                         *)
(* ================================================================== *)

(* ---------- bit facts: a low part below 2^n does not interact with a multiple of 2^n ---------- *)

Lemma testbit_small : forall x n i, 0 <= x < 2 ^ n -> n <= i -> Z.testbit x i = false.
Proof.
  intros x n i Hx Hi.
  destruct (Z.eq_dec x 0) as [->|Hnz]; [apply Z.bits_0|].
  apply Z.bits_above_log2; [lia|].
  assert (Z.log2 x < n) by (apply Z.log2_lt_pow2; lia). lia.
Qed.

Lemma land_high_low : forall h n x, 0 <= n -> 0 <= x < 2 ^ n -> Z.land (h * 2 ^ n) x = 0.
Proof.
  intros h n x Hn Hx. apply Z.bits_inj'. intros i Hi.
  rewrite Z.land_spec, Z.bits_0, <- Z.shiftl_mul_pow2 by lia.
  destruct (Z_lt_le_dec i n) as [Hlt|Hge].
  - rewrite Z.shiftl_spec_low by lia. reflexivity.
  - rewrite (testbit_small x n i Hx Hge). apply andb_false_r.
Qed.

Lemma add_is_lor : forall h n x, 0 <= n -> 0 <= x < 2 ^ n -> h * 2 ^ n + x = Z.lor (h * 2 ^ n) x.
Proof.
  intros h n x Hn Hx.
  rewrite <- Z.lxor_lor by (apply land_high_low; assumption).
  apply Z.add_nocarry_lxor. apply land_high_low; assumption.
Qed.

Lemma lor_high : forall h n x c, 0 <= n -> 0 <= x < 2 ^ n -> 0 <= c < 2 ^ n ->
  Z.lor (h * 2 ^ n + x) c = h * 2 ^ n + Z.lor x c.
Proof.
  intros h n x c Hn Hx Hc.
  rewrite (add_is_lor h n x), <- Z.lor_assoc by assumption.
  symmetry. apply add_is_lor; [assumption|apply lor_bound; assumption].
Qed.

(* ---------- fields of 32- and 64-bit patterns ---------- *)

Lemma fields32 : forall r, 0 <= r < 2 ^ 32 ->
  0 <= r / p2 31 <= 1 /\ 0 <= (r / p2 23) mod 256 < 256 /\ 0 <= r mod p2 23 < p2 23 /\
  r = r / p2 31 * p2 31 + (r / p2 23) mod 256 * p2 23 + r mod p2 23.
Proof.
  intros r Hr. unfold p2.
  change (2 ^ 32) with 4294967296 in Hr.
  change (2 ^ 31) with 2147483648.
  change (2 ^ 23) with 8388608.
  lia.
Qed.

Lemma build32 : forall s e m, 0 <= s <= 1 -> 0 <= e < 256 -> 0 <= m < p2 23 ->
  let r := s * p2 31 + e * p2 23 + m in
  0 <= r < 2 ^ 32 /\ r / p2 31 = s /\ (r / p2 23) mod 256 = e /\ r mod p2 23 = m.
Proof.
  intros s e m Hs He Hm. cbv zeta. revert Hm. unfold p2.
  change (2 ^ 32) with 4294967296.
  change (2 ^ 31) with 2147483648.
  change (2 ^ 23) with 8388608.
  intros Hm. lia.
Qed.

Lemma round32_build : forall b s E M, 0 <= s <= 1 -> 0 <= E < 2048 -> 0 <= M < p2 52 ->
  b = s * p2 63 + E * p2 52 + M -> round32 b = round32f s E M.
Proof.
  intros b s E M Hs HE HM Hb. rewrite round32_fields.
  assert (H : b / p2 63 = s /\ (b / p2 52) mod 2048 = E /\ b mod p2 52 = M).
  { revert HM Hb. unfold p2.
    change (2 ^ 63) with 9223372036854775808.
    change (2 ^ 52) with 4503599627370496.
    intros HM Hb. lia. }
  destruct H as (-> & -> & ->). reflexivity.
Qed.

(* ---------- an exact shift needs no rounding ---------- *)

Lemma rne_exact : forall q sh, 1 <= sh -> rne_shift (q * p2 sh) sh = q.
Proof.
  intros q sh Hsh. unfold rne_shift. cbv zeta.
  pose proof (p2_pos sh ltac:(lia)) as Hp.
  pose proof (p2_pos (sh - 1) ltac:(lia)) as Hh.
  rewrite Z.div_mul, Z.mod_mul by lia.
  destruct (Z.ltb_spec (p2 (sh - 1)) 0) as [Hlt|_]; [lia|].
  destruct (Z.eqb_spec 0 (p2 (sh - 1))) as [Heq|_]; [lia|].
  reflexivity.
Qed.

(* ---------- the four classes ---------- *)

Lemma round32f_normal : forall s e m, 1 <= e <= 254 -> 0 <= m < p2 23 ->
  round32f s (e - 127 + 1023) (m * p2 29) = Ok (s * p2 31 + e * p2 23 + m).
Proof.
  intros s e m He Hm. unfold round32f. cbv zeta.
  destruct (Z.eqb_spec (e - 127 + 1023) 2047) as [H1|_]; [lia|].
  destruct (Z.eqb_spec (e - 127 + 1023) 0) as [H2|_]; [lia|].
  destruct (Z.leb_spec (-126) (e - 127 + 1023 - 1023)) as [_|H3]; [|lia].
  replace (m * p2 29 + p2 52) with ((m + p2 23) * p2 29)
    by (change (p2 52) with (p2 23 * p2 29); ring).
  rewrite rne_exact by lia.
  replace ((e - 127 + 1023 - 1023 + 126) * p2 23 + (m + p2 23)) with (e * p2 23 + m) by ring.
  destruct (Z.leb_spec 2139095040 (e * p2 23 + m)) as [H4|_].
  - exfalso. revert Hm H4. change (p2 23) with 8388608. intros Hm H4. lia.
  - rewrite Z.add_assoc. reflexivity.
Qed.

Lemma round32f_subnormal : forall s k m, 0 <= k <= 22 -> p2 k <= m < 2 * p2 k ->
  round32f s (k - 149 + 1023) ((m - p2 k) * p2 (52 - k)) = Ok (s * p2 31 + m).
Proof.
  intros s k m Hk Hm. unfold round32f. cbv zeta.
  destruct (Z.eqb_spec (k - 149 + 1023) 2047) as [H1|_]; [lia|].
  destruct (Z.eqb_spec (k - 149 + 1023) 0) as [H2|_]; [lia|].
  destruct (Z.leb_spec (-126) (k - 149 + 1023 - 1023)) as [H3|_]; [lia|].
  replace (29 + (-126 - (k - 149 + 1023 - 1023))) with (52 - k) by lia.
  assert (H52 : p2 52 = p2 k * p2 (52 - k)).
  { unfold p2. rewrite <- Z.pow_add_r by lia. f_equal. lia. }
  replace ((m - p2 k) * p2 (52 - k) + p2 52) with (m * p2 (52 - k)) by (rewrite H52; ring).
  rewrite rne_exact by lia.
  destruct (Z.leb_spec 2139095040 m) as [H4|_]; [|reflexivity].
  exfalso.
  assert (Hle : p2 k <= p2 22) by (unfold p2; apply Z.pow_le_mono_r; lia).
  revert Hle. change (p2 22) with 4194304. intros Hle. lia.
Qed.

Lemma round32_widen32f : forall s e m, 0 <= s <= 1 -> 0 <= e < 256 -> 0 <= m < p2 23 ->
  round32 (widen32f s e m) =
  Ok (if (e =? 255) && negb (m =? 0) then s * p2 31 + 255 * p2 23 + Z.lor 4194304 m
      else s * p2 31 + e * p2 23 + m).
Proof.
  intros s e m Hs He Hm. unfold widen32f. cbv zeta.
  assert (Hm' : 0 <= m < 2 ^ 23) by exact Hm.
  destruct (Z.eqb_spec e 255) as [->|He255].
  - destruct (Z.eqb_spec m 0) as [->|Hm0]; cbn [andb negb].
    + (* infinity *)
      rewrite (round32_build _ s 2047 0); [| lia | lia | pose proof (p2_pos 52 ltac:(lia)); lia | ring].
      unfold round32f. cbv zeta. change (2047 =? 2047) with true. change (0 =? 0) with true.
      cbv iota. apply f_equal. change (p2 23) with 8388608. lia.
    + (* NaN *)
      pose proof (lor_bound 23 4194304 m ltac:(lia) ltac:(change (2 ^ 23) with 8388608; lia) Hm') as Hl.
      assert (Hl0 : Z.lor 4194304 m <> 0).
      { intros H0. apply Z.lor_eq_0_iff in H0. destruct H0 as [H0 _]. discriminate H0. }
      rewrite (round32_build _ s 2047 (Z.lor 4194304 m * p2 29)); [| lia | lia | | ring].
      * unfold round32f. cbv zeta. change (2047 =? 2047) with true. cbv iota.
        destruct (Z.eqb_spec (Z.lor 4194304 m * p2 29) 0) as [H0|_].
        { exfalso. revert H0. change (p2 29) with 536870912. intros H0. lia. }
        rewrite Z.div_mul by (pose proof (p2_pos 29 ltac:(lia)); lia).
        rewrite Z.lor_assoc, Z.lor_diag.
        apply f_equal. change (p2 23) with 8388608. lia.
      * revert Hl. change (2 ^ 23) with 8388608. change (p2 29) with 536870912.
        change (p2 52) with 4503599627370496. intros Hl. lia.
  - cbn [andb].
    destruct (Z.eqb_spec e 0) as [->|He0].
    + destruct (Z.eqb_spec m 0) as [->|Hm0].
      * (* zero *)
        rewrite (round32_build _ s 0 0); [| lia | lia | pose proof (p2_pos 52 ltac:(lia)); lia | ring].
        unfold round32f. cbv zeta. change (0 =? 2047) with false. change (0 =? 0) with true.
        cbv iota. apply f_equal. ring.
      * (* subnormal *)
        assert (Hmpos : 0 < m) by lia.
        pose proof (Z.log2_spec m Hmpos) as Hspec.
        pose proof (Z.log2_nonneg m) as Hk0.
        assert (Hk22 : Z.log2 m < 23) by (apply Z.log2_lt_pow2; [exact Hmpos|exact (proj2 Hm')]).
        set (k := Z.log2 m) in *.
        assert (HK : p2 k <= m < 2 * p2 k).
        { unfold p2. rewrite Z.pow_succ_r in Hspec by lia. exact Hspec. }
        assert (H52 : p2 52 = p2 k * p2 (52 - k)).
        { unfold p2. rewrite <- Z.pow_add_r by lia. f_equal. lia. }
        pose proof (p2_pos k Hk0) as HKpos.
        pose proof (p2_pos (52 - k) ltac:(lia)) as HPpos.
        rewrite (round32_build _ s (k - 149 + 1023) ((m - p2 k) * p2 (52 - k)));
          [| lia | lia | | ring].
        -- rewrite round32f_subnormal by (try exact HK; lia). apply f_equal. ring.
        -- split; [apply Z.mul_nonneg_nonneg; lia|].
           rewrite H52. apply Z.mul_lt_mono_pos_r; lia.
    + (* normal *)
      rewrite (round32_build _ s (e - 127 + 1023) (m * p2 29)); [| lia | lia | | ring].
      * apply round32f_normal; lia.
      * revert Hm. change (p2 23) with 8388608. change (p2 29) with 536870912.
        change (p2 52) with 4503599627370496. intros Hm. lia.
Qed.

(* ---------- quiet32 ---------- *)

Definition is_nan32 (r : Z) : bool := ((r / p2 23) mod 256 =? 255) && negb (r mod p2 23 =? 0).

(* the conversion instruction sets the quiet bit (bit 22) of a NaN and changes nothing else *)
Definition quiet32 (r : Z) : Z := if is_nan32 r then Z.lor r 4194304 else r.

(* a signalling NaN: NaN whose quiet bit is clear *)
Definition is_snan32 (r : Z) : bool := is_nan32 r && (r mod p2 23 <? 4194304).

Lemma lor_nan_fields : forall s m, 0 <= m < p2 23 ->
  Z.lor (s * p2 31 + 255 * p2 23 + m) 4194304 = s * p2 31 + 255 * p2 23 + Z.lor 4194304 m.
Proof.
  intros s m Hm.
  replace (s * p2 31 + 255 * p2 23 + m) with ((s * 256 + 255) * 2 ^ 23 + m)
    by (change (p2 31) with (256 * 2 ^ 23); change (p2 23) with (2 ^ 23); ring).
  rewrite lor_high; [| lia | exact Hm | change (2 ^ 23) with 8388608; lia ].
  rewrite (Z.lor_comm m).
  change (p2 31) with (256 * 2 ^ 23); change (p2 23) with (2 ^ 23); ring.
Qed.

Lemma quiet32_fields : forall s e m, 0 <= s <= 1 -> 0 <= e < 256 -> 0 <= m < p2 23 ->
  quiet32 (s * p2 31 + e * p2 23 + m) =
  if (e =? 255) && negb (m =? 0) then s * p2 31 + 255 * p2 23 + Z.lor 4194304 m
  else s * p2 31 + e * p2 23 + m.
Proof.
  intros s e m Hs He Hm. unfold quiet32, is_nan32.
  destruct (build32 s e m Hs He Hm) as (_ & _ & -> & ->).
  destruct ((e =? 255) && negb (m =? 0)) eqn:E; [|reflexivity].
  apply andb_true_iff in E. destruct E as [E _]. apply Z.eqb_eq in E. subst e.
  apply lor_nan_fields. exact Hm.
Qed.

Theorem round32_widen32 : forall r, 0 <= r < 2 ^ 32 -> round32 (widen32 r) = Ok (quiet32 r).
Proof.
  intros r Hr. destruct (fields32 r Hr) as (Hs & He & Hm & Hdec).
  rewrite widen32_fields, round32_widen32f by assumption.
  rewrite <- quiet32_fields by assumption. rewrite <- Hdec. reflexivity.
Qed.

(* ---------- consequences ---------- *)

Lemma quiet32_range : forall r, 0 <= r < 2 ^ 32 -> 0 <= quiet32 r < 2 ^ 32.
Proof.
  intros r Hr. apply (round32_range (widen32 r)); [|apply round32_widen32; exact Hr].
  destruct (fields32 r Hr) as (Hs & He & Hm & _).
  rewrite widen32_fields.
  set (s := r / p2 31) in *. set (e := (r / p2 23) mod 256) in *. set (m := r mod p2 23) in *.
  clearbody s e m. unfold widen32f. cbv zeta.
  assert (Hm' : 0 <= m < 2 ^ 23) by exact Hm.
  change (2 ^ 64) with (2 * p2 63).
  assert (Hbody : forall E M, 0 <= E < 2048 -> 0 <= M < p2 52 ->
                  0 <= s * p2 63 + E * p2 52 + M < 2 * p2 63).
  { intros E M HE HM. revert HM. change (p2 63) with 9223372036854775808.
    change (p2 52) with 4503599627370496. intros HM. lia. }
  pose proof (p2_pos 52 ltac:(lia)) as H52pos.
  destruct (Z.eqb_spec e 255) as [->|He255].
  - destruct (Z.eqb_spec m 0) as [->|Hm0].
    + rewrite <- (Z.add_0_r (s * p2 63 + 2047 * p2 52)). apply Hbody; lia.
    + apply Hbody; [lia|].
      pose proof (lor_bound 23 4194304 m ltac:(lia) ltac:(change (2 ^ 23) with 8388608; lia) Hm') as Hl.
      revert Hl. change (2 ^ 23) with 8388608. change (p2 29) with 536870912.
      change (p2 52) with 4503599627370496. intros Hl. lia.
  - destruct (Z.eqb_spec e 0) as [->|He0].
    + destruct (Z.eqb_spec m 0) as [->|Hm0].
      * replace (s * p2 63) with (s * p2 63 + 0 * p2 52 + 0) by ring. apply Hbody; lia.
      * assert (Hmpos : 0 < m) by lia.
        pose proof (Z.log2_spec m Hmpos) as Hspec.
        pose proof (Z.log2_nonneg m) as Hk0.
        assert (Hk22 : Z.log2 m < 23) by (apply Z.log2_lt_pow2; [exact Hmpos|exact (proj2 Hm')]).
        set (k := Z.log2 m) in *.
        assert (HK : p2 k <= m < 2 * p2 k).
        { unfold p2. rewrite Z.pow_succ_r in Hspec by lia. exact Hspec. }
        assert (H52 : p2 52 = p2 k * p2 (52 - k)).
        { unfold p2. rewrite <- Z.pow_add_r by lia. f_equal. lia. }
        pose proof (p2_pos k Hk0) as HKpos.
        pose proof (p2_pos (52 - k) ltac:(lia)) as HPpos.
        apply Hbody; [lia|].
        split; [apply Z.mul_nonneg_nonneg; lia|].
        rewrite H52. apply Z.mul_lt_mono_pos_r; lia.
    + apply Hbody; [lia|].
      revert Hm. change (p2 23) with 8388608. change (p2 29) with 536870912.
      change (p2 52) with 4503599627370496. intros Hm. lia.
Qed.

Lemma quiet32_idem : forall r, 0 <= r < 2 ^ 32 -> quiet32 (quiet32 r) = quiet32 r.
Proof.
  intros r Hr. destruct (fields32 r Hr) as (Hs & He & Hm & Hdec).
  set (s := r / p2 31) in *. set (e := (r / p2 23) mod 256) in *. set (m := r mod p2 23) in *.
  clearbody s e m. subst r.
  rewrite quiet32_fields by assumption.
  destruct ((e =? 255) && negb (m =? 0)) eqn:E.
  - assert (Hm' : 0 <= m < 2 ^ 23) by exact Hm.
    pose proof (lor_bound 23 4194304 m ltac:(lia) ltac:(change (2 ^ 23) with 8388608; lia) Hm') as Hl.
    rewrite quiet32_fields; [| exact Hs | lia | exact Hl].
    change (255 =? 255) with true.
    destruct (Z.eqb_spec (Z.lor 4194304 m) 0) as [H0|_].
    + exfalso. apply Z.lor_eq_0_iff in H0. destruct H0 as [H0 _]. discriminate H0.
    + cbn [andb negb]. rewrite Z.lor_assoc, Z.lor_diag. reflexivity.
  - rewrite quiet32_fields by assumption. rewrite E. reflexivity.
Qed.

(* widen32 (quiet32 r) is a fixed point of "round, then widen" *)
Theorem round32_widen32_fixed : forall r, 0 <= r < 2 ^ 32 ->
  round32 (widen32 (quiet32 r)) = Ok (quiet32 r).
Proof.
  intros r Hr. rewrite round32_widen32 by (apply quiet32_range; exact Hr).
  rewrite quiet32_idem by exact Hr. reflexivity.
Qed.

(* quiet32 changes exactly the signalling NaNs *)
Lemma quiet32_id_iff : forall r, 0 <= r < 2 ^ 32 -> (quiet32 r = r <-> is_snan32 r = false).
Proof.
  intros r Hr. destruct (fields32 r Hr) as (Hs & He & Hm & Hdec).
  unfold is_snan32. unfold quiet32 at 1.
  destruct (is_nan32 r) eqn:En; [|cbn [andb]; tauto].
  cbn [andb]. unfold is_nan32 in En.
  apply andb_true_iff in En. destruct En as [E1 E2]. apply Z.eqb_eq in E1.
  set (s := r / p2 31) in *. set (e := (r / p2 23) mod 256) in *. set (m := r mod p2 23) in *.
  clearbody s e m. subst e. rewrite Hdec at 1. rewrite lor_nan_fields by exact Hm.
  destruct (Z.ltb_spec m 4194304) as [Hlt|Hge].
  - (* quiet bit clear: lor adds it *)
    split; [|discriminate]. intros H. exfalso.
    assert (Hadd : Z.lor 4194304 m = 4194304 + m).
    { symmetry. apply (add_is_lor 1 22 m); [lia|change (2 ^ 22) with 4194304; lia]. }
    lia.
  - (* quiet bit set: lor changes nothing *)
    split; [reflexivity|]. intros _.
    assert (Hfix : Z.lor 4194304 m = m).
    { replace m with (1 * 2 ^ 22 + (m - 4194304)) at 1 2 by (change (2 ^ 22) with 4194304; lia).
      rewrite (add_is_lor 1 22 (m - 4194304));
        [| lia | revert Hm; change (p2 23) with 8388608; change (2 ^ 22) with 4194304; lia].
      change (1 * 2 ^ 22) with 4194304.
      rewrite Z.lor_assoc, Z.lor_diag. reflexivity. }
    rewrite Hfix. symmetry. exact Hdec.
Qed.

(* a binary32 value that is not a signalling NaN, widened: encoding and decoding returns it bit for bit *)
Theorem f32_representable_exact : forall get r rest, 0 <= r < 2 ^ 32 -> is_snan32 r = false ->
  wt get (T (str "float"%string) []) (VFloat (widen32 r)) = true /\
  exists bs, encode (T (str "float"%string) []) (VFloat (widen32 r)) = Ok bs /\ List.length bs = 4%nat /\
             decode get (T (str "float"%string) []) (bs ++ rest) = Ok (VFloat (widen32 r), rest).
Proof.
  intros get r rest Hr Hq. apply (quiet32_id_iff r Hr) in Hq.
  pose proof (round32_widen32 r Hr) as Hrw. rewrite Hq in Hrw.
  split.
  - rewrite wt_unfold, lookup_float. cbn [wt_k no_subs andb]. rewrite Hrw.
    apply andb_true_iff. split; [apply andb_true_iff; split|].
    + apply Z.leb_le. lia.
    + apply Z.ltb_lt. lia.
    + apply Z.eqb_refl.
  - exists (le_bytes 4 r). fold tfloat. split; [|split].
    + rewrite encode_float, Hrw. reflexivity.
    + apply le_bytes_length.
    + rewrite decode_float.
      rewrite take_app_len, drop_app_len by apply le_bytes_length.
      rewrite le_bytes_length. cbn [Nat.eqb].
      rewrite of_le_le_bytes_small by (rewrite pow256_4; exact Hr).
      reflexivity.
Qed.

(* conversely, the float values `wt` accepts are exactly the widened non-signalling binary32 patterns *)
Theorem wt_float_iff : forall get b,
  wt get (T (str "float"%string) []) (VFloat b) = true <->
  exists r, 0 <= r < 2 ^ 32 /\ is_snan32 r = false /\ b = widen32 r.
Proof.
  intros get b. split.
  - intros H. rewrite wt_unfold, lookup_float in H. cbn [wt_k no_subs andb] in H.
    destruct (round32 b) as [r|e] eqn:Er; [|discriminate].
    apply andb_true_iff in H. destruct H as [H H3]. apply andb_true_iff in H. destruct H as [H1 H2].
    apply Z.leb_le in H1. apply Z.ltb_lt in H2. apply Z.eqb_eq in H3.
    assert (Hr : 0 <= r < 2 ^ 32) by lia.
    exists r. split; [exact Hr|]. split; [|symmetry; exact H3].
    apply (quiet32_id_iff r Hr).
    pose proof (round32_widen32 r Hr) as Hrw. rewrite H3, Er in Hrw.
    apply Ok_inj in Hrw. symmetry. exact Hrw.
  - intros (r & Hr & Hq & ->).
    exact (proj1 (f32_representable_exact get r [] Hr Hq)).
Qed.

(* ================================================================== *)
(* 4. Examples                                                         *)
(* ================================================================== *)

(* 0.1 is not a binary32 value: it is rounded, and comes back as the rounded value *)
Example ex_tenth_round : round32 0x3FB999999999999A = Ok 0x3DCCCCCD.
Proof. vm_compute. reflexivity. Qed.
Example ex_tenth_widen : widen32 0x3DCCCCCD = 0x3FB99999A0000000.
Proof. vm_compute. reflexivity. Qed.
Example ex_tenth_codec : forall get,
  encode tfloat (VFloat 0x3FB999999999999A) = Ok [0xCD; 0xCC; 0xCC; 0x3D] /\
  decode get tfloat [0xCD; 0xCC; 0xCC; 0x3D; 7] = Ok (VFloat 0x3FB99999A0000000, [7]).
Proof. intros get. split; vm_compute; reflexivity. Qed.

(* ties go to even: 1 + 2^-24 -> 1.0 (down), 1 + 3*2^-24 -> 1 + 2^-22 (up); just above the tie goes up *)
Example ex_tie_down : round32 0x3FF0000010000000 = Ok 0x3F800000.
Proof. vm_compute. reflexivity. Qed.
Example ex_tie_up : round32 0x3FF0000030000000 = Ok 0x3F800002.
Proof. vm_compute. reflexivity. Qed.
Example ex_above_tie : round32 0x3FF0000010000001 = Ok 0x3F800001.
Proof. vm_compute. reflexivity. Qed.

(* 1e39 overflows; so does the first double that rounds up to 2^128; the one before is FLT_MAX *)
Example ex_overflow : round32 0x48078287F49C4A1D = Err EOverflow.
Proof. vm_compute. reflexivity. Qed.
Example ex_overflow_codec : encode tfloat (VFloat 0x48078287F49C4A1D) = Err EOverflow.
Proof. vm_compute. reflexivity. Qed.
Example ex_overflow_edge : round32 0x47EFFFFFF0000000 = Err EOverflow.
Proof. vm_compute. reflexivity. Qed.
Example ex_flt_max : round32 0x47EFFFFFEFFFFFFF = Ok 0x7F7FFFFF.
Proof. vm_compute. reflexivity. Qed.

(* subnormal float32 results: -1e-40, the carry into the smallest normal, the smallest subnormal,
   the tie below it (to even = 0) and just above that tie *)
Example ex_subnormal : round32 0xB7A16C262777579C = Ok 0x800116C2.
Proof. vm_compute. reflexivity. Qed.
Example ex_subnormal_widen : widen32 0x800116C2 = 0xB7A16C2000000000.
Proof. vm_compute. reflexivity. Qed.
Example ex_subnormal_carry : round32 0x380FFFFFFFFFFFFF = Ok 0x00800000.
Proof. vm_compute. reflexivity. Qed.
Example ex_subnormal_min : round32 0x36A0000000000000 = Ok 1 /\ widen32 1 = 0x36A0000000000000.
Proof. split; vm_compute; reflexivity. Qed.
Example ex_subnormal_tie0 : round32 0x3690000000000000 = Ok 0.
Proof. vm_compute. reflexivity. Qed.
Example ex_subnormal_above_tie0 : round32 0x3690000000000001 = Ok 1.
Proof. vm_compute. reflexivity. Qed.
Example ex_underflow : round32 0x366244CE242C5561 = Ok 0.
Proof. vm_compute. reflexivity. Qed.

(* signalling NaNs are quieted in both directions; infinities pass *)
Example ex_snan64 : round32 0x7FF0000000000001 = Ok 0x7FC00000.
Proof. vm_compute. reflexivity. Qed.
Example ex_snan32 : widen32 0x7F800001 = 0x7FF8000020000000.
Proof. vm_compute. reflexivity. Qed.
Example ex_snan32_quiet : is_snan32 0x7F800001 = true /\ quiet32 0x7F800001 = 0x7FC00001 /\
  round32 (widen32 0x7F800001) = Ok 0x7FC00001 /\ is_snan32 0x7FC00001 = false.
Proof. repeat split; vm_compute; reflexivity. Qed.
(* a signalling double NaN comes back quiet, so it is not a value `wt` calls exactly representable *)
Example ex_snan64_codec : forall get,
  (do bs <- encode tfloat (VFloat 0x7FF0000000000001); decode get tfloat bs) = Ok (VFloat 0x7FF8000000000000, []) /\
  wt get tfloat (VFloat 0x7FF0000000000001) = false /\ wt get tfloat (VFloat 0x7FF8000000000000) = true.
Proof. intros get. repeat split; vm_compute; reflexivity. Qed.
Example ex_neg_inf : round32 0xFFF0000000000000 = Ok 0xFF800000 /\ widen32 0xFF800000 = 0xFFF0000000000000.
Proof. split; vm_compute; reflexivity. Qed.

Print Assumptions round32_range.
Print Assumptions f32_roundtrip_rounds.
Print Assumptions f32_overflow_refused.
Print Assumptions round32_widen32.
Print Assumptions round32_widen32_fixed.
Print Assumptions quiet32_id_iff.
Print Assumptions f32_representable_exact.
Print Assumptions wt_float_iff.
