(* Auxiliary lemmas for the property files Props/C03 C04 C05 C06 C10 C12 C13 C16: the per-family effect lemmas
   re-stated at the level of guarded operations on invariant states, small derived facts, and the
   executable check used by the non-vacuity examples. *)
From Coq Require Import ZArith List Bool Lia.
From V Require Import Result LazyTree World WorldGuard WorldRun ForestDefs InvDefs.
From V Require SetOpsBase SetOpsProofs ModListBase ModListProofs SyncProofs SymIxProofs SymxProofs
               LookupBase LookupProofs ScheduleProofs.
From V Require Import WorldInv.
Import ListNotations.
Open Scope Z_scope.

(* ---------- executable check for the examples: every operation of a history is inside the guard
   and succeeds ---------- *)

Fixpoint all_guarded_ok (w : world) (known : list id) (ops : list op) : bool :=
  match ops with
  | [] => true
  | o :: r =>
    op_okb w known o && match step w o with Ok _ => true | Err _ => false end
    && all_guarded_ok (step' w o) (known_after o known) r
  end.

Lemma all_guarded_ok_run : forall ops w known, all_guarded_ok w known ops = true ->
  run_guarded w known ops = (fold_left step' ops w, fold_left (fun k o => known_after o k) ops known).
Proof.
  induction ops as [|o ops IH]; intros w known H; [reflexivity|].
  cbn [all_guarded_ok] in H. apply andb_prop in H. destruct H as [H H3].
  apply andb_prop in H. destruct H as [H1 _].
  rewrite run_guarded_cons, H1. cbn [fold_left]. apply IH. exact H3.
Qed.

(* ---------- C03 ---------- *)

Lemma ir_of_ir : forall w n, kindof w n = KIR -> ir_of w n = None.
Proof. intros w n H. unfold ir_of. rewrite H. reflexivity. Qed.

Lemma cache_no_leak : forall w known ir1 ir2 u1 u2 n, InvAll w known ->
  has w ir1 = true -> kindof w ir1 = KIR -> has w ir2 = true -> kindof w ir2 = KIR ->
  get_by_uuid w ir1 u1 = Some n -> get_by_uuid w ir2 u2 = Some n -> ir1 = ir2.
Proof.
  intros w known ir1 ir2 u1 u2 n [[HF HC _ _ _ _] _] H1 K1 H2 K2 G1 G2.
  apply (proj2 (HC ir1 H1 K1)) in G1. apply (proj2 (HC ir2 H2 K2)) in G2.
  destruct G1 as [G1 _]. destruct G2 as [G2 _].
  apply (ModListProofs.reach_ir_of w known ir1 n HF K1) in G1.
  apply (ModListProofs.reach_ir_of w known ir2 n HF K2) in G2.
  destruct G1 as [G1|G1]; destruct G2 as [G2|G2].
  - congruence.
  - subst n. rewrite (ir_of_ir w ir1 K1) in G2. discriminate.
  - subst n. rewrite (ir_of_ir w ir2 K2) in G1. discriminate.
  - congruence.
Qed.

Lemma cache_none : forall w known ir u, InvAll w known -> has w ir = true -> kindof w ir = KIR ->
  (get_by_uuid w ir u = None <-> forall n, In n (reach w ir) -> nuuid (getn w n) <> u).
Proof.
  intros w known ir u [[HF HC _ _ _ _] _] H K. destruct (HC ir H K) as [_ HX]. unfold get_by_uuid. split.
  - intros E n Hn Hu. rewrite (proj2 (HX u n) (conj Hn Hu)) in E. discriminate.
  - intros Hall. destruct (dict_get Z.eqb u (cache w ir)) as [n|] eqn:E; [|reflexivity].
    apply HX in E. destruct E as [Hn Hu]. exfalso. exact (Hall n Hn Hu).
Qed.

(* the node found is unique per UUID: two attached nodes of one IR never share a UUID *)
Lemma attached_uuid_inj : forall w known ir a b, InvAll w known -> has w ir = true -> kindof w ir = KIR ->
  In a (reach w ir) -> In b (reach w ir) -> nuuid (getn w a) = nuuid (getn w b) -> a = b.
Proof.
  intros w known ir a b [[HF HC _ _ _ _] _] H K Ha Hb E. destruct (HC ir H K) as [_ HX].
  pose proof (proj2 (HX (nuuid (getn w a)) a) (conj Ha eq_refl)) as A.
  pose proof (proj2 (HX (nuuid (getn w a)) b) (conj Hb (eq_sym E))) as B.
  congruence.
Qed.

(* ---------- C04 ---------- *)

Lemma single_parent : forall w known p q c, Forest w known -> In c (kids w p) -> In c (kids w q) -> p = q.
Proof.
  intros w known p q c HF Hp Hq. apply (f_two_ended _ _ HF) in Hp. apply (f_two_ended _ _ HF) in Hq. congruence.
Qed.

Lemma ir_of_kind : forall w known n ir, Forest w known -> ir_of w n = Some ir -> kindof w ir = KIR.
Proof.
  intros w known n ir HF H. rewrite SetOpsBase.ir_of_up in H.
  destruct (SetOpsBase.rank (kindof w n)) as [|r] eqn:Er; [discriminate|].
  pose proof (SetOpsBase.up_rank w (SetOpsBase.forest_kind_ok w known HF) (S r) n ir H) as E.
  apply SetOpsBase.rank0_KIR. rewrite Er in E. lia.
Qed.

Lemma section_of_kind : forall w known n s, Forest w known -> section_of w n = Some s -> kindof w s = KSec.
Proof.
  intros w known n s HF H. unfold section_of in H.
  assert (KB : forall b s', kindof w b = KBI -> par w b = Some s' -> kindof w s' = KSec).
  { intros b s' Kb Hp. destruct (f_kind _ _ HF s' b Hp) as (_ & _ & Hk). rewrite Kb in Hk. cbn in Hk. congruence. }
  assert (KC : forall c b, is_block (kindof w c) = true -> par w c = Some b -> kindof w b = KBI).
  { intros c b Kc Hp. destruct (f_kind _ _ HF b c Hp) as (_ & _ & Hk).
    rewrite (SetOpsProofs.is_block_parent _ Kc) in Hk. congruence. }
  destruct (kindof w n) eqn:K; try discriminate.
  - exact (KB n s K H).
  - destruct (par w n) as [b|] eqn:Hb; [|discriminate]. cbn [bind_o] in H.
    apply (KB b s); [|exact H]. apply (KC n b); [rewrite K; reflexivity|exact Hb].
  - destruct (par w n) as [b|] eqn:Hb; [|discriminate]. cbn [bind_o] in H.
    apply (KB b s); [|exact H]. apply (KC n b); [rewrite K; reflexivity|exact Hb].
Qed.

(* collection.add(c) as an operation *)
Lemma op_add_effect : forall w known p fk c, InvAll w known -> op_okb w known (OSet p fk SAdd [[c]]) = true ->
  exists w', step w (OSet p fk SAdd [[c]]) = Ok w' /\
    par w' c = Some p /\ In c (kids w' p) /\
    (forall x, In x (kids w' p) <-> In x (kids w p) \/ x = c) /\
    (forall q, q <> p -> kids w' q = remove_id c (kids w q)) /\
    (forall x, x <> c -> nodes w' x = nodes w x) /\
    getn w' c = with_par (getn w c) (Some p).
Proof.
  intros w known p fk c [[HF HC _ _ _ _] _] G.
  destruct (SetOpsProofs.oset_guard w known p fk SAdd [[c]] G) as (Hp & Hfk & Hm & _).
  cbn [forallb] in Hm. rewrite !andb_true_r in Hm.
  destruct (SetOpsProofs.member_ok_child w p fk c Hfk Hm) as (Hc & Hpk & Hnir).
  destruct (SetOpsProofs.set_add_ok w known p c HF HC Hp Hc Hpk Hnir) as (_ & _ & Hfl & _ & A & _ & B & C & D).
  pose proof (SetOpsProofs.set_add_members w known p c HF HC Hp Hc Hpk Hnir) as M.
  exists (fst (set_add w p c)). split; [cbn [step do_set]; apply SetOpsProofs.flagged_true; exact Hfl|].
  split; [exact A|]. split; [apply M; right; reflexivity|]. split; [exact M|]. split; [exact B|]. split; [exact C|exact D].
Qed.

(* collection.discard(c) as an operation *)
Lemma op_discard_effect : forall w known p fk c, InvAll w known -> op_okb w known (OSet p fk SDiscard [[c]]) = true ->
  exists w', step w (OSet p fk SDiscard [[c]]) = Ok w' /\
    kids w' p = remove_id c (kids w p) /\
    (forall q, q <> p -> kids w' q = kids w q) /\
    (forall x, x <> c -> nodes w' x = nodes w x) /\
    (In c (kids w p) -> par w' c = None) /\
    (~ In c (kids w p) -> w' = w).
Proof.
  intros w known p fk c [[HF HC _ _ _ _] _] G.
  destruct (SetOpsProofs.oset_guard w known p fk SDiscard [[c]] G) as (Hp & Hfk & _ & _).
  pose proof (SetOpsProofs.field_ok_not_ir w p fk Hfk) as Hnir.
  destruct (SetOpsProofs.set_discard_preserves w known p c HF HC) as (_ & _ & Hfl & _).
  pose proof (SetOpsProofs.set_discard_kids w known p c HF HC Hnir) as K.
  exists (fst (set_discard w p c)). split; [cbn [step do_set]; apply SetOpsProofs.flagged_true; exact Hfl|].
  split; [rewrite K, Z.eqb_refl; reflexivity|].
  split; [intros q Hq; rewrite K; destruct (Z.eqb_spec q p); [contradiction|reflexivity]|].
  destruct (mem c (kids w p)) eqn:M.
  - destruct (SetOpsProofs.set_discard_effect w known p c HF HC Hnir M) as (A & _ & _ & B & _).
    split; [exact B|]. split; [intros _; exact A|]. intros Hn. exfalso. apply Hn. apply SetOpsBase.mem_In. exact M.
  - rewrite (SetOpsProofs.set_discard_nonmember w p c M).
    split; [reflexivity|]. split; [|reflexivity]. intros Hin. apply SetOpsBase.mem_In in Hin. congruence.
Qed.

(* assigning the parent attribute, all six relations at once *)
Lemma op_setparent_effect : forall w known c p, InvAll w known -> op_okb w known (OSetParent c p) = true ->
  exists w', step w (OSetParent c p) = Ok w' /\
    par w' c = p /\
    (forall q, p = Some q -> kids w' q = remove_id c (kids w q) ++ [c]) /\
    (forall q, p <> Some q -> kids w' q = remove_id c (kids w q)) /\
    (forall x, x <> c -> nodes w' x = nodes w x) /\
    getn w' c = with_par (getn w c) p.
Proof.
  intros w known c p [[HF HC _ _ _ _] _] G.
  destruct (SetOpsProofs.kind_eq_dec (kindof w c) KMod) as [K|K].
  - destruct p as [ir|].
    + destruct (ModListProofs.setparent_some_effect w known c ir HF HC G K) as (w' & E & A & B & C & D).
      exists w'. split; [exact E|]. split; [exact D|].
      split; [intros q Hq; inversion Hq; subst q; exact A|].
      split; [intros q Hq; apply B; congruence|].
      split; [intros x Hx; rewrite C; destruct (Z.eqb_spec x c); [contradiction|reflexivity]|].
      unfold getn at 1. rewrite C, Z.eqb_refl. reflexivity.
    + destruct (ModListProofs.setparent_none_effect w known c HF HC G K) as (w' & E & A & B & C & D).
      exists w'. split; [exact E|]. split; [exact D|].
      split; [intros q Hq; discriminate|]. split; [intros q _; apply A|]. split; [exact B|].
      unfold getn at 1. rewrite C. reflexivity.
  - destruct (SetOpsProofs.osetparent_effect w known c p HF HC G K) as (w' & E & _ & A & B & C & D).
    exists w'. split; [exact E|]. split; [exact A|].
    split; [intros q Hq; rewrite B, Hq, Z.eqb_refl; reflexivity|].
    split; [|split; [exact C|exact D]].
    intros q Hq. rewrite B. destruct p as [q0|]; [|reflexivity].
    destruct (Z.eqb_spec q q0); [subst q0; contradiction|reflexivity].
Qed.

(* ---------- C05: the code / data variants ---------- *)

Lemma kfilter_code : forall w l b, In b (kfilter w 1 l) <-> In b l /\ kindof w b = KCode.
Proof.
  intros w l b. change (kfilter w 1 l) with (filter (fun b => kind_eqb (kindof w b) KCode) l).
  rewrite filter_In, SetOpsBase.kind_eqb_eq. reflexivity.
Qed.

Lemma kfilter_data : forall w l b, In b (kfilter w 2 l) <-> In b l /\ kindof w b = KData.
Proof.
  intros w l b. change (kfilter w 2 l) with (filter (fun b => kind_eqb (kindof w b) KData) l).
  rewrite filter_In, SetOpsBase.kind_eqb_eq. reflexivity.
Qed.

Lemma kfilter_all : forall w kf l, kf <> 1 -> kf <> 2 -> kfilter w kf l = l.
Proof.
  intros w kf l H1 H2. destruct kf as [|[p|[p|p|]|]|p]; try reflexivity; exfalso; auto.
Qed.

Lemma bi_blocks_on_noaddr : forall w bi q, naddr (getn w bi) = None -> bi_blocks_on w bi q = (w, []).
Proof. intros w bi q H. unfold bi_blocks_on. rewrite H. reflexivity. Qed.

Lemma bi_blocks_at_noaddr : forall w bi q, naddr (getn w bi) = None -> bi_blocks_at w bi q = (w, []).
Proof. intros w bi q H. unfold bi_blocks_at. rewrite H. reflexivity. Qed.

(* ---------- C06: sections_on / sections_at at module and IR scope ---------- *)

Lemma secs_of_all_sec : forall w m s, In s (secs_of w m) -> kindof w s = KSec.
Proof. exact LookupProofs.secs_of_kind. Qed.

Lemma mod_sections_on_exact : forall w known m q, LookupBase.Good known w ->
  NoDup (snd (sections_on w (secs_of w m) q)) /\
  forall s, In s (snd (sections_on w (secs_of w m) q)) <->
    In s (secs_of w m) /\ exists a sz, LookupProofs.ext_pure w s = Some (a, sz) /\
      (Z.max (qstart q) a <? Z.min (qstop q) (a + sz)) = true.
Proof.
  intros w known m q G.
  exact (LookupProofs.sections_on_exact known w (secs_of w m) q G (LookupProofs.secs_of_NoDup known w m G)
           (LookupProofs.secs_of_kind w m)).
Qed.

Lemma mod_sections_at_exact : forall w known m q, LookupBase.Good known w ->
  NoDup (snd (sections_at w (secs_of w m) q)) /\
  forall s, In s (snd (sections_at w (secs_of w m) q)) <->
    In s (secs_of w m) /\ exists a sz, LookupProofs.ext_pure w s = Some (a, sz) /\ in_q a q = true.
Proof.
  intros w known m q G.
  exact (LookupProofs.sections_at_exact known w (secs_of w m) q G (LookupProofs.secs_of_NoDup known w m G)
           (LookupProofs.secs_of_kind w m)).
Qed.

Lemma ir_sections_on_exact : forall w known ir q, LookupBase.Good known w ->
  NoDup (snd (sections_on w (flat_map (secs_of w) (mods_of w ir)) q)) /\
  forall s, In s (snd (sections_on w (flat_map (secs_of w) (mods_of w ir)) q)) <->
    In s (flat_map (secs_of w) (mods_of w ir)) /\ exists a sz, LookupProofs.ext_pure w s = Some (a, sz) /\
      (Z.max (qstart q) a <? Z.min (qstop q) (a + sz)) = true.
Proof.
  intros w known ir q G.
  exact (LookupProofs.sections_on_exact known w (ScheduleProofs.ir_secs w ir) q G (ScheduleProofs.ir_secs_NoDup known w ir G)
           (ScheduleProofs.ir_secs_kind w ir)).
Qed.

Lemma ir_sections_at_exact : forall w known ir q, LookupBase.Good known w ->
  NoDup (snd (sections_at w (flat_map (secs_of w) (mods_of w ir)) q)) /\
  forall s, In s (snd (sections_at w (flat_map (secs_of w) (mods_of w ir)) q)) <->
    In s (flat_map (secs_of w) (mods_of w ir)) /\ exists a sz, LookupProofs.ext_pure w s = Some (a, sz) /\ in_q a q = true.
Proof.
  intros w known ir q G.
  exact (LookupProofs.sections_at_exact known w (ScheduleProofs.ir_secs w ir) q G (ScheduleProofs.ir_secs_NoDup known w ir G)
           (ScheduleProofs.ir_secs_kind w ir)).
Qed.

(* the sections a module / IR scans are exactly its sections *)
Lemma secs_of_In : forall w m s, In s (secs_of w m) <-> In s (kids w m) /\ kindof w s = KSec.
Proof.
  intros w m s. unfold secs_of, field. rewrite filter_In. cbn [existsb]. rewrite orb_false_r, SetOpsBase.kind_eqb_eq.
  reflexivity.
Qed.

Lemma ir_secs_In : forall w ir s, In s (flat_map (secs_of w) (mods_of w ir)) <->
  exists m, In m (kids w ir) /\ In s (kids w m) /\ kindof w s = KSec.
Proof.
  intros w ir s. rewrite in_flat_map. unfold mods_of. split.
  - intros (m & Hm & Hs). exists m. split; [exact Hm|]. apply secs_of_In. exact Hs.
  - intros (m & Hm & Hs). exists m. split; [exact Hm|]. apply secs_of_In. exact Hs.
Qed.

(* ---------- C13: the section envelope of symbolic_expressions_at, with the exact byte_intervals_on ---------- *)

Lemma sec_bis_on_spec_holds : forall w known s q, LookupBase.Good known w -> kindof w s = KSec ->
  SymxProofs.bis_on_spec w s q (snd (sec_bis_on w s q)).
Proof.
  intros w known s q (HF & HS & HN) K. exact (proj2 (LookupProofs.sec_bis_on_exact w s q HS HN K)).
Qed.

Lemma sec_symx_at_envelope_good : forall w known s q, LookupBase.Good known w -> SymxSorted w -> kindof w s = KSec ->
  let r := snd (sec_symx_at w s q) in
  (forall bi k e, In (bi, k, e) r ->
     In bi (kids w s) /\ In (k, e) (symx w bi) /\ exists a, naddr (getn w bi) = Some a /\ in_q (a + k) q = true) /\
  (forall bi k e a, In bi (kids w s) -> In (k, e) (symx w bi) -> naddr (getn w bi) = Some a ->
     in_q (a + k) q = true -> 0 <= k < nsize (getn w bi) -> In (bi, k, e) r) /\
  NoDup r /\
  (forall bi, symx (fst (sec_symx_at w s q)) bi = symx w bi).
Proof.
  intros w known s q G HSo K.
  destruct (SymxProofs.sec_symx_at_envelope w s q (sec_bis_on_spec_holds w known s q G K)) as (A & B & C & D).
  destruct G as (HF & HS & HN).
  split; [exact A|]. split; [exact B|]. split; [|exact D].
  exact (C (proj1 (LookupProofs.sec_bis_on_exact w s q HS HN K)) HSo).
Qed.

Lemma bi_symx_at_noaddr : forall w bi q, naddr (getn w bi) = None -> bi_symx_at w bi q = [].
Proof. intros w bi q H. unfold bi_symx_at. rewrite H. reflexivity. Qed.

(* ---------- C12: canonical form of an id-valued answer (the API returns unordered iterables) ---------- *)

Fixpoint zinsert (x : Z) (l : list Z) : list Z :=
  match l with
  | [] => [x]
  | y :: l' => if x <=? y then x :: l else y :: zinsert x l'
  end.

Definition zsort (l : list Z) : list Z := fold_right zinsert [] l.

Lemma zinsert_In : forall x l y, In y (zinsert x l) <-> y = x \/ In y l.
Proof.
  intros x l y. induction l as [|z l IH]; cbn [zinsert].
  - cbn. timeout 20 intuition.
  - destruct (x <=? z); cbn [In]; [timeout 20 intuition|]. rewrite IH. timeout 20 intuition.
Qed.

Lemma zsort_In : forall l y, In y (zsort l) <-> In y l.
Proof.
  intros l y. induction l as [|x l IH]; [reflexivity|].
  unfold zsort. cbn [fold_right]. fold (zsort l). rewrite zinsert_In, IH. cbn [In]. timeout 20 intuition.
Qed.

(* the ids of a reply `L [A 0; L ids]` of Model/WorldRun.query, sorted *)
Definition answer_ids (s : sx) : list Z :=
  match s with
  | L [A 0; L l] => zsort (map un_z l)
  | _ => []
  end.

(* ---------- C16: the module list at the level of operations ---------- *)

(* list.remove(v): ValueError exactly when v is not in the list, else the first (only) occurrence goes *)
Lemma op_remove_effect : forall w known ir v, InvAll w known -> op_okb w known (OModRemove ir v) = true ->
  (~ In v (kids w ir) -> step w (OModRemove ir v) = Err EValue) /\
  (In v (kids w ir) ->
   exists i w', index_of v (kids w ir) = Some i /\ step w (OModRemove ir v) = Ok w' /\
     kids w' ir = remove_at i (kids w ir) /\ kids w' ir = remove_id v (kids w ir) /\
     (forall x, x <> ir -> kids w' x = kids w x) /\
     (forall x, nodes w' x = if x =? v then Some (with_par (getn w v) None) else nodes w x) /\
     par w' v = None).
Proof.
  intros w known ir v [[HF HC _ _ _ _] _] G. split; [exact (ModListProofs.remove_effect_notin w ir v)|].
  intros Hin. destruct (ModListProofs.remove_effect_in w known ir v HF HC G Hin) as (i & A & B & C & D & E & F & H).
  exists i, (ModListProofs.detach w ir v). exact (conj A (conj B (conj C (conj D (conj E (conj F H)))))).
Qed.

(* list.pop(i) / del list[i]: IndexError exactly when i is out of range (Python index normalisation) *)
Lemma op_del_effect : forall w known ir i o, InvAll w known -> o = OModPop ir i \/ o = OModDelItem ir i ->
  op_okb w known o = true ->
  match norm_index i (length (kids w ir)) with
  | None => step w o = Err EIndex
  | Some k =>
    exists v w', nth_error (kids w ir) k = Some v /\ step w o = Ok w' /\
      kids w' ir = remove_at k (kids w ir) /\
      (forall x, x <> ir -> kids w' x = kids w x) /\
      (forall x, nodes w' x = if x =? v then Some (with_par (getn w v) None) else nodes w x) /\
      par w' v = None
  end.
Proof.
  intros w known ir i o [[HF HC _ _ _ _] _] Ho G.
  destruct (norm_index i (length (kids w ir))) as [k|] eqn:N.
  - destruct Ho as [-> | ->].
    + destruct (ModListProofs.pop_effect_some w known ir i k HF HC G N) as (v & A & B & C & D & E & F).
      exists v, (ModListProofs.detach w ir v). exact (conj A (conj B (conj C (conj D (conj E F))))).
    + destruct (ModListProofs.delitem_effect_some w known ir i k HF HC G N) as (v & A & B & C & D & E & F).
      exists v, (ModListProofs.detach w ir v). exact (conj A (conj B (conj C (conj D (conj E F))))).
  - destruct Ho as [-> | ->];
      [exact (ModListProofs.pop_effect_none w ir i N)|exact (ModListProofs.delitem_effect_none w ir i N)].
Qed.

(* after any guarded operation no node sits in two collections or twice in one: an inserted node that was owned
   elsewhere has been moved, not duplicated *)
Lemma moved_not_duplicated : forall w known o, InvAll w known -> op_okb w known o = true ->
  (forall p, NoDup (kids (step' w o) p)) /\
  (forall c p q, In c (kids (step' w o) p) -> In c (kids (step' w o) q) -> p = q) /\
  (forall p c, In c (kids (step' w o) p) <-> par (step' w o) c = Some p).
Proof.
  intros w known o H G. destruct (invall_step w known o H G) as [[HF _ _ _ _ _] _].
  split; [exact (f_nodup _ _ HF)|]. split; [|exact (f_two_ended _ _ HF)].
  intros c p q. exact (single_parent _ _ p q c HF).
Qed.

(* removing a moved element keeps the relative order of the others *)
Lemma remove_id_order : forall v l, remove_id v l = filter (fun y => negb (y =? v)) l.
Proof. reflexivity. Qed.

Lemma failed_op_leaves_state : forall w known o e, InvAll w known -> step w o = Err e ->
  step' w o = w /\ InvAll (step' w o) known.
Proof.
  intros w known o e H E. rewrite (ModListProofs.step'_err w o e E). split; [reflexivity|exact H].
Qed.

(* ---------- C13: module and IR scope of symbolic_expressions_at (the scan of WorldRun.query, method 8) ---------- *)

Definition symx_scan (w : world) (secs : list id) (q : qrange) : world * list (id * Z * id) :=
  fold_left (ScheduleProofs.symx_fold_step q) secs (w, []).

Lemma symx_fold_step_eq : forall q w acc s,
  ScheduleProofs.symx_fold_step q (w, acc) s = (fst (sec_symx_at w s q), acc ++ snd (sec_symx_at w s q)).
Proof. intros q w acc s. unfold ScheduleProofs.symx_fold_step. destruct (sec_symx_at w s q); reflexivity. Qed.

Lemma sorted_agree : forall w w', LookupBase.agree w w' -> SymxSorted w -> SymxSorted w'.
Proof. intros w w' (_ & _ & _ & _ & _ & Es) H bi. rewrite Es. exact (H bi). Qed.

Lemma symx_fold_spec : forall known q secs w acc, LookupBase.Good known w -> SymxSorted w ->
  NoDup secs -> (forall s, In s secs -> kindof w s = KSec) ->
  NoDup acc -> (forall bi k e s, In (bi, k, e) acc -> In s secs -> ~ In bi (kids w s)) ->
  let r := fold_left (ScheduleProofs.symx_fold_step q) secs (w, acc) in
  LookupBase.Good known (fst r) /\ LookupBase.agree w (fst r) /\ NoDup (snd r) /\
  forall t, In t (snd r) <-> In t acc \/ exists s, In s secs /\ In t (snd (sec_symx_at w s q)).
Proof.
  intros known q secs. induction secs as [|s secs IH]; intros w acc G HSo ND HK NDa Hacc.
  - cbn. split; [exact G|]. split; [apply LookupBase.agree_refl|]. split; [exact NDa|].
    intros t. split; [intros H; left; exact H|]. intros [H|(s & [] & _)]. exact H.
  - cbn [fold_left]. rewrite symx_fold_step_eq.
    assert (E1 : fst (sec_symx_at w s q) = fst (sec_bis_on w s q)) by (rewrite SymxProofs.sec_symx_at_unfold; reflexivity).
    destruct (LookupProofs.sec_bis_on_world known w s q G) as [G1 A1]. rewrite <- E1 in G1, A1.
    set (w1 := fst (sec_symx_at w s q)) in *. set (rs := snd (sec_symx_at w s q)) in *.
    pose proof (HK s (or_introl eq_refl)) as Ks.
    destruct (sec_symx_at_envelope_good w known s q G HSo Ks) as (Snd & _ & NDs & _). fold rs in Snd, NDs.
    inversion ND as [|s0 secs0 Hns NDsecs]; subst s0 secs0.
    assert (HF : Forest w known) by exact (proj1 G).
    assert (HK1 : forall s', In s' secs -> kindof w1 s' = KSec).
    { intros s' Hs'. rewrite (LookupBase.agree_kindof w w1 s' A1). apply HK. right. exact Hs'. }
    assert (NDa1 : NoDup (acc ++ rs)).
    { apply LookupBase.NoDup_app_intro; [exact NDa|exact NDs|].
      intros [[bi k] e] Ha Hr. destruct (Snd bi k e Hr) as (Hbi & _).
      exact (Hacc bi k e s Ha (or_introl eq_refl) Hbi). }
    assert (Hacc1 : forall bi k e s', In (bi, k, e) (acc ++ rs) -> In s' secs -> ~ In bi (kids w1 s')).
    { intros bi k e s' Hin Hs'. rewrite (LookupBase.agree_kids w w1 s' A1). apply in_app_or in Hin. destruct Hin as [Hin|Hin].
      - exact (Hacc bi k e s' Hin (or_intror Hs')).
      - destruct (Snd bi k e Hin) as (Hbi & _). intros Hbi'.
        apply Hns. rewrite (LookupProofs.kids_disj known w s s' bi HF Hbi Hbi'). exact Hs'. }
    destruct (IH w1 (acc ++ rs) G1 (sorted_agree w w1 A1 HSo) NDsecs HK1 NDa1 Hacc1) as (G2 & A2 & ND2 & M2).
    split; [exact G2|]. split; [exact (LookupBase.agree_trans _ _ _ A1 A2)|]. split; [exact ND2|].
    assert (Est : SyncProofs.strip w1 = SyncProofs.strip w) by (symmetry; exact (ScheduleProofs.agree_strip w w1 A1)).
    intros t. rewrite M2. rewrite in_app_iff. split.
    + intros [[H|H]|(s' & Hs' & H)].
      * left. exact H.
      * right. exists s. split; [left; reflexivity|exact H].
      * right. exists s'. split; [right; exact Hs'|].
        exact (proj1 (ScheduleProofs.sec_symx_at_struct known w1 w s' q G1 G Est (HK1 s' Hs') t) H).
    + intros [H|(s' & [Hs'|Hs'] & H)].
      * left; left. exact H.
      * subst s'. left; right. exact H.
      * right. exists s'. split; [exact Hs'|].
        exact (proj2 (ScheduleProofs.sec_symx_at_struct known w1 w s' q G1 G Est (HK1 s' Hs') t) H).
Qed.

(* the envelope at any scope that scans a duplicate-free list of sections *)
Lemma symx_scan_envelope : forall w known secs q, LookupBase.Good known w -> SymxSorted w ->
  NoDup secs -> (forall s, In s secs -> kindof w s = KSec) ->
  let r := snd (symx_scan w secs q) in
  (forall bi k e, In (bi, k, e) r ->
     exists s, In s secs /\ In bi (kids w s) /\ In (k, e) (symx w bi) /\
       exists a, naddr (getn w bi) = Some a /\ in_q (a + k) q = true) /\
  (forall s bi k e a, In s secs -> In bi (kids w s) -> In (k, e) (symx w bi) -> naddr (getn w bi) = Some a ->
     in_q (a + k) q = true -> 0 <= k < nsize (getn w bi) -> In (bi, k, e) r) /\
  NoDup r /\
  LookupBase.Good known (fst (symx_scan w secs q)) /\ LookupBase.agree w (fst (symx_scan w secs q)).
Proof.
  intros w known secs q G HSo ND HK. unfold symx_scan.
  destruct (symx_fold_spec known q secs w [] G HSo ND HK (NoDup_nil _) (fun bi k e s H => match H with end))
    as (G2 & A2 & ND2 & M).
  split; [|split; [|split; [exact ND2|split; [exact G2|exact A2]]]].
  - intros bi k e H. apply M in H. destruct H as [[]|(s & Hs & H)].
    destruct (sec_symx_at_envelope_good w known s q G HSo (HK s Hs)) as (Snd & _).
    destruct (Snd bi k e H) as (A & B & C). exists s. exact (conj Hs (conj A (conj B C))).
  - intros s bi k e a Hs Hbi Hke Ha Hq Hk. apply M. right. exists s. split; [exact Hs|].
    destruct (sec_symx_at_envelope_good w known s q G HSo (HK s Hs)) as (_ & Cmp & _).
    exact (Cmp bi k e a Hbi Hke Ha Hq Hk).
Qed.

(* this scan is what the query interface runs at module and at IR scope *)
Lemma query_symx_mod : forall w m kf q, kindof w m = KMod ->
  query w m 8 kf q = (fst (symx_scan w (secs_of w m) q), L [A 0; triples_sx (snd (symx_scan w (secs_of w m) q))]).
Proof.
  intros w m kf q K. unfold query. rewrite K. unfold symx_scan, ScheduleProofs.symx_fold_step.
  destruct (fold_left _ (secs_of w m) (w, [])) as [w1 r]. reflexivity.
Qed.

Lemma query_symx_ir : forall w ir kf q, kindof w ir = KIR ->
  query w ir 8 kf q = (fst (symx_scan w (flat_map (secs_of w) (mods_of w ir)) q),
                       L [A 0; triples_sx (snd (symx_scan w (flat_map (secs_of w) (mods_of w ir)) q))]).
Proof.
  intros w ir kf q K. unfold query. rewrite K. unfold symx_scan, ScheduleProofs.symx_fold_step.
  destruct (fold_left _ (flat_map (secs_of w) (mods_of w ir)) (w, [])) as [w1 r]. reflexivity.
Qed.

Print Assumptions cache_no_leak.
Print Assumptions op_add_effect.
Print Assumptions op_discard_effect.
Print Assumptions op_setparent_effect.
Print Assumptions symx_scan_envelope.
Print Assumptions moved_not_duplicated.
Print Assumptions op_del_effect.
