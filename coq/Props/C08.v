(* C08 -- AuxData bytes follow the shared wire format of the other GTIRB APIs.
   The Coq encoder is the format written down from AuxData.md / AuxData.hpp; the theorems below restate it
   clause by clause so that it can be read against the prose, and tie the Python codec table to it. *)
From Coq Require Import ZArith String List.
From V Require Import Result Bytes TypeName Utf8 Float32 Codec PyFacts BytesProofs CodecProofs FormatProofs.
Import ListNotations.
Open Scope Z_scope. Open Scope list_scope.

(* The codec table introspected from the working-tree Python (gen/PyFacts.v, regenerated on every run)
   is the format's table: same names, widths, signedness, float formats, container kinds. *)
Theorem C08_codec_table_conforms : py_codec_table = spec_table.
Proof. vm_compute. reflexivity. Qed.

Theorem C08_uint_little_endian : forall nm n x, lookup_codec spec_table nm = Some (CInt n false) ->
  0 <= x < pow256 n -> encode (T nm []) (VInt x) = Ok (le_bytes n x).
Proof. exact fmt_uint. Qed.

Theorem C08_sint_twos_complement : forall nm n x, lookup_codec spec_table nm = Some (CInt n true) ->
  - (pow256 n / 2) <= x < pow256 n / 2 -> encode (T nm []) (VInt x) = Ok (le_bytes n (x mod pow256 n)).
Proof. exact fmt_sint. Qed.

Theorem C08_int_overflow_refused : forall nm n sg x, lookup_codec spec_table nm = Some (CInt n sg) ->
  in_range n sg x = false -> encode (T nm []) (VInt x) = Err EOverflow.
Proof. exact fmt_int_overflow. Qed.

Theorem C08_bool_one_byte : forall b, encode (T (str "bool") []) (VBool b) = Ok [if b then 1 else 0].
Proof. exact fmt_bool. Qed.

Theorem C08_double_ieee : forall b, encode (T (str "double") []) (VFloat b) = Ok (le_bytes 8 b).
Proof. exact fmt_double. Qed.

Theorem C08_float_ieee : forall b r, round32 b = Ok r -> encode (T (str "float") []) (VFloat b) = Ok (le_bytes 4 r).
Proof. exact fmt_float. Qed.

Theorem C08_uuid_16_raw_bytes : forall u, encode (T (str "UUID") []) (VUuid u) = Ok (rev (le_bytes 16 u)).
Proof. exact fmt_uuid. Qed.

Theorem C08_offset_uuid_then_uint64 : forall u d, 0 <= d < 2 ^ 64 ->
  encode (T (str "Offset") []) (VOffset (VUuid u) d) = Ok (rev (le_bytes 16 u) ++ le_bytes 8 d).
Proof. exact fmt_offset. Qed.

Theorem C08_string_byte_count_then_utf8 : forall s, Z.of_nat (length (utf8_encode s)) < 2 ^ 64 ->
  encode (T (str "string") []) (VStr s) = Ok (le_bytes 8 (Z.of_nat (length (utf8_encode s))) ++ utf8_encode s).
Proof. exact fmt_string. Qed.

Theorem C08_sequence_count_then_elements : forall sub l bs, encode (T (str "sequence") [sub]) (VSeq l) = Ok bs ->
  exists parts, Forall2 (fun x p => encode sub x = Ok p) l parts /\
                bs = le_bytes 8 (Z.of_nat (length l)) ++ concat parts.
Proof. exact fmt_sequence. Qed.

Theorem C08_set_count_then_elements : forall sub l bs, encode (T (str "set") [sub]) (VSet l) = Ok bs ->
  exists parts, Forall2 (fun x p => encode sub x = Ok p) l parts /\
                bs = le_bytes 8 (Z.of_nat (length l)) ++ concat parts.
Proof. exact fmt_set. Qed.

Theorem C08_mapping_count_then_pairs : forall kt vt l bs, encode (T (str "mapping") [kt; vt]) (VMap l) = Ok bs ->
  exists parts, Forall2 (fun (kx : value * value) p =>
                           exists a b, encode kt (fst kx) = Ok a /\ encode vt (snd kx) = Ok b /\ p = a ++ b) l parts /\
                bs = le_bytes 8 (Z.of_nat (length l)) ++ concat parts.
Proof. exact fmt_mapping. Qed.

Theorem C08_tuple_fields_in_order : forall subs l bs, encode (T (str "tuple") subs) (VTuple l) = Ok bs ->
  length l = length subs /\
  exists parts, Forall2 (fun (sx : tree * value) p => encode (fst sx) (snd sx) = Ok p) (combine subs l) parts /\ bs = concat parts.
Proof. exact fmt_tuple. Qed.

Theorem C08_variant_index_then_alternative : forall subs i x bs, encode (T (str "variant") subs) (VVariant i x) = Ok bs ->
  0 <= i < 2 ^ 64 /\
  exists s body, nth_error subs (Z.to_nat i) = Some s /\ encode s x = Ok body /\ bs = le_bytes 8 i ++ body.
Proof. exact fmt_variant. Qed.

(* the encoder only ever emits bytes, and what it emits the decoder reads back (C07) *)
Theorem C08_encoder_emits_bytes : forall get t v bs, wt get t v = true -> encode t v = Ok bs -> all_bytes bs = true.
Proof. exact encode_bytes. Qed.

Example C08_example :
  encode (T (str "mapping") [T (str "string") []; T (str "sequence") [T (str "int16_t") []]])
         (VMap [(VStr [104; 233], VSeq [VInt (-2); VInt 258])])
  = Ok [1;0;0;0;0;0;0;0;  3;0;0;0;0;0;0;0; 104; 195; 169;  2;0;0;0;0;0;0;0; 254;255; 2;1].
Proof. vm_compute. reflexivity. Qed.

Print Assumptions C08_codec_table_conforms.
Print Assumptions C08_uint_little_endian.
Print Assumptions C08_sint_twos_complement.
Print Assumptions C08_int_overflow_refused.
Print Assumptions C08_bool_one_byte.
Print Assumptions C08_double_ieee.
Print Assumptions C08_float_ieee.
Print Assumptions C08_uuid_16_raw_bytes.
Print Assumptions C08_offset_uuid_then_uint64.
Print Assumptions C08_string_byte_count_then_utf8.
Print Assumptions C08_sequence_count_then_elements.
Print Assumptions C08_set_count_then_elements.
Print Assumptions C08_mapping_count_then_pairs.
Print Assumptions C08_tuple_fields_in_order.
Print Assumptions C08_variant_index_then_alternative.
Print Assumptions C08_encoder_emits_bytes.
