(* C12 -- deferred index maintenance is unobservable: the answer to any lookup depends only on the current structure,
   never on which lookups were issued earlier, when, or how many edits accumulated between them; replaying one edit
   history with any placement of additional lookups gives the same final answers as replaying it with none.
   Model: Model/LazyTree.v (first-use build / incremental replay / rebuild chosen by the number of pending events),
   Model/World.v (tree, tree_add_ev / tree_disc_ev, force, all lookups thread the world), Model/WorldRun.v (query),
   Proofs/ScheduleProofs.v (item, run_sched, ops_of, same_answers), Model/WorldGuard.v.
   A schedule is a list of items: IOp o (an edit; OTouch n forces one index) or IQuery scope method kind range (any
   lookup of WorldRun.query).  ops_of erases the queries and the touches.
   Only property theorems here; proofs in Proofs/SyncProofs.v, LookupProofs.v, ScheduleProofs.v, WorldInv.v.

   same_answers w1 w2 (ScheduleProofs.v) says that ALL of these agree between w1 and w2:
     - every id-valued lookup f at its scope (id_lookup f D: bi_blocks_on / _at / _on_off / _at_off on a byte interval;
       sec_bis_on / sec_bis_at / sec_blocks_on / sec_blocks_at on a section; their mod_lift and ir_lift): the two
       answers have the same elements and neither has duplicates (the API returns unordered iterables);
     - Section.address / size: snd (sec_extent w1 s) = snd (sec_extent w2 s);
     - sections_on / sections_at at module and IR scope: equal lists;
     - bi_symx_at / bi_symx_at_off: equal lists; sec_symx_at: the same triples;
     - symbols_named, references, get_by_uuid: equal. *)
From Coq Require Import ZArith List Bool.
From V Require Import Result LazyTree World WorldGuard WorldRun ForestDefs InvDefs WorldInv WorldProps.
From V Require Import SyncProofs LookupBase LookupProofs ScheduleProofs.
Import ListNotations.
Open Scope Z_scope.

(* two schedules with the same edits (in the same order), lookups and index forcings placed anywhere *)
Theorem C12_schedule_independent : forall its1 its2 : list item, ops_of its1 = ops_of its2 ->
  same_answers (fst (run_sched w0 [] its1)) (fst (run_sched w0 [] its2)).
Proof. exact schedule_independent_all. Qed.

(* in particular: against the replay with no lookup at all *)
Theorem C12_lookups_do_not_interfere : forall its : list item,
  same_answers (fst (run_sched w0 [] its)) (fst (run_guarded w0 [] (ops_of its))).
Proof. exact lookups_do_not_interfere_all. Qed.

(* spelled out for the id-valued lookups *)
Theorem C12_same_ids : forall its1 its2, ops_of its1 = ops_of its2 ->
  forall f D, id_lookup f D -> forall x q, D (fst (run_sched w0 [] its1)) x ->
    same_set (snd (f (fst (run_sched w0 [] its1)) x q)) (snd (f (fst (run_sched w0 [] its2)) x q)) /\
    NoDup (snd (f (fst (run_sched w0 [] its1)) x q)) /\
    NoDup (snd (f (fst (run_sched w0 [] its2)) x q)).
Proof. intros its1 its2 E. exact (sa_ids _ _ (schedule_independent_all its1 its2 E)). Qed.

(* ... and for Section.address / Section.size *)
Theorem C12_same_extent : forall its1 its2, ops_of its1 = ops_of its2 ->
  forall s, kindof (fst (run_sched w0 [] its1)) s = KSec ->
    snd (sec_extent (fst (run_sched w0 [] its1)) s) = snd (sec_extent (fst (run_sched w0 [] its2)) s).
Proof. intros its1 its2 E. exact (sa_extent _ _ (schedule_independent_all its1 its2 E)). Qed.

(* the structure itself (everything except the lazy trees) and the set of created nodes do not depend on the lookups *)
Theorem C12_struct : forall its1 its2, ops_of its1 = ops_of its2 ->
  strip (fst (run_sched w0 [] its1)) = strip (fst (run_sched w0 [] its2)) /\
  snd (run_sched w0 [] its1) = snd (run_sched w0 [] its2).
Proof. exact schedule_independent_struct. Qed.

(* a lookup changes nothing but lazy trees *)
Theorem C12_lookup_only_touches_trees : forall w s m kf q,
  strip (fst (query w s m kf q)) = strip w /\ (SyncAll w -> SyncAll (fst (query w s m kf q))).
Proof. exact query_lk. Qed.

(* the reason why: in every state of every schedule, each materialised index brought up to date by its pending
   events denotes exactly the current intervals (InvDefs.Sync) -- whatever path `lt_get` then takes *)
Theorem C12_sync_everywhere : forall w known, reachable_k w known -> SyncAll w.
Proof. exact reach_sync. Qed.

Theorem C12_sync_everywhere_sched : forall its, SyncAll (fst (run_sched w0 [] its)).
Proof. exact sync_sched. Qed.

Theorem C12_force_gives_current : forall w known n w1 idx, reachable_k w known -> force w n = (w1, idx) ->
  NoDup idx /\ (forall i, In i idx <-> In i (cur_ivs w n)) /\ agree w w1 /\ SyncAll w1.
Proof. intros w known n w1 idx R. exact (force_spec w n w1 idx (reach_sync w known R)). Qed.

(* the full invariant holds along every schedule *)
Theorem C12_invariant_along_schedules : forall its,
  InvAll (fst (run_sched w0 [] its)) (snd (run_sched w0 [] its)).
Proof. exact invall_sched. Qed.

(* non-vacuity: one edit history (12 construction steps, 11 edits of offsets, sizes, addresses and two block moves),
   replayed (1) with no lookup, (2) with three lookups after every single step, (3) with a burst of lookups after the
   construction, another after two edits, one forced index, and then nine edits -- more pending events than the
   interval has blocks -- before the final lookups.  The twelve final answers (blocks on/at at IR scope, offset
   variants, intervals on/at, sections on/at, the section's extent, code / data variants, an interval scope) agree;
   the raw replies of (1) and (2) differ only in the order of an unordered reply. *)
Example C12_example :
  let q := {| qstart := 0; qstop := 1000; qstep := 1 |} in
  let build := [ONew 1 KIR 101 None 0 0 0 PNone; ONew 2 KMod 102 None 0 0 0 PNone; ONew 3 KSec 103 None 0 0 0 PNone;
     ONew 4 KBI 104 (Some 100) 50 0 0 PNone; ONew 5 KCode 105 None 10 0 0 PNone; ONew 6 KData 106 None 0 10 0 PNone;
     ONew 7 KData 107 None 5 20 0 PNone; ONew 8 KBI 108 (Some 300) 8 0 0 PNone;
     OModAppend 1 2; OSetParent 3 (Some 2); OSet 3 [KBI] SUpdate [[4; 8]]; OSet 4 [KCode; KData] SUpdate [[5; 6]; [7]]] in
  let edits := [OAttrOff 5 30; OAttrSize 6 3; OAttrOff 7 40; OAttrAddr 4 (Some 200); OAttrOff 6 12; OAttrSize 5 2;
     OSetParent 7 (Some 8); OAttrOff 7 1; OAttrAddr 8 (Some 150); OSetParent 7 (Some 4); OAttrSize 4 60] in
  let look := [IQuery 1 0 0 q; IQuery 3 10 0 q; IQuery 4 3 0 q] in
  let its1 := map IOp (build ++ edits) in
  let its2 := flat_map (fun o => IOp o :: look) (build ++ edits) in
  let its3 := map IOp build ++ look ++ map IOp (firstn 2 edits) ++ look ++ [IOp (OTouch 4)] ++ map IOp (skipn 2 edits) in
  let final : list (id * Z * Z) :=
    [(1,0,0); (1,1,0); (4,2,0); (4,3,0); (1,4,0); (1,5,0); (1,6,0); (1,7,0); (1,0,1); (1,0,2); (8,0,0)] in
  let answers (w : world) := map (fun t => snd (query w (fst (fst t)) (snd (fst t)) (snd t) q)) final in
  let w1 := fst (run_sched w0 [] its1) in
  let w2 := fst (run_sched w0 [] its2) in
  let w3 := fst (run_sched w0 [] its3) in
  let expected := [[5; 6; 7]; [5; 6; 7]; [5; 6; 7]; [5; 6; 7]; [4; 8]; [4; 8]; [3]; [3]; [5]; [6; 7]; []] in
  all_guarded_ok w0 [] (build ++ edits) = true /\
  ops_of its2 = ops_of its1 /\ ops_of its3 = ops_of its1 /\
  map answer_ids (answers w1) = expected /\ map answer_ids (answers w2) = expected /\
  map answer_ids (answers w3) = expected /\
  (snd (query w1 3 10 0 q), snd (query w2 3 10 0 q), snd (query w3 3 10 0 q))
  = (L [A 0; L [A 150; A 110]], L [A 0; L [A 150; A 110]], L [A 0; L [A 150; A 110]]) /\
  (nth 0 (answers w1) (A 0), nth 0 (answers w2) (A 0)) = (L [A 0; L [A 5; A 6; A 7]], L [A 0; L [A 6; A 5; A 7]]).
Proof. vm_compute. repeat split. Qed.

Print Assumptions C12_schedule_independent.
Print Assumptions C12_lookups_do_not_interfere.
Print Assumptions C12_same_ids.
Print Assumptions C12_same_extent.
Print Assumptions C12_struct.
Print Assumptions C12_lookup_only_touches_trees.
Print Assumptions C12_sync_everywhere.
Print Assumptions C12_sync_everywhere_sched.
Print Assumptions C12_force_gives_current.
Print Assumptions C12_invariant_along_schedules.
Print Assumptions C12_example.
