(* C17 placeholder: theorems land with Proofs/ProtoProofs.v *)
From Coq Require Import ZArith List.
From V Require Import Result Proto.
Import ListNotations.
Theorem C17_short_file_rejected : check_header [] = Err EValue.
Proof. vm_compute. reflexivity. Qed.
Print Assumptions C17_short_file_rejected.
