(* C17 -- the loader either rejects a file or returns a coherent IR.
   Whatever schema-valid message (msg_ok: what the protobuf parser guarantees -- byte strings are bytes, map keys are
   distinct) the reader is given, it either fails with ValueError / DeserializationError / TypeError, or returns a content
   that satisfies wf: unique UUIDs in range, every referent a block, every entry point a code block, every edge endpoint
   a CFG node, every expression operand a symbol, stored bytes within interval sizes, enum numbers known -- and that
   content can be saved and loaded again unchanged.  A wrong magic, a wrong version byte, or another version field is a
   ValueError; every file save produces from a self-contained IR is accepted.
   Totality ("never hangs"): every function of Model/Proto.v is a structural Fixpoint or a non-recursive Definition, so
   `load f p` reduces to Ok _ or Err _ for all f and p; there is nothing to prove beyond C17_load_dichotomy.
   A UUID defined twice in one message is rejected with DeserializationError whatever the classes of the two
   definitions (C17_duplicate_uuid_rejected): a node is never reused, moved or merged by the reader.  Consequently the
   reader has exactly three rejection classes and the model's EImpossible cannot be returned by from_proto or load
   (C17_never_impossible).
   Arbitrary BYTES are the protobuf parser's domain: that malformed wire data raises DecodeError (and never reaches
   _from_protobuf) is covered by the fault enumeration of the harness, not here.
   Model: Model/Proto.v.  Proofs: Proofs/ProtoReaderBase.v, Proofs/ProtoReader.v, Proofs/ProtoRoundTrip.v, Proofs/ProtoProps.v.
   Trusted: the protobuf wire codec. *)
From Coq Require Import String ZArith List.
From V Require Import Result PyFacts Proto ProtoReaderBase ProtoReader ProtoProps.
From V Require ProtoRoundTrip.
Import ListNotations.
Open Scope Z_scope.

(* ---------- accept => coherent ---------- *)
Theorem C17_accept_coherent : forall p c, msg_ok p = true -> from_proto p = Ok c -> wf c = true.
Proof. exact accept_coherent. Qed.

Theorem C17_accept_refs_typed : forall p c, msg_ok p = true -> from_proto p = Ok c -> refs_closed c.
Proof. exact refs_closed_typed. Qed.

Theorem C17_accept_bytes_within_size : forall p c, msg_ok p = true -> from_proto p = Ok c -> forall m s b,
  In m (cr_modules c) -> In s (cm_sections m) -> In b (cs_bis s) -> Z.of_nat (length (ci_contents b)) <= ci_size b.
Proof. exact accept_bytes_within_size. Qed.

(* what is accepted can be saved again and read back unchanged *)
Theorem C17_coherent_can_be_saved_and_reloaded : forall p c, msg_ok p = true -> from_proto p = Ok c ->
  from_proto (to_proto c) = Ok c.
Proof. exact coherent_can_be_saved_and_reloaded. Qed.

(* ---------- reject => one of the documented classes ---------- *)
Theorem C17_reject_only : forall p e,
  from_proto p = Err e -> e = EValue \/ e = EDeser \/ e = EType.
Proof. exact reject_only. Qed.

(* the two outcomes, through the header *)
Theorem C17_load_dichotomy : forall f p, msg_ok p = true ->
  (exists c, load f p = Ok c /\ wf c = true /\ refs_closed c /\ from_proto (to_proto c) = Ok c)
  \/ (exists e, load f p = Err e /\ (e = EValue \/ e = EDeser \/ e = EType)).
Proof. exact load_dichotomy. Qed.

(* ---------- rejection classes ---------- *)
Theorem C17_bad_uuid_len : forall bs, length bs <> 16%nat -> uuid_of_bytes bs = Err EValue.
Proof. exact bad_uuid_len. Qed.

Theorem C17_bad_enum : forall nm v, enum_ok nm v = false -> check_enum nm v = Err EValue.
Proof. exact bad_enum. Qed.

Theorem C17_bad_module_enum : forall t m u,
  uuid_of_bytes (m_uuid m) = Ok u -> fresh t u NMod = Ok tt ->
  enum_ok "ISA" (m_isa m) = false \/ enum_ok "FileFormat" (m_file_format m) = false
  \/ enum_ok "ByteOrder" (m_byte_order m) = false ->
  decode_module t m = Err EValue.
Proof. exact bad_module_enum. Qed.

Theorem C17_block_without_payload : forall t o, decode_block t {| b_off := o; b_val := PNoBlock |} = Err EType.
Proof. exact block_without_payload. Qed.

Theorem C17_expr_without_value : forall t k attrs,
  decode_expr t (k, {| x_val := PNoExpr; x_attrs := attrs |}) = Err EType.
Proof. exact expr_without_value. Qed.

Theorem C17_bytes_beyond_size : forall t b u,
  uuid_of_bytes (bi_uuid b) = Ok u -> fresh t u NBI = Ok tt ->
  bi_size b < Z.of_nat (length (bi_contents b)) -> decode_bi t b = Err EValue.
Proof. exact bytes_beyond_size. Qed.

Theorem C17_wrong_version : forall p u,
  uuid_of_bytes (i_uuid p) = Ok u -> i_version p <> py_protobuf_version -> from_proto p = Err EValue.
Proof. exact wrong_version. Qed.

(* a UUID that already names a decoded node -- of whatever class -- cannot be defined again *)
Theorem C17_duplicate_uuid_rejected : forall t u k k', tlookup t u = Some k' -> fresh t u k = Err EDeser.
Proof. exact dup_rejected. Qed.

Theorem C17_dup_other_kind : forall t u k k', tlookup t u = Some k' -> k' <> k -> fresh t u k = Err EDeser.
Proof. exact dup_other_kind. Qed.

(* the definition check fails in no other way and on no other UUIDs *)
Theorem C17_fresh_err_iff : forall t u k e,
  fresh t u k = Err e <-> (e = EDeser /\ exists k', tlookup t u = Some k').
Proof. exact fresh_err_iff. Qed.

Theorem C17_fresh_never_impossible : forall t u k, fresh t u k <> Err EImpossible.
Proof. exact fresh_never_impossible. Qed.

Theorem C17_dangling_reference : forall t bs ok u,
  uuid_of_bytes bs = Ok u -> tlookup t u = None -> resolve t bs ok = Err EDeser.
Proof. exact resolve_dangling. Qed.

Theorem C17_illtyped_reference : forall t bs ok u k,
  uuid_of_bytes bs = Ok u -> tlookup t u = Some k -> ok k = false -> resolve t bs ok = Err EDeser.
Proof. exact resolve_illtyped. Qed.

(* ---------- header ---------- *)
Theorem C17_header_gate : forall f rest,
  check_header f = Ok rest -> firstn 5 f = py_magic /\ nth 7 f 0 = py_protobuf_version /\ rest = skipn 8 f.
Proof. exact header_gate. Qed.

Theorem C17_header_reject : forall f e, check_header f = Err e -> e = EValue.
Proof. exact header_reject. Qed.

Theorem C17_load_bad_header : forall f p,
  firstn 5 f <> py_magic \/ nth 7 f 0 <> py_protobuf_version -> load f p = Err EValue.
Proof. exact load_bad_header. Qed.

Theorem C17_load_wrong_version_field : forall f p rest u, check_header f = Ok rest -> uuid_of_bytes (i_uuid p) = Ok u ->
  i_version p <> py_protobuf_version -> load f p = Err EValue.
Proof. exact load_wrong_version_field. Qed.

Theorem C17_load_accept : forall f p c,
  load f p = Ok c ->
  (firstn 5 f = py_magic /\ nth 7 f 0 = py_protobuf_version /\ check_header f = Ok (skipn 8 f))
  /\ from_proto p = Ok c.
Proof. exact load_accept. Qed.

Theorem C17_load_reject : forall f p e,
  load f p = Err e -> e = EValue \/ e = EDeser \/ e = EType.
Proof. exact load_reject. Qed.

Theorem C17_never_impossible : forall f p, from_proto p <> Err EImpossible /\ load f p <> Err EImpossible.
Proof. exact (fun f p => conj (from_proto_never_impossible p) (load_never_impossible f p)). Qed.

(* every file produced by save from a self-contained IR is accepted (and gives that IR) *)
Theorem C17_saved_files_accepted : forall c, wf c = true -> load (fst (save c)) (snd (save c)) = Ok c.
Proof. exact ProtoRoundTrip.file_roundtrip. Qed.

(* non-vacuity: an accepted foreign message; the empty file, a wrong magic and a wrong version byte; the accepted
   message with another version field; a referent of the wrong kind *)
Example C17_example :
  msg_ok ex_msg = true
  /\ (exists c, load header ex_msg = Ok c /\ wf c = true)
  /\ load [] ex_msg = Err EValue
  /\ load [71; 84; 73; 82; 98; 0; 0; 4] ex_msg = Err EValue
  /\ load [71; 84; 73; 82; 66; 0; 0; 3] ex_msg = Err EValue
  /\ load header {| i_uuid := i_uuid ex_msg; i_modules := i_modules ex_msg; i_aux := []; i_version := 3;
                    i_vertices := []; i_edges := i_edges ex_msg |} = Err EValue
  /\ load header (ex_retarget (ex_uuid 3)) = Err EDeser.
Proof.
  split; [vm_compute; reflexivity|]. split; [|vm_compute; repeat split; reflexivity].
  eexists. split; [vm_compute; reflexivity|]. vm_compute. reflexivity.
Qed.

(* non-vacuity of the duplicate rule, same class: the accepted message with its module list given twice (the second
   module redefines the UUID of the first, both are modules) is a DeserializationError *)
Example C17_example_duplicate :
  load header {| i_uuid := i_uuid ex_msg; i_modules := i_modules ex_msg ++ i_modules ex_msg; i_aux := i_aux ex_msg;
                 i_version := i_version ex_msg; i_vertices := i_vertices ex_msg; i_edges := i_edges ex_msg |}
  = Err EDeser.
Proof. vm_compute. reflexivity. Qed.

Print Assumptions C17_accept_coherent.
Print Assumptions C17_accept_refs_typed.
Print Assumptions C17_accept_bytes_within_size.
Print Assumptions C17_coherent_can_be_saved_and_reloaded.
Print Assumptions C17_reject_only.
Print Assumptions C17_load_dichotomy.
Print Assumptions C17_bad_uuid_len.
Print Assumptions C17_bad_enum.
Print Assumptions C17_bad_module_enum.
Print Assumptions C17_block_without_payload.
Print Assumptions C17_expr_without_value.
Print Assumptions C17_bytes_beyond_size.
Print Assumptions C17_wrong_version.
Print Assumptions C17_duplicate_uuid_rejected.
Print Assumptions C17_dup_other_kind.
Print Assumptions C17_fresh_err_iff.
Print Assumptions C17_fresh_never_impossible.
Print Assumptions C17_dangling_reference.
Print Assumptions C17_illtyped_reference.
Print Assumptions C17_header_gate.
Print Assumptions C17_header_reject.
Print Assumptions C17_load_bad_header.
Print Assumptions C17_load_wrong_version_field.
Print Assumptions C17_load_accept.
Print Assumptions C17_load_reject.
Print Assumptions C17_never_impossible.
Print Assumptions C17_saved_files_accepted.
Print Assumptions C17_example.
Print Assumptions C17_example_duplicate.
