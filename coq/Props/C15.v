(* C15 -- AuxData type names parse exactly per the grammar
     T ::= name | name '<' T (',' T)* '>'      (name: non-empty run without '<' '>' ',')
   Model: Model/TypeName.v (tokenize, parse, parse_type = Serialization._parse_type).
   This file holds only the property theorems; proofs are in Proofs/TypeNameProofs.v. *)
From Coq Require Import ZArith List.
From V Require Import Result TypeName TypeNameProofs.
Import ListNotations.

(* every grammar string is accepted, with the grammar's tree *)
Theorem C15_accepts_grammar : forall t, wf t = true -> parse_type (print t) = Ok t.
Proof. exact parse_print. Qed.

(* nothing else is accepted, and printing the resulting tree gives the name back *)
Theorem C15_only_grammar : forall s t, parse_type s = Ok t -> wf t = true /\ print t = s.
Proof. exact print_parse. Qed.

(* every other string is rejected with TypeNameError: no other error, fuel never runs out *)
Theorem C15_rejects_with_TypeNameError :
  forall s, (exists t, parse_type s = Ok t) \/ parse_type s = Err ETypeName.
Proof. exact parse_total. Qed.

(* non-vacuity: a nested name with a space and a non-ASCII character satisfies the premises *)
Example C15_example :
  let t := T [109; 97; 112] [T [115; 32; 116] []; T [115; 101; 116] [T [233] []]] in
  wf t = true /\ parse_type (print t) = Ok t /\ parse_type [60] = Err ETypeName.
Proof. vm_compute. repeat split; reflexivity. Qed.

Print Assumptions C15_accepts_grammar.
Print Assumptions C15_only_grammar.
Print Assumptions C15_rejects_with_TypeNameError.
