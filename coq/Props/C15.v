(* C15 -- AuxData type names parse exactly per the grammar
     T ::= name | name '<' T (',' T)* '>'      (name: non-empty run without '<' '>' ',')
   Model: Model/TypeName.v (tokenize, parse, parse_type = Serialization._parse_type).
   This file holds only the property theorems; proofs are in Proofs/TypeNameProofs.v. *)
From Coq Require Import ZArith List.
From V Require Import Result Bytes TypeName TypeNameProofs Codec AuxTable.
Import ListNotations.

(* every grammar string is accepted, with the grammar's tree *)
Theorem C15_accepts_grammar : forall t, wf t = true -> parse_type (print t) = Ok t.
Proof. exact parse_print. Qed.

(* nothing else is accepted, and printing the resulting tree gives the name back *)
Theorem C15_only_grammar : forall s t, parse_type s = Ok t -> wf t = true /\ print t = s.
Proof. exact print_parse. Qed.

(* every other string is rejected with TypeNameError: no other error, fuel never runs out *)
Theorem C15_rejects_with_TypeNameError :
  forall s, (exists t, parse_type s = Ok t) \/ parse_type s = Err ETypeName.
Proof. exact parse_total. Qed.

(* the grammar decides at the entry points that take a type name: encoding and decoding under a name outside the grammar fail with
   TypeNameError whatever the value (other than an opaque blob, which is written verbatim under any name) and the bytes, and a table LOADED with such a name (Model/AuxTable.v: the lazy decode behind
   AuxData.data) fails with TypeNameError at every access and stays as it was loaded *)
Theorem C15_entry_points_reject : forall get s v bs, parse_type s = Err ETypeName ->
  ((forall b, v <> VUnknown b) -> encode_top s v = Err ETypeName) /\
  (decode_top get s bs = Err ETypeName) /\
  (read get (load s bs) = Err ETypeName) /\
  (forall n, steps get (load s bs) (repeat Read n) = load s bs).
Proof.
  intros get s v bs H.
  assert (Hd : decode_top get s bs = Err ETypeName) by (unfold decode_top; rewrite H; reflexivity).
  assert (Hr : read get (load s bs) = Err ETypeName) by (unfold read, load; cbn [lazy]; rewrite Hd; reflexivity).
  split; [intros Hv; unfold encode_top; destruct v; try (rewrite H; reflexivity); exfalso; eapply Hv; reflexivity|].
  split; [exact Hd|]. split; [exact Hr|].
  induction n as [|n IH]; [reflexivity|].
  cbn [repeat steps step]. rewrite Hr. cbn. exact IH.
Qed.

(* non-vacuity: a nested name with a space and a non-ASCII character satisfies the premises *)
Example C15_example :
  let t := T [109; 97; 112] [T [115; 32; 116] []; T [115; 101; 116] [T [233] []]] in
  wf t = true /\ parse_type (print t) = Ok t /\ parse_type [60] = Err ETypeName.
Proof. vm_compute. repeat split; reflexivity. Qed.

Print Assumptions C15_accepts_grammar.
Print Assumptions C15_only_grammar.
Print Assumptions C15_rejects_with_TypeNameError.
Print Assumptions C15_entry_points_reject.
