(* C07 -- every AuxData value survives encode then decode unchanged.
   Model: Model/Codec.v (encode/decode dispatching through spec_table, as serialization.py does through
   Serialization.codecs), Model/Utf8.v, Model/Float32.v.  Domain predicate: Codec.wt.
   Only property theorems here; proofs in Proofs/CodecProofs.v, Proofs/Utf8Proofs.v. *)
From Coq Require Import ZArith String List.
From V Require Import Result Bytes TypeName Utf8 Float32 Codec BytesProofs Utf8Proofs CodecProofs.
Import ListNotations.
Open Scope Z_scope.

(* for every type tree (any nesting) and every value of that type: the encoder succeeds ... *)
Theorem C07_encode_total : forall get t v, wt get t v = true -> exists bs, encode t v = Ok bs.
Proof. exact encode_total. Qed.

(* ... decoding the encoding yields the very value (UUID/Offset leaves that `get` resolves come back as
   those nodes, the others as plain UUIDs: that is what wt_uuid fixes) and consumes exactly the bytes
   the encoder produced, whatever follows them *)
Theorem C07_decode_encode : forall get t v bs rest,
  wt get t v = true -> encode t v = Ok bs -> decode get t (bs ++ rest) = Ok (v, rest).
Proof. exact decode_encode. Qed.

(* strings over all of Unicode: the UTF-8 layer is a bijection between scalar-value strings and the
   byte strings the strict decoder accepts *)
Theorem C07_utf8_roundtrip : forall s, forallb is_scalar s = true -> utf8_decode (utf8_encode s) = Some s.
Proof. exact utf8_roundtrip. Qed.

Theorem C07_utf8_canonical : forall bs s, utf8_decode bs = Some s -> utf8_encode s = bs /\ forallb is_scalar s = true.
Proof. exact utf8_decode_canonical. Qed.

(* non-vacuity: a nested mapping with a multi-byte string, a resolved node, both int64 bounds, a variant *)
Example C07_example :
  let get := fun u => if u =? 7 then Some 3 else None in
  let t := T (str "mapping") [T (str "string") [];
             T (str "tuple") [T (str "UUID") []; T (str "int64_t") []; T (str "variant") [T (str "bool") []; T (str "set") [T (str "uint8_t") []]]]] in
  let v := VMap [(VStr [104; 233; 128512], VTuple [VNode 3 7; VInt (-9223372036854775808); VVariant 1 (VSet [VInt 255; VInt 0])]);
                 (VStr [], VTuple [VUuid 8; VInt 9223372036854775807; VVariant 0 (VBool true)])] in
  wt get t v = true /\
  match encode t v with Ok bs => decode get t (bs ++ [1; 2; 3]) = Ok (v, [1; 2; 3]) | Err _ => False end.
Proof. vm_compute. split; reflexivity. Qed.

Print Assumptions C07_encode_total.
Print Assumptions C07_decode_encode.
Print Assumptions C07_utf8_roundtrip.
Print Assumptions C07_utf8_canonical.
