(* C07 -- every AuxData value survives encode then decode unchanged.
   Model: Model/Codec.v (encode/decode dispatching through spec_table, as serialization.py does through
   Serialization.codecs), Model/Utf8.v, Model/Float32.v.  Domain predicate: Codec.wt.
   Only property theorems here; proofs in Proofs/CodecProofs.v, Proofs/Utf8Proofs.v, Proofs/Float32Proofs.v. *)
From Coq Require Import ZArith String List.
From V Require Import Result Bytes TypeName Utf8 Float32 Codec BytesProofs Utf8Proofs CodecProofs Float32Proofs.
Import ListNotations.
Open Scope Z_scope.

(* for every type tree (any nesting) and every value of that type: the encoder succeeds ... *)
Theorem C07_encode_total : forall get t v, wt get t v = true -> exists bs, encode t v = Ok bs.
Proof. exact encode_total. Qed.

(* ... decoding the encoding yields the very value (UUID/Offset leaves that `get` resolves come back as
   those nodes, the others as plain UUIDs: that is what wt_uuid fixes) and consumes exactly the bytes
   the encoder produced, whatever follows them *)
Theorem C07_decode_encode : forall get t v bs rest,
  wt get t v = true -> encode t v = Ok bs -> decode get t (bs ++ rest) = Ok (v, rest).
Proof. exact decode_encode. Qed.

(* strings over all of Unicode: the UTF-8 layer is a bijection between scalar-value strings and the
   byte strings the strict decoder accepts *)
Theorem C07_utf8_roundtrip : forall s, forallb is_scalar s = true -> utf8_decode (utf8_encode s) = Some s.
Proof. exact utf8_roundtrip. Qed.

Theorem C07_utf8_canonical : forall bs s, utf8_decode bs = Some s -> utf8_encode s = bs /\ forallb is_scalar s = true.
Proof. exact utf8_decode_canonical. Qed.

(* "float32 after rounding to float32": for EVERY double b (any 64-bit pattern, not only those wt admits) that the binary32
   format can hold, the `float` codec writes 4 bytes and reads back exactly the binary32 rounding of b (round to nearest, ties
   to even, subnormals and NaN quieting included), widened; a double too large for binary32 is refused with OverflowError,
   as struct.pack('<f') does -- it is never silently turned into an infinity *)
Theorem C07_float32_rounds : forall get b r rest, 0 <= b < 2 ^ 64 -> round32 b = Ok r ->
  exists bs, encode (T (str "float") []) (VFloat b) = Ok bs /\ List.length bs = 4%nat /\
             decode get (T (str "float") []) (bs ++ rest) = Ok (VFloat (widen32 r), rest).
Proof. exact f32_roundtrip_rounds. Qed.

Theorem C07_float32_overflow_refused : forall b e, round32 b = Err e ->
  e = EOverflow /\ encode (T (str "float") []) (VFloat b) = Err e.
Proof. intros b e H. split; [exact (proj1 (round32_err_overflow b e H)) | exact (f32_overflow_refused b e H)]. Qed.

(* rounding is a projection onto the binary32 values: the rounded pattern is a 32-bit pattern, and rounding a widened binary32
   value gives that value back (signalling NaNs come back quieted, which is what the hardware conversion does) *)
Theorem C07_round32_range : forall b r, 0 <= b < 2 ^ 64 -> round32 b = Ok r -> 0 <= r < 2 ^ 32.
Proof. exact round32_range. Qed.

Theorem C07_round32_idempotent : forall r, 0 <= r < 2 ^ 32 -> round32 (widen32 (quiet32 r)) = Ok (quiet32 r).
Proof. exact round32_widen32_fixed. Qed.

(* the domain predicate wt admits, at type float, exactly the doubles that ARE binary32 values: for those the round trip is
   bit for bit (this is the `float` case of C07_decode_encode made explicit) *)
Theorem C07_float32_domain : forall get b,
  wt get (T (str "float") []) (VFloat b) = true <-> exists r, 0 <= r < 2 ^ 32 /\ is_snan32 r = false /\ b = widen32 r.
Proof. exact wt_float_iff. Qed.

(* non-vacuity: 0.1 is not a binary32 value; it comes back as the nearest one *)
Example C07_float32_example : forall get,
  round32 0x3FB999999999999A = Ok 0x3DCCCCCD /\
  encode (T (str "float") []) (VFloat 0x3FB999999999999A) = Ok [205; 204; 204; 61] /\
  decode get (T (str "float") []) [205; 204; 204; 61; 9] = Ok (VFloat 0x3FB99999A0000000, [9]).
Proof. intro get. vm_compute. repeat split; reflexivity. Qed.

(* non-vacuity: a nested mapping with a multi-byte string, a resolved node, both int64 bounds, a variant *)
Example C07_example :
  let get := fun u => if u =? 7 then Some 3 else None in
  let t := T (str "mapping") [T (str "string") [];
             T (str "tuple") [T (str "UUID") []; T (str "int64_t") []; T (str "variant") [T (str "bool") []; T (str "set") [T (str "uint8_t") []]]]] in
  let v := VMap [(VStr [104; 233; 128512], VTuple [VNode 3 7; VInt (-9223372036854775808); VVariant 1 (VSet [VInt 255; VInt 0])]);
                 (VStr [], VTuple [VUuid 8; VInt 9223372036854775807; VVariant 0 (VBool true)])] in
  wt get t v = true /\
  match encode t v with Ok bs => decode get t (bs ++ [1; 2; 3]) = Ok (v, [1; 2; 3]) | Err _ => False end.
Proof. vm_compute. split; reflexivity. Qed.

Print Assumptions C07_encode_total.
Print Assumptions C07_decode_encode.
Print Assumptions C07_utf8_roundtrip.
Print Assumptions C07_utf8_canonical.
Print Assumptions C07_float32_rounds.
Print Assumptions C07_float32_overflow_refused.
Print Assumptions C07_round32_range.
Print Assumptions C07_round32_idempotent.
Print Assumptions C07_float32_domain.
