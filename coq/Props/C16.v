(* C16 -- the owning collections behave like the built-in list, set and dict: ir.modules the mutable-sequence
   interface, the node sets (sections, symbols, proxies, byte_intervals, blocks) the mutable-set interface,
   symbolic_expressions the mutable-mapping interface -- resulting contents and exception types of the built-in
   operation on the same elements (module order = list order, node sets unordered, symbolic expressions by offset),
   except that a node inserted while owned elsewhere is moved rather than duplicated; a failed operation leaves the
   collection and its elements consistent.
   Model: Model/World.v (do_set and the ten set methods over set_add / set_discard / blocks_update; the IR module list
   ml_insert / ml_append / ml_remove / ml_del_at and the slice operations of `step`; the sorted map sd_set / dict_del),
   Model/WorldGuard.v; Model/SeqOps.v (the read-only half of the sequence interface: index / count / in / [i] / [a:b:c] /
   reversed / len on the module list, with Python's clamping of bounds).  field w p fk = the members of one field of owner p (its children of the field's kinds).
   Only property theorems here; proofs in Proofs/SetOpsProofs.v, ModListProofs.v, SeqOpsProofs.v, SymxProofs.v, WorldInv.v,
   WorldProps.v.
   Item / slice assignment of a module that already sits elsewhere in the same list, or of a list with repetitions
   (the former finding D4, repaired in ListWrapper.__setitem__): the module is moved, not duplicated -- it stays only at
   the last position it was assigned to; see C16_same_list_assignment_moves. *)
From Coq Require Import ZArith List Bool.
From V Require Import Result LazyTree World WorldGuard WorldRun ForestDefs InvDefs WorldInv WorldProps.
From V Require SetOpsProofs ModListProofs SymxProofs.
From V Require Import SeqOps SetAlg IndexCheck.
From V Require SeqOpsProofs SetAlgProofs AggregateProofs MoveAllProofs MoveAllSets.
From Coq Require Import Sorted.
Import ListNotations.
Open Scope Z_scope.

(* ================= node sets: the ten methods of the mutable-set interface ================= *)

Theorem C16_set_add : forall w known p fk c, reachable_k w known -> op_okb w known (OSet p fk SAdd [[c]]) = true ->
  exists w', step w (OSet p fk SAdd [[c]]) = Ok w' /\
             forall x, In x (field w' p fk) <-> In x (field w p fk) \/ x = c.
Proof.
  intros w known p fk c R G.
  destruct (SetOpsProofs.oset_add_effect w known p fk c (reach_forest w known R) (reach_cache w known R) G) as (w' & E & _ & M).
  exists w'. exact (conj E M).
Qed.

Theorem C16_set_discard : forall w known p fk c, reachable_k w known -> op_okb w known (OSet p fk SDiscard [[c]]) = true ->
  exists w', step w (OSet p fk SDiscard [[c]]) = Ok w' /\
             forall x, In x (field w' p fk) <-> In x (field w p fk) /\ x <> c.
Proof.
  intros w known p fk c R G.
  destruct (SetOpsProofs.oset_discard_effect w known p fk c (reach_forest w known R) (reach_cache w known R) G) as (w' & E & _ & M).
  exists w'. exact (conj E M).
Qed.

(* remove: KeyError exactly for a non-member *)
Theorem C16_set_remove : forall w known p fk c, reachable_k w known -> op_okb w known (OSet p fk SRemove [[c]]) = true ->
  (~ In c (field w p fk) -> step w (OSet p fk SRemove [[c]]) = Err EKey) /\
  (In c (field w p fk) ->
   exists w', step w (OSet p fk SRemove [[c]]) = Ok w' /\
              forall x, In x (field w' p fk) <-> In x (field w p fk) /\ x <> c).
Proof.
  intros w known p fk c R G.
  destruct (SetOpsProofs.oset_remove_effect w known p fk c (reach_forest w known R) (reach_cache w known R) G) as [A B].
  split; [intros H; apply A, SetOpsBase.mem_false, H|].
  intros H. destruct (B (proj2 (SetOpsBase.mem_In _ _) H)) as (w' & E & _ & M). exists w'. exact (conj E M).
Qed.

(* pop: KeyError exactly on the empty set; otherwise the chosen member c (args = [[c]]) is removed *)
Theorem C16_set_pop : forall w known p fk args, reachable_k w known -> op_okb w known (OSet p fk SPop args) = true ->
  (step w (OSet p fk SPop args) = Err EKey <-> field w p fk = []) /\
  (forall c, args = [[c]] -> In c (field w p fk) ->
   exists w', step w (OSet p fk SPop args) = Ok w' /\
              forall x, In x (field w' p fk) <-> In x (field w p fk) /\ x <> c).
Proof.
  intros w known p fk args R G.
  destruct (SetOpsProofs.oset_pop_effect w known p fk args (reach_forest w known R) (reach_cache w known R) G) as [A B].
  split; [exact A|]. intros c Ha H.
  destruct (B c Ha (proj2 (SetOpsBase.mem_In _ _) H)) as (w' & E & _ & M). exists w'. exact (conj E M).
Qed.

Theorem C16_set_clear : forall w known p fk args, reachable_k w known -> op_okb w known (OSet p fk SClear args) = true ->
  exists w', step w (OSet p fk SClear args) = Ok w' /\ field w' p fk = [].
Proof.
  intros w known p fk args R G.
  destruct (SetOpsProofs.oset_clear_effect w known p fk args (reach_forest w known R) (reach_cache w known R) G) as (w' & E & _ & M).
  exists w'. exact (conj E M).
Qed.

(* update(it1, it2, ...) *)
Theorem C16_set_update : forall w known p fk args, reachable_k w known -> op_okb w known (OSet p fk SUpdate args) = true ->
  exists w', step w (OSet p fk SUpdate args) = Ok w' /\
             forall x, In x (field w' p fk) <-> In x (field w p fk) \/ In x (concat args).
Proof.
  intros w known p fk args R G.
  destruct (SetOpsProofs.oset_update_effect w known p fk args (reach_forest w known R) (reach_cache w known R) G) as (w' & E & _ & M).
  exists w'. exact (conj E M).
Qed.

Theorem C16_set_ior : forall w known p fk a, reachable_k w known -> op_okb w known (OSet p fk SIor [a]) = true ->
  exists w', step w (OSet p fk SIor [a]) = Ok w' /\
             forall x, In x (field w' p fk) <-> In x (field w p fk) \/ In x a.
Proof.
  intros w known p fk a R G.
  destruct (SetOpsProofs.oset_ior_effect w known p fk a (reach_forest w known R) (reach_cache w known R) G) as (w' & E & _ & M).
  exists w'. exact (conj E M).
Qed.

Theorem C16_set_iand : forall w known p fk a, reachable_k w known -> op_okb w known (OSet p fk SIand [a]) = true ->
  exists w', step w (OSet p fk SIand [a]) = Ok w' /\
             forall x, In x (field w' p fk) <-> In x (field w p fk) /\ In x a.
Proof.
  intros w known p fk a R G.
  destruct (SetOpsProofs.oset_iand_effect w known p fk a (reach_forest w known R) (reach_cache w known R) G) as (w' & E & _ & M).
  exists w'. exact (conj E M).
Qed.

Theorem C16_set_isub : forall w known p fk a, reachable_k w known -> op_okb w known (OSet p fk SIsub [a]) = true ->
  exists w', step w (OSet p fk SIsub [a]) = Ok w' /\
             forall x, In x (field w' p fk) <-> In x (field w p fk) /\ ~ In x a.
Proof.
  intros w known p fk a R G.
  destruct (SetOpsProofs.oset_isub_effect w known p fk a (reach_forest w known R) (reach_cache w known R) G) as (w' & E & _ & M).
  exists w'. exact (conj E M).
Qed.

Theorem C16_set_ixor : forall w known p fk a, reachable_k w known -> op_okb w known (OSet p fk SIxor [a]) = true ->
  exists w', step w (OSet p fk SIxor [a]) = Ok w' /\
             forall x, In x (field w' p fk) <-> (In x (field w p fk) /\ ~ In x a) \/ (~ In x (field w p fk) /\ In x a).
Proof.
  intros w known p fk a R G.
  destruct (SetOpsProofs.oset_ixor_effect w known p fk a (reach_forest w known R) (reach_cache w known R) G) as (w' & E & _ & M).
  exists w'. exact (conj E M).
Qed.

(* "move everything from there to here": update / |= given the whole collection of another owner q -- all of it arrives, q's
   collection is left empty, nobody else gains a member (the implementation walks a copy of an owning collection: fix 2ca8079) *)
Theorem C16_set_update_all_of_another : forall w known p q fk m, reachable_k w known -> p <> q -> m = SUpdate \/ m = SIor ->
  op_okb w known (OSet p fk m [field w q fk]) = true ->
  exists w', step w (OSet p fk m [field w q fk]) = Ok w' /\
    (forall x, In x (field w' p fk) <-> In x (field w p fk) \/ In x (field w q fk)) /\
    field w' q fk = [] /\
    (forall r x, r <> p -> In x (kids w' r) -> In x (kids w r)).
Proof.
  intros w known p q fk m R Hne [Hm|Hm] G; subst m.
  - destruct (MoveAllSets.oset_update_all_of_another w known p q fk (reach_forest w known R) (reach_cache w known R) Hne G)
      as (w' & E & _ & _ & M & Z & F). exists w'. repeat split; try assumption; apply M.
  - destruct (MoveAllSets.oset_ior_all_of_another w known p q fk (reach_forest w known R) (reach_cache w known R) Hne G)
      as (w' & E & _ & _ & M & Z & F). exists w'. repeat split; try assumption; apply M.
Qed.

(* ================= node sets: the non-mutating half of the set interface =================
   the operators and comparisons SetWrapper inherits from collections.abc.Set (Model/SetAlg.v transcribes their bodies), applied to
   the members of a collection of a reachable state and a duplicate-free operand, are the mathematical ones *)

Theorem C16_set_operators : forall w known p fk other, reachable_k w known ->
  let s := field w p fk in
  (forall x, In x (abc_and s other) <-> In x s /\ In x other) /\
  (forall x, In x (abc_or s other) <-> In x s \/ In x other) /\
  (forall x, In x (abc_sub s other) <-> In x s /\ ~ In x other) /\
  (forall x, In x (abc_rsub s other) <-> In x other /\ ~ In x s) /\
  (forall x, In x (abc_xor s other) <-> (In x s /\ ~ In x other) \/ (In x other /\ ~ In x s)) /\
  NoDup (abc_and s other) /\ NoDup (abc_or s other) /\ NoDup (abc_sub s other) /\ NoDup (abc_rsub s other) /\ NoDup (abc_xor s other).
Proof.
  intros w known p fk other R s.
  destruct (SetAlgProofs.abc_results_are_sets s other) as (N1 & N2 & N3 & N4 & N5).
  split; [intros x; apply SetAlgProofs.abc_and_spec|]. split; [intros x; apply SetAlgProofs.abc_or_spec|].
  split; [intros x; apply SetAlgProofs.abc_sub_spec|]. split; [intros x; apply SetAlgProofs.abc_rsub_spec|].
  split; [intros x; apply SetAlgProofs.abc_xor_spec|].
  repeat split; assumption.
Qed.

(* <=, >=, <, >, ==, !=, isdisjoint: the length shortcuts of the mixins are sound because a collection never lists a node twice *)
Theorem C16_set_comparisons : forall w known p fk other, reachable_k w known -> NoDup other ->
  let s := field w p fk in
  (abc_le s other = true <-> incl s other) /\
  (abc_ge s other = true <-> incl other s) /\
  (abc_lt s other = true <-> incl s other /\ ~ incl other s) /\
  (abc_gt s other = true <-> incl other s /\ ~ incl s other) /\
  (abc_eq s other = true <-> forall x, In x s <-> In x other) /\
  (abc_ne s other = true <-> ~ forall x, In x s <-> In x other) /\
  (abc_isdisjoint s other = true <-> forall x, In x s -> In x other -> False).
Proof.
  intros w known p fk other R No s.
  assert (Ns : NoDup s) by exact (AggregateProofs.field_nodup w known (reach_forest w known R) p fk).
  split; [exact (SetAlgProofs.abc_le_spec s other Ns)|].
  split; [exact (SetAlgProofs.abc_ge_spec s other No)|].
  split; [exact (SetAlgProofs.abc_lt_spec s other Ns No)|].
  split; [exact (SetAlgProofs.abc_gt_spec s other Ns No)|].
  split; [exact (SetAlgProofs.abc_eq_spec s other Ns No)|].
  split; [exact (SetAlgProofs.abc_ne_spec s other Ns No)|].
  exact (SetAlgProofs.abc_isdisjoint_spec s other).
Qed.

Example C16_set_algebra_example :
  let s := [6; 7; 9] in let o := [7; 8] in
  (abc_and s o, abc_or s o, abc_sub s o, abc_rsub s o, abc_xor s o) = ([7], [6; 7; 9; 8], [6; 9], [8], [6; 9; 8]) /\
  (abc_le s o, abc_ge s [9; 6], abc_lt [7] o, abc_gt s s, abc_eq s [9; 7; 6], abc_ne s o, abc_isdisjoint s [8; 5]) =
  (false, true, true, false, true, true, true).
Proof. vm_compute. repeat split. Qed.

(* ================= ir.modules: the mutable-sequence interface =================
   append / extend / the parent setter: the list operation applied to the list from which a moved module was first removed;
   insert and item / slice assignment: the built-in places the values, then every value just placed stays only where it was
   placed last (a module that sat elsewhere in this list is moved, one owned by another IR leaves that IR) *)

Theorem C16_modlist_append : forall w known ir v, reachable_k w known -> op_okb w known (OModAppend ir v) = true ->
  exists w', step w (OModAppend ir v) = Ok w' /\
    kids w' ir = remove_id v (kids w ir) ++ [v] /\
    (forall x, x <> ir -> kids w' x = remove_id v (kids w x)) /\
    (forall x, nodes w' x = if x =? v then Some (with_par (getn w v) (Some ir)) else nodes w x) /\
    par w' v = Some ir.
Proof.
  intros w known ir v R. exact (ModListProofs.append_effect w known ir v (reach_forest w known R) (reach_cache w known R)).
Qed.

(* insert(i, v) is `modules[i:i] = [v]` (the sequence interface's own definition of insert), i clamped into [0, len] of the list
   as it is BEFORE the call, as list.insert does: a module that is not in the list is inserted as the built-in does (and leaves its
   previous owner); a module that is in the list already is moved to where the built-in insert puts it
   (C16_modlist_insert_member_moves) *)
Theorem C16_modlist_insert : forall w known ir i v, reachable_k w known -> op_okb w known (OModInsert ir i v) = true ->
  let l := kids w ir in
  let k := clamp_insert i (length l) in
  exists w', step w (OModInsert ir i v) = Ok w' /\
    kids w' ir = assign_slice l k k [v] /\
    (~ In v l -> kids w' ir = insert_at k v l) /\
    (forall x, x <> ir -> kids w' x = remove_id v (kids w x)) /\
    (forall x, nodes w' x = if x =? v then Some (with_par (getn w v) (Some ir)) else nodes w x) /\
    par w' v = Some ir.
Proof.
  intros w known ir i v R G l k.
  destruct (ModListProofs.insert_effect w known ir i v (reach_forest w known R) (reach_cache w known R) G)
    as (w' & Hs & Hk & Ho & Hn & Hp).
  exists w'. split; [exact Hs|]. split; [exact Hk|]. split; [|split; [exact Ho|split; [exact Hn|exact Hp]]].
  intros Hv. rewrite Hk. apply ModListProofs.insert_list_fresh. exact Hv.
Qed.

(* insert(i, v) of a module that is in the list already: no duplicate, the same members, the others keep their relative order;
   v lands in front of what sat at position k of the old list -- at k when it came from k or later, at k - 1 when it came from
   before k (its old copy no longer counts); inserting it in front of itself or right behind itself leaves the list as it was;
   no other list, no node (hence no owner) changes *)
Theorem C16_modlist_insert_member_moves : forall w known ir i v, reachable_k w known ->
  op_okb w known (OModInsert ir i v) = true -> In v (kids w ir) ->
  let l := kids w ir in
  let k := clamp_insert i (length l) in
  exists w', step w (OModInsert ir i v) = Ok w' /\
    kids w' ir = assign_slice l k k [v] /\
    NoDup (kids w' ir) /\ (forall x, In x (kids w' ir) <-> In x l) /\
    filter (fun x => negb (x =? v)) (kids w' ir) = filter (fun x => negb (x =? v)) l /\
    (forall j, index_of v l = Some j -> nth_error (kids w' ir) (k - (if (j <? k)%nat then 1 else 0)) = Some v) /\
    (forall j, index_of v l = Some j -> k = j \/ k = S j -> kids w' ir = l) /\
    (forall x, x <> ir -> kids w' x = kids w x) /\
    (forall x, nodes w' x = nodes w x).
Proof.
  intros w known ir i v R G Hv l k. pose proof (reach_forest w known R) as F.
  destruct (ModListProofs.insert_effect_member w known ir i v F (reach_cache w known R) G Hv)
    as (w' & Hs & Hk & H1 & H2 & H3 & H4 & H5 & H6).
  exists w'. split; [exact Hs|]. split; [exact Hk|]. split; [exact H1|]. split; [exact H2|]. split; [exact H3|].
  split; [exact H4|]. split; [|split; [exact H5|exact H6]].
  intros j Hj Hkj. rewrite Hk. exact (ModListProofs.insert_list_moved_same l k v j (f_nodup w known F ir) Hj Hkj).
Qed.

(* the list alone (any list without repetitions, any position): the two closed forms of l[k:k] = [v] *)
Theorem C16_modlist_insert_list : forall (l : list id) k v,
  (~ In v l -> assign_slice l k k [v] = insert_at k v l) /\
  assign_slice l (length l) (length l) [v] = remove_id v l ++ [v] /\
  (NoDup l -> In v l ->
     NoDup (assign_slice l k k [v]) /\ (forall x, In x (assign_slice l k k [v]) <-> In x l) /\
     filter (fun x => negb (x =? v)) (assign_slice l k k [v]) = filter (fun x => negb (x =? v)) l) /\
  (forall j, NoDup l -> index_of v l = Some j -> (k <= length l)%nat ->
     nth_error (assign_slice l k k [v]) (k - (if (j <? k)%nat then 1 else 0)) = Some v).
Proof.
  intros l k v. split; [exact (ModListProofs.insert_list_fresh l k v)|]. split; [exact (ModListProofs.insert_list_end l v)|].
  split; [exact (ModListProofs.insert_list_moved l k v)|].
  intros j. exact (ModListProofs.insert_list_moved_position l k v j).
Qed.

(* extend(vs) / += : append one after the other; for fresh distinct modules this is l ++ vs *)
Theorem C16_modlist_extend : forall w known ir vs, reachable_k w known -> op_okb w known (OModExtend ir vs) = true ->
  exists w', step w (OModExtend ir vs) = Ok w' /\
    kids w' ir = fold_left (fun l v => remove_id v l ++ [v]) vs (kids w ir) /\
    (NoDup vs -> (forall v, In v vs -> ~ In v (kids w ir)) -> kids w' ir = kids w ir ++ vs) /\
    (forall x, x <> ir -> kids w' x = fold_left (fun l v => remove_id v l) vs (kids w x)) /\
    (forall x, nodes w' x = if mem x vs then Some (with_par (getn w x) (Some ir)) else nodes w x).
Proof.
  intros w known ir vs R. exact (ModListProofs.extend_effect w known ir vs (reach_forest w known R) (reach_cache w known R)).
Qed.

(* "move everything from there to here": the argument is the whole module list of another IR -- all of it arrives, in order, and
   the other list is left empty (the implementation walks a copy of an owning collection: fix 2ca8079) *)
Theorem C16_modlist_extend_all_of_another : forall w known ir ir2, reachable_k w known -> ir <> ir2 ->
  op_okb w known (OModExtend ir (kids w ir2)) = true ->
  exists w', step w (OModExtend ir (kids w ir2)) = Ok w' /\
    kids w' ir = kids w ir ++ kids w ir2 /\ kids w' ir2 = [].
Proof.
  intros w known ir ir2 R Hne G.
  pose proof (reach_forest w known R) as HF.
  destruct (C16_modlist_extend w known ir (kids w ir2) R G) as (w' & E & _ & Happ & Hoth & _).
  exists w'. split; [exact E|]. split.
  - apply Happ; [exact (f_nodup w known HF ir2)|].
    intros v Hv Hin. apply Hne.
    apply (f_two_ended w known HF) in Hv. apply (f_two_ended w known HF) in Hin. congruence.
  - rewrite (Hoth ir2 (fun E2 => Hne (eq_sym E2))). apply MoveAllProofs.remove_all_self.
Qed.

(* l.extend(l): every module is taken out and appended in turn -- the list is what it was *)
Theorem C16_modlist_extend_self : forall w known ir, reachable_k w known ->
  op_okb w known (OModExtend ir (kids w ir)) = true ->
  exists w', step w (OModExtend ir (kids w ir)) = Ok w' /\ kids w' ir = kids w ir.
Proof.
  intros w known ir R G.
  destruct (C16_modlist_extend w known ir (kids w ir) R G) as (w' & E & Hfold & _).
  exists w'. split; [exact E|]. rewrite Hfold.
  pose proof (MoveAllProofs.extend_rotate (kids w ir) [] ) as Hr. rewrite app_nil_r in Hr. cbn [app] in Hr.
  apply Hr. exact (f_nodup w known (reach_forest w known R) ir).
Qed.

(* insert(i, v) / pop(i): the index is converted to a machine word FIRST, as list does -- OverflowError outside [-2^63, 2^63), and
   nothing has been touched (fix 74ce526: the ownership hooks used to run before the backing list raised) *)
Theorem C16_modlist_index_checked_first : forall w o,
  (forall ir i v, o = OModInsert ir i v -> fits_ssize i = false -> step_checked w o = Err EOverflow) /\
  (forall ir i, o = OModPop ir i -> fits_ssize i = false -> step_checked w o = Err EOverflow) /\
  (match o with OModInsert _ i _ | OModPop _ i => fits_ssize i = true | _ => True end -> step_checked w o = step w o) /\
  (forall i, fits_ssize i = true <-> - 2 ^ 63 <= i < 2 ^ 63).
Proof.
  intros w o. split; [|split; [|split]].
  - intros ir i v E H. subst o. unfold step_checked. rewrite H. reflexivity.
  - intros ir i E H. subst o. unfold step_checked. rewrite H. reflexivity.
  - destruct o; intros H; try reflexivity; unfold step_checked; rewrite H; reflexivity.
  - intros i. unfold fits_ssize. rewrite andb_true_iff, Z.leb_le, Z.ltb_lt. tauto.
Qed.

(* remove(v): ValueError exactly when v is not in the list *)
Theorem C16_modlist_remove : forall w known ir v, reachable_k w known -> op_okb w known (OModRemove ir v) = true ->
  (~ In v (kids w ir) -> step w (OModRemove ir v) = Err EValue) /\
  (In v (kids w ir) ->
   exists i w', index_of v (kids w ir) = Some i /\ step w (OModRemove ir v) = Ok w' /\
     kids w' ir = remove_at i (kids w ir) /\ kids w' ir = remove_id v (kids w ir) /\
     (forall x, x <> ir -> kids w' x = kids w x) /\
     (forall x, nodes w' x = if x =? v then Some (with_par (getn w v) None) else nodes w x) /\
     par w' v = None).
Proof. intros w known ir v R. exact (op_remove_effect w known ir v (invall_reachable w known R)). Qed.

(* pop(i) / del l[i]: IndexError exactly when i is out of range after Python's index normalisation; pop returns v *)
Theorem C16_modlist_pop_delitem : forall w known ir i o, reachable_k w known ->
  o = OModPop ir i \/ o = OModDelItem ir i -> op_okb w known o = true ->
  match norm_index i (length (kids w ir)) with
  | None => step w o = Err EIndex
  | Some k =>
    exists v w', nth_error (kids w ir) k = Some v /\ step w o = Ok w' /\
      kids w' ir = remove_at k (kids w ir) /\
      (forall x, x <> ir -> kids w' x = kids w x) /\
      (forall x, nodes w' x = if x =? v then Some (with_par (getn w v) None) else nodes w x) /\
      par w' v = None
  end.
Proof. intros w known ir i o R. exact (op_del_effect w known ir i o (invall_reachable w known R)). Qed.

(* del l[a:b] with slice.indices clamping *)
Theorem C16_modlist_delslice : forall w known ir a b, reachable_k w known -> op_okb w known (OModDelSlice ir a b) = true ->
  let l := kids w ir in
  let lo := norm_bound a 0 (length l) in
  let hi := Z.max lo (norm_bound b (Z.of_nat (length l)) (length l)) in
  let victims := ModListProofs.slice_victims l lo hi in
  exists w', step w (OModDelSlice ir a b) = Ok w' /\
    kids w' ir = firstn (Z.to_nat lo) l ++ skipn (Z.to_nat hi) l /\
    (forall x, x <> ir -> kids w' x = kids w x) /\
    (forall x, nodes w' x = if mem x victims then Some (with_par (getn w x) None) else nodes w x) /\
    (forall x, In x victims -> par w' x = None) /\
    (forall x, x <> ir -> cache w' x = cache w x).
Proof.
  intros w known ir a b R. exact (ModListProofs.delslice_effect w known ir a b (reach_forest w known R) (reach_cache w known R)).
Qed.

(* l[i] = v for v not elsewhere in this list *)
Theorem C16_modlist_setitem : forall w known ir i v k old, reachable_k w known -> op_okb w known (OModSetItem ir i v) = true ->
  norm_index i (length (kids w ir)) = Some k -> nth_error (kids w ir) k = Some old ->
  (~ In v (kids w ir) \/ v = old) ->
  exists w', step w (OModSetItem ir i v) = Ok w' /\
    kids w' ir = set_at k v (kids w ir) /\
    (forall x, x <> ir -> kids w' x = remove_id v (kids w x)) /\
    (forall x, nodes w' x = if x =? v then Some (with_par (getn w v) (Some ir))
                            else if x =? old then Some (with_par (getn w old) None) else nodes w x) /\
    par w' v = Some ir /\ (v <> old -> par w' old = None).
Proof.
  intros w known ir i v k old R G En Eo Hv.
  destruct (ModListProofs.setitem_effect w known ir i v k old (reach_forest w known R) (reach_cache w known R) G En Eo)
    as (w' & Hs & Hk & Hrest).
  exists w'. split; [exact Hs|]. split; [|exact Hrest].
  rewrite Hk. apply (ModListProofs.setitem_list_fresh _ k v old Hv); [|exact Eo].
  apply (f_nodup w known (reach_forest w known R)).
Qed.

Theorem C16_modlist_setitem_index_error : forall w ir i v,
  norm_index i (length (kids w ir)) = None -> step w (OModSetItem ir i v) = Err EIndex.
Proof. exact ModListProofs.setitem_effect_index. Qed.

(* l[a:b] = vs for distinct vs none of which stays elsewhere in this list *)
Theorem C16_modlist_setslice : forall w known ir a b vs, reachable_k w known -> op_okb w known (OModSetSlice ir a b vs) = true ->
  let l := kids w ir in
  let lo := norm_bound a 0 (length l) in
  let hi := Z.max lo (norm_bound b (Z.of_nat (length l)) (length l)) in
  let pre := firstn (Z.to_nat lo) l in
  let victims := ModListProofs.slice_victims l lo hi in
  let post := skipn (Z.to_nat hi) l in
  NoDup vs -> (forall v, In v vs -> ~ In v pre /\ ~ In v post) ->
  exists w', step w (OModSetSlice ir a b vs) = Ok w' /\
    kids w' ir = pre ++ vs ++ post /\
    (forall x, x <> ir -> kids w' x = fold_left (fun l v => remove_id v l) vs (kids w x)) /\
    (forall x, nodes w' x = if mem x vs then Some (with_par (getn w x) (Some ir))
                            else if mem x victims then Some (with_par (getn w x) None) else nodes w x).
Proof.
  intros w known ir a b vs R G l lo hi pre victims post Hnd Hout.
  destruct (ModListProofs.setslice_effect w known ir a b vs (reach_forest w known R) (reach_cache w known R) G)
    as (w' & Hs & Hk & Hrest).
  exists w'. split; [exact Hs|]. split; [|exact Hrest].
  rewrite Hk. apply ModListProofs.setslice_list_separate; assumption.
Qed.

(* l[a:b:c] = vs with a step other than 1 (extended-slice assignment).  The positions written are those l[a:b:c] reads
   (pairwise distinct, inside the list); the built-in's two ValueErrors (step 0; sizes differ) leave the state as it was;
   otherwise the list places the values at these positions and every value just assigned stays only at the LAST position
   it was assigned to (assign_ext): a module assigned while it sits elsewhere in this list, or named twice, is moved, not
   duplicated -- no duplicate, the members are the values and the elements at the positions not written, everything in
   the list is owned by this IR, what left the list has no owner.  For distinct values none of which stays in the list
   outside the written positions the result is the built-in list's: the i-th value at the i-th position, every other
   position untouched, and reading the same slice back returns the values. *)
Theorem C16_modlist_setslice_extended : forall w known ir a b c vs, reachable_k w known ->
  op_okb w known (OModSetExt ir a b c vs) = true ->
  let l := kids w ir in
  let o := OModSetExt ir a b c vs in
  (c = 0 -> step w o = Err EValue /\ step' w o = w) /\
  (forall s e st, py_slice_indices a b c (length l) = Ok (s, e, st) ->
     let ps := py_range_positions s e st (length l) in
     st = c /\ NoDup ps /\ (forall p, In p ps -> (p < length l)%nat) /\
     (length vs <> length ps -> step w o = Err EValue /\ step' w o = w) /\
     (length vs = length ps ->
      exists w', step w o = Ok w' /\
        kids w' ir = assign_ext l ps vs /\ NoDup (kids w' ir) /\
        (forall x, In x (kids w' ir) <-> In x vs \/ (exists q, nth_error l q = Some x /\ ~ In q ps)) /\
        (forall x, In x (kids w' ir) -> par w' x = Some ir) /\
        (forall x, In x l -> ~ In x (kids w' ir) -> par w' x = None) /\
        (NoDup vs -> (forall v, In v vs -> forall q, nth_error l q = Some v -> In q ps) ->
         kids w' ir = set_positions l ps vs /\
         (forall i p v, nth_error ps i = Some p -> nth_error vs i = Some v -> nth_error (kids w' ir) p = Some v) /\
         (forall q, ~ In q ps -> nth_error (kids w' ir) q = nth_error l q) /\
         py_getslice (kids w' ir) a b c = Ok vs))).
Proof.
  intros w known ir a b c vs R G l o.
  pose proof (reach_forest w known R) as F. pose proof (reach_cache w known R) as C.
  destruct (ModListProofs.setext_effect_errors w ir a b c vs) as [E0 E1].
  assert (Hc1 : c <> 1).
  { pose proof G as G'. cbn [op_okb] in G'. apply andb_true_iff in G'. destruct G' as [_ G'].
    apply negb_true_iff in G'. apply Z.eqb_neq in G'. exact G'. }
  split; [exact E0|]. intros s e st E ps.
  destruct (SeqOpsProofs.py_range_positions_NoDup a b c (length l) s e st E) as (Hst & _ & Hnd & Hlt).
  split; [exact Hst|]. split; [exact Hnd|]. split; [exact Hlt|]. split.
  - intro Hlen. exact (E1 s e st Hc1 E Hlen).
  - intro Hlen.
    destruct (ModListProofs.setext_effect w known ir a b c vs s e st F C G E Hlen) as (w' & Hs & Hk & Hn & Hp & Hq).
    exists w'. split; [exact Hs|]. split; [exact Hk|]. split; [exact Hn|]. split.
    { intro x. rewrite Hk. apply ModListProofs.In_assign_ext; assumption. }
    split; [exact Hp|]. split; [exact Hq|]. intros Hndv Hsep.
    assert (Ek : kids w' ir = set_positions l ps vs).
    { rewrite Hk. apply ModListProofs.assign_ext_separate; try assumption. apply (f_nodup w known F). }
    split; [exact Ek|]. rewrite Ek. split; [|split].
    + intros i p v Hi Hv. exact (ModListProofs.nth_set_positions_in ps vs l i p v Hnd Hlt Hi Hv).
    + intros q Hq'. apply ModListProofs.nth_set_positions_out. exact Hq'.
    + exact (ModListProofs.set_positions_read_back l a b c vs s e st E Hlen).
Qed.

(* the premise of the closed form is exact: on a list without duplicates nothing is dropped if and only if the built-in
   list's result has no duplicates -- the values are distinct and none of them stays outside the written positions *)
Theorem C16_modlist_setslice_extended_exact : forall (l : list id) ps vs,
  NoDup l -> NoDup ps -> (forall p, In p ps -> (p < length l)%nat) -> length vs = length ps ->
  (assign_ext l ps vs = set_positions l ps vs <->
   NoDup vs /\ (forall v, In v vs -> forall q, nth_error l q = Some v -> In q ps)).
Proof.
  intros l ps vs Hnd Hndp Hlt Hlen. split.
  - apply ModListProofs.assign_ext_separate_conv; assumption.
  - intros [Hndv Hsep]. apply ModListProofs.assign_ext_separate; assumption.
Qed.

(* the same-list shapes (the former finding D4): a module assigned while it already sits elsewhere in this list, or named
   more than once on the right-hand side, is moved -- the list keeps no duplicate, the replaced elements that are not
   assigned again leave the list and lose their owner, everything in the list is owned by this IR *)
Theorem C16_same_list_assignment_moves :
  (forall w known ir i v k old, reachable_k w known -> op_okb w known (OModSetItem ir i v) = true ->
     norm_index i (length (kids w ir)) = Some k -> nth_error (kids w ir) k = Some old -> In v (kids w ir) -> v <> old ->
     exists w', step w (OModSetItem ir i v) = Ok w' /\
       kids w' ir = assign_slice (kids w ir) k (S k) [v] /\
       NoDup (kids w' ir) /\ (forall x, In x (kids w' ir) <-> In x (kids w ir) /\ x <> old) /\
       par w' v = Some ir /\ par w' old = None) /\
  (forall w known ir a b vs, reachable_k w known -> op_okb w known (OModSetSlice ir a b vs) = true ->
     let l := kids w ir in
     let lo := norm_bound a 0 (length l) in
     let hi := Z.max lo (norm_bound b (Z.of_nat (length l)) (length l)) in
     let victims := ModListProofs.slice_victims l lo hi in
     exists w', step w (OModSetSlice ir a b vs) = Ok w' /\
       NoDup (kids w' ir) /\
       (forall x, In x (kids w' ir) <-> In x vs \/ (In x l /\ ~ In x victims)) /\
       (forall x, In x (kids w' ir) -> par w' x = Some ir) /\
       (forall x, In x l -> ~ In x (kids w' ir) -> par w' x = None)).
Proof.
  split.
  - intros w known ir i v k old R.
    exact (ModListProofs.setitem_effect_moves w known ir i v k old (reach_forest w known R) (reach_cache w known R)).
  - intros w known ir a b vs R.
    exact (ModListProofs.setslice_effect_moves w known ir a b vs (reach_forest w known R) (reach_cache w known R)).
Qed.

(* where the moved module lands, and that the others keep their relative order *)
Theorem C16_same_list_setitem_position : forall (l : list id) k v old j,
  NoDup l -> nth_error l k = Some old -> v <> old -> index_of v l = Some j ->
  nth_error (assign_slice l k (S k) [v]) (k - (if (j <? k)%nat then 1 else 0)) = Some v /\
  filter (fun x => negb (x =? v)) (assign_slice l k (S k) [v]) = filter (fun x => negb (x =? v)) (remove_id old l).
Proof.
  intros l k v old j Hnd Ho Hne Hj.
  exact (conj (ModListProofs.setitem_list_moved_position l k v old j Hnd Ho Hne Hj)
              (ModListProofs.setitem_list_moved_order l k v old Hnd Ho Hne)).
Qed.

Theorem C16_modlist_clear : forall w known ir, reachable_k w known -> op_okb w known (OModClear ir) = true ->
  exists w', step w (OModClear ir) = Ok w' /\
    kids w' ir = [] /\
    (forall x, x <> ir -> kids w' x = kids w x) /\
    (forall x, nodes w' x = if mem x (kids w ir) then Some (with_par (getn w x) None) else nodes w x) /\
    (forall x, In x (kids w ir) -> par w' x = None) /\
    (forall x, x <> ir -> cache w' x = cache w x).
Proof.
  intros w known ir R. exact (ModListProofs.clear_effect w known ir (reach_forest w known R) (reach_cache w known R)).
Qed.

Theorem C16_modlist_reverse : forall w ir,
  exists w', step w (OModReverse ir) = Ok w' /\ kids w' ir = rev (kids w ir) /\
    (forall x, x <> ir -> kids w' x = kids w x) /\ (forall x, nodes w' x = nodes w x) /\ (forall x, cache w' x = cache w x).
Proof. exact ModListProofs.reverse_effect. Qed.

(* ================= ir.modules: the read-only half of the sequence interface =================
   the answers of list.index / count / in / [i] / [a:b:c] / reversed on the module list of any state *)

(* index(x[, start[, stop]]): the bounds are clamped as the built-in does (negative = from the end, then into [0, len]); the
   answer is the FIRST position inside the bounds holding x, ValueError exactly when there is none *)
Theorem C16_modlist_index : forall w ir x a b,
  let l := kids w ir in
  let lo := index_lo a (length l) in
  let hi := index_hi b (length l) in
  (Z.of_nat lo = match a with None => 0
                 | Some s => if s <? 0 then Z.max 0 (s + Z.of_nat (length l)) else Z.min s (Z.of_nat (length l)) end) /\
  (Z.of_nat hi = match b with None => Z.of_nat (length l)
                 | Some s => if s <? 0 then Z.max 0 (s + Z.of_nat (length l)) else Z.min s (Z.of_nat (length l)) end) /\
  (forall p, py_index l x a b = Ok p <->
     (lo <= p < hi)%nat /\ nth_error l p = Some x /\ forall q, (lo <= q < p)%nat -> nth_error l q <> Some x) /\
  (forall e, py_index l x a b = Err e <->
     e = EValue /\ forall q, (lo <= q < hi)%nat -> nth_error l q <> Some x).
Proof.
  intros w ir x a b l lo hi.
  destruct (SeqOpsProofs.py_index_bounds a b (length l)) as [B1 B2].
  split; [exact B1|]. split; [exact B2|]. split.
  - intros p. exact (SeqOpsProofs.py_index_spec l x a b p).
  - intros e. exact (SeqOpsProofs.py_index_spec_err l x a b e).
Qed.

(* count and membership; in a reachable state a module is listed at most once, so count is 0 or 1 *)
Theorem C16_modlist_count_contains : forall w known ir x, reachable_k w known ->
  let l := kids w ir in
  py_count l x = count_occ Z.eq_dec l x /\ (py_count l x <= 1)%nat /\
  (py_contains l x = true <-> In x l) /\
  (py_contains l x = true <-> (0 < py_count l x)%nat) /\
  (py_contains l x = true <-> exists p, py_index l x None None = Ok p).
Proof.
  intros w known ir x R l.
  split; [exact (SeqOpsProofs.py_count_spec l x)|].
  split; [rewrite (SeqOpsProofs.py_count_spec l x);
          exact (proj1 (NoDup_count_occ Z.eq_dec l) (f_nodup w known (reach_forest w known R) ir) x)|].
  split; [exact (SeqOpsProofs.py_contains_In l x)|].
  split; [exact (SeqOpsProofs.py_contains_count l x)|].
  exact (SeqOpsProofs.py_contains_index l x).
Qed.

(* l[i]: the element at i, or at len + i for a negative i; IndexError exactly outside [-len, len) *)
Theorem C16_modlist_getitem : forall w ir i,
  let l := kids w ir in
  (forall v, py_getitem l i = Ok v <->
     (0 <= i < Z.of_nat (length l) /\ nth_error l (Z.to_nat i) = Some v) \/
     (- Z.of_nat (length l) <= i < 0 /\ nth_error l (Z.to_nat (i + Z.of_nat (length l))) = Some v)) /\
  (forall e, py_getitem l i = Err e <-> e = EIndex /\ (i < - Z.of_nat (length l) \/ Z.of_nat (length l) <= i)).
Proof.
  intros w ir i l. split.
  - intros v. exact (SeqOpsProofs.py_getitem_spec l i v).
  - intros e. exact (SeqOpsProofs.py_getitem_spec_err l i e).
Qed.

(* l[a:b:c]: ValueError exactly for step 0; otherwise the elements at the positions s, s+c, s+2c, ... strictly before e (after
   e for a negative step), where (s, e, c) = slice(a, b, c).indices(len): every position is inside the list, they are strictly
   monotone, and the k-th position is s + k*c *)
Theorem C16_modlist_getslice : forall w ir a b c,
  let l := kids w ir in
  (forall e, py_getslice l a b c = Err e <-> e = EValue /\ c = 0) /\
  (c <> 0 ->
   exists s e r,
     py_slice_indices a b c (length l) = Ok (s, e, c) /\
     py_getslice l a b c = Ok r /\
     let ps := py_range_positions s e c (length l) in
     map Some r = map (nth_error l) ps /\
     Forall (fun p => (p < length l)%nat) ps /\
     (0 < c -> StronglySorted lt ps) /\ (c < 0 -> StronglySorted gt ps) /\
     (forall k p, nth_error ps k = Some p <->
        Z.of_nat p = s + Z.of_nat k * c /\ (if 0 <? c then s + Z.of_nat k * c < e else e < s + Z.of_nat k * c))).
Proof.
  intros w ir a b c l. split.
  - intros e. exact (SeqOpsProofs.py_getslice_err l a b c e).
  - intros Hc. destruct (SeqOpsProofs.py_getslice_positions l a b c Hc) as (s & e & r & Hi & Hg & Hm & Hin & Hup & Hdown & _ & _).
    exists s, e, r. split; [exact Hi|]. split; [exact Hg|]. split; [exact Hm|]. split; [exact Hin|].
    split; [exact Hup|]. split; [exact Hdown|].
    intros k p. exact (SeqOpsProofs.py_range_positions_nth a b c (length l) s e k p Hi).
Qed.

(* the bounds slice.indices computes: clamped into [0, len] for a positive step, into [-1, len-1] for a negative one *)
Theorem C16_modlist_slice_bounds : forall a b c len s e st, py_slice_indices a b c len = Ok (s, e, st) ->
  st = c /\ c <> 0 /\
  (0 < c -> 0 <= s <= Z.of_nat len /\ 0 <= e <= Z.of_nat len) /\
  (c < 0 -> -1 <= s <= Z.of_nat len - 1 /\ -1 <= e <= Z.of_nat len - 1).
Proof. exact SeqOpsProofs.py_slice_indices_bounds. Qed.

(* the everyday shapes: l[a:b] inside the list is firstn/skipn, l[:] the list, l[::-1] and reversed(l) its reversal *)
Theorem C16_modlist_getslice_plain : forall w ir,
  let l := kids w ir in
  (forall a b, 0 <= a <= Z.of_nat (length l) -> 0 <= b <= Z.of_nat (length l) ->
     py_getslice l (Some a) (Some b) 1 = Ok (firstn (Z.to_nat (b - a)) (skipn (Z.to_nat a) l))) /\
  py_getslice l None None 1 = Ok l /\ py_getslice l None None (-1) = Ok (rev l) /\
  py_reversed l = rev l /\ py_len l = length l.
Proof.
  intros w ir l.
  split; [intros a b; exact (SeqOpsProofs.py_getslice_step1 l a b)|].
  split; [exact (proj1 (SeqOpsProofs.py_getslice_full l))|].
  split; [exact (proj2 (SeqOpsProofs.py_getslice_full l))|].
  split; reflexivity.
Qed.

(* non-vacuity: the module list [4; 3; 5] of the example below's state h3, asked the corner cases of the built-in *)
Example C16_modlist_readonly_example :
  let l := [4; 3; 5] in
  (py_index l 5 None None, py_index l 5 (Some (-1)) None, py_index l 4 (Some 1) None, py_index l 3 (Some (-100)) (Some 100),
   py_index l 3 (Some 2) (Some 1)) = (Ok 2%nat, Ok 2%nat, Err EValue, Ok 1%nat, Err EValue) /\
  (py_count l 3, py_count l 9, py_contains l 5, py_contains l 9) = (1%nat, 0%nat, true, false) /\
  (py_getitem l (-1), py_getitem l (-3), py_getitem l (-4), py_getitem l 3) = (Ok 5, Ok 4, Err EIndex, Err EIndex) /\
  (py_getslice l (Some 5) (Some 0) (-1), py_getslice l None None (-2), py_getslice l (Some (-100)) (Some 100) 2,
   py_getslice l (Some 1) None 0, py_getslice l (Some 2) (Some 1) 1) = (Ok [5; 3], Ok [5; 4], Ok [4; 5], Err EValue, Ok []) /\
  py_slice_indices None None (-1) 3 = Ok (2, -1, -1).
Proof. vm_compute. repeat split. Qed.

(* ================= symbolic_expressions: the mutable-mapping interface ================= *)

(* iteration is by ascending offset, one entry per offset *)
Theorem C16_symx_iteration_sorted : forall w known bi, reachable_k w known -> strictly_ascending (map fst (symx w bi)).
Proof. intros w known bi R. exact (reach_sorted w known R bi). Qed.

Theorem C16_symx_setitem : forall w bi k e,
  let o := OSymxSet bi k e in
  step w o = Ok (step' w o) /\
  dict_get Z.eqb k (symx (step' w o) bi) = Some e /\
  (forall k', k' <> k -> dict_get Z.eqb k' (symx (step' w o) bi) = dict_get Z.eqb k' (symx w bi)).
Proof. exact SymxProofs.symx_set_spec. Qed.

(* del d[k] / d.pop(k): KeyError exactly for a missing key *)
Theorem C16_symx_del_pop : forall w bi k o, o = OSymxDel bi k \/ o = OSymxPop bi k ->
  (dict_get Z.eqb k (symx w bi) = None -> step w o = Err EKey /\ step' w o = w) /\
  (dict_get Z.eqb k (symx w bi) <> None ->
     step w o = Ok (step' w o) /\
     dict_get Z.eqb k (symx (step' w o) bi) = None /\
     (forall k', k' <> k -> dict_get Z.eqb k' (symx (step' w o) bi) = dict_get Z.eqb k' (symx w bi))).
Proof. exact SymxProofs.symx_del_spec. Qed.

(* popitem: KeyError on the empty map, else the entry with the smallest offset (next(iter(d))) *)
Theorem C16_symx_popitem : forall w known bi, reachable_k w known ->
  let o := OSymxPopitem bi in
  match symx w bi with
  | [] => step w o = Err EKey /\ step' w o = w
  | (k0, e0) :: d =>
      step w o = Ok (step' w o) /\
      symx (step' w o) bi = d /\
      (forall k, dict_get Z.eqb k (symx w bi) <> None -> k0 <= k) /\
      dict_get Z.eqb k0 (symx (step' w o) bi) = None /\
      (forall k, k <> k0 -> dict_get Z.eqb k (symx (step' w o) bi) = dict_get Z.eqb k (symx w bi))
  end.
Proof. intros w known bi R. exact (SymxProofs.symx_popitem_spec w bi (reach_sorted w known R bi)). Qed.

Theorem C16_symx_setdefault : forall w bi k e,
  let o := OSymxSetdefault bi k e in
  step w o = Ok (step' w o) /\
  (dict_get Z.eqb k (symx w bi) <> None -> step' w o = w) /\
  (dict_get Z.eqb k (symx w bi) = None ->
     dict_get Z.eqb k (symx (step' w o) bi) = Some e /\
     (forall k', k' <> k -> dict_get Z.eqb k' (symx (step' w o) bi) = dict_get Z.eqb k' (symx w bi))).
Proof. exact SymxProofs.symx_setdefault_spec. Qed.

(* update(pairs): later pairs win *)
Theorem C16_symx_update : forall w bi kvs,
  let o := OSymxUpdate bi kvs in
  step w o = Ok (step' w o) /\
  forall k, dict_get Z.eqb k (symx (step' w o) bi) =
            match dict_get Z.eqb k (rev kvs) with Some e => Some e | None => dict_get Z.eqb k (symx w bi) end.
Proof. exact SymxProofs.symx_update_spec. Qed.

Theorem C16_symx_clear : forall w bi,
  let o := OSymxClear bi in step w o = Ok (step' w o) /\ symx (step' w o) bi = [].
Proof. exact SymxProofs.symx_clear_spec. Qed.

(* bi.symbolic_expressions = mapping : clear, then update *)
Theorem C16_symx_assign : forall w bi kvs,
  let o := OSymxAssign bi kvs in
  step w o = Ok (step' w o) /\
  (forall k, dict_get Z.eqb k (symx (step' w o) bi) = dict_get Z.eqb k (rev kvs)) /\
  symx (step' w o) bi = symx (step' (step' w (OSymxClear bi)) (OSymxUpdate bi kvs)) bi.
Proof. exact SymxProofs.symx_assign_spec. Qed.

(* a mapping operation touches only that interval's map *)
Theorem C16_symx_frame : forall w o bi, SymxProofs.symx_target o = Some bi ->
  (forall n, nodes (step' w o) n = nodes w n) /\ (forall n, kids (step' w o) n = kids w n) /\
  (forall n, cache (step' w o) n = cache w n) /\ (forall n, nix (step' w o) n = nix w n) /\
  (forall n, rix (step' w o) n = rix w n) /\ (forall n, tree (step' w o) n = tree w n) /\
  (forall b, b <> bi -> symx (step' w o) b = symx w b).
Proof. exact SymxProofs.symx_op_frame. Qed.

(* ================= moved, not duplicated; failures ================= *)

(* after any guarded operation: no collection holds a node twice, no node sits in two collections, and the
   collections agree with the parent attributes (the relative order of the other elements is kept: every effect
   above is stated with remove_id = filter) *)
Theorem C16_moved_not_duplicated : forall w known o, reachable_k w known -> op_okb w known o = true ->
  (forall p, NoDup (kids (step' w o) p)) /\
  (forall c p q, In c (kids (step' w o) p) -> In c (kids (step' w o) q) -> p = q) /\
  (forall p c, In c (kids (step' w o) p) <-> par (step' w o) c = Some p).
Proof. intros w known o R. exact (moved_not_duplicated w known o (invall_reachable w known R)). Qed.

Theorem C16_remove_id_keeps_order : forall v l, remove_id v l = filter (fun y => negb (y =? v)) l.
Proof. exact remove_id_order. Qed.

(* a failed operation leaves the state as it was (clean failure), hence consistent *)
Theorem C16_failed_op_leaves_state : forall w known o e, reachable_k w known -> step w o = Err e ->
  step' w o = w /\ InvAll (step' w o) known.
Proof. intros w known o e R. exact (failed_op_leaves_state w known o e (invall_reachable w known R)). Qed.

(* the only KeyErrors are the built-in ones *)
Theorem C16_keyerror_exactly_builtin : forall w known o, reachable_k w known -> op_okb w known o = true ->
  (step w o = Err EKey <-> builtin_keyerror w o).
Proof. intros w known o R. exact (keyerror_iff w known o (invall_reachable w known R)). Qed.

(* non-vacuity: IRs 1, 2; modules 3, 4, 5; sections 6, 7; interval 8.  extend; insert of a module already in the list
   (moved to the front); reverse; append to the other IR (moved); item assignment with a negative index of a module
   owned by the other IR (moved, the replaced module detached); set update with two iterables, |= moving a section,
   ^= moving it back; then the failures with the built-in exception types; the same-list assignments succeed (see
   C16_same_list_assignment_example below for their results). *)
Example C16_example :
  let build := [ONew 1 KIR 101 None 0 0 0 PNone; ONew 2 KIR 102 None 0 0 0 PNone; ONew 3 KMod 103 None 0 0 0 PNone;
     ONew 4 KMod 104 None 0 0 0 PNone; ONew 5 KMod 105 None 0 0 0 PNone; ONew 6 KSec 106 None 0 0 0 PNone;
     ONew 7 KSec 107 None 0 0 0 PNone; ONew 8 KBI 108 None 4 0 0 PNone] in
  let h1 := build ++ [OModExtend 1 [3; 4; 5]] in
  let h2 := h1 ++ [OModInsert 1 0 5] in
  let h3 := h2 ++ [OModReverse 1] in
  let h4 := h3 ++ [OModAppend 2 3] in
  let h5 := h4 ++ [OModSetItem 1 (-1) 3] in
  let h6 := h5 ++ [OSet 3 [KSec] SUpdate [[6]; [7]]; OSet 4 [KSec] SIor [[6]]] in
  let h7 := h6 ++ [OSet 3 [KSec] SIxor [[6; 7]]] in
  let run l := fst (run_guarded w0 [] l) in
  let w7 := run h7 in
  let outcome o := (op_okb w7 [8; 7; 6; 5; 4; 3; 2; 1] o, match step w7 o with Ok _ => None | Err e => Some e end) in
  all_guarded_ok w0 [] h7 = true /\
  (kids (run h1) 1, kids (run h2) 1, kids (run h3) 1) = ([3; 4; 5], [5; 3; 4], [4; 3; 5]) /\
  (kids (run h4) 1, kids (run h4) 2) = ([4; 5], [3]) /\
  (kids (run h5) 1, kids (run h5) 2, par (run h5) 5, par (run h5) 3) = ([4; 3], [], None, Some 1) /\
  (kids (run h6) 3, kids (run h6) 4) = ([7], [6]) /\ (kids w7 3, kids w7 4) = ([6], []) /\
  map outcome [OModRemove 1 5; OModPop 1 7; OModDelItem 1 (-3); OSet 3 [KSec] SRemove [[7]]; OSet 4 [KSec] SPop [];
               OSymxPopitem 8; OSymxDel 8 3; OModSetItem 1 0 3; OModSetSlice 1 (Some 0) (Some 1) [3]]
  = [(true, Some EValue); (true, Some EIndex); (true, Some EIndex); (true, Some EKey); (true, Some EKey);
     (true, Some EKey); (true, Some EKey); (true, None); (true, None)] /\
  (kids (step' w7 (OModSetSlice 1 (Some 1) None [5; 3])) 1, kids (step' w7 (OModDelSlice 1 (Some (-1)) None)) 1,
   kids (step' w7 (OModClear 1)) 1, kids (step' w7 (OModPop 1 (-2))) 1) = ([4; 5; 3], [4], [], [3]).
Proof. vm_compute. repeat split. Qed.

(* non-vacuity of C16_same_list_assignment_moves: in the reachable world w7 above (ir.modules of IR 1 = [4; 3]) the
   premises of the item case hold for `modules[1] = modules[0]` (module 4, at position 0, assigned to position 1: it is
   moved there and module 3 leaves) and for `modules[0] = modules[1]`; slice assignments naming a module twice, or naming
   one that sits outside the slice, keep it once, at the last position it was assigned to *)
Example C16_same_list_assignment_example :
  let h7 := [ONew 1 KIR 101 None 0 0 0 PNone; ONew 2 KIR 102 None 0 0 0 PNone; ONew 3 KMod 103 None 0 0 0 PNone;
     ONew 4 KMod 104 None 0 0 0 PNone; ONew 5 KMod 105 None 0 0 0 PNone; ONew 6 KSec 106 None 0 0 0 PNone;
     ONew 7 KSec 107 None 0 0 0 PNone; ONew 8 KBI 108 None 4 0 0 PNone;
     OModExtend 1 [3; 4; 5]; OModInsert 1 0 5; OModReverse 1; OModAppend 2 3; OModSetItem 1 (-1) 3;
     OSet 3 [KSec] SUpdate [[6]; [7]]; OSet 4 [KSec] SIor [[6]]; OSet 3 [KSec] SIxor [[6; 7]]] in
  let w7 := fst (run_guarded w0 [] h7) in
  let known := snd (run_guarded w0 [] h7) in
  let after o := let w' := step' w7 o in (kids w' 1, kids w' 2, map (par w') [3; 4; 5]) in
  reachable_k w7 known /\ kids w7 1 = [4; 3] /\ map (par w7) [3; 4; 5] = [Some 1; Some 1; None] /\
  (op_okb w7 known (OModSetItem 1 1 4) = true /\ norm_index 1 (length (kids w7 1)) = Some 1%nat /\
   nth_error (kids w7 1) 1 = Some 3 /\ In 4 (kids w7 1) /\ 4 <> 3) /\
  after (OModSetItem 1 1 4) = ([4], [], [None; Some 1; None]) /\
  after (OModSetItem 1 0 3) = ([3], [], [Some 1; None; None]) /\
  op_okb w7 known (OModSetSlice 1 (Some 0) (Some 1) [5; 5]) = true /\
  after (OModSetSlice 1 (Some 0) (Some 1) [5; 5]) = ([5; 3], [], [Some 1; None; Some 1]) /\
  after (OModSetSlice 1 (Some 0) (Some 1) [3]) = ([3], [], [Some 1; None; None]) /\
  after (OModSetSlice 1 (Some 1) None [4; 5; 4]) = ([5; 4], [], [None; Some 1; Some 1]) /\
  after (OModSetSlice 1 None None [3; 5; 3; 4]) = ([5; 3; 4], [], [Some 1; Some 1; Some 1]).
Proof.
  cbv zeta. split.
  - eexists. symmetry. apply surjective_pairing.
  - vm_compute. repeat split; try reflexivity; try discriminate. left. reflexivity.
Qed.

(* non-vacuity of C16_modlist_setslice_extended: IR 1 with ir.modules = [3; 4; 5], modules 6 and 7 unowned.
   l[::2] = [6, 7] (fresh values: the built-in result, 3 and 5 leave and lose their owner); l[::-1] = [3, 4, 5] (a
   permutation: nothing leaves, nothing enters, the list is reversed); l[::2] = [6, 6] (named twice: kept once, at the
   last position); l[::2] = [4, 6] (4 sits at position 1: moved to position 0); a size mismatch and step 0: ValueError,
   state unchanged *)
Example C16_modlist_setslice_extended_example :
  let h := [ONew 1 KIR 101 None 0 0 0 PNone; ONew 3 KMod 103 None 0 0 0 PNone; ONew 4 KMod 104 None 0 0 0 PNone;
            ONew 5 KMod 105 None 0 0 0 PNone; ONew 6 KMod 106 None 0 0 0 PNone; ONew 7 KMod 107 None 0 0 0 PNone;
            OModExtend 1 [3; 4; 5]] in
  let w := fst (run_guarded w0 [] h) in
  let known := snd (run_guarded w0 [] h) in
  let after o := let w' := step' w o in (kids w' 1, map (par w') [3; 4; 5; 6; 7]) in
  let outcome o := (op_okb w known o, match step w o with Ok _ => None | Err e => Some e end) in
  reachable_k w known /\ after (OTouch 1) = ([3; 4; 5], [Some 1; Some 1; Some 1; None; None]) /\
  (py_slice_indices None None 2 3 = Ok (0, 3, 2) /\ py_range_positions 0 3 2 3 = [0; 2]%nat /\
   py_slice_indices None None (-1) 3 = Ok (2, -1, -1) /\ py_range_positions 2 (-1) (-1) 3 = [2; 1; 0]%nat) /\
  outcome (OModSetExt 1 None None 2 [6; 7]) = (true, None) /\
  after (OModSetExt 1 None None 2 [6; 7]) = ([6; 4; 7], [None; Some 1; None; Some 1; Some 1]) /\
  set_positions [3; 4; 5] [0; 2]%nat [6; 7] = [6; 4; 7] /\
  py_getslice (kids (step' w (OModSetExt 1 None None 2 [6; 7])) 1) None None 2 = Ok [6; 7] /\
  outcome (OModSetExt 1 None None (-1) [3; 4; 5]) = (true, None) /\
  after (OModSetExt 1 None None (-1) [3; 4; 5]) = ([5; 4; 3], [Some 1; Some 1; Some 1; None; None]) /\
  outcome (OModSetExt 1 None None 2 [6; 6]) = (true, None) /\
  after (OModSetExt 1 None None 2 [6; 6]) = ([4; 6], [None; Some 1; None; Some 1; None]) /\
  set_positions [3; 4; 5] [0; 2]%nat [6; 6] = [6; 4; 6] /\
  after (OModSetExt 1 None None 2 [4; 6]) = ([4; 6], [None; Some 1; None; Some 1; None]) /\
  after (OModSetExt 1 (Some 1) None (-1) [5; 3]) = ([3; 5], [Some 1; None; Some 1; None; None]) /\
  outcome (OModSetExt 1 None None 2 [6]) = (true, Some EValue) /\
  outcome (OModSetExt 1 None None 2 [6; 7; 6]) = (true, Some EValue) /\
  outcome (OModSetExt 1 None None 0 [6; 7]) = (true, Some EValue) /\
  outcome (OModSetExt 1 None None 1 [6; 7]) = (false, Some EImpossible) /\
  after (OModSetExt 1 None None 2 [6]) = after (OTouch 1) /\ after (OModSetExt 1 None None 0 [6; 7]) = after (OTouch 1).
Proof.
  cbv zeta. split.
  - eexists. symmetry. apply surjective_pairing.
  - vm_compute. repeat split.
Qed.

(* non-vacuity of C16_modlist_insert / C16_modlist_insert_member_moves: IR 1 with ir.modules = [3; 4; 5], module 6 unowned, module 7
   owned by IR 2.  insert(1, first) and insert(0, first) leave the list as it is; insert(2, first) = [second; first; third] (the
   index counts the list as it is before the call: list.insert gives [3; 4; 3; 5], the old copy goes); insert(3, first) and
   insert(99, first) move it to the end; insert(0, last) to the front; negative indexes count from the end of the unshortened list;
   a fresh module is inserted as the built-in does; a module of IR 2 leaves IR 2; owners of the members do not change *)
Example C16_modlist_insert_member_example :
  let h := [ONew 1 KIR 101 None 0 0 0 PNone; ONew 2 KIR 102 None 0 0 0 PNone; ONew 3 KMod 103 None 0 0 0 PNone;
            ONew 4 KMod 104 None 0 0 0 PNone; ONew 5 KMod 105 None 0 0 0 PNone; ONew 6 KMod 106 None 0 0 0 PNone;
            ONew 7 KMod 107 None 0 0 0 PNone; OModExtend 1 [3; 4; 5]; OModAppend 2 7] in
  let w := fst (run_guarded w0 [] h) in
  let known := snd (run_guarded w0 [] h) in
  let after o := let w' := step' w o in (kids w' 1, kids w' 2, map (par w') [3; 4; 5; 6; 7]) in
  let outcome o := (op_okb w known o, match step w o with Ok _ => None | Err e => Some e end) in
  reachable_k w known /\ after (OTouch 1) = ([3; 4; 5], [7], [Some 1; Some 1; Some 1; None; Some 2]) /\
  (In 3 (kids w 1) /\ index_of 3 (kids w 1) = Some 0%nat /\ index_of 5 (kids w 1) = Some 2%nat) /\
  map outcome [OModInsert 1 1 3; OModInsert 1 2 3; OModInsert 1 0 5; OModInsert 1 1 6; OModInsert 1 1 7] =
    [(true, None); (true, None); (true, None); (true, None); (true, None)] /\
  after (OModInsert 1 0 3) = after (OTouch 1) /\ after (OModInsert 1 1 3) = after (OTouch 1) /\
  after (OModInsert 1 2 3) = ([4; 3; 5], [7], [Some 1; Some 1; Some 1; None; Some 2]) /\
  after (OModInsert 1 3 3) = ([4; 5; 3], [7], [Some 1; Some 1; Some 1; None; Some 2]) /\
  after (OModInsert 1 99 3) = ([4; 5; 3], [7], [Some 1; Some 1; Some 1; None; Some 2]) /\
  after (OModInsert 1 0 5) = ([5; 3; 4], [7], [Some 1; Some 1; Some 1; None; Some 2]) /\
  after (OModInsert 1 1 5) = ([3; 5; 4], [7], [Some 1; Some 1; Some 1; None; Some 2]) /\
  after (OModInsert 1 (-1) 3) = ([4; 3; 5], [7], [Some 1; Some 1; Some 1; None; Some 2]) /\
  after (OModInsert 1 (-2) 5) = ([3; 5; 4], [7], [Some 1; Some 1; Some 1; None; Some 2]) /\
  after (OModInsert 1 (-99) 4) = ([4; 3; 5], [7], [Some 1; Some 1; Some 1; None; Some 2]) /\
  after (OModInsert 1 1 6) = ([3; 6; 4; 5], [7], [Some 1; Some 1; Some 1; Some 1; Some 2]) /\
  after (OModInsert 1 1 7) = ([3; 7; 4; 5], [], [Some 1; Some 1; Some 1; None; Some 1]) /\
  after (OModAppend 1 3) = ([4; 5; 3], [7], [Some 1; Some 1; Some 1; None; Some 2]) /\
  (assign_slice [3; 4; 5] 2 2 [3], insert_at 2 3 [3; 4; 5]) = ([4; 3; 5], [3; 4; 3; 5]).
Proof.
  cbv zeta. split.
  - eexists. symmetry. apply surjective_pairing.
  - vm_compute. repeat split. left. reflexivity.
Qed.

(* An observation, not a defect: a list that never holds an element twice cannot support the swap idiom
   `L[i], L[j] = L[j], L[i]` (nor random.shuffle, which is made of such swaps).  The first assignment MOVES the member and the
   replaced element leaves, so the list is one shorter -- consistently: the leaver has no owner -- and the second assignment
   finds its index out of range.  One slice assignment of a permutation reorders the list: nothing leaves, nothing enters. *)
Example C16_swap_idiom_observation :
  let h := [ONew 1 KIR 101 None 0 0 0 PNone; ONew 3 KMod 103 None 0 0 0 PNone; ONew 4 KMod 104 None 0 0 0 PNone;
            ONew 5 KMod 105 None 0 0 0 PNone; OModExtend 1 [3; 4; 5]] in
  let w := fst (run_guarded w0 [] h) in
  let known := snd (run_guarded w0 [] h) in
  let w1 := step' w (OModSetItem 1 0 5) in
  reachable_k w known /\ kids w 1 = [3; 4; 5] /\
  op_okb w known (OModSetItem 1 0 5) = true /\ kids w1 1 = [5; 4] /\ map (par w1) [3; 4; 5] = [None; Some 1; Some 1] /\
  op_okb w1 known (OModSetItem 1 2 3) = true /\ step w1 (OModSetItem 1 2 3) = Err EIndex /\
  (let w2 := step' w (OModSetSlice 1 None None [5; 4; 3]) in
   kids w2 1 = [5; 4; 3] /\ map (par w2) [3; 4; 5] = [Some 1; Some 1; Some 1]) /\
  (let w3 := step' w (OModSetExt 1 None None (-1) [3; 4; 5]) in kids w3 1 = [5; 4; 3]).
Proof.
  cbv zeta. split.
  - eexists. symmetry. apply surjective_pairing.
  - vm_compute. repeat split; reflexivity.
Qed.

(* ================= del ir.modules[a:b:c]: deletion of an extended slice (Model/DelExt.v) ================= *)
From V Require DelExtProofs.
From V Require Import DelExt.

(* del l[a:b:c], c <> 0: the list keeps exactly the elements whose position the range of slice(a,b,c).indices(len) does not
   enumerate, in their order (what the built-in list does); the deleted modules lose their owner and nothing else changes;
   the state afterwards (and, by the construction of ml_delext, every state in between) is a reachable one *)
Theorem C16_modlist_delslice_extended : forall w known ir a b c s e st, reachable_k w known -> is_k w ir KIR = true ->
  py_slice_indices a b c (length (kids w ir)) = Ok (s, e, st) ->
  let ps := py_range_positions s e st (length (kids w ir)) in
  let victims := gather (kids w ir) ps in
  exists w', ml_delext w ir a b c = Ok w' /\
    kids w' ir = drop_positions (kids w ir) ps 0 /\
    (forall x, x <> ir -> kids w' x = kids w x) /\
    (forall x, nodes w' x = if mem x victims then Some (with_par (getn w x) None) else nodes w x) /\
    (forall x, In x victims -> par w' x = None) /\
    reachable_k w' known.
Proof. intros w known ir a b c s e st. exact (DelExtProofs.delext_effect w known ir a b c s e st). Qed.

(* the same by membership: the members afterwards are the members of before that were not selected, none twice, and as
   many fewer as positions were selected *)
Theorem C16_modlist_delslice_extended_members : forall w known ir a b c s e st, reachable_k w known -> is_k w ir KIR = true ->
  py_slice_indices a b c (length (kids w ir)) = Ok (s, e, st) ->
  let ps := py_range_positions s e st (length (kids w ir)) in
  let victims := gather (kids w ir) ps in
  exists w', ml_delext w ir a b c = Ok w' /\
    (forall x, In x (kids w' ir) <-> In x (kids w ir) /\ ~ In x victims) /\
    NoDup (kids w' ir) /\
    length (kids w' ir) = (length (kids w ir) - length ps)%nat.
Proof. intros w known ir a b c s e st. exact (DelExtProofs.delext_effect_members w known ir a b c s e st). Qed.

(* drop_positions is the built-in result: the elements at the positions not selected; and it is what deleting the
   positions one at a time from the highest down leaves *)
Theorem C16_modlist_delslice_extended_list : forall (l : list id) ps,
  (forall x, In x (drop_positions l ps 0) <-> exists q, nth_error l q = Some x /\ ~ In q ps) /\
  drop_positions l ps 0 = drop_positions l (rev ps) 0 /\
  (StronglySorted gt ps -> Forall (fun p => (p < length l)%nat) ps ->
   fold_left (fun acc p => remove_at p acc) ps l = drop_positions l ps 0).
Proof.
  intros l ps. split; [intro x; apply DelExtProofs.drop_positions_In0|]. split; [apply DelExtProofs.drop_positions_rev|].
  intros S F. exact (DelExtProofs.remove_all_drop_positions l ps (conj S F)).
Qed.

(* step 0: ValueError (slice step cannot be zero), nothing touched *)
Theorem C16_modlist_delslice_extended_step_zero : forall w ir a b, ml_delext w ir a b 0 = Err EValue.
Proof. intros w ir a b. exact (DelExtProofs.delext_zero_step w ir a b). Qed.

(* step 1: the plain slice, the statement of C16_modlist_delslice *)
Theorem C16_modlist_delslice_extended_step_one : forall w known ir a b, reachable_k w known -> is_k w ir KIR = true ->
  let l := kids w ir in
  let lo := norm_bound a 0 (length l) in
  let hi := Z.max lo (norm_bound b (Z.of_nat (length l)) (length l)) in
  let victims := ModListProofs.slice_victims l lo hi in
  exists w', ml_delext w ir a b 1 = Ok w' /\
    kids w' ir = firstn (Z.to_nat lo) l ++ skipn (Z.to_nat hi) l /\
    (forall x, x <> ir -> kids w' x = kids w x) /\
    (forall x, nodes w' x = if mem x victims then Some (with_par (getn w x) None) else nodes w x) /\
    (forall x, In x victims -> par w' x = None) /\
    reachable_k w' known.
Proof. intros w known ir a b. exact (DelExtProofs.delext_step_one w known ir a b). Qed.

(* del l[::-1] empties the list *)
Theorem C16_modlist_delslice_extended_reverse_all : forall w known ir, reachable_k w known -> is_k w ir KIR = true ->
  exists w', ml_delext w ir None None (-1) = Ok w' /\
    kids w' ir = [] /\
    (forall x, x <> ir -> kids w' x = kids w x) /\
    (forall x, nodes w' x = if mem x (kids w ir) then Some (with_par (getn w x) None) else nodes w x) /\
    (forall x, In x (kids w ir) -> par w' x = None) /\
    reachable_k w' known.
Proof. intros w known ir. exact (DelExtProofs.delext_reverse_all w known ir). Qed.

(* non-vacuity: IR 1 with ir.modules = [3; 4; 5; 6; 7].  del l[::-2] (positions 4, 2, 0) leaves [4; 6]; del l[3:0:-1]
   (positions 3, 2, 1) leaves [3; 7]; del l[::2] (positions 0, 2, 4) leaves [4; 6]; the deleted modules have no owner, the
   others keep theirs; del l[::-1] empties the list; del l[5:] and del l[1:1:-1] delete nothing; step 0 is a ValueError *)
Example C16_modlist_delslice_extended_example :
  let h := [ONew 1 KIR 101 None 0 0 0 PNone; ONew 3 KMod 103 None 0 0 0 PNone; ONew 4 KMod 104 None 0 0 0 PNone;
            ONew 5 KMod 105 None 0 0 0 PNone; ONew 6 KMod 106 None 0 0 0 PNone; ONew 7 KMod 107 None 0 0 0 PNone;
            OModExtend 1 [3; 4; 5; 6; 7]] in
  let w := fst (run_guarded w0 [] h) in
  let known := snd (run_guarded w0 [] h) in
  let after a b c := match ml_delext w 1 a b c with
                     | Ok w' => Some (kids w' 1, map (par w') [3; 4; 5; 6; 7])
                     | Err _ => None
                     end in
  reachable_k w known /\ is_k w 1 KIR = true /\ kids w 1 = [3; 4; 5; 6; 7] /\
  map (par w) [3; 4; 5; 6; 7] = [Some 1; Some 1; Some 1; Some 1; Some 1] /\
  (py_slice_indices None None (-2) 5 = Ok (4, -1, -2) /\ py_range_positions 4 (-1) (-2) 5 = [4; 2; 0]%nat /\
   py_slice_indices (Some 3) (Some 0) (-1) 5 = Ok (3, 0, -1) /\ py_range_positions 3 0 (-1) 5 = [3; 2; 1]%nat /\
   py_slice_indices None None 2 5 = Ok (0, 5, 2) /\ py_range_positions 0 5 2 5 = [0; 2; 4]%nat) /\
  after None None (-2) = Some ([4; 6], [None; Some 1; None; Some 1; None]) /\
  after (Some 3) (Some 0) (-1) = Some ([3; 7], [Some 1; None; None; None; Some 1]) /\
  after None None 2 = Some ([4; 6], [None; Some 1; None; Some 1; None]) /\
  drop_positions [3; 4; 5; 6; 7] [0; 2; 4]%nat 0 = [4; 6] /\
  after None None (-1) = Some ([], [None; None; None; None; None]) /\
  after (Some 1) (Some (-1)) 1 = Some ([3; 7], [Some 1; None; None; None; Some 1]) /\
  after (Some 5) None 1 = Some ([3; 4; 5; 6; 7], [Some 1; Some 1; Some 1; Some 1; Some 1]) /\
  after (Some 1) (Some 1) (-1) = Some ([3; 4; 5; 6; 7], [Some 1; Some 1; Some 1; Some 1; Some 1]) /\
  ml_delext w 1 None None 0 = Err EValue.
Proof.
  cbv zeta. split.
  - eexists. symmetry. apply surjective_pairing.
  - vm_compute. repeat split.
Qed.

Print Assumptions C16_set_add.
Print Assumptions C16_set_discard.
Print Assumptions C16_set_remove.
Print Assumptions C16_set_pop.
Print Assumptions C16_set_clear.
Print Assumptions C16_set_update.
Print Assumptions C16_set_ior.
Print Assumptions C16_set_iand.
Print Assumptions C16_set_isub.
Print Assumptions C16_set_ixor.
Print Assumptions C16_set_update_all_of_another.
Print Assumptions C16_set_operators.
Print Assumptions C16_set_comparisons.
Print Assumptions C16_set_algebra_example.
Print Assumptions C16_modlist_append.
Print Assumptions C16_modlist_insert.
Print Assumptions C16_modlist_insert_member_moves.
Print Assumptions C16_modlist_insert_list.
Print Assumptions C16_modlist_extend.
Print Assumptions C16_modlist_extend_all_of_another.
Print Assumptions C16_modlist_extend_self.
Print Assumptions C16_modlist_index_checked_first.
Print Assumptions C16_modlist_remove.
Print Assumptions C16_modlist_pop_delitem.
Print Assumptions C16_modlist_delslice.
Print Assumptions C16_modlist_setitem.
Print Assumptions C16_modlist_setitem_index_error.
Print Assumptions C16_modlist_setslice.
Print Assumptions C16_modlist_setslice_extended.
Print Assumptions C16_modlist_setslice_extended_exact.
Print Assumptions C16_same_list_assignment_moves.
Print Assumptions C16_same_list_setitem_position.
Print Assumptions C16_modlist_clear.
Print Assumptions C16_modlist_reverse.
Print Assumptions C16_modlist_index.
Print Assumptions C16_modlist_count_contains.
Print Assumptions C16_modlist_getitem.
Print Assumptions C16_modlist_getslice.
Print Assumptions C16_modlist_slice_bounds.
Print Assumptions C16_modlist_getslice_plain.
Print Assumptions C16_modlist_readonly_example.
Print Assumptions C16_symx_iteration_sorted.
Print Assumptions C16_symx_setitem.
Print Assumptions C16_symx_del_pop.
Print Assumptions C16_symx_popitem.
Print Assumptions C16_symx_setdefault.
Print Assumptions C16_symx_update.
Print Assumptions C16_symx_clear.
Print Assumptions C16_symx_assign.
Print Assumptions C16_symx_frame.
Print Assumptions C16_moved_not_duplicated.
Print Assumptions C16_remove_id_keeps_order.
Print Assumptions C16_failed_op_leaves_state.
Print Assumptions C16_keyerror_exactly_builtin.
Print Assumptions C16_example.
Print Assumptions C16_same_list_assignment_example.
Print Assumptions C16_modlist_setslice_extended_example.
Print Assumptions C16_modlist_insert_member_example.
Print Assumptions C16_swap_idiom_observation.
Print Assumptions C16_modlist_delslice_extended.
Print Assumptions C16_modlist_delslice_extended_members.
Print Assumptions C16_modlist_delslice_extended_list.
Print Assumptions C16_modlist_delslice_extended_step_zero.
Print Assumptions C16_modlist_delslice_extended_step_one.
Print Assumptions C16_modlist_delslice_extended_reverse_all.
Print Assumptions C16_modlist_delslice_extended_example.
