(* C16 -- the owning collections behave like the built-in list, set and dict: ir.modules the mutable-sequence
   interface, the node sets (sections, symbols, proxies, byte_intervals, blocks) the mutable-set interface,
   symbolic_expressions the mutable-mapping interface -- resulting contents and exception types of the built-in
   operation on the same elements (module order = list order, node sets unordered, symbolic expressions by offset),
   except that a node inserted while owned elsewhere is moved rather than duplicated; a failed operation leaves the
   collection and its elements consistent.
   Model: Model/World.v (do_set and the ten set methods over set_add / set_discard / blocks_update; the IR module list
   ml_insert / ml_append / ml_remove / ml_del_at and the slice operations of `step`; the sorted map sd_set / dict_del),
   Model/WorldGuard.v.  field w p fk = the members of one field of owner p (its children of the field's kinds).
   Only property theorems here; proofs in Proofs/SetOpsProofs.v, ModListProofs.v, SymxProofs.v, WorldInv.v,
   WorldProps.v.
   Known finding (recorded as D4, refused by the model with Err EImpossible): item / slice assignment of a module that
   stays elsewhere in the same list, or of a list with repetitions -- see C16_same_list_assignment_refused. *)
From Coq Require Import ZArith List Bool.
From V Require Import Result LazyTree World WorldGuard WorldRun ForestDefs InvDefs WorldInv WorldProps.
From V Require SetOpsProofs ModListProofs SymxProofs.
Import ListNotations.
Open Scope Z_scope.

(* ================= node sets: the ten methods of the mutable-set interface ================= *)

Theorem C16_set_add : forall w known p fk c, reachable_k w known -> op_okb w known (OSet p fk SAdd [[c]]) = true ->
  exists w', step w (OSet p fk SAdd [[c]]) = Ok w' /\
             forall x, In x (field w' p fk) <-> In x (field w p fk) \/ x = c.
Proof.
  intros w known p fk c R G.
  destruct (SetOpsProofs.oset_add_effect w known p fk c (reach_forest w known R) (reach_cache w known R) G) as (w' & E & _ & M).
  exists w'. exact (conj E M).
Qed.

Theorem C16_set_discard : forall w known p fk c, reachable_k w known -> op_okb w known (OSet p fk SDiscard [[c]]) = true ->
  exists w', step w (OSet p fk SDiscard [[c]]) = Ok w' /\
             forall x, In x (field w' p fk) <-> In x (field w p fk) /\ x <> c.
Proof.
  intros w known p fk c R G.
  destruct (SetOpsProofs.oset_discard_effect w known p fk c (reach_forest w known R) (reach_cache w known R) G) as (w' & E & _ & M).
  exists w'. exact (conj E M).
Qed.

(* remove: KeyError exactly for a non-member *)
Theorem C16_set_remove : forall w known p fk c, reachable_k w known -> op_okb w known (OSet p fk SRemove [[c]]) = true ->
  (~ In c (field w p fk) -> step w (OSet p fk SRemove [[c]]) = Err EKey) /\
  (In c (field w p fk) ->
   exists w', step w (OSet p fk SRemove [[c]]) = Ok w' /\
              forall x, In x (field w' p fk) <-> In x (field w p fk) /\ x <> c).
Proof.
  intros w known p fk c R G.
  destruct (SetOpsProofs.oset_remove_effect w known p fk c (reach_forest w known R) (reach_cache w known R) G) as [A B].
  split; [intros H; apply A, SetOpsBase.mem_false, H|].
  intros H. destruct (B (proj2 (SetOpsBase.mem_In _ _) H)) as (w' & E & _ & M). exists w'. exact (conj E M).
Qed.

(* pop: KeyError exactly on the empty set; otherwise the chosen member c (args = [[c]]) is removed *)
Theorem C16_set_pop : forall w known p fk args, reachable_k w known -> op_okb w known (OSet p fk SPop args) = true ->
  (step w (OSet p fk SPop args) = Err EKey <-> field w p fk = []) /\
  (forall c, args = [[c]] -> In c (field w p fk) ->
   exists w', step w (OSet p fk SPop args) = Ok w' /\
              forall x, In x (field w' p fk) <-> In x (field w p fk) /\ x <> c).
Proof.
  intros w known p fk args R G.
  destruct (SetOpsProofs.oset_pop_effect w known p fk args (reach_forest w known R) (reach_cache w known R) G) as [A B].
  split; [exact A|]. intros c Ha H.
  destruct (B c Ha (proj2 (SetOpsBase.mem_In _ _) H)) as (w' & E & _ & M). exists w'. exact (conj E M).
Qed.

Theorem C16_set_clear : forall w known p fk args, reachable_k w known -> op_okb w known (OSet p fk SClear args) = true ->
  exists w', step w (OSet p fk SClear args) = Ok w' /\ field w' p fk = [].
Proof.
  intros w known p fk args R G.
  destruct (SetOpsProofs.oset_clear_effect w known p fk args (reach_forest w known R) (reach_cache w known R) G) as (w' & E & _ & M).
  exists w'. exact (conj E M).
Qed.

(* update(it1, it2, ...) *)
Theorem C16_set_update : forall w known p fk args, reachable_k w known -> op_okb w known (OSet p fk SUpdate args) = true ->
  exists w', step w (OSet p fk SUpdate args) = Ok w' /\
             forall x, In x (field w' p fk) <-> In x (field w p fk) \/ In x (concat args).
Proof.
  intros w known p fk args R G.
  destruct (SetOpsProofs.oset_update_effect w known p fk args (reach_forest w known R) (reach_cache w known R) G) as (w' & E & _ & M).
  exists w'. exact (conj E M).
Qed.

Theorem C16_set_ior : forall w known p fk a, reachable_k w known -> op_okb w known (OSet p fk SIor [a]) = true ->
  exists w', step w (OSet p fk SIor [a]) = Ok w' /\
             forall x, In x (field w' p fk) <-> In x (field w p fk) \/ In x a.
Proof.
  intros w known p fk a R G.
  destruct (SetOpsProofs.oset_ior_effect w known p fk a (reach_forest w known R) (reach_cache w known R) G) as (w' & E & _ & M).
  exists w'. exact (conj E M).
Qed.

Theorem C16_set_iand : forall w known p fk a, reachable_k w known -> op_okb w known (OSet p fk SIand [a]) = true ->
  exists w', step w (OSet p fk SIand [a]) = Ok w' /\
             forall x, In x (field w' p fk) <-> In x (field w p fk) /\ In x a.
Proof.
  intros w known p fk a R G.
  destruct (SetOpsProofs.oset_iand_effect w known p fk a (reach_forest w known R) (reach_cache w known R) G) as (w' & E & _ & M).
  exists w'. exact (conj E M).
Qed.

Theorem C16_set_isub : forall w known p fk a, reachable_k w known -> op_okb w known (OSet p fk SIsub [a]) = true ->
  exists w', step w (OSet p fk SIsub [a]) = Ok w' /\
             forall x, In x (field w' p fk) <-> In x (field w p fk) /\ ~ In x a.
Proof.
  intros w known p fk a R G.
  destruct (SetOpsProofs.oset_isub_effect w known p fk a (reach_forest w known R) (reach_cache w known R) G) as (w' & E & _ & M).
  exists w'. exact (conj E M).
Qed.

Theorem C16_set_ixor : forall w known p fk a, reachable_k w known -> op_okb w known (OSet p fk SIxor [a]) = true ->
  exists w', step w (OSet p fk SIxor [a]) = Ok w' /\
             forall x, In x (field w' p fk) <-> (In x (field w p fk) /\ ~ In x a) \/ (~ In x (field w p fk) /\ In x a).
Proof.
  intros w known p fk a R G.
  destruct (SetOpsProofs.oset_ixor_effect w known p fk a (reach_forest w known R) (reach_cache w known R) G) as (w' & E & _ & M).
  exists w'. exact (conj E M).
Qed.

(* ================= ir.modules: the mutable-sequence interface =================
   every effect is the list operation applied to the list from which a moved module was first removed *)

Theorem C16_modlist_append : forall w known ir v, reachable_k w known -> op_okb w known (OModAppend ir v) = true ->
  exists w', step w (OModAppend ir v) = Ok w' /\
    kids w' ir = remove_id v (kids w ir) ++ [v] /\
    (forall x, x <> ir -> kids w' x = remove_id v (kids w x)) /\
    (forall x, nodes w' x = if x =? v then Some (with_par (getn w v) (Some ir)) else nodes w x) /\
    par w' v = Some ir.
Proof.
  intros w known ir v R. exact (ModListProofs.append_effect w known ir v (reach_forest w known R) (reach_cache w known R)).
Qed.

(* insert(i, v): i clamped into [0, len] as list.insert does *)
Theorem C16_modlist_insert : forall w known ir i v, reachable_k w known -> op_okb w known (OModInsert ir i v) = true ->
  let l := remove_id v (kids w ir) in
  exists w', step w (OModInsert ir i v) = Ok w' /\
    kids w' ir = insert_at (clamp_insert i (length l)) v l /\
    (forall x, x <> ir -> kids w' x = remove_id v (kids w x)) /\
    (forall x, nodes w' x = if x =? v then Some (with_par (getn w v) (Some ir)) else nodes w x) /\
    par w' v = Some ir.
Proof.
  intros w known ir i v R. exact (ModListProofs.insert_effect w known ir i v (reach_forest w known R) (reach_cache w known R)).
Qed.

(* extend(vs) / += : append one after the other; for fresh distinct modules this is l ++ vs *)
Theorem C16_modlist_extend : forall w known ir vs, reachable_k w known -> op_okb w known (OModExtend ir vs) = true ->
  exists w', step w (OModExtend ir vs) = Ok w' /\
    kids w' ir = fold_left (fun l v => remove_id v l ++ [v]) vs (kids w ir) /\
    (NoDup vs -> (forall v, In v vs -> ~ In v (kids w ir)) -> kids w' ir = kids w ir ++ vs) /\
    (forall x, x <> ir -> kids w' x = fold_left (fun l v => remove_id v l) vs (kids w x)) /\
    (forall x, nodes w' x = if mem x vs then Some (with_par (getn w x) (Some ir)) else nodes w x).
Proof.
  intros w known ir vs R. exact (ModListProofs.extend_effect w known ir vs (reach_forest w known R) (reach_cache w known R)).
Qed.

(* remove(v): ValueError exactly when v is not in the list *)
Theorem C16_modlist_remove : forall w known ir v, reachable_k w known -> op_okb w known (OModRemove ir v) = true ->
  (~ In v (kids w ir) -> step w (OModRemove ir v) = Err EValue) /\
  (In v (kids w ir) ->
   exists i w', index_of v (kids w ir) = Some i /\ step w (OModRemove ir v) = Ok w' /\
     kids w' ir = remove_at i (kids w ir) /\ kids w' ir = remove_id v (kids w ir) /\
     (forall x, x <> ir -> kids w' x = kids w x) /\
     (forall x, nodes w' x = if x =? v then Some (with_par (getn w v) None) else nodes w x) /\
     par w' v = None).
Proof. intros w known ir v R. exact (op_remove_effect w known ir v (invall_reachable w known R)). Qed.

(* pop(i) / del l[i]: IndexError exactly when i is out of range after Python's index normalisation; pop returns v *)
Theorem C16_modlist_pop_delitem : forall w known ir i o, reachable_k w known ->
  o = OModPop ir i \/ o = OModDelItem ir i -> op_okb w known o = true ->
  match norm_index i (length (kids w ir)) with
  | None => step w o = Err EIndex
  | Some k =>
    exists v w', nth_error (kids w ir) k = Some v /\ step w o = Ok w' /\
      kids w' ir = remove_at k (kids w ir) /\
      (forall x, x <> ir -> kids w' x = kids w x) /\
      (forall x, nodes w' x = if x =? v then Some (with_par (getn w v) None) else nodes w x) /\
      par w' v = None
  end.
Proof. intros w known ir i o R. exact (op_del_effect w known ir i o (invall_reachable w known R)). Qed.

(* del l[a:b] with slice.indices clamping *)
Theorem C16_modlist_delslice : forall w known ir a b, reachable_k w known -> op_okb w known (OModDelSlice ir a b) = true ->
  let l := kids w ir in
  let lo := norm_bound a 0 (length l) in
  let hi := Z.max lo (norm_bound b (Z.of_nat (length l)) (length l)) in
  let victims := ModListProofs.slice_victims l lo hi in
  exists w', step w (OModDelSlice ir a b) = Ok w' /\
    kids w' ir = firstn (Z.to_nat lo) l ++ skipn (Z.to_nat hi) l /\
    (forall x, x <> ir -> kids w' x = kids w x) /\
    (forall x, nodes w' x = if mem x victims then Some (with_par (getn w x) None) else nodes w x) /\
    (forall x, In x victims -> par w' x = None) /\
    (forall x, x <> ir -> cache w' x = cache w x).
Proof.
  intros w known ir a b R. exact (ModListProofs.delslice_effect w known ir a b (reach_forest w known R) (reach_cache w known R)).
Qed.

(* l[i] = v for v not elsewhere in this list *)
Theorem C16_modlist_setitem : forall w known ir i v k old, reachable_k w known -> op_okb w known (OModSetItem ir i v) = true ->
  norm_index i (length (kids w ir)) = Some k -> nth_error (kids w ir) k = Some old ->
  (~ In v (kids w ir) \/ v = old) ->
  exists w', step w (OModSetItem ir i v) = Ok w' /\
    kids w' ir = set_at k v (kids w ir) /\
    (forall x, x <> ir -> kids w' x = remove_id v (kids w x)) /\
    (forall x, nodes w' x = if x =? v then Some (with_par (getn w v) (Some ir))
                            else if x =? old then Some (with_par (getn w old) None) else nodes w x) /\
    par w' v = Some ir /\ (v <> old -> par w' old = None).
Proof.
  intros w known ir i v k old R.
  exact (ModListProofs.setitem_effect w known ir i v k old (reach_forest w known R) (reach_cache w known R)).
Qed.

Theorem C16_modlist_setitem_index_error : forall w ir i v,
  norm_index i (length (kids w ir)) = None -> step w (OModSetItem ir i v) = Err EIndex.
Proof. exact ModListProofs.setitem_effect_index. Qed.

(* l[a:b] = vs for distinct vs none of which stays elsewhere in this list *)
Theorem C16_modlist_setslice : forall w known ir a b vs, reachable_k w known -> op_okb w known (OModSetSlice ir a b vs) = true ->
  let l := kids w ir in
  let lo := norm_bound a 0 (length l) in
  let hi := Z.max lo (norm_bound b (Z.of_nat (length l)) (length l)) in
  let pre := firstn (Z.to_nat lo) l in
  let victims := ModListProofs.slice_victims l lo hi in
  let post := skipn (Z.to_nat hi) l in
  NoDup vs -> (forall v, In v vs -> ~ In v pre /\ ~ In v post) ->
  exists w', step w (OModSetSlice ir a b vs) = Ok w' /\
    kids w' ir = pre ++ vs ++ post /\
    (forall x, x <> ir -> kids w' x = fold_left (fun l v => remove_id v l) vs (kids w x)) /\
    (forall x, nodes w' x = if mem x vs then Some (with_par (getn w x) (Some ir))
                            else if mem x victims then Some (with_par (getn w x) None) else nodes w x).
Proof.
  intros w known ir a b vs R.
  exact (ModListProofs.setslice_effect w known ir a b vs (reach_forest w known R) (reach_cache w known R)).
Qed.

(* the known finding: the same-list shapes are refused by the model (the implementation corrupts the list there) *)
Theorem C16_same_list_assignment_refused :
  (forall w ir i v k old, norm_index i (length (kids w ir)) = Some k -> nth_error (kids w ir) k = Some old ->
     In v (kids w ir) -> v <> old -> step w (OModSetItem ir i v) = Err EImpossible) /\
  (forall w ir a b vs,
     let l := kids w ir in
     let lo := norm_bound a 0 (length l) in
     let hi := Z.max lo (norm_bound b (Z.of_nat (length l)) (length l)) in
     (exists v, In v vs /\ (In v (firstn (Z.to_nat lo) l) \/ In v (skipn (Z.to_nat hi) l))) \/ ~ NoDup vs ->
     step w (OModSetSlice ir a b vs) = Err EImpossible).
Proof. exact (conj ModListProofs.setitem_effect_refused ModListProofs.setslice_effect_refused). Qed.

Theorem C16_modlist_clear : forall w known ir, reachable_k w known -> op_okb w known (OModClear ir) = true ->
  exists w', step w (OModClear ir) = Ok w' /\
    kids w' ir = [] /\
    (forall x, x <> ir -> kids w' x = kids w x) /\
    (forall x, nodes w' x = if mem x (kids w ir) then Some (with_par (getn w x) None) else nodes w x) /\
    (forall x, In x (kids w ir) -> par w' x = None) /\
    (forall x, x <> ir -> cache w' x = cache w x).
Proof.
  intros w known ir R. exact (ModListProofs.clear_effect w known ir (reach_forest w known R) (reach_cache w known R)).
Qed.

Theorem C16_modlist_reverse : forall w ir,
  exists w', step w (OModReverse ir) = Ok w' /\ kids w' ir = rev (kids w ir) /\
    (forall x, x <> ir -> kids w' x = kids w x) /\ (forall x, nodes w' x = nodes w x) /\ (forall x, cache w' x = cache w x).
Proof. exact ModListProofs.reverse_effect. Qed.

(* ================= symbolic_expressions: the mutable-mapping interface ================= *)

(* iteration is by ascending offset, one entry per offset *)
Theorem C16_symx_iteration_sorted : forall w known bi, reachable_k w known -> strictly_ascending (map fst (symx w bi)).
Proof. intros w known bi R. exact (reach_sorted w known R bi). Qed.

Theorem C16_symx_setitem : forall w bi k e,
  let o := OSymxSet bi k e in
  step w o = Ok (step' w o) /\
  dict_get Z.eqb k (symx (step' w o) bi) = Some e /\
  (forall k', k' <> k -> dict_get Z.eqb k' (symx (step' w o) bi) = dict_get Z.eqb k' (symx w bi)).
Proof. exact SymxProofs.symx_set_spec. Qed.

(* del d[k] / d.pop(k): KeyError exactly for a missing key *)
Theorem C16_symx_del_pop : forall w bi k o, o = OSymxDel bi k \/ o = OSymxPop bi k ->
  (dict_get Z.eqb k (symx w bi) = None -> step w o = Err EKey /\ step' w o = w) /\
  (dict_get Z.eqb k (symx w bi) <> None ->
     step w o = Ok (step' w o) /\
     dict_get Z.eqb k (symx (step' w o) bi) = None /\
     (forall k', k' <> k -> dict_get Z.eqb k' (symx (step' w o) bi) = dict_get Z.eqb k' (symx w bi))).
Proof. exact SymxProofs.symx_del_spec. Qed.

(* popitem: KeyError on the empty map, else the entry with the smallest offset (next(iter(d))) *)
Theorem C16_symx_popitem : forall w known bi, reachable_k w known ->
  let o := OSymxPopitem bi in
  match symx w bi with
  | [] => step w o = Err EKey /\ step' w o = w
  | (k0, e0) :: d =>
      step w o = Ok (step' w o) /\
      symx (step' w o) bi = d /\
      (forall k, dict_get Z.eqb k (symx w bi) <> None -> k0 <= k) /\
      dict_get Z.eqb k0 (symx (step' w o) bi) = None /\
      (forall k, k <> k0 -> dict_get Z.eqb k (symx (step' w o) bi) = dict_get Z.eqb k (symx w bi))
  end.
Proof. intros w known bi R. exact (SymxProofs.symx_popitem_spec w bi (reach_sorted w known R bi)). Qed.

Theorem C16_symx_setdefault : forall w bi k e,
  let o := OSymxSetdefault bi k e in
  step w o = Ok (step' w o) /\
  (dict_get Z.eqb k (symx w bi) <> None -> step' w o = w) /\
  (dict_get Z.eqb k (symx w bi) = None ->
     dict_get Z.eqb k (symx (step' w o) bi) = Some e /\
     (forall k', k' <> k -> dict_get Z.eqb k' (symx (step' w o) bi) = dict_get Z.eqb k' (symx w bi))).
Proof. exact SymxProofs.symx_setdefault_spec. Qed.

(* update(pairs): later pairs win *)
Theorem C16_symx_update : forall w bi kvs,
  let o := OSymxUpdate bi kvs in
  step w o = Ok (step' w o) /\
  forall k, dict_get Z.eqb k (symx (step' w o) bi) =
            match dict_get Z.eqb k (rev kvs) with Some e => Some e | None => dict_get Z.eqb k (symx w bi) end.
Proof. exact SymxProofs.symx_update_spec. Qed.

Theorem C16_symx_clear : forall w bi,
  let o := OSymxClear bi in step w o = Ok (step' w o) /\ symx (step' w o) bi = [].
Proof. exact SymxProofs.symx_clear_spec. Qed.

(* bi.symbolic_expressions = mapping : clear, then update *)
Theorem C16_symx_assign : forall w bi kvs,
  let o := OSymxAssign bi kvs in
  step w o = Ok (step' w o) /\
  (forall k, dict_get Z.eqb k (symx (step' w o) bi) = dict_get Z.eqb k (rev kvs)) /\
  symx (step' w o) bi = symx (step' (step' w (OSymxClear bi)) (OSymxUpdate bi kvs)) bi.
Proof. exact SymxProofs.symx_assign_spec. Qed.

(* a mapping operation touches only that interval's map *)
Theorem C16_symx_frame : forall w o bi, SymxProofs.symx_target o = Some bi ->
  (forall n, nodes (step' w o) n = nodes w n) /\ (forall n, kids (step' w o) n = kids w n) /\
  (forall n, cache (step' w o) n = cache w n) /\ (forall n, nix (step' w o) n = nix w n) /\
  (forall n, rix (step' w o) n = rix w n) /\ (forall n, tree (step' w o) n = tree w n) /\
  (forall b, b <> bi -> symx (step' w o) b = symx w b).
Proof. exact SymxProofs.symx_op_frame. Qed.

(* ================= moved, not duplicated; failures ================= *)

(* after any guarded operation: no collection holds a node twice, no node sits in two collections, and the
   collections agree with the parent attributes (the relative order of the other elements is kept: every effect
   above is stated with remove_id = filter) *)
Theorem C16_moved_not_duplicated : forall w known o, reachable_k w known -> op_okb w known o = true ->
  (forall p, NoDup (kids (step' w o) p)) /\
  (forall c p q, In c (kids (step' w o) p) -> In c (kids (step' w o) q) -> p = q) /\
  (forall p c, In c (kids (step' w o) p) <-> par (step' w o) c = Some p).
Proof. intros w known o R. exact (moved_not_duplicated w known o (invall_reachable w known R)). Qed.

Theorem C16_remove_id_keeps_order : forall v l, remove_id v l = filter (fun y => negb (y =? v)) l.
Proof. exact remove_id_order. Qed.

(* a failed operation leaves the state as it was (clean failure), hence consistent *)
Theorem C16_failed_op_leaves_state : forall w known o e, reachable_k w known -> step w o = Err e ->
  step' w o = w /\ InvAll (step' w o) known.
Proof. intros w known o e R. exact (failed_op_leaves_state w known o e (invall_reachable w known R)). Qed.

(* the only KeyErrors are the built-in ones *)
Theorem C16_keyerror_exactly_builtin : forall w known o, reachable_k w known -> op_okb w known o = true ->
  (step w o = Err EKey <-> builtin_keyerror w o).
Proof. intros w known o R. exact (keyerror_iff w known o (invall_reachable w known R)). Qed.

(* non-vacuity: IRs 1, 2; modules 3, 4, 5; sections 6, 7; interval 8.  extend; insert of a module already in the list
   (moved to the front); reverse; append to the other IR (moved); item assignment with a negative index of a module
   owned by the other IR (moved, the replaced module detached); set update with two iterables, |= moving a section,
   ^= moving it back; then the failures with the built-in exception types and the refused same-list shapes. *)
Example C16_example :
  let build := [ONew 1 KIR 101 None 0 0 0 PNone; ONew 2 KIR 102 None 0 0 0 PNone; ONew 3 KMod 103 None 0 0 0 PNone;
     ONew 4 KMod 104 None 0 0 0 PNone; ONew 5 KMod 105 None 0 0 0 PNone; ONew 6 KSec 106 None 0 0 0 PNone;
     ONew 7 KSec 107 None 0 0 0 PNone; ONew 8 KBI 108 None 4 0 0 PNone] in
  let h1 := build ++ [OModExtend 1 [3; 4; 5]] in
  let h2 := h1 ++ [OModInsert 1 0 5] in
  let h3 := h2 ++ [OModReverse 1] in
  let h4 := h3 ++ [OModAppend 2 3] in
  let h5 := h4 ++ [OModSetItem 1 (-1) 3] in
  let h6 := h5 ++ [OSet 3 [KSec] SUpdate [[6]; [7]]; OSet 4 [KSec] SIor [[6]]] in
  let h7 := h6 ++ [OSet 3 [KSec] SIxor [[6; 7]]] in
  let run l := fst (run_guarded w0 [] l) in
  let w7 := run h7 in
  let outcome o := (op_okb w7 [8; 7; 6; 5; 4; 3; 2; 1] o, match step w7 o with Ok _ => None | Err e => Some e end) in
  all_guarded_ok w0 [] h7 = true /\
  (kids (run h1) 1, kids (run h2) 1, kids (run h3) 1) = ([3; 4; 5], [5; 3; 4], [4; 3; 5]) /\
  (kids (run h4) 1, kids (run h4) 2) = ([4; 5], [3]) /\
  (kids (run h5) 1, kids (run h5) 2, par (run h5) 5, par (run h5) 3) = ([4; 3], [], None, Some 1) /\
  (kids (run h6) 3, kids (run h6) 4) = ([7], [6]) /\ (kids w7 3, kids w7 4) = ([6], []) /\
  map outcome [OModRemove 1 5; OModPop 1 7; OModDelItem 1 (-3); OSet 3 [KSec] SRemove [[7]]; OSet 4 [KSec] SPop [];
               OSymxPopitem 8; OSymxDel 8 3; OModSetItem 1 0 3; OModSetSlice 1 (Some 0) (Some 1) [3]]
  = [(true, Some EValue); (true, Some EIndex); (true, Some EIndex); (true, Some EKey); (true, Some EKey);
     (true, Some EKey); (true, Some EKey); (true, Some EImpossible); (true, Some EImpossible)] /\
  (kids (step' w7 (OModSetSlice 1 (Some 1) None [5; 3])) 1, kids (step' w7 (OModDelSlice 1 (Some (-1)) None)) 1,
   kids (step' w7 (OModClear 1)) 1, kids (step' w7 (OModPop 1 (-2))) 1) = ([4; 5; 3], [4], [], [3]).
Proof. vm_compute. repeat split. Qed.

Print Assumptions C16_set_add.
Print Assumptions C16_set_discard.
Print Assumptions C16_set_remove.
Print Assumptions C16_set_pop.
Print Assumptions C16_set_clear.
Print Assumptions C16_set_update.
Print Assumptions C16_set_ior.
Print Assumptions C16_set_iand.
Print Assumptions C16_set_isub.
Print Assumptions C16_set_ixor.
Print Assumptions C16_modlist_append.
Print Assumptions C16_modlist_insert.
Print Assumptions C16_modlist_extend.
Print Assumptions C16_modlist_remove.
Print Assumptions C16_modlist_pop_delitem.
Print Assumptions C16_modlist_delslice.
Print Assumptions C16_modlist_setitem.
Print Assumptions C16_modlist_setitem_index_error.
Print Assumptions C16_modlist_setslice.
Print Assumptions C16_same_list_assignment_refused.
Print Assumptions C16_modlist_clear.
Print Assumptions C16_modlist_reverse.
Print Assumptions C16_symx_iteration_sorted.
Print Assumptions C16_symx_setitem.
Print Assumptions C16_symx_del_pop.
Print Assumptions C16_symx_popitem.
Print Assumptions C16_symx_setdefault.
Print Assumptions C16_symx_update.
Print Assumptions C16_symx_clear.
Print Assumptions C16_symx_assign.
Print Assumptions C16_symx_frame.
Print Assumptions C16_moved_not_duplicated.
Print Assumptions C16_remove_id_keeps_order.
Print Assumptions C16_failed_op_leaves_state.
Print Assumptions C16_keyerror_exactly_builtin.
Print Assumptions C16_example.
