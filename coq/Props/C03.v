(* C03 -- ir.get_by_uuid(u) finds exactly the nodes currently attached to that IR: node n is returned iff n is
   reachable from ir through containment and n.uuid = u; independently for every IR; after any history.
   Model: Model/World.v (cache, cache_add / cache_remove, the hooks of the owning collections, get_by_uuid),
   Model/WorldGuard.v (the API typing discipline `op_okb`, pairwise distinct UUIDs; reachable states).
   Invariant: InvDefs.CacheInv, part of WorldInv.InvAll.  Only property theorems here; proofs in
   Proofs/SetOpsProofs.v, Proofs/ModListProofs.v (preservation), Proofs/WorldInv.v, Proofs/WorldProps.v.
   The World model assumes globally distinct UUIDs; the property only assumes them distinct among the nodes attached to ONE IR
   ("different IRs may hold nodes with equal UUIDs, e.g. two loads of one file").  The last block of theorems (module Twin, over
   Model/TwinCache.v: the owning sets' add / discard / ^= on per-IR tables, elements = flattened subtrees) covers that premise. *)
From Coq Require Import ZArith List Bool.
From V Require Import Result LazyTree World WorldGuard ForestDefs InvDefs WorldInv WorldProps.
From V Require ModListProofs ScheduleProofs TwinCache TwinCacheProofs.
Import ListNotations.
Open Scope Z_scope.

(* in every reachable state, for every IR: the table answers u with n iff n is attached to ir and carries u;
   consequently it answers None for every other UUID *)
Theorem C03_cache_exact : forall w known ir, reachable_k w known -> has w ir = true -> kindof w ir = KIR ->
  forall u n, get_by_uuid w ir u = Some n <-> In n (reach w ir) /\ nuuid (getn w n) = u.
Proof. intros w known ir R H K. exact (proj2 (reach_cache w known R ir H K)). Qed.

Theorem C03_none_otherwise : forall w known ir u, reachable_k w known -> has w ir = true -> kindof w ir = KIR ->
  (get_by_uuid w ir u = None <-> forall n, In n (reach w ir) -> nuuid (getn w n) <> u).
Proof. intros w known ir u R. exact (cache_none w known ir u (invall_reachable w known R)). Qed.

(* `reach` (the IR, its modules, their sections / proxies / symbols, the sections' intervals, the intervals'
   blocks: four levels of `kids`) is containment as seen from the node: the chain of parent attributes *)
Theorem C03_reach_is_containment : forall w known ir n, reachable_k w known -> kindof w ir = KIR ->
  (In n (reach w ir) <-> n = ir \/ ir_of w n = Some ir).
Proof. intros w known ir n R. exact (ModListProofs.reach_ir_of w known ir n (reach_forest w known R)). Qed.

(* no leakage between IRs: a node found through one IR is found through no other *)
Theorem C03_no_leak : forall w known ir1 ir2 u1 u2 n, reachable_k w known ->
  has w ir1 = true -> kindof w ir1 = KIR -> has w ir2 = true -> kindof w ir2 = KIR ->
  get_by_uuid w ir1 u1 = Some n -> get_by_uuid w ir2 u2 = Some n -> ir1 = ir2.
Proof. intros w known ir1 ir2 u1 u2 n R. exact (cache_no_leak w known ir1 ir2 u1 u2 n (invall_reachable w known R)). Qed.

(* one entry per UUID, one UUID per attached node *)
Theorem C03_one_entry_per_uuid : forall w known ir, reachable_k w known -> has w ir = true -> kindof w ir = KIR ->
  NoDup (map fst (cache w ir)).
Proof. intros w known ir R H K. exact (proj1 (reach_cache w known R ir H K)). Qed.

(* "at every moment": reachable states are closed under every guarded operation, so the theorems above hold
   after each step of any history, and also when lookups are interleaved (they only touch lazy interval trees) *)
Theorem C03_every_step : forall w known o, reachable_k w known -> op_okb w known o = true ->
  reachable_k (step' w o) (known_after o known).
Proof. exact reachable_k_step. Qed.

Theorem C03_with_lookups_interleaved : forall its,
  CacheInv (fst (ScheduleProofs.run_sched w0 [] its)).
Proof. intros its. exact (inv_cache _ _ (ia_inv _ _ (invall_sched its))). Qed.

(* the deletions `del cache[uuid]` performed when a subtree is detached never hit a missing key: an operation
   raises KeyError only where the built-in set / dict does (remove of a non-member, pop from an empty set,
   del / pop of a missing offset, popitem on an empty map) *)
Theorem C03_uuid_table_deletions_total : forall w known o, reachable_k w known -> op_okb w known o = true ->
  step w o <> Err EKey \/ builtin_keyerror w o.
Proof. intros w known o R. exact (no_keyerror w known o (invall_reachable w known R)). Qed.

Theorem C03_keyerror_exactly_builtin : forall w known o, reachable_k w known -> op_okb w known o = true ->
  (step w o = Err EKey <-> builtin_keyerror w o).
Proof. intros w known o R. exact (keyerror_iff w known o (invall_reachable w known R)). Qed.

(* non-vacuity: two IRs (1, 2) with one module each (3, 4); a section 5 holding interval 6 holding block 7 is
   attached to module 3, then moved -- whole subtree -- to module 4 of the other IR.  Every operation is inside
   the guard and succeeds; before the move the subtree is found through IR 1 only, after it through IR 2 only. *)
Example C03_example :
  let build := [ONew 1 KIR 101 None 0 0 0 PNone; ONew 2 KIR 102 None 0 0 0 PNone;
                ONew 3 KMod 103 None 0 0 0 PNone; ONew 4 KMod 104 None 0 0 0 PNone;
                ONew 5 KSec 105 None 0 0 0 PNone; ONew 6 KBI 106 (Some 16) 8 0 0 PNone;
                ONew 7 KCode 107 None 4 2 0 PNone;
                OSet 5 [KBI] SAdd [[6]]; OSet 6 [KCode; KData] SAdd [[7]]; OSet 3 [KSec] SAdd [[5]];
                OModAppend 1 3; OModAppend 2 4] in
  let move := [OSetParent 5 (Some 4)] in
  let wa := fst (run_guarded w0 [] build) in
  let wb := fst (run_guarded w0 [] (build ++ move)) in
  all_guarded_ok w0 [] (build ++ move) = true /\
  map (get_by_uuid wa 1) [101; 103; 105; 106; 107; 104] = [Some 1; Some 3; Some 5; Some 6; Some 7; None] /\
  map (get_by_uuid wa 2) [102; 104; 105; 106; 107] = [Some 2; Some 4; None; None; None] /\
  map (get_by_uuid wb 1) [101; 103; 105; 106; 107] = [Some 1; Some 3; None; None; None] /\
  map (get_by_uuid wb 2) [102; 104; 105; 106; 107; 103] = [Some 2; Some 4; Some 5; Some 6; Some 7; None].
Proof. vm_compute. repeat split. Qed.

(* ---------- equal UUIDs in different IRs: the per-IR premise (Model/TwinCache.v) ---------- *)
(* ROUTE INDEPENDENCE.  Two histories -- any two -- that arrive at the same nodes with the same attributes (the parent attributes
   included: containment as seen from the node) answer every UUID lookup alike, entry for entry: the table an IR ends up with does
   not depend on the route by which its nodes came to it (constructor arguments, attribute assignment, collection methods, subtrees
   moved whole or rebuilt piece by piece, detours through other IRs). *)
Lemma same_ir_of : forall w1 w2, (forall n, nodes w1 n = nodes w2 n) -> forall n, ir_of w1 n = ir_of w2 n.
Proof.
  intros w1 w2 H n.
  assert (G : forall x, getn w1 x = getn w2 x) by (intro x; unfold getn; rewrite H; reflexivity).
  assert (P : forall x, par w1 x = par w2 x) by (intro x; unfold par; rewrite G; reflexivity).
  assert (B1 : forall o, bind_o o (par w1) = bind_o o (par w2)) by (intros [x|]; [cbn; apply P|reflexivity]).
  assert (B2 : forall o, bind_o o (fun s => bind_o (par w1 s) (par w1)) = bind_o o (fun s => bind_o (par w2 s) (par w2)))
    by (intros [x|]; [cbn; rewrite P; apply B1|reflexivity]).
  assert (B3 : forall o, bind_o o (fun b => bind_o (par w1 b) (fun s => bind_o (par w1 s) (par w1)))
                         = bind_o o (fun b => bind_o (par w2 b) (fun s => bind_o (par w2 s) (par w2))))
    by (intros [x|]; [cbn; rewrite P; apply B2|reflexivity]).
  unfold ir_of, kindof. rewrite G. destruct (nk (getn w2 n)); try reflexivity; rewrite ?P; auto.
Qed.

Theorem C03_route_independent : forall w1 k1 w2 k2 ir, reachable_k w1 k1 -> reachable_k w2 k2 ->
  (forall n, nodes w1 n = nodes w2 n) -> has w1 ir = true -> kindof w1 ir = KIR ->
  forall u, get_by_uuid w1 ir u = get_by_uuid w2 ir u.
Proof.
  intros w1 k1 w2 k2 ir R1 R2 HN Hh Hk u.
  assert (G : forall x, getn w1 x = getn w2 x) by (intro x; unfold getn; rewrite HN; reflexivity).
  assert (Hh2 : has w2 ir = true) by (unfold has in *; rewrite <- HN; exact Hh).
  assert (Hk2 : kindof w2 ir = KIR) by (unfold kindof in *; rewrite <- G; exact Hk).
  pose proof (C03_cache_exact w1 k1 ir R1 Hh Hk) as E1.
  pose proof (C03_cache_exact w2 k2 ir R2 Hh2 Hk2) as E2.
  assert (Same : forall n, (In n (reach w1 ir) /\ nuuid (getn w1 n) = u) <-> (In n (reach w2 ir) /\ nuuid (getn w2 n) = u)).
  { intro n. rewrite (C03_reach_is_containment w1 k1 ir n R1 Hk), (C03_reach_is_containment w2 k2 ir n R2 Hk2),
      (same_ir_of w1 w2 HN), G. reflexivity. }
  destruct (get_by_uuid w1 ir u) as [n1|] eqn:A1.
  - symmetry. apply E2. apply Same. apply E1. exact A1.
  - destruct (get_by_uuid w2 ir u) as [n2|] eqn:A2; [|reflexivity].
    apply E2, Same, E1 in A2. rewrite A1 in A2. discriminate.
Qed.

Module Twin.
Import TwinCache TwinCacheProofs.

(* every history of add / discard / ^= (the two-pass operator of the code) over any number of IRs, started from empty sets, in which
   AFTER each call the nodes attached to the IR it was issued on carry pairwise distinct UUIDs (`premise`; nothing is asked of
   what different IRs hold): every table answers exactly for the nodes attached to its IR, the sets hold no element twice, every
   element is in at most one set, and no `del cache[uuid]` ever hits a missing key -- at every intermediate state *)
Theorem C03_per_ir_distinct_uuids_suffice : forall subs ops, run_ok (st0 subs) ops ->
  all_steps (st0 subs) ops /\ Inv (fst (run (st0 subs) ops)) /\ snd (run (st0 subs) ops) = true.
Proof.
  intros subs ops H. split; [exact (run_all_steps ops (st0 subs) (inv_st0 subs) H)|exact (run_from_st0 subs ops H)].
Qed.

(* what Inv says, spelled out for one IR: get_by_uuid u = Some n  iff  (u, n) is registered by a member of that IR's set *)
Theorem C03_twin_exact_means : forall s, Inv s -> forall ir u n,
  lookup s ir u = Some n <-> exists x, In x (members (irs s ir)) /\ In (u, n) (sub s x).
Proof.
  intros s [_ H] ir u n. destruct (H ir) as [_ E]. rewrite (E u n). unfold attached. rewrite in_flat_map. reflexivity.
Qed.

(* add: the premise is exactly "distinct afterwards" (sufficient and necessary); whatever other IRs hold is irrelevant *)
Theorem C03_twin_add : forall s ir x, Inv s ->
  (NoDup (map fst (sub s x)) /\
   (forall y, In y (members (irs s ir)) -> y <> x -> forall u, In u (map fst (sub s x)) -> ~ In u (map fst (sub s y)))
   -> Inv (fst (add s ir x)) /\ snd (add s ir x) = true) /\
  (distinct (fst (add s ir x)) ir ->
   NoDup (map fst (sub s x)) /\
   (forall y, In y (members (irs s ir)) -> y <> x -> forall u, In u (map fst (sub s x)) -> ~ In u (map fst (sub s y)))).
Proof.
  intros s ir x HI. split.
  - intros [H1 H2]. exact (add_inv s ir x HI H1 H2).
  - exact (add_premise_necessary s ir x HI).
Qed.

Theorem C03_twin_discard : forall s ir x, Inv s -> Inv (fst (discard s ir x)) /\ snd (discard s ir x) = true.
Proof. exact discard_inv. Qed.

(* no leakage: an operation on one IR's set leaves every other IR alone, except the one that loses the moved element *)
Theorem C03_twin_no_leak :
  (forall s ir ir' x, ir' <> ir -> irs (fst (discard s ir x)) ir' = irs s ir') /\
  (forall s ir ir' x, ir' <> ir -> ~ In x (members (irs s ir')) -> irs (fst (add s ir x)) ir' = irs s ir') /\
  (forall s ir ir' x, owned s -> ir' <> ir -> In x (members (irs s ir')) -> irs (fst (add s ir x)) ir' = irs (fst (discard s ir' x)) ir').
Proof. exact (conj discard_other_ir_untouched (conj add_other_ir_untouched add_other_ir_discard)). Qed.

(* the repaired ^= (fix 8d2f771): exact whenever the members AFTER the operator -- survivors and newcomers -- carry pairwise
   distinct UUIDs; a newcomer may carry the UUIDs of a member that leaves (the twin of another load) *)
Theorem C03_ixor_two_pass_exact : forall s ir args, Inv s ->
  (forall x, In x args -> NoDup (map fst (sub s x))) ->
  let final := filter (fun y => negb (mem y args)) (members (irs s ir)) ++
               filter (fun x => negb (mem x (members (irs s ir)))) (dedup args) in
  NoDup (map fst (flat_map (sub s) final)) ->
  Inv (fst (ixor_twopass s ir args)) /\ snd (ixor_twopass s ir args) = true /\
  (forall x, In x (members (irs (fst (ixor_twopass s ir args)) ir)) <-> In x final).
Proof. exact ixor_twopass_inv. Qed.

(* the inherited operator (collections.abc.MutableSet.__ixor__, the code before the fix) is NOT: member 1 of IR 1 exchanged for
   its twin 2 of IR 2, the twin first -- the premise holds before and after, the operator reports success, element 2 is attached,
   its UUID 100 is not found, and the next detach raises KeyError (defect D20, found by the second red-team round) *)
Theorem C03_ixor_interleaved_refuted : exists s ir args, Inv s /\ (forall x, In x args -> NoDup (map fst (sub s x))) /\
  NoDup (map fst (flat_map (sub s) (filter (fun y => negb (mem y args)) (members (irs s ir)) ++
                                    filter (fun x => negb (mem x (members (irs s ir)))) (dedup args)))) /\
  ~ exact (fst (ixor_interleaved s ir args)) ir /\
  snd (ixor_interleaved s ir args) = true /\
  members (irs (fst (ixor_interleaved s ir args)) ir) = [2] /\
  In (100, 2) (attached (fst (ixor_interleaved s ir args)) ir) /\
  lookup (fst (ixor_interleaved s ir args)) ir 100 = None /\
  snd (discard (fst (ixor_interleaved s ir args)) ir 2) = false.
Proof. exact ixor_interleaved_refuted. Qed.

(* ... and it WAS right under World.v's assumption (no UUID of a newcomer among the current members of the IR, in particular
   globally distinct UUIDs): there no IR can tell the two operators apart -- why the World theorems and eleven seeding waves never
   saw the defect *)
Theorem C03_ixor_interleaved_right_when_uuids_globally_distinct : forall s ir args, Inv s ->
  (forall x, In x args -> NoDup (map fst (sub s x))) ->
  NoDup (map fst (flat_map (sub s) (xor_final s ir args))) ->
  (forall x, In x args -> ~ In x (members (irs s ir)) -> forall y, In y (members (irs s ir)) ->
     forall u, In u (map fst (sub s x)) -> ~ In u (map fst (sub s y))) ->
  Inv (fst (ixor_interleaved s ir args)) /\ snd (ixor_interleaved s ir args) = true /\
  (forall x, In x (members (irs (fst (ixor_interleaved s ir args)) ir)) <-> In x (members (irs (fst (ixor_twopass s ir args)) ir))) /\
  (forall u, lookup (fst (ixor_interleaved s ir args)) ir u = lookup (fst (ixor_twopass s ir args)) ir u).
Proof. exact ixor_interleaved_eq_twopass. Qed.

(* item / slice assignment and insert of the module list (elements = modules with their subtrees): the hooks run for the leavers
   first, then for the enterers -- exact whenever the members AFTER the assignment carry pairwise distinct UUIDs; an enterer may
   carry the UUIDs of an element that leaves (`ir.modules[i] = twin`), and one that another IR holds leaves that IR *)
Theorem C03_list_assignment_with_twins : forall s ir new, Inv s -> NoDup new ->
  (forall x, In x new -> NoDup (map fst (sub s x))) ->
  NoDup (map fst (flat_map (sub s) new)) ->
  Inv (fst (assign s ir new)) /\ snd (assign s ir new) = true /\
  (forall x, In x (members (irs (fst (assign s ir new)) ir)) <-> In x new) /\
  (forall ir' y, ir' <> ir -> (In y (members (irs (fst (assign s ir new)) ir')) <-> In y (members (irs s ir')) /\ ~ In y new)).
Proof.
  intros s ir new HI Hn Hs Hd. destruct (assign_inv s ir new HI Hn Hs Hd) as (A & B & C).
  refine (conj A (conj B (conj C _))). intros ir' y Hne. exact (assign_other_irs_simple s ir ir' new HI Hne y).
Qed.

(* ... and the order of the hooks matters: the twin entering BEFORE its counterpart leaves loses the twin's table entries *)
Example C03_list_assignment_order_matters :
  (let s' := fst (discard (fst (add s6 1 2)) 1 1) in
   members (irs s' 1) = [2] /\ lookup s' 1 100 = None /\ snd (discard s' 1 2) = false) /\
  (Inv (fst (assign s6 1 [2])) /\ snd (assign s6 1 [2]) = true /\ members (irs (fst (assign s6 1 [2])) 1) = [2] /\
   members (irs (fst (assign s6 1 [2])) 2) = [] /\ lookup (fst (assign s6 1 [2])) 1 100 = Some 2 /\
   lookup (fst (assign s6 1 [2])) 1 101 = Some 12 /\ lookup (fst (assign s6 1 [2])) 2 100 = None).
Proof. exact (conj assign_enter_first_wrong assign_twin_s6). Qed.

(* non-vacuity: the twin exchange itself, on the state of the refutation, with the repaired operator *)
Example C03_twin_example :
  run_ok (st0 subs6) [TAdd 1 1; TAdd 2 2; TIxor 1 [2; 1]; TDiscard 1 2; TAdd 2 1] /\
  Inv (fst (ixor_twopass s6 1 [2; 1])) /\ snd (ixor_twopass s6 1 [2; 1]) = true /\
  members (irs (fst (ixor_twopass s6 1 [2; 1])) 1) = [2] /\
  lookup (fst (ixor_twopass s6 1 [2; 1])) 1 100 = Some 2 /\
  lookup (fst (ixor_twopass s6 1 [2; 1])) 1 101 = Some 12 /\
  snd (discard (fst (ixor_twopass s6 1 [2; 1])) 1 2) = true.
Proof.
  split; [|exact ixor_twopass_same_state_fine].
  cbn [run_ok premise]. repeat split.
  - vm_compute; repeat (constructor; [cbn; intuition discriminate|]); constructor.
  - vm_compute. intuition discriminate.
  - vm_compute; repeat (constructor; [cbn; intuition discriminate|]); constructor.
  - vm_compute. intuition discriminate.
  - intros x [<-|[<-|[]]]; vm_compute; repeat (constructor; [cbn; intuition discriminate|]); constructor.
  - vm_compute; repeat (constructor; [cbn; intuition discriminate|]); constructor.
  - vm_compute; repeat (constructor; [cbn; intuition discriminate|]); constructor.
  - vm_compute. intuition discriminate.
Qed.
End Twin.

Print Assumptions C03_cache_exact.
Print Assumptions C03_route_independent.
Print Assumptions C03_none_otherwise.
Print Assumptions C03_reach_is_containment.
Print Assumptions C03_no_leak.
Print Assumptions C03_one_entry_per_uuid.
Print Assumptions C03_every_step.
Print Assumptions C03_with_lookups_interleaved.
Print Assumptions C03_uuid_table_deletions_total.
Print Assumptions C03_keyerror_exactly_builtin.
Print Assumptions C03_example.
Print Assumptions Twin.C03_per_ir_distinct_uuids_suffice.
Print Assumptions Twin.C03_twin_exact_means.
Print Assumptions Twin.C03_twin_add.
Print Assumptions Twin.C03_twin_discard.
Print Assumptions Twin.C03_twin_no_leak.
Print Assumptions Twin.C03_ixor_two_pass_exact.
Print Assumptions Twin.C03_ixor_interleaved_refuted.
Print Assumptions Twin.C03_ixor_interleaved_right_when_uuids_globally_distinct.
Print Assumptions Twin.C03_twin_example.
Print Assumptions Twin.C03_list_assignment_with_twins.
Print Assumptions Twin.C03_list_assignment_order_matters.
