(* C03 -- ir.get_by_uuid(u) finds exactly the nodes currently attached to that IR: node n is returned iff n is
   reachable from ir through containment and n.uuid = u; independently for every IR; after any history.
   Model: Model/World.v (cache, cache_add / cache_remove, the hooks of the owning collections, get_by_uuid),
   Model/WorldGuard.v (the API typing discipline `op_okb`, pairwise distinct UUIDs; reachable states).
   Invariant: InvDefs.CacheInv, part of WorldInv.InvAll.  Only property theorems here; proofs in
   Proofs/SetOpsProofs.v, Proofs/ModListProofs.v (preservation), Proofs/WorldInv.v, Proofs/WorldProps.v. *)
From Coq Require Import ZArith List Bool.
From V Require Import Result LazyTree World WorldGuard ForestDefs InvDefs WorldInv WorldProps.
From V Require ModListProofs ScheduleProofs.
Import ListNotations.
Open Scope Z_scope.

(* in every reachable state, for every IR: the table answers u with n iff n is attached to ir and carries u;
   consequently it answers None for every other UUID *)
Theorem C03_cache_exact : forall w known ir, reachable_k w known -> has w ir = true -> kindof w ir = KIR ->
  forall u n, get_by_uuid w ir u = Some n <-> In n (reach w ir) /\ nuuid (getn w n) = u.
Proof. intros w known ir R H K. exact (proj2 (reach_cache w known R ir H K)). Qed.

Theorem C03_none_otherwise : forall w known ir u, reachable_k w known -> has w ir = true -> kindof w ir = KIR ->
  (get_by_uuid w ir u = None <-> forall n, In n (reach w ir) -> nuuid (getn w n) <> u).
Proof. intros w known ir u R. exact (cache_none w known ir u (invall_reachable w known R)). Qed.

(* `reach` (the IR, its modules, their sections / proxies / symbols, the sections' intervals, the intervals'
   blocks: four levels of `kids`) is containment as seen from the node: the chain of parent attributes *)
Theorem C03_reach_is_containment : forall w known ir n, reachable_k w known -> kindof w ir = KIR ->
  (In n (reach w ir) <-> n = ir \/ ir_of w n = Some ir).
Proof. intros w known ir n R. exact (ModListProofs.reach_ir_of w known ir n (reach_forest w known R)). Qed.

(* no leakage between IRs: a node found through one IR is found through no other *)
Theorem C03_no_leak : forall w known ir1 ir2 u1 u2 n, reachable_k w known ->
  has w ir1 = true -> kindof w ir1 = KIR -> has w ir2 = true -> kindof w ir2 = KIR ->
  get_by_uuid w ir1 u1 = Some n -> get_by_uuid w ir2 u2 = Some n -> ir1 = ir2.
Proof. intros w known ir1 ir2 u1 u2 n R. exact (cache_no_leak w known ir1 ir2 u1 u2 n (invall_reachable w known R)). Qed.

(* one entry per UUID, one UUID per attached node *)
Theorem C03_one_entry_per_uuid : forall w known ir, reachable_k w known -> has w ir = true -> kindof w ir = KIR ->
  NoDup (map fst (cache w ir)).
Proof. intros w known ir R H K. exact (proj1 (reach_cache w known R ir H K)). Qed.

(* "at every moment": reachable states are closed under every guarded operation, so the theorems above hold
   after each step of any history, and also when lookups are interleaved (they only touch lazy interval trees) *)
Theorem C03_every_step : forall w known o, reachable_k w known -> op_okb w known o = true ->
  reachable_k (step' w o) (known_after o known).
Proof. exact reachable_k_step. Qed.

Theorem C03_with_lookups_interleaved : forall its,
  CacheInv (fst (ScheduleProofs.run_sched w0 [] its)).
Proof. intros its. exact (inv_cache _ _ (ia_inv _ _ (invall_sched its))). Qed.

(* the deletions `del cache[uuid]` performed when a subtree is detached never hit a missing key: an operation
   raises KeyError only where the built-in set / dict does (remove of a non-member, pop from an empty set,
   del / pop of a missing offset, popitem on an empty map) *)
Theorem C03_uuid_table_deletions_total : forall w known o, reachable_k w known -> op_okb w known o = true ->
  step w o <> Err EKey \/ builtin_keyerror w o.
Proof. intros w known o R. exact (no_keyerror w known o (invall_reachable w known R)). Qed.

Theorem C03_keyerror_exactly_builtin : forall w known o, reachable_k w known -> op_okb w known o = true ->
  (step w o = Err EKey <-> builtin_keyerror w o).
Proof. intros w known o R. exact (keyerror_iff w known o (invall_reachable w known R)). Qed.

(* non-vacuity: two IRs (1, 2) with one module each (3, 4); a section 5 holding interval 6 holding block 7 is
   attached to module 3, then moved -- whole subtree -- to module 4 of the other IR.  Every operation is inside
   the guard and succeeds; before the move the subtree is found through IR 1 only, after it through IR 2 only. *)
Example C03_example :
  let build := [ONew 1 KIR 101 None 0 0 0 PNone; ONew 2 KIR 102 None 0 0 0 PNone;
                ONew 3 KMod 103 None 0 0 0 PNone; ONew 4 KMod 104 None 0 0 0 PNone;
                ONew 5 KSec 105 None 0 0 0 PNone; ONew 6 KBI 106 (Some 16) 8 0 0 PNone;
                ONew 7 KCode 107 None 4 2 0 PNone;
                OSet 5 [KBI] SAdd [[6]]; OSet 6 [KCode; KData] SAdd [[7]]; OSet 3 [KSec] SAdd [[5]];
                OModAppend 1 3; OModAppend 2 4] in
  let move := [OSetParent 5 (Some 4)] in
  let wa := fst (run_guarded w0 [] build) in
  let wb := fst (run_guarded w0 [] (build ++ move)) in
  all_guarded_ok w0 [] (build ++ move) = true /\
  map (get_by_uuid wa 1) [101; 103; 105; 106; 107; 104] = [Some 1; Some 3; Some 5; Some 6; Some 7; None] /\
  map (get_by_uuid wa 2) [102; 104; 105; 106; 107] = [Some 2; Some 4; None; None; None] /\
  map (get_by_uuid wb 1) [101; 103; 105; 106; 107] = [Some 1; Some 3; None; None; None] /\
  map (get_by_uuid wb 2) [102; 104; 105; 106; 107; 103] = [Some 2; Some 4; Some 5; Some 6; Some 7; None].
Proof. vm_compute. repeat split. Qed.

Print Assumptions C03_cache_exact.
Print Assumptions C03_none_otherwise.
Print Assumptions C03_reach_is_containment.
Print Assumptions C03_no_leak.
Print Assumptions C03_one_entry_per_uuid.
Print Assumptions C03_every_step.
Print Assumptions C03_with_lookups_interleaved.
Print Assumptions C03_uuid_table_deletions_total.
Print Assumptions C03_keyerror_exactly_builtin.
Print Assumptions C03_example.
