(* C11 placeholder: theorems land with Proofs/CfgProofs.v *)
From Coq Require Import ZArith List.
From V Require Import Result Cfg.
Import ListNotations.
Theorem C11_clear_empty : forall g, edges (clear g) = [].
Proof. reflexivity. Qed.
Print Assumptions C11_clear_empty.
