(* C11 -- the CFG is a set of edges with consistent adjacency views.
   Model: Model/Cfg.v (cfg.py: CFG over a networkx.MultiDiGraph, the collections.abc.MutableSet mixins; block.py:
   CfgNode.incoming_edges / outgoing_edges).  Abstraction: edges g = the set of (source, target, label) triples.
   Proofs: Proofs/CfgProofs.v. *)
From Coq Require Import ZArith List Bool.
From V Require Import Result Cfg CfgProofs.
Import ListNotations.
Open Scope Z_scope.

(* CFG(iterable), IR(cfg=iterable) and the CFG the loader builds from the edges of a file: a set holding exactly the listed
   edges, each once, whatever the iterable repeats; it is a reachable state, so everything below holds for it *)
Theorem C11_built_from_iterable : forall es,
  CfgInv (update [] es) /\ NoDup (edges (update [] es)) /\
  (forall x, In x (edges (update [] es)) <-> In x es) /\
  update [] es = crun [CUpdate es].
Proof.
  intros es.
  pose proof (update_inv [] es CfgInv_nil) as Hinv.
  split; [exact Hinv|]. split; [exact (proj1 Hinv)|]. split; [|reflexivity].
  intros x. pose proof (update_spec [] es x) as H. cbn [edges map In] in H. tauto.
Qed.

(* every state reachable by any sequence of add, discard, remove, pop, clear, update, |=, &=, -=, ^= is a set
   (no triple twice; one multigraph edge per element) *)
Theorem C11_reachable_is_set : forall ops, CfgInv (crun ops).
Proof. exact crun_inv. Qed.

(* each operation is the mathematical set operation (cop_post is the abstract transformer), and fails exactly when
   the built-in set would (remove of an absent element, pop on the empty set) *)
Theorem C11_step_refines_set : forall g o g', CfgInv g -> cstep g o = Ok g' ->
  CfgInv g' /\ forall x, In x (edges g') <-> cop_post o (fun y => In y (edges g)) x.
Proof. exact cstep_ok. Qed.
Theorem C11_step_fails_like_set : forall g o er, cstep g o = Err er <-> cop_fails o g er.
Proof. exact cstep_err. Qed.

(* membership, length and iteration agree with that set *)
Theorem C11_contains : forall g e, contains g e = true <-> In e (edges g).
Proof. exact contains_spec. Qed.
Theorem C11_len : forall g, CfgInv g -> len g = Z.of_nat (length (edges g)).
Proof. exact len_spec. Qed.
Theorem C11_iter_nodup : forall ops, NoDup (edges (crun ops)).
Proof. intro ops. exact (proj1 (crun_inv ops)). Qed.

(* adding a present edge or discarding an absent one changes nothing *)
Theorem C11_add_present : forall g e, contains g e = true -> add g e = g.
Proof. exact add_present. Qed.
Theorem C11_discard_absent : forall g e, contains g e = false -> discard g e = g.
Proof. exact discard_absent. Qed.
Theorem C11_add : forall g e x, In x (edges (add g e)) <-> In x (edges g) \/ x = e.
Proof. intros g e x. apply add_spec. Qed.
Theorem C11_discard : forall g e, CfgInv g -> forall x, In x (edges (discard g e)) <-> In x (edges g) /\ x <> e.
Proof. exact discard_spec. Qed.

(* parallel edges differing only in label (a missing label is distinct from every label) coexist *)
Theorem C11_parallel : forall g s t l1 l2, l1 <> l2 ->
  contains (add (add g (s,t,l1)) (s,t,l2)) (s,t,l1) = true /\ contains (add (add g (s,t,l1)) (s,t,l2)) (s,t,l2) = true.
Proof. exact parallel_edges. Qed.
Theorem C11_parallel_discard_other : forall g e1 e2, CfgInv g -> e1 <> e2 -> contains g e2 = true -> contains (discard g e1) e2 = true.
Proof. exact parallel_discard_other. Qed.

(* adjacency views *)
Theorem C11_out_edges : forall g n x, In x (out_edges g n) <-> In x (edges g) /\ fst (fst x) = n.
Proof. intros g n x. apply out_edges_spec. Qed.
Theorem C11_in_edges : forall g n x, In x (in_edges g n) <-> In x (edges g) /\ snd (fst x) = n.
Proof. intros g n x. apply in_edges_spec. Qed.
Theorem C11_out_edges_once : forall g n, CfgInv g -> NoDup (out_edges g n).
Proof. exact out_edges_NoDup. Qed.
Theorem C11_in_edges_once : forall g n, CfgInv g -> NoDup (in_edges g n).
Proof. exact in_edges_NoDup. Qed.
Theorem C11_node_out : forall cfg_of ir_of_node n,
  node_out cfg_of ir_of_node n = match ir_of_node with Some ir => out_edges (cfg_of ir) n | None => [] end.
Proof. exact node_out_spec. Qed.
Theorem C11_node_in : forall cfg_of ir_of_node n,
  node_in cfg_of ir_of_node n = match ir_of_node with Some ir => in_edges (cfg_of ir) n | None => [] end.
Proof. exact node_in_spec. Qed.

(* comparisons *)
Theorem C11_le : forall g other, CfgInv g -> NoDup other -> le_set g other = true <-> incl (edges g) other.
Proof. exact le_set_spec. Qed.
Theorem C11_eq : forall g other, CfgInv g -> NoDup other -> eq_set g other = true <-> (forall x, In x (edges g) <-> In x other).
Proof. exact eq_set_spec. Qed.
Theorem C11_isdisjoint : forall g other, isdisjoint g other = true <-> (forall x, In x other -> ~ In x (edges g)).
Proof. exact isdisjoint_spec. Qed.

Print Assumptions C11_built_from_iterable.
Print Assumptions C11_reachable_is_set.
Print Assumptions C11_step_refines_set.
Print Assumptions C11_step_fails_like_set.
Print Assumptions C11_contains.
Print Assumptions C11_len.
Print Assumptions C11_iter_nodup.
Print Assumptions C11_add_present.
Print Assumptions C11_discard_absent.
Print Assumptions C11_add.
Print Assumptions C11_discard.
Print Assumptions C11_parallel.
Print Assumptions C11_parallel_discard_other.
Print Assumptions C11_out_edges.
Print Assumptions C11_in_edges.
Print Assumptions C11_out_edges_once.
Print Assumptions C11_in_edges_once.
Print Assumptions C11_node_out.
Print Assumptions C11_node_in.
Print Assumptions C11_le.
Print Assumptions C11_eq.
Print Assumptions C11_isdisjoint.
