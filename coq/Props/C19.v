(* C19 placeholder: theorems land with Proofs/ByteStoreProofs.v *)
From Coq Require Import ZArith List.
From V Require Import Result ByteStore.
Import ListNotations.
Theorem C19_init_size_is_len : forall s, init_size s = Z.of_nat (length (bbytes s)).
Proof. reflexivity. Qed.
Print Assumptions C19_init_size_is_len.
