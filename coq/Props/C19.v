(* C19 -- interval byte storage and block views stay consistent.
   Model: Model/ByteStore.v (byteinterval.py: constructor check, size / initialized_size setters, contents;
   block.py: ByteBlock.address / contents / contains_offset / contains_address).  Proofs: Proofs/ByteStoreProofs.v. *)
From Coq Require Import ZArith List Lia.
From V Require Import Result ByteStore ByteStoreProofs.
Import ListNotations.
Open Scope Z_scope.

(* initialized_size always equals the number of stored bytes *)
Theorem C19_init_size_is_len : forall s, init_size s = Z.of_nat (length (bbytes s)).
Proof. exact init_size_is_len. Qed.

(* construction (and loading, which re-runs the constructor) rejects more stored bytes than the size ... *)
Theorem C19_ctor_rejects : forall size init c,
  (match size with Some x => x | None => zlen c end) < (match init with Some x => x | None => zlen c end) ->
  ctor size init c = Err EValue.
Proof. exact ctor_rejects. Qed.

(* ... and what it accepts satisfies the invariant, with exactly the requested size and byte count *)
Theorem C19_ctor_accepts : forall size init c s, ctor size init c = Ok s ->
  0 <= (match init with Some x => x | None => zlen c end) ->
  BInv s /\ bsize s = (match size with Some x => x | None => zlen c end)
  /\ init_size s = (match init with Some x => x | None => zlen c end).
Proof. exact ctor_accepts. Qed.

(* assigning initialized_size pads with zero bytes or truncates *)
(* (beyond the current size the interval grows with its initialized bytes, as ByteInterval::setInitializedSize of the C++ API) *)
Theorem C19_set_init_length : forall s v, 0 <= v -> init_size (set_init s v) = v /\ bsize (set_init s v) = Z.max (bsize s) v.
Proof. exact set_init_spec. Qed.
Theorem C19_set_init_prefix : forall v l, 0 <= v ->
  firstn (Z.to_nat (Z.min v (zlen l))) (resize v l) = firstn (Z.to_nat (Z.min v (zlen l))) l.
Proof. exact resize_prefix. Qed.
Theorem C19_set_init_padding : forall v l i, zlen l <= i < v -> nth (Z.to_nat i) (resize v l) 1 = 0.
Proof. exact resize_padding. Qed.

(* shrinking size below the stored byte count truncates the stored bytes *)
Theorem C19_set_size : forall s v, 0 <= v -> bsize (set_size s v) = v /\
  bbytes (set_size s v) = firstn (Z.to_nat (Z.min v (zlen (bbytes s)))) (bbytes s) /\
  init_size (set_size s v) = Z.min v (init_size s).
Proof. exact set_size_spec. Qed.

(* ... whatever was stored before (also bytes assigned directly to `contents` beyond the size) *)
Theorem C19_set_size_truncates : forall s v, 0 <= v -> zlen (bbytes (set_size s v)) <= v.
Proof. exact set_size_truncates_anything. Qed.

(* so stored bytes never exceed size after ANY sequence of size / initialized_size assignments (any non-negative values),
   byte edits and in-size contents assignments ... *)
Theorem C19_bytes_le_size : forall ops s, BInv s -> BInv (brun s ops).
Proof. exact brun_inv. Qed.

(* ... and the interval can always be saved and loaded back (the reader re-runs the constructor on size + bytes) *)
Theorem C19_saveable : forall ops s, BInv s -> reload (brun s ops) = Ok (brun s ops).
Proof. exact brun_reload. Qed.

(* block views *)
Theorem C19_block_address : forall addr off,
  block_address addr off = match addr with Some a => Some (a + off) | None => None end.
Proof. exact block_address_spec. Qed.
Theorem C19_block_contents : forall s off size, 0 <= off -> 0 <= size ->
  block_contents s off size = firstn (Z.to_nat size) (skipn (Z.to_nat off) (bbytes s)) /\
  zlen (block_contents s off size) = Z.max 0 (Z.min size (zlen (bbytes s) - off)) /\
  forall i, 0 <= i < zlen (block_contents s off size) ->
    nth (Z.to_nat i) (block_contents s off size) 0 = nth (Z.to_nat (off + i)) (bbytes s) 0.
Proof. exact block_contents_spec. Qed.
Theorem C19_contains_offset : forall off size o, contains_offset off size o = true <-> off <= o < off + size.
Proof. exact contains_offset_spec. Qed.
Theorem C19_contains_address : forall addr off size a,
  contains_address addr off size a = true <-> exists ba, block_address addr off = Some ba /\ ba <= a < ba + size.
Proof. exact contains_address_via_block_address. Qed.

(* non-vacuity: shrink below the stored bytes, truncate, grow, pad *)
Example C19_example :
  BInv {| bsize := 8; bbytes := [1;2;3;4;5;6] |} /\
  brun {| bsize := 8; bbytes := [1;2;3;4;5;6] |} [BSetSize 4; BSetInit 2; BSetInit 7; BSetContents [9;9]; BSetSize 1]
  = {| bsize := 1; bbytes := [9] |}.
Proof. split; [unfold BInv, zlen; simpl; lia | vm_compute; reflexivity]. Qed.

Print Assumptions C19_init_size_is_len.
Print Assumptions C19_ctor_rejects.
Print Assumptions C19_ctor_accepts.
Print Assumptions C19_set_init_length.
Print Assumptions C19_set_init_prefix.
Print Assumptions C19_set_init_padding.
Print Assumptions C19_set_size.
Print Assumptions C19_set_size_truncates.
Print Assumptions C19_bytes_le_size.
Print Assumptions C19_saveable.
Print Assumptions C19_block_address.
Print Assumptions C19_block_contents.
Print Assumptions C19_contains_offset.
Print Assumptions C19_contains_address.
